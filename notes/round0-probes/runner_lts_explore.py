# Exhaustive exploration of the planned Runner LTS (sanity check of theorem statements, not a proof).
import sys, itertools
from collections import deque
def explore(N, C, bad=frozenset(), reader_fail=None):
    # state: (next, pills, rfailed, queue, inbox(tuple of tuples), wst(tuple), outbox, pending(frozenset), cur, nfin_stats(tuple of per-chunk flags merged), open(frozenset), failed)
    init=(0,0,False,(),tuple(() for _ in range(N)),tuple('I' for _ in range(N)),tuple(() for _ in range(N)),frozenset(),0,frozenset(),frozenset(range(N)),False, tuple(frozenset() for _ in range(N)))
    seen={init}; dq=deque([init]); dead=[]; finals=[]; maxdepth=0
    def succ(s):
        nxt,pills,rf,q,inb,wst,outb,pend,cur,macc,opn,failed,wacc=s
        out=[]
        if failed: return out
        for w in range(N):
            if wst[w]=='I':
                out.append(('req',w),) if False else None
                out.append((nxt,pills,rf,q+(w,),inb,wst[:w]+('W',)+wst[w+1:],outb,pend,cur,macc,opn,failed,wacc))
        if not rf and q:
            w=q[0]
            if reader_fail is not None and nxt==reader_fail:
                # reader raises: sends Err to all workers, stops
                inb2=tuple(inb[x]+(('E',),) for x in range(N))
                out.append((nxt,pills,True,q,inb2,wst,outb,pend,cur,macc,opn,failed,wacc))
            elif nxt<C:
                inb2=inb[:w]+(inb[w]+(('C',nxt),),)+inb[w+1:]
                out.append((nxt+1,pills,rf,q[1:],inb2,wst,outb,pend,cur,macc,opn,failed,wacc))
            elif pills<N:
                inb2=inb[:w]+(inb[w]+(('P',),),)+inb[w+1:]
                out.append((nxt,pills+1,rf,q[1:],inb2,wst,outb,pend,cur,macc,opn,failed,wacc))
        for w in range(N):
            if wst[w]=='W' and inb[w]:
                msg=inb[w][0]; inb2=inb[:w]+(inb[w][1:],)+inb[w+1:]
                if msg[0]=='C':
                    i=msg[1]
                    if i in bad:
                        out.append((nxt,pills,rf,q,inb2,wst[:w]+('D',)+wst[w+1:],outb[:w]+(outb[w]+(('E',),),)+outb[w+1:],pend,cur,macc,opn,failed,wacc))
                    else:
                        out.append((nxt,pills,rf,q,inb2,wst[:w]+('I',)+wst[w+1:],outb[:w]+(outb[w]+(('R',i),),)+outb[w+1:],pend,cur,macc,opn,failed,wacc[:w]+(wacc[w]|{i},)+wacc[w+1:]))
                elif msg[0]=='P':
                    out.append((nxt,pills,rf,q,inb2,wst[:w]+('D',)+wst[w+1:],outb[:w]+(outb[w]+(('F',wacc[w]),),)+outb[w+1:],pend,cur,macc,opn,failed,wacc))
                else:
                    out.append((nxt,pills,rf,q,inb2,wst[:w]+('D',)+wst[w+1:],outb[:w]+(outb[w]+(('E',),),)+outb[w+1:],pend,cur,macc,opn,failed,wacc))
        for w in opn:
            if outb[w]:
                msg=outb[w][0]; outb2=outb[:w]+(outb[w][1:],)+outb[w+1:]
                if msg[0]=='R':
                    p=set(pend)|{msg[1]}; c=cur
                    while c in p: p.remove(c); c+=1
                    out.append((nxt,pills,rf,q,inb,wst,outb2,frozenset(p),c,macc,opn,failed,wacc))
                elif msg[0]=='F':
                    out.append((nxt,pills,rf,q,inb,wst,outb2,pend,cur,macc|msg[1],opn-{w},failed,wacc))
                else:
                    out.append((nxt,pills,rf,q,inb,wst,outb2,pend,cur,macc,opn,True,wacc))
        return [o for o in out if o is not None]
    edges=0
    while dq:
        s=dq.popleft()
        nxt,pills,rf,q,inb,wst,outb,pend,cur,macc,opn,failed,wacc=s
        # safety: written prefix = cur ; exactly-once
        places=list(range(nxt,C) if not rf else range(nxt,C))+[m[1] for b in inb for m in b if m[0]=='C']+[m[1] for b in outb for m in b if m[0]=='R']+list(pend)+list(range(cur))
        if not any(True for _ in bad) and reader_fail is None:
            assert sorted(places)==list(range(C)), s
        ss=succ(s); edges+=len(ss)
        if not ss:
            if failed: finals.append(('FAILED',s))
            elif not opn: finals.append(('OK',s)); 
            else: dead.append(s)
        for t in ss:
            if t not in seen: seen.add(t); dq.append(t)
    return len(seen),edges,dead,finals
for N,C in ((1,2),(2,2),(2,3),(3,2)):
    st,ed,dead,finals=explore(N,C)
    oks=[f for f in finals if f[0]=='OK']
    assert all(f[1][8]==C and f[1][9]==frozenset(range(C)) for f in oks)
    print('fault-free N',N,'C',C,'states',st,'edges',ed,'deadlocks',len(dead),'finals',len(finals),'all OK with cur=C and stats=all:',len(oks)==len(finals))
for N,C,bad in ((2,3,{1}),(2,2,{0}),(3,2,{1})):
    st,ed,dead,finals=explore(N,C,frozenset(bad))
    print('bad chunk N',N,'C',C,bad,'states',st,'deadlocks',len(dead),'finals',set(f[0] for f in finals))
for N,C,rfail in ((2,3,1),(2,2,0),(2,2,2)):
    st,ed,dead,finals=explore(N,C,reader_fail=rfail)
    print('reader fail N',N,'C',C,rfail,'states',st,'deadlocks',len(dead),'finals',set(f[0] for f in finals))
