import itertools, random, sys
from cutadapt.qualtrim import quality_trim_index, nextseq_trim_index, poly_a_trim_index, expected_errors
from dnaio import SequenceRecord
def spec3(q, cutoff):
    n=len(q)
    S=[0]*(n+1)
    for i in range(n-1,-1,-1): S[i]=S[i+1]+cutoff-q[i]
    i0=-1
    for i in range(n-1,-1,-1):
        if S[i]<0: i0=i; break
    cand=[j for j in range(i0+1,n) if S[j]>0]
    if not cand: return n
    mx=max(S[j] for j in cand)
    return max(j for j in cand if S[j]==mx)   # shortest suffix on ties = largest index
def spec5(q, cutoff):
    n=len(q); P=[0]*(n+1)
    for i in range(n): P[i+1]=P[i]+cutoff-q[i]
    i0=n+1
    for i in range(1,n+1):
        if P[i]<0: i0=i; break
    cand=[j for j in range(1,min(i0,n+1)) if P[j]>0]
    if not cand: return 0
    mx=max(P[j] for j in cand)
    return min(j for j in cand if P[j]==mx)   # first maximum = shortest prefix on ties
bad=0; cnt=0
for base in (33,64):
  for n in range(0,8):
    for q in itertools.product((0,9,10,11,25), repeat=n):
        qs=''.join(chr(base+x) for x in q)
        for cf,cb in ((0,10),(10,10),(11,9),(0,0),(10,0),(26,26),(5,30)):
            cnt+=1
            st,sp=quality_trim_index(qs,cf,cb,base)
            a=spec5(q,cf); b=spec3(q,cb)
            exp=(a,b) if a<b else (0,0)
            if (st,sp)!=exp:
                bad+=1
                if bad<5: print('Q DIFF',q,cf,cb,(st,sp),exp)
print('qualtrim cases',cnt,'diffs',bad)
# nextseq
bad=0;cnt=0
random.seed(1)
for _ in range(100000):
    n=random.randint(0,12); q=[random.choice((0,5,19,20,21,40)) for _ in range(n)]
    seq=''.join(random.choice('ACGTgN') for _ in range(n)); cutoff=random.choice((0,10,20,21))
    r=SequenceRecord('x',seq,''.join(chr(33+x) for x in q))
    got=nextseq_trim_index(r,cutoff,33)
    q2=[cutoff-1 if b=='G' else x for b,x in zip(seq,q)]
    exp=spec3(q2,cutoff); cnt+=1
    if got!=exp:
        bad+=1
        if bad<5: print('N DIFF',seq,q,cutoff,got,exp)
print('nextseq cases',cnt,'diffs',bad)
# polyA
def spec_polya(s, rev=False):
    n=len(s)
    if rev:
        best=0;bi=0
        for L in range(1,n+1):
            t=s[:L]; oth=sum(c!='T' for c in t); sc=(L-oth)-2*oth
            if oth*5<=L and sc>best: best=sc; bi=L     # first (shortest) max
        return bi if bi>=3 else 0
    best=0;bi=n
    for L in range(1,n+1):
        t=s[n-L:]; oth=sum(c!='A' for c in t); sc=(L-oth)-2*oth
        if oth*5<=L and sc>best: best=sc; bi=n-L
    return bi if n-bi>=3 else n
bad=0;cnt=0
for n in range(0,11):
    for s in map(''.join, itertools.product('ATC', repeat=n)):
        for rev in (False,True):
            cnt+=1
            got=poly_a_trim_index(s,revcomp=rev); exp=spec_polya(s,rev)
            if got!=exp:
                bad+=1
                if bad<5: print('P DIFF',s,rev,got,exp)
print('polyA cases',cnt,'diffs',bad)
# expected errors: 4-lane summation order
import math
TBL=[float(x) for x in __import__('re').findall(r'^\s+([0-9.Ee+-]+)L,', open('/repo/src/cutadapt/expected_errors.h').read(), flags=__import__('re').M)]
assert len(TBL)==94
bad=0;cnt=0
for _ in range(50000):
    n=random.randint(0,23); q=[random.randint(0,93) for _ in range(n)]
    lanes=[0.0]*4; i=0
    while i < n-3:
        for t in range(4): lanes[t]+=TBL[q[i+t]]
        i+=4
    while i<n: lanes[0]+=TBL[q[i]]; i+=1
    exp=lanes[0]+lanes[1]+lanes[2]+lanes[3]
    got=expected_errors(''.join(chr(33+x) for x in q)); cnt+=1
    if got.hex()!=exp.hex():
        bad+=1
        if bad<5: print('E DIFF',q,got.hex(),exp.hex())
print('expected_errors cases',cnt,'bit-exact diffs',bad)
