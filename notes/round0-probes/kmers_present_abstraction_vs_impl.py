import random, sys
from cutadapt._kmer_finder import KmerFinder
from cutadapt._match_tables import matches_lookup
from cutadapt.kmer_heuristic import create_positions_and_kmers
def present_model(pk, seq, wref, wq):
    look=matches_lookup(wref,wq)
    def occ(kmer, s):
        L=len(kmer)
        for p in range(len(s)-L+1):
            if all(ord(s[p+t])<128 and bytes([ord(s[p+t])]) and (ord(s[p+t]) in look[ord(kmer[t])]) for t in range(L)): return True
        return False
    n=len(seq); oob=False
    for start,stop,kmers in pk:
        st=start; sp=0 if stop is None else stop
        if st<0:
            st=n+st
            if st<0: st=0
        elif st>n: continue
        if sp<0:
            sp=n+sp
            if sp<=0: continue
        elif sp==0: sp=n
        if sp-st<=0: continue
        if sp>n: oob=True; sp=n   # implementation reads past the end here
        w=seq[st:sp]
        if any(occ(k,w) for k in kmers): return True, oob
    return False, oob
random.seed(int(sys.argv[1])); N=int(sys.argv[2])
diff=0; oobc=0; oobdiff=0; cnt=0; pos=0
for it in range(N):
    m=random.randint(3,40)
    alpha=random.choice(['ACGT','ACGTN','AC'])
    ad=''.join(random.choice(alpha) for _ in range(m))
    rate=random.choice([0,0.1,0.2,0.3]); ov=random.randint(1,min(m,6))
    back=random.random()<0.6; front=random.random()<0.6 or not back; internal=random.random()<0.5
    wref='N' in ad; wq=random.random()<0.3
    pk=create_positions_and_kmers(ad,ov,rate,back,front,internal)
    try: kf=KmerFinder(pk,wref,wq)
    except ValueError: continue
    for _ in range(20):
        n=random.randint(0,60)
        seq=''.join(random.choice('ACGTNacgt') for _ in range(n))
        if random.random()<0.5 and n>3:
            p=random.randrange(n); L=random.randint(1,m); piece=ad[:L] if random.random()<.5 else ad[-L:]
            seq=(seq[:p]+piece+seq[p:])[:60]
        r=kf.kmers_present(seq); mr,oob=present_model(pk,seq,wref,wq)
        cnt+=1; pos+=r
        if oob: oobc+=1
        if r!=mr:
            if oob: oobdiff+=1
            else:
                diff+=1
                if diff<6: print('DIFF',ad,rate,ov,back,front,internal,wref,wq,repr(seq),r,mr,pk)
print('cases',cnt,'present',pos,'diffs(in-bounds)',diff,'oob cases',oobc,'oob diffs',oobdiff)
