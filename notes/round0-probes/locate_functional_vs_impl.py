# Functional prototype of Aligner.locate mirroring the planned Gallina structure.
import random, sys, itertools
from cutadapt._align import Aligner
from cutadapt._match_tables import _iupac_table, _acgt_table, _upper_table
IU=_iupac_table(); AC=_acgt_table(); UP=_upper_table()
UNDEF=None
def locate_model(ref, query, thr, flags, wref, wq, indel_cost, min_overlap):
    # thr: list thr[L] = int(L*rate), L=0..m ; ref/query are str
    m=len(ref); n=len(query)
    sir=bool(flags&1); siq=bool(flags&2); stir=bool(flags&4); stiq=bool(flags&8)
    if wref: s1=[IU[ord(c)] for c in ref]
    elif wq: s1=[AC[ord(c)] for c in ref]
    else: s1=[ord(c) for c in ref]
    if wq: s2=[IU[ord(c)] for c in query]; cmpa=False
    elif wref: s2=[AC[ord(c)] for c in query]; cmpa=False
    else: s2=[UP[ord(c)] for c in query]; cmpa=True
    ncount=[0]*(m+1)
    c=0
    for i in range(m):
        ncount[i]=c
        if ref[i] in 'nN': c+=1
    ncount[m]=c
    eff_total = m-ncount[m] if wref else m
    k=thr[m]
    max_n=n; min_n=0
    if not siq: max_n=min(n,m+k)
    if not stiq: min_n=max(0,n-m-k)
    DEL=indel_cost; INS=indel_cost
    col=[]
    for i in range(m+1):
        if not sir and not siq: col.append((max(i,min_n)*DEL, i*-2, 0))
        elif sir and not siq: col.append((min_n*DEL, 0, min(0,min_n-i)))
        elif not sir and siq: col.append((i*DEL, i*-2, max(0,min_n-i)))
        else: col.append((min(i,min_n)*DEL, 0, min_n-i))
    NOBEST=m+n+1
    best=dict(ref_stop=m,query_stop=n,cost=NOBEST,origin=0,score=0)
    last=min(m,k+1)
    if sir: last=m
    origin_var=UNDEF
    last_filled=0
    oinc=1 if siq else 0; icinc=0 if siq else INS; isinc=0 if siq else -2
    used_undef=False
    for j in range(min_n+1,max_n+1):
        diag=col[0]
        col=list(col)
        col[0]=(col[0][0]+icinc, col[0][1]+isinc, col[0][2]+oinc)
        for i in range(1,last+1):
            eq = (s1[i-1]==s2[j-1]) if cmpa else ((s1[i-1]&s2[j-1])!=0)
            if eq:
                cost,score,origin=diag[0],diag[1]+1,diag[2]
            else:
                cur=col[i]; prev=col[i-1]
                cd=diag[0]+1; ci=cur[0]+INS; cdel=prev[0]+DEL
                if cd<=cdel and cd<=ci: cost,score,origin=cd,diag[1]-1,diag[2]
                elif cdel<=ci: cost,score,origin=cdel,prev[1]-2,prev[2]
                else: cost,score,origin=ci,cur[1]-2,cur[2]
            diag=col[i]
            col[i]=(cost,score,origin)
            origin_var=origin
        last_filled=last
        while last>=0 and col[last][0]>k: last-=1
        if last<m: last+=1
        elif stiq:
            cost,score,origin=col[m]
            origin_var=origin
            length=m+min(origin,0)
            cel=length
            if wref:
                if length<m: cel=length-(ncount[m]-ncount[m-length])
                else: cel=eff_total
            ok = length>=min_overlap and cost<=thr[cel]
            best_length=m+min(best['origin'],0)
            if ok and (best['cost']==NOBEST or (origin<=best['origin']+m//2 and score>best['score']) or (length>best_length and score>best['score'])):
                best=dict(score=score,cost=cost,origin=origin,ref_stop=m,query_stop=j)
                if cost==0 and origin>=0: break
    if max_n==n:
        first_i=0 if stir else m
        for i in reversed(range(first_i,last_filled+1)):
            length=i+min(col[i][2],0)
            cost=col[i][0]; score=col[i][1]
            if wref:
                if length<m:
                    ref_start=-min(col[i][2],0)
                    cel=length-(ncount[i]-ncount[ref_start])
                else: cel=eff_total
            else: cel=length
            ok = length>=min_overlap and cost<=thr[cel] if 0<=cel<=m else False
            best_length=best['ref_stop']+min(best['origin'],0)
            if ok:
                if best['cost']==NOBEST: upd=True
                else:
                    if origin_var is UNDEF: used_undef=True; upd=False
                    else: upd=(origin_var<=best['origin']+m//2 and score>best['score']) or (length>best_length and score>best['score'])
                if upd: best=dict(score=score,cost=cost,origin=col[i][2],ref_stop=i,query_stop=n)
    if best['cost']==NOBEST: return None, used_undef
    if best['origin']>=0: rs,qs=0,best['origin']
    else: rs,qs=-best['origin'],0
    return (rs,best['ref_stop'],qs,best['query_stop'],best['score'],best['cost']), used_undef

random.seed(int(sys.argv[1])); N=int(sys.argv[2])
bad=0; undef=0; nontriv=0
for it in range(N):
    m=random.randint(1,9)
    alpha=random.choice(['AC','ACGT','ACGTN','ACN','ACGTNRYacgtX'])
    ref=''.join(random.choice(alpha) for _ in range(m)).upper()
    rate=random.choice([0,0.1,0.2,0.25,0.34,0.5,0.7,0.9])
    flags=random.randrange(16)
    wref=random.random()<0.5; wq=random.random()<0.3
    if wref and ref.count('N')==m: continue
    ic=random.choice([1,1,100000]); ov=random.randint(1,m)
    A=Aligner(ref,rate,flags,wref,wq,ic,ov)
    thr=[int(L*rate) for L in range(m+1)]
    for _ in range(20):
        n=random.randint(0,14)
        if random.random()<0.5 and n>=m:
            p=random.randint(0,n-m); q=''.join(random.choice(alpha) for _ in range(p))+ref+''.join(random.choice(alpha) for _ in range(n-m-p))
            q=list(q)
            for _ in range(random.randint(0,3)):
                if q: q[random.randrange(len(q))]=random.choice(alpha)
            q=''.join(q)
        else: q=''.join(random.choice(alpha) for _ in range(n))
        r=A.locate(q)
        mr,u=locate_model(ref,q,thr,flags,wref,wq,ic,ov)
        undef+=u
        if r is not None: nontriv+=1
        if r!=mr:
            bad+=1
            if bad<8: print('DIFF',ref,q,rate,flags,wref,wq,ic,ov,r,mr)
print('cases',N*20,'nontrivial',nontriv,'diffs',bad,'undef-origin-reads',undef)
