import random, sys, itertools, logging
logging.disable(logging.CRITICAL)
from cutadapt.adapters import *
from cutadapt.align import edit_environment, hamming_sphere
INF=10**9
def env_entry_edit(t, k, s):
    # banded global DP rows = s (i), cols = t (j); tie order diag,left,up ; returns (cost, matches) or None
    n=len(t); L=len(s)
    if L>n+k: return None
    cost=[[INF]*(n+1) for _ in range(L+1)]; mat=[[0]*(n+1) for _ in range(L+1)]
    for i in range(L+1): cost[i][0]=i
    for j in range(n+1): cost[0][j]=j
    for i in range(1,L+1):
        mn=INF
        for j in range(max(1,i-k), min(n+1,i+k+1)):
            mm=0 if t[j-1]==s[i-1] else 1
            d=cost[i-1][j-1]+mm; l=cost[i][j-1]+1; u=cost[i-1][j]+1
            if d<=l and d<=u: c=d; m_=mat[i-1][j-1]+(1-mm)
            elif l<=u: c=l; m_=mat[i][j-1]
            else: c=u; m_=mat[i-1][j]
            cost[i][j]=c; mat[i][j]=m_; mn=min(mn,c)
        if mn>k and i<L: return None   # pruned prefix: no extension enumerated
    if cost[L][n]<=k: return cost[L][n], mat[L][n]
    return None
def env_entry_ham(t,k,s):
    if len(s)!=len(t): return None
    e=sum(a!=b for a,b in zip(s,t))
    return (e,len(t)-e) if e<=k else None
def lookup_model(adapters, s):
    entry=None; amb=False
    for idx,a in enumerate(adapters):
        k=int(a.max_error_rate*len(a.sequence))
        r=(env_entry_edit if a.indels else env_entry_ham)(a.sequence,k,s)
        if r is None: continue
        e,m=r
        if entry is not None:
            if m<entry[2]: continue
            if m==entry[2] and not amb: amb=True
        entry=(idx,e,m)
    if amb or entry is None: return None
    return entry
random.seed(int(sys.argv[1])); N=int(sys.argv[2])
bad=0; keys=0; ambk=0
for it in range(N):
    na=random.randint(2,4); prefix=random.random()<0.5
    base=''.join(random.choice('ACGT') for _ in range(random.randint(3,8)))
    ads=[]
    for _ in range(na):
        s=list(base)
        for _ in range(random.randint(0,3)):
            op=random.choice('sid'); i=random.randrange(len(s)+1)
            if op=='s' and i<len(s): s[i]=random.choice('ACGT')
            elif op=='i': s.insert(i,random.choice('ACGT'))
            elif op=='d' and i<len(s) and len(s)>3: del s[i]
        s=''.join(s)
        rate=random.choice([0,0.15,0.2,0.3,0.4]); 
        if int(len(s)*rate)>3: rate=0.2
        cls=PrefixAdapter if prefix else SuffixAdapter
        ads.append(cls(s,max_errors=rate,indels=random.random()<0.6))
    try: ix=AdapterIndex(ads,prefix=prefix)
    except ValueError: continue
    allkeys=set(ix._index)
    # candidate universe: all env strings
    uni=set()
    for a in ads:
        k=int(a.max_error_rate*len(a.sequence))
        if a.indels: uni|={s for s,_,_ in edit_environment(a.sequence,k)}
        else:
            for e in range(k+1): uni|=set(hamming_sphere(a.sequence,e))
    for s in uni:
        keys+=1
        mr=lookup_model(ads,s)
        ir=ix._index.get(s)
        ir2=None if ir is None else (ads.index(ir[0]),ir[1],ir[2])
        if ir is None: ambk+=1
        if mr!=ir2:
            bad+=1
            if bad<6: print('DIFF',[(a.sequence,a.max_error_rate,a.indels) for a in ads],s,ir2,mr)
print('keys',keys,'ambiguous/absent',ambk,'diffs',bad)
