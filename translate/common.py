"""Shared helpers for the fail-closed translators (source -> coq/Generated/*.v)."""
import os

REPO = os.environ.get("VERIF_REPO", "/repo")
VERIF = os.path.dirname(os.path.dirname(os.path.abspath(__file__)))
GEN = os.path.join(VERIF, "coq", "Generated")


class TranslationError(Exception):
    """An anchored source site no longer has the shape the translator recognises."""


def src(path):
    with open(os.path.join(REPO, path), encoding="utf-8") as f:
        return f.read()


def write_if_changed(name, text):
    os.makedirs(GEN, exist_ok=True)
    p = os.path.join(GEN, name)
    old = None
    if os.path.exists(p):
        with open(p, encoding="utf-8") as f:
            old = f.read()
    if old != text:
        with open(p + ".tmp", "w", encoding="utf-8") as f:
            f.write(text)
        os.replace(p + ".tmp", p)
        return True
    return False


def zlist(xs):
    return "[" + "; ".join(str(int(x)) for x in xs) + "]"
