"""_match_tables.py, align.py (EndSkip), adapters.py (Where, per-class aligner flags and
Match class), _align.pyx (score DEFs), adapters.py (no-indel cost)
   -> Generated/Tables.v, Generated/Flags.v, Generated/Scores.v

Fail-closed: every site is recognised by its exact AST/regex shape.
"""
import ast
import re
from .common import src, write_if_changed, TranslationError, zlist


def gen_tables():
    text = src("src/cutadapt/_match_tables.py")
    ns = {}
    # the module is pure Python (imports only `operator`): execute the working-tree text
    exec(compile(text, "_match_tables.py", "exec"), ns)
    out = ["(* generated from src/cutadapt/_match_tables.py (executed) -- do not edit *)",
           "From Coq Require Import ZArith List.", "Import ListNotations.", "Open Scope Z_scope.", ""]
    for name, fn in (("acgt_table", "_acgt_table"), ("iupac_table", "_iupac_table"), ("upper_table", "_upper_table")):
        if fn not in ns:
            raise TranslationError("_match_tables.py: %s missing" % fn)
        t = ns[fn]()
        if not isinstance(t, (bytes, bytearray)) or len(t) != 256:
            raise TranslationError("_match_tables.py: %s() is not a 256-byte table" % fn)
        out.append("Definition %s : list Z := %s." % (name, zlist(list(t)[:128])))
        out.append("")
    return write_if_changed("Tables.v", "\n".join(out))


def _enum_values(tree, clsname, env):
    for node in tree.body:
        if isinstance(node, ast.ClassDef) and node.name == clsname:
            vals = {}
            for st in node.body:
                if isinstance(st, ast.Assign) and len(st.targets) == 1 and isinstance(st.targets[0], ast.Name):
                    code = compile(ast.Expression(st.value), clsname, "eval")
                    try:
                        v = eval(code, {"__builtins__": {}}, dict(env, **vals))
                    except Exception as e:
                        raise TranslationError("%s.%s: cannot evaluate (%s)" % (clsname, st.targets[0].id, e))
                    vals[st.targets[0].id] = int(v)
            return vals
    raise TranslationError("class %s not found" % clsname)


class _NS:
    def __init__(self, d):
        self.__dict__.update(d)


ADAPTER_CLASSES = [
    "FrontAdapter", "RightmostFrontAdapter", "BackAdapter", "AnywhereAdapter",
    "NonInternalFrontAdapter", "NonInternalBackAdapter", "PrefixAdapter", "SuffixAdapter",
]


def _class_info(tree, cls):
    """what the class itself says about its aligner and its match objects.  Methods of the same class that are reached from
    _aligner / match_to through self.<name>(...) or self.<name> are followed, so that extracting a helper does not hide a fact;
    a class that defines _aligner without naming a Where member anywhere on that path is refused (no silent fall-back to a base)"""
    for node in tree.body:
        if isinstance(node, ast.ClassDef) and node.name == cls:
            bases = [b.id for b in node.bases if isinstance(b, ast.Name)]
            methods = {fn.name: fn for fn in node.body if isinstance(fn, ast.FunctionDef)}

            def reach(start):
                seen, todo, out = set(), [start], []
                while todo:
                    name = todo.pop()
                    if name in seen or name not in methods:
                        continue
                    seen.add(name)
                    out.append(methods[name])
                    for sub in ast.walk(methods[name]):
                        if isinstance(sub, ast.Attribute) and isinstance(sub.value, ast.Name) and sub.value.id in ("self", cls) and sub.attr in methods:
                            todo.append(sub.attr)
                return out

            wheres, matches, reverse, upper = [], [], False, False
            for fn in reach("_aligner"):
                for sub in ast.walk(fn):
                    if isinstance(sub, ast.Attribute) and isinstance(sub.value, ast.Name) and sub.value.id == "Where":
                        wheres.append(sub.attr)
                    if isinstance(sub, ast.Subscript) and isinstance(sub.slice, ast.Slice) and sub.slice.step is not None:
                        reverse = True
            if "_aligner" in methods and not wheres:
                raise TranslationError("adapters.py: %s._aligner names no Where member" % cls)
            for fn in reach("match_to"):
                for sub in ast.walk(fn):
                    if isinstance(sub, ast.Call) and isinstance(sub.func, ast.Name) and sub.func.id in ("RemoveBeforeMatch", "RemoveAfterMatch"):
                        matches.append(sub.func.id)
                    if isinstance(sub, ast.Call) and isinstance(sub.func, ast.Attribute) and sub.func.attr == "upper":
                        upper = True
            return bases, wheres, matches, reverse, upper
    raise TranslationError("adapters.py: class %s not found" % cls)


def gen_flags():
    atree = ast.parse(src("src/cutadapt/align.py"))
    endskip = _enum_values(atree, "EndSkip", {})
    for k in ("REFERENCE_START", "QUERY_START", "REFERENCE_END", "QUERY_STOP", "SEMIGLOBAL"):
        if k not in endskip:
            raise TranslationError("EndSkip.%s missing" % k)
    dtree = ast.parse(src("src/cutadapt/adapters.py"))
    where = _enum_values(dtree, "Where", {"EndSkip": _NS(endskip)})
    out = ["(* generated from src/cutadapt/align.py (EndSkip) and src/cutadapt/adapters.py (Where, adapter classes) -- do not edit *)",
           "From Coq Require Import ZArith List String.", "Import ListNotations.", "Open Scope Z_scope.", ""]
    for k, v in endskip.items():
        out.append("Definition endskip_%s : Z := %d." % (k, v))
    for k, v in where.items():
        out.append("Definition where_%s : Z := %d." % (k, v))
    out.append("")
    # per class: (flags without force_anywhere, removal side, aligner built on the reversed sequence, upper() before locate)
    info = {}
    for cls in ADAPTER_CLASSES:
        info[cls] = _class_info(dtree, cls)

    def resolve(cls, what):
        bases, wheres, matches, reverse, upper = info[cls]
        idx = {"w": 1, "m": 2}[what]
        got = info[cls][idx]
        if got:
            return got, info[cls][3], info[cls][4]
        for b in bases:
            if b in info:
                return resolve(b, what)
        raise TranslationError("adapters.py: cannot resolve %s of %s" % (what, cls))

    for cls in ADAPTER_CLASSES:
        w, rev, _ = resolve(cls, "w")
        m, _, up = resolve(cls, "m")
        non_any = [x for x in w if x != "ANYWHERE"] or ["ANYWHERE"]
        if len(set(non_any)) != 1:
            raise TranslationError("adapters.py: %s._aligner names several Where values %r" % (cls, w))
        ms = set(m)
        if cls == "AnywhereAdapter":
            if ms != {"RemoveBeforeMatch", "RemoveAfterMatch"}:
                raise TranslationError("AnywhereAdapter.match_to: expected both Match classes")
            side = 2
        else:
            if len(ms) != 1:
                raise TranslationError("adapters.py: %s.match_to builds %r" % (cls, m))
            side = 0 if ms == {"RemoveBeforeMatch"} else 1
        # reverse: does *this* class's (resolved) _aligner reverse the sequence
        out.append("Definition cls_%s_flags : Z := where_%s." % (cls, non_any[0]))
        out.append("Definition cls_%s_side : Z := %d.  (* 0 = RemoveBeforeMatch (5'), 1 = RemoveAfterMatch (3'), 2 = decided by rstart *)" % (cls, side))
        out.append("Definition cls_%s_reversed : bool := %s." % (cls, "true" if rev else "false"))
        out.append("Definition cls_%s_upper_first : bool := %s." % (cls, "true" if (cls == "AnywhereAdapter" and info[cls][4]) else "false"))
    out.append("")
    return write_if_changed("Flags.v", "\n".join(out))


def gen_scores():
    text = src("src/cutadapt/_align.pyx")
    vals = {}
    for name in ("MATCH_SCORE", "MISMATCH_SCORE", "INSERTION_SCORE", "DELETION_SCORE"):
        m = re.findall(r"^DEF %s = ([+-]?\d+)\s*$" % name, text, re.M)
        if len(m) != 1:
            raise TranslationError("_align.pyx: DEF %s not found exactly once" % name)
        vals[name] = int(m[0])
    atext = src("src/cutadapt/adapters.py")
    m = re.findall(r"^\s*indel_cost = (\d+) if self\.indels else (\d+)\s*$", atext, re.M)
    if len(m) != 1:
        raise TranslationError("adapters.py: indel_cost line not recognised")
    out = ["(* generated from src/cutadapt/_align.pyx (DEF lines) and adapters.py (_make_aligner) -- do not edit *)",
           "From Coq Require Import ZArith.", "Open Scope Z_scope.", ""]
    for k, v in vals.items():
        out.append("Definition %s : Z := %d." % (k, v))
    out.append("Definition INDEL_COST_ON : Z := %s." % m[0][0])
    out.append("Definition INDEL_COST_OFF : Z := %s." % m[0][1])
    out.append("")
    return write_if_changed("Scores.v", "\n".join(out))
