"""Fail-closed translators: /repo working tree -> coq/Generated/*.v (rewritten on every run)."""
from . import eetable, aligntables, dnaiotables, orders

ALL = [
    ("EETable.v", eetable.generate),
    ("Tables.v", aligntables.gen_tables),
    ("Flags.v", aligntables.gen_flags),
    ("Scores.v", aligntables.gen_scores),
    ("Complement.v", dnaiotables.gen_complement),
    ("Orders.v", orders.generate),
]
