"""Fail-closed translators: /repo working tree -> coq/Generated/*.v (rewritten on every run)."""
from . import eetable

ALL = [
    ("EETable.v", eetable.generate),
]
