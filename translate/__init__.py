"""Fail-closed translators: /repo working tree -> coq/Generated/*.v (rewritten on every run)."""
from . import eetable, aligntables

ALL = [
    ("EETable.v", eetable.generate),
    ("Tables.v", aligntables.gen_tables),
    ("Flags.v", aligntables.gen_flags),
    ("Scores.v", aligntables.gen_scores),
]
