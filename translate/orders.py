"""cli.py (make_pipeline_from_args, modifiers_applying_to_both_ends_if_paired) -> Generated/Orders.v

The order in which the modifier stages and the filter steps are put into the pipeline is read
off the source: every construction site is located in the AST of make_pipeline_from_args and
the sites are sorted by source position (the function body is straight-line code with
conditionals, no loops over stages, so source order = construction order).  Fail-closed: every
vocabulary item must be found, and nothing from the vocabulary may occur at a position that
contradicts a single linear order.
"""
import ast
from .common import src, write_if_changed, TranslationError

MOD_VOCAB = {
    "make_unconditional_cutters": "KCut",
    "NextseqQualityTrimmer": "KNextseq",
    "make_quality_trimmers": "KQual",
    "make_adapter_cutter": "KAdapters",
    "PolyATrimmer": "KPolyA",
    "make_shortener": "KLength",
    "modifiers_applying_to_both_ends_if_paired": "<both>",
    "Renamer": "KRename",
    "PairedEndRenamer": "KRename",
}
BOTH_VOCAB = {
    "NEndTrimmer": "KTrimN",
    "LengthTagModifier": "KLengthTag",
    "SuffixRemover": "KStripSuffix",
    "PrefixSuffixAdder": "KPrefixSuffix",
    "ZeroCapper": "KZeroCap",
}
FILTER_VOCAB = {
    "TooShort": "FTooShort",
    "TooLong": "FTooLong",
    "TooManyN": "FMaxN",
    "TooManyExpectedErrors": "FMaxEE",
    "TooHighAverageErrorRate": "FMaxAER",
    "CasavaFiltered": "FCasava",
    "IsTrimmed": "FDiscardTrimmed",
}
WRITERS = ["RestFileWriter", "InfoFileWriter", "WildcardFileWriter"]
SINKS = ["SingleEndSink", "PairedEndSink", "Demultiplexer", "PairedDemultiplexer", "CombinatorialDemultiplexer"]


def _func(tree, name):
    for n in tree.body:
        if isinstance(n, ast.FunctionDef) and n.name == name:
            return n
    raise TranslationError("cli.py: function %s not found" % name)


def _names(fn, tree=None):
    """(lineno, col, sub, identifier) for every Name load in fn, in source order.  A call of another function defined at module level
    in cli.py that is not itself a vocabulary item is inlined at its call site (sub = positions inside the helper, nested up to three
    levels), so that moving a construction into a helper does not hide it nor change its place in the order"""
    funcs = {n.name: n for n in tree.body if isinstance(n, ast.FunctionDef)} if tree is not None else {}
    out = []

    def visit(node, site, sub, depth):
        for n in ast.walk(node):
            if isinstance(n, ast.Name) and isinstance(n.ctx, ast.Load):
                here = (n.lineno, n.col_offset)
                out.append((site or here) + ((sub + here) if site else (),) + (n.id,))
            if (isinstance(n, ast.Call) and isinstance(n.func, ast.Name) and n.func.id in funcs and n.func.id not in MOD_VOCAB
                    and funcs[n.func.id] is not fn and funcs[n.func.id] is not node and depth < 3):
                here = (n.lineno, n.col_offset)
                visit(funcs[n.func.id], site or here, (sub + here) if site else (), depth + 1)

    visit(fn, None, (), 0)
    return sorted(out)


def _dedupe(seq):
    out = []
    for x in seq:
        if out and out[-1] == x:
            continue
        if x in out:
            raise TranslationError("cli.py: %s is constructed at two separate places; the order is not linear" % x)
        out.append(x)
    return out


def generate():
    tree = ast.parse(src("src/cutadapt/cli.py"))
    fn = _func(tree, "make_pipeline_from_args")
    names = _names(fn, tree)
    # ---- modifiers: everything after `modifiers = []`
    start = None
    for n in ast.walk(fn):
        if isinstance(n, ast.Assign) and len(n.targets) == 1 and isinstance(n.targets[0], ast.Name) and n.targets[0].id == "modifiers":
            start = n.lineno
    if start is None:
        raise TranslationError("cli.py: `modifiers = []` not found in make_pipeline_from_args")
    mods = _dedupe([MOD_VOCAB[i] for (l, c, s_, i) in names if l >= start and i in MOD_VOCAB])
    both_fn = _func(tree, "modifiers_applying_to_both_ends_if_paired")
    both = []
    for n in ast.walk(both_fn):
        if isinstance(n, ast.Yield):
            v = n.value
            if not (isinstance(v, ast.Call) and isinstance(v.func, ast.Name) and v.func.id in BOTH_VOCAB):
                raise TranslationError("cli.py: unrecognised yield in modifiers_applying_to_both_ends_if_paired")
            both.append((n.lineno, BOTH_VOCAB[v.func.id]))
    both = _dedupe([k for _, k in sorted(both)])
    if set(both) != set(BOTH_VOCAB.values()):
        raise TranslationError("cli.py: modifiers_applying_to_both_ends_if_paired yields %r" % both)
    need = {"KCut", "KNextseq", "KQual", "KAdapters", "KPolyA", "KLength", "<both>", "KRename"}
    if set(mods) != need:
        raise TranslationError("cli.py: modifier construction sites found: %r" % mods)
    order = []
    for k in mods:
        order += both if k == "<both>" else [k]
    # ---- steps: everything before `modifiers = []`
    pre = [(l, c, s_, i) for (l, c, s_, i) in names if l < start]
    first = {}
    for l, c, s_, i in pre:
        first.setdefault(i, (l, c, s_))
    for w in WRITERS + list(FILTER_VOCAB) + ["IsUntrimmed"] + SINKS:
        if w not in first:
            raise TranslationError("cli.py: %s not found among the pipeline steps" % w)
    forder = _dedupe([FILTER_VOCAB[i] for (l, c, s_, i) in pre if i in FILTER_VOCAB and (l, c, s_) == first[i]])
    # the two uses of IsUntrimmed: under `elif args.discard_untrimmed` and under the untrimmed-output branch
    iu = sorted({l for (l, c, s_, i) in pre if i == "IsUntrimmed"})
    branches = []
    for n in ast.walk(fn):
        if isinstance(n, ast.If):
            t = ast.unparse(n.test)
            if t == "args.discard_trimmed":
                branches.append((n.lineno, "FDiscardTrimmed"))
            elif t == "args.discard_untrimmed":
                branches.append((n.lineno, "FDiscardUntrimmed"))
            elif t == "args.untrimmed_output or args.untrimmed_paired_output":
                branches.append((n.lineno, "FUntrimmedOut"))
    # the if/elif chain that adds these three steps is the one whose members directly follow each other
    tail = []
    for k in ("FDiscardTrimmed", "FDiscardUntrimmed", "FUntrimmedOut"):
        ls = [l for l, kk in sorted(branches) if kk == k and l > first["IsTrimmed"][0] - 3]
        if not ls:
            raise TranslationError("cli.py: branch for %s not found" % k)
        tail.append((ls[0], k))
    tail = [k for _, k in sorted(tail)]
    if forder[-1] != "FDiscardTrimmed":
        raise TranslationError("cli.py: filter steps found in order %r" % forder)
    forder = forder[:-1] + tail
    writers_first = max(first[w] for w in WRITERS) < min(first[i] for i in FILTER_VOCAB)
    # a sink ends the pipeline: every sink is constructed after the filters that precede it in its branch
    sinks_last = first["SingleEndSink"] > max(first[i] for i in FILTER_VOCAB) and first["SingleEndSink"][0] > max(iu)
    demux_after_quality_filters = first["Demultiplexer"] > first["CasavaFiltered"]
    out = [
        "(* generated from src/cutadapt/cli.py (make_pipeline_from_args, modifiers_applying_to_both_ends_if_paired) -- do not edit *)",
        "From Coq Require Import List Bool.",
        "From CV Require Import Model.Pipeline.",
        "Import ListNotations.",
        "",
        "(* order in which the read-modifying stages are constructed; KRename is not a stage of the model *)",
        "Definition modifier_order_with_rename : list (option kind) := [%s]." % "; ".join("None" if k == "KRename" else "Some " + k for k in order),
        "Definition modifier_order : list kind := [%s]." % "; ".join(k for k in order if k != "KRename"),
        "Definition filter_order : list fkind := [%s]." % "; ".join(forder),
        "Definition text_writers_before_filters : bool := %s." % ("true" if writers_first else "false"),
        "Definition sink_after_filters : bool := %s." % ("true" if (sinks_last and demux_after_quality_filters) else "false"),
        "",
    ]
    return write_if_changed("Orders.v", "\n".join(out))
