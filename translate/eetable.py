"""expected_errors.h -> Generated/EETable.v

Extracts the 94 literals of SCORE_TO_ERROR_RATE (regex; fail-closed on any
other shape) and emits them
  * as exact decimal rationals (Q), for the accuracy theorem, and
  * as IEEE binary64 constants (hex float literals), computed the way the C
    compiler does for an `L`-suffixed literal initialising a double:
    decimal -> x87 extended (64-bit significand, round-to-nearest-even)
            -> binary64 (round-to-nearest-even).
That these are the doubles the compiled module really uses is checked bit-exactly
by the C14 correspondence (expected_errors of one-character strings).
"""
import re
from fractions import Fraction
from .common import src, write_if_changed, TranslationError


def round_bits(x: Fraction, bits: int):
    """round positive rational to `bits` significant bits, ties to even -> (mant, exp) with value mant*2^exp"""
    assert x > 0
    # find e with 2^(bits-1) <= x / 2^e < 2^bits
    e = x.numerator.bit_length() - x.denominator.bit_length() - bits
    while x / Fraction(2) ** e >= 2 ** bits:
        e += 1
    while x / Fraction(2) ** e < 2 ** (bits - 1):
        e -= 1
    y = x / Fraction(2) ** e
    m = y.numerator // y.denominator
    r = y - m
    if r > Fraction(1, 2) or (r == Fraction(1, 2) and m % 2 == 1):
        m += 1
    if m == 2 ** bits:
        m //= 2
        e += 1
    return m, e


def to_double_via_long_double(dec: str) -> float:
    x = Fraction(dec)
    m, e = round_bits(x, 64)
    m2, e2 = round_bits(Fraction(m) * Fraction(2) ** e, 53)
    import math

    return math.ldexp(m2, e2)


def parse(text):
    m = re.search(r"static const double SCORE_TO_ERROR_RATE\[94\] = \{\n(.*?)\n\};", text, re.S)
    if not m:
        raise TranslationError("expected_errors.h: table header not recognised")
    entries = []
    for i, line in enumerate(m.group(1).split("\n")):
        mm = re.fullmatch(r"\s*([0-9]+(?:\.[0-9]+)?(?:E[-+]?[0-9]+)?)L,\s*// (\d+)\s*", line)
        if not mm:
            raise TranslationError("expected_errors.h: unrecognised table line %r" % line)
        if int(mm.group(2)) != i:
            raise TranslationError("expected_errors.h: entry %d is labelled %s" % (i, mm.group(2)))
        entries.append(mm.group(1))
    if len(entries) != 94:
        raise TranslationError("expected_errors.h: %d entries, expected 94" % len(entries))
    return entries


def render(entries):
    out = []
    out.append("(* GENERATED from src/cutadapt/expected_errors.h by translate/eetable.py -- do not edit *)")
    out.append("From Coq Require Import ZArith QArith List PrimFloat.")
    out.append("Import ListNotations.")
    out.append("")
    out.append("Definition ee_table_q : list Q := [")
    qs = []
    for d in entries:
        f = Fraction(d)
        qs.append("  (%d # %d)%%Q" % (f.numerator, f.denominator))
    out.append(";\n".join(qs))
    out.append("].")
    out.append("")
    K = 0
    for d in entries:
        f = Fraction(d)
        while (10 ** K) % f.denominator != 0:
            K += 1
    out.append("(* the same values as integers over the common denominator 10^%d *)" % K)
    out.append("Definition ee_scale : Z := %d%%Z." % (10 ** K))
    out.append("Definition ee_table_z : list Z := [")
    out.append(";\n".join("  %d%%Z" % (Fraction(d) * 10 ** K) for d in entries))
    out.append("].")
    out.append("")
    out.append("Definition ee_table_f : list float := [")
    fs = []
    for d in entries:
        fs.append("  %s%%float" % to_double_via_long_double(d).hex())
    out.append(";\n".join(fs))
    out.append("].")
    out.append("")
    return "\n".join(out)


SHARDS = 8


def render_acc(entries):
    """one lemma per entry, proved by the interval tactic; sharded for a parallel build"""
    files = {}
    per = (len(entries) + SHARDS - 1) // SHARDS
    for sh in range(SHARDS):
        out = ["(* GENERATED from src/cutadapt/expected_errors.h by translate/eetable.py -- do not edit *)",
               "From Coq Require Import Reals QArith Qreals.",
               "From Interval Require Import Tactic.",
               "From CV Require Import Spec.EEBound.",
               "Open Scope R_scope.", ""]
        for k in range(sh * per, min(len(entries), (sh + 1) * per)):
            f = Fraction(entries[k])
            out.append("Lemma ee_acc_%d : ee_bound %d (%d # %d)%%Q." % (k, k, f.numerator, f.denominator))
            out.append("Proof. unfold ee_bound, pow10neg, Q2R; cbn [Qnum Qden]. interval with (i_prec 80). Qed.")
        out.append("")
        files["EEAcc%d.v" % sh] = "\n".join(out)
    out = ["(* GENERATED from src/cutadapt/expected_errors.h by translate/eetable.py -- do not edit *)",
           "From Coq Require Import ZArith Reals QArith Qreals List.",
           "From CV Require Import Spec.EEBound Generated.EETable " + " ".join("Generated.EEAcc%d" % i for i in range(SHARDS)) + ".",
           "Import ListNotations.", "",
           "Definition ee_indices : list Z := [" + "; ".join(str(k) for k in range(len(entries))) + "]%Z.", "",
           "Lemma ee_acc_all : Forall2 ee_bound ee_indices ee_table_q.",
           "Proof.", "  unfold ee_indices, ee_table_q."]
    for k in range(len(entries)):
        out.append("  apply Forall2_cons; [exact ee_acc_%d|]." % k)
    out += ["  apply Forall2_nil.", "Qed.", ""]
    files["EEAccAll.v"] = "\n".join(out)
    return files


def generate():
    entries = parse(src("src/cutadapt/expected_errors.h"))
    ch = write_if_changed("EETable.v", render(entries))
    for name, text in render_acc(entries).items():
        ch = write_if_changed(name, text) or ch
    return ch


if __name__ == "__main__":
    print(generate())
