(** Model of the single-end processing pipeline:
      modifiers.py  (UnconditionalCutter, NextseqQualityTrimmer, QualityTrimmer, AdapterCutter with all
                     actions and --times, ReverseComplementer, PolyATrimmer, Shortener, NEndTrimmer,
                     LengthTagModifier (restricted, see below), SuffixRemover, PrefixSuffixAdder, ZeroCapper)
      adapters.py   (MultipleAdapters.match_to, LinkedAdapter.match_to, Match intervals, remainder,
                     the add_match bookkeeping of the four statistics classes)
      cli.py        (make_pipeline_from_args: which modifiers and steps exist for an option set;
                     the *order* comes from Generated/Orders.v, regenerated from cli.py)
      steps.py      (Info/Rest writers, SingleEndFilter, SingleEndSink, Demultiplexer)
      predicates.py (all predicates; the three float comparisons are parameters, instantiated with
                     PrimFloat in Model/PipelineFloat.v and evaluated by vm_compute only)
      report.py     (Statistics.collect: the counts only)
    Definitions only.  Not modelled: --rename templates, the wildcard file, report formatting,
    adapter indexing (the correspondence runs --no-index whenever an index would be built). *)
From Coq Require Import ZArith List Bool.
From CV Require Import Generated.Tables Generated.Complement Model.Base Model.Align Model.Adapters Model.Kmer Model.Qualtrim.
Import ListNotations.
Open Scope Z_scope.

Record read := mkR { rname : str; rseq : str; rqual : option str }.

Definition rlen (r : read) : Z := zlen (rseq r).
Definition rslice (lo hi : option Z) (r : read) : read :=
  mkR (rname r) (pyslice lo hi (rseq r)) (option_map (pyslice lo hi) (rqual r)).

Definition upper (s : str) : str := map (tr upper_table) s.
Definition lower_c (c : Z) : Z := if (65 <=? c) && (c <=? 90) then c + 32 else c.
Definition lower (s : str) : str := map lower_c s.

Definition revcomp_read (r : read) : read :=
  mkR (rname r) (rev (map (tr complement_table) (rseq r))) (option_map (@rev Z) (rqual r)).

(** ---- adapters as given on the command line *)
Inductive padapter :=
  | PSingle (name : str) (ad : adapter) (thr : list Z)
  | PLinked (name : str) (front : adapter) (fthr : list Z) (back : adapter) (bthr : list Z)
            (front_required back_required : bool).

Definition pname (a : padapter) : str :=
  match a with PSingle n _ _ => n | PLinked n _ _ _ _ _ _ => n end.

(** a match together with the length of the sequence it was found in *)
Record smatch := mkSM { sm : amatch; sm_len : Z }.

Inductive match_t :=
  | MSingle (idx : nat) (m : smatch)
  | MLinked (idx : nat) (front back : option smatch).

Definition m_idx (m : match_t) : nat := match m with MSingle i _ => i | MLinked i _ _ => i end.

Definition osum (f : smatch -> Z) (o : option smatch) : Z := match o with Some x => f x | None => 0 end.
Definition m_score (m : match_t) : Z :=
  match m with MSingle _ x => mscore (sm x) | MLinked _ f b => osum (fun x => mscore (sm x)) f + osum (fun x => mscore (sm x)) b end.
Definition m_errors (m : match_t) : Z :=
  match m with MSingle _ x => merrors (sm x) | MLinked _ f b => osum (fun x => merrors (sm x)) f + osum (fun x => merrors (sm x)) b end.

(** RemoveBeforeMatch / RemoveAfterMatch, adapters.py:427-493 *)
Definition s_remainder (x : smatch) : Z * Z :=
  if mside (sm x) =? 0 then (rstop (sm x), sm_len x) else (0, rstart (sm x)).
Definition s_retained (x : smatch) : Z * Z :=
  if mside (sm x) =? 0 then (rstart (sm x), sm_len x) else (0, rstop (sm x)).
Definition s_trimmed (x : smatch) (r : read) : read :=
  if mside (sm x) =? 0 then rslice (Some (rstop (sm x))) None r else rslice None (Some (rstart (sm x))) r.
Definition s_trim_seq (x : smatch) (s : str) : str :=
  if mside (sm x) =? 0 then pyslice (Some (rstop (sm x))) None s else pyslice None (Some (rstart (sm x))) s.
Definition s_removed_len (x : smatch) : Z :=
  if mside (sm x) =? 0 then rstop (sm x) else sm_len x - rstart (sm x).

(** remainder(), adapters.py:1557-1571: start = sum of the starts, length = that of the last interval *)
Fixpoint remainder_aux (ivs : list (Z * Z)) (start : Z) (lastlen : Z) : Z * Z :=
  match ivs with
  | [] => (start, start + lastlen)
  | (a, b) :: t => remainder_aux t (start + a) (b - a)
  end.
Definition remainder (ivs : list (Z * Z)) : Z * Z := remainder_aux ivs 0 0.

Definition olist {A} (o : option A) : list A := match o with Some x => [x] | None => [] end.

Definition m_remainder (m : match_t) : Z * Z :=
  match m with
  | MSingle _ x => s_remainder x
  | MLinked _ f b => remainder (map s_remainder (olist f ++ olist b))
  end.

Definition m_retained (m : match_t) : Z * Z :=
  match m with
  | MSingle _ x => s_retained x
  | MLinked _ f b =>
      let '(start, offset) := match f with Some x => (rstart (sm x), rstop (sm x)) | None => (0, 0) end in
      let stop := match b with Some y => rstop (sm y) + offset | None => osum sm_len f end in
      (start, stop)
  end.

Definition m_trimmed (m : match_t) (r : read) : read :=
  match m with
  | MSingle _ x => s_trimmed x r
  | MLinked _ f b =>
      let r1 := match f with Some x => s_trimmed x r | None => r end in
      match b with Some y => s_trimmed y r1 | None => r1 end
  end.

(** ---- searching *)
Definition single_match (ad : adapter) (thr : list Z) (s : str) : option smatch :=
  match match_to_prefiltered (thr_of thr) ad s with
  | Some m => Some (mkSM m (zlen s))
  | None => None
  end.

(** LinkedAdapter.match_to, adapters.py:1184-1196 *)
Definition adapter_match (idx : nat) (a : padapter) (s : str) : option match_t :=
  match a with
  | PSingle _ ad thr => option_map (MSingle idx) (single_match ad thr s)
  | PLinked _ fa fthr ba bthr freq breq =>
      let fm := single_match fa fthr s in
      match fm, freq with
      | None, true => None
      | _, _ =>
          let s' := match fm with Some x => s_trim_seq x s | None => s end in
          let bm := single_match ba bthr s' in
          match bm, fm with
          | None, None => None
          | None, Some _ => if breq then None else Some (MLinked idx fm None)
          | Some _, _ => Some (MLinked idx fm bm)
          end
      end
  end.

(** MultipleAdapters.match_to, adapters.py:1234-1255 *)
Fixpoint best_match_aux (idx : nat) (ads : list padapter) (s : str) (best : option match_t) : option match_t :=
  match ads with
  | [] => best
  | a :: t =>
      let best' :=
        match adapter_match idx a s with
        | None => best
        | Some m =>
            match best with
            | None => Some m
            | Some b =>
                if (m_score b <? m_score m) || ((m_score m =? m_score b) && (m_errors m <? m_errors b))
                then Some m else best
            end
        end in
      best_match_aux (S idx) t s best'
  end.
Definition best_match (ads : list padapter) (s : str) : option match_t := best_match_aux 0 ads s None.

(** ---- AdapterCutter.match_and_trim, modifiers.py:209-251 *)
Inductive action := ATrim | AMask | ALowercase | ARetain | ACrop | ANone.

Fixpoint rounds (ads : list padapter) (times : nat) (r : read) : read * list match_t :=
  match times with
  | O => (r, [])
  | S t =>
      match best_match ads (rseq r) with
      | None => (r, [])
      | Some m =>
          let '(r', ms) := rounds ads t (m_trimmed m r) in
          (r', m :: ms)
      end
  end.

Definition repeat_z (c : Z) (n : Z) : str := repeat c (Z.to_nat n).

Definition last_match (ms : list match_t) : option match_t := List.last (map Some ms) None.

Definition match_and_trim (ads : list padapter) (times : nat) (act : action) (r0 : read) : read * list match_t :=
  let r := match act with ALowercase => mkR (rname r0) (upper (rseq r0)) (rqual r0) | _ => r0 end in
  let '(trimmed, ms) := rounds ads times r in
  match ms with
  | [] => (trimmed, [])
  | _ =>
      let '(a, b) := remainder (map m_remainder ms) in
      let n := rlen r in
      let res :=
        match act with
        | ATrim => trimmed
        | ARetain =>
            match last_match ms with
            | Some m => let '(s, e) := m_retained m in rslice (Some s) (Some e) r
            | None => r
            end
        | AMask =>
            mkR (rname r) (repeat_z 78 a ++ pyslice (Some a) (Some b) (rseq r) ++ repeat_z 78 (n - b)) (rqual r)
        | ALowercase =>
            mkR (rname r) (lower (pyslice None (Some a) (rseq r)) ++ upper (pyslice (Some a) (Some b) (rseq r))
                           ++ lower (pyslice (Some b) None (rseq r))) (rqual r)
        | ACrop =>
            match last_match ms with
            | Some (MSingle _ x) => rslice (Some (rstart (sm x))) (Some (rstop (sm x))) r
            | _ => r   (* crop with a linked adapter raises AttributeError in the code: outside the model *)
            end
        | ANone => r
        end in
      (res, ms)
  end.

(** ---- per-read record of what the modifiers did (ModificationInfo + the counters they bump) *)
Record minfo := mkI {
  i_matches : list match_t;
  i_is_rc : option bool;         (* None: --revcomp not used *)
  i_original : read;
  i_qtrimmed : Z;                (* bases removed by NextSeq + quality trimming *)
  i_polya : option Z;            (* bases removed by poly-A trimming, if the stage ran *)
  i_aliased : bool               (* the current read is still the very object kept as original_read *)
}.

Definition sum_scores (ms : list match_t) : Z := fold_right (fun m acc => m_score m + acc) 0 ms.

(** ReverseComplementer.__call__, modifiers.py:278-308.  [suffix] = the rc_suffix (" rc") or [] *)
Definition revcomp_stage (ads : list padapter) (times : nat) (act : action) (suffix : str) (r : read)
  : read * list match_t * bool :=
  let '(fr, fms) := match_and_trim ads times act r in
  let '(rr, rms) := match_and_trim ads times act (revcomp_read r) in
  if (match rms with [] => false | _ => true end) && (sum_scores fms <? sum_scores rms)
  then (mkR (rname rr ++ suffix) (rseq rr) (rqual rr), rms, true)
  else (fr, fms, false).

(** ---- name modifiers *)
Fixpoint starts_with (p s : str) : bool :=
  match p, s with
  | [], _ => true
  | x :: p', y :: s' => (x =? y) && starts_with p' s'
  | _ :: _, [] => false
  end.

Definition ends_with (suf s : str) : bool := starts_with (rev suf) (rev s).

Fixpoint replace_all_aux (fuel : nat) (pat rep s : str) : str :=
  match fuel with
  | O => s
  | S f =>
      match s with
      | [] => []
      | c :: s' =>
          if starts_with pat s then rep ++ replace_all_aux f pat rep (skipn (length pat) s)
          else c :: replace_all_aux f pat rep s'
      end
  end.
(** str.replace(pat, rep) for a non-empty pattern *)
Definition replace_all (pat rep s : str) : str := replace_all_aux (S (length s)) pat rep s.

Definition name_tag : str := [123; 110; 97; 109; 101; 125].          (* "{name}" *)
Definition no_adapter : str := [110; 111; 95; 97; 100; 97; 112; 116; 101; 114].   (* "no_adapter" *)

Definition last_adapter_name (ads : list padapter) (ms : list match_t) : option str :=
  match last_match ms with
  | Some m => Some (match nth_error ads (m_idx m) with Some a => pname a | None => [] end)
  | None => None
  end.

(** SuffixRemover *)
Definition strip_suffix (suf : str) (n : str) : str :=
  if ends_with suf n then firstn (length n - length suf) n else n.

(** LengthTagModifier: the regex \btag[0-9]*\b for a tag that begins with a word character, restricted to
    names in which the digits behind an occurrence of the tag run up to a non-word character or the end of
    the name (no backtracking needed); an occurrence counts when the character in front of it is not a
    word character [A-Za-z0-9_] (space, ';', '/', ...) or when it opens the name; other names are outside the model *)
Definition is_digit (c : Z) : bool := (48 <=? c) && (c <=? 57).
Definition is_word (c : Z) : bool := is_digit c || ((65 <=? c) && (c <=? 90)) || ((97 <=? c) && (c <=? 122)) || (c =? 95).
Fixpoint drop_digits (s : str) : str :=
  match s with c :: s' => if is_digit c then drop_digits s' else s | [] => [] end.

Fixpoint zdigits_aux (fuel : nat) (n : Z) (acc : str) : str :=
  match fuel with
  | O => acc
  | S f => if n <? 10 then (48 + n) :: acc else zdigits_aux f (n / 10) ((48 + n mod 10) :: acc)
  end.
Definition zdigits (n : Z) : str := zdigits_aux (S (Z.to_nat n)) n [].   (* decimal rendering of n >= 0 *)

Fixpoint length_tag_aux (fuel : nat) (tag : str) (len : str) (at_boundary : bool) (s : str) : str :=
  match fuel with
  | O => s
  | S f =>
      match s with
      | [] => []
      | c :: s' =>
          if at_boundary && starts_with tag s
          then tag ++ len ++ length_tag_aux f tag len false (drop_digits (skipn (length tag) s))
          else c :: length_tag_aux f tag len (negb (is_word c)) s'
      end
  end.
Definition length_tag_mod (tag : str) (r : read) : read :=
  mkR (length_tag_aux (S (length (rname r))) tag (zdigits (rlen r)) true (rname r)) (rseq r) (rqual r).

(** ZeroCapper *)
Definition zero_cap (base : Z) (r : read) : read :=
  mkR (rname r) (rseq r) (option_map (map (fun q => if q <? base then base else q)) (rqual r)).

(** ---- the option set (what argparse hands to make_pipeline_from_args), single-end *)
Record options := mkO {
  o_cuts : list Z;                    (* -u values, in the order given (zeros dropped by cli.py:1021) *)
  o_nextseq : option Z;
  o_qcut : option (Z * Z);            (* -q, None also for "-q 0" (cli.py:1042) *)
  o_qbase : Z;
  o_adapters : list padapter;
  o_times : nat;
  o_action : action;
  o_revcomp : bool;
  o_poly_a : bool;
  o_poly_t : bool;                    (* poly-T head trimming (PolyATrimmer(revcomp=True)): R2 of a pair only *)
  o_length : option Z;
  o_trim_n : bool;
  o_length_tag : option str;
  o_strip_suffix : list str;
  o_prefix : str;
  o_suffix : str;
  o_zero_cap : bool;
  (* filters *)
  o_min_len : option Z;
  o_max_len : option Z;
  o_max_n : option Z;                 (* integer count >= 1 only; fractions: PipelineFloat *)
  o_float_filters : list (Z * (read -> bool));   (* (category code, predicate): max_n fraction 3, max_ee 4, max_aer 5 *)
  o_casava : bool;
  o_discard_trimmed : bool;
  o_discard_untrimmed : bool;
  o_untrimmed_output : bool;
  o_too_short_output : bool;
  o_too_long_output : bool;
  o_demux : bool;
  o_info_file : bool
}.

(** ---- the modifier stages.  Each stage is  read * minfo -> read * minfo. *)
Inductive stage :=
  | StCut (n : Z) | StNextseq (c : Z) | StQual (cf cb : Z) | StAdapters | StPolyA | StPolyT | StLength (n : Z)
  | StTrimN | StLengthTag (tag : str) | StStripSuffix (s : str) | StPrefixSuffix | StZeroCap.

Definition qual_or_empty (r : read) : str := match rqual r with Some q => q | None => [] end.

(** match_and_trim with action lowercase upper-cases read.sequence *in place* (modifiers.py:222-223);
    when no earlier stage has produced a new record object, that object is info.original_read *)
Definition orig_after_adapters (o : options) (i : minfo) : read :=
  match o_action o with
  | ALowercase => if i_aliased i then mkR (rname (i_original i)) (upper (rseq (i_original i))) (rqual (i_original i)) else i_original i
  | _ => i_original i
  end.

Definition apply_stage (o : options) (st : stage) (ri : read * minfo) : read * minfo :=
  let '(r, i) := ri in
  match st with
  | StCut n =>
      (* UnconditionalCutter, modifiers.py:520-526 *)
      (if 0 <? n then rslice (Some n) None r else rslice None (Some n) r,
       mkI (i_matches i) (i_is_rc i) (i_original i) (i_qtrimmed i) (i_polya i) false)
  | StNextseq c =>
      let stop := nextseq_trim_index (rseq r) (qual_or_empty r) c (o_qbase o) in
      (rslice None (Some stop) r, mkI (i_matches i) (i_is_rc i) (i_original i) (i_qtrimmed i + (rlen r - stop)) (i_polya i) false)
  | StQual cf cb =>
      let '(a, b) := quality_trim_index (qual_or_empty r) cf cb (o_qbase o) in
      (rslice (Some a) (Some b) r, mkI (i_matches i) (i_is_rc i) (i_original i) (i_qtrimmed i + (rlen r - (b - a))) (i_polya i) false)
  | StAdapters =>
      if o_revcomp o then
        let '(r', ms, rc) := revcomp_stage (o_adapters o) (o_times o) (o_action o) [32; 114; 99] r in
        (r', mkI (i_matches i ++ ms) (Some rc) (orig_after_adapters o i) (i_qtrimmed i) (i_polya i) false)
      else
        let '(r', ms) := match_and_trim (o_adapters o) (o_times o) (o_action o) r in
        (r', mkI (i_matches i ++ ms) (i_is_rc i) (orig_after_adapters o i) (i_qtrimmed i) (i_polya i) false)
  | StPolyA =>
      let idx := poly_a_trim_index (rseq r) false in
      (rslice None (Some idx) r, mkI (i_matches i) (i_is_rc i) (i_original i) (i_qtrimmed i) (Some (rlen r - idx)) false)
  | StPolyT =>
      (* PolyATrimmer(revcomp=True): trimmed_bases[index] += 1; return record[index:] *)
      let idx := poly_a_trim_index (rseq r) true in
      (rslice (Some idx) None r, mkI (i_matches i) (i_is_rc i) (i_original i) (i_qtrimmed i) (Some idx) false)
  | StLength n =>
      (* Shortener, modifiers.py:891-895 *)
      (if 0 <=? n then rslice None (Some n) r else rslice (Some n) None r, i)
  | StTrimN => (rslice (Some (n_start_cut (rseq r))) (Some (n_end_cut (rseq r))) r, i)
  | StLengthTag tag => (length_tag_mod tag r, i)
  | StStripSuffix s => (mkR (strip_suffix s (rname r)) (rseq r) (rqual r), i)
  | StPrefixSuffix =>
      let an := match last_adapter_name (o_adapters o) (i_matches i) with Some n => n | None => no_adapter end in
      (mkR (replace_all name_tag an (o_prefix o) ++ rname r ++ replace_all name_tag an (o_suffix o)) (rseq r) (rqual r), i)
  | StZeroCap => (zero_cap (o_qbase o) r, i)
  end.

(** which stages an option set gives rise to, per stage *kind* (cli.py:921-964 and the helper
    generators); the order of the kinds is [Generated.Orders.modifier_order] *)
Inductive kind :=
  | KCut | KNextseq | KQual | KAdapters | KPolyA | KLength | KTrimN | KLengthTag | KStripSuffix | KPrefixSuffix | KZeroCap.

Definition stages_of_kind (o : options) (k : kind) : list stage :=
  match k with
  | KCut => map StCut (o_cuts o)
  | KNextseq => match o_nextseq o with Some c => [StNextseq c] | None => [] end
  | KQual => match o_qcut o with Some (cf, cb) => [StQual cf cb] | None => [] end
  | KAdapters => match o_adapters o with [] => [] | _ => [StAdapters] end
  | KPolyA => (if o_poly_a o then [StPolyA] else []) ++ (if o_poly_t o then [StPolyT] else [])
  | KLength => match o_length o with Some n => [StLength n] | None => [] end
  | KTrimN => if o_trim_n o then [StTrimN] else []
  | KLengthTag => match o_length_tag o with Some t => [StLengthTag t] | None => [] end
  | KStripSuffix => map StStripSuffix (o_strip_suffix o)
  | KPrefixSuffix => match o_prefix o, o_suffix o with [], [] => [] | _, _ => [StPrefixSuffix] end
  | KZeroCap => if o_zero_cap o then [StZeroCap] else []
  end.

Definition stages (order : list kind) (o : options) : list stage := flat_map (stages_of_kind o) order.

Definition init_info (r : read) : minfo := mkI [] None r 0 None true.

Definition modify (order : list kind) (o : options) (r : read) : read * minfo :=
  fold_left (fun ri st => apply_stage o st ri) (stages order o) (r, init_info r).

(** ---- filters (predicates.py) and their order (cli.py:684-894) *)
Inductive fkind := FTooShort | FTooLong | FMaxN | FMaxEE | FMaxAER | FCasava | FDiscardTrimmed | FDiscardUntrimmed | FUntrimmedOut.

(** category codes as reported: 1 too_short 2 too_long 3 too_many_n 4 too_many_expected_errors
    5 too_high_average_error_rate 6 casava_filtered 7 discard_trimmed 8 discard_untrimmed *)
Definition casava_filtered (name : str) : bool :=
  (* _, _, right = name.partition(" "); right[1:4] == ":Y:" *)
  let fix after_space (s : str) : str := match s with [] => [] | c :: s' => if c =? 32 then s' else after_space s' end in
  let right := after_space name in
  match right with
  | _ :: 58 :: 89 :: 58 :: _ => true
  | _ => false
  end.

(** a filter = (category code, predicate, redirect destination or None) *)
Definition filter_t := (Z * (read -> minfo -> bool) * option Z)%type.

Definition float_filters (o : options) (code : Z) : list filter_t :=
  map (fun cp : Z * (read -> bool) => (fst cp, fun r (_ : minfo) => snd cp r, None))
      (filter (fun cp : Z * (read -> bool) => fst cp =? code) (o_float_filters o)).

(** destinations: 0 main output, 1 too-short file, 2 too-long file, 3 untrimmed file,
    9 demultiplexed "unknown" file, 10 + i demultiplexed file of adapter i *)
Definition filters_of_kind (o : options) (k : fkind) : list filter_t :=
  match k with
  | FTooShort => match o_min_len o with
                 | Some m => [(1, fun r _ => rlen r <? m, if o_too_short_output o then Some 1 else None)] | None => [] end
  | FTooLong => match o_max_len o with
                | Some m => [(2, fun r _ => m <? rlen r, if o_too_long_output o then Some 2 else None)] | None => [] end
  | FMaxN => match o_max_n o with
             | Some c => [(3, fun r _ => c <? n_count (rseq r), None)]
             | None => float_filters o 3
             end
  | FMaxEE => float_filters o 4
  | FMaxAER => float_filters o 5
  | FCasava => if o_casava o then [(6, fun r _ => casava_filtered (rname r), None)] else []
  | FDiscardTrimmed =>
      if o_demux o then [] else
      if o_discard_trimmed o then [(7, fun _ i => match i_matches i with [] => false | _ => true end, None)] else []
  | FDiscardUntrimmed =>
      if o_demux o then [] else
      if o_discard_trimmed o then [] else
      if o_discard_untrimmed o then [(8, fun _ i => match i_matches i with [] => true | _ => false end, None)] else []
  | FUntrimmedOut =>
      if o_demux o then [] else
      if o_discard_trimmed o || o_discard_untrimmed o then [] else
      if o_untrimmed_output o then [(8, fun _ i => match i_matches i with [] => true | _ => false end, Some 3)] else []
  end.

Definition filters (forder : list fkind) (o : options) : list filter_t := flat_map (filters_of_kind o) forder.

(** where a read ends up: Written dest | Filtered category (with optional redirect file) *)
Inductive fate := Written (dest : Z) | Filtered (cat : Z) (redirect : option Z).

Fixpoint run_filters (fs : list filter_t) (r : read) (i : minfo) : option fate :=
  match fs with
  | [] => None
  | (cat, p, redir) :: t => if p r i then Some (Filtered cat redir) else run_filters t r i
  end.

(** the final sink: SingleEndSink or Demultiplexer (steps.py:380-393) *)
Definition sink (o : options) (i : minfo) : fate :=
  if o_demux o then
    match last_match (i_matches i) with
    | Some m => Written (10 + Z.of_nat (m_idx m))
    | None => if o_discard_untrimmed o then Filtered 8 None
              else if o_untrimmed_output o then Written 3 else Written 9
    end
  else Written 0.

Definition fate_of (forder : list fkind) (o : options) (r : read) (i : minfo) : fate :=
  match run_filters (filters forder o) r i with
  | Some f => f
  | None => sink o i
  end.

(** ---- info file rows (steps.py:222-252, adapters.py:395-417, 1126-1140) *)
Inductive field := FS (s : str) | FI (n : Z).

Definition info_record (name_suffix : str) (aname : str) (x : smatch) (cur : read) : list field :=
  let seq := rseq cur in
  let a := rstart (sm x) in let b := rstop (sm x) in
  [FS name_suffix; FI (merrors (sm x)); FI a; FI b;
   FS (pyslice (Some 0) (Some a) seq); FS (pyslice (Some a) (Some b) seq); FS (pyslice (Some b) None seq); FS aname]
  ++ match rqual cur with
     | Some q => match q with
                 | [] => [FS []; FS []; FS []]
                 | _ => [FS (pyslice (Some 0) (Some a) q); FS (pyslice (Some a) (Some b) q); FS (pyslice (Some b) None q)]
                 end
     | None => [FS []; FS []; FS []]
     end.

Definition match_info_records (ads : list padapter) (m : match_t) (cur : read) : list (list field) :=
  let aname := match nth_error ads (m_idx m) with Some a => pname a | None => [] end in
  match m with
  | MSingle _ x => [info_record [] aname x cur]
  | MLinked _ f b =>
      let recs1 := match f with Some x => [info_record [] (aname ++ [59; 49]) x cur] | None => [] end in
      let cur' := match f with Some x => s_trimmed x cur | None => cur end in
      let recs2 := match b with Some y => [info_record [] (aname ++ [59; 50]) y cur'] | None => [] end in
      recs1 ++ recs2
  end.

Fixpoint info_rows_aux (ads : list padapter) (ms : list match_t) (cur : read) : list (list field) :=
  match ms with
  | [] => []
  | m :: t => match_info_records ads m cur ++ info_rows_aux ads t (m_trimmed m cur)
  end.

Definition rc_field (rc : option bool) : str :=
  match rc with None => [] | Some true => [49] | Some false => [48] end.

(** rows for one read; every row starts with the (final) read name *)
Definition info_rows (o : options) (r : read) (i : minfo) : list (list field) :=
  match i_matches i with
  | [] => [[FS (rname r); FI (-1); FS (rseq r); FS (qual_or_empty r)]]
  | ms =>
      let cur := match i_is_rc i with Some true => revcomp_read (i_original i) | _ => i_original i end in
      map (fun rec => match rec with
                      | FS suffix :: rest => FS (rname r ++ suffix) :: rest ++ [FS (rc_field (i_is_rc i))]
                      | _ => rec
                      end) (info_rows_aux (o_adapters o) ms cur)
  end.

(** ---- adapter statistics events (add_match of the four statistics classes): one event per
    applied single match: (adapter index, end: 0 = 5' / 1 = 3', removed length, errors,
    adjacent base code: 65/67/71/84 or 0 for ""/other, only for 3' matches) *)
Record sevent := mkEv { ev_idx : nat; ev_end : Z; ev_len : Z; ev_errors : Z; ev_adj : Z; ev_rc : bool; ev_first : bool }.
(* ev_first: first event of its match (reverse_complemented is bumped once per match) *)

Definition adj_code (c : option Z) : Z :=
  match c with
  | Some c => if (c =? 65) || (c =? 67) || (c =? 71) || (c =? 84) then c else 0
  | None => 0
  end.

(** events need the sequence each match was found in: replay the rounds on the sequence *)
Definition s_event (idx : nat) (rc first : bool) (x : smatch) (s : str) : sevent :=
  if mside (sm x) =? 0 then mkEv idx 0 (s_removed_len x) (merrors (sm x)) 0 rc first
  else mkEv idx 1 (s_removed_len x) (merrors (sm x))
            (adj_code (if rstart (sm x) <=? 0 then None else nth_error s (Z.to_nat (rstart (sm x) - 1)))) rc first.

Definition m_events (rc : bool) (m : match_t) (s : str) : list sevent :=
  match m with
  | MSingle idx x => [s_event idx rc true x s]
  | MLinked idx f b =>
      let e1 := match f with Some x => [s_event idx rc true x s] | None => [] end in
      let s' := match f with Some x => s_trim_seq x s | None => s end in
      let e2 := match b with Some y => [s_event idx rc (match f with Some _ => false | None => true end) y s'] | None => [] end in
      e1 ++ e2
  end.

Fixpoint events_aux (rc : bool) (ms : list match_t) (s : str) : list sevent :=
  match ms with
  | [] => []
  | m :: t =>
      m_events rc m s ++ events_aux rc t (match m with
                                          | MSingle _ x => s_trim_seq x s
                                          | MLinked _ f b =>
                                              let s1 := match f with Some x => s_trim_seq x s | None => s end in
                                              match b with Some y => s_trim_seq y s1 | None => s1 end
                                          end)
  end.

(** ---- one read through the whole pipeline *)
Record outcome := mkOut {
  out_fate : fate;
  out_read : read;
  out_info : list (list field);
  out_matches : list match_t;
  out_is_rc : option bool;
  out_qtrimmed : Z;
  out_polya : option Z;
  out_events : list sevent;
  out_in_len : Z
}.

(** the sequence the adapter stage saw = result of the stages before StAdapters; recomputed here *)
Fixpoint before_adapters (o : options) (sts : list stage) (ri : read * minfo) : read :=
  match sts with
  | [] => fst ri
  | StAdapters :: _ => fst ri
  | st :: t => before_adapters o t (apply_stage o st ri)
  end.

Definition process_read (order : list kind) (forder : list fkind) (o : options) (r : read) : outcome :=
  let '(r', i) := modify order o r in
  let seen := before_adapters o (stages order o) (r, init_info r) in
  let rc := match i_is_rc i with Some true => true | _ => false end in
  let seen_seq := match o_action o with ALowercase => upper (rseq seen) | _ => rseq seen end in
  let base := if rc then rseq (revcomp_read (mkR [] seen_seq None)) else seen_seq in
  mkOut (fate_of forder o r' i) r' (if o_info_file o then info_rows o r' i else [])
        (i_matches i) (i_is_rc i) (i_qtrimmed i) (i_polya i) (events_aux rc (i_matches i) base) (rlen r).

(** ---- aggregation over the input (SingleEndPipeline.process_reads + Statistics.collect) *)
Record report := mkRep {
  rep_n : Z;
  rep_total_bp : Z;
  rep_written : Z;
  rep_written_bp : Z;
  rep_filtered : list (Z * Z);         (* category code -> count, for every filter step present *)
  rep_with_adapters : Z;
  rep_rc : Z;
  rep_qtrimmed : Z;
  rep_polya : Z;
  rep_files : list (Z * list read);    (* destination -> records in order *)
  rep_info : list (list field);
  rep_events : list sevent
}.

Fixpoint add_file (d : Z) (r : read) (fs : list (Z * list read)) : list (Z * list read) :=
  match fs with
  | [] => [(d, [r])]
  | (d', rs) :: t => if d' =? d then (d', rs ++ [r]) :: t else (d', rs) :: add_file d r t
  end.

Fixpoint bump (c : Z) (l : list (Z * Z)) : list (Z * Z) :=
  match l with
  | [] => [(c, 1)]
  | (c', n) :: t => if c' =? c then (c', n + 1) :: t else (c', n) :: bump c t
  end.

Definition step_report (rep : report) (out : outcome) : report :=
  let r := out_read out in
  let written := match out_fate out with Written _ => true | Filtered _ _ => false end in
  let file := match out_fate out with Written d => Some d | Filtered _ redir => redir end in
  mkRep (rep_n rep + 1)
        (rep_total_bp rep + out_in_len out)
        (rep_written rep + (if written then 1 else 0))
        (rep_written_bp rep + (if written then rlen r else 0))
        (match out_fate out with Filtered c _ => bump c (rep_filtered rep) | Written _ => rep_filtered rep end)
        (rep_with_adapters rep + (match out_matches out with [] => 0 | _ => 1 end))
        (rep_rc rep + (match out_is_rc out with Some true => 1 | _ => 0 end))
        (rep_qtrimmed rep + out_qtrimmed out)
        (rep_polya rep + (match out_polya out with Some p => p | None => 0 end))
        (match file with Some d => add_file d r (rep_files rep) | None => rep_files rep end)
        (rep_info rep ++ out_info out)
        (rep_events rep ++ out_events out).

Definition empty_report : report := mkRep 0 0 0 0 [] 0 0 0 0 [] [] [].

Definition run (order : list kind) (forder : list fkind) (o : options) (reads : list read) : report :=
  fold_left (fun rep r => step_report rep (process_read order forder o r)) reads empty_report.

(** ---- per-adapter statistics as the statistics classes keep them (adapters.py:71-290):
    errors[removed length][errors] += 1 per applied (single) match, per adapter and end *)
Definition skey := (Z * Z * Z * Z)%type.    (* adapter index, end (0 = 5', 1 = 3'), removed length, errors *)
Definition skey_eqb (k k' : skey) : bool :=
  let '(a, b, c, d) := k in let '(a', b', c', d') := k' in (a =? a') && (b =? b') && (c =? c') && (d =? d').
Definition ev_key (e : sevent) : skey := (Z.of_nat (ev_idx e), ev_end e, ev_len e, ev_errors e).

Fixpoint bump_key (k : skey) (l : list (skey * Z)) : list (skey * Z) :=
  match l with
  | [] => [(k, 1)]
  | (k', n) :: t => if skey_eqb k' k then (k', n + 1) :: t else (k', n) :: bump_key k t
  end.

Definition tally (evs : list sevent) : list (skey * Z) :=
  fold_left (fun acc e => bump_key (ev_key e) acc) evs [].

(** ErrorRanges._compute_lengths, report.py: for length in 1..n: while int(length*rate) > len(lengths): append(length-1);
    finally append(n).  [thr L] = int(L * rate). *)
Fixpoint eranges_aux (thr : Z -> Z) (ls : list Z) (acc : list Z) : list Z :=
  match ls with
  | [] => acc
  | L :: t => eranges_aux thr t (acc ++ repeat (L - 1) (Z.to_nat (thr L - zlen acc)))
  end.
Definition error_ranges (thr : Z -> Z) (n : Z) : list Z :=
  eranges_aux thr (zrange 1 (Z.to_nat n)) [] ++ [n].
