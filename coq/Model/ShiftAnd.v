(** Model of shift_and_multiple_is_present and of the mask construction of KmerFinder
    (src/cutadapt/_kmer_finder.pyx:120-165, 216-257): the words of one search entry are laid side by
    side in one machine word (first word in the lowest bits), [init] has a bit at the first position
    of every word, [found] at the last, mask(c) has bit i set iff needle character i matches the read
    character c; the state R is shifted left (in 64 bits), or-ed with [init], and-ed with mask(c).
    Definitions only. *)
From Coq Require Import ZArith List Bool.
From CV Require Export Model.Base.
From CV Require Import Model.Kmer.
Import ListNotations.
Open Scope Z_scope.

Section ShiftAnd.
  Variable cmatch : Z -> Z -> bool.   (* needle character, read character *)

  Definition WORD : Z := 64.

  (** bit i0 + i for every position i of [nd] whose character matches c *)
  Fixpoint mask_aux (nd : list Z) (i0 : Z) (c : Z) : Z :=
    match nd with
    | [] => 0
    | x :: t => Z.lor (if cmatch x c then Z.shiftl 1 i0 else 0) (mask_aux t (i0 + 1) c)
    end.

  Fixpoint init_aux (ws : list (list Z)) (off : Z) : Z :=
    match ws with [] => 0 | w :: t => Z.lor (Z.shiftl 1 off) (init_aux t (off + zlen w)) end.
  Fixpoint found_aux (ws : list (list Z)) (off : Z) : Z :=
    match ws with [] => 0 | w :: t => Z.lor (Z.shiftl 1 (off + zlen w - 1)) (found_aux t (off + zlen w)) end.

  Definition needle (ws : list (list Z)) : list Z := concat ws.
  Definition mask (ws : list (list Z)) (c : Z) : Z := mask_aux (needle ws) 0 c.
  Definition init_mask (ws : list (list Z)) : Z := init_aux ws 0.
  Definition found_mask (ws : list (list Z)) : Z := found_aux ws 0.

  (** R <<= 1 (uint64_t); R |= init_mask; R &= needle_mask[c] *)
  Definition step (ws : list (list Z)) (R c : Z) : Z :=
    Z.land (Z.lor ((Z.shiftl R 1) mod 2 ^ WORD) (init_mask ws)) (mask ws c).

  Fixpoint run (ws : list (list Z)) (R : Z) (t : list Z) : bool :=
    match t with
    | [] => false
    | c :: t' => let R' := step ws R c in if Z.land R' (found_mask ws) =? 0 then run ws R' t' else true
    end.

  Definition shift_and_present (ws : list (list Z)) (t : list Z) : bool := run ws 0 t.
End ShiftAnd.

(** the k-mers of one (start, stop) entry are packed greedily into machine words, _kmer_finder.pyx:123-150: a k-mer that does not
    fit behind the ones taken so far closes the word and opens the next one.  (A k-mer longer than 64 characters is refused
    with ValueError; an empty one would set the found bit in front of its own position: both are outside the model.) *)
Fixpoint pack_go (ks : list (list Z)) (cur_rev : list (list Z)) (off : Z) : list (list (list Z)) :=
  match ks with
  | [] => match cur_rev with [] => [] | _ => [rev cur_rev] end
  | k :: t =>
      if off + zlen k <=? WORD then pack_go t (k :: cur_rev) (off + zlen k)
      else match cur_rev with
           | [] => pack_go t [k] (zlen k)
           | _ => rev cur_rev :: pack_go t [k] (zlen k)
           end
  end.
Definition pack (ks : list (list Z)) : list (list (list Z)) := pack_go ks [] 0.

(** KmerFinder.kmers_present on the entries (start, stop, [k-mers]) as the finder holds them: window arithmetic as in Model/Kmer.v,
    then the packed shift-and search of every machine word of the entry *)
Definition entry_present_sa (wref wq : bool) (seq : str) (e : Z * option Z * list str) : bool :=
  let '(start, stop, ks) := e in
  match window (zlen seq) start stop with
  | None => false
  | Some (a, b) => existsb (fun g => shift_and_present (kmer_char_match wref wq) g (firstn (Z.to_nat (b - a)) (skipn (Z.to_nat a) seq))) (pack ks)
  end.
Definition kmers_present_sa (wref wq : bool) (entries : list (Z * option Z * list str)) (seq : str) : bool :=
  existsb (entry_present_sa wref wq seq) entries.

(** the same entries as the flat table of Model/Kmer.v *)
Definition flat_table (entries : list (Z * option Z * list str)) : list triple :=
  flat_map (fun e : Z * option Z * list str => let '(start, stop, ks) := e in map (fun k => (k, start, stop)) ks) entries.
