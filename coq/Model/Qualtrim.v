(** Model of src/cutadapt/qualtrim.pyx (quality_trim_index, nextseq_trim_index,
    poly_a_trim_index) and of the small N-handling pieces of modifiers.py /
    predicates.py (NEndTrimmer, TooManyN's count).  Definitions only.

    Sequences and quality strings are lists of byte codes (Z, 0..127).
    The two loops of quality_trim_index and the loop of nextseq_trim_index are
    the same running-sum scan over a list of "deltas" (cutoff - quality), once
    over the string as it is (5' end) and once over the reversed string (3'
    end); [trimcount] is that scan and returns the *number of leading elements
    to remove*.  start = trimcount(front deltas); stop = n - trimcount(reversed
    back deltas), which is what the index bookkeeping of the Cython loops
    (start = i + 1 ascending, stop = i descending) amounts to. *)
From Coq Require Import ZArith List Bool.
From CV Require Export Model.Base.
Import ListNotations.
Open Scope Z_scope.

(** running-sum scan, qualtrim.pyx:52-60 / 63-71 / 105-114:
      s += delta; if s < 0: break; if s > max_qual: max_qual = s; best = position *)
Fixpoint tscan (ds : list Z) (k s mx best : Z) : Z :=
  match ds with
  | [] => best
  | d :: ds' =>
      let s' := s + d in
      if s' <? 0 then best
      else if mx <? s' then tscan ds' (k + 1) s' s' (k + 1)
      else tscan ds' (k + 1) s' mx best
  end.

Definition trimcount (ds : list Z) : Z := tscan ds 0 0 0 0.


Definition deltas (cutoff base : Z) (quals : list Z) : list Z :=
  map (fun q => cutoff - (q - base)) quals.

Definition qtrim5 (cutoff base : Z) (quals : list Z) : Z :=
  trimcount (deltas cutoff base quals).

Definition qtrim3 (cutoff base : Z) (quals : list Z) : Z :=
  zlen quals - trimcount (rev (deltas cutoff base quals)).

(** quality_trim_index, qualtrim.pyx:22-73 *)
Definition quality_trim_index (quals : list Z) (cf cb base : Z) : Z * Z :=
  let start := qtrim5 cf base quals in
  let stop := qtrim3 cb base quals in
  if stop <=? start then (0, 0) else (start, stop).

(** nextseq_trim_index, qualtrim.pyx:76-115: a 'G' (byte 71, upper case only)
    counts as quality cutoff - 1 *)
Definition nextseq_quals (cutoff base : Z) (bases quals : list Z) : list Z :=
  map (fun bq => if fst bq =? 71 then (cutoff - 1) + base else snd bq) (combine bases quals).

Definition nextseq_deltas (cutoff base : Z) (bases quals : list Z) : list Z :=
  map (fun bq => let q := if fst bq =? 71 then cutoff - 1 else snd bq - base in cutoff - q)
      (combine bases quals).

Definition nextseq_trim_index (bases quals : list Z) (cutoff base : Z) : Z :=
  zlen quals - trimcount (rev (nextseq_deltas cutoff base bases quals)).

(** poly_a_trim_index, qualtrim.pyx:118-166.  [pscan] walks the sequence from
    the end that is being trimmed; [cnt] is the number of characters consumed
    (n - i when scanning backwards, i + 1 when scanning forwards). *)
Fixpoint pscan (target : Z) (cs : list Z) (cnt score errors best_score best : Z) : Z :=
  match cs with
  | [] => best
  | c :: cs' =>
      let cnt' := cnt + 1 in
      let score' := if c =? target then score + 1 else score - 2 in
      let errors' := if c =? target then errors else errors + 1 in
      if (best_score <? score') && (errors' * 5 <=? cnt')
      then pscan target cs' cnt' score' errors' score' cnt'
      else pscan target cs' cnt' score' errors' best_score best
  end.

Definition polycount (target : Z) (cs : list Z) : Z :=
  let c := pscan target cs 0 0 0 0 0 in
  if c <? 3 then 0 else c.

(** revcomp = false: index where the poly-A tail starts; true: end of poly-T head *)
Definition poly_a_trim_index (s : list Z) (revcomp : bool) : Z :=
  if revcomp then polycount 84 s else zlen s - polycount 65 (rev s).

(** NEndTrimmer, modifiers.py:898-914: regexes ^N+ and N+$ on upper-case N (78) only *)
Fixpoint drop_n (s : list Z) : list Z :=
  match s with
  | c :: s' => if c =? 78 then drop_n s' else s
  | [] => []
  end.

Definition n_start_cut (s : list Z) : Z := zlen s - zlen (drop_n s).
Definition n_end_cut (s : list Z) : Z := zlen (drop_n (rev s)).

(** Python slice read[a:b] for 0 <= a, 0 <= b (the only case arising here) *)
Definition slice {A} (a b : Z) (l : list A) : list A :=
  firstn (Z.to_nat (b - a)) (skipn (Z.to_nat a) l).

Definition trim_n (s : list Z) : list Z := slice (n_start_cut s) (n_end_cut s) s.

(** TooManyN's count, predicates.py:117: sequence.lower().count("n") *)
Definition n_count (s : list Z) : Z :=
  zlen (filter (fun c => (c =? 78) || (c =? 110)) s).

(** QualityTrimmer / NextseqQualityTrimmer, modifiers.py:821-854: slice sequence
    and qualities with the same indices; third component = increment of
    [trimmed_bases] *)
Definition quality_trimmer (cf cb base : Z) (sq : list Z * list Z) : list Z * list Z * Z :=
  let '(seq, quals) := sq in
  let '(a, b) := quality_trim_index quals cf cb base in
  (slice a b seq, slice a b quals, zlen seq - (b - a)).

Definition nextseq_trimmer (cutoff base : Z) (sq : list Z * list Z) : list Z * list Z * Z :=
  let '(seq, quals) := sq in
  let b := nextseq_trim_index seq quals cutoff base in
  (slice 0 b seq, slice 0 b quals, zlen seq - b).
