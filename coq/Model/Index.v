(** Model of AdapterIndex (src/cutadapt/adapters.py:1258-1520) and of the neighbourhood enumeration it is
    built from (src/cutadapt/_align.pyx: edit_environment, hamming_sphere).

    The dictionary is not materialised: [index_lookup ads s] computes what the dictionary built by
    _make_index holds for the key [s] -- the fold over the adapters in the given order of "is s in the
    neighbourhood of this adapter, with which (errors, matches)", with the replacement rule and the
    ambiguity marking of lines 1383-1404.  Membership of [s] in edit_environment(t, k) is decided by
    running the very banded DP that the generator runs along the path s (rows 1..|s|, band k, cells
    outside the band left at their memset value, the prefix pruning by the row minimum and by the
    length bound n + k).  Definitions only. *)
From Coq Require Import ZArith List Bool.
From CV Require Import Generated.Tables Model.Base Model.Align Model.Adapters.
Import ListNotations.
Open Scope Z_scope.

Definition str := list Z.

(** bytes.maketrans(b"ACGTacgt", b"\0\1\2\3\0\1\2\3") *)
Definition acgt_code (c : Z) : Z :=
  if (c =? 65) || (c =? 97) then 0 else if (c =? 67) || (c =? 99) then 1
  else if (c =? 71) || (c =? 103) then 2 else if (c =? 84) || (c =? 116) then 3 else c.
Definition is_acgt (c : Z) : bool := (c =? 65) || (c =? 67) || (c =? 71) || (c =? 84).
Definition code_of_acgt (c : Z) : Z := if c =? 65 then 0 else if c =? 67 then 1 else if c =? 71 then 2 else 3.

(** memset(costs, k+1, ...): every byte of an int cell is k+1 *)
Definition inf_cost (k : Z) : Z := (k + 1) * 16843009.

Definition in_band (i k n j : Z) : bool := (Z.max 1 (i - k) <=? j) && (j <? Z.min (n + 1) (i + k + 1)).

(** cells j, j+1, ... of row i; [prev] = row i-1 from cell j-1 on; [left] = cell j-1 of row i *)
Fixpoint row_go (ch i k n : Z) (ts : str) (j : Z) (prev : list (Z * Z)) (left : Z * Z) : list (Z * Z) :=
  match ts, prev with
  | tj :: ts', pd :: ((pu :: _) as prev') =>
      let cell :=
        if in_band i k n j then
          let mt := if tj =? ch then 0 else 1 in
          let diag := fst pd + mt in
          let lf := fst left + 1 in
          let up := fst pu + 1 in
          if (diag <=? lf) && (diag <=? up) then (diag, snd pd + (1 - mt))
          else if lf <=? up then (lf, snd left)
          else (up, snd pu)
        else (inf_cost k, 0) in
      cell :: row_go ch i k n ts' (j + 1) prev' cell
  | _, _ => []
  end.

Definition next_row (t : str) (ch i k n : Z) (prev : list (Z * Z)) : list (Z * Z) :=
  (i, 0) :: row_go ch i k n t 1 prev (i, 0).

(** min_cost of row i: the minimum over the cells of the band (999999999 when the band is empty) *)
Fixpoint band_min_go (i k n j : Z) (cells : list (Z * Z)) (acc : Z) : Z :=
  match cells with
  | [] => acc
  | c :: t => band_min_go i k n (j + 1) t (if in_band i k n j then Z.min acc (fst c) else acc)
  end.
Definition band_min (i k n : Z) (row : list (Z * Z)) : Z := band_min_go i k n 0 row 999999999.

Definition row0 (n : Z) (t : str) : list (Z * Z) := (0, 0) :: map (fun j => (j, 0)) (map (fun p => Z.of_nat p) (seq 1 (length t))).

(** follow the path [s] from the prefix of length i with DP row [row] and row minimum [mc] *)
Fixpoint env_go (t : str) (k n : Z) (s : str) (i : Z) (row : list (Z * Z)) (mc : Z) : option (Z * Z) :=
  match s with
  | [] => let '(c, m) := List.last row (0, 0) in if c <=? k then Some (c, m) else None
  | ch :: s' =>
      if is_acgt ch && (mc <=? k) && (i <? n + k) then
        let row' := next_row t (code_of_acgt ch) (i + 1) k n row in
        env_go t k n s' (i + 1) row' (band_min (i + 1) k n row')
      else None
  end.

(** (errors, matches) under which edit_environment(t, k) yields s, if it does *)
Definition env_entry (t : str) (k : Z) (s : str) : option (Z * Z) :=
  let tc := map acgt_code t in
  env_go tc k (zlen t) s 0 (row0 (zlen t) t) 0.

(** hamming_sphere(t, e) for e = 0..k: s of the same length, differing in e <= k positions, the
    differing characters of s being A, C, G or T *)
Fixpoint ham_go (t s : str) (e : Z) : option Z :=
  match t, s with
  | [], [] => Some e
  | a :: t', b :: s' => if a =? b then ham_go t' s' e else if is_acgt b then ham_go t' s' (e + 1) else None
  | _, _ => None
  end.
Definition ham_entry (t : str) (k : Z) (s : str) : option (Z * Z) :=
  match ham_go t s 0 with
  | Some e => if e <=? k then Some (e, zlen t - e) else None
  | None => None
  end.

(** an indexed adapter: the adapter record, its threshold table (for the N fallback) and
    k = int(max_error_rate * len(sequence)) *)
Record iad := mkIad { ia_ad : adapter; ia_thr : list Z; ia_k : Z }.

Definition entry_for (a : iad) (s : str) : option (Z * Z) :=
  if a_indels (ia_ad a) then env_entry (a_seq (ia_ad a)) (ia_k a) s else ham_entry (a_seq (ia_ad a)) (ia_k a) s.

(** state of the key s while _make_index runs: current entry (adapter rank, errors, matches), ambiguous? *)
Definition istate := (option (nat * Z * Z) * bool)%type.

Definition index_step (s : str) (st : istate) (ia : nat * iad) : istate :=
  match entry_for (snd ia) s with
  | None => st
  | Some (e, m) =>
      match fst st with
      | None => (Some (fst ia, e, m), snd st)
      | Some (_, _, m0) =>
          if m <? m0 then st
          else (Some (fst ia, e, m), if m0 <? m then false else true)
      end
  end.

Fixpoint number {X} (i : nat) (l : list X) : list (nat * X) :=
  match l with [] => [] | x :: t => (i, x) :: number (S i) t end.

Definition index_lookup (ads : list iad) (s : str) : option (nat * Z * Z) :=
  let '(cur, amb) := fold_left (index_step s) (number 0 ads) (None, false) in
  if amb then None else cur.

(** the set of string lengths in the index, largest first *)
Fixpoint insert_desc (x : Z) (l : list Z) : list Z :=
  match l with
  | [] => [x]
  | y :: t => if y <? x then x :: l else if y =? x then l else y :: insert_desc x t
  end.
Definition lengths_of (a : iad) : list Z :=
  let n := zlen (a_seq (ia_ad a)) in
  if a_indels (ia_ad a) then map (fun d => n - ia_k a + Z.of_nat d) (seq 0 (Z.to_nat (2 * ia_k a + 1))) else [n].
Definition index_lengths (ads : list iad) : list Z :=
  fold_left (fun acc x => insert_desc x acc) (flat_map lengths_of ads) [].

Definition make_affix (prefix : bool) (s : str) (n : Z) : str :=
  if prefix then pyslice None (Some n) s else pyslice (Some (- n)) None s.

Definition has_n (s : str) : bool := existsb (fun c => c =? 78) s.

(** _lookup_with_n: N -> A, look up, then re-align that adapter against the affix; a re-alignment that covers
    only part of the affix is a miss *)
Definition lookup_with_n (ads : list iad) (affix : str) : option (nat * Z * Z) :=
  match index_lookup ads (map (fun c => if c =? 78 then 65 else c) affix) with
  | None => None
  | Some (r, _, _) =>
      match nth_error ads r with
      | None => None
      | Some a => match match_to (thr_of (ia_thr a)) (ia_ad a) affix with
                  | None => None
                  | Some m =>
                      (* after the repair of F8c: the re-done alignment must cover the whole affix *)
                      if rstop m - rstart m =? zlen affix then Some (r, merrors m, mscore m) else None
                  end
      end
  end.

Definition lookup_affix (ads : list iad) (affix : str) : option (nat * Z * Z) :=
  if has_n affix then lookup_with_n ads affix else index_lookup ads affix.

(** result: adapter rank, rstart, rstop, errors, score *)
Definition make_match (prefix : bool) (seqlen : Z) (r : nat) (len m e : Z) : nat * Z * Z * Z * Z :=
  if prefix then (r, 0, len, e, m) else (r, seqlen - len, seqlen, e, m).

Definition match_one_length (prefix : bool) (ads : list iad) (len : Z) (sequence : str) : option (nat * Z * Z * Z * Z) :=
  let affix := make_affix prefix (map (tr upper_table) sequence) len in
  match lookup_affix ads affix with
  | None => None
  | Some (r, e, m) => Some (make_match prefix (zlen sequence) r len m e)
  end.

(** the loop of _match_to_multiple_lengths; state: affix, best (rank, length, m, e) *)
Fixpoint multi_go (prefix : bool) (ads : list iad) (seqlen : Z) (lens : list Z) (affix : str)
                  (best : option (nat * Z)) (best_m best_e : Z) : option (nat * Z) * Z * Z :=
  match lens with
  | [] => (best, best_m, best_e)
  | len :: rest =>
      if len <? best_m then (best, best_m, best_e)
      else if seqlen <? len then multi_go prefix ads seqlen rest affix best best_m best_e
      else
        let affix' := make_affix prefix affix len in
        match lookup_affix ads affix' with
        | None => multi_go prefix ads seqlen rest affix' best best_m best_e
        | Some (r, e, m) =>
            if (best_m <? m) || ((m =? best_m) && (e <? best_e))
            then multi_go prefix ads seqlen rest affix' (Some (r, len)) m e
            else multi_go prefix ads seqlen rest affix' best best_m best_e
        end
  end.

Definition match_multiple_lengths (prefix : bool) (ads : list iad) (lens : list Z) (sequence : str) : option (nat * Z * Z * Z * Z) :=
  match multi_go prefix ads (zlen sequence) lens (map (tr upper_table) sequence) None (-1) 1000 with
  | (Some (r, len), m, e) => Some (make_match prefix (zlen sequence) r len m e)
  | (None, _, _) => None
  end.

Definition index_match (prefix : bool) (ads : list iad) (sequence : str) : option (nat * Z * Z * Z * Z) :=
  match index_lengths ads with
  | [len] => match_one_length prefix ads len sequence
  | lens => match_multiple_lengths prefix ads lens sequence
  end.
