(** Instances of the generic expected-errors loop:
    - [expected_errors_f]: IEEE binary64 (PrimFloat) with the table as the doubles the
      C compiler produces -- the executable twin of the C function (run by vm_compute
      in the correspondence check, compared bit-exactly with the implementation);
    - [expected_errors_z]: exact integers over the common denominator [ee_scale]. *)
From Coq Require Import ZArith List PrimFloat.
From CV Require Import Generated.EETable Model.ExpErr.
Import ListNotations.

Definition tbl_f (q : Z) : float := nth (Z.to_nat q) ee_table_f 0%float.
Definition tbl_z (q : Z) : Z := nth (Z.to_nat q) ee_table_z 0%Z.

Definition expected_errors_f (base : Z) (quals : list Z) : option float :=
  expected_errors float 0%float PrimFloat.add tbl_f base quals.

Definition expected_errors_z (base : Z) (quals : list Z) : option Z :=
  expected_errors Z 0%Z Z.add tbl_z base quals.
