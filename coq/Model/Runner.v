(** Model of the multi-core runner protocol of src/cutadapt/runners.py as a labelled transition
    system: ReaderProcess (run, send_to_worker, shutdown, the error broadcast of lines 107-114),
    WorkerProcess.run (request, receive, process, _send_outfiles, final statistics, the error path
    of lines 212-214), ParallelPipelineRunner.run with OrderedChunkWriter and _try_receive.

    Abstract parameters: the chunks of the input (a list), what a worker produces for a chunk
    ([f], one block per chunk -- the blocks of all output files together), the statistics of a chunk
    ([g]) in a commutative monoid, which chunks make a worker raise ([bad]), and whether the reader
    raises before reading chunk k ([rfail]).

    All reader->worker pipes together are one list of (worker, message) in send order (the pipe of
    worker w is the sub-list of entries for w, FIFO); likewise the worker->main pipes.  The need-work
    queue is a bag (any worker with an outstanding request may be served): multiprocessing.Queue is
    FIFO per producer only, so every schedule of the real queue is a schedule of the model.  Pipes
    are unbounded (real pipes block when full; blocking only removes schedules).  Definitions only. *)
From Coq Require Import ZArith List Bool Arith.
Import ListNotations.

Section Runner.
  Variable A : Type.                      (* chunk *)
  Variable O : Type.                      (* processed block of a chunk *)
  Variable S : Type.                      (* statistics *)
  Variable f : A -> O.
  Variable g : A -> S.
  Variable szero : S.
  Variable sadd : S -> S -> S.
  Variable chunks : list A.
  Variable W : nat.                       (* number of workers *)
  Variable bad : nat -> bool.             (* chunk i makes the worker raise *)
  Variable rfail : option nat.            (* the reader raises when it is about to read chunk k *)
  Variable ffail : bool.                  (* the reader cannot detect the input format: the main process
                                             receives the error on the format pipe before any worker runs *)

  Inductive wst := Idle | Waiting | Done.
  Inductive msg_in := MChunk (i : nat) | MPill | MErrIn.
  Inductive msg_out := MResult (i : nat) (o : O) | MFin (s : S) | MErrOut.

  Record state := mkSt {
    next : nat;                       (* chunks handed out so far *)
    rdone : bool;                     (* reader finished (all pills sent) or failed *)
    pills : nat;
    queue : list nat;                 (* outstanding work requests *)
    inflight : list (nat * msg_in);   (* reader -> workers, in send order *)
    wstate : nat -> wst;
    wacc : nat -> S;
    results : list (nat * msg_out);   (* workers -> main, in send order *)
    pending : list (nat * O);         (* OrderedChunkWriter._chunks *)
    cur : nat;                        (* OrderedChunkWriter._current_index *)
    written : list O;
    macc : S;
    open : list nat;                  (* connections the main process still waits on *)
    failed : bool                     (* the main process received an error and raised *)
  }.

  Definition upd {X} (h : nat -> X) (w : nat) (x : X) : nat -> X := fun v => if Nat.eqb v w then x else h v.

  Definition init : state :=
    mkSt 0 false 0 [] [] (fun _ => Idle) (fun _ => szero) [] [] 0 [] szero (seq 0 W) false.

  Fixpoint remove1 (w : nat) (l : list nat) : list nat :=
    match l with [] => [] | x :: t => if Nat.eqb x w then t else x :: remove1 w t end.

  (** head of the pipe of worker w, and the pipe without it *)
  Fixpoint head_for {M} (w : nat) (l : list (nat * M)) : option M :=
    match l with [] => None | (v, m) :: t => if Nat.eqb v w then Some m else head_for w t end.
  Fixpoint drop_for {M} (w : nat) (l : list (nat * M)) : list (nat * M) :=
    match l with [] => [] | (v, m) :: t => if Nat.eqb v w then t else (v, m) :: drop_for w t end.

  Fixpoint lookup (i : nat) (p : list (nat * O)) : option O :=
    match p with [] => None | (j, o) :: t => if Nat.eqb j i then Some o else lookup i t end.
  Fixpoint delete (i : nat) (p : list (nat * O)) : list (nat * O) :=
    match p with [] => [] | (j, o) :: t => if Nat.eqb j i then delete i t else (j, o) :: delete i t end.

  (** OrderedChunkWriter.write: while current_index in chunks: write, delete, increment *)
  Fixpoint flush (fuel : nat) (p : list (nat * O)) (c : nat) (wr : list O) : list (nat * O) * nat * list O :=
    match fuel with
    | 0 => (p, c, wr)
    | Datatypes.S fu => match lookup c p with
              | Some o => flush fu (delete c p) (Datatypes.S c) (wr ++ [o])
              | None => (p, c, wr)
              end
    end.

  Inductive label :=
    | LReq (w : nat)        (* worker puts its id into the need-work queue *)
    | LSend (w : nat)       (* reader sends the next chunk to w *)
    | LPill (w : nat)       (* reader sends a poison pill to w *)
    | LRFail                (* reader raises: broadcasts the error to all workers *)
    | LTake (w : nat)       (* worker receives a chunk, processes it, sends the result (or raises) *)
    | LFin (w : nat)        (* worker receives the pill, sends its statistics *)
    | LWErr (w : nat)       (* worker receives the reader's error, forwards it *)
    | LRecv (w : nat)       (* main receives a result block from w and hands it to the ordered writer *)
    | LRecvFin (w : nat)    (* main receives the final statistics of w and closes the connection *)
    | LRecvErr (w : nat)    (* main receives an error from w: terminates the children and raises *)
    | LFmtFail.             (* main receives the format-detection error from the reader and raises *)

  Definition reader_fails_now (s : state) : bool :=
    match rfail with Some k => Nat.eqb (next s) k | None => false end.

  Definition mem (w : nat) (l : list nat) : bool := existsb (Nat.eqb w) l.

  (** the transition function: None = label not enabled *)
  Definition step (s : state) (l : label) : option state :=
    if failed s then None else
    if ffail then
      match l with
      | LFmtFail => Some (mkSt (next s) (rdone s) (pills s) (queue s) (inflight s) (wstate s) (wacc s) (results s)
                               (pending s) (cur s) (written s) (macc s) (open s) true)
      | _ => None
      end
    else
    match l with
    | LFmtFail => None
    | LReq w =>
        if (w <? W) && match wstate s w with Idle => true | _ => false end
        then Some (mkSt (next s) (rdone s) (pills s) (queue s ++ [w]) (inflight s) (upd (wstate s) w Waiting) (wacc s) (results s)
                        (pending s) (cur s) (written s) (macc s) (open s) false)
        else None
    | LSend w =>
        if negb (rdone s) && negb (reader_fails_now s) && (next s <? length chunks) && mem w (queue s)
        then Some (mkSt (Datatypes.S (next s)) (rdone s) (pills s) (remove1 w (queue s)) (inflight s ++ [(w, MChunk (next s))])
                        (wstate s) (wacc s) (results s) (pending s) (cur s) (written s) (macc s) (open s) false)
        else None
    | LPill w =>
        if negb (rdone s) && negb (reader_fails_now s) && Nat.eqb (next s) (length chunks) && (pills s <? W) && mem w (queue s)
        then Some (mkSt (next s) (Nat.eqb (Datatypes.S (pills s)) W) (Datatypes.S (pills s)) (remove1 w (queue s))
                        (inflight s ++ [(w, MPill)]) (wstate s) (wacc s) (results s) (pending s) (cur s) (written s)
                        (macc s) (open s) false)
        else None
    | LRFail =>
        if negb (rdone s) && reader_fails_now s
        then Some (mkSt (next s) true (pills s) (queue s) (inflight s ++ map (fun v => (v, MErrIn)) (seq 0 W))
                        (wstate s) (wacc s) (results s) (pending s) (cur s) (written s) (macc s) (open s) false)
        else None
    | LTake w =>
        match wstate s w, head_for w (inflight s) with
        | Waiting, Some (MChunk i) =>
            if bad i
            then Some (mkSt (next s) (rdone s) (pills s) (queue s) (drop_for w (inflight s)) (upd (wstate s) w Done) (wacc s)
                            (results s ++ [(w, MErrOut)]) (pending s) (cur s) (written s) (macc s) (open s) false)
            else match nth_error chunks i with
                 | Some c =>
                     Some (mkSt (next s) (rdone s) (pills s) (queue s) (drop_for w (inflight s)) (upd (wstate s) w Idle)
                                (upd (wacc s) w (sadd (wacc s w) (g c))) (results s ++ [(w, MResult i (f c))])
                                (pending s) (cur s) (written s) (macc s) (open s) false)
                 | None => None
                 end
        | _, _ => None
        end
    | LFin w =>
        match wstate s w, head_for w (inflight s) with
        | Waiting, Some MPill =>
            Some (mkSt (next s) (rdone s) (pills s) (queue s) (drop_for w (inflight s)) (upd (wstate s) w Done) (wacc s)
                       (results s ++ [(w, MFin (wacc s w))]) (pending s) (cur s) (written s) (macc s) (open s) false)
        | _, _ => None
        end
    | LWErr w =>
        match wstate s w, head_for w (inflight s) with
        | Waiting, Some MErrIn =>
            Some (mkSt (next s) (rdone s) (pills s) (queue s) (drop_for w (inflight s)) (upd (wstate s) w Done) (wacc s)
                       (results s ++ [(w, MErrOut)]) (pending s) (cur s) (written s) (macc s) (open s) false)
        | _, _ => None
        end
    | LRecv w =>
        if mem w (open s) then
          match head_for w (results s) with
          | Some (MResult i o) =>
              let '(p, c, wr) := flush (Datatypes.S (length (pending s))) ((i, o) :: pending s) (cur s) (written s) in
              Some (mkSt (next s) (rdone s) (pills s) (queue s) (inflight s) (wstate s) (wacc s) (drop_for w (results s))
                         p c wr (macc s) (open s) false)
          | _ => None
          end
        else None
    | LRecvFin w =>
        if mem w (open s) then
          match head_for w (results s) with
          | Some (MFin st) =>
              Some (mkSt (next s) (rdone s) (pills s) (queue s) (inflight s) (wstate s) (wacc s) (drop_for w (results s))
                         (pending s) (cur s) (written s) (sadd (macc s) st) (remove1 w (open s)) false)
          | _ => None
          end
        else None
    | LRecvErr w =>
        if mem w (open s) then
          match head_for w (results s) with
          | Some MErrOut =>
              Some (mkSt (next s) (rdone s) (pills s) (queue s) (inflight s) (wstate s) (wacc s) (drop_for w (results s))
                         (pending s) (cur s) (written s) (macc s) (open s) true)
          | _ => None
          end
        else None
    end.

  (** a schedule = any sequence of labels; [run] stops at the first label that is not enabled *)
  Fixpoint run (s : state) (ls : list label) : option state :=
    match ls with
    | [] => Some s
    | l :: t => match step s l with Some s' => run s' t | None => None end
    end.

  Definition reachable (s : state) : Prop := exists ls, run init ls = Some s.

  Definition finished_ok (s : state) : bool := negb (failed s) && match open s with [] => true | _ => false end.
  Definition terminal (s : state) : bool := failed s || match open s with [] => true | _ => false end.

  (** statistics of a list of chunk indices, and of the whole input *)
  Definition gi (i : nat) : S := match nth_error chunks i with Some c => g c | None => szero end.
  Definition ssum (l : list S) : S := fold_right sadd szero l.
  Definition total_stats : S := ssum (map gi (seq 0 (length chunks))).

  (** ---- recorded events of the implementation (hook in runners.py) and their replay.
      An event carries what the process saw (the chunk index); it is accepted only if the model
      is in a state where that very thing can happen. *)
  Inductive event :=
    | EReq (w : nat) | ESend (w i : nat) | EPill (w : nat) | ERFail | ETake (w i : nat) | ETakeBad (w i : nat)
    | EFin (w : nat) | EWErr (w : nat) | ERecv (w i : nat) | ERecvFin (w : nat) | ERecvErr.

  Definition first_err (s : state) : option nat :=
    find (fun w => match head_for w (results s) with Some MErrOut => true | _ => false end) (open s).

  Definition event_label (s : state) (e : event) : option label :=
    match e with
    | EReq w => Some (LReq w)
    | ESend w i => if Nat.eqb i (next s) then Some (LSend w) else None
    | EPill w => Some (LPill w)
    | ERFail => Some LRFail
    | ETake w i => match head_for w (inflight s) with
                   | Some (MChunk j) => if Nat.eqb i j && negb (bad j) then Some (LTake w) else None
                   | _ => None
                   end
    | ETakeBad w i => match head_for w (inflight s) with
                      | Some (MChunk j) => if Nat.eqb i j && bad j then Some (LTake w) else None
                      | _ => None
                      end
    | EFin w => Some (LFin w)
    | EWErr w => Some (LWErr w)
    | ERecv w i => match head_for w (results s) with
                   | Some (MResult j _) => if Nat.eqb i j then Some (LRecv w) else None
                   | _ => None
                   end
    | ERecvFin w => Some (LRecvFin w)
    | ERecvErr => if ffail then Some LFmtFail else match first_err s with Some w => Some (LRecvErr w) | None => None end
    end.

  (** replay: returns the state reached and the number of events consumed (all of them iff accepted) *)
  Fixpoint replay (s : state) (es : list event) (n : nat) : state * nat :=
    match es with
    | [] => (s, n)
    | e :: t => match event_label s e with
                | Some l => match step s l with
                            | Some s' => replay s' t (Datatypes.S n)
                            | None => (s, n)
                            end
                | None => (s, n)
                end
    end.

  (** trace acceptance: used to validate recorded traces of the implementation *)
  Definition accepts (ls : list label) : bool := match run init ls with Some _ => true | None => false end.
  Definition accepts_and_finishes (ls : list label) : bool :=
    match run init ls with Some s => terminal s | None => false end.
End Runner.

Arguments next {O S} _.
Arguments rdone {O S} _.
Arguments pills {O S} _.
Arguments queue {O S} _.
Arguments inflight {O S} _.
Arguments wstate {O S} _ _.
Arguments wacc {O S} _ _.
Arguments results {O S} _.
Arguments pending {O S} _.
Arguments cur {O S} _.
Arguments written {O S} _.
Arguments macc {O S} _.
Arguments open {O S} _.
Arguments failed {O S} _.
Arguments MResult {O S} _ _.
Arguments MFin {O S} _.
Arguments MErrOut {O S}.
Arguments lookup {O} _ _.
Arguments delete {O} _ _.
Arguments flush {O} _ _ _ _.
Arguments head_for {M} _ _.
Arguments drop_for {M} _ _.
Arguments terminal {O S} _.
Arguments finished_ok {O S} _.
