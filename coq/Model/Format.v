(** Model of the output-format decision: cutadapt/files.py detect_format_from_path and its use in
    OutputFiles.open_record_writer.  Names are lower-cased byte lists.  Definitions only.
    The decision takes the file name and whether the input has qualities; the number of cores, the
    compression of the input and the layout of the input are not among its arguments. *)
From Coq Require Import ZArith List Bool.
From CV Require Import Model.Base Model.Parser.
Import ListNotations.
Open Scope Z_scope.

Inductive fmt := Fasta | Fastq.

Definition s_gz : str := [46; 103; 122].
Definition s_xz : str := [46; 120; 122].
Definition s_bz2 : str := [46; 98; 122; 50].
Definition s_zst : str := [46; 122; 115; 116].
Definition compression_suffixes : list str := [s_gz; s_xz; s_bz2; s_zst].

Definition e_fasta : str := [46; 102; 97; 115; 116; 97].
Definition e_fa : str := [46; 102; 97].
Definition e_fna : str := [46; 102; 110; 97].
Definition e_csfasta : str := [46; 99; 115; 102; 97; 115; 116; 97].
Definition e_csfa : str := [46; 99; 115; 102; 97].
Definition e_fastq : str := [46; 102; 97; 115; 116; 113].
Definition e_fq : str := [46; 102; 113].
Definition e_txt : str := [46; 116; 120; 116].
Definition s_sequence : str := [95; 115; 101; 113; 117; 101; 110; 99; 101].
Definition fasta_exts : list str := [e_fasta; e_fa; e_fna; e_csfasta; e_csfa].
Definition fastq_exts : list str := [e_fastq; e_fq].

(** on the reversed name: remove the first of .gz .xz .bz2 .zst that the name ends with *)
Fixpoint strip_first_rev (sufs : list str) (r : str) : str :=
  match sufs with
  | [] => r
  | s :: t => if starts_with (rev s) r then skipn (length s) r else strip_first_rev t r
  end.

(** os.path.splitext on the reversed name: the extension starts at the last dot of the last path
    component, provided a character other than a dot precedes it in that component *)
Fixpoint split_rev (r acc : str) : option (str * str) :=
  match r with
  | [] => None
  | c :: t => if c =? 47 then None else if c =? 46 then Some (46 :: acc, t) else split_rev t (c :: acc)
  end.

Fixpoint stem_ok (t : str) : bool :=
  match t with
  | [] => false
  | c :: u => if c =? 47 then false else if c =? 46 then stem_ok u else true
  end.

(** (extension in forward order, root reversed) *)
Definition splitext_rev (r : str) : str * str :=
  match split_rev r [] with
  | Some (e, t) => if stem_ok t then (e, t) else ([], r)
  | None => ([], r)
  end.

Definition str_in (x : str) (l : list str) : bool := existsb (str_eqb x) l.

Definition detect_format (name : str) : option fmt :=
  let r := strip_first_rev compression_suffixes (rev name) in
  let '(ext, root) := splitext_rev r in
  if str_in ext fasta_exts then Some Fasta
  else if str_in ext fastq_exts || (str_eqb ext e_txt && starts_with (rev s_sequence) root) then Some Fastq
  else None.

(** the format written to an output named [name] when the input has ([true]) or lacks qualities *)
Definition output_format (name : str) (has_qual : bool) : fmt :=
  match detect_format name with
  | Some Fasta => Fasta
  | Some Fastq => if has_qual then Fastq else Fasta
  | None => if has_qual then Fastq else Fasta
  end.
