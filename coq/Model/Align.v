(** Model of src/cutadapt/_align.pyx: Aligner.locate (lines 298-587), PrefixComparer /
    SuffixComparer (594-714).  Definitions only.

    A functional, line-by-line rendering of the C loop:
      - one DP column is a [list entry] of length m+1;
      - a column step computes cells 1..last and leaves the cells below stale ([fill]);
      - the C local [origin], which survives the column loop and is read by the
        last-column search (line 565), is the component [ovar] of the loop state;
      - the float test  cost <= L * max_error_rate  is  cost <=? thr L  with
        thr L = floor (L * rate) supplied as a table (DESIGN 3);
      - character comparison is a parameter [eqc] applied to translated bytes.
    C [int] overflow is not modelled. *)
From Coq Require Import ZArith List Bool.
From CV Require Import Generated.Tables Generated.Scores.
From CV Require Export Model.Base.
Import ListNotations.
Open Scope Z_scope.

Record entry := mkE { cost : Z; score : Z; origin : Z }.

Record best_t := mkB { b_origin : Z; b_cost : Z; b_score : Z; b_refstop : Z; b_qstop : Z }.

Record acfg := mkCfg {
  start_in_ref : bool;   (* flags & 1 *)
  start_in_query : bool; (* flags & 2 *)
  stop_in_ref : bool;    (* flags & 4 *)
  stop_in_query : bool;  (* flags & 8 *)
  wildcard_ref : bool;
  indel_cost : Z;
  min_overlap : Z
}.

Definition dummy : entry := mkE 0 0 0.

(** number of N/n (78/110) among the first i characters of the raw reference: n_counts[i] *)
Definition is_n (c : Z) : bool := (c =? 78) || (c =? 110).
Fixpoint count_n (l : list Z) : Z :=
  match l with [] => 0 | c :: t => (if is_n c then 1 else 0) + count_n t end.
Definition ncounts (ref : list Z) (i : Z) : Z := count_n (firstn (Z.to_nat i) ref).

Section Locate.
  Variable eqc : Z -> Z -> bool.   (* on translated bytes *)
  Variable thr : Z -> Z.           (* thr L = int (L * max_error_rate) *)
  Variable cfg : acfg.
  Variable rawref : list Z.        (* reference as given (for the N counts) *)
  Variable s1 : list Z.            (* translated reference *)

  Let m := zlen s1.
  Let k := thr m.
  Let INS := indel_cost cfg.
  Let DEL := indel_cost cfg.

  (** cell recurrence, _align.pyx:441-483.  [old] = old column from index i on,
      [diag] = old cell i-1, [prev] = new cell i-1.  Returns the new cells from
      index i on (computed ones, then the stale rest) and the C variable [origin]. *)
  Definition cell (c2 r : Z) (diag cur prev : entry) : entry :=
    if eqc r c2 then mkE (cost diag) (score diag + MATCH_SCORE) (origin diag)
    else
      let cd := cost diag + 1 in
      let ci := cost cur + INS in
      let cdel := cost prev + DEL in
      if (cd <=? cdel) && (cd <=? ci) then mkE cd (score diag + MISMATCH_SCORE) (origin diag)
      else if cdel <=? ci then mkE cdel (score prev + DELETION_SCORE) (origin prev)
      else mkE ci (score cur + INSERTION_SCORE) (origin cur).

  Fixpoint fill (budget : nat) (c2 : Z) (refs : list Z) (old : list entry) (diag prev : entry) (ov : Z)
    : list entry * Z :=
    match budget, refs, old with
    | S b, r :: refs', cur :: old' =>
        let e := cell c2 r diag cur prev in
        let '(rest, ov') := fill b c2 refs' old' cur e (origin e) in
        (e :: rest, ov')
    | _, _, _ => (old, ov)
    end.

  (** while last >= 0 and column[last].cost > k: last -= 1   (as: largest index <= last with cost <= k, or -1) *)
  Fixpoint last_le (l : list entry) (i acc : Z) : Z :=
    match l with
    | [] => acc
    | e :: t => last_le t (i + 1) (if cost e <=? k then i else acc)
    end.
  Definition shrink_last (col : list entry) (last : Z) : Z :=
    last_le (firstn (Z.to_nat (last + 1)) col) 0 (-1).

  (** effective length of the aligned reference part ref[rs, stop), lines 503-510 / 543-553 *)
  Definition eff_len (length stop : Z) : Z :=
    if wildcard_ref cfg then
      if length <? m then length - (ncounts rawref stop - ncounts rawref (stop - length))
      else m - ncounts rawref m
    else length.

  Definition no_best (n : Z) : Z := m + n + 1.

  Definition replaces (n : Z) (best : best_t) (ov sc length best_length : Z) : bool :=
    (b_cost best =? no_best n)
    || ((ov <=? b_origin best + m / 2) && (b_score best <? sc))
    || ((best_length <? length) && (b_score best <? sc)).

  Record lstate := mkS {
    col : list entry; last : Z; last_filled : Z; best : best_t; ovar : Z; stopped : bool }.

  (** one iteration of  for j in range(min_n+1, max_n+1)  (lines 433-534) for query char c2 *)
  Definition column_step (n : Z) (c2 j : Z) (st : lstate) : lstate :=
    match col st with
    | [] => st
    | c0 :: olds =>
        let siq := start_in_query cfg in
        let new0 := mkE (cost c0 + (if siq then 0 else INS))
                        (score c0 + (if siq then 0 else INSERTION_SCORE))
                        (origin c0 + (if siq then 1 else 0)) in
        let '(rest, ov1) := fill (Z.to_nat (last st)) c2 s1 olds c0 new0 (ovar st) in
        let col' := new0 :: rest in
        let lf := last st in
        let l1 := shrink_last col' (last st) in
        if l1 <? m then mkS col' (l1 + 1) lf (best st) ov1 false
        else if stop_in_query cfg then
          let e := znth dummy col' m in
          let length := m + Z.min (origin e) 0 in
          let cel := eff_len length m in
          let ok := (min_overlap cfg <=? length) && (cost e <=? thr cel) in
          let best_length := m + Z.min (b_origin (best st)) 0 in
          if ok && replaces n (best st) (origin e) (score e) length best_length then
            let b := mkB (origin e) (cost e) (score e) m j in
            mkS col' l1 lf b (origin e) ((cost e =? 0) && (0 <=? origin e))
          else mkS col' l1 lf (best st) (origin e) false
        else mkS col' l1 lf (best st) ov1 false
    end.

  Fixpoint columns (n : Z) (qs : list Z) (j : Z) (st : lstate) : lstate :=
    match qs with
    | [] => st
    | c2 :: t =>
        let st' := column_step n c2 j st in
        if stopped st' then st' else columns n t (j + 1) st'
    end.

  (** initial column, lines 364-383 *)
  Definition init_entry (min_n i : Z) : entry :=
    match start_in_ref cfg, start_in_query cfg with
    | false, false => mkE (Z.max i min_n * DEL) (i * DELETION_SCORE) 0
    | true, false => mkE (min_n * DEL) 0 (Z.min 0 (min_n - i))
    | false, true => mkE (i * DEL) (i * DELETION_SCORE) (Z.max 0 (min_n - i))
    | true, true => mkE (Z.min i min_n * DEL) 0 (min_n - i)
    end.

  Fixpoint zrange (lo : Z) (cnt : nat) : list Z :=
    match cnt with O => [] | S c => lo :: zrange (lo + 1) c end.

  Definition init_column (min_n : Z) : list entry :=
    map (init_entry min_n) (zrange 0 (S (length s1))).

  (** last-column search, lines 536-572: candidates i = last_filled .. first_i, downwards.
      [cells] is the list of (i, column[i]) in that order. *)
  Fixpoint last_column (n : Z) (ov : Z) (cells : list (Z * entry)) (best : best_t) : best_t :=
    match cells with
    | [] => best
    | (i, e) :: t =>
        let length := i + Z.min (origin e) 0 in
        let cel := eff_len length i in
        let ok := (min_overlap cfg <=? length) && (cost e <=? thr cel) in
        let best_length := b_refstop best + Z.min (b_origin best) 0 in
        if ok && replaces n best ov (score e) length best_length
        then last_column n ov t (mkB (origin e) (cost e) (score e) i n)
        else last_column n ov t best
    end.

  Definition indexed (l : list entry) : list (Z * entry) := combine (zrange 0 (length l)) l.

  Definition locate_core (s2 : list Z) : option (Z * Z * Z * Z * Z * Z) :=
    let n := zlen s2 in
    let max_n := if start_in_query cfg then n else Z.min n (m + k) in
    let min_n := if stop_in_query cfg then 0 else Z.max 0 (n - m - k) in
    let col0 := init_column min_n in
    let best0 := mkB 0 (no_best n) 0 m n in
    let last0 := if start_in_ref cfg then m else Z.min m (k + 1) in
    let qs := firstn (Z.to_nat (max_n - min_n)) (skipn (Z.to_nat min_n) s2) in
    let st := columns n qs (min_n + 1) (mkS col0 last0 0 best0 0 false) in
    let bestf :=
      if max_n =? n then
        let first_i := if stop_in_ref cfg then 0 else m in
        let cells := filter (fun ie => first_i <=? fst ie)
                            (rev (firstn (Z.to_nat (last_filled st + 1)) (indexed (col st)))) in
        last_column n (ovar st) cells (best st)
      else best st in
    if b_cost bestf =? no_best n then None
    else
      let '(rs, qstart) := if 0 <=? b_origin bestf then (0, b_origin bestf) else (- b_origin bestf, 0) in
      Some (rs, b_refstop bestf, qstart, b_qstop bestf, b_score bestf, b_cost bestf).
End Locate.

(** translation (lines 43-56, 268-276, 322-329) and character comparison (442-445) *)
Definition tr (tab : list Z) (c : Z) : Z := znth 0 tab c.
Definition eq_ascii (a b : Z) : bool := a =? b.
Definition eq_and (a b : Z) : bool := negb (Z.land a b =? 0).

Definition locate (thr : Z -> Z) (cfg : acfg) (wildcard_query : bool) (ref query : list Z)
  : option (Z * Z * Z * Z * Z * Z) :=
  let s1 := if wildcard_ref cfg then map (tr iupac_table) ref
            else if wildcard_query then map (tr acgt_table) ref else ref in
  let s2 := if wildcard_query then map (tr iupac_table) query
            else if wildcard_ref cfg then map (tr acgt_table) query
            else map (tr upper_table) query in
  let eqc := if wildcard_query || wildcard_ref cfg then eq_and else eq_ascii in
  locate_core eqc thr cfg ref s1 s2.

(** PrefixComparer.locate, lines 651-693.  [max_k] = int(rate * effective_length) is computed
    by the caller exactly as __init__ does: effective_length = m - (count 'N' - count 'n')
    when wildcard_ref. *)
Fixpoint count_c (c : Z) (l : list Z) : Z :=
  match l with [] => 0 | x :: t => (if x =? c then 1 else 0) + count_c c t end.

Definition comparer_eff_len (wref : bool) (ref : list Z) : Z :=
  if wref then zlen ref - (count_c 78 ref - count_c 110 ref) else zlen ref.

Fixpoint mismatches (eqc : Z -> Z -> bool) (a b : list Z) : Z :=
  match a, b with
  | x :: a', y :: b' => (if eqc x y then 0 else 1) + mismatches eqc a' b'
  | _, _ => 0
  end.

Definition prefix_locate (wref wq : bool) (max_k min_ov : Z) (ref query : list Z)
  : option (Z * Z * Z * Z * Z * Z) :=
  let s1 := if wref then map (tr iupac_table) ref
            else if wq then map (tr acgt_table) ref else map (tr upper_table) ref in
  let s2 := if wq then map (tr iupac_table) query
            else if wref then map (tr acgt_table) query else map (tr upper_table) query in
  let eqc := if wq || wref then eq_and else eq_ascii in
  let length := Z.min (zlen ref) (zlen query) in
  let errors := mismatches eqc s1 s2 in
  if (max_k <? errors) || (length <? min_ov) then None
  else Some (0, length, 0, length, (length - errors) * MATCH_SCORE + errors * MISMATCH_SCORE, errors).

Definition suffix_locate (wref wq : bool) (max_k min_ov : Z) (ref query : list Z)
  : option (Z * Z * Z * Z * Z * Z) :=
  match prefix_locate wref wq max_k min_ov (rev ref) (rev query) with
  | None => None
  | Some (_, length, _, _, sc, e) =>
      Some (zlen ref - length, zlen ref, zlen query - length, zlen query, sc, e)
  end.
