(** Model of the single-adapter classes of src/cutadapt/adapters.py (684-1034):
    which aligner each class builds (flags from Generated/Flags.v, regenerated from the
    source on every run), what is passed to it, how the result is turned into a match and
    on which side the read is cut.  The k-mer prefilter is *not* part of [match_to] here
    (see Model/Kmer.v and C07).  Definitions only. *)
From Coq Require Import ZArith List Bool.
From CV Require Import Generated.Tables Generated.Scores Generated.Flags Model.Align.
Import ListNotations.
Open Scope Z_scope.

Inductive atype :=
  | Front | RightmostFront | Back | Anywhere | NonInternalFront | NonInternalBack | Prefix | Suffix.

(** The adapter after SingleAdapter.__init__: sequence upper-cased (U->T, I->N),
    adapter_wildcards already reduced to "has a non-ACGT character", min_overlap already
    min'ed with the length (and = length for anchored types). *)
Record adapter := mkAd {
  a_type : atype;
  a_seq : list Z;
  a_wref : bool;          (* adapter_wildcards *)
  a_wq : bool;            (* read_wildcards *)
  a_indels : bool;
  a_min_overlap : Z;
  a_force_anywhere : bool
}.

(** side: 0 = RemoveBeforeMatch (5' adapter, the part up to rstop is removed),
          1 = RemoveAfterMatch  (3' adapter, the part from rstart is removed) *)
Record amatch := mkM {
  astart : Z; astop : Z; rstart : Z; rstop : Z; mscore : Z; merrors : Z; mside : Z }.

Definition cfg_of (flags : Z) (ad : adapter) : acfg :=
  mkCfg (Z.testbit flags 0) (Z.testbit flags 1) (Z.testbit flags 2) (Z.testbit flags 3)
        (a_wref ad) (if a_indels ad then INDEL_COST_ON else INDEL_COST_OFF) (a_min_overlap ad).

Definition class_flags (t : atype) : Z :=
  match t with
  | Front => cls_FrontAdapter_flags
  | RightmostFront => cls_RightmostFrontAdapter_flags
  | Back => cls_BackAdapter_flags
  | Anywhere => cls_AnywhereAdapter_flags
  | NonInternalFront => cls_NonInternalFrontAdapter_flags
  | NonInternalBack => cls_NonInternalBackAdapter_flags
  | Prefix => cls_PrefixAdapter_flags
  | Suffix => cls_SuffixAdapter_flags
  end.

Definition class_side (t : atype) : Z :=
  match t with
  | Front => cls_FrontAdapter_side
  | RightmostFront => cls_RightmostFrontAdapter_side
  | Back => cls_BackAdapter_side
  | Anywhere => cls_AnywhereAdapter_side
  | NonInternalFront => cls_NonInternalFrontAdapter_side
  | NonInternalBack => cls_NonInternalBackAdapter_side
  | Prefix => cls_PrefixAdapter_side
  | Suffix => cls_SuffixAdapter_side
  end.

Definition class_reversed (t : atype) : bool :=
  match t with
  | Front => cls_FrontAdapter_reversed
  | RightmostFront => cls_RightmostFrontAdapter_reversed
  | Back => cls_BackAdapter_reversed
  | Anywhere => cls_AnywhereAdapter_reversed
  | NonInternalFront => cls_NonInternalFrontAdapter_reversed
  | NonInternalBack => cls_NonInternalBackAdapter_reversed
  | Prefix => cls_PrefixAdapter_reversed
  | Suffix => cls_SuffixAdapter_reversed
  end.

Definition class_upper_first (t : atype) : bool :=
  match t with
  | Anywhere => cls_AnywhereAdapter_upper_first
  | _ => false
  end.

(** force_anywhere switches Front/RightmostFront/Back to the semiglobal flags (adapters.py:699,748,807) *)
Definition aligner_flags (ad : adapter) : Z :=
  match a_type ad with
  | Front | RightmostFront | Back => if a_force_anywhere ad then where_ANYWHERE else class_flags (a_type ad)
  | t => class_flags t
  end.

Definition uses_comparer (ad : adapter) : bool :=
  match a_type ad with
  | Prefix | Suffix => negb (a_indels ad)
  | _ => false
  end.

(** the raw aligner answer for [read], in the coordinates of the adapter as given *)
Definition raw_locate (thr : Z -> Z) (ad : adapter) (read : list Z) : option (Z * Z * Z * Z * Z * Z) :=
  let m := zlen (a_seq ad) in
  let n := zlen read in
  match a_type ad with
  | Prefix =>
      if a_indels ad then locate thr (cfg_of (aligner_flags ad) ad) (a_wq ad) (a_seq ad) read
      else prefix_locate (a_wref ad) (a_wq ad) (thr (comparer_eff_len (a_wref ad) (a_seq ad)))
                         (a_min_overlap ad) (a_seq ad) read
  | Suffix =>
      if a_indels ad then locate thr (cfg_of (aligner_flags ad) ad) (a_wq ad) (a_seq ad) read
      else suffix_locate (a_wref ad) (a_wq ad) (thr (comparer_eff_len (a_wref ad) (rev (a_seq ad))))
                         (a_min_overlap ad) (a_seq ad) read
  | t =>
      if class_reversed t then
        match locate thr (cfg_of (aligner_flags ad) ad) (a_wq ad) (rev (a_seq ad)) (rev read) with
        | None => None
        | Some (rs, re, qs, qe, sc, e) => Some (m - re, m - rs, n - qe, n - qs, sc, e)
        end
      else
        let q := if class_upper_first t then map (tr upper_table) read else read in
        locate thr (cfg_of (aligner_flags ad) ad) (a_wq ad) (a_seq ad) q
  end.

Definition match_to (thr : Z -> Z) (ad : adapter) (read : list Z) : option amatch :=
  match raw_locate thr ad read with
  | None => None
  | Some (a0, a1, r0, r1, sc, e) =>
      let side := class_side (a_type ad) in
      let side' := if side =? 2 then (if r0 =? 0 then 0 else 1) else side in
      Some (mkM a0 a1 r0 r1 sc e side')
  end.

(** thresholds as a table (what the driver and the correspondence pass in): thr L = nth L tab *)
Definition thr_of (tab : list Z) (L : Z) : Z := znth 0 tab L.
