(** The pipeline model instantiated with the construction orders regenerated from cli.py. *)
From Coq Require Import ZArith List Bool.
From CV Require Import Model.Pipeline Model.Paired Generated.Orders.
Import ListNotations.

Definition run_cli (o : options) (reads : list read) : report := run modifier_order filter_order o reads.
Definition process_cli (o : options) (r : read) : outcome := process_read modifier_order filter_order o r.

Definition prun_cli (p : poptions) (pairs : list (read * read)) : preport := prun modifier_order filter_order p pairs.
Definition process_pair_cli (p : poptions) (rr : read * read) : poutcome := process_pair modifier_order filter_order p rr.
