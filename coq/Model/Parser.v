(** Model of src/cutadapt/parser.py (parse_search_parameters, expand_braces, AdapterSpecification.parse,
    _parse_restrictions, _restriction_to_class, _normalize_ellipsis, make_adapter, linked adapters,
    the file: variants) and of the normalisation done by SingleAdapter.__init__ (adapters.py:564-599).
    Strings are lists of byte codes.  Numbers in search parameters are modelled for the forms
    digits and digits.digits (exact decimal rationals); other numerals Python accepts (exponents,
    underscores, inf/nan) are outside the model (the model answers [Err] there).  Definitions only. *)
From Coq Require Import ZArith QArith List Bool.
From CV Require Import Model.Base Generated.Tables Model.Align Model.Adapters.
Import ListNotations.
Open Scope Z_scope.

Definition str := list Z.

Fixpoint str_eqb (a b : str) : bool :=
  match a, b with
  | [], [] => true
  | x :: a', y :: b' => (x =? y) && str_eqb a' b'
  | _, _ => false
  end.

Fixpoint starts_with (p s : str) : bool :=
  match p, s with
  | [], _ => true
  | x :: p', y :: s' => (x =? y) && starts_with p' s'
  | _ :: _, [] => false
  end.

Definition is_space (c : Z) : bool := (c =? 32) || ((9 <=? c) && (c <=? 13)).
Fixpoint lstrip (s : str) : str := match s with c :: s' => if is_space c then lstrip s' else s | [] => [] end.
Definition strip (s : str) : str := rev (lstrip (rev (lstrip s))).

(** s.split(sep) on a single character *)
Fixpoint split_on (sep : Z) (s : str) (cur : str) : list str :=
  match s with
  | [] => [rev cur]
  | c :: s' => if c =? sep then rev cur :: split_on sep s' [] else split_on sep s' (c :: cur)
  end.
Definition split (sep : Z) (s : str) : list str := split_on sep s [].

(** s.partition(sep) for a non-empty separator: (before, found?, after) *)
Fixpoint partition_aux (fuel : nat) (sep s acc : str) : str * bool * str :=
  match fuel with
  | O => (rev acc ++ s, false, [])
  | S f =>
      if starts_with sep s then (rev acc, true, skipn (length sep) s)
      else match s with
           | [] => (rev acc, false, [])
           | c :: s' => partition_aux f sep s' (c :: acc)
           end
  end.
Definition partition (sep s : str) : str * bool * str := partition_aux (S (length s)) sep s [].

(** ---- numbers *)
Inductive value := VTrue | VInt (n : Z) | VDec (mant : Z) (digits_after_point : nat).   (* mant / 10^digits *)

Definition is_digit (c : Z) : bool := (48 <=? c) && (c <=? 57).
Fixpoint parse_digits (s : str) (acc : Z) : option Z :=
  match s with
  | [] => Some acc
  | c :: s' => if is_digit c then parse_digits s' (acc * 10 + (c - 48)) else None
  end.

Definition parse_number (s : str) : option value :=
  match s with
  | [] => None
  | _ =>
      match partition [46] s with                      (* "." *)
      | (a, false, _) => match parse_digits a 0 with Some n => Some (VInt n) | None => None end
      | (a, true, b) =>
          match a, b with
          | [], [] => None
          | _, _ => match parse_digits (a ++ b) 0 with Some n => Some (VDec n (length b)) | None => None end
          end
      end
  end.

Definition value_q (v : value) : Q :=
  match v with
  | VTrue => 1
  | VInt n => inject_Z n
  | VDec m d => Qmake m (Pos.of_nat (Nat.pow 10 d))
  end.

(** ---- parse_search_parameters, parser.py:27-85.  Keys after un-abbreviation: *)
Inductive pkey := KMaxErrors | KMinOverlap | KAnywhere | KRequired | KOptional | KIndels | KNoIndels | KRightmost.

Definition pkey_eqb (a b : pkey) : bool :=
  match a, b with
  | KMaxErrors, KMaxErrors | KMinOverlap, KMinOverlap | KAnywhere, KAnywhere | KRequired, KRequired
  | KOptional, KOptional | KIndels, KIndels | KNoIndels, KNoIndels | KRightmost, KRightmost => true
  | _, _ => false
  end.

(** the key table: spelling -> key (abbreviations resolved).  The spellings are checked against
    Generated/ParserTables.v, regenerated from parser.py *)
Definition key_table : list (str * pkey) :=
  [ ([101], KMaxErrors);                                                                   (* e *)
    ([101;114;114;111;114;95;114;97;116;101], KMaxErrors);                                 (* error_rate *)
    ([109;97;120;95;101;114;114;111;114;95;114;97;116;101], KMaxErrors);                   (* max_error_rate *)
    ([111], KMinOverlap);                                                                  (* o *)
    ([109;97;120;95;101;114;114;111;114;115], KMaxErrors);                                 (* max_errors *)
    ([109;105;110;95;111;118;101;114;108;97;112], KMinOverlap);                            (* min_overlap *)
    ([97;110;121;119;104;101;114;101], KAnywhere);                                         (* anywhere *)
    ([114;101;113;117;105;114;101;100], KRequired);                                        (* required *)
    ([111;112;116;105;111;110;97;108], KOptional);                                         (* optional *)
    ([105;110;100;101;108;115], KIndels);                                                  (* indels *)
    ([110;111;105;110;100;101;108;115], KNoIndels);                                        (* noindels *)
    ([114;105;103;104;116;109;111;115;116], KRightmost) ].                                 (* rightmost *)

Fixpoint lookup_key (k : str) (t : list (str * pkey)) : option pkey :=
  match t with
  | [] => None
  | (s, v) :: t' => if str_eqb s k then Some v else lookup_key k t'
  end.

Definition params := list (pkey * value).

Fixpoint has_key (k : pkey) (p : params) : bool :=
  match p with [] => false | (k', _) :: t => pkey_eqb k k' || has_key k t end.
Fixpoint get_key (k : pkey) (p : params) : option value :=
  match p with [] => None | (k', v) :: t => if pkey_eqb k k' then Some v else get_key k t end.
Fixpoint del_key (k : pkey) (p : params) : params :=
  match p with [] => [] | (k', v) :: t => if pkey_eqb k k' then del_key k t else (k', v) :: del_key k t end.
(** dict.update: later wins *)
Definition set_key (k : pkey) (v : value) (p : params) : params := (k, v) :: del_key k p.
Definition update (base over : params) : params := fold_left (fun acc kv => set_key (fst kv) (snd kv) acc) over base.

Inductive res (A : Type) := Ok (a : A) | Err.
Arguments Ok {A} a.
Arguments Err {A}.

Fixpoint parse_fields (fields : list str) (acc : params) : res params :=
  match fields with
  | [] => Ok acc
  | f :: t =>
      let f := strip f in
      match f with
      | [] => parse_fields t acc
      | _ =>
          let '(k, eq, v) := partition [61] f in                    (* "=" *)
          let k := strip k in
          match lookup_key k key_table with
          | None => Err                                             (* KeyError: unknown parameter *)
          | Some key =>
              if eq && match v with [] => true | _ => false end then Err      (* "key=" without value *)
              else
                let v := strip v in
                let val := match v with [] => Some VTrue | _ => parse_number v end in
                match val with
                | None => Err                                       (* int()/float() ValueError *)
                | Some val => if has_key key acc then Err else parse_fields t (acc ++ [(key, val)])
                end
          end
      end
  end.

Definition parse_search_parameters (spec : str) : res params :=
  match parse_fields (split 59 spec) [] with                        (* ";" *)
  | Err => Err
  | Ok p =>
      if has_key KOptional p && has_key KRequired p then Err
      else if has_key KIndels p && has_key KNoIndels p then Err
      else
        let p := if has_key KOptional p then set_key KRequired (VInt 0) (del_key KOptional p) else p in
        let p := if has_key KNoIndels p then set_key KIndels (VInt 0) (del_key KNoIndels p) else p in
        Ok p
  end.

(** ---- expand_braces, parser.py:88-125 (tokens: runs of non-brace characters, "{", "}") *)
Inductive btok := TText (s : str) | TOpen | TClose.
Fixpoint brace_tokens (s : str) (cur : str) : list btok :=
  let flush := match cur with [] => [] | _ => [TText (rev cur)] end in
  match s with
  | [] => flush
  | c :: s' => if c =? 123 then flush ++ TOpen :: brace_tokens s' []
               else if c =? 125 then flush ++ TClose :: brace_tokens s' []
               else brace_tokens s' (c :: cur)
  end.

Inductive bstate := BNone | BText | BOpen | BNum (n : Z).
Fixpoint expand_run (toks : list btok) (st : bstate) (result : str) : res str :=
  match toks with
  | [] => match st with BNum _ | BOpen => Err | _ => Ok result end
  | t :: ts =>
      match st, t with
      | BNone, TOpen => Err
      | BNone, TClose => Err
      | BNone, TText s => expand_run ts BText (result ++ s)
      | BOpen, TText s => match parse_digits s 0 with
                          | Some n => if n <=? 10000 then expand_run ts (BNum n) result else Err
                          | None => Err
                          end
      | BOpen, _ => Err
      | BNum n, TClose =>
          let lastc := List.last result 0 in
          expand_run ts BNone (removelast result ++ repeat lastc (Z.to_nat n))
      | BNum _, _ => Err
      | BText, TOpen => expand_run ts BOpen result
      | BText, _ => Err
      end
  end.
Definition expand_braces (s : str) : res str := expand_run (brace_tokens s []) BNone [].

(** ---- restrictions *)
Inductive restriction := RNone | RAnchored | RNonInternal.
Inductive cmdtype := TFront | TBack | TAnywhere.          (* -g, -a, -b *)

Fixpoint lstrip_x (s : str) : str :=
  match s with c :: s' => if (c =? 88) || (c =? 120) then lstrip_x s' else s | [] => [] end.
Definition rstrip_x (s : str) : str := rev (lstrip_x (rev s)).
Definition upper_c (c : Z) : Z := if (97 <=? c) && (c <=? 122) then c - 32 else c.
Definition is_x (c : Z) : bool := upper_c c =? 88.

(** _parse_restrictions, parser.py:288-316 *)
Definition head_is (c0 : Z) (s : str) : bool := match s with c :: _ => c =? c0 | [] => false end.
Definition head_x (s : str) : bool := match s with c :: _ => is_x c | [] => false end.

Definition parse_restrictions (spec : str) : res (restriction * restriction * str) :=
  let '(front, spec) := if head_is 94 spec then (RAnchored, tl spec) else (RNone, spec) in
  if head_x spec && match front with RNone => false | _ => true end then Err else
  let '(front, spec) := if head_x spec then (RNonInternal, lstrip_x spec) else (front, spec) in
  let '(back, spec) := if head_is 36 (rev spec) then (RAnchored, rev (tl (rev spec))) else (RNone, spec) in
  if head_x (rev spec) && match back with RNone => false | _ => true end then Err else
  let '(back, spec) := if head_x (rev spec) then (RNonInternal, rstrip_x spec) else (back, spec) in
  match front, back with
  | RNone, _ | _, RNone => Ok (front, back, spec)
  | _, _ => Err
  end.

(** _restriction_to_class, parser.py:318-355 *)
Definition class_of (t : cmdtype) (r : restriction) (rightmost : bool) : atype :=
  match t with
  | TFront => if rightmost then RightmostFront else
              match r with RNone => Front | RAnchored => Prefix | RNonInternal => NonInternalFront end
  | TBack => match r with RNone => Back | RAnchored => Suffix | RNonInternal => NonInternalBack end
  | TAnywhere => Anywhere
  end.

Record aspec := mkSpec {
  sp_name : option str; sp_restriction : restriction; sp_sequence : str; sp_params : params;
  sp_type : cmdtype; sp_rightmost : bool }.

Fixpoint all_x (s : str) : bool := match s with [] => true | c :: t => (c =? 88) && all_x t end.

(** AdapterSpecification.parse, parser.py:217-286 *)
Definition parse_spec (spec : str) (t : cmdtype) : res aspec :=
  let '(body, _, pspec) := partition [59] spec in
  let '(name, body) := match partition [61] body with
                       | (n, true, rest) => (Some (strip n), strip rest)
                       | (b, false, _) => (None, strip b)
                       end in
  match parse_search_parameters pspec with
  | Err => Err
  | Ok ps =>
      match expand_braces body with
      | Err => Err
      | Ok body =>
          let rightmost := has_key KRightmost ps in
          let ps := del_key KRightmost ps in
          if all_x body then Ok (mkSpec name RNone body [] t false) else
          match parse_restrictions body with
          | Err => Err
          | Ok (fr, br, seq) =>
              let isr r := match r with RNone => false | _ => true end in
              if match t with TFront => isr br | TBack => isr fr | TAnywhere => false end then Err else
              let r := if isr fr then fr else br in
              if match t with TAnywhere => isr r | _ => false end then Err else
              if has_key KMinOverlap ps && match r with RAnchored => true | _ => false end then Err else
              let ps := match get_key KMinOverlap ps with
                        | Some (VInt n) => if zlen seq <? n then set_key KMinOverlap (VInt (zlen seq)) ps else ps
                        | _ => ps
                        end in
              if rightmost && negb (match t, r with TFront, RNone => true | _, _ => false end) then Err else
              Ok (mkSpec name r seq ps t rightmost)
          end
      end
  end.

(** ---- what SingleAdapter.__init__ makes of it *)
Record globals := mkG { g_max_errors : value; g_min_overlap : Z; g_read_wildcards : bool; g_adapter_wildcards : bool; g_indels : bool }.

Record adesc := mkD {
  d_class : atype; d_sequence : str; d_rate : Q; d_min_overlap : Z; d_read_wildcards : bool;
  d_adapter_wildcards : bool; d_indels : bool; d_force_anywhere : bool; d_name : option str }.

Definition norm_char (c : Z) : Z :=
  let u := upper_c c in if u =? 85 then 84 else if u =? 73 then 78 else u.     (* U -> T, I -> N *)
Definition normalize_seq (s : str) : str := map norm_char s.

Definition iupac_chars : list Z := [65;66;67;68;71;72;75;77;78;82;83;84;85;86;87;88;89].   (* ABCDGHKMNRSTUVWXY *)
Definition acgt_chars : list Z := [65;67;71;84].
Definition all_in (alphabet : list Z) (s : str) : bool := forallb (fun c => existsb (Z.eqb c) alphabet) s.
Definition count_char (c : Z) (s : str) : Z := zlen (filter (Z.eqb c) s).

Definition truthy (v : value) : bool :=
  match v with VTrue => true | VInt n => negb (n =? 0) | VDec m _ => negb (m =? 0) end.

(** SingleAdapter.__init__ (adapters.py:564-599) with the keyword arguments [p] (already merged);
    PrefixAdapter/SuffixAdapter force min_overlap = len(sequence); Aligner/PrefixComparer reject an
    all-N sequence when adapter wildcards are on, the comparers reject rates outside [0,1] *)
Definition make_single (cls : atype) (seq : str) (p : params) (rw aw : bool) (force : bool) (name : option str)
  : res adesc :=
  let sequence := normalize_seq seq in
  match sequence with
  | [] => Err                                                          (* "Adapter sequence is empty" *)
  | _ =>
      let me := match get_key KMaxErrors p with Some v => value_q v | None => 0%Q end in
      let nn := count_char 78 sequence in
      let rate := if Qle_bool 1 me && negb (nn =? zlen sequence)
                  then Qdiv me (inject_Z (zlen sequence - nn)) else me in
      let ov := match get_key KMinOverlap p with Some (VInt n) => n | _ => 3 end in
      let indels := match get_key KIndels p with Some v => truthy v | None => true end in
      if aw && negb (all_in iupac_chars sequence) then Err                      (* InvalidCharacter *)
      else
        let aw' := aw && negb (all_in acgt_chars sequence) in
        let anchored := match cls with Prefix | Suffix => true | _ => false end in
        let ov' := if anchored then zlen seq else Z.min ov (zlen sequence) in
        if aw' && (nn =? zlen sequence) then Err                                (* only N wildcards *)
        else if anchored && negb indels && negb (Qle_bool 0 rate && Qle_bool rate 1) then Err
        else Ok (mkD cls sequence rate ov' rw aw' indels force name)
  end.

Definition globals_params (g : globals) : params :=
  [(KMaxErrors, g_max_errors g); (KMinOverlap, VInt (g_min_overlap g)); (KIndels, VInt (if g_indels g then 1 else 0))].

(** _make_not_linked_adapter, parser.py:519-544.  [base] = the default parameters (globals, possibly
    already updated with file-level ones) *)
Definition make_not_linked (spec : str) (name : option str) (t : cmdtype) (base : params) (rw aw : bool) : res adesc :=
  match parse_spec spec t with
  | Err => Err
  | Ok a =>
      let cls := class_of (sp_type a) (sp_restriction a) (sp_rightmost a) in
      let anyw := match get_key KAnywhere (sp_params a) with Some v => truthy v | None => false end in
      let ps := del_key KAnywhere (sp_params a) in
      let force := anyw && match cls with Front | Back | RightmostFront => true | _ => false end in
      if has_key KRequired ps then Err
      else make_single cls (sp_sequence a) (update base ps) rw aw force
                       (match name with Some n => Some n | None => sp_name a end)
  end.

Inductive adapter_out :=
  | OSingle (d : adesc)
  | OLinked (name : option str) (front back : adesc) (front_required back_required : bool).

(** _make_linked_adapter, parser.py:466-516 *)
Definition make_linked (spec1 spec2 : str) (name : option str) (t : cmdtype) (base : params) (rw aw : bool) : res adapter_out :=
  match t with
  | TAnywhere => Err
  | _ =>
      match parse_spec spec1 TFront, parse_spec spec2 TBack with
      | Ok f, Ok b =>
          let name := match name with Some n => Some n | None => sp_name f end in
          let isr r := match r with RNone => false | _ => true end in
          let fp := update base (sp_params f) in
          let bp := update base (sp_params b) in
          let freq0 := match t with TFront => true | _ => isr (sp_restriction f) end in
          let breq0 := match t with TFront => true | _ => isr (sp_restriction b) end in
          let freq := match get_key KRequired fp with Some v => truthy v | None => freq0 end in
          let breq := match get_key KRequired bp with Some v => truthy v | None => breq0 end in
          let fp := del_key KRequired fp in
          let bp := del_key KRequired bp in
          (* leftover keys the adapter classes do not accept (anywhere) raise TypeError in Python: outside the model *)
          match make_single (class_of TFront (sp_restriction f) (sp_rightmost f)) (sp_sequence f) fp rw aw false None,
                make_single (class_of TBack (sp_restriction b) (sp_rightmost b)) (sp_sequence b) bp rw aw false None with
          | Ok fd, Ok bd => Ok (OLinked name fd bd freq breq)
          | _, _ => Err
          end
      | _, _ => Err
      end
  end.

Definition dots : str := [46; 46; 46].

(** make_adapter, parser.py:435-463, with _normalize_ellipsis *)
Definition make_adapter (spec : str) (t : cmdtype) (base : params) (rw aw : bool) (name : option str) : res adapter_out :=
  let '(spec1, found, spec2) := partition dots spec in
  let single s t := match make_not_linked s name t base rw aw with Ok d => Ok (OSingle d) | Err => Err end in
  if found then
    match spec1, spec2 with
    | _ :: _, _ :: _ => make_linked spec1 spec2 name t base rw aw
    | [], _ => match t with
               | TAnywhere => Err
               | TBack => single spec2 TBack                (* -a ...ADAPTER *)
               | TFront => Err
               end
    | _, [] => match t with
               | TAnywhere => Err
               | TBack => single spec1 TFront               (* -a ADAPTER... is a 5' adapter *)
               | TFront => single spec1 TFront
               end
    end
  else single spec1 t.

(** file:, ^file: and file$: -- the FASTA records (name, sequence) are an input of the model *)
Definition file_prefix : str := [102; 105; 108; 101; 58].          (* "file:" *)
Fixpoint all_ok {A} (l : list (res A)) : res (list A) :=
  match l with
  | [] => Ok []
  | Err :: _ => Err
  | Ok a :: t => match all_ok t with Ok r => Ok (a :: r) | Err => Err end
  end.

Definition make_from_spec (spec : str) (t : cmdtype) (g : globals) (records : list (option str * str)) : res (list adapter_out) :=
  let base := globals_params g in
  let rw := g_read_wildcards g in
  let aw := g_adapter_wildcards g in
  let from_file (pre suf : str) (rest : str) :=
    let '(_, _, pspec) := partition [59] rest in
    match parse_search_parameters pspec with
    | Err => Err
    | Ok fp =>
        let base' := update base fp in
        (* 'anywhere'/'rightmost'/'required' given at file level are passed on as keyword arguments; modelled: anywhere ignored *)
        all_ok (map (fun rec : option str * str => make_adapter (pre ++ snd rec ++ suf) t base' rw aw (fst rec)) records)
    end in
  if starts_with file_prefix spec then from_file [] [] (skipn 5 spec)
  else if starts_with (94 :: file_prefix) spec then from_file [94] [] (skipn 6 spec)
  else if starts_with [102; 105; 108; 101; 36; 58] spec then from_file [] [36] (skipn 6 spec)
  else match make_adapter spec t base rw aw None with Ok a => Ok [a] | Err => Err end.
