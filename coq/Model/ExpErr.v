(** Model of expected_errors_from_phreds (src/cutadapt/expected_errors.h:103-140)
    and of qualtrim.pyx:169-190 (expected_errors).

    The 4x-unrolled loop is written once, generically over a carrier [F] with
    [zero]/[add] and a table [tbl : Z -> F]; it is instantiated
      (a) with PrimFloat and the binary64 table  -- the executable twin of the C code,
      (b) with Q and the decimal table           -- for the "= plain sum" theorem.
    uint8_t arithmetic is written out: phred = (byte - base) mod 256,
    max_phred = (126 - base) mod 256.  [None] stands for the error value -1.0
    (qualtrim.pyx then raises ValueError). *)
From Coq Require Import ZArith List Bool.
Import ListNotations.
Open Scope Z_scope.

Section Generic.
  Variable F : Type.
  Variable zero : F.
  Variable add : F -> F -> F.
  Variable tbl : Z -> F.

  Definition phred (base b : Z) : Z := (b - base) mod 256.
  Definition max_phred (base : Z) : Z := (126 - base) mod 256.
  Definition bad (base b : Z) : bool := max_phred base <? phred base b.

  (** second while loop: one byte at a time into accumulator 0 *)
  Fixpoint ee_tail (base : Z) (l : list Z) (e0 : F) : option F :=
    match l with
    | [] => Some e0
    | b :: l' => if bad base b then None else ee_tail base l' (add e0 (tbl (phred base b)))
    end.

  (** first while loop (cursor < end - 3): four lanes *)
  Fixpoint ee_loop (base : Z) (l : list Z) (e0 e1 e2 e3 : F) : option F :=
    match l with
    | a :: b :: c :: d :: rest =>
        if bad base a || bad base b || bad base c || bad base d then None
        else ee_loop base rest (add e0 (tbl (phred base a))) (add e1 (tbl (phred base b)))
                               (add e2 (tbl (phred base c))) (add e3 (tbl (phred base d)))
    | _ =>
        match ee_tail base l e0 with
        | None => None
        | Some e0' => Some (add (add (add e0' e1) e2) e3)
        end
    end.

  Definition expected_errors (base : Z) (quals : list Z) : option F :=
    ee_loop base quals zero zero zero zero.

  (** the definition in the property text: plain left-to-right sum of table values *)
  Fixpoint plain_sum (base : Z) (l : list Z) : F :=
    match l with
    | [] => zero
    | b :: l' => add (tbl (phred base b)) (plain_sum base l')
    end.
End Generic.
