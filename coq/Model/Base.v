(** Shared basic definitions of the models: Z-valued length and indexing, Python slices. *)
From Coq Require Import ZArith List Bool.
Import ListNotations.
Open Scope Z_scope.

Definition zlen {A} (l : list A) : Z := Z.of_nat (length l).
Definition znth {A} (d : A) (l : list A) (i : Z) : A := if i <? 0 then d else nth (Z.to_nat i) l d.

(** Python slice l[lo:hi] with None / negative / out-of-range indices (CPython PySlice_AdjustIndices, step 1) *)
Definition norm_idx (n : Z) (i : option Z) (dflt : Z) : Z :=
  match i with
  | None => dflt
  | Some v => let v' := if v <? 0 then v + n else v in Z.max 0 (Z.min n v')
  end.

Definition pyslice {A} (lo hi : option Z) (l : list A) : list A :=
  let n := zlen l in
  let a := norm_idx n lo 0 in
  let b := norm_idx n hi n in
  firstn (Z.to_nat (b - a)) (skipn (Z.to_nat a) l).
