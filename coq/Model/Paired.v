(** Model of the paired-end pipeline: which mate each option touches (cli.py: make_unconditional_cutters,
    make_quality_trimmers, make_adapter_cutter, make_shortener, modifiers_applying_to_both_ends_if_paired),
    PairedEndModifierWrapper, PairedReverseComplementer, PairedAdapterCutter (modifiers.py), PairedEndFilter with
    its pair-filter modes and the override for one-sided adapters (steps.py, cli.py:843-894), PairedEndSink,
    PairedDemultiplexer, CombinatorialDemultiplexer, and the counts of Statistics.collect.
    Built on the single-end stages of Model/Pipeline.v.  Definitions only. *)
From Coq Require Import ZArith List Bool.
From CV Require Import Generated.Tables Model.Base Model.Align Model.Adapters Model.Kmer Model.Qualtrim Model.Pipeline.
Import ListNotations.
Open Scope Z_scope.

Inductive pfmode := PFAny | PFBoth | PFFirst.

(** the option set as argparse delivers it in paired-end mode.  [po_base] holds everything that is also a
    single-end option (-u, -q, -a/-g/-b, -l, the shared options, the filters); the rest are the R2-only options *)
Record poptions := mkPO {
  po_base : options;
  po_cuts2 : list Z;                        (* -U *)
  po_qcut2 : option (option (Z * Z));       (* -Q: None = not given, Some None = "-Q 0" *)
  po_adapters2 : list padapter;             (* -A/-G/-B *)
  po_length2 : option Z;                    (* -L *)
  po_pair_adapters : bool;
  po_pair_filter : option pfmode;           (* --pair-filter *)
  po_min_len2 : option (option Z);          (* -m LEN:LEN2 -> Some (Some LEN2); -m LEN: -> Some None; -m LEN -> None *)
  po_max_len2 : option (option Z);
  po_min_len1_absent : bool;                (* -m :LEN2 *)
  po_max_len1_absent : bool;
  po_combinatorial : bool;                  (* {name1}/{name2} in -o and -p *)
  po_untrimmed_paired : bool                (* --untrimmed-paired-output given with --untrimmed-output *)
}.

(** ---- which options reach which mate *)
Definition side1 (p : poptions) : options := po_base p.

Definition side2 (p : poptions) : options :=
  let o := po_base p in
  mkO (po_cuts2 p)                                             (* -U only *)
      (o_nextseq o)                                            (* --nextseq-trim: both *)
      (match po_qcut2 p with Some q => q | None => o_qcut o end)   (* -Q, else -q *)
      (o_qbase o)
      (po_adapters2 p)
      (o_times o) (o_action o) (o_revcomp o)
      false (o_poly_a o)                                       (* --poly-a: poly-T head on R2 *)
      (match o_length o, po_length2 p with                     (* -L, else -l *)
       | _, Some l2 => Some l2
       | Some l1, None => Some l1
       | None, None => None
       end)
      (o_trim_n o) (o_length_tag o) (o_strip_suffix o) (o_prefix o) (o_suffix o) (o_zero_cap o)
      (o_min_len o) (o_max_len o) (o_max_n o) (o_float_filters o) (o_casava o)
      (o_discard_trimmed o) (o_discard_untrimmed o) (o_untrimmed_output o) (o_too_short_output o) (o_too_long_output o)
      (o_demux o) (o_info_file o).

(** -l alone applies to both mates, -L alone to R2 only (make_shortener) *)
Definition side1_length (p : poptions) : option Z := o_length (po_base p).

(** ---- adapter stage variants *)
Definition has_matches (ms : list match_t) : bool := match ms with [] => false | _ => true end.

(** PairedReverseComplementer.__call__ (after the repair 3fe341c) *)
Definition paired_revcomp (o1 o2 : options) (suffix : str) (r1 r2 : read)
  : read * read * list match_t * list match_t * bool :=
  let mt (o : options) (r : read) := match o_adapters o with
                                     | [] => (r, [])
                                     | ads => match_and_trim ads (o_times o) (o_action o) r
                                     end in
  (* with action lowercase, match_and_trim upper-cases the record it is given *in place* (modifiers.py:222-223);
     every mate is handed to every existing cutter (unswapped and swapped attempt), so both are upper-cased
     before any result is assembled, also the mate that is passed through unchanged *)
  let up (r : read) := match o_action o1 with ALowercase => mkR (rname r) (upper (rseq r)) (rqual r) | _ => r end in
  let r1 := up r1 in
  let r2 := up r2 in
  let '(a1, m1) := mt o1 r1 in
  let '(a2, m2) := mt o2 r2 in
  let '(s1, sm1) := mt o1 r2 in
  let '(s2, sm2) := mt o2 r1 in
  let unswapped := sum_scores m1 + sum_scores m2 in
  let swapped := sum_scores sm1 + sum_scores sm2 in
  if (has_matches sm1 || has_matches sm2) && (unswapped <? swapped)
  then (mkR (rname s1 ++ suffix) (rseq s1) (rqual s1), mkR (rname s2 ++ suffix) (rseq s2) (rqual s2), sm1, sm2, true)
  else (a1, a2, m1, m2, false).

(** PairedAdapterCutter._find_best_match_pair + __call__ (after the repair b80768e: crop) *)
Fixpoint best_pair (idx : nat) (ads1 ads2 : list padapter) (s1 s2 : str) (best : option (match_t * match_t))
  : option (match_t * match_t) :=
  match ads1, ads2 with
  | a1 :: t1, a2 :: t2 =>
      let best' :=
        match adapter_match idx a1 s1 with
        | None => best
        | Some m1 =>
            match adapter_match idx a2 s2 with
            | None => best
            | Some m2 =>
                let sc := m_score m1 + m_score m2 in
                let er := m_errors m1 + m_errors m2 in
                match best with
                | None => Some (m1, m2)
                | Some (b1, b2) =>
                    let bs := m_score b1 + m_score b2 in
                    let be := m_errors b1 + m_errors b2 in
                    if (bs <? sc) || ((sc =? bs) && (er <? be)) then Some (m1, m2) else best
                end
            end
        end in
      best_pair (S idx) t1 t2 s1 s2 best'
  | _, _ => best
  end.

Definition apply_one_match (act : action) (m : match_t) (r0 : read) : read :=
  let r := match act with ALowercase => mkR (rname r0) (upper (rseq r0)) (rqual r0) | _ => r0 end in
  let '(a, b) := m_remainder m in
  let n := rlen r in
  match act with
  | ATrim => m_trimmed m r
  | ARetain => let '(s, e) := m_retained m in rslice (Some s) (Some e) r
  | AMask => mkR (rname r) (repeat_z 78 a ++ pyslice (Some a) (Some b) (rseq r) ++ repeat_z 78 (n - b)) (rqual r)
  | ALowercase => mkR (rname r) (lower (pyslice None (Some a) (rseq r)) ++ upper (pyslice (Some a) (Some b) (rseq r))
                                  ++ lower (pyslice (Some b) None (rseq r))) (rqual r)
  | ACrop => match m with MSingle _ x => rslice (Some (rstart (sm x))) (Some (rstop (sm x))) r | _ => r end
  | ANone => r
  end.

Definition pair_adapters_stage (o1 o2 : options) (r1 r2 : read) : read * read * list match_t * list match_t :=
  (* the sequences searched are those of the reads as they come in (lowercase: searched before upper-casing) *)
  match best_pair 0 (o_adapters o1) (o_adapters o2) (rseq r1) (rseq r2) None with
  | None => (r1, r2, [], [])
  | Some (m1, m2) => (apply_one_match (o_action o1) m1 r1, apply_one_match (o_action o1) m2 r2, [m1], [m2])
  end.

(** ---- one pair through the modifier chain *)
Inductive pstage := PSide (k : kind) | PAdapters.

Definition set_matches (i : minfo) (ms : list match_t) (rc : option bool) : minfo :=
  mkI (i_matches i ++ ms) rc (i_original i) (i_qtrimmed i) (i_polya i) false.

Definition apply_kind (o : options) (k : kind) (ri : read * minfo) : read * minfo :=
  fold_left (fun acc st => apply_stage o st acc) (stages_of_kind o k) ri.

Definition pstate := (read * minfo * (read * minfo))%type.

Definition apply_pkind (p : poptions) (k : kind) (s : pstate) : pstate :=
  let '(ri1, ri2) := s in
  let o1 := side1 p in
  let o2 := side2 p in
  match k with
  | KAdapters =>
      let '(r1, i1) := ri1 in
      let '(r2, i2) := ri2 in
      match o_adapters o1, o_adapters o2 with
      | [], [] => s
      | _, _ =>
          if po_pair_adapters p then
            let '(a1, a2, m1, m2) := pair_adapters_stage o1 o2 r1 r2 in
            ((a1, set_matches i1 m1 (i_is_rc i1)), (a2, set_matches i2 m2 (i_is_rc i2)))
          else if o_revcomp o1 then
            let '(a1, a2, m1, m2, rc) := paired_revcomp o1 o2 [32; 114; 99] r1 r2 in
            ((a1, set_matches i1 m1 (Some rc)), (a2, set_matches i2 m2 (Some rc)))
          else
            (* (adapter_cutter, adapter_cutter2): each mate by its own cutter, if it has one *)
            let ri1' := match o_adapters o1 with [] => ri1 | _ => apply_stage o1 StAdapters ri1 end in
            let ri2' := match o_adapters o2 with [] => ri2 | _ => apply_stage o2 StAdapters ri2 end in
            (ri1', ri2')
      end
  | _ => (apply_kind o1 k ri1, apply_kind o2 k ri2)
  end.

Definition pmodify (order : list kind) (p : poptions) (r1 r2 : read) : pstate :=
  fold_left (fun s k => apply_pkind p k s) order ((r1, init_info r1), (r2, init_info r2)).

(** ---- paired filters (PairedEndFilter, steps.py:104-189) *)
Definition pred := read -> minfo -> bool.

(** which mates are looked at: both predicates given -> the pair-filter mode; one predicate -> that mate only *)
Definition pair_decision (mode : pfmode) (p1 p2 : option pred) (r1 r2 : read) (i1 i2 : minfo) : bool :=
  match p1, p2 with
  | Some f1, None => f1 r1 i1
  | None, Some f2 => f2 r2 i2
  | Some f1, Some f2 =>
      match mode with
      | PFAny => f1 r1 i1 || f2 r2 i2
      | PFBoth => f1 r1 i1 && f2 r2 i2
      | PFFirst => f1 r1 i1
      end
  | None, None => false
  end.

Definition pfilter_t := (Z * pfmode * option pred * option pred * option Z)%type.   (* category, mode, pred1, pred2, redirect *)

Definition pf_mode (p : poptions) : pfmode := match po_pair_filter p with Some m => m | None => PFAny end.

Definition is_untrimmed : pred := fun _ i => match i_matches i with [] => true | _ => false end.
Definition is_trimmed : pred := fun _ i => match i_matches i with [] => false | _ => true end.

(** cli.py:843-853: with adapters for one mate only, the untrimmed filters use 'both' *)
Definition untrimmed_mode (p : poptions) : pfmode :=
  let o := po_base p in
  let one_sided := match o_adapters o, po_adapters2 p with [], _ | _, [] => true | _, _ => false end in
  if one_sided && (o_discard_untrimmed o || o_untrimmed_output o) then PFBoth else pf_mode p.

Definition pfilters_of_kind (p : poptions) (k : fkind) : list pfilter_t :=
  let o := po_base p in
  let mode := pf_mode p in
  let same (cat : Z) (f : pred) : list pfilter_t := [(cat, mode, Some f, Some f, None)] in
  match k with
  | FTooShort =>
      (* -m LEN[:LEN2]: a single value applies to both mates *)
      let m1 := if po_min_len1_absent p then None else o_min_len o in
      let m2 := match po_min_len2 p with Some x => x | None => o_min_len o end in
      match m1, m2, o_min_len o, po_min_len2 p with
      | None, None, _, _ => []
      | _, _, _, _ =>
          [(1, mode, option_map (fun m => (fun r (_ : minfo) => rlen r <? m) : pred) m1,
                     option_map (fun m => (fun r (_ : minfo) => rlen r <? m) : pred) m2,
            if o_too_short_output o then Some 1 else None)]
      end
  | FTooLong =>
      let m1 := if po_max_len1_absent p then None else o_max_len o in
      let m2 := match po_max_len2 p with Some x => x | None => o_max_len o end in
      match m1, m2 with
      | None, None => []
      | _, _ =>
          [(2, mode, option_map (fun m => (fun r (_ : minfo) => m <? rlen r) : pred) m1,
                     option_map (fun m => (fun r (_ : minfo) => m <? rlen r) : pred) m2,
            if o_too_long_output o then Some 2 else None)]
      end
  | FMaxN => match o_max_n o with Some c => same 3 (fun r _ => c <? n_count (rseq r)) | None => [] end
  | FMaxEE | FMaxAER => []      (* float criteria: not in the paired model *)
  | FCasava => if o_casava o then same 6 (fun r _ => casava_filtered (rname r)) else []
  | FDiscardTrimmed =>
      if o_demux o || po_combinatorial p then [] else
      if o_discard_trimmed o then same 7 is_trimmed else []
  | FDiscardUntrimmed =>
      if o_demux o || po_combinatorial p then [] else
      if o_discard_trimmed o then [] else
      if o_discard_untrimmed o then [(8, untrimmed_mode p, Some is_untrimmed, Some is_untrimmed, None)] else []
  | FUntrimmedOut =>
      if o_demux o || po_combinatorial p then [] else
      if o_discard_trimmed o || o_discard_untrimmed o then [] else
      if o_untrimmed_output o then [(8, untrimmed_mode p, Some is_untrimmed, Some is_untrimmed, Some 3)] else []
  end.

Definition pfilters (forder : list fkind) (p : poptions) : list pfilter_t := flat_map (pfilters_of_kind p) forder.

Fixpoint run_pfilters (fs : list pfilter_t) (r1 r2 : read) (i1 i2 : minfo) : option fate :=
  match fs with
  | [] => None
  | (cat, mode, p1, p2, redir) :: t =>
      if pair_decision mode p1 p2 r1 r2 i1 i2 then Some (Filtered cat redir) else run_pfilters t r1 r2 i1 i2
  end.

(** sinks: PairedEndSink (0), PairedDemultiplexer (by the last R1 match: 10 + i, unknown 9, untrimmed 3),
    CombinatorialDemultiplexer (1000 + 100 * (i1 + 1) + (i2 + 1), with 0 for "unknown") *)
Definition psink (p : poptions) (i1 i2 : minfo) : fate :=
  let o := po_base p in
  if po_combinatorial p then
    let k1 := match last_match (i_matches i1) with Some m => Z.of_nat (m_idx m) + 1 | None => 0 end in
    let k2 := match last_match (i_matches i2) with Some m => Z.of_nat (m_idx m) + 1 | None => 0 end in
    if o_discard_untrimmed o && ((k1 =? 0) || (k2 =? 0)) then Filtered 8 None
    else Written (1000 + 100 * k1 + k2)
  else if o_demux o then
    match last_match (i_matches i1) with
    | Some m => Written (10 + Z.of_nat (m_idx m))
    | None => if o_discard_untrimmed o then Filtered 8 None
              else if o_untrimmed_output o then Written 3 else Written 9
    end
  else Written 0.

Definition pfate_of (forder : list fkind) (p : poptions) (r1 r2 : read) (i1 i2 : minfo) : fate :=
  match run_pfilters (pfilters forder p) r1 r2 i1 i2 with
  | Some f => f
  | None => psink p i1 i2
  end.

(** ---- one pair, and the aggregation *)
Record poutcome := mkPOut {
  po_fate : fate; po_r1 : read; po_r2 : read; po_m1 : list match_t; po_m2 : list match_t; po_rc : option bool;
  po_q1 : Z; po_q2 : Z; po_pa1 : option Z; po_pa2 : option Z; po_len1 : Z; po_len2 : Z }.

Definition process_pair (order : list kind) (forder : list fkind) (p : poptions) (rr : read * read) : poutcome :=
  let '(r1, r2) := rr in
  let '((a1, i1), (a2, i2)) := pmodify order p r1 r2 in
  mkPOut (pfate_of forder p a1 a2 i1 i2) a1 a2 (i_matches i1) (i_matches i2) (i_is_rc i1)
         (i_qtrimmed i1) (i_qtrimmed i2) (i_polya i1) (i_polya i2) (rlen r1) (rlen r2).

Record preport := mkPRep {
  pr_n : Z; pr_bp1 : Z; pr_bp2 : Z; pr_written : Z; pr_wbp1 : Z; pr_wbp2 : Z; pr_filtered : list (Z * Z);
  pr_with1 : Z; pr_with2 : Z; pr_rc : Z; pr_q1 : Z; pr_q2 : Z; pr_pa1 : Z; pr_pa2 : Z;
  pr_files : list (Z * list (read * read)) }.

Fixpoint add_pfile (d : Z) (rr : read * read) (fs : list (Z * list (read * read))) : list (Z * list (read * read)) :=
  match fs with
  | [] => [(d, [rr])]
  | (d', rs) :: t => if d' =? d then (d', rs ++ [rr]) :: t else (d', rs) :: add_pfile d rr t
  end.

Definition pstep (rep : preport) (out : poutcome) : preport :=
  let written := match po_fate out with Written _ => true | Filtered _ _ => false end in
  let file := match po_fate out with Written d => Some d | Filtered _ redir => redir end in
  let oz (o : option Z) := match o with Some z => z | None => 0 end in
  mkPRep (pr_n rep + 1) (pr_bp1 rep + po_len1 out) (pr_bp2 rep + po_len2 out)
         (pr_written rep + (if written then 1 else 0))
         (pr_wbp1 rep + (if written then rlen (po_r1 out) else 0))
         (pr_wbp2 rep + (if written then rlen (po_r2 out) else 0))
         (match po_fate out with Filtered c _ => bump c (pr_filtered rep) | Written _ => pr_filtered rep end)
         (pr_with1 rep + (if has_matches (po_m1 out) then 1 else 0))
         (pr_with2 rep + (if has_matches (po_m2 out) then 1 else 0))
         (pr_rc rep + (match po_rc out with Some true => 1 | _ => 0 end))
         (pr_q1 rep + po_q1 out) (pr_q2 rep + po_q2 out) (pr_pa1 rep + oz (po_pa1 out)) (pr_pa2 rep + oz (po_pa2 out))
         (match file with Some d => add_pfile d (po_r1 out, po_r2 out) (pr_files rep) | None => pr_files rep end).

Definition empty_preport : preport := mkPRep 0 0 0 0 0 0 [] 0 0 0 0 0 0 0 [].

Definition prun (order : list kind) (forder : list fkind) (p : poptions) (pairs : list (read * read)) : preport :=
  fold_left (fun rep rr => pstep rep (process_pair order forder p rr)) pairs empty_preport.

(** interleaved layout: R1, R2, R1, R2, ... *)
Definition interleave (pairs : list (read * read)) : list read := flat_map (fun rr => [fst rr; snd rr]) pairs.
Fixpoint deinterleave (l : list read) : list (read * read) :=
  match l with
  | a :: b :: t => (a, b) :: deinterleave t
  | _ => []
  end.
