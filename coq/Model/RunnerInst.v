(** The runner model instantiated for trace validation: chunks are their own indices, blocks are
    the indices, statistics count processed chunks. *)
From Coq Require Import List Arith Bool.
From CV Require Import Model.Runner.
Import ListNotations.

Definition t_chunks (c : nat) : list nat := seq 0 c.
Definition t_bad (bads : list nat) (i : nat) : bool := existsb (Nat.eqb i) bads.

(** result: (events accepted, total events, reached a terminal state, finished without failure,
            blocks written, statistics merged by the main process) *)
Definition validate_trace (w c : nat) (bads : list nat) (rfail : option nat) (ffail : bool) (es : list event)
  : nat * nat * bool * bool * list nat * nat :=
  let '(s, n) := replay nat nat nat (fun i => i) (fun _ => 1) Nat.add (t_chunks c) w (t_bad bads) rfail ffail
                        (init nat nat 0 w) es 0 in
  (n, length es, terminal s, finished_ok s, written s, macc s).
