(** Model of src/cutadapt/kmer_heuristic.py (kmer_chunks, create_back_overlap_searchsets,
    create_positions_and_kmers with minimize_kmer_search_list / remove_redundant_kmers) and of
    KmerFinder.kmers_present (_kmer_finder.pyx:170-213) at the level
       "window arithmetic of lines 186-204, then: some k-mer of the entry occurs in
        seq[start,stop) under the match table".
    The shift-and bit machinery below that level is modelled in Model/ShiftAnd.v and proved equivalent (Proofs/ShiftAndProofs.v).
    A window whose stop lies beyond the read is clamped to the read here; the compiled code
    reads past the buffer there, which can only turn a "no" into a "yes" (DESIGN 7, F7c).
    Python sets are lists; only membership reaches the finder.  Definitions only. *)
From Coq Require Import ZArith List Bool.
From CV Require Import Generated.Tables Model.Align Model.Adapters.
Import ListNotations.
Open Scope Z_scope.

Definition str := list Z.
Definition searchset := (Z * option Z * list str)%type.   (* start, stop (None = end of read), k-mers *)

Fixpoint take_chunks (sizes : list nat) (s : str) : list str :=
  match sizes with
  | [] => []
  | k :: t => firstn k s :: take_chunks t (skipn k s)
  end.

(** kmer_chunks, kmer_heuristic.py:6-21 *)
Definition kmer_chunks (s : str) (chunks : nat) : list str :=
  let n := length s in
  let size := Nat.div n chunks in
  let rem := Nat.modulo n chunks in
  take_chunks (repeat (S size) rem ++ repeat size (chunks - rem)) s.

Section Heuristic.
  Variable thr : Z -> Z.   (* thr i = int(i * error_rate) *)

  (** error_lengths, lines 90-97: walk i = 0..m *)
  Fixpoint error_lengths_aux (is_ : list Z) (max_error : Z) (acc : list (Z * Z)) : list (Z * Z) * Z :=
    match is_ with
    | [] => (acc, max_error)
    | i :: t =>
        if max_error <? thr i then error_lengths_aux t (max_error + 1) (acc ++ [(max_error, i - 1)])
        else error_lengths_aux t max_error acc
    end.

  Definition error_lengths (m : Z) : list (Z * Z) :=
    let '(acc, me) := error_lengths_aux (zrange 0 (S (Z.to_nat m))) 0 [] in
    acc ++ [(me, m)].

  (** the loop of lines 99-116 *)
  (** [indels]: the window is extended by the error budget (length + max_errors), kmer_heuristic.py *)
  Fixpoint back_sets_loop (indels : bool) (adapter : str) (els : list (Z * Z)) (minimum_length : Z) : list searchset :=
    match els with
    | [] => []
    | (max_errors, length) :: t =>
        if length <? minimum_length then back_sets_loop indels adapter t minimum_length
        else
          let short :=
            if (max_errors =? 0) && (minimum_length <? 5)
            then map (fun i => (- i, None, [firstn (Z.to_nat i) adapter]))
                     (zrange minimum_length (Z.to_nat (5 - minimum_length)))
            else [] in
          let ml := if (max_errors =? 0) && (minimum_length <? 5) then 5 else minimum_length in
          short ++ [(- (if indels then length + max_errors else length), None, kmer_chunks (firstn (Z.to_nat ml) adapter) (Z.to_nat (max_errors + 1)))]
                ++ back_sets_loop indels adapter t (length + 1)
    end.

  Definition create_back_overlap_searchsets (indels : bool) (adapter : str) (min_overlap : Z) : list searchset :=
    back_sets_loop indels adapter (error_lengths (zlen adapter)) min_overlap.

  (** create_positions_and_kmers, lines 119-163, before remove_redundant_kmers *)
  Definition raw_search_sets (adapter : str) (min_overlap : Z) (back front internal indels : bool) : list searchset :=
    (if back then create_back_overlap_searchsets indels adapter min_overlap else [])
    ++ (if front then
          map (fun s : searchset => let '(start, _, kmers) := s in (0, Some (- start), map (@rev Z) kmers))
              (create_back_overlap_searchsets indels (rev adapter) min_overlap)
        else [])
    ++ (if internal then [(0, None, kmer_chunks adapter (Z.to_nat (thr (zlen adapter) + 1)))] else []).
End Heuristic.

(** remove_redundant_kmers / minimize_kmer_search_list, lines 29-82, on the flat list of
    (kmer, start, stop) triples *)
Definition triple := (str * Z * option Z)%type.

Definition flatten_sets (sets : list searchset) : list triple :=
  flat_map (fun s : searchset => let '(start, stop, kmers) := s in map (fun k => (k, start, stop)) kmers) sets.

Fixpoint str_eqb (a b : str) : bool :=
  match a, b with
  | [], [] => true
  | x :: a', y :: b' => (x =? y) && str_eqb a' b'
  | _, _ => false
  end.

Definition pos_eqb (p q : Z * option Z) : bool :=
  (fst p =? fst q) &&
  match snd p, snd q with None, None => true | Some a, Some b => a =? b | _, _ => false end.

Definition positions_of (k : str) (l : list triple) : list (Z * option Z) :=
  map (fun t : triple => let '(_, a, b) := t in (a, b)) (filter (fun t : triple => let '(k', _, _) := t in str_eqb k k') l).

Fixpoint distinct_kmers (l : list triple) (seen : list str) : list str :=
  match l with
  | [] => []
  | (k, _, _) :: t => if existsb (str_eqb k) seen then distinct_kmers t seen else k :: distinct_kmers t (k :: seen)
  end.

Definition zmax_list (d : Z) (l : list Z) : Z := fold_left Z.max l d.
Definition zmin_list (d : Z) (l : list Z) : Z := fold_left Z.min l d.

Definition minimize_one (k : str) (positions : list (Z * option Z)) : list triple :=
  match positions with
  | [p] => [(k, fst p, snd p)]
  | _ =>
      if existsb (pos_eqb (0, None)) positions then [(k, 0, None)]
      else
        let fronts := filter (fun p : Z * option Z => fst p =? 0) positions in
        let backs := filter (fun p : Z * option Z => match snd p with None => true | _ => false end) positions in
        (match fronts with
         | [] => []
         | p :: _ => [(k, 0, Some (zmax_list (match snd p with Some s => s | None => 0 end)
                                             (map (fun q : Z * option Z => match snd q with Some s => s | None => 0 end) fronts)))]
         end)
        ++ (match backs with
            | [] => []
            | p :: _ => [(k, zmin_list (fst p) (map fst backs), None)]
            end)
  end.

Definition minimize (l : list triple) : list triple :=
  flat_map (fun k => minimize_one k (positions_of k l)) (distinct_kmers l []).

Definition positions_and_kmers (thr : Z -> Z) (adapter : str) (min_overlap : Z) (back front internal indels : bool) : list triple :=
  minimize (flatten_sets (raw_search_sets thr adapter min_overlap back front internal indels)).

(** ---- kmers_present *)
(** does ref char c (a k-mer character) match read char q: _match_tables.matches_lookup *)
Definition kmer_char_match (wref wq : bool) (c q : Z) : bool :=
  if q =? 0 then false
  else if wref || wq then
    eq_and (tr (if wref then iupac_table else acgt_table) c) (tr (if wq then iupac_table else acgt_table) q)
  else tr upper_table c =? tr upper_table q.

Fixpoint prefix_match (eqc : Z -> Z -> bool) (k s : str) : bool :=
  match k, s with
  | [], _ => true
  | c :: k', q :: s' => eqc c q && prefix_match eqc k' s'
  | _ :: _, [] => false
  end.

Fixpoint occurs (eqc : Z -> Z -> bool) (k s : str) : bool :=
  prefix_match eqc k s || match s with [] => false | _ :: s' => occurs eqc k s' end.

(** window arithmetic, _kmer_finder.pyx:188-204; None = entry skipped *)
Definition window (n start : Z) (stop : option Z) : option (Z * Z) :=
  let start' := if start <? 0 then Z.max 0 (n + start) else start in
  if (0 <=? start) && (n <? start) then None
  else
    let stopv := match stop with None => 0 | Some s => s end in
    if stopv <? 0 then
      (if n + stopv <=? 0 then None
       else if n + stopv - start' <=? 0 then None else Some (start', n + stopv))
    else
      let stop' := if stopv =? 0 then n else stopv in
      if stop' - start' <=? 0 then None else Some (start', stop').

Definition entry_present (wref wq : bool) (seq : str) (t : triple) : bool :=
  let '(k, start, stop) := t in
  match k with
  | [] => false   (* an empty k-mer sets found bit offset-1: outside the model; never generated for rates < 1 *)
  | _ =>
    match window (zlen seq) start stop with
    | None => false
    | Some (a, b) => occurs (kmer_char_match wref wq) k (firstn (Z.to_nat (b - a)) (skipn (Z.to_nat a) seq))
    end
  end.

Definition kmers_present (wref wq : bool) (table : list triple) (seq : str) : bool :=
  existsb (entry_present wref wq seq) table.

(** ---- which finder each adapter class builds (adapters.py: _kmer_finder of each class,
    _make_kmer_finder).  None = MockKmerFinder (always "present").  When both the back and the
    front sets are requested (semiglobal alignment) the finder is wrapped in ShortReadKmerFinder:
    reads shorter than len(adapter) + int(len(adapter) * rate) always pass. *)
Record finder := mkF { f_table : list triple; f_min_length : option Z }.

Definition make_finder (thr : Z -> Z) (ad : adapter) (s : str) (back front internal : bool) : option finder :=
  Some (mkF (positions_and_kmers thr s (a_min_overlap ad) back front internal (a_indels ad))
            (if back && front then Some (zlen s + thr (zlen s)) else None)).

Definition finder_of (thr : Z -> Z) (ad : adapter) : option finder :=
  let seq := a_seq ad in
  let f := a_force_anywhere ad in
  match a_type ad with
  | Front => make_finder thr ad seq f true true
  | RightmostFront => make_finder thr ad (rev seq) true f true
  | Back => make_finder thr ad seq true f true
  | Anywhere => make_finder thr ad seq true true true
  | NonInternalFront => make_finder thr ad seq f true false
  | NonInternalBack => make_finder thr ad seq true f false
  | Prefix => if a_indels ad then make_finder thr ad seq f true false else None
  | Suffix => if a_indels ad then make_finder thr ad seq true f false else None
  end.

(** what the finder is asked about: the read, or its reverse for RightmostFront *)
Definition finder_query (ad : adapter) (read : str) : str :=
  match a_type ad with RightmostFront => rev read | _ => read end.

Definition finder_present (wref wq : bool) (f : finder) (q : str) : bool :=
  match f_min_length f with
  | Some ml => (zlen q <? ml) || kmers_present wref wq (f_table f) q
  | None => kmers_present wref wq (f_table f) q
  end.

Definition prefilter_passes (thr : Z -> Z) (ad : adapter) (read : str) : bool :=
  match finder_of thr ad with
  | None => true
  | Some f => finder_present (a_wref ad) (a_wq ad) f (finder_query ad read)
  end.

(** match_to as the adapter classes do it: prefilter first, then the aligner *)
Definition match_to_prefiltered (thr : Z -> Z) (ad : adapter) (read : str) : option amatch :=
  if prefilter_passes thr ad read then match_to thr ad read else None.
