(** Completeness of the banded DP for occurrences WITH errors (C02), for every alignment that
    cannot skip the beginning of the reference (start_in_ref = false: regular, non-internal and
    anchored 3' adapters, anchored 5' adapters, and the reversed problem of 'rightmost').

    If some admissible alignment of ref[0, re) with query[p, qe) has cost c within the tolerance
    for that length, then Aligner.locate reports a match.  The argument: AlignOpt's invariant says
    every DP cell (capped at k+1) is a lower bound for all admissible alignments ending there, so
    the cell at (re, qe) has cost <= c <= k; such a cell cannot lie beyond the Ukkonen cut-off
    (cells beyond it hold costs > k), so the column loop (re = m) or the last-column scan
    (qe = n) examines it, its origin is >= 0 because the reference start cannot be skipped, hence
    the length it reports is re and the acceptance test succeeds -- unless a candidate has been
    recorded already, which is all that is claimed. *)
From Coq Require Import ZArith List Bool Lia.
From CV Require Import Generated.Tables Generated.Scores Model.Align Proofs.AlignProofs Proofs.AdapterProofs Proofs.AlignDist Proofs.AlignOpt.
Import ListNotations.
Open Scope Z_scope.

Lemma In_indexed_firstn : forall (l : list entry) lo cnt i,
  (i < cnt)%nat -> (i < length l)%nat ->
  In (lo + Z.of_nat i, nth i l dummy) (firstn cnt (combine (zrange lo (length l)) l)).
Proof.
  induction l as [|x l IH]; intros lo cnt i Hc Hl; [cbn in Hl; lia|].
  destruct cnt as [|cnt]; [lia|]. cbn [length zrange combine firstn].
  destruct i as [|i]; [left; f_equal; lia|]. right. cbn [nth].
  replace (lo + Z.of_nat (S i)) with (lo + 1 + Z.of_nat i) by lia. apply IH; cbn in Hl; lia.
Qed.

Section Found.
  Variable eqc : Z -> Z -> bool.
  Variable thr : Z -> Z.
  Variable cfg : acfg.
  Variable rawref : list Z.
  Variable s1 s2 : list Z.

  Notation m := (zlen s1).
  Notation n := (zlen s2).
  Notation k := (thr m).
  Notation IND := (indel_cost cfg).
  Hypothesis IND_pos : 1 <= indel_cost cfg.
  Hypothesis k_nonneg : 0 <= k.
  Hypothesis thr_bound : forall L, thr L <= k.
  Hypothesis sir : start_in_ref cfg = false.
  Hypothesis stop_q : stop_in_query cfg = true.

  Notation SD := (AlignDist.SD eqc thr cfg s1 s2).
  Notation SL := (AlignOpt.SL eqc thr cfg s1 s2).
  Notation LB := (AlignOpt.LB eqc cfg s1 s2).
  Notation adm := (AlignOpt.adm cfg).
  Notation nb := (no_best s1 n).
  Notation ed := (ed eqc IND).

  Hypothesis k_le_m : k <= m.

  Definition has_best (st : lstate) : Prop := b_cost (best st) <> nb.

  (** once a candidate has been recorded, one stays recorded *)
  Lemma column_step_keeps c2 j st : has_best st -> has_best (column_step eqc thr cfg rawref s1 n c2 j st).
  Proof.
    unfold has_best, column_step. intros H. destruct (col st) as [|c0 olds]; [exact H|].
    destruct (fill eqc cfg (Z.to_nat (last st)) c2 s1 olds c0 _ (ovar st)) as [rest ov1].
    destruct (shrink_last thr s1 _ (last st) <? m); [exact H|]. rewrite stop_q.
    match goal with |- context [if ?c then _ else _] => destruct c eqn:Ecnd end; [|exact H].
    cbn [best b_cost]. apply andb_prop in Ecnd. destruct Ecnd as [Eok _]. apply andb_prop in Eok. destruct Eok as [_ Ethr]. apply Z.leb_le in Ethr.
    match type of Ethr with _ <= thr ?L => pose proof (thr_bound L) end. unfold no_best. pose proof (zlen_nonneg s2). lia.
  Qed.

  Lemma columns_keeps : forall qs j st, has_best st -> has_best (columns eqc thr cfg rawref s1 n qs j st).
  Proof.
    induction qs as [|c2 t IH]; intros j st H; cbn [columns]; [exact H|].
    destruct (stopped (column_step eqc thr cfg rawref s1 n c2 j st)); [apply column_step_keeps; exact H | apply IH; apply column_step_keeps; exact H].
  Qed.

  Lemma last_column_keeps ov : forall cells b, b_cost b <> nb -> b_cost (last_column thr cfg rawref s1 n ov cells b) <> nb.
  Proof.
    induction cells as [|[i e] t IH]; intros b H; cbn [last_column]; [exact H|].
    match goal with |- context [if ?c then _ else _] => destruct c eqn:Ecnd end; [|apply IH; exact H].
    apply IH. cbn [b_cost]. apply andb_prop in Ecnd. destruct Ecnd as [Eok _]. apply andb_prop in Eok. destruct Eok as [_ Ethr]. apply Z.leb_le in Ethr.
    match type of Ethr with _ <= thr ?L => pose proof (thr_bound L) end. unfold no_best. pose proof (zlen_nonneg s2). lia.
  Qed.

  (** a cell of the last column that passes the acceptance test leaves a candidate recorded *)
  Lemma last_column_hit ov i e : forall cells b, In (i, e) cells ->
    0 <= origin e -> min_overlap cfg <= i -> cost e <= thr (eff_len cfg rawref s1 i i) ->
    b_cost (last_column thr cfg rawref s1 n ov cells b) <> nb.
  Proof.
    induction cells as [|[i' e'] t IH]; intros b Hin Ho Hov Hc; [contradiction|]. cbn [last_column].
    destruct Hin as [Heq|Hin].
    - injection Heq as -> ->. rewrite Z.min_r by lia. rewrite Z.add_0_r.
      assert (Eok : (min_overlap cfg <=? i) && (cost e <=? thr (eff_len cfg rawref s1 i i)) = true).
      { apply andb_true_intro. split; apply Z.leb_le; assumption. }
      rewrite Eok. cbn [andb].
      destruct (replaces s1 n b ov (score e) i (b_refstop b + Z.min (b_origin b) 0)) eqn:Er.
      + apply last_column_keeps. cbn [b_cost]. pose proof (thr_bound (eff_len cfg rawref s1 i i)). unfold no_best. pose proof (zlen_nonneg s2). lia.
      + apply last_column_keeps. unfold replaces in Er. apply orb_false_iff in Er. destruct Er as [Er _]. apply orb_false_iff in Er. destruct Er as [Er _].
        apply Z.eqb_neq in Er. exact Er.
    - match goal with |- context [if ?c then _ else _] => destruct c end; apply IH; assumption.
  Qed.

  (** ---- the column loop: a cell in row m with cost <= k is examined and accepted *)
  Lemma column_step_records c2 j st :
    SD (j - 1) st ->
    let st' := column_step eqc thr cfg rawref s1 n c2 j st in
    let e := znth dummy (col st') m in
    cost e <= k -> 0 <= origin e -> min_overlap cfg <= m -> cost e <= thr (eff_len cfg rawref s1 m m) ->
    has_best st'.
  Proof.
    intros (Hcol & Hlen & Hlast & HB & Hbest). cbv zeta. unfold column_step.
    destruct (col st) as [|c0 olds] eqn:Ecol; [rewrite zlen_nil in Hlen; pose proof (zlen_nonneg s1); lia|].
    set (new0 := mkE _ _ _).
    pose proof (fill_skip eqc cfg (Z.to_nat (last st)) c2 s1 olds c0 new0 (ovar st)) as Hsk.
    pose proof (fill_ok eqc cfg (Z.to_nat (last st)) c2 s1 olds c0 new0 (ovar st) 1 (j - 1)) as Hfo.
    inversion Hcol as [|i0 e0 l0 Hc0d Holdsd]; subst i0 e0 l0.
    destruct (fill eqc cfg (Z.to_nat (last st)) c2 s1 olds c0 new0 (ovar st)) as [rest ov1] eqn:Efill. cbn [fst] in *.
    assert (Hnew0ok : AlignProofs.ent_ok cfg 0 j new0).
    { destruct Hc0d as ((a & b & c & d) & _). subst new0. unfold AlignProofs.ent_ok in *; cbn [origin] in *.
      destruct (start_in_query cfg); repeat split; intros; try congruence; try lia. }
    assert (Hrlen : length rest = length olds).
    { apply Hfo. - apply (colD_col_ok eqc thr cfg s1 s2). exact Holdsd.
      - replace (1 - 1) with 0 by lia. destruct Hc0d; assumption.
      - replace (1 - 1) with 0 by lia. replace (j - 1 + 1) with j by lia. exact Hnew0ok. }
    assert (Hlen' : zlen (new0 :: rest) = m + 1) by (rewrite zlen_cons in *; unfold zlen in *; lia).
    pose proof (zlen_nonneg s1) as Hm0.
    pose proof (shrink_last_spec thr s1 (new0 :: rest) (last st) ltac:(lia) ltac:(lia)) as Hsh. cbv zeta in Hsh.
    set (l1 := shrink_last thr s1 (new0 :: rest) (last st)) in *. destruct Hsh as (Hl1 & Hl1c & Hl1g).
    destruct (l1 <? m) eqn:El1m.
    - apply Z.ltb_lt in El1m. cbn [col]. intros Hck _ _ _. exfalso.
      assert (He : znth dummy (new0 :: rest) m = nth (Z.to_nat m) (new0 :: rest) dummy).
      { unfold znth. destruct (m <? 0) eqn:E; [lia | reflexivity]. }
      rewrite He in Hck.
      destruct (Z_le_dec m (last st)) as [Hle|Hgt].
      + specialize (Hl1g m ltac:(lia)). lia.
      + assert (Hst : nth (Z.to_nat m) (new0 :: rest) dummy = nth (Z.to_nat m) (c0 :: olds) dummy).
        { replace (Z.to_nat m) with (S (Z.to_nat (m - 1))) by lia. cbn [nth].
          replace (Z.to_nat (m - 1)) with (Z.to_nat (last st) + (Z.to_nat (m - 1) - Z.to_nat (last st)))%nat by lia.
          rewrite <- !nth_skipn. rewrite Hsk. reflexivity. }
        pose proof (Forall_skipn_get (fun e => k < cost e) dummy (c0 :: olds) (Z.to_nat (last st + 1)) (Z.to_nat m) HB
                      ltac:(cbn [length]; unfold zlen in *; cbn [length] in *; lia)) as Hk.
        cbv beta in Hk. rewrite <- Hst in Hk. lia.
    - apply Z.ltb_ge in El1m. rewrite stop_q.
      match goal with |- context [if ?c then _ else _] => destruct c eqn:Ecnd end.
      + cbn [col]. intros _ _ _ _. unfold has_best; cbn [best b_cost].
        apply andb_prop in Ecnd. destruct Ecnd as [Eok _]. apply andb_prop in Eok. destruct Eok as [_ Ethr]. apply Z.leb_le in Ethr.
        match type of Ethr with _ <= thr ?L => pose proof (thr_bound L) end. unfold no_best. pose proof (zlen_nonneg s2). lia.
      + cbn [col]. intros Hck Ho Hov Hc. unfold has_best; cbn [best].
        set (e := znth dummy (new0 :: rest) m) in *.
        rewrite (Z.min_r (origin e) 0) in Ecnd by lia. rewrite Z.add_0_r in Ecnd.
        assert (Eok : (min_overlap cfg <=? m) && (cost e <=? thr (eff_len cfg rawref s1 m m)) = true).
        { apply andb_true_intro. split; apply Z.leb_le; assumption. }
        rewrite Eok in Ecnd. cbn [andb] in Ecnd. unfold replaces in Ecnd.
        apply orb_false_iff in Ecnd. destruct Ecnd as [Ecnd _]. apply orb_false_iff in Ecnd. destruct Ecnd as [Ecnd _].
        apply Z.eqb_neq in Ecnd. exact Ecnd.
  Qed.

  (** ---- an admissible occurrence of ref[0, re) that ends at query position qe *)
  Variables p re qe c : Z.
  Hypothesis occ_adm : p = 0 \/ start_in_query cfg = true.
  Hypothesis occ_range : 0 <= p <= qe /\ qe <= n /\ 0 <= re <= m.
  Hypothesis occ_ed : ed (zslice s1 0 re) (zslice s2 p qe) c.
  Hypothesis occ_tol : c <= thr (eff_len cfg rawref s1 re re).
  Hypothesis occ_ov : min_overlap cfg <= re.

  Lemma occ_cost e : LB re qe (capk thr s1 (cost e)) -> cost e <= c.
  Proof.
    intros H. assert (Ha : adm 0 p).
    { split; [left; reflexivity|]. destruct occ_adm as [->|Hs]; [left; reflexivity | right; split; [exact Hs | reflexivity]]. }
    specialize (H 0 p c Ha ltac:(lia) ltac:(lia) occ_ed). unfold capk in H. pose proof (thr_bound (eff_len cfg rawref s1 re re)). lia.
  Qed.

  Lemma znth_nth (l : list entry) i : 0 <= i -> znth dummy l i = nth (Z.to_nat i) l dummy.
  Proof. intros H. unfold znth. destruct (i <? 0) eqn:E; [lia | reflexivity]. Qed.

  (** the column in which a full-length occurrence ends records a candidate *)
  Lemma column_step_hit c2 j st :
    SD (j - 1) st -> SL (j - 1) st -> 1 <= j <= n -> c2 = znth 0 s2 (j - 1) -> j = qe -> re = m ->
    has_best (column_step eqc thr cfg rawref s1 n c2 j st).
  Proof.
    intros Hsd Hsl Hj Hc2 Hjq Hre.
    destruct (column_step_d eqc thr cfg rawref s1 s2 IND_pos c2 j st Hsd Hj Hc2) as [Hsd' _]. cbv zeta in Hsd'.
    pose proof (column_step_L eqc thr cfg rawref s1 s2 IND_pos k_nonneg c2 j st Hsd Hsl Hj Hc2) as Hsl'.
    pose proof (zlen_nonneg s1) as Hm0.
    apply column_step_records; [exact Hsd| | | |]; cbv zeta.
    all: set (st' := column_step eqc thr cfg rawref s1 n c2 j st) in *.
    all: destruct Hsd' as (HcolD & Hlen & _); destruct Hsl' as (HcolL & _ & _).
    all: try rewrite znth_nth by lia.
    all: pose proof (colL_nth eqc thr cfg s1 s2 (col st') j 0 m HcolL ltac:(lia) ltac:(unfold zlen in *; lia)) as HL; replace (0 + m) with re in HL by lia; rewrite Hjq in HL.
    all: pose proof (occ_cost _ HL) as Hcost.
    - pose proof (thr_bound (eff_len cfg rawref s1 re re)). lia.
    - pose proof (colD_nth eqc thr cfg s1 s2 (col st') j 0 m HcolD ltac:(lia) ltac:(unfold zlen in *; lia)) as (Hent & _).
      destruct Hent as (_ & _ & Ho & _). apply Ho. exact sir.
    - lia.
    - pose proof occ_tol as Ht. rewrite Hre in Ht. lia.
  Qed.

  Lemma columns_hit : forall qs j st,
    SD (j - 1) st -> SL (j - 1) st -> 1 <= j -> j - 1 < qe -> qe <= j - 1 + zlen qs -> j - 1 + zlen qs <= n -> re = m ->
    qs = firstn (length qs) (skipn (Z.to_nat (j - 1)) s2) ->
    has_best (columns eqc thr cfg rawref s1 n qs j st).
  Proof.
    induction qs as [|c2 t IH]; intros j st Hsd Hsl Hj Hlt Hend Hn Hre Hqs; cbn [columns].
    - assert (Hz : zlen (@nil Z) = 0) by reflexivity. rewrite Hz in Hend. lia.
    - rewrite zlen_cons in *. pose proof (zlen_nonneg t) as Ht.
      cbn [length firstn] in Hqs.
      destruct (skipn (Z.to_nat (j - 1)) s2) as [|x u] eqn:Esk; [discriminate|].
      injection Hqs as Hc2 Htl. destruct (skipn_cons_nth 0 _ _ _ _ Esk) as (Hx & Hu & Hltn).
      assert (Hc2' : c2 = znth 0 s2 (j - 1)).
      { unfold znth. destruct (j - 1 <? 0) eqn:E; [lia|]. congruence. }
      assert (Hjn : 1 <= j <= n) by (unfold zlen in *; lia).
      destruct (column_step_d eqc thr cfg rawref s1 s2 IND_pos c2 j st Hsd Hjn Hc2') as [Hs Hstop]. cbv zeta in Hs, Hstop.
      pose proof (column_step_L eqc thr cfg rawref s1 s2 IND_pos k_nonneg c2 j st Hsd Hsl Hjn Hc2') as HsL.
      destruct (Z.eq_dec j qe) as [Hjq|Hne].
      + pose proof (column_step_hit c2 j st Hsd Hsl Hjn Hc2' Hjq Hre) as Hb.
        destruct (stopped (column_step eqc thr cfg rawref s1 n c2 j st)); [exact Hb | apply columns_keeps; exact Hb].
      + destruct (stopped (column_step eqc thr cfg rawref s1 n c2 j st)) eqn:Est.
        * destruct (Hstop eq_refl) as [H0 _]. unfold has_best. rewrite H0. unfold no_best. pose proof (zlen_nonneg s2). pose proof (zlen_nonneg s1). lia.
        * specialize (IH (j + 1) (column_step eqc thr cfg rawref s1 n c2 j st)). replace (j + 1 - 1) with j in IH by lia.
          assert (Htl' : t = firstn (length t) (skipn (Z.to_nat j) s2)).
          { rewrite Htl at 1. rewrite Hu. do 2 f_equal. lia. }
          apply IH; auto; lia.
  Qed.

  (** ---- the last column: cells beyond last_filled are stale and hold costs > k *)
  Definition FL (st : lstate) : Prop :=
    0 <= last_filled st <= m /\ Forall (fun e => k < cost e) (skipn (Z.to_nat (last_filled st + 1)) (col st)).

  Lemma column_step_FL c2 j st : SD (j - 1) st -> FL (column_step eqc thr cfg rawref s1 n c2 j st).
  Proof.
    clear stop_q sir. intros (Hcol & Hlen & Hlast & HB & Hbest). unfold column_step.
    destruct (col st) as [|c0 olds] eqn:Ecol; [rewrite zlen_nil in Hlen; pose proof (zlen_nonneg s1); lia|].
    set (new0 := mkE _ _ _).
    pose proof (fill_skip eqc cfg (Z.to_nat (last st)) c2 s1 olds c0 new0 (ovar st)) as Hsk.
    destruct (fill eqc cfg (Z.to_nat (last st)) c2 s1 olds c0 new0 (ovar st)) as [rest ov1] eqn:Efill. cbn [fst] in *.
    assert (Hgoal : 0 <= last st <= m /\ Forall (fun e => k < cost e) (skipn (Z.to_nat (last st + 1)) (new0 :: rest))).
    { split; [exact Hlast|]. replace (Z.to_nat (last st + 1)) with (S (Z.to_nat (last st))) in * by lia. cbn [skipn] in *. rewrite Hsk. exact HB. }
    destruct (shrink_last thr s1 (new0 :: rest) (last st) <? m); [exact Hgoal|].
    destruct (stop_in_query cfg); [|exact Hgoal].
    match goal with |- context [if ?c then _ else _] => destruct c end; exact Hgoal.
  Qed.

  Lemma columns_FL : forall qs j st,
    SD (j - 1) st -> 1 <= j -> j - 1 + zlen qs <= n -> qs = firstn (length qs) (skipn (Z.to_nat (j - 1)) s2) ->
    qs <> [] \/ FL st -> FL (columns eqc thr cfg rawref s1 n qs j st).
  Proof.
    induction qs as [|c2 t IH]; intros j st Hsd Hj Hn Hqs Hor; cbn [columns].
    - destruct Hor as [H|H]; [contradiction | exact H].
    - rewrite zlen_cons in *. pose proof (zlen_nonneg t) as Ht.
      cbn [length firstn] in Hqs.
      destruct (skipn (Z.to_nat (j - 1)) s2) as [|x u] eqn:Esk; [discriminate|].
      injection Hqs as Hc2 Htl. destruct (skipn_cons_nth 0 _ _ _ _ Esk) as (Hx & Hu & Hltn).
      assert (Hc2' : c2 = znth 0 s2 (j - 1)).
      { unfold znth. destruct (j - 1 <? 0) eqn:E; [lia|]. congruence. }
      assert (Hjn : 1 <= j <= n) by (unfold zlen in *; lia).
      destruct (column_step_d eqc thr cfg rawref s1 s2 IND_pos c2 j st Hsd Hjn Hc2') as [Hs _]. cbv zeta in Hs.
      pose proof (column_step_FL c2 j st Hsd) as Hfl.
      destruct (stopped (column_step eqc thr cfg rawref s1 n c2 j st)); [exact Hfl|].
      specialize (IH (j + 1) (column_step eqc thr cfg rawref s1 n c2 j st)). replace (j + 1 - 1) with j in IH by lia.
      apply IH; auto; try lia. rewrite Htl at 1. rewrite Hu. do 2 f_equal. lia.
  Qed.

  (** ---- the occurrence is reported *)
  Theorem locate_core_found :
    let max_n := if start_in_query cfg then n else Z.min n (m + k) in
    (re = m /\ 1 <= qe <= max_n) \/ (qe = n /\ max_n = n /\ 1 <= n /\ (stop_in_ref cfg = true \/ re = m)) ->
    locate_core eqc thr cfg rawref s1 s2 <> None.
  Proof.
    intros max_n Hcase. unfold locate_core. rewrite stop_q. fold max_n.
    set (qsl := firstn _ _).
    set (st0 := mkS _ _ _ _ _ _).
    assert (Hn : 0 <= n) by apply zlen_nonneg.
    assert (Hm : 0 <= m) by apply zlen_nonneg.
    assert (Hmaxn : max_n <= n) by (subst max_n; destruct (start_in_query cfg); lia).
    destruct (locate_core_init eqc thr cfg s1 s2 IND_pos k_nonneg) as (Hsd0 & Hsl0).
    fold st0 in Hsd0, Hsl0.
    assert (Hmax0 : 0 <= max_n) by (subst max_n; destruct (start_in_query cfg); lia).
    assert (Hqsl : qsl = firstn (length qsl) (skipn (Z.to_nat (0 + 1 - 1)) s2)).
    { subst qsl. replace (0 + 1 - 1) with 0 by lia. rewrite firstn_length.
      destruct (Nat.le_ge_cases (Z.to_nat (max_n - 0)) (length (skipn (Z.to_nat 0) s2))) as [Hle|Hge].
      - rewrite Nat.min_l by exact Hle. reflexivity.
      - rewrite Nat.min_r by exact Hge. rewrite !firstn_all2; auto. }
    assert (Hqz : zlen qsl = max_n).
    { subst qsl. unfold zlen. rewrite firstn_length, skipn_length. unfold zlen in *. lia. }
    set (st := columns eqc thr cfg rawref s1 n qsl (0 + 1) st0).
    assert (Hfin : b_cost (if max_n =? n
                           then last_column thr cfg rawref s1 n (ovar st)
                                  (filter (fun ie : Z * entry => (if stop_in_ref cfg then 0 else m) <=? fst ie)
                                     (rev (firstn (Z.to_nat (last_filled st + 1)) (indexed (col st))))) (best st)
                           else best st) <> nb).
    { destruct Hcase as [[Hre Hqe]|(Hqe & Hmx & Hn1 & Hstop)].
      - (* found in the column loop *)
        assert (Hhas : has_best st).
        { subst st. apply columns_hit; auto; try lia. all: try (rewrite Hqz; lia). }
        destruct (max_n =? n); [apply last_column_keeps; exact Hhas | exact Hhas].
      - (* found in the last column *)
        rewrite Hmx, Z.eqb_refl.
        destruct (Z.eq_dec (b_cost (best st)) nb) as [Hnb|Hhas]; [|apply last_column_keeps; exact Hhas].
        assert (Hqlen : 0 + 1 - 1 + zlen qsl <= n) by lia.
        destruct (columns_L eqc thr cfg rawref s1 s2 IND_pos k_nonneg qsl (0 + 1) st0 Hsd0 Hsl0 ltac:(lia) Hqlen Hqsl) as (_ & jf & HcolL & Hex). cbv zeta in *.
        destruct (columns_d eqc thr cfg rawref s1 s2 IND_pos qsl (0 + 1) st0 Hsd0 ltac:(lia) Hqlen Hqsl) as (_ & jf' & (HcolD & Hlen) & Hex'). cbv zeta in *.
        fold st in HcolL, Hex, HcolD, Hlen, Hex'.
        assert (Hne : exact_best s1 (best st) -> False).
        { intros [H0 _]. rewrite H0 in Hnb. unfold no_best in Hnb. lia. }
        destruct Hex as [Hex|Hjf]; [contradiction|]. destruct Hex' as [Hex'|Hjf']; [contradiction|].
        assert (Hjfn : jf = n) by lia. assert (Hjfn' : jf' = n) by lia. rewrite Hjfn in HcolL. rewrite Hjfn' in HcolD.
        pose proof (columns_FL qsl (0 + 1) st0 Hsd0 ltac:(lia) Hqlen Hqsl ltac:(left; intros E; rewrite E in Hqz; unfold zlen in Hqz; cbn in Hqz; lia)) as (Hlf & Hstale).
        fold st in Hlf, Hstale.
        set (e := nth (Z.to_nat re) (col st) dummy).
        pose proof (colL_nth eqc thr cfg s1 s2 (col st) n 0 re HcolL ltac:(lia) ltac:(unfold zlen in *; lia)) as HL.
        replace (0 + re) with re in HL by lia. fold e in HL. rewrite <- Hqe in HL. pose proof (occ_cost e HL) as Hcost.
        pose proof (colD_nth eqc thr cfg s1 s2 (col st) n 0 re HcolD ltac:(lia) ltac:(unfold zlen in *; lia)) as (Hent & _).
        fold e in Hent. destruct Hent as (_ & _ & Ho & _). specialize (Ho sir).
        assert (Hck : cost e <= k) by (pose proof (thr_bound (eff_len cfg rawref s1 re re)); lia).
        assert (Hrelf : re <= last_filled st).
        { destruct (Z_le_dec re (last_filled st)) as [H|H]; [exact H|]. exfalso.
          pose proof (Forall_skipn_get (fun e => k < cost e) dummy (col st) (Z.to_nat (last_filled st + 1)) (Z.to_nat re) Hstale
                        ltac:(unfold zlen in *; lia)) as Hk. cbv beta in Hk. fold e in Hk. lia. }
        apply (last_column_hit (ovar st) re e); [|exact Ho|exact occ_ov|lia].
        apply filter_In. split.
        + apply -> in_rev. unfold indexed.
          pose proof (In_indexed_firstn (col st) 0 (Z.to_nat (last_filled st + 1)) (Z.to_nat re) ltac:(lia) ltac:(unfold zlen in *; lia)) as Hin.
          replace (0 + Z.of_nat (Z.to_nat re)) with re in Hin by lia. exact Hin.
        + cbn [fst]. apply Z.leb_le. destruct Hstop as [->| ->]; [lia|]. destruct (stop_in_ref cfg); lia. }
    match goal with |- context [if ?c then None else _] => destruct c eqn:E end; [apply Z.eqb_eq in E; contradiction|].
    match goal with |- context [if ?c then _ else _] => destruct c end; discriminate.
  Qed.
End Found.

(** ---- the variant for alignments that must end at the end of the query (stop_in_query = false:
    anchored and non-internal 3' adapters): the DP starts at column q0 = max(0, n - m - k) *)
From CV Require Import Proofs.AlignOptTail.

Lemma ed_len_diff eqc IND a b c : 1 <= IND -> ed eqc IND a b c -> Z.abs (zlen a - zlen b) <= c.
Proof.
  intros Hi H. induction H; rewrite ?zlen_app, ?zlen_cons, ?zlen_nil; try lia.
  all: unfold zlen in *; rewrite ?app_length; cbn [length]; lia.
Qed.

Section FoundTail.
  Variable eqc : Z -> Z -> bool.
  Variable thr : Z -> Z.
  Variable cfg : acfg.
  Variable rawref : list Z.
  Variable s1 s2 : list Z.

  Notation m := (zlen s1).
  Notation n := (zlen s2).
  Notation k := (thr m).
  Notation IND := (indel_cost cfg).
  Hypothesis IND_pos : 1 <= indel_cost cfg.
  Hypothesis k_nonneg : 0 <= k.
  Hypothesis thr_bound : forall L, thr L <= k.
  Hypothesis k_le_m : k <= m.
  Hypothesis sir : start_in_ref cfg = false.
  Hypothesis siq : start_in_query cfg = true.
  Hypothesis stop_q : stop_in_query cfg = false.
  Notation ed := (ed eqc IND).
  Notation nb := (no_best s1 n).

  Variables p re c : Z.
  Hypothesis occ_range : 0 <= p <= n /\ 0 <= re <= m.
  Hypothesis occ_ed : ed (zslice s1 0 re) (zslice s2 p n) c.
  Hypothesis occ_tol : c <= thr (eff_len cfg rawref s1 re re).
  Hypothesis occ_ov : min_overlap cfg <= re.
  Hypothesis occ_stop : stop_in_ref cfg = true \/ re = m.
  Hypothesis n_pos : 1 <= n.
  Hypothesis m_pos : 1 <= m.

  Theorem locate_core_found_tail : locate_core eqc thr cfg rawref s1 s2 <> None.
  Proof.
    assert (Hn : 0 <= n) by apply zlen_nonneg.
    assert (Hm : 0 <= m) by apply zlen_nonneg.
    assert (Hck : c <= k) by (pose proof (thr_bound (eff_len cfg rawref s1 re re)); lia).
    remember (Z.max 0 (n - m - k)) as q0 eqn:Hq0.
    assert (q0_range : 0 <= q0 <= n) by lia.
    assert (Hp : q0 <= p).
    { pose proof (ed_len_diff eqc IND _ _ _ IND_pos occ_ed) as Hd. rewrite !zslice_length in Hd by lia. lia. }
    unfold locate_core. rewrite stop_q, siq, sir. rewrite <- Hq0.
    set (qsl := firstn _ _).
    set (st0 := mkS _ _ _ _ _ _).
    assert (Hnz : forall cnt lo t d, (t < cnt)%nat -> nth t (zrange lo cnt) d = lo + Z.of_nat t).
    { induction cnt as [|cn IH]; intros lo t d Ht; [lia|]. destruct t as [|t']; cbn [zrange nth]; [lia|]. rewrite IH by lia. lia. }
    pose proof (init_state_d eqc thr cfg s1 s2 IND_pos k_nonneg q0 q0_range) as Hsd0. rewrite sir in Hsd0. fold st0 in Hsd0.
    assert (HinitT : forall cnt lo, 0 <= lo -> lo + Z.of_nat cnt <= m + 1 -> colT eqc thr cfg s1 s2 q0 q0 lo (map (init_entry cfg q0) (zrange lo cnt))).
    { induction cnt as [|cn IH]; intros lo Hlo Hc; cbn [zrange map]; constructor; [|apply IH; lia].
      unfold init_entry. rewrite sir, siq. split; cbn [cost origin].
      - intros qs' c' Hq He. assert (qs' = q0) by lia. subst qs'. rewrite zslice_empty in He.
        pose proof (ed_len_l eqc IND _ _ _ He eq_refl) as Hl. rewrite zslice_length in Hl by lia. unfold AlignOptTail.capk. lia.
      - unfold Wp; cbn [cost origin]. intros _ Ho. nia. }
    assert (Hst0 : ST eqc thr cfg s1 s2 q0 (q0 + 1 - 1) st0).
    { replace (q0 + 1 - 1) with q0 by lia. subst st0. unfold ST; cbn [col last].
      split; [apply HinitT; [lia | unfold zlen; lia]|].
      destruct (Z_le_gt_dec m (k + 1)) as [Hle|Hgt]; [left; lia|]. right.
      unfold init_column. apply (Forall_skipn_nth (fun e => k < cost e) dummy). intros t Ht. rewrite map_length, zrange_length in Ht.
      rewrite (nth_indep _ dummy (init_entry cfg q0 0)) by (rewrite map_length, zrange_length; lia).
      rewrite map_nth, Hnz by lia. unfold init_entry. rewrite sir, siq. cbn [cost]. nia. }
    assert (Hqsl : qsl = firstn (length qsl) (skipn (Z.to_nat (q0 + 1 - 1)) s2)).
    { subst qsl. replace (q0 + 1 - 1) with q0 by lia. rewrite firstn_length.
      destruct (Nat.le_ge_cases (Z.to_nat (n - q0)) (length (skipn (Z.to_nat q0) s2))) as [Hle|Hge].
      - rewrite Nat.min_l by exact Hle. reflexivity.
      - rewrite Nat.min_r by exact Hge. rewrite !firstn_all2; auto. }
    assert (Hqz : zlen qsl = n - q0).
    { subst qsl. unfold zlen. rewrite firstn_length, skipn_length. unfold zlen in *. lia. }
    destruct (columns_T eqc thr cfg rawref s1 s2 IND_pos k_nonneg siq q0 q0_range stop_q qsl (q0 + 1) st0 Hsd0 Hst0 ltac:(lia) ltac:(lia) Hqsl)
      as ((HcolD & Hlen & _) & (HcolT & _) & Hbest). cbv zeta in *.
    pose proof (columns_FL eqc thr cfg rawref s1 s2 IND_pos qsl (q0 + 1) st0 Hsd0 ltac:(lia) ltac:(lia) Hqsl
                  ltac:(left; intros E; rewrite E in Hqz; change (zlen (@nil Z)) with 0 in Hqz; lia)) as (Hlf & Hstale).
    set (st := columns eqc thr cfg rawref s1 n qsl (q0 + 1) st0) in *.
    rewrite Z.eqb_refl.
    assert (Hjf : q0 + 1 - 1 + zlen qsl = n) by lia. rewrite Hjf in HcolD, HcolT.
    set (cells := filter _ _).
    set (e := nth (Z.to_nat re) (col st) dummy).
    pose proof (colT_nth eqc thr cfg s1 s2 q0 (col st) n 0 re HcolT ltac:(lia) ltac:(unfold zlen in *; lia)) as (HL & _).
    replace (0 + re) with re in HL by lia. fold e in HL.
    assert (Hcost : cost e <= c).
    { specialize (HL p c ltac:(lia) occ_ed). unfold AlignOptTail.capk in HL. lia. }
    pose proof (colD_nth eqc thr cfg s1 s2 (col st) n 0 re HcolD ltac:(lia) ltac:(unfold zlen in *; lia)) as (Hent & _).
    fold e in Hent. destruct Hent as (_ & _ & Ho & _). specialize (Ho sir).
    assert (Hrelf : re <= last_filled st).
    { destruct (Z_le_dec re (last_filled st)) as [H|H]; [exact H|]. exfalso.
      pose proof (Forall_skipn_get (fun e => k < cost e) dummy (col st) (Z.to_nat (last_filled st + 1)) (Z.to_nat re) Hstale
                    ltac:(unfold zlen in *; lia)) as Hk. cbv beta in Hk. fold e in Hk. lia. }
    assert (Hfin : b_cost (last_column thr cfg rawref s1 n (ovar st) cells (best st)) <> nb).
    { apply (last_column_hit thr cfg rawref s1 s2 thr_bound k_le_m (ovar st) re e); [|exact Ho|exact occ_ov|lia].
      subst cells. apply filter_In. split.
      - apply -> in_rev. unfold indexed.
        pose proof (In_indexed_firstn (col st) 0 (Z.to_nat (last_filled st + 1)) (Z.to_nat re) ltac:(lia) ltac:(unfold zlen in *; lia)) as Hin.
        replace (0 + Z.of_nat (Z.to_nat re)) with re in Hin by lia. exact Hin.
      - cbn [fst]. apply Z.leb_le. destruct occ_stop as [->| ->]; [lia|]. destruct (stop_in_ref cfg); lia. }
    match goal with |- context [if ?c then None else _] => destruct c eqn:E end; [apply Z.eqb_eq in E; contradiction|].
    match goal with |- context [if ?c then _ else _] => destruct c end; discriminate.
  Qed.
End FoundTail.

(** ---- Aligner.locate with its translation tables: every admissible occurrence within the
    tolerance is reported, for every flag set that cannot skip the beginning of the reference *)
Theorem locate_found thr cfg wq ref query p re qe c :
  1 <= indel_cost cfg -> start_in_ref cfg = false ->
  stop_in_query cfg = true \/ start_in_query cfg = true ->
  1 <= zlen ref -> 0 <= thr (zlen ref) -> (forall L, thr L <= thr (zlen ref)) -> thr (zlen ref) <= zlen ref ->
  (p = 0 \/ start_in_query cfg = true) ->
  (re = zlen ref \/ (stop_in_ref cfg = true /\ qe = zlen query)) ->
  (qe = zlen query \/ stop_in_query cfg = true) ->
  0 <= p < qe -> qe <= zlen query -> 0 <= re <= zlen ref -> min_overlap cfg <= re ->
  ed (loc_eqc cfg wq) (indel_cost cfg) (zslice (loc_s1 cfg wq ref) 0 re) (zslice (loc_s2 cfg wq query) p qe) c ->
  c <= thr (eff_len cfg ref (loc_s1 cfg wq ref) re re) ->
  locate thr cfg wq ref query <> None.
Proof.
  intros Hi Hsir Hmode Hm Hk Hb Hkm Hstart Hsr Hsq Hp Hqe Hre Hov Hed Htol. unfold locate.
  fold (loc_s1 cfg wq ref). fold (loc_s2 cfg wq query). fold (loc_eqc cfg wq).
  pose proof (loc_s1_len cfg wq ref) as H1. pose proof (loc_s2_len cfg wq query) as H2.
  set (s1 := loc_s1 cfg wq ref) in *. set (s2 := loc_s2 cfg wq query) in *.
  assert (Hck : c <= thr (zlen ref)) by (pose proof (Hb (eff_len cfg ref s1 re re)); lia).
  pose proof (ed_len_diff _ _ _ _ _ Hi Hed) as Hd. rewrite !zslice_length in Hd by (rewrite ?H1, ?H2; lia).
  destruct (stop_in_query cfg) eqn:Esq.
  - apply (locate_core_found (loc_eqc cfg wq) thr cfg ref s1 s2) with (p := p) (re := re) (qe := qe) (c := c); rewrite ?H1, ?H2; auto; try lia.
    cbv zeta. destruct Hsr as [Hrm|[Hsr Hqn]].
    + left. split; [exact Hrm|]. destruct (start_in_query cfg) eqn:Esiq; [lia|]. destruct Hstart as [->|?]; [lia | discriminate].
    + right. split; [exact Hqn|]. split; [|split; [lia | left; exact Hsr]].
      destruct (start_in_query cfg) eqn:Esiq; [reflexivity|]. destruct Hstart as [->|?]; [lia | discriminate].
  - destruct Hmode as [?|Hsiq]; [discriminate|]. destruct Hsq as [Hqn|?]; [|discriminate]. subst qe.
    apply (locate_core_found_tail (loc_eqc cfg wq) thr cfg ref s1 s2) with (p := p) (re := re) (c := c); rewrite ?H1, ?H2; auto; try lia.
    destruct Hsr as [Hrm|[Hsr _]]; [right; exact Hrm | left; exact Hsr].
Qed.

(** ---- the adapter classes: regular 3' (Back), non-internal 3', anchored 3' and anchored 5' with
    indels -- every admissible occurrence within the tolerance makes match_to report a match *)
From CV Require Import Generated.Flags Model.Adapters.

Theorem match_to_found thr ad read p re qe c :
  uses_comparer ad = false -> class_reversed (a_type ad) = false -> start_in_ref (ad_cfg ad) = false ->
  1 <= zlen (a_seq ad) -> 0 <= thr (zlen (a_seq ad)) -> (forall L, thr L <= thr (zlen (a_seq ad))) -> thr (zlen (a_seq ad)) <= zlen (a_seq ad) ->
  (p = 0 \/ start_in_query (ad_cfg ad) = true) ->
  (re = zlen (a_seq ad) \/ (stop_in_ref (ad_cfg ad) = true /\ qe = zlen read)) ->
  (qe = zlen read \/ stop_in_query (ad_cfg ad) = true) ->
  0 <= p < qe -> qe <= zlen read -> 0 <= re <= zlen (a_seq ad) -> a_min_overlap ad <= re ->
  ed (loc_eqc (ad_cfg ad) (a_wq ad)) (indel_cost (ad_cfg ad))
     (zslice (loc_s1 (ad_cfg ad) (a_wq ad) (a_seq ad)) 0 re) (zslice (loc_s2 (ad_cfg ad) (a_wq ad) (ad_query ad read)) p qe) c ->
  c <= thr (eff_len (ad_cfg ad) (a_seq ad) (loc_s1 (ad_cfg ad) (a_wq ad) (a_seq ad)) re re) ->
  match_to thr ad read <> None.
Proof.
  intros Hcmp Hrev Hsir Hm Hk Hb Hkm Hstart Hsr Hsq Hp Hqe Hre Hov Hed Htol.
  assert (Hql : zlen (ad_query ad read) = zlen read).
  { unfold ad_query. destruct (class_upper_first (a_type ad)); [apply zlen_map | reflexivity]. }
  assert (Hmode : stop_in_query (ad_cfg ad) = true \/ start_in_query (ad_cfg ad) = true).
  { unfold ad_cfg, cfg_of, aligner_flags. cbn [stop_in_query start_in_query].
    destruct (a_type ad); destruct (a_force_anywhere ad); vm_compute; auto. }
  assert (Hloc : locate thr (ad_cfg ad) (a_wq ad) (a_seq ad) (ad_query ad read) <> None).
  { apply locate_found with (p := p) (re := re) (qe := qe) (c := c); rewrite ?Hql; auto.
    apply ad_indel_cost_pos. }
  unfold match_to, raw_locate. fold (ad_cfg ad). unfold ad_query in Hloc. unfold uses_comparer in Hcmp.
  destruct (a_type ad); cbn [class_reversed class_upper_first] in *;
    unfold cls_FrontAdapter_reversed, cls_BackAdapter_reversed, cls_AnywhereAdapter_reversed, cls_RightmostFrontAdapter_reversed,
           cls_NonInternalFrontAdapter_reversed, cls_NonInternalBackAdapter_reversed, cls_AnywhereAdapter_upper_first in *;
    try discriminate.
  all: try (destruct (a_indels ad); [|discriminate]).
  all: match goal with |- context [match ?l with Some _ => _ | None => None end] => destruct l as [[[[[[? ?] ?] ?] ?] ?]|] end; [discriminate | contradiction].
Qed.

(** 'rightmost' 5' adapters are aligned on the reversed strings with the flags of a regular 3'
    adapter; in the coordinates of the strings as given: adapter[rs, m) against read[qs, qe), the
    adapter possibly cut off at the beginning of the read (rs > 0 only with qs = 0) *)
Theorem match_to_found_rightmost thr ad read rs qs qe c :
  a_type ad = RightmostFront -> a_force_anywhere ad = false ->
  1 <= zlen (a_seq ad) -> 0 <= thr (zlen (a_seq ad)) -> (forall L, thr L <= thr (zlen (a_seq ad))) -> thr (zlen (a_seq ad)) <= zlen (a_seq ad) ->
  (rs = 0 \/ qs = 0) -> 0 <= qs < qe -> qe <= zlen read -> 0 <= rs <= zlen (a_seq ad) -> a_min_overlap ad <= zlen (a_seq ad) - rs ->
  ed (loc_eqc (ad_cfg ad) (a_wq ad)) (indel_cost (ad_cfg ad))
     (zslice (loc_s1 (ad_cfg ad) (a_wq ad) (a_seq ad)) rs (zlen (a_seq ad))) (zslice (loc_s2 (ad_cfg ad) (a_wq ad) read) qs qe) c ->
  c <= thr (eff_len (ad_cfg ad) (rev (a_seq ad)) (loc_s1 (ad_cfg ad) (a_wq ad) (rev (a_seq ad))) (zlen (a_seq ad) - rs) (zlen (a_seq ad) - rs)) ->
  match_to thr ad read <> None.
Proof.
  intros Hty Hforce Hm Hk Hb Hkm Hpl Hq Hqe Hrs Hov Hed Htol.
  set (m := zlen (a_seq ad)) in *. set (n := zlen read) in *.
  assert (Hzr : zlen (rev (a_seq ad)) = m) by apply zlen_rev.
  assert (Hzq : zlen (rev read) = n) by apply zlen_rev.
  pose proof (loc_s1_len (ad_cfg ad) (a_wq ad) (a_seq ad)) as H1. pose proof (loc_s2_len (ad_cfg ad) (a_wq ad) read) as H2.
  fold m in H1. fold n in H2.
  assert (Hflags : start_in_ref (ad_cfg ad) = false /\ start_in_query (ad_cfg ad) = true /\ stop_in_ref (ad_cfg ad) = true /\ stop_in_query (ad_cfg ad) = true).
  { unfold ad_cfg, cfg_of, aligner_flags. rewrite Hty, Hforce. cbn [start_in_ref start_in_query stop_in_ref stop_in_query]. vm_compute. auto. }
  destruct Hflags as (Fsr & Fsq & Fer & Feq).
  assert (Hloc : locate thr (ad_cfg ad) (a_wq ad) (rev (a_seq ad)) (rev read) <> None).
  { apply locate_found with (p := n - qe) (re := m - rs) (qe := n - qs) (c := c); rewrite ?Hzr, ?Hzq; auto; try lia.
    - apply ad_indel_cost_pos.
    - destruct Hpl as [->| ->]; [left; lia | right; split; [exact Fer | lia]].
    - apply ed_rev in Hed. rewrite loc_s1_rev, loc_s2_rev.
      assert (E1 : zslice (rev (loc_s1 (ad_cfg ad) (a_wq ad) (a_seq ad))) 0 (m - rs) = rev (zslice (loc_s1 (ad_cfg ad) (a_wq ad) (a_seq ad)) rs m)).
      { rewrite <- (rev_involutive (zslice (rev _) 0 (m - rs))). f_equal. rewrite zslice_rev by (rewrite ?H1; lia). rewrite H1. f_equal; lia. }
      assert (E2 : zslice (rev (loc_s2 (ad_cfg ad) (a_wq ad) read)) (n - qe) (n - qs) = rev (zslice (loc_s2 (ad_cfg ad) (a_wq ad) read) qs qe)).
      { rewrite <- (rev_involutive (zslice (rev _) (n - qe) (n - qs))). f_equal. rewrite zslice_rev by (rewrite ?H2; lia). rewrite H2. f_equal; lia. }
      rewrite E1, E2. exact Hed. }
  unfold match_to, raw_locate. fold (ad_cfg ad). rewrite Hty. cbn [class_reversed]. unfold cls_RightmostFrontAdapter_reversed.
  destruct (locate thr (ad_cfg ad) (a_wq ad) (rev (a_seq ad)) (rev read)) as [[[[[[? ?] ?] ?] ?] ?]|]; [discriminate | contradiction].
Qed.

(** helpers for stating concrete instances *)
Lemma ed_mismatches eqc IND : forall a b, length a = length b -> ed eqc IND a b (mismatches eqc a b).
Proof.
  induction a as [|x a IH]; intros [|y b] Hl; try discriminate; cbn [mismatches]; [constructor|].
  injection Hl as Hl. destruct (eqc x y) eqn:E.
  - apply ed_cons_match; [apply IH; exact Hl | exact E].
  - replace (1 + mismatches eqc a b) with (mismatches eqc a b + 1) by lia. apply ed_cons_sub. apply IH. exact Hl.
Qed.

Lemma thr_of_bounds tab lo hi : Forall (fun x => lo <= x <= hi) tab -> lo <= 0 <= hi -> forall L, lo <= thr_of tab L <= hi.
Proof.
  intros Hall H0 L. unfold thr_of, znth. destruct (L <? 0); [exact H0|].
  destruct (nth_in_or_default (Z.to_nat L) tab 0) as [Hin|Hd]; [|rewrite Hd; exact H0].
  rewrite Forall_forall in Hall. apply Hall. exact Hin.
Qed.
