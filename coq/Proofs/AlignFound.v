(** Completeness of the banded DP for occurrences WITH errors (C02), for every alignment that
    cannot skip the beginning of the reference (start_in_ref = false: regular, non-internal and
    anchored 3' adapters, anchored 5' adapters, and the reversed problem of 'rightmost').

    If some admissible alignment of ref[0, re) with query[p, qe) has cost c within the tolerance
    for that length, then Aligner.locate reports a match.  The argument: AlignOpt's invariant says
    every DP cell (capped at k+1) is a lower bound for all admissible alignments ending there, so
    the cell at (re, qe) has cost <= c <= k; such a cell cannot lie beyond the Ukkonen cut-off
    (cells beyond it hold costs > k), so the column loop (re = m) or the last-column scan
    (qe = n) examines it, its origin is >= 0 because the reference start cannot be skipped, hence
    the length it reports is re and the acceptance test succeeds -- unless a candidate has been
    recorded already, which is all that is claimed. *)
From Coq Require Import ZArith List Bool Lia.
From CV Require Import Generated.Tables Generated.Scores Model.Align Proofs.AlignProofs Proofs.AdapterProofs Proofs.AlignDist Proofs.AlignOpt.
Import ListNotations.
Open Scope Z_scope.

Lemma In_indexed_firstn : forall (l : list entry) lo cnt i,
  (i < cnt)%nat -> (i < length l)%nat ->
  In (lo + Z.of_nat i, nth i l dummy) (firstn cnt (combine (zrange lo (length l)) l)).
Proof.
  induction l as [|x l IH]; intros lo cnt i Hc Hl; [cbn in Hl; lia|].
  destruct cnt as [|cnt]; [lia|]. cbn [length zrange combine firstn].
  destruct i as [|i]; [left; f_equal; lia|]. right. cbn [nth].
  replace (lo + Z.of_nat (S i)) with (lo + 1 + Z.of_nat i) by lia. apply IH; cbn in Hl; lia.
Qed.

Section Found.
  Variable eqc : Z -> Z -> bool.
  Variable thr : Z -> Z.
  Variable cfg : acfg.
  Variable rawref : list Z.
  Variable s1 s2 : list Z.

  Notation m := (zlen s1).
  Notation n := (zlen s2).
  Notation k := (thr m).
  Notation IND := (indel_cost cfg).
  Hypothesis IND_pos : 1 <= indel_cost cfg.
  Hypothesis k_nonneg : 0 <= k.
  Hypothesis thr_bound : forall L, thr L <= k.
  Hypothesis sir : start_in_ref cfg = false.
  Hypothesis stop_q : stop_in_query cfg = true.

  Notation SD := (AlignDist.SD eqc thr cfg s1 s2).
  Notation SL := (AlignOpt.SL eqc thr cfg s1 s2).
  Notation LB := (AlignOpt.LB eqc cfg s1 s2).
  Notation adm := (AlignOpt.adm cfg).
  Notation nb := (no_best s1 n).
  Notation ed := (ed eqc IND).

  Hypothesis k_le_m : k <= m.

  Definition has_best (st : lstate) : Prop := b_cost (best st) <> nb.

  (** once a candidate has been recorded, one stays recorded *)
  Lemma column_step_keeps c2 j st : has_best st -> has_best (column_step eqc thr cfg rawref s1 n c2 j st).
  Proof.
    unfold has_best, column_step. intros H. destruct (col st) as [|c0 olds]; [exact H|].
    destruct (fill eqc cfg (Z.to_nat (last st)) c2 s1 olds c0 _ (ovar st)) as [rest ov1].
    destruct (shrink_last thr s1 _ (last st) <? m); [exact H|]. rewrite stop_q.
    match goal with |- context [if ?c then _ else _] => destruct c eqn:Ecnd end; [|exact H].
    cbn [best b_cost]. apply andb_prop in Ecnd. destruct Ecnd as [Eok _]. apply andb_prop in Eok. destruct Eok as [_ Ethr]. apply Z.leb_le in Ethr.
    match type of Ethr with _ <= thr ?L => pose proof (thr_bound L) end. unfold no_best. pose proof (zlen_nonneg s2). lia.
  Qed.

  Lemma columns_keeps : forall qs j st, has_best st -> has_best (columns eqc thr cfg rawref s1 n qs j st).
  Proof.
    induction qs as [|c2 t IH]; intros j st H; cbn [columns]; [exact H|].
    destruct (stopped (column_step eqc thr cfg rawref s1 n c2 j st)); [apply column_step_keeps; exact H | apply IH; apply column_step_keeps; exact H].
  Qed.

  Lemma last_column_keeps ov : forall cells b, b_cost b <> nb -> b_cost (last_column thr cfg rawref s1 n ov cells b) <> nb.
  Proof.
    induction cells as [|[i e] t IH]; intros b H; cbn [last_column]; [exact H|].
    match goal with |- context [if ?c then _ else _] => destruct c eqn:Ecnd end; [|apply IH; exact H].
    apply IH. cbn [b_cost]. apply andb_prop in Ecnd. destruct Ecnd as [Eok _]. apply andb_prop in Eok. destruct Eok as [_ Ethr]. apply Z.leb_le in Ethr.
    match type of Ethr with _ <= thr ?L => pose proof (thr_bound L) end. unfold no_best. pose proof (zlen_nonneg s2). lia.
  Qed.

  (** a cell of the last column that passes the acceptance test leaves a candidate recorded *)
  Lemma last_column_hit ov i e : forall cells b, In (i, e) cells ->
    0 <= origin e -> min_overlap cfg <= i -> cost e <= thr (eff_len cfg rawref s1 i i) ->
    b_cost (last_column thr cfg rawref s1 n ov cells b) <> nb.
  Proof.
    induction cells as [|[i' e'] t IH]; intros b Hin Ho Hov Hc; [contradiction|]. cbn [last_column].
    destruct Hin as [Heq|Hin].
    - injection Heq as -> ->. rewrite Z.min_r by lia. rewrite Z.add_0_r.
      assert (Eok : (min_overlap cfg <=? i) && (cost e <=? thr (eff_len cfg rawref s1 i i)) = true).
      { apply andb_true_intro. split; apply Z.leb_le; assumption. }
      rewrite Eok. cbn [andb].
      destruct (replaces s1 n b ov (score e) i (b_refstop b + Z.min (b_origin b) 0)) eqn:Er.
      + apply last_column_keeps. cbn [b_cost]. pose proof (thr_bound (eff_len cfg rawref s1 i i)). unfold no_best. pose proof (zlen_nonneg s2). lia.
      + apply last_column_keeps. unfold replaces in Er. apply orb_false_iff in Er. destruct Er as [Er _]. apply orb_false_iff in Er. destruct Er as [Er _].
        apply Z.eqb_neq in Er. exact Er.
    - match goal with |- context [if ?c then _ else _] => destruct c end; apply IH; assumption.
  Qed.

  (** ---- the column loop: a cell in row m with cost <= k is examined and accepted *)
  Lemma column_step_records c2 j st :
    SD (j - 1) st ->
    let st' := column_step eqc thr cfg rawref s1 n c2 j st in
    let e := znth dummy (col st') m in
    cost e <= k -> 0 <= origin e -> min_overlap cfg <= m -> cost e <= thr (eff_len cfg rawref s1 m m) ->
    has_best st'.
  Proof.
    intros (Hcol & Hlen & Hlast & HB & Hbest). cbv zeta. unfold column_step.
    destruct (col st) as [|c0 olds] eqn:Ecol; [rewrite zlen_nil in Hlen; pose proof (zlen_nonneg s1); lia|].
    set (new0 := mkE _ _ _).
    pose proof (fill_skip eqc cfg (Z.to_nat (last st)) c2 s1 olds c0 new0 (ovar st)) as Hsk.
    pose proof (fill_ok eqc cfg (Z.to_nat (last st)) c2 s1 olds c0 new0 (ovar st) 1 (j - 1)) as Hfo.
    inversion Hcol as [|i0 e0 l0 Hc0d Holdsd]; subst i0 e0 l0.
    destruct (fill eqc cfg (Z.to_nat (last st)) c2 s1 olds c0 new0 (ovar st)) as [rest ov1] eqn:Efill. cbn [fst] in *.
    assert (Hnew0ok : AlignProofs.ent_ok cfg 0 j new0).
    { destruct Hc0d as ((a & b & c & d) & _). subst new0. unfold AlignProofs.ent_ok in *; cbn [origin] in *.
      destruct (start_in_query cfg); repeat split; intros; try congruence; try lia. }
    assert (Hrlen : length rest = length olds).
    { apply Hfo. - apply (colD_col_ok eqc thr cfg s1 s2). exact Holdsd.
      - replace (1 - 1) with 0 by lia. destruct Hc0d; assumption.
      - replace (1 - 1) with 0 by lia. replace (j - 1 + 1) with j by lia. exact Hnew0ok. }
    assert (Hlen' : zlen (new0 :: rest) = m + 1) by (rewrite zlen_cons in *; unfold zlen in *; lia).
    pose proof (zlen_nonneg s1) as Hm0.
    pose proof (shrink_last_spec thr s1 (new0 :: rest) (last st) ltac:(lia) ltac:(lia)) as Hsh. cbv zeta in Hsh.
    set (l1 := shrink_last thr s1 (new0 :: rest) (last st)) in *. destruct Hsh as (Hl1 & Hl1c & Hl1g).
    destruct (l1 <? m) eqn:El1m.
    - apply Z.ltb_lt in El1m. cbn [col]. intros Hck _ _ _. exfalso.
      assert (He : znth dummy (new0 :: rest) m = nth (Z.to_nat m) (new0 :: rest) dummy).
      { unfold znth. destruct (m <? 0) eqn:E; [lia | reflexivity]. }
      rewrite He in Hck.
      destruct (Z_le_dec m (last st)) as [Hle|Hgt].
      + specialize (Hl1g m ltac:(lia)). lia.
      + assert (Hst : nth (Z.to_nat m) (new0 :: rest) dummy = nth (Z.to_nat m) (c0 :: olds) dummy).
        { replace (Z.to_nat m) with (S (Z.to_nat (m - 1))) by lia. cbn [nth].
          replace (Z.to_nat (m - 1)) with (Z.to_nat (last st) + (Z.to_nat (m - 1) - Z.to_nat (last st)))%nat by lia.
          rewrite <- !nth_skipn. rewrite Hsk. reflexivity. }
        pose proof (Forall_skipn_get (fun e => k < cost e) dummy (c0 :: olds) (Z.to_nat (last st + 1)) (Z.to_nat m) HB
                      ltac:(cbn [length]; unfold zlen in *; cbn [length] in *; lia)) as Hk.
        cbv beta in Hk. rewrite <- Hst in Hk. lia.
    - apply Z.ltb_ge in El1m. rewrite stop_q.
      match goal with |- context [if ?c then _ else _] => destruct c eqn:Ecnd end.
      + cbn [col]. intros _ _ _ _. unfold has_best; cbn [best b_cost].
        apply andb_prop in Ecnd. destruct Ecnd as [Eok _]. apply andb_prop in Eok. destruct Eok as [_ Ethr]. apply Z.leb_le in Ethr.
        match type of Ethr with _ <= thr ?L => pose proof (thr_bound L) end. unfold no_best. pose proof (zlen_nonneg s2). lia.
      + cbn [col]. intros Hck Ho Hov Hc. unfold has_best; cbn [best].
        set (e := znth dummy (new0 :: rest) m) in *.
        rewrite (Z.min_r (origin e) 0) in Ecnd by lia. rewrite Z.add_0_r in Ecnd.
        assert (Eok : (min_overlap cfg <=? m) && (cost e <=? thr (eff_len cfg rawref s1 m m)) = true).
        { apply andb_true_intro. split; apply Z.leb_le; assumption. }
        rewrite Eok in Ecnd. cbn [andb] in Ecnd. unfold replaces in Ecnd.
        apply orb_false_iff in Ecnd. destruct Ecnd as [Ecnd _]. apply orb_false_iff in Ecnd. destruct Ecnd as [Ecnd _].
        apply Z.eqb_neq in Ecnd. exact Ecnd.
  Qed.

  (** ---- an admissible occurrence of ref[0, re) that ends at query position qe *)
  Variables p re qe c : Z.
  Hypothesis occ_adm : p = 0 \/ start_in_query cfg = true.
  Hypothesis occ_range : 0 <= p <= qe /\ qe <= n /\ 0 <= re <= m.
  Hypothesis occ_ed : ed (zslice s1 0 re) (zslice s2 p qe) c.
  Hypothesis occ_tol : c <= thr (eff_len cfg rawref s1 re re).
  Hypothesis occ_ov : min_overlap cfg <= re.

  Lemma occ_cost e : LB re qe (capk thr s1 (cost e)) -> cost e <= c.
  Proof.
    intros H. assert (Ha : adm 0 p).
    { split; [left; reflexivity|]. destruct occ_adm as [->|Hs]; [left; reflexivity | right; split; [exact Hs | reflexivity]]. }
    specialize (H 0 p c Ha ltac:(lia) ltac:(lia) occ_ed). unfold capk in H. pose proof (thr_bound (eff_len cfg rawref s1 re re)). lia.
  Qed.

  Lemma znth_nth (l : list entry) i : 0 <= i -> znth dummy l i = nth (Z.to_nat i) l dummy.
  Proof. intros H. unfold znth. destruct (i <? 0) eqn:E; [lia | reflexivity]. Qed.

  (** the column in which a full-length occurrence ends records a candidate *)
  Lemma column_step_hit c2 j st :
    SD (j - 1) st -> SL (j - 1) st -> 1 <= j <= n -> c2 = znth 0 s2 (j - 1) -> j = qe -> re = m ->
    has_best (column_step eqc thr cfg rawref s1 n c2 j st).
  Proof.
    intros Hsd Hsl Hj Hc2 Hjq Hre.
    destruct (column_step_d eqc thr cfg rawref s1 s2 IND_pos c2 j st Hsd Hj Hc2) as [Hsd' _]. cbv zeta in Hsd'.
    pose proof (column_step_L eqc thr cfg rawref s1 s2 IND_pos k_nonneg c2 j st Hsd Hsl Hj Hc2) as Hsl'.
    pose proof (zlen_nonneg s1) as Hm0.
    apply column_step_records; [exact Hsd| | | |]; cbv zeta.
    all: set (st' := column_step eqc thr cfg rawref s1 n c2 j st) in *.
    all: destruct Hsd' as (HcolD & Hlen & _); destruct Hsl' as (HcolL & _ & _).
    all: rewrite znth_nth by lia.
    all: pose proof (colL_nth eqc thr cfg s1 s2 (col st') j 0 m HcolL ltac:(lia) ltac:(unfold zlen in *; lia)) as HL; replace (0 + m) with re in HL by lia; rewrite Hjq in HL.
    all: pose proof (occ_cost _ HL) as Hcost.
    - pose proof (thr_bound (eff_len cfg rawref s1 re re)). lia.
    - pose proof (colD_nth eqc thr cfg s1 s2 (col st') j 0 m HcolD ltac:(lia) ltac:(unfold zlen in *; lia)) as (Hent & _).
      destruct Hent as (_ & _ & Ho & _). apply Ho. exact sir.
    - lia.
    - rewrite <- Hre. lia.
  Qed.

  Lemma columns_hit : forall qs j st,
    SD (j - 1) st -> SL (j - 1) st -> 1 <= j -> j - 1 < qe -> qe <= j - 1 + zlen qs -> j - 1 + zlen qs <= n -> re = m ->
    qs = firstn (length qs) (skipn (Z.to_nat (j - 1)) s2) ->
    has_best (columns eqc thr cfg rawref s1 n qs j st).
  Proof.
    induction qs as [|c2 t IH]; intros j st Hsd Hsl Hj Hlt Hend Hn Hre Hqs; cbn [columns].
    - assert (Hz : zlen (@nil Z) = 0) by reflexivity. rewrite Hz in Hend. lia.
    - rewrite zlen_cons in *. pose proof (zlen_nonneg t) as Ht.
      cbn [length firstn] in Hqs.
      destruct (skipn (Z.to_nat (j - 1)) s2) as [|x u] eqn:Esk; [discriminate|].
      injection Hqs as Hc2 Htl. destruct (skipn_cons_nth 0 _ _ _ _ Esk) as (Hx & Hu & Hltn).
      assert (Hc2' : c2 = znth 0 s2 (j - 1)).
      { unfold znth. destruct (j - 1 <? 0) eqn:E; [lia|]. congruence. }
      assert (Hjn : 1 <= j <= n) by (unfold zlen in *; lia).
      destruct (column_step_d eqc thr cfg rawref s1 s2 IND_pos c2 j st Hsd Hjn Hc2') as [Hs Hstop]. cbv zeta in Hs, Hstop.
      pose proof (column_step_L eqc thr cfg rawref s1 s2 IND_pos k_nonneg c2 j st Hsd Hsl Hjn Hc2') as HsL.
      destruct (Z.eq_dec j qe) as [Hjq|Hne].
      + pose proof (column_step_hit c2 j st Hsd Hsl Hjn Hc2' Hjq Hre) as Hb.
        destruct (stopped (column_step eqc thr cfg rawref s1 n c2 j st)); [exact Hb | apply columns_keeps; exact Hb].
      + destruct (stopped (column_step eqc thr cfg rawref s1 n c2 j st)) eqn:Est.
        * destruct (Hstop eq_refl) as [H0 _]. unfold has_best. rewrite H0. unfold no_best. pose proof (zlen_nonneg s2). pose proof (zlen_nonneg s1). lia.
        * specialize (IH (j + 1) (column_step eqc thr cfg rawref s1 n c2 j st)). replace (j + 1 - 1) with j in IH by lia.
          assert (Htl' : t = firstn (length t) (skipn (Z.to_nat j) s2)).
          { rewrite Htl at 1. rewrite Hu. do 2 f_equal. lia. }
          apply IH; auto; lia.
  Qed.

  (** ---- the last column: cells beyond last_filled are stale and hold costs > k *)
  Definition FL (st : lstate) : Prop :=
    0 <= last_filled st <= m /\ Forall (fun e => k < cost e) (skipn (Z.to_nat (last_filled st + 1)) (col st)).

  Lemma column_step_FL c2 j st : SD (j - 1) st -> FL (column_step eqc thr cfg rawref s1 n c2 j st).
  Proof.
    intros (Hcol & Hlen & Hlast & HB & Hbest). unfold column_step.
    destruct (col st) as [|c0 olds] eqn:Ecol; [rewrite zlen_nil in Hlen; pose proof (zlen_nonneg s1); lia|].
    set (new0 := mkE _ _ _).
    pose proof (fill_skip eqc cfg (Z.to_nat (last st)) c2 s1 olds c0 new0 (ovar st)) as Hsk.
    destruct (fill eqc cfg (Z.to_nat (last st)) c2 s1 olds c0 new0 (ovar st)) as [rest ov1] eqn:Efill. cbn [fst] in *.
    assert (Hgoal : 0 <= last st <= m /\ Forall (fun e => k < cost e) (skipn (Z.to_nat (last st + 1)) (new0 :: rest))).
    { split; [exact Hlast|]. replace (Z.to_nat (last st + 1)) with (S (Z.to_nat (last st))) in * by lia. cbn [skipn] in *. rewrite Hsk. exact HB. }
    destruct (shrink_last thr s1 (new0 :: rest) (last st) <? m); [exact Hgoal|].
    destruct (stop_in_query cfg); [|exact Hgoal].
    match goal with |- context [if ?c then _ else _] => destruct c end; exact Hgoal.
  Qed.

  Lemma columns_FL : forall qs j st,
    SD (j - 1) st -> 1 <= j -> j - 1 + zlen qs <= n -> qs = firstn (length qs) (skipn (Z.to_nat (j - 1)) s2) ->
    qs <> [] \/ FL st -> FL (columns eqc thr cfg rawref s1 n qs j st).
  Proof.
    induction qs as [|c2 t IH]; intros j st Hsd Hj Hn Hqs Hor; cbn [columns].
    - destruct Hor as [H|H]; [contradiction | exact H].
    - rewrite zlen_cons in *. pose proof (zlen_nonneg t) as Ht.
      cbn [length firstn] in Hqs.
      destruct (skipn (Z.to_nat (j - 1)) s2) as [|x u] eqn:Esk; [discriminate|].
      injection Hqs as Hc2 Htl. destruct (skipn_cons_nth 0 _ _ _ _ Esk) as (Hx & Hu & Hltn).
      assert (Hc2' : c2 = znth 0 s2 (j - 1)).
      { unfold znth. destruct (j - 1 <? 0) eqn:E; [lia|]. congruence. }
      assert (Hjn : 1 <= j <= n) by (unfold zlen in *; lia).
      destruct (column_step_d eqc thr cfg rawref s1 s2 IND_pos c2 j st Hsd Hjn Hc2') as [Hs _]. cbv zeta in Hs.
      pose proof (column_step_FL c2 j st Hsd) as Hfl.
      destruct (stopped (column_step eqc thr cfg rawref s1 n c2 j st)); [exact Hfl|].
      specialize (IH (j + 1) (column_step eqc thr cfg rawref s1 n c2 j st)). replace (j + 1 - 1) with j in IH by lia.
      apply IH; auto; try lia. rewrite Htl at 1. rewrite Hu. do 2 f_equal. lia.
  Qed.
End Found.
