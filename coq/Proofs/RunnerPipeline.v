(** The runner protocol instantiated with the pipeline model: a chunk is a list of reads, the block a
    worker returns for a chunk is what the one-core run over that chunk writes to destination [d],
    the statistics of a chunk are its record count. *)
From Coq Require Import ZArith List Bool Arith Lia.
From CV Require Import Model.Base Model.Pipeline Model.Runner Proofs.PipelineProofs Proofs.RunnerSafety Proofs.RunnerLive Proofs.RunnerStats.
Import ListNotations.

Section RP.
  Variable order : list kind.
  Variable forder : list fkind.
  Variable o : options.
  Variable d : Z.
  Variable chunks : list (list read).
  Variable W : nat.
  Variable bad : nat -> bool.
  Variable rfail : option nat.
  Variable ffail : bool.

  Definition block (c : list read) : list read := records_of d (rep_files (Pipeline.run order forder o c)).
  Definition cstat (c : list read) : Z := rep_n (Pipeline.run order forder o c).

  (** under every schedule and every fault pattern: the records written to destination [d] so far
      are exactly what one core writes there for the reads of the first [cur] chunks *)
  Theorem multicore_written_prefix s :
    reachable (list read) (list read) Z block cstat 0%Z Z.add chunks W bad rfail ffail s ->
    concat (written s) = records_of d (rep_files (Pipeline.run order forder o (concat (firstn (cur s) chunks)))) /\
    (cur s <= length chunks)%nat.
  Proof.
    intros Hr. destruct (written_is_prefix _ _ _ _ _ _ _ _ _ _ _ _ s Hr) as [Hw Hc]. split; [|exact Hc].
    rewrite Hw, files_chunked. reflexivity.
  Qed.

  Lemma gi_map {X Y} (h : X -> Y) (z : Y) : forall (l : list X) (k : nat),
    map (fun i => match nth_error l (i - k)%nat with Some c => h c | None => z end) (seq k (length l)) = map h l.
  Proof.
    induction l as [|x t IH]; intros k; [reflexivity|]. cbn [length seq map]. rewrite Nat.sub_diag. cbn [nth_error]. f_equal.
    rewrite <- (IH (Datatypes.S k)). apply map_ext_in. intros i Hi. apply in_seq in Hi.
    replace (i - k)%nat with (Datatypes.S (i - Datatypes.S k))%nat by lia. reflexivity.
  Qed.

  Lemma fold_cstat : forall l : list (list read),
    fold_right Z.add 0%Z (map cstat l) = zsum_map (fun c => rep_n (Pipeline.run order forder o c)) l.
  Proof. induction l as [|c t IH]; [reflexivity|]. cbn [map fold_right]. rewrite zsum_map_cons, IH. reflexivity. Qed.

  Lemma total_stats_counts : total_stats (list read) Z cstat 0%Z Z.add chunks = rep_n (Pipeline.run order forder o (concat chunks)).
  Proof.
    unfold total_stats, gi, ssum. rewrite counts_chunked.
    assert (E : map (fun i => match nth_error chunks i with Some c => cstat c | None => 0%Z end) (seq 0 (length chunks)) = map cstat chunks).
    { rewrite <- (gi_map cstat 0%Z chunks 0). apply map_ext. intros i. rewrite Nat.sub_0_r. reflexivity. }
    rewrite E. apply fold_cstat.
  Qed.

  (** any number of workers, any chunking, any schedule: a run that finishes has written to
      destination [d] exactly what one core writes there for the whole input, and the merged record
      count is the one-core count *)
  Theorem multicore_final s : (0 < W)%nat ->
    reachable (list read) (list read) Z block cstat 0%Z Z.add chunks W bad rfail ffail s -> finished_ok s = true ->
    concat (written s) = records_of d (rep_files (Pipeline.run order forder o (concat chunks))) /\
    macc s = rep_n (Pipeline.run order forder o (concat chunks)).
  Proof.
    intros HW Hr Hf.
    destruct (finished_stats_total (list read) (list read) Z block cstat 0%Z Z.add chunks W bad rfail ffail s HW
                ltac:(intros; lia) ltac:(intros; lia) ltac:(intros; lia) Hr Hf) as [Hw Hm].
    split; [rewrite Hw, files_chunked; reflexivity | rewrite Hm; apply total_stats_counts].
  Qed.
End RP.

(** the same for paired-end data: a chunk is a list of pairs *)
From CV Require Import Model.Paired Proofs.PairedProofs.
Section RPP.
  Variable order : list kind.
  Variable forder : list fkind.
  Variable p : poptions.
  Variable d : Z.
  Variable chunks : list (list (read * read)).
  Variable W : nat.
  Variable bad : nat -> bool.
  Variable rfail : option nat.
  Variable ffail : bool.

  Definition pblock (c : list (read * read)) : list (read * read) := precords_of d (pr_files (prun order forder p c)).
  Definition pcstat (c : list (read * read)) : Z := pr_n (prun order forder p c).

  Lemma fold_pcstat : forall l : list (list (read * read)),
    fold_right Z.add 0%Z (map pcstat l) = zsum_map (fun c => pr_n (prun order forder p c)) l.
  Proof. induction l as [|c t IH]; [reflexivity|]. cbn [map fold_right]. rewrite zsum_map_cons, IH. reflexivity. Qed.

  Theorem multicore_final_paired s : (0 < W)%nat ->
    reachable (list (read * read)) (list (read * read)) Z pblock pcstat 0%Z Z.add chunks W bad rfail ffail s -> finished_ok s = true ->
    concat (written s) = precords_of d (pr_files (prun order forder p (concat chunks))) /\
    macc s = pr_n (prun order forder p (concat chunks)).
  Proof.
    intros HW Hr Hf.
    destruct (finished_stats_total (list (read * read)) (list (read * read)) Z pblock pcstat 0%Z Z.add chunks W bad rfail ffail s HW
                ltac:(intros; lia) ltac:(intros; lia) ltac:(intros; lia) Hr Hf) as [Hw Hm].
    split; [rewrite Hw, pair_files_chunked; reflexivity|].
    rewrite Hm. unfold total_stats, gi, ssum. rewrite pair_counts_chunked.
    assert (E : map (fun i => match nth_error chunks i with Some c => pcstat c | None => 0%Z end) (seq 0 (length chunks)) = map pcstat chunks).
    { rewrite <- (gi_map pcstat 0%Z chunks 0). apply map_ext. intros i. rewrite Nat.sub_0_r. reflexivity. }
    rewrite E. apply fold_pcstat.
  Qed.
End RPP.
