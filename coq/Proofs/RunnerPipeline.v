(** The runner protocol instantiated with the pipeline model: a chunk is a list of reads, the block a
    worker returns for a chunk is what the one-core run over that chunk writes to destination [d],
    the statistics of a chunk are its record count. *)
From Coq Require Import ZArith List Bool Arith Lia.
From CV Require Import Model.Base Model.Pipeline Model.Runner Proofs.PipelineProofs Proofs.RunnerSafety.
Import ListNotations.

Section RP.
  Variable order : list kind.
  Variable forder : list fkind.
  Variable o : options.
  Variable d : Z.
  Variable chunks : list (list read).
  Variable W : nat.
  Variable bad : nat -> bool.
  Variable rfail : option nat.
  Variable ffail : bool.

  Definition block (c : list read) : list read := records_of d (rep_files (Pipeline.run order forder o c)).
  Definition cstat (c : list read) : Z := rep_n (Pipeline.run order forder o c).

  (** under every schedule and every fault pattern: the records written to destination [d] so far
      are exactly what one core writes there for the reads of the first [cur] chunks *)
  Theorem multicore_written_prefix s :
    reachable (list read) (list read) Z block cstat 0%Z Z.add chunks W bad rfail ffail s ->
    concat (written s) = records_of d (rep_files (Pipeline.run order forder o (concat (firstn (cur s) chunks)))) /\
    (cur s <= length chunks)%nat.
  Proof.
    intros Hr. destruct (written_is_prefix _ _ _ _ _ _ _ _ _ _ _ _ s Hr) as [Hw Hc]. split; [|exact Hc].
    rewrite Hw, files_chunked. reflexivity.
  Qed.
End RP.
