(** The 4x-unrolled, four-accumulator loop of expected_errors_from_phreds
    computes, in exact arithmetic, the plain sum of the table values -- for
    every length (the tail of 0..3 bytes is the delicate case) and every table;
    and it reports the error value exactly when some byte is outside
    base..126. *)
From Coq Require Import ZArith List Bool Lia ZifyBool.
From CV Require Import Model.ExpErr.
Import ListNotations.
Open Scope Z_scope.

Section ZInstance.
  Variable tbl : Z -> Z.
  Variable base : Z.

  Notation tail := (ee_tail Z Z.add tbl base).
  Notation loop := (ee_loop Z Z.add tbl base).
  Notation psum := (plain_sum Z 0 Z.add tbl base).

  Lemma ee_tail_spec l : forall e0,
    tail l e0 = if existsb (bad base) l then None else Some (e0 + psum l).
  Proof.
    induction l as [|b l IH]; intros e0; cbn [ee_tail existsb plain_sum].
    - f_equal. lia.
    - destruct (bad base b); cbn [orb]; [reflexivity|]. rewrite IH.
      destruct (existsb (bad base) l); [reflexivity|]. f_equal. lia.
  Qed.

  Lemma ee_loop_spec n : forall l e0 e1 e2 e3, (length l <= n)%nat ->
    loop l e0 e1 e2 e3 =
      if existsb (bad base) l then None else Some (e0 + e1 + e2 + e3 + psum l).
  Proof.
    induction n as [|n IH]; intros l e0 e1 e2 e3 Hl.
    - destruct l; [|cbn in Hl; lia]. cbn. f_equal. lia.
    - destruct l as [|a [|b [|c [|d rest]]]].
      + cbn. f_equal. lia.
      + cbn [ee_loop]. rewrite ee_tail_spec. destruct (existsb (bad base) [a]); [reflexivity|]. f_equal. lia.
      + cbn [ee_loop]. rewrite ee_tail_spec. destruct (existsb (bad base) [a; b]); [reflexivity|]. f_equal. lia.
      + cbn [ee_loop]. rewrite ee_tail_spec. destruct (existsb (bad base) [a; b; c]); [reflexivity|]. f_equal. lia.
      + cbn [ee_loop existsb plain_sum].
        destruct (bad base a); cbn [orb]; [reflexivity|].
        destruct (bad base b); cbn [orb]; [reflexivity|].
        destruct (bad base c); cbn [orb]; [reflexivity|].
        destruct (bad base d); cbn [orb]; [reflexivity|].
        rewrite IH by (cbn [length] in Hl; lia).
        destruct (existsb (bad base) rest); [reflexivity|]. f_equal. lia.
  Qed.

  Theorem expected_errors_is_plain_sum quals :
    expected_errors Z 0 Z.add tbl base quals =
      if existsb (bad base) quals then None else Some (psum quals).
  Proof.
    unfold expected_errors. rewrite (ee_loop_spec (length quals)) by lia.
    destruct (existsb (bad base) quals); [reflexivity|]. f_equal.
  Qed.
End ZInstance.

(** a byte is rejected exactly when it lies outside base..126 (33 <= base <= 126, bytes 0..255) *)
Ltac Zify.zify_post_hook ::= Z.to_euclidean_division_equations.

Lemma bad_iff base b : 0 <= base <= 126 -> 0 <= b < 256 ->
  bad base b = true <-> (b < base \/ 126 < b).
Proof.
  intros Hb Hc. unfold bad, phred, max_phred. lia.
Qed.

Lemma phred_ok base b : 0 <= base <= 126 -> base <= b <= 126 -> phred base b = b - base.
Proof. intros Hb Hc. unfold phred. lia. Qed.

(** the integer table is the decimal table over the common denominator *)
From Coq Require Import QArith.
From CV Require Import Generated.EETable Model.ExpErrInst.

Definition same_entry (z : Z) (q : Q) : bool := Qeq_bool (inject_Z z) (q * inject_Z ee_scale).

Fixpoint forallb2 {A B} (f : A -> B -> bool) (a : list A) (b : list B) : bool :=
  match a, b with
  | [], [] => true
  | x :: a', y :: b' => f x y && forallb2 f a' b'
  | _, _ => false
  end.

Lemma ee_table_z_is_q : forallb2 same_entry ee_table_z ee_table_q = true.
Proof. vm_compute. reflexivity. Qed.

Lemma ee_table_lengths : length ee_table_z = 94%nat /\ length ee_table_q = 94%nat /\ length ee_table_f = 94%nat.
Proof. repeat split; vm_compute; reflexivity. Qed.

Theorem expected_errors_z_spec base quals :
  expected_errors_z base quals =
    if existsb (bad base) quals then None else Some (plain_sum Z 0%Z Z.add tbl_z base quals).
Proof. apply expected_errors_is_plain_sum. Qed.
