(** Blanks in the adapter notation (C18): the parser strips white space around every parameter field, around the key and
    around the value; the printed parameter fields of ParserRoundTrip.v, padded with blanks at those places, are parsed to the
    same key/value pairs. *)
From Coq Require Import ZArith QArith List Bool Lia.
From CV Require Import Model.Base Model.Align Model.Adapters Model.Parser Proofs.ParserProofs Proofs.ParserRoundTrip.
Import ListNotations.
Open Scope Z_scope.

Definition blanks (s : str) : bool := forallb is_space s.
Definition head_ok (s : str) : Prop := match s with c :: _ => is_space c = false | [] => False end.

Lemma lstrip_blanks b s : blanks b = true -> lstrip (b ++ s) = lstrip s.
Proof.
  induction b as [|c t IH]; intros H; [reflexivity|]. cbn in H. apply andb_prop in H. destruct H as [Hc Ht].
  cbn [app lstrip]. rewrite Hc. apply IH, Ht.
Qed.

Lemma blanks_rev b : blanks b = true -> blanks (rev b) = true.
Proof. unfold blanks. rewrite !forallb_forall. intros H x Hx. apply H. now apply in_rev. Qed.

Lemma blanks_app a b : blanks (a ++ b) = blanks a && blanks b.
Proof. apply forallb_app. Qed.

Lemma lstrip_head_ok s : head_ok s -> lstrip s = s.
Proof. destruct s as [|c t]; cbn; [tauto|]. intros ->. reflexivity. Qed.

Lemma head_ok_app a b : head_ok a -> head_ok (a ++ b).
Proof. destruct a; cbn; tauto. Qed.

Lemma nospace_head_ok s : nospace s = true -> s <> [] -> head_ok s.
Proof.
  destruct s as [|c t]; [congruence|]. cbn. intros H _. apply andb_prop in H. destruct H as [H _]. now apply negb_true_iff in H.
Qed.

Lemma rev_nonempty' (s : str) : s <> [] -> rev s <> [].
Proof. intros H E. apply H. apply (f_equal (@rev Z)) in E. rewrite rev_involutive in E. exact E. Qed.

Theorem strip_padded b1 s b2 : blanks b1 = true -> blanks b2 = true -> head_ok s -> head_ok (rev s) -> strip (b1 ++ s ++ b2) = s.
Proof.
  intros H1 H2 Hs Hr. unfold strip. rewrite lstrip_blanks by exact H1.
  rewrite (lstrip_head_ok (s ++ b2)) by (now apply head_ok_app).
  rewrite rev_app_distr. rewrite lstrip_blanks by (apply blanks_rev, H2).
  rewrite (lstrip_head_ok _ Hr). apply rev_involutive.
Qed.

Lemma blanks_no_char c b : is_space c = false -> blanks b = true -> ~ In c b.
Proof. intros Hc H Hin. unfold blanks in H. rewrite forallb_forall in H. specialize (H c Hin). congruence. Qed.

(** key [blanks] = [blanks] number, with blanks around the whole field *)
Lemma padded_value_field key_s key val num pb pk pv pa rest acc :
  nospace key_s = true -> key_s <> [] -> ~ In 61 key_s -> lookup_key key_s key_table = Some key ->
  nospace num = true -> num <> [] -> parse_number num = Some val ->
  blanks pb = true -> blanks pk = true -> blanks pv = true -> blanks pa = true -> has_key key acc = false ->
  parse_fields ((pb ++ (key_s ++ pk ++ 61 :: pv ++ num) ++ pa) :: rest) acc = parse_fields rest (acc ++ [(key, val)]).
Proof.
  intros Hs Hne H61 Hl Hns Hnn Hp B1 B2 B3 B4 Hk. cbn [parse_fields].
  set (body := key_s ++ pk ++ 61 :: pv ++ num).
  assert (head_ok body) as Hb1 by (apply head_ok_app, nospace_head_ok; assumption).
  assert (head_ok (rev body)) as Hb2.
  { unfold body. rewrite !rev_app_distr. cbn [rev]. rewrite !rev_app_distr. rewrite <- !app_assoc.
    apply head_ok_app, nospace_head_ok; [now apply nospace_rev | now apply rev_nonempty']. }
  rewrite strip_padded by assumption.
  destruct body as [|c0 t0] eqn:Eb; [destruct Hb1|]. rewrite <- Eb. unfold body.
  rewrite app_assoc. rewrite partition_found.
  2:{ intros H. apply in_app_or in H. destruct H as [H|H]; [now apply H61 | revert H; apply blanks_no_char; [reflexivity | exact B2]]. }
  assert (strip (key_s ++ pk) = key_s) as ->.
  { rewrite <- (app_nil_l (key_s ++ pk)). apply strip_padded; [reflexivity | exact B2 | now apply nospace_head_ok |].
    apply nospace_head_ok; [now apply nospace_rev | now apply rev_nonempty']. }
  rewrite Hl.
  destruct (pv ++ num) as [|c1 t1] eqn:En; [apply app_eq_nil in En; destruct En; congruence|]. rewrite <- En. cbn [andb].
  assert (strip (pv ++ num) = num) as ->.
  { rewrite <- (app_nil_r (pv ++ num)), <- app_assoc. apply strip_padded; [exact B3 | reflexivity | now apply nospace_head_ok |].
    apply nospace_head_ok; [now apply nospace_rev | now apply rev_nonempty']. }
  destruct num as [|c2 t2]; [congruence|]. cbv iota. rewrite Hp, Hk. reflexivity.
Qed.

(** a flag: key with blanks around it *)
Lemma padded_flag_field key_s key pb pa rest acc :
  nospace key_s = true -> key_s <> [] -> ~ In 61 key_s -> lookup_key key_s key_table = Some key ->
  blanks pb = true -> blanks pa = true -> has_key key acc = false ->
  parse_fields ((pb ++ key_s ++ pa) :: rest) acc = parse_fields rest (acc ++ [(key, VTrue)]).
Proof.
  intros Hs Hne H61 Hl B1 B4 Hk. cbn [parse_fields].
  rewrite strip_padded; [| exact B1 | exact B4 | now apply nospace_head_ok | apply nospace_head_ok; [now apply nospace_rev | now apply rev_nonempty']].
  destruct key_s as [|c0 t0] eqn:Es; [congruence|]. rewrite <- Es in *.
  rewrite partition_absent by exact H61. rewrite (strip_nospace _ Hs), Hl. cbn [andb strip lstrip rev]. rewrite Hk. reflexivity.
Qed.

Record pads := mkP { p_before : str; p_after_key : str; p_before_val : str; p_after : str }.
Definition wf_pads (p : pads) : Prop :=
  blanks (p_before p) = true /\ blanks (p_after_key p) = true /\ blanks (p_before_val p) = true /\ blanks (p_after p) = true.

Definition show_field_padded (fp : field * pads) : str :=
  let '(f, p) := fp in
  match f_val f with
  | PFlag => p_before p ++ f_spelling f ++ p_after p
  | v => p_before p ++ (f_spelling f ++ p_after_key p ++ 61 :: p_before_val p ++ show_num v) ++ p_after p
  end.

Lemma parse_fields_step_padded f p rest acc : wf_field f -> wf_pads p -> has_key (f_key f) acc = false ->
  parse_fields (show_field_padded (f, p) :: rest) acc = parse_fields rest (acc ++ [meaning f]).
Proof.
  intros Hw (P1 & P2 & P3 & P4) Hk. pose proof Hw as [Hin Hv]. destruct (spelling_props _ _ Hin) as (H61 & _ & Hs & Hne & Hl).
  unfold show_field_padded, meaning. destruct (f_val f) as [|ds|a b] eqn:Ev.
  - now apply padded_flag_field.
  - apply padded_value_field; try assumption.
    + now apply show_num_nospace.
    + apply show_num_nonempty; [exact Hv | discriminate].
    + apply parse_show_num; [exact Hv | discriminate].
  - apply padded_value_field; try assumption.
    + now apply show_num_nospace.
    + apply show_num_nonempty; [exact Hv | discriminate].
    + apply parse_show_num; [exact Hv | discriminate].
Qed.

Lemma parse_fields_padded : forall fps acc, Forall (fun fp => wf_field (fst fp) /\ wf_pads (snd fp)) fps ->
  NoDup (map (fun fp => f_key (fst fp)) fps) ->
  (forall fp, In fp fps -> has_key (f_key (fst fp)) acc = false) ->
  parse_fields (map show_field_padded fps) acc = Ok (acc ++ map (fun fp => meaning (fst fp)) fps).
Proof.
  induction fps as [|[f p] t IH]; intros acc Hw Hnd Hacc; cbn [map]; [cbn; rewrite app_nil_r; reflexivity|].
  inversion Hw as [|? ? [Hwf Hwp] Hwt]; subst. inversion Hnd as [|? ? Hnin Hndt]; subst. cbn [fst snd] in *.
  rewrite parse_fields_step_padded; [| exact Hwf | exact Hwp | apply (Hacc (f, p)); now left].
  rewrite IH; [rewrite <- app_assoc; reflexivity | exact Hwt | exact Hndt |].
  intros g Hg. rewrite has_key_app. rewrite Hacc by (now right). cbn.
  destruct (pkey_eqb (f_key (fst g)) (f_key f)) eqn:E; [|reflexivity].
  apply pkey_eqb_eq in E. exfalso. apply Hnin. rewrite <- E. now apply (in_map (fun fp => f_key (fst fp))).
Qed.

(** blanks never contain ';' : the padded fields joined by ';' split into themselves *)
Lemma padded_no59 f p : wf_field f -> wf_pads p -> ~ In 59 (show_field_padded (f, p)).
Proof.
  intros Hw (P1 & P2 & P3 & P4). pose proof Hw as [Hin Hv]. destruct (spelling_props _ _ Hin) as (_ & H59 & _ & _ & _).
  assert (forall b, blanks b = true -> ~ In 59 b) as Bn by (intros b Hb; apply blanks_no_char; [reflexivity | exact Hb]).
  unfold show_field_padded. intros H.
  destruct (f_val f) as [|ds|a b] eqn:Ev.
  - apply in_app_or in H. destruct H as [H|H]; [now apply (Bn _ P1)|]. apply in_app_or in H. destruct H as [H|H]; [now apply H59 | now apply (Bn _ P4)].
  - repeat (apply in_app_or in H; destruct H as [H|H]); try (now apply (Bn _ P1)); try (now apply H59); try (now apply (Bn _ P2)); try (now apply (Bn _ P4)).
    destruct H as [H|H]; [discriminate|]. apply in_app_or in H. destruct H as [H|H]; [now apply (Bn _ P3)|].
    revert H. apply (show_num_no59 (PInt ds)). exact Hv.
  - repeat (apply in_app_or in H; destruct H as [H|H]); try (now apply (Bn _ P1)); try (now apply H59); try (now apply (Bn _ P2)); try (now apply (Bn _ P4)).
    destruct H as [H|H]; [discriminate|]. apply in_app_or in H. destruct H as [H|H]; [now apply (Bn _ P3)|].
    revert H. apply (show_num_no59 (PDec a b)). exact Hv.
Qed.

Definition pspec_padded (fps : list (field * pads)) : str :=
  match fps with [] => [] | fp :: t => show_field_padded fp ++ concat (map (fun g => 59 :: show_field_padded g) t) end.

Lemma split_joined_padded : forall t fp cur, Forall (fun fp => wf_field (fst fp) /\ wf_pads (snd fp)) (fp :: t) ->
  split_on 59 (show_field_padded fp ++ concat (map (fun g => 59 :: show_field_padded g) t)) cur
  = (rev cur ++ show_field_padded fp) :: map show_field_padded t.
Proof.
  induction t as [|g t IH]; intros [f p] cur Hw; inversion Hw as [|? ? [Hf Hp] Ht]; subst; cbn [map concat app fst snd] in *.
  - rewrite app_nil_r. rewrite split_on_absent by (now apply padded_no59). reflexivity.
  - rewrite split_on_found by (now apply padded_no59). rewrite IH by exact Ht. reflexivity.
Qed.

Theorem parse_search_parameters_padded fps : Forall (fun fp => wf_field (fst fp) /\ wf_pads (snd fp)) fps ->
  NoDup (map (fun fp => f_key (fst fp)) fps) ->
  parse_search_parameters (pspec_padded fps) = post_params (map (fun fp => meaning (fst fp)) fps).
Proof.
  intros Hw Hnd. unfold parse_search_parameters.
  assert (parse_fields (split 59 (pspec_padded fps)) [] = Ok (map (fun fp => meaning (fst fp)) fps)) as ->; [|reflexivity].
  destruct fps as [|fp t]; [reflexivity|]. unfold split, pspec_padded. rewrite split_joined_padded by exact Hw. cbn [rev app].
  change (show_field_padded fp :: map show_field_padded t) with (map show_field_padded (fp :: t)).
  rewrite parse_fields_padded; [reflexivity | exact Hw | exact Hnd | reflexivity].
Qed.

(** " e = 0.15 ;noindels " *)
Example padded_example :
  parse_search_parameters (pspec_padded [(mkF [101] KMaxErrors (PDec [48] [49;53]), mkP [32] [32] [32] [32]);
                                         (mkF [110;111;105;110;100;101;108;115] KNoIndels PFlag, mkP [] [] [] [32])])
  = Ok [(KIndels, VInt 0); (KMaxErrors, VDec 15 2)]
  /\ pspec_padded [(mkF [101] KMaxErrors (PDec [48] [49;53]), mkP [32] [32] [32] [32]);
                   (mkF [110;111;105;110;100;101;108;115] KNoIndels PFlag, mkP [] [] [] [32])]
     = [32;101;32;61;32;48;46;49;53;32;59;110;111;105;110;100;101;108;115;32].
Proof. split; vm_compute; reflexivity. Qed.

(** ---- the whole specification with blanks: around the name, around the sequence part, around every parameter field *)
Record spads := mkSP { n_before : str; n_after : str; b_before : str; b_after : str }.
Definition wf_spads (p : spads) : Prop :=
  blanks (n_before p) = true /\ blanks (n_after p) = true /\ blanks (b_before p) = true /\ blanks (b_after p) = true.

Definition wf_name_padded (n : str) : Prop := head_ok n /\ head_ok (rev n) /\ ~ In 61 n /\ ~ In 59 n.

Definition name_part (name : option str) (p : spads) : str :=
  match name with Some n => n_before p ++ n ++ n_after p ++ [61] | None => [] end.

Lemma parse_spec_generic_padded name p pb fps t eb fr br core :
  match name with Some n => wf_name_padded n | None => True end -> wf_spads p ->
  nospace pb = true -> pb <> [] -> ~ In 59 pb -> ~ In 61 pb ->
  Forall (fun fp => wf_field (fst fp) /\ wf_pads (snd fp)) fps -> NoDup (map (fun fp => f_key (fst fp)) fps) ->
  expand_braces pb = Ok eb -> all_x eb = false -> parse_restrictions eb = Ok (fr, br, core) ->
  parse_spec ((name_part name p ++ b_before p ++ pb ++ b_after p) ++
              match fps with [] => [] | _ => 59 :: pspec_padded fps end) t =
  match post_params (map (fun fp => meaning (fst fp)) fps) with
  | Err => Err
  | Ok ps => finish name fr br core ps t
  end.
Proof.
  intros Hn (N1 & N2 & B1 & B2) Bs Bne B59 B61 Hf Hnd Hex Hax Hpr. unfold parse_spec.
  assert (forall c b, is_space c = false -> blanks b = true -> ~ In c b) as Bn by (intros; now apply blanks_no_char).
  set (left := name_part name p ++ b_before p ++ pb ++ b_after p).
  assert (~ In 59 left) as L59.
  { unfold left, name_part. intros H. apply in_app_or in H. destruct H as [H|H].
    - destruct name as [n|]; [|destruct H]. destruct Hn as (_ & _ & _ & Hn59).
      repeat (apply in_app_or in H; destruct H as [H|H]); try (now apply (Bn 59 _ eq_refl N1)); try (now apply Hn59); try (now apply (Bn 59 _ eq_refl N2)).
      destruct H as [H|[]]. discriminate.
    - repeat (apply in_app_or in H; destruct H as [H|H]); try (now apply (Bn 59 _ eq_refl B1)); try (now apply B59); now apply (Bn 59 _ eq_refl B2). }
  assert (partition [59] (left ++ match fps with [] => [] | _ => 59 :: pspec_padded fps end)
          = (left, match fps with [] => false | _ => true end, pspec_padded fps)) as P1.
  { destruct fps as [|fp fps']; [rewrite app_nil_r; now apply partition_absent | now apply partition_found]. }
  rewrite P1. rewrite parse_search_parameters_padded by assumption.
  assert (head_ok pb) as Hb1 by (now apply nospace_head_ok).
  assert (head_ok (rev pb)) as Hb2 by (apply nospace_head_ok; [now apply nospace_rev | now apply rev_nonempty']).
  assert ((let '(name0, body0) :=
             match partition [61] left with
             | (n, true, rest) => (Some (strip n), strip rest)
             | (b, false, _) => (None, strip b)
             end in (name0, body0)) = (name, pb)) as P2.
  { unfold left, name_part. destruct name as [n|].
    - destruct Hn as (Hh1 & Hh2 & Hn61 & _).
      replace ((n_before p ++ n ++ n_after p ++ [61]) ++ b_before p ++ pb ++ b_after p)
        with ((n_before p ++ n ++ n_after p) ++ 61 :: b_before p ++ pb ++ b_after p) by (rewrite <- !app_assoc; reflexivity).
      rewrite partition_found.
      2:{ intros H. repeat (apply in_app_or in H; destruct H as [H|H]); [now apply (Bn 61 _ eq_refl N1) | now apply Hn61 | now apply (Bn 61 _ eq_refl N2)]. }
      rewrite !strip_padded by assumption. reflexivity.
    - cbn [app]. rewrite partition_absent.
      2:{ intros H. repeat (apply in_app_or in H; destruct H as [H|H]); [now apply (Bn 61 _ eq_refl B1) | now apply B61 | now apply (Bn 61 _ eq_refl B2)]. }
      rewrite strip_padded by assumption. reflexivity. }
  destruct (match partition [61] left with
            | (n, true, rest) => (Some (strip n), strip rest)
            | (b, false, _) => (None, strip b)
            end) as [name0 body0]. injection P2 as -> ->.
  destruct (post_params (map (fun fp => meaning (fst fp)) fps)) as [ps|]; [|reflexivity].
  rewrite Hex, Hax, Hpr. unfold finish. reflexivity.
Qed.

Record sast_padded := mkAP { sp_ast_name : option str; sp_ast_mark : mark; sp_ast_core : str; sp_ast_fields : list (field * pads); sp_ast_pads : spads }.

Definition wf_sast_padded (a : sast_padded) : Prop :=
  match sp_ast_name a with Some n => wf_name_padded n | None => True end /\ wf_spads (sp_ast_pads a) /\
  wf_mark (sp_ast_mark a) /\ wf_core (sp_ast_core a) /\
  Forall (fun fp => wf_field (fst fp) /\ wf_pads (snd fp)) (sp_ast_fields a) /\ NoDup (map (fun fp => f_key (fst fp)) (sp_ast_fields a)).

Definition show_sast_padded (a : sast_padded) : str :=
  (name_part (sp_ast_name a) (sp_ast_pads a) ++ b_before (sp_ast_pads a) ++ show_marked (sp_ast_mark a) (sp_ast_core a) ++ b_after (sp_ast_pads a)) ++
  match sp_ast_fields a with [] => [] | _ => 59 :: pspec_padded (sp_ast_fields a) end.

Theorem parse_spec_printed_padded a t : wf_sast_padded a ->
  parse_spec (show_sast_padded a) t =
  match post_params (map (fun fp => meaning (fst fp)) (sp_ast_fields a)) with
  | Err => Err
  | Ok ps => finish (sp_ast_name a) (mark_front (sp_ast_mark a)) (mark_back (sp_ast_mark a)) (sp_ast_core a) ps t
  end.
Proof.
  intros (Hn & Hp & Hm & Hc & Hf & Hnd). unfold show_sast_padded.
  pose proof (marked_chars _ _ Hm Hc) as Hb. apply body_char_facts in Hb. destruct Hb as (Bs & B59 & B61 & B123 & B125).
  apply parse_spec_generic_padded with (eb := show_marked (sp_ast_mark a) (sp_ast_core a)); try assumption.
  - destruct Hc as (Hne & _). destruct (sp_ast_mark a); cbn [show_marked]; try assumption; try discriminate.
    + intros E. apply app_eq_nil in E. destruct E. congruence.
    + intros E. apply app_eq_nil in E. destruct E. congruence.
  - now apply expand_braces_plain.
  - now apply all_x_marked.
  - now apply parse_restrictions_marked.
Qed.

(** " adap = ^ACGTNNAC ; e = 0.15 ;noindels " *)
Definition ex_padded : sast_padded :=
  mkAP (Some [97;100;97;112]) MCaret [65;67;71;84;78;78;65;67]
       [(mkF [101] KMaxErrors (PDec [48] [49;53]), mkP [32] [32] [32] [32]); (mkF [110;111;105;110;100;101;108;115] KNoIndels PFlag, mkP [] [] [] [32])]
       (mkSP [32] [32] [32] [32]).

Example ex_padded_round_trip :
  show_sast_padded ex_padded = [32;97;100;97;112;32;61;32;94;65;67;71;84;78;78;65;67;32;59;32;101;32;61;32;48;46;49;53;32;59;110;111;105;110;100;101;108;115;32]
  /\ parse_spec (show_sast_padded ex_padded) TFront
     = Ok (mkSpec (Some [97;100;97;112]) RAnchored [65;67;71;84;78;78;65;67] [(KIndels, VInt 0); (KMaxErrors, VDec 15 2)] TFront false).
Proof. split; vm_compute; reflexivity. Qed.

Example ex_padded_wf : wf_sast_padded ex_padded.
Proof.
  unfold wf_sast_padded, ex_padded; cbn [sp_ast_name sp_ast_mark sp_ast_core sp_ast_fields sp_ast_pads].
  split; [repeat split; cbn; try reflexivity; intuition discriminate|].
  split; [repeat split; reflexivity|].
  split; [exact I|].
  split; [repeat split; vm_compute; congruence|].
  split.
  - constructor; [|constructor; [|constructor]]; cbn [fst snd].
    + split; [split; [cbn; tauto|]; cbn; repeat split; try reflexivity; left; discriminate | repeat split; reflexivity].
    + split; [split; [cbn; tauto | exact I] | repeat split; reflexivity].
  - cbn. constructor; [cbn; intros [H|[]]; discriminate|]. constructor; [cbn; tauto|]. constructor.
Qed.

(** ---- A...B from the parsed parts: the tail of make_linked *)
Definition build_linked (f b : aspec) (name : option str) (t : cmdtype) (base : params) (rw aw : bool) : res adapter_out :=
  match t with
  | TAnywhere => Err
  | _ =>
      let name := match name with Some n => Some n | None => sp_name f end in
      let isr r := match r with RNone => false | _ => true end in
      let fp := update base (sp_params f) in
      let bp := update base (sp_params b) in
      let freq0 := match t with TFront => true | _ => isr (sp_restriction f) end in
      let breq0 := match t with TFront => true | _ => isr (sp_restriction b) end in
      let freq := match get_key KRequired fp with Some v => truthy v | None => freq0 end in
      let breq := match get_key KRequired bp with Some v => truthy v | None => breq0 end in
      let fp := del_key KRequired fp in
      let bp := del_key KRequired bp in
      match make_single (class_of TFront (sp_restriction f) (sp_rightmost f)) (sp_sequence f) fp rw aw false None,
            make_single (class_of TBack (sp_restriction b) (sp_rightmost b)) (sp_sequence b) bp rw aw false None with
      | Ok fd, Ok bd => Ok (OLinked name fd bd freq breq)
      | _, _ => Err
      end
  end.

Theorem make_adapter_linked_meaning a1 a2 t base rw aw nm f b : wf_sast a1 -> wf_sast a2 ->
  no_sub3 (show_sast a1 ++ [46; 46]) = true ->
  spec_meaning a1 TFront = Ok f -> spec_meaning a2 TBack = Ok b ->
  make_adapter (show_sast a1 ++ dots ++ show_sast a2) t base rw aw nm = build_linked f b nm t base rw aw.
Proof.
  intros H1 H2 Hd Hf Hb. destruct (make_adapter_linked_printed a1 a2 t base rw aw nm H1 H2 Hd) as (E & P1 & P2).
  rewrite E. unfold make_linked, build_linked. rewrite P1, P2, Hf, Hb. destruct t; reflexivity.
Qed.

(** "^ACGT...TTTT;o=3" with -a: the anchored 5' part is required, the 3' part is not *)
Definition ex_l1 : sast := mkA None MCaret [65;67;71;84] [].
Definition ex_l2 : sast := mkA None MNone [84;84;84;84] [mkF [111] KMinOverlap (PInt [51])].
Example linked_example :
  make_adapter (show_sast ex_l1 ++ dots ++ show_sast ex_l2) TBack (globals_params (mkG (VDec 1 1) 3 false true true)) false true None
  = Ok (OLinked None (mkD Prefix [65;67;71;84] (Qmake 1 10) 4 false false true false None)
                     (mkD Back [84;84;84;84] (Qmake 1 10) 3 false false true false None) true false)
  /\ show_sast ex_l1 ++ dots ++ show_sast ex_l2 = [94;65;67;71;84;46;46;46;84;84;84;84;59;111;61;51].
Proof. split; vm_compute; reflexivity. Qed.
