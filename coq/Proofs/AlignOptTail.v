(** Optimality of the cost reported by Aligner.locate for the alignments that must end at the end
    of the query and may start anywhere in it but not inside the reference (SuffixAdapter with
    indels, NonInternalBackAdapter).  Here the DP starts in column q0 = max(0, n - m - k) with
    over-estimated costs for alignments that begin before q0; such alignments cost more than k and
    are never accepted (invariant W), and for alignments beginning at q0 or later the cells hold
    exact lower bounds (invariant LBt). *)
From Coq Require Import ZArith List Bool Lia.
From CV Require Import Generated.Tables Generated.Scores Model.Align Proofs.AlignProofs Proofs.AdapterProofs Proofs.AlignDist Proofs.AlignOpt.
Import ListNotations.
Open Scope Z_scope.

Section Tail.
  Variable eqc : Z -> Z -> bool.
  Variable thr : Z -> Z.
  Variable cfg : acfg.
  Variable rawref : list Z.
  Variable s1 s2 : list Z.

  Notation m := (zlen s1).
  Notation n := (zlen s2).
  Notation k := (thr m).
  Notation IND := (indel_cost cfg).
  Hypothesis IND_pos : 1 <= IND.
  Hypothesis k_nonneg : 0 <= k.
  Hypothesis sir : start_in_ref cfg = false.
  Hypothesis siq : start_in_query cfg = true.
  Notation ed := (AlignDist.ed eqc IND).

  Variable q0 : Z.
  Hypothesis q0_range : 0 <= q0 <= n.

  (** lower bound over all alignments of ref[0..i] with query[qs..j], q0 <= qs *)
  Definition LBt (i j v : Z) : Prop :=
    forall qs c, q0 <= qs <= j -> ed (zslice s1 0 i) (zslice s2 qs j) c -> v <= c.

  Definition capk (x : Z) : Z := Z.min x (k + 1).

  Lemma slice_snoc1 i : 1 <= i <= m -> zslice s1 0 i = zslice s1 0 (i - 1) ++ [znth 0 s1 (i - 1)].
  Proof. intros H. replace i with (i - 1 + 1) at 1 by lia. apply zslice_snoc; lia. Qed.
  Lemma slice_snoc2 qs j : 0 <= qs <= j - 1 -> j <= n -> zslice s2 qs j = zslice s2 qs (j - 1) ++ [znth 0 s2 (j - 1)].
  Proof. intros H1 H2. replace j with (j - 1 + 1) at 1 by lia. apply zslice_snoc; lia. Qed.

  Lemma LBt_cases i j qs c : 1 <= i <= m -> q0 + 1 <= j <= n -> q0 <= qs <= j ->
    ed (zslice s1 0 i) (zslice s2 qs j) c ->
    (qs <= j - 1 /\
       ((eqc (znth 0 s1 (i - 1)) (znth 0 s2 (j - 1)) = true /\ ed (zslice s1 0 (i - 1)) (zslice s2 qs (j - 1)) c) \/
        ed (zslice s1 0 (i - 1)) (zslice s2 qs (j - 1)) (c - 1) \/
        ed (zslice s1 0 (i - 1)) (zslice s2 qs j) (c - IND) \/
        ed (zslice s1 0 i) (zslice s2 qs (j - 1)) (c - IND))) \/
    (qs = j /\ i * IND <= c).
  Proof.
    intros Hi Hj Hq He. destruct (Z.eq_dec qs j) as [->|Hne].
    - right. rewrite zslice_empty in He. pose proof (ed_len_l eqc IND _ _ _ He eq_refl) as Hl. rewrite zslice_length in Hl by lia. split; [reflexivity | lia].
    - left. split; [lia|]. rewrite (slice_snoc1 i) in He by lia. rewrite (slice_snoc2 qs j) in He by lia.
      destruct (ed_snoc_inv eqc IND _ _ _ He _ _ _ _ eq_refl eq_refl) as [[H1 H2]|[H1|[H1|H1]]].
      + left. split; assumption.
      + right. left. exact H1.
      + right. right. left. rewrite (slice_snoc2 qs j) by lia. exact H1.
      + right. right. right. rewrite (slice_snoc1 i) by lia. exact H1.
  Qed.

  Lemma diag_mono_t i j v : 1 <= i <= m -> q0 + 1 <= j <= n -> LBt (i - 1) (j - 1) v -> LBt i j v.
  Proof.
    intros Hi Hj H qs c Hq He.
    destruct (LBt_cases i j qs c Hi Hj Hq He) as [(H1 & [[_ Hm]|[Hs|[Hd|Hin]]])|(-> & Hc)].
    - apply (H qs c ltac:(lia) Hm).
    - pose proof (H qs (c - 1) ltac:(lia) Hs). lia.
    - rewrite (slice_snoc2 qs j) in Hd by lia. pose proof (ed_drop_query eqc IND IND_pos _ _ _ Hd _ _ eq_refl) as Hd'.
      replace (c - IND + IND) with c in Hd' by lia. apply (H qs c ltac:(lia) Hd').
    - rewrite (slice_snoc1 i) in Hin by lia. pose proof (ed_drop_ref eqc IND IND_pos _ _ _ Hin _ _ eq_refl) as Hd'.
      replace (c - IND + IND) with c in Hd' by lia. apply (H qs c ltac:(lia) Hd').
    - pose proof (H (j - 1) ((i - 1) * IND) ltac:(lia)) as Hx. rewrite zslice_empty in Hx.
      assert (Hl : zlen (zslice s1 0 (i - 1)) = i - 1) by (rewrite zslice_length; lia).
      specialize (Hx ltac:(pose proof (ed_del_all eqc IND (zslice s1 0 (i - 1))) as He'; rewrite Hl in He'; exact He')). nia.
  Qed.

  Lemma cell_Lt c2 r i j diag cur prev :
    1 <= i <= m -> q0 + 1 <= j <= n -> r = znth 0 s1 (i - 1) -> c2 = znth 0 s2 (j - 1) ->
    LBt (i - 1) (j - 1) (capk (cost diag)) -> LBt i (j - 1) (capk (cost cur)) -> LBt (i - 1) j (capk (cost prev)) ->
    LBt i j (capk (cost (cell eqc cfg c2 r diag cur prev))).
  Proof.
    intros Hi Hj Hr Hc2 Hd Hc Hp. unfold cell.
    destruct (eqc r c2) eqn:Eq; cbn [cost].
    - apply diag_mono_t; assumption.
    - assert (Hmin : forall x, x <= cost diag + 1 -> x <= cost prev + IND -> x <= cost cur + IND -> LBt i j (capk x)).
      { intros x H1 H2 H3 qs c Hqq He. unfold capk in *.
        destruct (LBt_cases i j qs c Hi Hj Hqq He) as [(G1 & [[Hm _]|[Hs|[Hdl|Hin]]])|(-> & Hcc)].
        - subst r c2. congruence.
        - pose proof (Hd qs (c - 1) ltac:(lia) Hs). lia.
        - pose proof (Hp qs (c - IND) ltac:(lia) Hdl). lia.
        - pose proof (Hc qs (c - IND) ltac:(lia) Hin). lia.
        - pose proof (Hp j ((i - 1) * IND) ltac:(lia)) as Hx. rewrite zslice_empty in Hx.
          assert (Hl : zlen (zslice s1 0 (i - 1)) = i - 1) by (rewrite zslice_length; lia).
          specialize (Hx ltac:(pose proof (ed_del_all eqc IND (zslice s1 0 (i - 1))) as He'; rewrite Hl in He'; exact He')). nia. }
      destruct ((cost diag + 1 <=? cost prev + IND) && (cost diag + 1 <=? cost cur + IND)) eqn:E1; cbn [cost].
      + apply andb_prop in E1. destruct E1 as [E1 E2]. apply Z.leb_le in E1. apply Z.leb_le in E2. apply Hmin; lia.
      + destruct (cost prev + IND <=? cost cur + IND) eqn:E2; cbn [cost].
        * apply Z.leb_le in E2. apply andb_false_iff in E1. apply Hmin; lia.
        * apply Z.leb_gt in E2. apply andb_false_iff in E1. apply Hmin; lia.
  Qed.

  (** alignments that begin before q0 are over-estimated: cost >= d + |(j - q0) - (i - d)|, d = q0 - origin;
      needed only for cells within the budget *)
  Definition Wp (i j : Z) (e : entry) : Prop :=
    cost e <= k -> origin e < q0 -> (q0 - origin e) + Z.abs ((j - q0) - (i - (q0 - origin e))) <= cost e.

  Lemma cell_W c2 r i j diag cur prev :
    Wp (i - 1) (j - 1) diag -> Wp i (j - 1) cur -> Wp (i - 1) j prev ->
    Wp i j (cell eqc cfg c2 r diag cur prev).
  Proof.
    unfold Wp, cell. intros Hd Hc Hp.
    destruct (eqc r c2); cbn [cost origin]; [intros Hk H; specialize (Hd Hk H); lia|].
    destruct ((cost diag + 1 <=? cost prev + IND) && (cost diag + 1 <=? cost cur + IND)); cbn [cost origin]; [intros Hk H; specialize (Hd ltac:(lia) H); lia|].
    destruct (cost prev + IND <=? cost cur + IND); cbn [cost origin]; intros Hk H; [specialize (Hp ltac:(lia) H) | specialize (Hc ltac:(lia) H)]; lia.
  Qed.

  Definition cellT (i j : Z) (e : entry) : Prop := LBt i j (capk (cost e)) /\ Wp i j e.

  Inductive colT (j : Z) : Z -> list entry -> Prop :=
  | colT_nil : forall i, colT j i []
  | colT_cons : forall i e l, cellT i j e -> colT j (i + 1) l -> colT j i (e :: l).

  Lemma colT_stale j : forall l i, Forall (fun e => k < cost e) l -> (forall r, i <= r < i + zlen l -> LBt r j (k + 1)) -> colT j i l.
  Proof.
    induction l as [|e t IH]; intros i Hall Hb; [constructor|]. inversion Hall; subst. rewrite zlen_cons in Hb. pose proof (zlen_nonneg t).
    constructor.
    - split; [unfold capk; rewrite Z.min_r by lia; apply Hb; lia | unfold Wp; intros; lia].
    - apply IH; [assumption|]. intros r Hr. apply Hb. lia.
  Qed.

  Lemma colT_nth : forall l j i0 i, colT j i0 l -> 0 <= i -> (Z.to_nat i < length l)%nat -> cellT (i0 + i) j (nth (Z.to_nat i) l dummy).
  Proof.
    induction l as [|e l IH]; intros j i0 i H Hi Hlt; [cbn in Hlt; lia|]. inversion H; subst.
    destruct (Z.eq_dec i 0) as [->|Hne]; [cbn; replace (i0 + 0) with i0 by lia; assumption|].
    replace (Z.to_nat i) with (S (Z.to_nat (i - 1))) by lia. cbn [nth]. replace (i0 + i) with (i0 + 1 + (i - 1)) by lia.
    apply IH; auto; [lia|]. cbn [length] in Hlt. lia.
  Qed.

  Lemma fill_T : forall budget c2 refs old diag prev ov i j,
    1 <= i -> q0 + 1 <= j <= n -> c2 = znth 0 s2 (j - 1) ->
    refs = skipn (Z.to_nat (i - 1)) s1 -> length refs = length old ->
    colT (j - 1) i old -> Forall (fun e => k < cost e) (skipn budget old) ->
    (forall r, i + Z.of_nat budget <= r <= m -> LBt r j (k + 1)) ->
    cellT (i - 1) (j - 1) diag -> cellT (i - 1) j prev ->
    colT j i (fst (fill eqc cfg budget c2 refs old diag prev ov)).
  Proof.
    induction budget as [|b IH]; intros c2 refs old diag prev ov i j Hi Hj Hc2 Hrefs Hlen Hold HB Hbey Hd Hp.
    - cbn [fill fst]. cbn [skipn] in HB. apply colT_stale; [exact HB|]. intros r Hr. apply Hbey.
      assert (Hl : i + zlen old <= m + 1 \/ zlen old = 0).
      { unfold zlen. rewrite <- Hlen, Hrefs, skipn_length. lia. }
      lia.
    - cbn [fill]. destruct refs as [|r refs'].
      + destruct old; [constructor | discriminate].
      + destruct old as [|cur old']; [discriminate|].
        inversion Hold as [|i0 e0 l0 Hcur Hrest]; subst i0 e0 l0.
        symmetry in Hrefs. destruct (skipn_cons_nth 0 _ _ _ _ Hrefs) as (Hr & Hrefs' & Hlt).
        assert (Him : i <= m) by (unfold zlen; lia).
        assert (Hr' : r = znth 0 s1 (i - 1)) by (unfold znth; destruct (i - 1 <? 0) eqn:E; [lia | exact Hr]).
        assert (Hcell : cellT i j (cell eqc cfg c2 r diag cur prev)).
        { destruct Hd as [Hd1 Hd2]. destruct Hcur as [Hc1 Hc2']. destruct Hp as [Hp1 Hp2]. split.
          - apply cell_Lt; auto; lia.
          - apply cell_W; assumption. }
        specialize (IH c2 refs' old' cur (cell eqc cfg c2 r diag cur prev) (origin (cell eqc cfg c2 r diag cur prev)) (i + 1) j).
        replace (i + 1 - 1) with i in IH by lia.
        assert (Hrefs2 : refs' = skipn (Z.to_nat i) s1) by (rewrite Hrefs'; f_equal; lia).
        cbn [length] in Hlen. cbn [skipn] in HB.
        specialize (IH ltac:(lia) Hj Hc2 Hrefs2 ltac:(lia) Hrest HB ltac:(intros r0 Hr0; apply Hbey; lia) Hcur Hcell).
        destruct (fill eqc cfg b c2 refs' old' cur (cell eqc cfg c2 r diag cur prev) (origin (cell eqc cfg c2 r diag cur prev))) as [rest ov'].
        cbn [fst] in *. constructor; assumption.
  Qed.

  Hypothesis stop_q : stop_in_query cfg = false.

  Definition ST (j : Z) (st : lstate) : Prop :=
    colT j 0 (col st) /\ (last st = m \/ Forall (fun e => k < cost e) (skipn (Z.to_nat (last st)) (col st))).

  Notation SD := (AlignDist.SD eqc thr cfg s1 s2).

  Lemma column_step_T c2 j st :
    SD (j - 1) st -> ST (j - 1) st -> q0 + 1 <= j <= n -> c2 = znth 0 s2 (j - 1) ->
    let st' := column_step eqc thr cfg rawref s1 n c2 j st in
    ST j st' /\ best st' = best st /\ stopped st' = false.
  Proof.
    intros (Hcol & Hlen & Hlast & HB & Hbest) (HcolT & HB') Hj Hc2. cbv zeta. unfold column_step.
    destruct (col st) as [|c0 olds] eqn:Ecol; [rewrite zlen_nil in Hlen; pose proof (zlen_nonneg s1); lia|].
    inversion HcolT as [|i0 e0 l0 Hc0 Holds]; subst i0 e0 l0.
    rewrite siq.
    set (new0 := mkE _ _ _).
    assert (Hnew0 : cellT 0 j new0).
    { destruct Hc0 as [Hc0L Hc0W]. subst new0. split; cbn [cost origin].
      - intros qs c Hq He. rewrite zslice_empty in He. pose proof (ed_len_r eqc IND _ _ _ He eq_refl) as Hl. rewrite zslice_length in Hl by lia.
        pose proof (Hc0L (j - 1) 0 ltac:(lia)) as Hx. rewrite !zslice_empty in Hx. specialize (Hx (ed_nil eqc IND)).
        unfold capk in *. nia.
      - unfold Wp in *. cbn [cost origin]. intros Hk Ho. specialize (Hc0W ltac:(lia) ltac:(lia)). lia. }
    assert (Holen : length s1 = length olds) by (rewrite zlen_cons in Hlen; unfold zlen in Hlen; lia).
    assert (HBo : Forall (fun e => k < cost e) (skipn (Z.to_nat (last st)) olds)).
    { replace (Z.to_nat (last st + 1)) with (S (Z.to_nat (last st))) in HB by lia. exact HB. }
    assert (Hbey : forall r, 1 + Z.of_nat (Z.to_nat (last st)) <= r <= m -> LBt r j (k + 1)).
    { intros r Hr. destruct HB' as [Hlm|HBs]; [lia|]. apply diag_mono_t; [lia | lia|].
      pose proof (colT_nth (c0 :: olds) (j - 1) 0 (r - 1) HcolT ltac:(lia) ltac:(unfold zlen in *; cbn [length] in *; lia)) as [Hx _].
      replace (0 + (r - 1)) with (r - 1) in Hx by lia.
      assert (Hk : k < cost (nth (Z.to_nat (r - 1)) (c0 :: olds) dummy)).
      { apply (Forall_skipn_get (fun e => k < cost e) dummy (c0 :: olds) (Z.to_nat (last st)) (Z.to_nat (r - 1)) HBs).
        unfold zlen in *. cbn [length] in *. lia. }
      unfold capk in Hx. rewrite Z.min_r in Hx by lia. exact Hx. }
    pose proof (fill_T (Z.to_nat (last st)) c2 s1 olds c0 new0 (ovar st) 1 j ltac:(lia) Hj Hc2 eq_refl Holen Holds HBo Hbey) as Hf.
    replace (1 - 1) with 0 in Hf by lia. specialize (Hf Hc0 Hnew0).
    pose proof (fill_skip eqc cfg (Z.to_nat (last st)) c2 s1 olds c0 new0 (ovar st)) as Hsk.
    pose proof (fill_ok eqc cfg (Z.to_nat (last st)) c2 s1 olds c0 new0 (ovar st) 1 (j - 1)) as Hfo.
    inversion Hcol as [|i0 e0 l0 Hc0d Holdsd]; subst i0 e0 l0.
    assert (Hnew0ok : AlignProofs.ent_ok cfg 0 j new0).
    { destruct Hc0d as ((a & b & c & d) & _). subst new0. unfold AlignProofs.ent_ok; cbn [origin]. repeat split; intros; try congruence; try lia. }
    destruct (fill eqc cfg (Z.to_nat (last st)) c2 s1 olds c0 new0 (ovar st)) as [rest ov1] eqn:Efill. cbn [fst] in *.
    assert (Hrlen : length rest = length olds).
    { apply Hfo. - apply (colD_col_ok eqc thr cfg s1 s2). exact Holdsd.
      - replace (1 - 1) with 0 by lia. destruct Hc0d; assumption.
      - replace (1 - 1) with 0 by lia. replace (j - 1 + 1) with j by lia. exact Hnew0ok. }
    assert (HcolT' : colT j 0 (new0 :: rest)) by (constructor; assumption).
    assert (Hlen' : zlen (new0 :: rest) = m + 1) by (rewrite zlen_cons in *; unfold zlen in *; lia).
    pose proof (shrink_last_spec thr s1 (new0 :: rest) (last st) ltac:(lia) ltac:(lia)) as Hsh. cbv zeta in Hsh.
    set (l1 := shrink_last thr s1 (new0 :: rest) (last st)) in *. destruct Hsh as (Hl1 & Hl1c & Hl1g).
    assert (HBn : l1 < m -> Forall (fun e => k < cost e) (skipn (Z.to_nat (l1 + 1)) (new0 :: rest))).
    { intros Hlm. apply (Forall_skipn_nth (fun e => k < cost e) dummy). intros t Ht.
      destruct (Z_le_gt_dec (Z.of_nat t) (last st)) as [Hle|Hgt].
      - replace t with (Z.to_nat (Z.of_nat t)) by lia. apply Hl1g. lia.
      - destruct t as [|t']; [lia|]. cbn [nth]. cbn [length] in Ht.
        assert (Hn : nth t' rest dummy = nth t' olds dummy).
        { replace t' with (Z.to_nat (last st) + (t' - Z.to_nat (last st)))%nat by lia. rewrite <- !nth_skipn. rewrite Hsk. reflexivity. }
        rewrite Hn. apply (Forall_skipn_get (fun e => k < cost e) dummy olds (Z.to_nat (last st)) t' HBo). lia. }
    destruct (l1 <? m) eqn:El1m.
    - apply Z.ltb_lt in El1m. unfold ST; cbn [col last best stopped]. split; [split; [exact HcolT' | right; apply HBn; exact El1m]|]. split; reflexivity.
    - apply Z.ltb_ge in El1m. rewrite stop_q. unfold ST; cbn [col last best stopped]. split; [split; [exact HcolT' | left; lia]|]. split; reflexivity.
  Qed.

  Lemma columns_T : forall qs j st,
    SD (j - 1) st -> ST (j - 1) st -> q0 + 1 <= j -> j - 1 + zlen qs <= n ->
    qs = firstn (length qs) (skipn (Z.to_nat (j - 1)) s2) ->
    let st' := columns eqc thr cfg rawref s1 n qs j st in
    SD (j - 1 + zlen qs) st' /\ ST (j - 1 + zlen qs) st' /\ best st' = best st.
  Proof.
    induction qs as [|c2 t IH]; intros j st Hsd Hst Hj Hn Hqs; cbv zeta; cbn [columns].
    - assert (Hz : zlen (@nil Z) = 0) by reflexivity. rewrite Hz, Z.add_0_r. split; [exact Hsd | split; [exact Hst | reflexivity]].
    - rewrite zlen_cons in *. pose proof (zlen_nonneg t) as Ht.
      cbn [length firstn] in Hqs.
      destruct (skipn (Z.to_nat (j - 1)) s2) as [|x u] eqn:Esk; [discriminate|].
      injection Hqs as Hc2 Htl. destruct (skipn_cons_nth 0 _ _ _ _ Esk) as (Hx & Hu & Hlt).
      assert (Hc2' : c2 = znth 0 s2 (j - 1)).
      { unfold znth. destruct (j - 1 <? 0) eqn:E; [lia|]. congruence. }
      assert (Hjn : q0 + 1 <= j <= n) by (unfold zlen in *; lia).
      destruct (column_step_d eqc thr cfg rawref s1 s2 IND_pos c2 j st Hsd ltac:(lia) Hc2') as [Hs _]. cbv zeta in Hs.
      destruct (column_step_T c2 j st Hsd Hst Hjn Hc2') as (HsT & Hbest & Hstop). cbv zeta in *.
      rewrite Hstop.
      specialize (IH (j + 1) (column_step eqc thr cfg rawref s1 n c2 j st)). replace (j + 1 - 1) with j in IH by lia.
      assert (Htl' : t = firstn (length t) (skipn (Z.to_nat j) s2)).
      { rewrite Htl at 1. rewrite Hu. do 2 f_equal. lia. }
      specialize (IH Hs HsT ltac:(lia) ltac:(lia) Htl'). cbv zeta in IH.
      replace (j - 1 + (zlen t + 1)) with (j + zlen t) by lia. destruct IH as (I1 & I2 & I3). split; [exact I1 | split; [exact I2 | congruence]].
  Qed.

  Hypothesis thr_bound : forall L, thr L <= k.
  Hypothesis Hq0 : q0 = Z.max 0 (n - m - k).
  Notation nb := (no_best s1 n).

  Definition bestT (b : best_t) : Prop :=
    b_cost b = nb \/ (q0 <= b_origin b /\ LBt (b_refstop b) (b_qstop b) (capk (b_cost b))).

  Lemma last_column_T ov : forall cells best,
    bestT best ->
    (forall i e, In (i, e) cells -> cellT i n e /\ AlignProofs.ent_ok cfg i n e /\ 0 <= i <= m) ->
    bestT (last_column thr cfg rawref s1 n ov cells best).
  Proof.
    induction cells as [|[i e] t IH]; intros best Hb Hcells; cbn [last_column]; [exact Hb|].
    assert (Ht : forall i e, In (i, e) t -> cellT i n e /\ AlignProofs.ent_ok cfg i n e /\ 0 <= i <= m) by (intros; apply Hcells; right; assumption).
    match goal with |- bestT (if ?c then _ else _) => destruct c eqn:Ecnd end; [|apply IH; assumption].
    apply IH; [|exact Ht]. right. cbn [b_origin b_refstop b_qstop b_cost].
    apply andb_prop in Ecnd. destruct Ecnd as [Eok _]. apply andb_prop in Eok. destruct Eok as [_ Ethr]. apply Z.leb_le in Ethr.
    destruct (Hcells i e (or_introl eq_refl)) as ((HL & HW) & (_ & _ & Hsr & _) & Hi).
    assert (Hek : cost e <= k) by (pose proof (thr_bound (eff_len cfg rawref s1 (i + Z.min (origin e) 0) i)); lia).
    split; [|exact HL].
    destruct (Z_le_gt_dec q0 (origin e)) as [Hle|Hgt]; [exact Hle|]. exfalso.
    specialize (Hsr sir). unfold Wp in HW. specialize (HW Hek ltac:(lia)). lia.
  Qed.

  (** the reported cost is minimal over ALL admissible starts in the query, not only the reported one *)
  Theorem locate_core_opt_tail_gen rs re qs qe sc e :
    locate_core eqc thr cfg rawref s1 s2 = Some (rs, re, qs, qe, sc, e) ->
    q0 <= qs /\ forall qs' c, q0 <= qs' <= qe -> ed (zslice s1 rs re) (zslice s2 qs' qe) c -> e <= c.
  Proof.
    intros Hloc.
    pose proof (locate_core_structure eqc thr cfg rawref s1 s2 _ k_nonneg Hloc) as Hres. unfold result_ok in Hres.
    destruct Hres as (R1 & R2 & R3 & R4 & R5 & R6 & R7 & _ & _ & _ & _ & R12).
    assert (Hek : e <= k) by (pose proof (thr_bound (eff_len cfg rawref s1 (re - rs) re)); lia).
    revert Hloc. unfold locate_core. rewrite stop_q, siq, sir. rewrite <- Hq0.
    set (qsl := firstn _ _).
    set (st0 := mkS _ _ _ _ _ _).
    assert (Hn : 0 <= n) by apply zlen_nonneg.
    assert (Hm : 0 <= m) by apply zlen_nonneg.
    assert (Hnz : forall cnt lo t d, (t < cnt)%nat -> nth t (zrange lo cnt) d = lo + Z.of_nat t).
    { induction cnt as [|cn IH]; intros lo t d Ht; [lia|]. destruct t as [|t']; cbn [zrange nth]; [lia|]. rewrite IH by lia. lia. }
    pose proof (init_state_d eqc thr cfg s1 s2 IND_pos k_nonneg q0 q0_range) as Hsd0. rewrite sir in Hsd0. fold st0 in Hsd0.
    assert (HinitT : forall cnt lo, 0 <= lo -> lo + Z.of_nat cnt <= m + 1 -> colT q0 lo (map (init_entry cfg q0) (zrange lo cnt))).
    { induction cnt as [|cn IH]; intros lo Hlo Hc; cbn [zrange map]; constructor; [|apply IH; lia].
      unfold init_entry. rewrite sir, siq. split; cbn [cost origin].
      - intros qs' c' Hq He. assert (qs' = q0) by lia. subst qs'. rewrite zslice_empty in He.
        pose proof (ed_len_l eqc IND _ _ _ He eq_refl) as Hl. rewrite zslice_length in Hl by lia. unfold capk. lia.
      - unfold Wp; cbn [cost origin]. intros _ Ho. nia. }
    assert (Hst0 : ST (q0 + 1 - 1) st0).
    { replace (q0 + 1 - 1) with q0 by lia. subst st0. unfold ST; cbn [col last].
      split; [apply HinitT; [lia | unfold zlen; lia]|].
      destruct (Z_le_gt_dec m (k + 1)) as [Hle|Hgt]; [left; lia|]. right.
      unfold init_column. apply (Forall_skipn_nth (fun e => k < cost e) dummy). intros t Ht. rewrite map_length, zrange_length in Ht.
      rewrite (nth_indep _ dummy (init_entry cfg q0 0)) by (rewrite map_length, zrange_length; lia).
      rewrite map_nth, Hnz by lia. unfold init_entry. rewrite sir, siq. cbn [cost]. nia. }
    assert (Hqsl : qsl = firstn (length qsl) (skipn (Z.to_nat (q0 + 1 - 1)) s2)).
    { subst qsl. replace (q0 + 1 - 1) with q0 by lia. rewrite firstn_length.
      destruct (Nat.le_ge_cases (Z.to_nat (n - q0)) (length (skipn (Z.to_nat q0) s2))) as [Hle|Hge].
      - rewrite Nat.min_l by exact Hle. reflexivity.
      - rewrite Nat.min_r by exact Hge. rewrite !firstn_all2; auto. }
    assert (Hqz : zlen qsl = n - q0).
    { subst qsl. unfold zlen. rewrite firstn_length, skipn_length. unfold zlen in *. lia. }
    destruct (columns_T qsl (q0 + 1) st0 Hsd0 Hst0 ltac:(lia) ltac:(lia) Hqsl) as ((HcolD & Hlen & _) & (HcolT & _) & Hbest). cbv zeta in *.
    set (st := columns eqc thr cfg rawref s1 n qsl (q0 + 1) st0) in *.
    rewrite Z.eqb_refl.
    assert (Hjf : q0 + 1 - 1 + zlen qsl = n) by lia. rewrite Hjf in HcolD, HcolT.
    set (cells := filter _ _).
    assert (Hcells : forall i ee, In (i, ee) cells -> cellT i n ee /\ AlignProofs.ent_ok cfg i n ee /\ 0 <= i <= m).
    { intros i ee Hin. subst cells. apply filter_In in Hin. destruct Hin as [Hin _]. apply in_rev in Hin.
      assert (Hin' : In (i, ee) (indexed (col st))) by (eapply In_firstn; eauto).
      unfold indexed in Hin'. apply In_indexed_aux in Hin'. destruct Hin' as [Hi He]. subst ee.
      replace (i - 0) with i by lia. split; [|split; [|lia]].
      - replace i with (0 + i) at 1 by lia. apply colT_nth; auto; [lia | unfold zlen in *; lia].
      - replace i with (0 + i) at 1 by lia. pose proof (colD_nth eqc thr cfg s1 s2 (col st) n 0 i HcolD ltac:(lia) ltac:(unfold zlen in *; lia)) as [Hok _]. exact Hok. }
    pose proof (last_column_T (ovar st) cells (best st) ltac:(rewrite Hbest; left; reflexivity) Hcells) as Hbf.
    set (bestf := last_column thr cfg rawref s1 n (ovar st) cells (best st)) in *.
    destruct (b_cost bestf =? nb) eqn:Enb; [discriminate|]. apply Z.eqb_neq in Enb.
    destruct Hbf as [Hbf|[Ho HL]]; [contradiction|].
    destruct (0 <=? b_origin bestf) eqn:Eo; intros Hr; inversion Hr; subst; clear Hr.
    - split; [exact Ho|]. intros qs' c Hq Hed. pose proof (HL qs' c ltac:(lia) Hed) as Hx. unfold capk in Hx. lia.
    - apply Z.leb_gt in Eo. lia.
  Qed.

  Theorem locate_core_opt_tail rs re qs qe sc e c :
    locate_core eqc thr cfg rawref s1 s2 = Some (rs, re, qs, qe, sc, e) ->
    ed (zslice s1 rs re) (zslice s2 qs qe) c -> e <= c.
  Proof.
    intros Hloc Hed. destruct (locate_core_opt_tail_gen rs re qs qe sc e Hloc) as [Hq H].
    pose proof (locate_core_structure eqc thr cfg rawref s1 s2 _ k_nonneg Hloc) as Hres. unfold result_ok in Hres.
    apply (H qs c); [lia | exact Hed].
  Qed.
End Tail.

(** ---- Aligner.locate and the adapter classes *)
Theorem locate_opt_tail thr cfg wq ref query rs re qs qe sc e c :
  1 <= indel_cost cfg -> start_in_ref cfg = false -> start_in_query cfg = true -> stop_in_query cfg = false ->
  0 <= thr (zlen ref) -> (forall L, thr L <= thr (zlen ref)) ->
  locate thr cfg wq ref query = Some (rs, re, qs, qe, sc, e) ->
  ed (loc_eqc cfg wq) (indel_cost cfg) (zslice (loc_s1 cfg wq ref) rs re) (zslice (loc_s2 cfg wq query) qs qe) c -> e <= c.
Proof.
  intros Hi Hsr Hsq Hst Hk Hb H Hed. unfold locate in H. fold (loc_s1 cfg wq ref) in H. fold (loc_s2 cfg wq query) in H. fold (loc_eqc cfg wq) in H.
  pose proof (loc_s1_len cfg wq ref) as Hlen.
  set (S1 := loc_s1 cfg wq ref) in *. set (S2 := loc_s2 cfg wq query) in *.
  assert (Hq : 0 <= Z.max 0 (zlen S2 - zlen S1 - thr (zlen S1)) <= zlen S2).
  { pose proof (zlen_nonneg S1). pose proof (zlen_nonneg S2). rewrite Hlen. lia. }
  eapply (locate_core_opt_tail (loc_eqc cfg wq) thr cfg ref S1 S2 Hi ltac:(rewrite Hlen; exact Hk) Hsr Hsq
            (Z.max 0 (zlen S2 - zlen S1 - thr (zlen S1))) Hq Hst ltac:(intros; rewrite Hlen; apply Hb) eq_refl); eauto.
Qed.

From CV Require Import Generated.Flags Model.Adapters.

(** every adapter class that uses the aligner: the reported errors are exactly the edit distance of
    the two reported intervals *)
Theorem match_to_exact_all thr ad read mt :
  uses_comparer ad = false ->
  0 <= thr (zlen (a_seq ad)) -> (forall L, thr L <= thr (zlen (a_seq ad))) ->
  match_to thr ad read = Some mt ->
  let A := zslice (loc_s1 (ad_cfg ad) (a_wq ad) (a_seq ad)) (astart mt) (astop mt) in
  let B := zslice (loc_s2 (ad_cfg ad) (a_wq ad) (ad_query ad read)) (rstart mt) (rstop mt) in
  ed (loc_eqc (ad_cfg ad) (a_wq ad)) (indel_cost (ad_cfg ad)) A B (merrors mt) /\
  forall c, ed (loc_eqc (ad_cfg ad) (a_wq ad)) (indel_cost (ad_cfg ad)) A B c -> merrors mt <= c.
Proof.
  intros Hcmp Hk Hb H.
  destruct (a_type ad) eqn:Et.
  1-5: apply (match_to_exact thr ad read mt); auto; rewrite Et; exact I.
  2: apply (match_to_exact thr ad read mt); auto; rewrite Et; exact I.
  - (* NonInternalBack *)
    cbv zeta. split; [exact (match_to_dist thr ad read mt Hcmp Hk Hb H)|]. intros c Hed.
    unfold match_to in H. destruct (raw_locate thr ad read) as [[[[[[a0 a1] r0] r1] sc] e]|] eqn:Er; [|discriminate].
    inversion H; subst mt; clear H. cbn [astart astop rstart rstop merrors] in *.
    unfold raw_locate in Er. rewrite Et in Er. cbn [class_reversed class_upper_first] in Er. unfold cls_NonInternalBackAdapter_reversed in Er.
    fold (ad_cfg ad) in Er. unfold ad_query in Hed. rewrite Et in Hed. cbn [class_upper_first] in Hed.
    eapply (locate_opt_tail thr (ad_cfg ad) (a_wq ad) (a_seq ad) read); eauto.
    + apply ad_indel_cost_pos.
    + unfold ad_cfg, cfg_of, aligner_flags. rewrite Et. vm_compute. reflexivity.
    + unfold ad_cfg, cfg_of, aligner_flags. rewrite Et. vm_compute. reflexivity.
    + unfold ad_cfg, cfg_of, aligner_flags. rewrite Et. vm_compute. reflexivity.
  - (* Suffix with indels *)
    cbv zeta. split; [exact (match_to_dist thr ad read mt Hcmp Hk Hb H)|]. intros c Hed.
    unfold match_to in H. destruct (raw_locate thr ad read) as [[[[[[a0 a1] r0] r1] sc] e]|] eqn:Er; [|discriminate].
    inversion H; subst mt; clear H. cbn [astart astop rstart rstop merrors] in *.
    unfold raw_locate in Er. rewrite Et in Er. unfold uses_comparer in Hcmp. rewrite Et in Hcmp.
    destruct (a_indels ad) eqn:Ei; [|discriminate].
    fold (ad_cfg ad) in Er. unfold ad_query in Hed. rewrite Et in Hed. cbn [class_upper_first] in Hed.
    eapply (locate_opt_tail thr (ad_cfg ad) (a_wq ad) (a_seq ad) read); eauto.
    + apply ad_indel_cost_pos.
    + unfold ad_cfg, cfg_of, aligner_flags. rewrite Et. vm_compute. reflexivity.
    + unfold ad_cfg, cfg_of, aligner_flags. rewrite Et. vm_compute. reflexivity.
    + unfold ad_cfg, cfg_of, aligner_flags. rewrite Et. vm_compute. reflexivity.
Qed.
