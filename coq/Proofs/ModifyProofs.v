(** C03 at the level of the whole modifier chain: sequence and qualities always have equal
    length; every stage other than the adapter stage either takes the same slice of sequence and
    qualities, or leaves both alone (name stages), or only zero-caps qualities; and with the
    actions trim/none the output of the whole chain is a contiguous slice of the input read
    (of its reverse complement when --revcomp chose that orientation), qualities in step.
    C10: the chain is the composition of the stages in the order read off cli.py. *)
From Coq Require Import ZArith List Bool Lia.
From CV Require Import Generated.Tables Model.Base Model.Align Model.Adapters Model.Kmer Model.Qualtrim Model.Pipeline
  Proofs.AlignProofs Proofs.AdapterProofs Proofs.KmerProofs Proofs.SliceProofs Proofs.StageProofs Proofs.ActionProofs.
Import ListNotations.
Open Scope Z_scope.

(** r' is the sub-list [k, k+n) of r, qualities passed through the pointwise map f *)
Definition sub_read (f : Z -> Z) (r' r : read) : Prop :=
  exists k n, rseq r' = sub k n (rseq r) /\ rqual r' = option_map (fun q => map f (sub k n q)) (rqual r).

Lemma wf_rslice lo hi r : wf_read r -> wf_read (rslice lo hi r).
Proof.
  unfold wf_read, rslice; cbn [rqual rseq]. destruct (rqual r) as [q|]; cbn [option_map]; [|auto].
  intros H. unfold pyslice. rewrite H. unfold zlen. rewrite !firstn_length, !skipn_length.
  unfold zlen in H. lia.
Qed.

Lemma rslice_sub_read lo hi r : wf_read r -> sub_read (fun q => q) (rslice lo hi r) r.
Proof.
  intros Hwf. unfold sub_read, rslice; cbn [rseq rqual].
  unfold pyslice. set (a := norm_idx (zlen (rseq r)) lo 0). set (b := norm_idx (zlen (rseq r)) hi (zlen (rseq r))).
  exists (Z.to_nat a), (Z.to_nat (b - a)). split; [reflexivity|].
  unfold wf_read in Hwf. destruct (rqual r) as [q|]; cbn [option_map]; [|reflexivity].
  rewrite map_id. rewrite Hwf. reflexivity.
Qed.

Lemma sub_read_trans f g r2 r1 r0 : sub_read g r2 r1 -> sub_read f r1 r0 -> sub_read (fun q => g (f q)) r2 r0.
Proof.
  intros (k2 & n2 & s2 & q2) (k1 & n1 & s1 & q1). unfold sub_read.
  exists (k1 + k2)%nat, (Nat.min n2 (n1 - k2)). split.
  - rewrite s2, s1. apply sub_sub.
  - rewrite q2, q1. destruct (rqual r0) as [q|]; cbn [option_map]; [|reflexivity].
    f_equal. rewrite sub_map, sub_sub, map_map. reflexivity.
Qed.

Lemma sub_read_refl r : sub_read (fun q => q) r r.
Proof.
  exists 0%nat, (length (rseq r) + match rqual r with Some q => length q | None => 0 end)%nat. unfold sub. cbn [skipn]. split.
  - symmetry. apply firstn_all2. lia.
  - destruct (rqual r) as [q|]; cbn [option_map]; [|reflexivity]. rewrite map_id. f_equal. symmetry. apply firstn_all2. lia.
Qed.

Lemma sub_read_name f r' r n : sub_read f r' r -> sub_read f (mkR n (rseq r') (rqual r')) r.
Proof. intros H; exact H. Qed.

(** the non-adapter stages *)
Definition capf (base : Z) (q : Z) : Z := if q <? base then base else q.

Lemma nonadapter_stage o st r i :
  st <> StAdapters -> wf_read r ->
  let r' := fst (apply_stage o st (r, i)) in
  wf_read r' /\ (sub_read (fun q => q) r' r \/ (st = StZeroCap /\ sub_read (capf (o_qbase o)) r' r)).
Proof.
  intros Hst Hwf. cbn zeta.
  assert (Hsl : forall lo hi, wf_read (rslice lo hi r) /\ (sub_read (fun q => q) (rslice lo hi r) r \/
                 (st = StZeroCap /\ sub_read (capf (o_qbase o)) (rslice lo hi r) r))).
  { intros lo hi. split; [apply wf_rslice; assumption | left; apply rslice_sub_read; assumption]. }
  assert (Hnm : forall n, wf_read (mkR n (rseq r) (rqual r)) /\ (sub_read (fun q => q) (mkR n (rseq r) (rqual r)) r \/
                 (st = StZeroCap /\ sub_read (capf (o_qbase o)) (mkR n (rseq r) (rqual r)) r))).
  { intros n. split; [exact Hwf | left; apply (sub_read_name _ r r); apply sub_read_refl]. }
  destruct st; cbn [apply_stage]; try contradiction.
  all: try (match goal with |- context [quality_trim_index ?a ?b ?c ?d] => destruct (quality_trim_index a b c d) end).
  all: repeat match goal with |- context [if ?c then _ else _] => destruct c end; cbn [fst].
  all: try apply Hsl.
  all: try (unfold length_tag_mod; apply Hnm).
  (* zero-cap *)
  unfold zero_cap. split.
  - unfold wf_read in *; cbn [rqual rseq]. destruct (rqual r); cbn [option_map]; [rewrite zlen_map; exact Hwf | exact I].
  - right. split; [reflexivity|].
    exists 0%nat, (length (rseq r) + match rqual r with Some q => length q | None => 0 end)%nat. unfold sub; cbn [skipn rseq rqual]. split.
    + symmetry. apply firstn_all2. lia.
    + destruct (rqual r) as [q|]; cbn [option_map]; [|reflexivity]. f_equal. f_equal. symmetry. apply firstn_all2. lia.
Qed.

(** zero-capping only changes quality characters below the base, to the base *)
Lemma capf_spec base q : (q < base -> capf base q = base) /\ (base <= q -> capf base q = q).
Proof. unfold capf. destruct (q <? base) eqn:E; [apply Z.ltb_lt in E | apply Z.ltb_ge in E]; split; intros; lia. Qed.

(** ---- the adapter stage preserves well-formedness and, for trim / none, is a slice *)
Lemma read_slice_sub_read r' r a b : iv_ok (rlen r) (a, b) -> read_slice r' r a b -> sub_read (fun q => q) r' r.
Proof.
  intros _ (_ & Hs & Hq). exists (Z.to_nat a), (Z.to_nat (b - a)). split; [exact Hs|].
  rewrite Hq. destruct (rqual r); cbn [option_map]; [rewrite map_id; reflexivity | reflexivity].
Qed.

Lemma match_and_trim_wf ads times act r0 :
  Forall wf_padapter ads -> wf_read r0 ->
  match act with ARetain | ACrop => False | _ => True end ->
  wf_read (fst (match_and_trim ads times act r0)).
Proof.
  intros Hwf Hr Hact.
  destruct (match_and_trim ads times act r0) as [res ms] eqn:E. cbn [fst].
  destruct ms as [|m ms'].
  - pose proof (match_and_trim_no_match ads times act r0 Hwf Hr) as H. rewrite E in H. cbn [fst snd] in H. rewrite H by reflexivity.
    destruct act; try exact Hr. unfold wf_read in *; cbn [rqual rseq]. destruct (rqual r0); [rewrite upper_length; exact Hr | exact I].
  - pose proof (match_and_trim_actions ads times act r0 res (m :: ms') Hwf Hr E ltac:(discriminate)) as H. cbn zeta in H.
    destruct H as [Hiv H].
    destruct act; try contradiction.
    + eapply read_slice_wf; eauto.
    + destruct H as (_ & Hq & _ & Hl). unfold wf_read, rlen in *. rewrite Hq. destruct (rqual r0); [lia | exact I].
    + destruct H as (_ & Hq & _ & Hl). unfold wf_read, rlen in *. rewrite Hq. destruct (rqual r0); [lia | exact I].
    + subst res. exact Hr.
Qed.

(** ---- C10: the chain is the composition of the stages, each seeing the previous output *)
Lemma modify_compose order o r :
  modify order o r = fold_left (fun ri st => apply_stage o st ri) (stages order o) (r, init_info r).
Proof. reflexivity. Qed.

Lemma stages_app order1 order2 o : stages (order1 ++ order2) o = stages order1 o ++ stages order2 o.
Proof. unfold stages. apply flat_map_app. Qed.

Lemma modify_split order1 order2 o r :
  modify (order1 ++ order2) o r =
  fold_left (fun ri st => apply_stage o st ri) (stages order2 o)
            (fold_left (fun ri st => apply_stage o st ri) (stages order1 o) (r, init_info r)).
Proof. unfold modify. rewrite stages_app, fold_left_app. reflexivity. Qed.

(** an option that is not given contributes no stage *)
Lemma absent_option_no_stage o :
  (o_cuts o = [] -> stages_of_kind o KCut = []) /\
  (o_nextseq o = None -> stages_of_kind o KNextseq = []) /\
  (o_qcut o = None -> stages_of_kind o KQual = []) /\
  (o_adapters o = [] -> stages_of_kind o KAdapters = []) /\
  (o_poly_a o = false -> o_poly_t o = false -> stages_of_kind o KPolyA = []) /\
  (o_length o = None -> stages_of_kind o KLength = []) /\
  (o_trim_n o = false -> stages_of_kind o KTrimN = []) /\
  (o_zero_cap o = false -> stages_of_kind o KZeroCap = []).
Proof. repeat split; intros H; try intros H'; cbn [stages_of_kind]; rewrite H; try rewrite H'; reflexivity. Qed.

(** ---- the whole chain (C03_slice) *)
(** pointwise quality maps that leave a value alone or raise a value below [base] to [base] *)
Definition cap_like (base : Z) (f : Z -> Z) : Prop := forall q, f q = q \/ (q < base /\ f q = base).

Lemma cap_like_id base : cap_like base (fun q => q).
Proof. intros q; left; reflexivity. Qed.

Lemma cap_like_capf base : cap_like base (capf base).
Proof. intros q. unfold capf. destruct (q <? base) eqn:E; [right; apply Z.ltb_lt in E; auto | left; reflexivity]. Qed.

Lemma cap_like_comp base f g : cap_like base f -> cap_like base g -> cap_like base (fun q => g (f q)).
Proof.
  intros Hf Hg q. destruct (Hf q) as [E|[Hlt E]]; rewrite E.
  - apply Hg.
  - destruct (Hg base) as [E'|[Hlt' E']]; [right; split; [exact Hlt | exact E'] | lia].
Qed.

Lemma sub_rev {A} (k n : nat) (l : list A) :
  rev (sub k n l) = sub (length l - k - Nat.min n (length l - k)) (Nat.min n (length l - k)) (rev l).
Proof.
  unfold sub. set (len := length l). set (n' := Nat.min n (len - k)).
  assert (Hm : length (skipn k l) = (len - k)%nat) by (rewrite skipn_length; reflexivity).
  (* rev (firstn n m) = skipn (|m| - n') (rev m) *)
  assert (H1 : rev (firstn n (skipn k l)) = skipn (len - k - n') (rev (skipn k l))).
  { rewrite skipn_rev. rewrite Hm. f_equal.
    replace (len - k - (len - k - n'))%nat with n' by lia.
    subst n'. destruct (Nat.le_ge_cases n (len - k)).
    - rewrite Nat.min_l by lia. reflexivity.
    - rewrite Nat.min_r by lia. rewrite !firstn_all2 by lia. reflexivity. }
  assert (H2 : rev (skipn k l) = firstn (len - k) (rev l)).
  { rewrite firstn_rev. fold len. f_equal. destruct (Nat.le_ge_cases k len).
    - f_equal. lia.
    - rewrite !skipn_all2 by (fold len; lia). reflexivity. }
  rewrite H1, H2. rewrite skipn_firstn_comm. f_equal. lia.
Qed.

Lemma sub_read_revcomp f r1 r : wf_read r -> sub_read f r1 r -> sub_read f (revcomp_read r1) (revcomp_read r).
Proof.
  intros Hwf (k & n & Hs & Hq). unfold sub_read, revcomp_read; cbn [rseq rqual].
  exists (length (rseq r) - k - Nat.min n (length (rseq r) - k))%nat, (Nat.min n (length (rseq r) - k)). split.
  - rewrite Hs. rewrite <- sub_map. rewrite sub_rev. rewrite map_length. reflexivity.
  - rewrite Hq. unfold wf_read in Hwf. destruct (rqual r) as [q|]; cbn [option_map]; [|reflexivity].
    f_equal. rewrite <- map_rev. f_equal. rewrite sub_rev.
    assert (Hl : length q = length (rseq r)) by (unfold zlen in Hwf; lia). rewrite Hl. reflexivity.
Qed.

Lemma revcomp_read_wf r : wf_read r -> wf_read (revcomp_read r).
Proof.
  unfold wf_read, revcomp_read; cbn [rqual rseq]. destruct (rqual r); cbn [option_map]; [|auto].
  intros H. unfold zlen in *. rewrite !rev_length, map_length. exact H.
Qed.

(** the adapter stage with action trim or none: slice of what it received, or of its reverse complement *)
Lemma adapter_stage_slice o r1 i1 :
  Forall wf_padapter (o_adapters o) -> wf_read r1 ->
  (o_action o = ATrim \/ o_action o = ANone) ->
  let r2 := fst (apply_stage o StAdapters (r1, i1)) in
  wf_read r2 /\
  ((sub_read (fun q => q) r2 r1 /\ (o_revcomp o = true -> i_is_rc (snd (apply_stage o StAdapters (r1, i1))) = Some false)
    /\ (o_revcomp o = false -> i_is_rc (snd (apply_stage o StAdapters (r1, i1))) = i_is_rc i1)) \/
   (o_revcomp o = true /\ sub_read (fun q => q) r2 (revcomp_read r1) /\
    i_is_rc (snd (apply_stage o StAdapters (r1, i1))) = Some true)).
Proof.
  intros Hwf Hr Hact. cbn zeta.
  assert (Hmt : forall r, wf_read r ->
            wf_read (fst (match_and_trim (o_adapters o) (o_times o) (o_action o) r)) /\
            sub_read (fun q => q) (fst (match_and_trim (o_adapters o) (o_times o) (o_action o) r)) r).
  { intros r Hwr. split.
    - apply match_and_trim_wf; auto. destruct Hact as [-> | ->]; exact I.
    - destruct (match_and_trim (o_adapters o) (o_times o) (o_action o) r) as [res ms] eqn:E. cbn [fst].
      destruct ms as [|m ms'].
      + pose proof (match_and_trim_no_match _ (o_times o) (o_action o) r Hwf Hwr) as H. rewrite E in H. cbn [fst snd] in H.
        rewrite H by reflexivity. destruct Hact as [-> | ->]; apply sub_read_refl.
      + pose proof (match_and_trim_actions _ (o_times o) (o_action o) r res (m :: ms') Hwf Hwr E ltac:(discriminate)) as H.
        cbn zeta in H. destruct H as [Hiv H]. destruct Hact as [Ha | Ha]; rewrite Ha in H.
        * eapply read_slice_sub_read; eauto.
        * subst res. apply sub_read_refl. }
  cbn [apply_stage]. destruct (o_revcomp o) eqn:Erc.
  - rewrite revcomp_choice. cbn zeta.
    destruct (Hmt r1 Hr) as [Hw1 Hs1]. destruct (Hmt (revcomp_read r1) (revcomp_read_wf _ Hr)) as [Hw2 Hs2].
    match goal with |- context [if ?c then _ else _] => destruct c end; cbn [fst snd i_is_rc].
    + split; [exact Hw2|]. right. split; [reflexivity|]. split; [exact Hs2 | reflexivity].
    + split; [exact Hw1|]. left. split; [exact Hs1|]. split; [reflexivity | discriminate].
  - destruct (Hmt r1 Hr) as [Hw1 Hs1].
    destruct (match_and_trim (o_adapters o) (o_times o) (o_action o) r1) as [res ms]. cbn [fst snd i_is_rc] in *.
    split; [exact Hw1|]. left. split; [exact Hs1|]. split; [discriminate | reflexivity].
Qed.

Definition stage_ok (o : options) (st : stage) : Prop := st = StZeroCap -> o_zero_cap o = true.

Lemma stages_ok order o : Forall (stage_ok o) (stages order o).
Proof.
  unfold stages. apply Forall_forall. intros st Hin Hz. subst st.
  apply in_flat_map in Hin. destruct Hin as (k & _ & Hk).
  destruct k; cbn [stages_of_kind] in Hk.
  all: try (apply in_map_iff in Hk; destruct Hk as (? & Hd & _); discriminate).
  all: try (destruct (o_nextseq o); cbn in Hk; intuition discriminate).
  all: try (destruct (o_qcut o) as [[? ?]|]; cbn in Hk; intuition discriminate).
  all: try (destruct (o_adapters o); cbn in Hk; intuition discriminate).
  all: try (destruct (o_poly_a o), (o_poly_t o); cbn in Hk; intuition discriminate).
  all: try (destruct (o_length o); cbn in Hk; intuition discriminate).
  all: try (destruct (o_trim_n o); cbn in Hk; intuition discriminate).
  all: try (destruct (o_length_tag o); cbn in Hk; intuition discriminate).
  all: try (destruct (o_prefix o), (o_suffix o); cbn in Hk; intuition discriminate).
  destruct (o_zero_cap o); [reflexivity | cbn in Hk; contradiction].
Qed.

Definition qmap_ok (o : options) (f : Z -> Z) : Prop :=
  cap_like (o_qbase o) f /\ (o_zero_cap o = false -> forall q, f q = q).

Lemma nonadapter_rc o st r i : st <> StAdapters -> i_is_rc (snd (apply_stage o st (r, i))) = i_is_rc i.
Proof.
  intros Hst. destruct st; cbn [apply_stage]; try contradiction; try reflexivity.
  all: try (match goal with |- context [quality_trim_index ?a ?b ?c ?d] => destruct (quality_trim_index a b c d) end).
  all: repeat match goal with |- context [if ?c then _ else _] => destruct c end; reflexivity.
Qed.

(** a chain of non-adapter stages: slice of what it received, qualities in step (possibly zero-capped) *)
Lemma nonadapter_chain o : forall sts,
  Forall (fun st => st <> StAdapters /\ stage_ok o st) sts -> forall r1 i1, wf_read r1 ->
  let ri := fold_left (fun ri st => apply_stage o st ri) sts (r1, i1) in
  wf_read (fst ri) /\ i_is_rc (snd ri) = i_is_rc i1 /\ exists f, qmap_ok o f /\ sub_read f (fst ri) r1.
Proof.
  induction sts as [|st t IH]; intros Hall r1 i1 Hw1; cbn [fold_left].
  - cbn [fst snd]. split; [exact Hw1|]. split; [reflexivity|]. exists (fun q => q).
    split; [split; [apply cap_like_id | auto] | apply sub_read_refl].
  - inversion Hall as [|x l [Hx Hok] Hl]; subst.
    pose proof (nonadapter_stage o st r1 i1 Hx Hw1) as H. cbn zeta in H.
    pose proof (nonadapter_rc o st r1 i1 Hx) as Hrc.
    destruct (apply_stage o st (r1, i1)) as [r2 i2]. cbn [fst snd] in H, Hrc. destruct H as [Hw2 Hs2].
    specialize (IH Hl r2 i2 Hw2). cbn zeta in IH. destruct IH as (I1 & I2 & f & [Hc Hi] & Hs).
    split; [exact I1|]. split; [congruence|].
    destruct Hs2 as [Hs2 | [Hz Hs2]].
    + exists (fun q => f q). split; [split; assumption|]. exact (sub_read_trans (fun q => q) f _ r2 r1 Hs Hs2).
    + exists (fun q => f (capf (o_qbase o) q)). split.
      * split; [apply cap_like_comp; [apply cap_like_capf | exact Hc]|].
        intros Hno. specialize (Hok Hz). congruence.
      * exact (sub_read_trans (capf (o_qbase o)) f _ r2 r1 Hs Hs2).
Qed.

(** the output is a slice of [base], which is the input read or its reverse complement *)
Definition out_rel (o : options) (r r' : read) (rc : option bool) : Prop :=
  exists f base, qmap_ok o f /\ sub_read f r' base /\
                 ((base = r /\ rc <> Some true) \/ (base = revcomp_read r /\ rc = Some true /\ o_revcomp o = true)).

Lemma qmap_ok_comp o f g : qmap_ok o f -> qmap_ok o g -> qmap_ok o (fun q => g (f q)).
Proof.
  intros [Hf1 Hf2] [Hg1 Hg2]. split; [apply cap_like_comp; assumption|].
  intros Hno q. rewrite (Hf2 Hno), (Hg2 Hno). reflexivity.
Qed.

Theorem modify_slice_decomp order o r pre mid post :
  stages order o = pre ++ mid ++ post -> (mid = [] \/ mid = [StAdapters]) ->
  Forall (fun st => st <> StAdapters) pre -> Forall (fun st => st <> StAdapters) post ->
  Forall wf_padapter (o_adapters o) -> wf_read r ->
  (o_action o = ATrim \/ o_action o = ANone) ->
  wf_read (fst (modify order o r)) /\ out_rel o r (fst (modify order o r)) (i_is_rc (snd (modify order o r))).
Proof.
  intros Hdec Hmid Hpre Hpost Hwf Hr Hact.
  pose proof (stages_ok order o) as Hok. rewrite Hdec in Hok.
  apply Forall_app in Hok. destruct Hok as [Hokpre Hok]. apply Forall_app in Hok. destruct Hok as [_ Hokpost].
  assert (Hpre' : Forall (fun st => st <> StAdapters /\ stage_ok o st) pre).
  { apply Forall_forall. intros st Hin. split; [eapply Forall_forall in Hpre; eauto | eapply Forall_forall in Hokpre; eauto]. }
  assert (Hpost' : Forall (fun st => st <> StAdapters /\ stage_ok o st) post).
  { apply Forall_forall. intros st Hin. split; [eapply Forall_forall in Hpost; eauto | eapply Forall_forall in Hokpost; eauto]. }
  unfold modify. rewrite Hdec, !fold_left_app.
  pose proof (nonadapter_chain o pre Hpre' r (init_info r) Hr) as H1. cbn zeta in H1.
  destruct (fold_left (fun ri st => apply_stage o st ri) pre (r, init_info r)) as [r1 i1]. cbn [fst snd] in H1.
  destruct H1 as (Hw1 & Hrc1 & f1 & Hf1 & Hs1). cbn [init_info i_is_rc] in Hrc1.
  destruct Hmid as [-> | ->]; cbn [fold_left].
  - pose proof (nonadapter_chain o post Hpost' r1 i1 Hw1) as H2. cbn zeta in H2.
    destruct (fold_left (fun ri st => apply_stage o st ri) post (r1, i1)) as [r3 i3]. cbn [fst snd] in *.
    destruct H2 as (Hw3 & Hrc3 & f3 & Hf3 & Hs3). split; [exact Hw3|].
    exists (fun q => f3 (f1 q)), r. split; [apply qmap_ok_comp; assumption|]. split.
    + exact (sub_read_trans f1 f3 r3 r1 r Hs3 Hs1).
    + left. split; [reflexivity | rewrite Hrc3, Hrc1; discriminate].
  - pose proof (adapter_stage_slice o r1 i1 Hwf Hw1 Hact) as Ha. cbn zeta in Ha.
    destruct (apply_stage o StAdapters (r1, i1)) as [r2 i2]. cbn [fst snd] in Ha.
    destruct Ha as [Hw2 Ha].
    pose proof (nonadapter_chain o post Hpost' r2 i2 Hw2) as H2. cbn zeta in H2.
    destruct (fold_left (fun ri st => apply_stage o st ri) post (r2, i2)) as [r3 i3]. cbn [fst snd] in *.
    destruct H2 as (Hw3 & Hrc3 & f3 & Hf3 & Hs3). split; [exact Hw3|].
    destruct Ha as [(Hs2 & Hrc2 & Hrc2') | (Hrc & Hs2 & Hrc2)].
    + exists (fun q => f3 (f1 q)), r. split; [apply qmap_ok_comp; assumption|]. split.
      * pose proof (sub_read_trans f1 (fun q => q) r2 r1 r Hs2 Hs1) as H12.
        exact (sub_read_trans (fun q => f1 q) f3 r3 r2 r Hs3 H12).
      * left. split; [reflexivity|]. rewrite Hrc3.
        destruct (o_revcomp o) eqn:Eo; [rewrite (Hrc2 eq_refl); discriminate|].
        (* without --revcomp the adapter stage leaves the flag as it was *)
        rewrite (Hrc2' eq_refl), Hrc1. discriminate.
    + exists (fun q => f3 (f1 q)), (revcomp_read r). split; [apply qmap_ok_comp; assumption|]. split.
      * pose proof (sub_read_revcomp f1 r1 r Hr Hs1) as Hrv.
        pose proof (sub_read_trans f1 (fun q => q) r2 (revcomp_read r1) (revcomp_read r) Hs2 Hrv) as H12.
        exact (sub_read_trans (fun q => f1 q) f3 r3 r2 (revcomp_read r) Hs3 H12).
      * right. split; [reflexivity|]. split; [congruence | exact Hrc].
Qed.
