(** Proofs about poly_a_trim_index (Model/Qualtrim.v): the scan returns the
    least position maximising  (+1 per target base, -2 per other base)  among
    the positions whose prefix has at most 20% other bases. *)
From Coq Require Import ZArith List Bool Lia ZifyBool.
From CV Require Import Model.Qualtrim.
Import ListNotations.
Open Scope Z_scope.

(** score and number of non-target characters of the first j characters *)
Fixpoint psc (target : Z) (cs : list Z) (j : nat) : Z :=
  match j, cs with
  | S j', c :: cs' => (if c =? target then 1 else -2) + psc target cs' j'
  | _, _ => 0
  end.
Fixpoint per (target : Z) (cs : list Z) (j : nat) : Z :=
  match j, cs with
  | S j', c :: cs' => (if c =? target then 0 else 1) + per target cs' j'
  | _, _ => 0
  end.

Lemma psc_0 t cs : psc t cs 0 = 0. Proof. destruct cs; reflexivity. Qed.
Lemma per_0 t cs : per t cs 0 = 0. Proof. destruct cs; reflexivity. Qed.
Lemma psc_cons t c cs j : psc t (c :: cs) (S j) = (if c =? t then 1 else -2) + psc t cs j.
Proof. reflexivity. Qed.
Lemma per_cons t c cs j : per t (c :: cs) (S j) = (if c =? t then 0 else 1) + per t cs j.
Proof. reflexivity. Qed.

(** at most 20% other bases among the first j *)
Definition ok20 (t : Z) (cs : list Z) (j : nat) : Prop := 5 * per t cs j <= Z.of_nat j.

(** j is the least position with maximal score among the admissible ones
    (position 0 = "trim nothing", score 0, is always admissible) *)
Definition poly_best (t : Z) (cs : list Z) (j : nat) : Prop :=
  (j <= length cs)%nat /\ ok20 t cs j
  /\ (forall i, (i <= length cs)%nat -> ok20 t cs i -> psc t cs i <= psc t cs j)
  /\ (forall i, (i < j)%nat -> ok20 t cs i -> psc t cs i < psc t cs j).

Lemma pscan_spec t cs : forall cnt score errors bs best,
  let r := pscan t cs cnt score errors bs best in
  let okk j := 5 * (errors + per t cs j) <= cnt + Z.of_nat j in
  (r = best /\ forall j, (1 <= j <= length cs)%nat -> okk j -> score + psc t cs j <= bs)
  \/ (exists j, (1 <= j <= length cs)%nat /\ r = cnt + Z.of_nat j /\ okk j /\ bs < score + psc t cs j
        /\ (forall i, (1 <= i <= length cs)%nat -> okk i -> psc t cs i <= psc t cs j)
        /\ (forall i, (1 <= i < j)%nat -> okk i -> psc t cs i < psc t cs j)).
Proof.
  induction cs as [|c cs IH]; intros cnt score errors bs best; cbn [pscan]; cbv zeta.
  - left. split; [reflexivity|]. intros j Hj. cbn in Hj. lia.
  - set (score' := if c =? t then score + 1 else score - 2).
    set (errors' := if c =? t then errors else errors + 1).
    assert (Hs : score' = score + (if c =? t then 1 else -2)) by (unfold score'; destruct (c =? t); lia).
    assert (He : errors' = errors + (if c =? t then 0 else 1)) by (unfold errors'; destruct (c =? t); lia).
    destruct ((bs <? score') && (errors' * 5 <=? cnt + 1)) eqn:Hup.
    + apply andb_prop in Hup. destruct Hup as [Hup1 Hup2].
      right. specialize (IH (cnt + 1) score' errors' score' (cnt + 1)). cbv zeta in IH.
      destruct IH as [[Hr Hall]|[j (Hj & Hr & Hok & Hgt & Hall & Hlt)]].
      * exists 1%nat. cbn [length]. rewrite psc_cons, per_cons, psc_0, per_0.
        split; [lia|]. split; [lia|]. split; [lia|]. split; [lia|]. split.
        -- intros i Hi Hoki. destruct i as [|i]; [lia|]. rewrite psc_cons. rewrite per_cons in Hoki.
           destruct i as [|i]; [rewrite psc_0; lia|].
           specialize (Hall (S i) ltac:(lia)). lia.
        -- intros i Hi. lia.
      * exists (S j). cbn [length]. rewrite psc_cons, per_cons.
        split; [lia|]. split; [lia|]. split; [lia|]. split; [lia|]. split.
        -- intros i Hi Hoki. destruct i as [|i]; [lia|]. rewrite psc_cons. rewrite per_cons in Hoki.
           destruct i as [|i]; [rewrite psc_0; lia|].
           specialize (Hall (S i) ltac:(lia)). lia.
        -- intros i Hi Hoki. destruct i as [|i]; [lia|]. rewrite psc_cons. rewrite per_cons in Hoki.
           destruct i as [|i]; [rewrite psc_0; lia|].
           specialize (Hlt (S i) ltac:(lia)). lia.
    + specialize (IH (cnt + 1) score' errors' bs best). cbv zeta in IH.
      apply andb_false_iff in Hup.
      destruct IH as [[Hr Hall]|[j (Hj & Hr & Hok & Hgt & Hall & Hlt)]].
      * left. split; [exact Hr|]. intros j Hj Hokj. destruct j as [|j]; [lia|].
        rewrite psc_cons. rewrite per_cons in Hokj. destruct j as [|j].
        -- rewrite psc_0. rewrite per_0 in Hokj. destruct Hup as [Hup|Hup]; lia.
        -- specialize (Hall (S j) ltac:(cbn [length] in Hj; lia)). lia.
      * right. exists (S j). cbn [length]. rewrite psc_cons, per_cons.
        split; [lia|]. split; [lia|]. split; [lia|]. split; [lia|]. split.
        -- intros i Hi Hoki. destruct i as [|i]; [lia|]. rewrite psc_cons. rewrite per_cons in Hoki.
           destruct i as [|i].
           ++ rewrite psc_0. rewrite per_0 in Hoki. destruct Hup as [Hup|Hup]; lia.
           ++ specialize (Hall (S i) ltac:(lia)). lia.
        -- intros i Hi Hoki. destruct i as [|i]; [lia|]. rewrite psc_cons. rewrite per_cons in Hoki.
           destruct i as [|i].
           ++ rewrite psc_0. rewrite per_0 in Hoki. destruct Hup as [Hup|Hup]; lia.
           ++ specialize (Hlt (S i) ltac:(lia)). lia.
Qed.

Theorem pscan_best t cs :
  exists j, pscan t cs 0 0 0 0 0 = Z.of_nat j /\ poly_best t cs j.
Proof.
  pose proof (pscan_spec t cs 0 0 0 0 0) as H. cbv zeta in H.
  destruct H as [[Hr Hall]|[j (Hj & Hr & Hok & Hgt & Hall & Hlt)]].
  - exists 0%nat. split; [exact Hr|]. unfold poly_best, ok20. rewrite psc_0, per_0.
    split; [lia|]. split; [lia|]. split.
    + intros i Hi Hoki. destruct i as [|i]; [rewrite psc_0; lia|]. specialize (Hall (S i) ltac:(lia)). lia.
    + intros i Hi. lia.
  - exists j. split; [lia|]. unfold poly_best, ok20. split; [lia|]. split; [lia|]. split.
    + intros i Hi Hoki. destruct i as [|i]; [rewrite psc_0; lia|]. specialize (Hall (S i) ltac:(lia)). lia.
    + intros i Hi Hoki. destruct i as [|i]; [rewrite psc_0; lia|]. specialize (Hlt (S i) ltac:(lia)). lia.
Qed.

Lemma poly_best_unique t cs j1 j2 : poly_best t cs j1 -> poly_best t cs j2 -> j1 = j2.
Proof.
  intros (L1 & A1 & M1 & S1) (L2 & A2 & M2 & S2).
  destruct (Nat.lt_trichotomy j1 j2) as [H|[H|H]]; [|assumption|].
  - specialize (S2 j1 H A1). specialize (M1 j2 L2 A2). lia.
  - specialize (S1 j2 H A2). specialize (M2 j1 L1 A1). lia.
Qed.

(** poly_a_trim_index: tails (heads) shorter than three bases are ignored *)
Theorem poly_a_spec s :
  exists j, poly_best 65 (rev s) j /\
    poly_a_trim_index s false = zlen s - (if (Z.of_nat j <? 3) then 0 else Z.of_nat j).
Proof.
  destruct (pscan_best 65 (rev s)) as (j & E & B). exists j. split; [exact B|].
  unfold poly_a_trim_index, polycount. rewrite E. reflexivity.
Qed.

Theorem poly_t_spec s :
  exists j, poly_best 84 s j /\
    poly_a_trim_index s true = (if (Z.of_nat j <? 3) then 0 else Z.of_nat j).
Proof.
  destruct (pscan_best 84 s) as (j & E & B). exists j. split; [exact B|].
  unfold poly_a_trim_index, polycount. rewrite E. reflexivity.
Qed.

Lemma poly_a_range s b : 0 <= poly_a_trim_index s b <= zlen s.
Proof.
  destruct b.
  - destruct (poly_t_spec s) as (j & (L & _) & E). rewrite E. unfold zlen. destruct (Z.of_nat j <? 3); lia.
  - destruct (poly_a_spec s) as (j & (L & _) & E). rewrite E. rewrite rev_length in L. unfold zlen.
    destruct (Z.of_nat j <? 3); lia.
Qed.
