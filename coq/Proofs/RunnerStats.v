(** Runner protocol, part 4: the statistics.  In a commutative monoid of statistics, a run that
    finishes has merged exactly the statistics of all chunks: the main process' accumulator equals
    the one-core total, whatever worker processed which chunk and in whatever order results arrived. *)
From Coq Require Import ZArith List Bool Arith Lia Permutation.
From AAC_tactics Require Import AAC.
From CV Require Import Model.Runner Proofs.RunnerSafety Proofs.RunnerLive.
Import ListNotations.

Section Stats.
  Variable A O S : Type.
  Variable f : A -> O.
  Variable g : A -> S.
  Variable szero : S.
  Variable sadd : S -> S -> S.
  Variable chunks : list A.
  Variable W : nat.
  Variable bad : nat -> bool.
  Variable rfail : option nat.
  Variable ffail : bool.
  Hypothesis W_pos : 0 < W.
  Hypothesis sadd_assoc : forall a b c, sadd a (sadd b c) = sadd (sadd a b) c.
  Hypothesis sadd_comm : forall a b, sadd a b = sadd b a.
  Hypothesis sadd_zero : forall a, sadd szero a = a.
  Notation C := (length chunks).
  Hypothesis no_bad : forall i, i < C -> bad i = false.
  Hypothesis rfail_never : forall k, rfail = Some k -> C < k.

  Instance aac_assoc : Associative eq sadd := sadd_assoc.
  Instance aac_comm : Commutative eq sadd := sadd_comm.
  Instance aac_unit : Unit eq sadd szero.
  Proof. constructor; intros; [apply sadd_zero | rewrite sadd_comm; apply sadd_zero]. Qed.

  Notation state := (state O S).
  Notation step := (step A O S f g sadd chunks W bad rfail ffail).
  Notation init := (init O S szero W).
  Notation gi := (gi A S g szero chunks).
  Notation binv := (binv A O S chunks W rfail ffail).
  Notation linv := (linv A O S f chunks W rfail ffail).

  Notation stp := (stp O S).

  Lemma in_drop_for' {M} w : forall (l : list (nat * M)) x, In x (drop_for w l) -> In x l.
  Proof.
    induction l as [|[v m] t IH]; cbn; [tauto|]. intros x. destruct (Nat.eqb v w); [intros H; right; exact H|].
    intros [H|H]; [left; exact H | right; apply IH; exact H].
  Qed.

  Definition bigsum (l : list S) : S := fold_right sadd szero l.

  Lemma bigsum_app a b : bigsum (a ++ b) = sadd (bigsum a) (bigsum b).
  Proof. induction a as [|x t IH]; cbn [app bigsum fold_right]; [symmetry; apply sadd_zero|]. fold (bigsum (t ++ b)). rewrite IH. fold (bigsum t). aac_reflexivity. Qed.

  Lemma bigsum_zeros {X} (h : X -> S) l : (forall x, In x l -> h x = szero) -> bigsum (map h l) = szero.
  Proof.
    induction l as [|x t IH]; intros H; [reflexivity|]. cbn [map bigsum fold_right]. fold (bigsum (map h t)).
    rewrite (H x (or_introl eq_refl)), IH; [apply sadd_zero | intros y Hy; apply H; right; exact Hy].
  Qed.

  (** taking one point out of a duplicate-free list *)
  Lemma bigsum_extract (h : nat -> S) w : forall l, NoDup l -> In w l ->
    bigsum (map h l) = sadd (h w) (bigsum (map h (remove Nat.eq_dec w l))).
  Proof.
    induction l as [|x t IH]; intros Hnd Hin; [contradiction|]. inversion Hnd; subst. cbn [map bigsum fold_right remove].
    fold (bigsum (map h t)). destruct (Nat.eq_dec w x) as [<-|Hne].
    - rewrite (notin_remove Nat.eq_dec t w H1). reflexivity.
    - destruct Hin as [Hin|Hin]; [congruence|]. cbn [map bigsum fold_right]. fold (bigsum (map h (remove Nat.eq_dec w t))).
      rewrite (IH H2 Hin). aac_reflexivity.
  Qed.

  Lemma bigsum_point (h h' : nat -> S) w l : NoDup l -> In w l -> (forall v, v <> w -> h' v = h v) ->
    exists R, bigsum (map h l) = sadd (h w) R /\ bigsum (map h' l) = sadd (h' w) R.
  Proof.
    intros Hnd Hin Hext. exists (bigsum (map h (remove Nat.eq_dec w l))). split; [apply bigsum_extract; assumption|].
    rewrite (bigsum_extract h' w l Hnd Hin). f_equal. f_equal. apply map_ext_in. intros v Hv. apply in_remove in Hv. apply Hext. tauto.
  Qed.

  Lemma bigsum_drop {M} (h : nat * M -> S) w (l : list (nat * M)) m : head_for w l = Some m ->
    bigsum (map h l) = sadd (h (w, m)) (bigsum (map h (drop_for w l))).
  Proof.
    intros Hh. destruct (head_drop w l m Hh) as (a & b & Hl & Hd & _). rewrite Hd. rewrite Hl at 1.
    rewrite !map_app, !bigsum_app. cbn [map bigsum fold_right]. fold (bigsum (map h b)). aac_reflexivity.
  Qed.

  Definition live (s : state) (w : nat) : S := match wstate s w with Done => szero | _ => wacc s w end.
  Definition finv (x : nat * msg_out O S) : S := match snd x with MFin st => st | _ => szero end.
  Definition chv (x : nat * msg_in) : S := match snd x with MChunk i => gi i | _ => szero end.
  Definition T (s : state) : S :=
    sadd (macc s) (sadd (bigsum (map (live s) (seq 0 W))) (sadd (bigsum (map finv (results s))) (bigsum (map chv (inflight s))))).

  Record sinv (s : state) : Prop := mkSI {
    s_noerr : forall x, In x (inflight s) -> snd x <> MErrIn;
    s_sum : T s = bigsum (map gi (seq 0 (next s)))
  }.

  Lemma sinv_init : sinv init.
  Proof.
    constructor; [intros x []|]. unfold T. cbn [init macc results inflight next map seq bigsum fold_right].
    rewrite (bigsum_zeros (live init) (seq 0 W)); [aac_reflexivity | intros; reflexivity].
  Qed.

  Ltac fields := unfold stp; cbn [next rdone pills queue inflight wstate wacc results pending cur written macc open failed].

  Lemma live_ext s s' : (forall v, wstate s' v = wstate s v) -> (forall v, wacc s' v = wacc s v) -> map (live s') (seq 0 W) = map (live s) (seq 0 W).
  Proof. intros H1 H2. apply map_ext. intros v. unfold live. rewrite H1, H2. reflexivity. Qed.

  Lemma sinv_step s l s' : linv s -> sinv s -> step s l = Some s' -> sinv s'.
  Proof.
    intros (HI & HB & HO & HP & HK) [Hne Hsum] Hstep.
    destruct (step_inv A O S f g sadd chunks W bad rfail ffail _ _ _ Hstep) as [Hf Hc].
    destruct l as [w|w|w| |w|w|w|w|w|w|].
    - (* LReq *) destruct Hc as (_ & Hw & Hws & ->). constructor; fields; [exact Hne|]. rewrite <- Hsum. unfold T; fields.
      f_equal. f_equal. f_equal. apply map_ext. intros v. unfold live; fields. unfold upd. destruct (Nat.eqb v w) eqn:E; [|reflexivity].
      apply Nat.eqb_eq in E. subst v. rewrite Hws. reflexivity.
    - (* LSend *) destruct Hc as (_ & Hr & Hfn & Hlt & Hm & ->).
      set (s1 := stp s (Datatypes.S (next s)) (rdone s) (pills s) (remove1 w (queue s)) (inflight s ++ [(w, MChunk (next s))]) (wstate s) (wacc s) (results s) false).
      assert (Hl : map (live s1) (seq 0 W) = map (live s) (seq 0 W)) by (apply live_ext; intros; reflexivity).
      constructor.
      + unfold s1; fields. intros x Hx. apply in_app_or in Hx. destruct Hx as [Hx|[<-|[]]]; [apply Hne; exact Hx | discriminate].
      + assert (Hrhs : bigsum (map gi (seq 0 (Datatypes.S (next s)))) = sadd (bigsum (map gi (seq 0 (next s)))) (gi (next s))).
        { rewrite seq_S, map_app, bigsum_app. cbn [plus map bigsum fold_right]. aac_reflexivity. }
        unfold T. rewrite Hl. unfold s1; fields. rewrite Hrhs, <- Hsum. unfold T.
        rewrite map_app, bigsum_app. cbn [map bigsum fold_right chv snd]. aac_reflexivity.
    - (* LPill *) destruct Hc as (_ & Hr & Hfn & Hn & Hpl & Hm & ->).
      set (s1 := stp s (next s) (Nat.eqb (Datatypes.S (pills s)) W) (Datatypes.S (pills s)) (remove1 w (queue s)) (inflight s ++ [(w, MPill)]) (wstate s) (wacc s) (results s) false).
      assert (Hl : map (live s1) (seq 0 W) = map (live s) (seq 0 W)) by (apply live_ext; intros; reflexivity).
      constructor.
      + unfold s1; fields. intros x Hx. apply in_app_or in Hx. destruct Hx as [Hx|[<-|[]]]; [apply Hne; exact Hx | discriminate].
      + unfold T. rewrite Hl. unfold s1; fields. rewrite <- Hsum. unfold T.
        rewrite map_app, bigsum_app. cbn [map bigsum fold_right chv snd]. aac_reflexivity.
    - (* LRFail: never enabled *) destruct Hc as (_ & Hr & Hfn & _). exfalso. unfold reader_fails_now in Hfn.
      destruct rfail as [k|] eqn:Erf; [|discriminate]. apply Nat.eqb_eq in Hfn. pose proof (rfail_never k eq_refl). pose proof (b_nc _ _ _ _ _ _ _ _ HB). lia.
    - (* LTake *) destruct Hc as (_ & Hws & i & Hh & Hcase).
      assert (Hinw : In (w, MChunk i) (inflight s)).
      { destruct (head_drop w _ _ Hh) as (a & b & Hl & _). rewrite Hl. apply in_or_app. right. left. reflexivity. }
      assert (Hw : w < W) by (apply (b_in _ _ _ _ _ _ _ _ HB _ Hinw)).
      assert (Hi : i < C).
      { destruct HI as [Hr _ _ Hb _ _ _]. specialize (Hb i).
        assert (Hin : In i (RunnerSafety.flight O S s)).
        { unfold RunnerSafety.flight. apply in_or_app. left. destruct (head_drop w _ _ Hh) as (a & b & Hl & _). rewrite Hl. rewrite chunk_ids_app. apply in_or_app. right. cbn. left. reflexivity. }
        specialize (Hb Hin). lia. }
      destruct Hcase as [(Hb & _)|(Hb & c & Hc' & ->)]; [rewrite (no_bad i Hi) in Hb; discriminate|].
      set (s1 := stp s (next s) (rdone s) (pills s) (queue s) (drop_for w (inflight s)) (upd (wstate s) w Idle)
                     (upd (wacc s) w (sadd (wacc s w) (g c))) (results s ++ [(w, MResult i (f c))]) false).
      constructor.
      + unfold s1; fields. intros x Hx. apply Hne. eapply in_drop_for'. exact Hx.
      + destruct (bigsum_point (live s) (live s1) w (seq 0 W) (seq_NoDup W 0)) as (R & HR0 & HR1); [apply in_seq; lia | |].
        { intros v Hv. unfold live, s1; fields. unfold upd. assert (E : Nat.eqb v w = false) by (apply Nat.eqb_neq; exact Hv). rewrite E. reflexivity. }
        assert (Hl1 : live s1 w = sadd (wacc s w) (g c)) by (unfold live, s1; fields; unfold upd; rewrite Nat.eqb_refl; reflexivity).
        assert (Hl0 : live s w = wacc s w) by (unfold live; rewrite Hws; reflexivity).
        unfold T. rewrite HR1, Hl1. unfold s1; fields. rewrite <- Hsum. unfold T. rewrite HR0, Hl0.
        rewrite map_app, bigsum_app. cbn [map bigsum fold_right finv snd].
        rewrite (bigsum_drop chv w (inflight s) _ Hh). cbn [chv snd]. unfold Runner.gi. rewrite Hc'. aac_reflexivity.
    - (* LFin *) destruct Hc as (_ & Hws & Hh & ->).
      assert (Hinw : In (w, MPill) (inflight s)).
      { destruct (head_drop w _ _ Hh) as (a & b & Hl & _). rewrite Hl. apply in_or_app. right. left. reflexivity. }
      assert (Hw : w < W) by (apply (b_in _ _ _ _ _ _ _ _ HB _ Hinw)).
      set (s1 := stp s (next s) (rdone s) (pills s) (queue s) (drop_for w (inflight s)) (upd (wstate s) w Done) (wacc s)
                     (results s ++ [(w, MFin (wacc s w))]) false).
      constructor.
      + unfold s1; fields. intros x Hx. apply Hne. eapply in_drop_for'. exact Hx.
      + destruct (bigsum_point (live s) (live s1) w (seq 0 W) (seq_NoDup W 0)) as (R & HR0 & HR1); [apply in_seq; lia | |].
        { intros v Hv. unfold live, s1; fields. unfold upd. assert (E : Nat.eqb v w = false) by (apply Nat.eqb_neq; exact Hv). rewrite E. reflexivity. }
        assert (Hl1 : live s1 w = szero) by (unfold live, s1; fields; unfold upd; rewrite Nat.eqb_refl; reflexivity).
        assert (Hl0 : live s w = wacc s w) by (unfold live; rewrite Hws; reflexivity).
        unfold T. rewrite HR1, Hl1. unfold s1; fields. rewrite <- Hsum. unfold T. rewrite HR0, Hl0.
        rewrite map_app, bigsum_app. cbn [map bigsum fold_right finv snd].
        rewrite (bigsum_drop chv w (inflight s) _ Hh). cbn [chv snd]. aac_reflexivity.
    - (* LWErr: no error message is ever in a pipe *) destruct Hc as (_ & Hws & Hh & _). exfalso.
      destruct (head_drop w _ _ Hh) as (a & b & Hl & _). apply (Hne (w, MErrIn)); [rewrite Hl; apply in_or_app; right; left; reflexivity | reflexivity].
    - (* LRecv *) destruct Hc as (_ & Hm & i & o & Hh & p & c & wr & Hfl' & ->).
      constructor; fields; [exact Hne|]. rewrite <- Hsum. unfold T; fields.
      rewrite (bigsum_drop finv w (results s) _ Hh). cbn [finv snd].
      match goal with |- context [map (live ?s1) (seq 0 W)] =>
        replace (map (live s1) (seq 0 W)) with (map (live s) (seq 0 W)) by (symmetry; apply live_ext; intros; reflexivity) end.
      aac_reflexivity.
    - (* LRecvFin *) destruct Hc as (_ & Hm & st & Hh & ->).
      constructor; fields; [exact Hne|]. rewrite <- Hsum. unfold T; fields.
      rewrite (bigsum_drop finv w (results s) _ Hh). cbn [finv snd].
      match goal with |- context [map (live ?s1) (seq 0 W)] =>
        replace (map (live s1) (seq 0 W)) with (map (live s) (seq 0 W)) by (symmetry; apply live_ext; intros; reflexivity) end.
      aac_reflexivity.
    - (* LRecvErr *) destruct Hc as (_ & Hm & Hh & ->).
      constructor; fields; [exact Hne|]. rewrite <- Hsum. unfold T; fields.
      rewrite (bigsum_drop finv w (results s) _ Hh). cbn [finv snd].
      match goal with |- context [map (live ?s1) (seq 0 W)] =>
        replace (map (live s1) (seq 0 W)) with (map (live s) (seq 0 W)) by (symmetry; apply live_ext; intros; reflexivity) end.
      aac_reflexivity.
    - (* LFmtFail *) destruct Hc as (_ & ->). constructor; fields; [exact Hne|]. rewrite <- Hsum. unfold T; fields.
      match goal with |- context [map (live ?s1) (seq 0 W)] =>
        replace (map (live s1) (seq 0 W)) with (map (live s) (seq 0 W)) by (symmetry; apply live_ext; intros; reflexivity) end.
      reflexivity.
  Qed.

  Lemma sinv_reachable s : reachable A O S f g szero sadd chunks W bad rfail ffail s -> sinv s.
  Proof.
    intros [ls Hr]. revert Hr. generalize sinv_init (linv_init A O S f szero chunks W rfail ffail W_pos). generalize init.
    induction ls as [|l t IH]; intros s0 HS0 HL0 Hr; cbn in Hr.
    - inversion Hr; subst. exact HS0.
    - destruct (step s0 l) as [s1|] eqn:E; [|discriminate].
      pose proof (linv_step A O S f g szero sadd chunks W bad rfail ffail W_pos _ _ _ HL0 E) as HL1.
      apply (IH s1); [apply (sinv_step s0 l s1 HL0 HS0 E) | exact HL1 | exact Hr].
  Qed.

  (** whatever worker processed which chunk and in whatever order the results arrived: the merged
      statistics of a finished run are the one-core total *)
  Theorem finished_stats s : reachable A O S f g szero sadd chunks W bad rfail ffail s -> finished_ok s = true ->
    macc s = total_stats A S g szero sadd chunks.
  Proof.
    intros Hreach Hfin. destruct (sinv_reachable s Hreach) as [Hne Hsum].
    destruct (linv_reachable A O S f g szero sadd chunks W bad rfail ffail W_pos s Hreach) as (HI & HB & HO & HP & HK).
    destruct (finished_means_no_fault A O S f g szero sadd chunks W bad rfail ffail W_pos s Hreach Hfin) as (_ & Hn & _ & _).
    unfold finished_ok in Hfin. apply andb_prop in Hfin. destruct Hfin as [Hf Hop].
    destruct (open s) as [|x ox] eqn:Eo; [|discriminate].
    assert (H1 : bigsum (map (live s) (seq 0 W)) = szero).
    { apply bigsum_zeros. intros w Hw. apply in_seq in Hw. unfold live. destruct (wstate s w) eqn:Ews; try reflexivity.
      all: exfalso; destruct (o_live _ _ _ _ HO w ltac:(lia) ltac:(congruence)) as [Hmo _]; rewrite Eo in Hmo; discriminate. }
    assert (H2 : results s = []).
    { destruct (results s) as [|y t] eqn:E; [reflexivity|]. exfalso.
      assert (Hy : In y (results s)) by (rewrite E; left; reflexivity). pose proof (o_in _ _ _ _ HO _ Hy) as Hmo. rewrite Eo in Hmo. discriminate. }
    assert (H3 : bigsum (map chv (inflight s)) = szero).
    { apply bigsum_zeros. intros [w m] Hx. unfold chv. cbn [snd]. destruct m as [i| |]; try reflexivity. exfalso.
      pose proof (b_in _ _ _ _ _ _ _ _ HB _ Hx) as Hlt. cbn in Hlt.
      destruct (shape_nonerr O S szero sadd W bad s w _ (HP w Hlt) Hx eq_refl) as (Hws & _).
      destruct (o_live _ _ _ _ HO w Hlt ltac:(congruence)) as [Hmo _]. rewrite Eo in Hmo. discriminate. }
    unfold T in Hsum. rewrite H1, H2, H3, Hn in Hsum. cbn [map bigsum fold_right] in Hsum.
    unfold total_stats, ssum. fold (bigsum (map gi (seq 0 C))). rewrite <- Hsum. aac_reflexivity.
  Qed.
End Stats.

(** closed form: the hypotheses about faults are consequences of finishing *)
Theorem finished_stats_total (A O S : Type) (f : A -> O) (g : A -> S) szero sadd chunks W bad rfail ffail s :
  0 < W ->
  (forall a b c, sadd a (sadd b c) = sadd (sadd a b) c) -> (forall a b, sadd a b = sadd b a) -> (forall a, sadd szero a = a) ->
  reachable A O S f g szero sadd chunks W bad rfail ffail s -> finished_ok s = true ->
  written s = map f chunks /\ macc s = total_stats A S g szero sadd chunks.
Proof.
  intros HW Ha Hc Hz Hr Hf.
  destruct (finished_means_no_fault A O S f g szero sadd chunks W bad rfail ffail HW s Hr Hf) as (_ & _ & Hrf & Hnb).
  split; [eapply finished_complete; eauto|].
  apply (finished_stats A O S f g szero sadd chunks W bad rfail ffail HW Ha Hc Hz Hnb Hrf s Hr Hf).
Qed.
