(** Optimality of the cost reported by Aligner.locate (indels enabled, alignments that may stop
    anywhere in the query -- so that the DP starts in column 0): no alignment of the two reported
    intervals is cheaper than the reported number of errors.  Together with AlignDist.v the
    reported errors ARE the edit distance of the reported intervals.

    Invariant: every cell of the column holds a lower bound (capped at k+1) on the cost of every
    alignment ending at that cell from every admissible start; cells beyond the Ukkonen cut-off
    have no alignment of cost <= k at all (diagonal monotonicity of the edit distance). *)
From Coq Require Import ZArith List Bool Lia.
From CV Require Import Generated.Tables Generated.Scores Model.Align Proofs.AlignProofs Proofs.AdapterProofs Proofs.AlignDist.
Import ListNotations.
Open Scope Z_scope.

Section EdInv.
  Variable eqc : Z -> Z -> bool.
  Variable IND : Z.
  Hypothesis IND_pos : 1 <= IND.
  Notation ed := (ed eqc IND).

  Lemma ed_snoc_inv A B c : ed A B c -> forall a x b y, A = a ++ [x] -> B = b ++ [y] ->
    (eqc x y = true /\ ed a b c) \/ ed a b (c - 1) \/ ed a (b ++ [y]) (c - IND) \/ ed (a ++ [x]) b (c - IND).
  Proof.
    induction 1 as [|a0 b0 c x0 y0 He H IH|a0 b0 c x0 y0 H IH|a0 b0 c x0 H IH|a0 b0 c y0 H IH|a0 b0 c c' H IH Hle];
      intros a x b y HA HB.
    - destruct a; discriminate.
    - apply app_inj_tail in HA. apply app_inj_tail in HB. destruct HA as [-> ->]. destruct HB as [-> ->]. left. split; assumption.
    - apply app_inj_tail in HA. apply app_inj_tail in HB. destruct HA as [-> ->]. destruct HB as [-> ->]. right. left.
      replace (c + 1 - 1) with c by lia. exact H.
    - apply app_inj_tail in HA. destruct HA as [-> ->]. subst b0. right. right. left. replace (c + IND - IND) with c by lia. exact H.
    - apply app_inj_tail in HB. destruct HB as [-> ->]. subst a0. right. right. right. replace (c + IND - IND) with c by lia. exact H.
    - destruct (IH a x b y HA HB) as [[He H1]|[H1|[H1|H1]]].
      + left. split; [exact He | eapply ed_weak; eauto].
      + right. left. eapply ed_weak; eauto. lia.
      + right. right. left. eapply ed_weak; eauto. lia.
      + right. right. right. eapply ed_weak; eauto. lia.
  Qed.

  Lemma ed_drop_ref A b c : ed A b c -> forall a x, A = a ++ [x] -> ed a b (c + IND).
  Proof.
    induction 1 as [|a0 b0 c x0 y0 He H IH|a0 b0 c x0 y0 H IH|a0 b0 c x0 H IH|a0 b0 c y0 H IH|a0 b0 c c' H IH Hle]; intros a x HA.
    - destruct a; discriminate.
    - apply app_inj_tail in HA. destruct HA as [-> ->]. apply (ed_ins eqc IND). exact H.
    - apply app_inj_tail in HA. destruct HA as [-> ->]. eapply ed_weak; [apply (ed_ins eqc IND); exact H | lia].
    - apply app_inj_tail in HA. destruct HA as [-> ->]. eapply ed_weak; [exact H | lia].
    - apply (ed_ins eqc IND). apply (IH a x HA).
    - eapply ed_weak; [apply (IH a x HA) | lia].
  Qed.

  Lemma ed_drop_query a B c : ed a B c -> forall b y, B = b ++ [y] -> ed a b (c + IND).
  Proof.
    induction 1 as [|a0 b0 c x0 y0 He H IH|a0 b0 c x0 y0 H IH|a0 b0 c x0 H IH|a0 b0 c y0 H IH|a0 b0 c c' H IH Hle]; intros b y HB.
    - destruct b; discriminate.
    - apply app_inj_tail in HB. destruct HB as [-> ->]. apply (ed_del eqc IND). exact H.
    - apply app_inj_tail in HB. destruct HB as [-> ->]. eapply ed_weak; [apply (ed_del eqc IND); exact H | lia].
    - apply (ed_del eqc IND). apply (IH b y HB).
    - apply app_inj_tail in HB. destruct HB as [-> ->]. eapply ed_weak; [exact H | lia].
    - eapply ed_weak; [apply (IH b y HB) | lia].
  Qed.

  Lemma ed_len_r : forall a b c, ed a b c -> a = [] -> zlen b * IND <= c.
  Proof.
    induction 1; intros Ha; subst; try (destruct a; discriminate).
    - cbn; lia.
    - specialize (IHed eq_refl). unfold zlen in *. rewrite app_length. cbn [length]. lia.
    - specialize (IHed eq_refl). lia.
  Qed.

  Lemma ed_len_l : forall a b c, ed a b c -> b = [] -> zlen a * IND <= c.
  Proof.
    induction 1; intros Hb; subst; try (destruct b; discriminate).
    - cbn; lia.
    - specialize (IHed eq_refl). unfold zlen in *. rewrite app_length. cbn [length]. lia.
    - specialize (IHed eq_refl). lia.
  Qed.
End EdInv.

Section Opt.
  Variable eqc : Z -> Z -> bool.
  Variable thr : Z -> Z.
  Variable cfg : acfg.
  Variable rawref : list Z.
  Variable s1 s2 : list Z.

  Notation m := (zlen s1).
  Notation n := (zlen s2).
  Notation k := (thr m).
  Notation IND := (indel_cost cfg).
  Hypothesis IND_pos : 1 <= IND.
  Hypothesis k_nonneg : 0 <= k.
  Notation ed := (AlignDist.ed eqc IND).

  (** admissible starts: row 0 unless the alignment may start inside the reference (then column 0);
      column 0 unless it may start inside the query (then row 0) *)
  Definition adm (rs qs : Z) : Prop :=
    (rs = 0 \/ (start_in_ref cfg = true /\ qs = 0)) /\ (qs = 0 \/ (start_in_query cfg = true /\ rs = 0)).

  Definition LB (i j v : Z) : Prop :=
    forall rs qs c, adm rs qs -> 0 <= rs <= i -> 0 <= qs <= j -> ed (zslice s1 rs i) (zslice s2 qs j) c -> v <= c.

  Definition capk (x : Z) : Z := Z.min x (k + 1).

  Lemma LB_weaken i j v v' : LB i j v -> v' <= v -> LB i j v'.
  Proof. intros H Hv rs qs c Ha Hr Hq He. specialize (H rs qs c Ha Hr Hq He). lia. Qed.

  Lemma slice_snoc1 rs i : 0 <= rs <= i - 1 -> i <= m -> zslice s1 rs i = zslice s1 rs (i - 1) ++ [znth 0 s1 (i - 1)].
  Proof. intros H1 H2. replace i with (i - 1 + 1) at 1 by lia. apply zslice_snoc; lia. Qed.
  Lemma slice_snoc2 qs j : 0 <= qs <= j - 1 -> j <= n -> zslice s2 qs j = zslice s2 qs (j - 1) ++ [znth 0 s2 (j - 1)].
  Proof. intros H1 H2. replace j with (j - 1 + 1) at 1 by lia. apply zslice_snoc; lia. Qed.

  Lemma ed_ins_all1 b : ed [] b (zlen b * IND).
  Proof. apply (ed_ins_all eqc IND); exact IND_pos. Qed.
  Lemma ed_del_all1 a : ed a [] (zlen a * IND).
  Proof. apply (ed_del_all eqc IND); exact IND_pos. Qed.

  (** the three ways an alignment can reach cell (i, j), plus the degenerate ones *)
  Lemma LB_cases i j rs qs c : 1 <= i <= m -> 1 <= j <= n -> adm rs qs -> 0 <= rs <= i -> 0 <= qs <= j ->
    ed (zslice s1 rs i) (zslice s2 qs j) c ->
    (rs <= i - 1 /\ qs <= j - 1 /\
       ((eqc (znth 0 s1 (i - 1)) (znth 0 s2 (j - 1)) = true /\ ed (zslice s1 rs (i - 1)) (zslice s2 qs (j - 1)) c) \/
        ed (zslice s1 rs (i - 1)) (zslice s2 qs (j - 1)) (c - 1) \/
        ed (zslice s1 rs (i - 1)) (zslice s2 qs j) (c - IND) \/
        ed (zslice s1 rs i) (zslice s2 qs (j - 1)) (c - IND))) \/
    (rs = i /\ qs = 0 /\ start_in_ref cfg = true /\ j * IND <= c) \/
    (qs = j /\ rs = 0 /\ start_in_query cfg = true /\ i * IND <= c).
  Proof.
    intros Hi Hj [Ha1 Ha2] Hr Hq He.
    destruct (Z.eq_dec rs i) as [->|Hne1].
    - right. left. destruct Ha1 as [H0|[Hs ->]]; [lia|]. rewrite zslice_empty in He.
      pose proof (ed_len_r eqc IND _ _ _ He eq_refl) as Hl. rewrite zslice_length in Hl by lia. repeat split; auto; lia.
    - destruct (Z.eq_dec qs j) as [->|Hne2].
      + right. right. destruct Ha2 as [H0|[Hs ->]]; [lia|]. rewrite zslice_empty in He.
        pose proof (ed_len_l eqc IND _ _ _ He eq_refl) as Hl. rewrite zslice_length in Hl by lia. repeat split; auto; lia.
      + left. split; [lia|]. split; [lia|].
        rewrite (slice_snoc1 rs i) in He by lia. rewrite (slice_snoc2 qs j) in He by lia.
        destruct (ed_snoc_inv eqc IND _ _ _ He _ _ _ _ eq_refl eq_refl) as [[H1 H2]|[H1|[H1|H1]]].
        * left. split; assumption.
        * right. left. exact H1.
        * right. right. left. rewrite (slice_snoc2 qs j) by lia. exact H1.
        * right. right. right. rewrite (slice_snoc1 rs i) by lia. exact H1.
  Qed.

  (** diagonal monotonicity: a lower bound for cell (i-1, j-1) is one for cell (i, j) *)
  Lemma diag_mono i j v : 1 <= i <= m -> 1 <= j <= n -> LB (i - 1) (j - 1) v -> LB i j v.
  Proof.
    intros Hi Hj H rs qs c Ha Hr Hq He.
    destruct (LB_cases i j rs qs c Hi Hj Ha Hr Hq He) as [(H1 & H2 & [[_ Hm]|[Hs|[Hd|Hin]]])|[(-> & -> & Hs & Hc)|(-> & -> & Hs & Hc)]].
    - apply (H rs qs c Ha ltac:(lia) ltac:(lia) Hm).
    - pose proof (H rs qs (c - 1) Ha ltac:(lia) ltac:(lia) Hs). lia.
    - rewrite (slice_snoc2 qs j) in Hd by lia. pose proof (ed_drop_query eqc IND IND_pos _ _ _ Hd _ _ eq_refl) as Hd'.
      replace (c - IND + IND) with c in Hd' by lia. apply (H rs qs c Ha ltac:(lia) ltac:(lia) Hd').
    - rewrite (slice_snoc1 rs i) in Hin by lia. pose proof (ed_drop_ref eqc IND IND_pos _ _ _ Hin _ _ eq_refl) as Hd'.
      replace (c - IND + IND) with c in Hd' by lia. apply (H rs qs c Ha ltac:(lia) ltac:(lia) Hd').
    - (* start (i, 0): use start (i-1, 0) *)
      assert (Ha' : adm (i - 1) 0) by (split; [destruct (Z.eq_dec (i - 1) 0); [left; assumption | right; split; auto] | left; reflexivity]).
      pose proof (H (i - 1) 0 ((j - 1) * IND) Ha' ltac:(lia) ltac:(lia)) as Hx. rewrite zslice_empty in Hx.
      assert (Hl : zlen (zslice s2 0 (j - 1)) = j - 1) by (rewrite zslice_length; lia).
      specialize (Hx ltac:(pose proof (ed_ins_all1 (zslice s2 0 (j - 1))) as He'; rewrite Hl in He'; exact He')). nia.
    - assert (Ha' : adm 0 (j - 1)) by (split; [left; reflexivity | destruct (Z.eq_dec (j - 1) 0); [left; assumption | right; split; auto]]).
      pose proof (H 0 (j - 1) ((i - 1) * IND) Ha' ltac:(lia) ltac:(lia)) as Hx. rewrite zslice_empty in Hx.
      assert (Hl : zlen (zslice s1 0 (i - 1)) = i - 1) by (rewrite zslice_length; lia).
      specialize (Hx ltac:(pose proof (ed_del_all1 (zslice s1 0 (i - 1))) as He'; rewrite Hl in He'; exact He')). nia.
  Qed.

  (** one cell of the recurrence *)
  Lemma cell_L c2 r i j diag cur prev :
    1 <= i <= m -> 1 <= j <= n -> r = znth 0 s1 (i - 1) -> c2 = znth 0 s2 (j - 1) ->
    LB (i - 1) (j - 1) (capk (cost diag)) -> LB i (j - 1) (capk (cost cur)) -> LB (i - 1) j (capk (cost prev)) ->
    LB i j (capk (cost (cell eqc cfg c2 r diag cur prev))).
  Proof.
    intros Hi Hj Hr Hc2 Hd Hc Hp. unfold cell.
    destruct (eqc r c2) eqn:Eq; cbn [cost].
    - apply diag_mono; assumption.
    - assert (Hmin : forall x, x = cost diag + 1 \/ x = cost prev + IND \/ x = cost cur + IND ->
                x <= cost diag + 1 -> x <= cost prev + IND -> x <= cost cur + IND -> LB i j (capk x)).
      { intros x _ H1 H2 H3 rs qs c Ha Hrr Hqq He. unfold capk in *.
        destruct (LB_cases i j rs qs c Hi Hj Ha Hrr Hqq He) as [(G1 & G2 & [[Hm _]|[Hs|[Hdl|Hin]]])|[(-> & -> & Hs & Hcc)|(-> & -> & Hs & Hcc)]].
        - subst r c2. congruence.
        - pose proof (Hd rs qs (c - 1) Ha ltac:(lia) ltac:(lia) Hs). lia.
        - pose proof (Hp rs qs (c - IND) Ha ltac:(lia) ltac:(lia) Hdl). lia.
        - pose proof (Hc rs qs (c - IND) Ha ltac:(lia) ltac:(lia) Hin). lia.
        - assert (Ha' : adm i 0) by (split; [right; split; auto | left; reflexivity]).
          pose proof (Hc i 0 ((j - 1) * IND) Ha' ltac:(lia) ltac:(lia)) as Hx. rewrite zslice_empty in Hx.
          assert (Hl : zlen (zslice s2 0 (j - 1)) = j - 1) by (rewrite zslice_length; lia).
          specialize (Hx ltac:(pose proof (ed_ins_all1 (zslice s2 0 (j - 1))) as He'; rewrite Hl in He'; exact He')). nia.
        - assert (Ha' : adm 0 j) by (split; [left; reflexivity | right; split; auto]).
          pose proof (Hp 0 j ((i - 1) * IND) Ha' ltac:(lia) ltac:(lia)) as Hx. rewrite zslice_empty in Hx.
          assert (Hl : zlen (zslice s1 0 (i - 1)) = i - 1) by (rewrite zslice_length; lia).
          specialize (Hx ltac:(pose proof (ed_del_all1 (zslice s1 0 (i - 1))) as He'; rewrite Hl in He'; exact He')). nia. }
      destruct ((cost diag + 1 <=? cost prev + IND) && (cost diag + 1 <=? cost cur + IND)) eqn:E1; cbn [cost].
      + apply andb_prop in E1. destruct E1 as [E1 E2]. apply Z.leb_le in E1. apply Z.leb_le in E2. apply Hmin; auto; lia.
      + destruct (cost prev + IND <=? cost cur + IND) eqn:E2; cbn [cost].
        * apply Z.leb_le in E2. apply andb_false_iff in E1. apply Hmin; auto; lia.
        * apply Z.leb_gt in E2. apply andb_false_iff in E1. apply Hmin; auto; lia.
  Qed.

  Inductive colL (j : Z) : Z -> list entry -> Prop :=
  | colL_nil : forall i, colL j i []
  | colL_cons : forall i e l, LB i j (capk (cost e)) -> colL j (i + 1) l -> colL j i (e :: l).

  Lemma colL_stale j : forall l i, Forall (fun e => k < cost e) l -> (forall r, i <= r < i + zlen l -> LB r j (k + 1)) -> colL j i l.
  Proof.
    induction l as [|e t IH]; intros i Hall Hb; [constructor|]. inversion Hall; subst. rewrite zlen_cons in Hb. pose proof (zlen_nonneg t).
    constructor.
    - unfold capk. rewrite Z.min_r by lia. apply Hb. lia.
    - apply IH; [assumption|]. intros r Hr. apply Hb. lia.
  Qed.

  Lemma colL_nth : forall l j i0 i, colL j i0 l -> 0 <= i -> (Z.to_nat i < length l)%nat -> LB (i0 + i) j (capk (cost (nth (Z.to_nat i) l dummy))).
  Proof.
    induction l as [|e l IH]; intros j i0 i H Hi Hlt; [cbn in Hlt; lia|]. inversion H; subst.
    destruct (Z.eq_dec i 0) as [->|Hne]; [cbn; replace (i0 + 0) with i0 by lia; assumption|].
    replace (Z.to_nat i) with (S (Z.to_nat (i - 1))) by lia. cbn [nth]. replace (i0 + i) with (i0 + 1 + (i - 1)) by lia.
    apply IH; auto; [lia|]. cbn [length] in Hlt. lia.
  Qed.

  Lemma fill_L : forall budget c2 refs old diag prev ov i j,
    1 <= i -> 1 <= j <= n -> c2 = znth 0 s2 (j - 1) ->
    refs = skipn (Z.to_nat (i - 1)) s1 -> length refs = length old ->
    colL (j - 1) i old -> Forall (fun e => k < cost e) (skipn budget old) ->
    (forall r, i + Z.of_nat budget <= r <= m -> LB r j (k + 1)) ->
    LB (i - 1) (j - 1) (capk (cost diag)) -> LB (i - 1) j (capk (cost prev)) ->
    colL j i (fst (fill eqc cfg budget c2 refs old diag prev ov)).
  Proof.
    induction budget as [|b IH]; intros c2 refs old diag prev ov i j Hi Hj Hc2 Hrefs Hlen Hold HB Hbey Hd Hp.
    - cbn [fill fst]. cbn [skipn] in HB. apply colL_stale; [exact HB|]. intros r Hr. apply Hbey.
      assert (Hl : i + zlen old <= m + 1 \/ zlen old = 0).
      { unfold zlen. rewrite <- Hlen, Hrefs, skipn_length. lia. }
      lia.
    - cbn [fill]. destruct refs as [|r refs'].
      + destruct old; [constructor | discriminate].
      + destruct old as [|cur old']; [discriminate|].
        inversion Hold as [|i0 e0 l0 Hcur Hrest]; subst i0 e0 l0.
        symmetry in Hrefs. destruct (skipn_cons_nth 0 _ _ _ _ Hrefs) as (Hr & Hrefs' & Hlt).
        assert (Him : i <= m) by (unfold zlen; lia).
        assert (Hr' : r = znth 0 s1 (i - 1)) by (unfold znth; destruct (i - 1 <? 0) eqn:E; [lia | exact Hr]).
        pose proof (cell_L c2 r i j diag cur prev ltac:(lia) Hj Hr' Hc2 Hd Hcur Hp) as Hcell.
        specialize (IH c2 refs' old' cur (cell eqc cfg c2 r diag cur prev) (origin (cell eqc cfg c2 r diag cur prev)) (i + 1) j).
        replace (i + 1 - 1) with i in IH by lia.
        assert (Hrefs2 : refs' = skipn (Z.to_nat i) s1) by (rewrite Hrefs'; f_equal; lia).
        cbn [length] in Hlen. cbn [skipn] in HB.
        specialize (IH ltac:(lia) Hj Hc2 Hrefs2 ltac:(lia) Hrest HB ltac:(intros r0 Hr0; apply Hbey; lia) Hcur Hcell).
        destruct (fill eqc cfg b c2 refs' old' cur (cell eqc cfg c2 r diag cur prev) (origin (cell eqc cfg c2 r diag cur prev))) as [rest ov'].
        cbn [fst] in *. constructor; assumption.
  Qed.

  Definition bestL (b : best_t) : Prop :=
    b_cost b = no_best s1 n \/ LB (b_refstop b) (b_qstop b) (capk (b_cost b)).

  Definition SL (j : Z) (st : lstate) : Prop :=
    colL j 0 (col st) /\ (last st = m \/ Forall (fun e => k < cost e) (skipn (Z.to_nat (last st)) (col st))) /\ bestL (best st).

  Notation SD := (AlignDist.SD eqc thr cfg s1 s2).

  Lemma column_step_L c2 j st :
    SD (j - 1) st -> SL (j - 1) st -> 1 <= j <= n -> c2 = znth 0 s2 (j - 1) ->
    SL j (column_step eqc thr cfg rawref s1 n c2 j st).
  Proof.
    intros (Hcol & Hlen & Hlast & HB & Hbest) (HcolL & HB' & HbestL) Hj Hc2. unfold column_step.
    destruct (col st) as [|c0 olds] eqn:Ecol; [rewrite zlen_nil in Hlen; pose proof (zlen_nonneg s1); lia|].
    inversion HcolL as [|i0 e0 l0 Hc0 Holds]; subst i0 e0 l0.
    set (new0 := mkE _ _ _).
    assert (Hnew0 : LB 0 j (capk (cost new0))).
    { subst new0. cbn [cost]. intros rs qs c Ha Hr Hq He. assert (rs = 0) by lia. subst rs. rewrite zslice_empty in He.
      pose proof (ed_len_r eqc IND _ _ _ He eq_refl) as Hl. rewrite zslice_length in Hl by lia.
      destruct (start_in_query cfg) eqn:Esiq.
      - assert (Ha' : adm 0 (j - 1)) by (split; [left; reflexivity | destruct (Z.eq_dec (j - 1) 0); [left; assumption | right; split; auto]]).
        pose proof (Hc0 0 (j - 1) 0 Ha' ltac:(lia) ltac:(lia)) as Hx. rewrite !zslice_empty in Hx. specialize (Hx (ed_nil eqc IND)).
        unfold capk in *. nia.
      - destruct Ha as [_ [->|[Hs _]]]; [|congruence].
        assert (Ha' : adm 0 0) by (split; left; reflexivity).
        pose proof (Hc0 0 0 ((j - 1) * IND) Ha' ltac:(lia) ltac:(lia)) as Hx. rewrite zslice_empty in Hx.
        assert (Hl' : zlen (zslice s2 0 (j - 1)) = j - 1) by (rewrite zslice_length; lia).
        specialize (Hx ltac:(pose proof (ed_ins_all1 (zslice s2 0 (j - 1))) as He'; rewrite Hl' in He'; exact He')).
        unfold capk in *. nia. }
    assert (Holen : length s1 = length olds) by (rewrite zlen_cons in Hlen; unfold zlen in Hlen; lia).
    assert (HBo : Forall (fun e => k < cost e) (skipn (Z.to_nat (last st)) olds)).
    { replace (Z.to_nat (last st + 1)) with (S (Z.to_nat (last st))) in HB by lia. exact HB. }
    (* rows beyond the budget: no alignment of cost <= k reaches them in column j *)
    assert (Hbey : forall r, 1 + Z.of_nat (Z.to_nat (last st)) <= r <= m -> LB r j (k + 1)).
    { intros r Hr. destruct HB' as [Hlm|HBs]; [lia|]. apply diag_mono; [lia | lia|].
      pose proof (colL_nth (c0 :: olds) (j - 1) 0 (r - 1) HcolL ltac:(lia) ltac:(unfold zlen in *; cbn [length] in *; lia)) as Hx.
      replace (0 + (r - 1)) with (r - 1) in Hx by lia.
      assert (Hk : k < cost (nth (Z.to_nat (r - 1)) (c0 :: olds) dummy)).
      { apply (Forall_skipn_get (fun e => k < cost e) dummy (c0 :: olds) (Z.to_nat (last st)) (Z.to_nat (r - 1)) HBs).
        unfold zlen in *. cbn [length] in *. lia. }
      unfold capk in Hx. rewrite Z.min_r in Hx by lia. exact Hx. }
    pose proof (fill_L (Z.to_nat (last st)) c2 s1 olds c0 new0 (ovar st) 1 j ltac:(lia) Hj Hc2 eq_refl Holen Holds HBo Hbey) as Hf.
    replace (1 - 1) with 0 in Hf by lia. specialize (Hf Hc0 Hnew0).
    pose proof (fill_skip eqc cfg (Z.to_nat (last st)) c2 s1 olds c0 new0 (ovar st)) as Hsk.
    pose proof (fill_ok eqc cfg (Z.to_nat (last st)) c2 s1 olds c0 new0 (ovar st) 1 (j - 1)) as Hfo.
    inversion Hcol as [|i0 e0 l0 Hc0d Holdsd]; subst i0 e0 l0.
    assert (Hnew0ok : AlignProofs.ent_ok cfg 0 j new0).
    { destruct Hc0d as ((a & b & c & d) & _). subst new0. unfold AlignProofs.ent_ok; cbn [origin].
      destruct (start_in_query cfg); repeat split; intros; try discriminate; try lia. }
    destruct (fill eqc cfg (Z.to_nat (last st)) c2 s1 olds c0 new0 (ovar st)) as [rest ov1] eqn:Efill. cbn [fst] in *.
    assert (Hrlen : length rest = length olds).
    { apply Hfo. - apply (colD_col_ok eqc thr cfg s1 s2). exact Holdsd.
      - replace (1 - 1) with 0 by lia. destruct Hc0d; assumption.
      - replace (1 - 1) with 0 by lia. replace (j - 1 + 1) with j by lia. exact Hnew0ok. }
    assert (HcolL' : colL j 0 (new0 :: rest)) by (constructor; assumption).
    assert (Hlen' : zlen (new0 :: rest) = m + 1) by (rewrite zlen_cons in *; unfold zlen in *; lia).
    pose proof (shrink_last_spec thr s1 (new0 :: rest) (last st) ltac:(lia) ltac:(lia)) as Hsh. cbv zeta in Hsh.
    set (l1 := shrink_last thr s1 (new0 :: rest) (last st)) in *. destruct Hsh as (Hl1 & Hl1c & Hl1g).
    assert (HBn : l1 < m -> Forall (fun e => k < cost e) (skipn (Z.to_nat (l1 + 1)) (new0 :: rest))).
    { intros Hlm. apply (Forall_skipn_nth (fun e => k < cost e) dummy). intros t Ht.
      destruct (Z_le_gt_dec (Z.of_nat t) (last st)) as [Hle|Hgt].
      - replace t with (Z.to_nat (Z.of_nat t)) by lia. apply Hl1g. lia.
      - destruct t as [|t']; [lia|]. cbn [nth]. cbn [length] in Ht.
        assert (Hn : nth t' rest dummy = nth t' olds dummy).
        { replace t' with (Z.to_nat (last st) + (t' - Z.to_nat (last st)))%nat by lia. rewrite <- !nth_skipn. rewrite Hsk. reflexivity. }
        rewrite Hn. apply (Forall_skipn_get (fun e => k < cost e) dummy olds (Z.to_nat (last st)) t' HBo). lia. }
    cbv zeta.
    destruct (l1 <? m) eqn:El1m.
    - apply Z.ltb_lt in El1m. unfold SL; cbn [col last best]. split; [exact HcolL'|]. split; [right; apply HBn; exact El1m | exact HbestL].
    - apply Z.ltb_ge in El1m. assert (Hl1m : l1 = m) by lia.
      destruct (stop_in_query cfg) eqn:Estiq.
      + set (e := znth dummy (new0 :: rest) m).
        assert (He : LB m j (capk (cost e))).
        { subst e. unfold znth. destruct (m <? 0) eqn:E; [pose proof (zlen_nonneg s1); lia|].
          replace m with (0 + m) at 1 by lia. apply colL_nth; auto; [pose proof (zlen_nonneg s1); lia | unfold zlen in *; lia]. }
        match goal with |- context [if ?c then _ else _] => destruct c eqn:Ecnd end.
        * unfold SL; cbn [col last best]. split; [exact HcolL'|]. split; [left; exact Hl1m|]. right. cbn [b_refstop b_qstop b_cost]. exact He.
        * unfold SL; cbn [col last best]. split; [exact HcolL'|]. split; [left; exact Hl1m | exact HbestL].
      + unfold SL; cbn [col last best]. split; [exact HcolL'|]. split; [left; exact Hl1m | exact HbestL].
  Qed.

  Notation exact_best := (AlignDist.exact_best s1).

  Lemma columns_L : forall qs j st,
    SD (j - 1) st -> SL (j - 1) st -> 1 <= j -> j - 1 + zlen qs <= n ->
    qs = firstn (length qs) (skipn (Z.to_nat (j - 1)) s2) ->
    let st' := columns eqc thr cfg rawref s1 n qs j st in
    bestL (best st') /\ exists jf, colL jf 0 (col st') /\ (exact_best (best st') \/ jf = j - 1 + zlen qs).
  Proof.
    induction qs as [|c2 t IH]; intros j st Hsd Hsl Hj Hn Hqs; cbv zeta; cbn [columns].
    - destruct Hsl as (H1 & _ & Hb). split; [exact Hb|]. exists (j - 1). split; [exact H1 | right; unfold zlen; cbn; lia].
    - rewrite zlen_cons in *. pose proof (zlen_nonneg t) as Ht.
      cbn [length firstn] in Hqs.
      destruct (skipn (Z.to_nat (j - 1)) s2) as [|x u] eqn:Esk; [discriminate|].
      injection Hqs as Hc2 Htl. destruct (skipn_cons_nth 0 _ _ _ _ Esk) as (Hx & Hu & Hlt).
      assert (Hc2' : c2 = znth 0 s2 (j - 1)).
      { unfold znth. destruct (j - 1 <? 0) eqn:E; [lia|]. congruence. }
      assert (Hjn : 1 <= j <= n) by (unfold zlen in *; lia).
      destruct (column_step_d eqc thr cfg rawref s1 s2 IND_pos c2 j st Hsd Hjn Hc2') as [Hs Hstop]. cbv zeta in Hs, Hstop.
      pose proof (column_step_L c2 j st Hsd Hsl Hjn Hc2') as HsL.
      destruct (stopped (column_step eqc thr cfg rawref s1 n c2 j st)) eqn:Est.
      + destruct HsL as (H1 & _ & Hb). split; [exact Hb|]. exists j. split; [exact H1 | left; apply Hstop; reflexivity].
      + specialize (IH (j + 1) (column_step eqc thr cfg rawref s1 n c2 j st)). replace (j + 1 - 1) with j in IH by lia.
        assert (Htl' : t = firstn (length t) (skipn (Z.to_nat j) s2)).
        { rewrite Htl at 1. rewrite Hu. do 2 f_equal. lia. }
        specialize (IH Hs HsL ltac:(lia) ltac:(lia) Htl'). cbv zeta in IH.
        replace (j - 1 + (zlen t + 1)) with (j + zlen t) by lia. exact IH.
  Qed.

  Lemma last_column_L ov : forall cells best,
    bestL best -> (forall i e, In (i, e) cells -> LB i n (capk (cost e))) ->
    bestL (last_column thr cfg rawref s1 n ov cells best).
  Proof.
    induction cells as [|[i e] t IH]; intros best Hb Hcells; cbn [last_column]; [exact Hb|].
    assert (Ht : forall i e, In (i, e) t -> LB i n (capk (cost e))) by (intros; apply Hcells; right; assumption).
    match goal with |- bestL (if ?c then _ else _) => destruct c eqn:Ecnd end; [|apply IH; assumption].
    apply IH; [|exact Ht]. right. cbn [b_refstop b_qstop b_cost]. apply Hcells. left. reflexivity.
  Qed.

  (** both invariants hold in the initial state when the DP starts in column 0 *)
  Lemma locate_core_init :
    let st0 := mkS (init_column cfg s1 0) (if start_in_ref cfg then m else Z.min m (k + 1)) 0 (mkB 0 (no_best s1 n) 0 m n) 0 false in
    SD (0 + 1 - 1) st0 /\ SL (0 + 1 - 1) st0.
  Proof.
    cbv zeta.
    assert (Hn : 0 <= n) by apply zlen_nonneg.
    assert (Hm : 0 <= m) by apply zlen_nonneg.
    assert (Hnz : forall cnt lo t d, (t < cnt)%nat -> nth t (zrange lo cnt) d = lo + Z.of_nat t).
    { induction cnt as [|cn IH]; intros lo t d Ht; [lia|]. destruct t as [|t']; cbn [zrange nth]; [lia|]. rewrite IH by lia. lia. }
    assert (Hinit : forall cnt lo, 0 <= lo -> lo + Z.of_nat cnt <= m + 1 -> colD eqc thr cfg s1 s2 0 lo (map (init_entry cfg 0) (zrange lo cnt))).
    { induction cnt as [|cn IH]; intros lo Hlo Hc; cbn [zrange map]; constructor; [|apply IH; lia].
      split; [apply init_entry_ok; lia|].
      unfold init_entry, cellD. destruct (start_in_ref cfg), (start_in_query cfg); cbn [cost score origin]; unfold DELETION_SCORE, rs_of, qs_of.
      all: repeat split; try nia.
      all: intros _.
      all: (eapply ed_weak; [apply (ed_trivial eqc IND); exact IND_pos|]).
      all: rewrite !zslice_length by lia; nia. }
    assert (HinitL : forall cnt lo, 0 <= lo -> lo + Z.of_nat cnt <= m + 1 -> colL 0 lo (map (init_entry cfg 0) (zrange lo cnt))).
    { induction cnt as [|cn IH]; intros lo Hlo Hc; cbn [zrange map]; constructor; [|apply IH; lia].
      intros rs' qs' c' Ha Hr Hq He. assert (qs' = 0) by lia. subst qs'. rewrite zslice_empty in He.
      pose proof (ed_len_l eqc IND _ _ _ He eq_refl) as Hl. rewrite zslice_length in Hl by lia.
      unfold init_entry, capk. destruct Ha as [Ha1 _].
      destruct (start_in_ref cfg) eqn:Esr, (start_in_query cfg); cbn [cost]; try nia.
      all: destruct Ha1 as [->|[Hs _]]; try congruence; nia. }
    split.
    - replace (0 + 1 - 1) with 0 by lia. unfold AlignDist.SD; cbn [col last best].
      split; [apply Hinit; [lia | unfold zlen; lia]|]. split; [apply init_column_length|].
      split; [destruct (start_in_ref cfg); lia|]. split; [|left; reflexivity].
      unfold init_column. apply (Forall_skipn_nth (fun e => k < cost e) dummy). intros t Ht. rewrite map_length, zrange_length in Ht.
      rewrite (nth_indep _ dummy (init_entry cfg 0 0)) by (rewrite map_length, zrange_length; lia).
      rewrite map_nth, Hnz by lia. unfold init_entry. destruct (start_in_ref cfg) eqn:Esr; [unfold zlen in *; lia|].
      assert (Htk : k + 2 <= Z.of_nat t) by (unfold zlen in *; lia).
      destruct (start_in_query cfg); cbn [cost]; nia.
    - replace (0 + 1 - 1) with 0 by lia. unfold SL; cbn [col last best].
      split; [apply HinitL; [lia | unfold zlen; lia]|]. split; [|left; reflexivity].
      destruct (start_in_ref cfg) eqn:Esr; [left; reflexivity|].
      destruct (Z_le_gt_dec m (k + 1)) as [Hle|Hgt]; [left; lia|]. right.
      unfold init_column. apply (Forall_skipn_nth (fun e => k < cost e) dummy). intros t Ht. rewrite map_length, zrange_length in Ht.
      rewrite (nth_indep _ dummy (init_entry cfg 0 0)) by (rewrite map_length, zrange_length; lia).
      rewrite map_nth, Hnz by lia. unfold init_entry. rewrite Esr.
      destruct (start_in_query cfg); cbn [cost]; nia.
  Qed.

  Hypothesis thr_bound : forall L, thr L <= k.
  Hypothesis stop_q : stop_in_query cfg = true.

  (** the reported errors are a lower bound on the cost of every alignment of the reported intervals *)
  Theorem locate_core_opt rs re qs qe sc e c :
    locate_core eqc thr cfg rawref s1 s2 = Some (rs, re, qs, qe, sc, e) ->
    ed (zslice s1 rs re) (zslice s2 qs qe) c -> e <= c.
  Proof.
    intros Hloc Hed.
    pose proof (locate_core_structure eqc thr cfg rawref s1 s2 _ k_nonneg Hloc) as Hres. unfold result_ok in Hres.
    destruct Hres as (R1 & R2 & R3 & R4 & R5 & R6 & R7 & _ & _ & _ & _ & R12).
    assert (Hek : e <= k) by (pose proof (thr_bound (eff_len cfg rawref s1 (re - rs) re)); lia).
    assert (Hadm : adm rs qs).
    { split.
      - destruct (start_in_ref cfg) eqn:E; [|left; apply R6; reflexivity]. destruct R5 as [->| ->]; [left; reflexivity | right; split; reflexivity].
      - destruct (start_in_query cfg) eqn:E; [|left; apply R7; reflexivity]. destruct R5 as [->| ->]; [right; split; reflexivity | left; reflexivity]. }
    revert Hloc. unfold locate_core. rewrite stop_q.
    set (max_n := if start_in_query cfg then n else Z.min n (m + k)).
    set (qsl := firstn _ _).
    set (st0 := mkS _ _ _ _ _ _).
    assert (Hn : 0 <= n) by apply zlen_nonneg.
    assert (Hm : 0 <= m) by apply zlen_nonneg.
    assert (Hmaxn : max_n <= n) by (subst max_n; destruct (start_in_query cfg); lia).
    assert (Hnz : forall cnt lo t d, (t < cnt)%nat -> nth t (zrange lo cnt) d = lo + Z.of_nat t).
    { induction cnt as [|cn IH]; intros lo t d Ht; [lia|]. destruct t as [|t']; cbn [zrange nth]; [lia|]. rewrite IH by lia. lia. }
    (* the AlignDist invariant for the initial state, re-established here for min_n = 0 *)
    assert (Hinit : forall cnt lo, 0 <= lo -> lo + Z.of_nat cnt <= m + 1 -> colD eqc thr cfg s1 s2 0 lo (map (init_entry cfg 0) (zrange lo cnt))).
    { induction cnt as [|cn IH]; intros lo Hlo Hc; cbn [zrange map]; constructor; [|apply IH; lia].
      split; [apply init_entry_ok; lia|].
      unfold init_entry, cellD. destruct (start_in_ref cfg), (start_in_query cfg); cbn [cost score origin]; unfold DELETION_SCORE, rs_of, qs_of.
      all: repeat split; try nia.
      all: intros _.
      all: (eapply ed_weak; [apply (ed_trivial eqc IND); exact IND_pos|]).
      all: rewrite !zslice_length by lia; nia. }
    assert (HinitL : forall cnt lo, 0 <= lo -> lo + Z.of_nat cnt <= m + 1 -> colL 0 lo (map (init_entry cfg 0) (zrange lo cnt))).
    { induction cnt as [|cn IH]; intros lo Hlo Hc; cbn [zrange map]; constructor; [|apply IH; lia].
      intros rs' qs' c' Ha Hr Hq He. assert (qs' = 0) by lia. subst qs'. rewrite zslice_empty in He.
      pose proof (ed_len_l eqc IND _ _ _ He eq_refl) as Hl. rewrite zslice_length in Hl by lia.
      unfold init_entry, capk. destruct Ha as [Ha1 _].
      destruct (start_in_ref cfg) eqn:Esr, (start_in_query cfg); cbn [cost]; try nia.
      all: destruct Ha1 as [->|[Hs _]]; try congruence; nia. }
    assert (Hsd0 : SD (0 + 1 - 1) st0).
    { replace (0 + 1 - 1) with 0 by lia. subst st0. unfold AlignDist.SD; cbn [col last best].
      split; [apply Hinit; [lia | unfold zlen; lia]|]. split; [apply init_column_length|].
      split; [destruct (start_in_ref cfg); lia|]. split; [|left; reflexivity].
      unfold init_column. apply (Forall_skipn_nth (fun e => k < cost e) dummy). intros t Ht. rewrite map_length, zrange_length in Ht.
      rewrite (nth_indep _ dummy (init_entry cfg 0 0)) by (rewrite map_length, zrange_length; lia).
      rewrite map_nth, Hnz by lia. unfold init_entry. destruct (start_in_ref cfg) eqn:Esr; [unfold zlen in *; lia|].
      assert (Htk : k + 2 <= Z.of_nat t) by (unfold zlen in *; lia).
      destruct (start_in_query cfg); cbn [cost]; nia. }
    assert (Hsl0 : SL (0 + 1 - 1) st0).
    { replace (0 + 1 - 1) with 0 by lia. subst st0. unfold SL; cbn [col last best].
      split; [apply HinitL; [lia | unfold zlen; lia]|]. split; [|left; reflexivity].
      destruct (start_in_ref cfg) eqn:Esr; [left; reflexivity|].
      destruct (Z_le_gt_dec m (k + 1)) as [Hle|Hgt]; [left; lia|]. right.
      unfold init_column. apply (Forall_skipn_nth (fun e => k < cost e) dummy). intros t Ht. rewrite map_length, zrange_length in Ht.
      rewrite (nth_indep _ dummy (init_entry cfg 0 0)) by (rewrite map_length, zrange_length; lia).
      rewrite map_nth, Hnz by lia. unfold init_entry. rewrite Esr.
      destruct (start_in_query cfg); cbn [cost]; nia. }
    assert (Hqsl : qsl = firstn (length qsl) (skipn (Z.to_nat (0 + 1 - 1)) s2)).
    { subst qsl. replace (0 + 1 - 1) with 0 by lia. rewrite firstn_length.
      destruct (Nat.le_ge_cases (Z.to_nat (max_n - 0)) (length (skipn (Z.to_nat 0) s2))) as [Hle|Hge].
      - rewrite Nat.min_l by exact Hle. reflexivity.
      - rewrite Nat.min_r by exact Hge. rewrite !firstn_all2; auto. }
    assert (Hqlen : 0 + 1 - 1 + zlen qsl <= n).
    { subst qsl. unfold zlen at 1. rewrite firstn_length, skipn_length. unfold zlen in *. lia. }
    destruct (columns_L qsl (0 + 1) st0 Hsd0 Hsl0 ltac:(lia) Hqlen Hqsl) as (HbL & jf & HcolL & Hex). cbv zeta in *.
    destruct (columns_d eqc thr cfg rawref s1 s2 IND_pos qsl (0 + 1) st0 Hsd0 ltac:(lia) Hqlen Hqsl) as (_ & jf' & (HcolD & Hlen) & _). cbv zeta in *.
    set (st := columns eqc thr cfg rawref s1 n qsl (0 + 1) st0) in *.
    set (bestf := if max_n =? n then _ else best st).
    assert (Hbf : bestL bestf).
    { subst bestf. destruct (max_n =? n) eqn:Emx; [|exact HbL]. apply Z.eqb_eq in Emx.
      set (cells := filter _ _).
      assert (Hcells : forall i ee, In (i, ee) cells -> LB i jf (capk (cost ee)) /\ cellD eqc thr cfg s1 s2 i jf' ee /\ 0 <= i <= m).
      { intros i ee Hin. subst cells. apply filter_In in Hin. destruct Hin as [Hin _]. apply in_rev in Hin.
        assert (Hin' : In (i, ee) (indexed (col st))) by (eapply In_firstn; eauto).
        unfold indexed in Hin'. apply In_indexed_aux in Hin'. destruct Hin' as [Hi He]. subst ee.
        replace (i - 0) with i by lia. split; [|split; [|lia]].
        - replace i with (0 + i) at 1 by lia. apply colL_nth; auto; [lia | unfold zlen in *; lia].
        - replace i with (0 + i) at 1 by lia. apply (colD_nth eqc thr cfg s1 s2); auto; [lia | unfold zlen in *; lia]. }
      destruct Hex as [Hex|Hjf].
      - rewrite (last_column_exact thr cfg rawref s1 s2); [exact HbL | exact Hex|]. intros i ee Hin. destruct (Hcells i ee Hin) as (_ & (_ & _ & Hs & _) & Hi). lia.
      - apply last_column_L; [exact HbL|]. intros i ee Hin. destruct (Hcells i ee Hin) as [Hc _].
        assert (Hjfn : jf = n).
        { rewrite Hjf. subst qsl. unfold zlen at 1. rewrite firstn_length, skipn_length. unfold zlen in *. lia. }
        rewrite <- Hjfn. exact Hc. }
    destruct (b_cost bestf =? no_best s1 n) eqn:Enb; [discriminate|]. apply Z.eqb_neq in Enb.
    destruct Hbf as [Hbf|HL]; [contradiction|].
    destruct (0 <=? b_origin bestf) eqn:Eo; intros Hr; inversion Hr; subst; clear Hr.
    - pose proof (HL 0 (b_origin bestf) c Hadm ltac:(lia) ltac:(lia) Hed) as Hx. unfold capk in Hx. lia.
    - pose proof (HL (- b_origin bestf) 0 c Hadm ltac:(lia) ltac:(lia) Hed) as Hx. unfold capk in Hx. lia.
  Qed.
End Opt.

(** ---- Aligner.locate with its translation tables *)
Theorem locate_opt thr cfg wq ref query rs re qs qe sc e c :
  1 <= indel_cost cfg -> stop_in_query cfg = true -> 0 <= thr (zlen ref) -> (forall L, thr L <= thr (zlen ref)) ->
  locate thr cfg wq ref query = Some (rs, re, qs, qe, sc, e) ->
  ed (loc_eqc cfg wq) (indel_cost cfg) (zslice (loc_s1 cfg wq ref) rs re) (zslice (loc_s2 cfg wq query) qs qe) c -> e <= c.
Proof.
  intros Hi Hs Hk Hb H Hed. unfold locate in H. fold (loc_s1 cfg wq ref) in H. fold (loc_s2 cfg wq query) in H. fold (loc_eqc cfg wq) in H.
  pose proof (loc_s1_len cfg wq ref) as Hlen.
  eapply (locate_core_opt (loc_eqc cfg wq) thr cfg ref (loc_s1 cfg wq ref) (loc_s2 cfg wq query)); eauto; rewrite ?Hlen; auto.
Qed.

(** ---- adapter classes whose aligner may stop anywhere in the read: the reported errors are
    exactly the edit distance of the reported intervals (indel cost 1 with indels enabled, 100000
    with indels disabled) *)
From CV Require Import Generated.Flags Model.Adapters.

Definition stops_in_query (ad : adapter) : bool := stop_in_query (ad_cfg ad).

Lemma ad_indel_cost_pos ad : 1 <= indel_cost (ad_cfg ad).
Proof. unfold ad_cfg, cfg_of. cbn [indel_cost]. destruct (a_indels ad); unfold INDEL_COST_ON, INDEL_COST_OFF; lia. Qed.

Theorem match_to_opt thr ad read mt c :
  uses_comparer ad = false -> stops_in_query ad = true ->
  0 <= thr (zlen (a_seq ad)) -> (forall L, thr L <= thr (zlen (a_seq ad))) ->
  match_to thr ad read = Some mt ->
  ed (loc_eqc (ad_cfg ad) (a_wq ad)) (indel_cost (ad_cfg ad))
     (zslice (loc_s1 (ad_cfg ad) (a_wq ad) (a_seq ad)) (astart mt) (astop mt))
     (zslice (loc_s2 (ad_cfg ad) (a_wq ad) (ad_query ad read)) (rstart mt) (rstop mt)) c ->
  merrors mt <= c.
Proof.
  intros Hcmp Hstop Hk Hb H Hed. unfold match_to in H.
  destruct (raw_locate thr ad read) as [[[[[[a0 a1] r0] r1] sc] e]|] eqn:Er; [|discriminate].
  inversion H; subst mt; clear H. cbn [astart astop rstart rstop merrors] in *.
  pose proof (ad_indel_cost_pos ad) as Hic.
  assert (Hdirect : forall q, locate thr (ad_cfg ad) (a_wq ad) (a_seq ad) q = Some (a0, a1, r0, r1, sc, e) ->
            ed (loc_eqc (ad_cfg ad) (a_wq ad)) (indel_cost (ad_cfg ad)) (zslice (loc_s1 (ad_cfg ad) (a_wq ad) (a_seq ad)) a0 a1) (zslice (loc_s2 (ad_cfg ad) (a_wq ad) q) r0 r1) c -> e <= c).
  { intros q Hq Hd. eapply locate_opt; eauto. }
  unfold raw_locate in Er. unfold uses_comparer in Hcmp. unfold ad_query in Hed. fold (ad_cfg ad) in Er.
  destruct (a_type ad) eqn:Et; cbn [class_reversed class_upper_first] in *;
    unfold cls_FrontAdapter_reversed, cls_RightmostFrontAdapter_reversed, cls_BackAdapter_reversed, cls_AnywhereAdapter_reversed,
           cls_NonInternalFrontAdapter_reversed, cls_NonInternalBackAdapter_reversed, cls_AnywhereAdapter_upper_first in *.
  - eapply Hdirect; eauto.
  - (* RightmostFront *)
    destruct (locate thr (ad_cfg ad) (a_wq ad) (rev (a_seq ad)) (rev read)) as [[[[[[rs re] qs] qe] sc'] e']|] eqn:El; [|discriminate].
    inversion Er; subst; clear Er.
    assert (Hzr : zlen (rev (a_seq ad)) = zlen (a_seq ad)) by (unfold zlen; rewrite rev_length; reflexivity).
    assert (Hzq : zlen (rev read) = zlen read) by (unfold zlen; rewrite rev_length; reflexivity).
    pose proof (locate_structure thr (ad_cfg ad) (a_wq ad) (rev (a_seq ad)) (rev read) _ ltac:(rewrite Hzr; exact Hk) El) as Hs.
    unfold locate_ok in Hs. rewrite Hzr, Hzq in Hs. destruct Hs as (H1 & H2 & H3 & H4 & _).
    apply (locate_opt thr (ad_cfg ad) (a_wq ad) (rev (a_seq ad)) (rev read) rs re qs qe sc e c Hic Hstop
             ltac:(rewrite Hzr; exact Hk) ltac:(intros; rewrite Hzr; apply Hb) El).
    apply ed_rev in Hed. rewrite loc_s1_rev, loc_s2_rev.
    rewrite <- (loc_s1_len (ad_cfg ad) (a_wq ad) (a_seq ad)) in Hed at 1 2.
    rewrite <- (loc_s2_len (ad_cfg ad) (a_wq ad) read) in Hed at 1 2.
    rewrite <- (zslice_rev (loc_s1 (ad_cfg ad) (a_wq ad) (a_seq ad)) rs re) in Hed by (rewrite ?loc_s1_len; lia).
    rewrite <- (zslice_rev (loc_s2 (ad_cfg ad) (a_wq ad) read) qs qe) in Hed by (rewrite ?loc_s2_len; lia).
    rewrite !rev_involutive in Hed. exact Hed.
  - eapply Hdirect; eauto.
  - eapply Hdirect; eauto.
  - eapply Hdirect; eauto.
  - eapply Hdirect; eauto.
  - destruct (a_indels ad); [|discriminate]. eapply Hdirect; eauto.
  - destruct (a_indels ad); [|discriminate]. eapply Hdirect; eauto.
Qed.

(** which classes that is: every class except the two that must end at the end of the read
    (flags regenerated from the source) *)
Lemma classes_stop_in_query ad :
  match a_type ad with NonInternalBack | Suffix => False | _ => True end -> stops_in_query ad = true.
Proof.
  unfold stops_in_query, ad_cfg, cfg_of, aligner_flags. cbn [stop_in_query].
  destruct (a_type ad); intros H; try contradiction; destruct (a_force_anywhere ad); vm_compute; reflexivity.
Qed.

Theorem match_to_exact thr ad read mt :
  uses_comparer ad = false ->
  match a_type ad with NonInternalBack | Suffix => False | _ => True end ->
  0 <= thr (zlen (a_seq ad)) -> (forall L, thr L <= thr (zlen (a_seq ad))) ->
  match_to thr ad read = Some mt ->
  let A := zslice (loc_s1 (ad_cfg ad) (a_wq ad) (a_seq ad)) (astart mt) (astop mt) in
  let B := zslice (loc_s2 (ad_cfg ad) (a_wq ad) (ad_query ad read)) (rstart mt) (rstop mt) in
  ed (loc_eqc (ad_cfg ad) (a_wq ad)) (indel_cost (ad_cfg ad)) A B (merrors mt) /\
  forall c, ed (loc_eqc (ad_cfg ad) (a_wq ad)) (indel_cost (ad_cfg ad)) A B c -> merrors mt <= c.
Proof.
  intros Hcmp Hcls Hk Hb H. cbv zeta. split.
  - exact (match_to_dist thr ad read mt Hcmp Hk Hb H).
  - intros c Hc. eapply match_to_opt; eauto. apply classes_stop_in_query. exact Hcls.
Qed.
