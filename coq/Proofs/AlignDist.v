(** The cost reported by Aligner.locate is achieved by an alignment of the two reported intervals:
    there is an edit script (matches between [eqc]-compatible characters, substitutions, insertions
    and deletions at the configured indel cost) from the reference interval to the query interval
    whose cost is at most the reported number of errors.  Hence a reported match is genuine: the
    true distance of the two intervals is at most the reported errors, which are at most the
    threshold (AlignProofs).  Proved by a second invariant on every cell of the DP column of the
    line-by-line model, valid for cells whose cost is within the global budget k (cells left stale
    by the Ukkonen cut-off have cost > k and are never needed). *)
From Coq Require Import ZArith List Bool Lia.
From CV Require Import Generated.Tables Generated.Scores Model.Align Proofs.AlignProofs Proofs.AdapterProofs.
Import ListNotations.
Open Scope Z_scope.

Section Ed.
  Variable eqc : Z -> Z -> bool.
  Variable IND : Z.
  Hypothesis IND_pos : 1 <= IND.

  (** [ed a b c]: the reference string a can be aligned with the query string b at cost <= c *)
  Inductive ed : list Z -> list Z -> Z -> Prop :=
  | ed_nil : ed [] [] 0
  | ed_match a b c x y : eqc x y = true -> ed a b c -> ed (a ++ [x]) (b ++ [y]) c
  | ed_sub a b c x y : ed a b c -> ed (a ++ [x]) (b ++ [y]) (c + 1)
  | ed_del a b c x : ed a b c -> ed (a ++ [x]) b (c + IND)
  | ed_ins a b c y : ed a b c -> ed a (b ++ [y]) (c + IND)
  | ed_weak a b c c' : ed a b c -> c <= c' -> ed a b c'.

  Lemma ed_nonneg a b c : ed a b c -> 0 <= c.
  Proof. induction 1; lia. Qed.

  Lemma ed_ins_all : forall b, ed [] b (zlen b * IND).
  Proof.
    induction b as [|y t IH] using rev_ind; [cbn; constructor|].
    unfold zlen. rewrite app_length. cbn [length]. eapply ed_weak; [apply ed_ins; exact IH|]. unfold zlen. lia.
  Qed.

  Lemma ed_del_all : forall a, ed a [] (zlen a * IND).
  Proof.
    induction a as [|x t IH] using rev_ind; [cbn; constructor|].
    unfold zlen. rewrite app_length. cbn [length]. eapply ed_weak; [apply ed_del; exact IH|]. unfold zlen. lia.
  Qed.

  (** any two strings align at cost max(|a|,|b|) * IND *)
  Lemma ed_trivial : forall a b, ed a b (Z.max (zlen a) (zlen b) * IND).
  Proof.
    induction a as [|x t IH] using rev_ind; intros b.
    - eapply ed_weak; [apply ed_ins_all|]. unfold zlen; cbn [length]. nia.
    - destruct b as [|y u] using rev_ind.
      + eapply ed_weak; [apply ed_del_all|]. unfold zlen; cbn [length]. nia.
      + clear IHu. eapply ed_weak; [apply ed_sub; apply IH|]. unfold zlen. rewrite !app_length. cbn [length]. nia.
  Qed.
End Ed.

Lemma firstn_snoc {A} (d : A) : forall n (l : list A), (n < length l)%nat -> firstn (S n) l = firstn n l ++ [nth n l d].
Proof.
  induction n as [|n IH]; intros l Hl; destruct l as [|x t]; cbn in Hl; try lia; [reflexivity|].
  cbn [firstn nth app]. f_equal. apply IH. lia.
Qed.

Lemma nth_skipn {A} (d : A) : forall a n (l : list A), nth n (skipn a l) d = nth (a + n) l d.
Proof. induction a as [|a IH]; intros n l; [reflexivity|]. destruct l as [|x t]; [destruct n; reflexivity|]. cbn. apply IH. Qed.

Lemma zslice_snoc {A} (d : A) (l : list A) a b : 0 <= a <= b -> b < zlen l ->
  zslice l a (b + 1) = zslice l a b ++ [znth d l b].
Proof.
  intros Hab Hb. unfold zslice, znth, zlen in *. destruct (b <? 0) eqn:E; [lia|].
  replace (Z.to_nat (b + 1 - a)) with (S (Z.to_nat (b - a))) by lia.
  rewrite (firstn_snoc d) by (rewrite skipn_length; lia). rewrite nth_skipn. do 3 f_equal. lia.
Qed.

Lemma zslice_empty {A} (l : list A) a : zslice l a a = [].
Proof. unfold zslice. rewrite Z.sub_diag. reflexivity. Qed.

Lemma zslice_zlen' {A} (l : list A) a b : 0 <= a <= b -> b <= zlen l -> zlen (zslice l a b) = b - a.
Proof. apply zslice_length. Qed.

Section D.
  Variable eqc : Z -> Z -> bool.
  Variable thr : Z -> Z.
  Variable cfg : acfg.
  Variable rawref : list Z.
  Variable s1 s2 : list Z.

  Notation m := (zlen s1).
  Notation n := (zlen s2).
  Notation k := (thr m).
  Notation IND := (indel_cost cfg).
  Hypothesis IND_pos : 1 <= IND.
  Hypothesis k_nonneg : 0 <= k.

  Notation ed := (ed eqc IND).
  Notation ent_ok := (ent_ok cfg).

  Definition rs_of (o : Z) : Z := Z.max 0 (- o).
  Definition qs_of (o : Z) : Z := Z.max 0 o.

  (** what every cell of the column satisfies at row i, column j *)
  Definition cellD (i j : Z) (e : entry) : Prop :=
    ent_ok i j e /\ 0 <= cost e /\ score e <= i /\ (i - rs_of (origin e)) - 3 * cost e <= score e /\
    (cost e <= k -> ed (zslice s1 (rs_of (origin e)) i) (zslice s2 (qs_of (origin e)) j) (cost e)).

  Lemma cellD_mono i j j' e : cellD i j e -> j <= j' -> k < cost e -> cellD i j' e.
  Proof.
    intros (H1 & H2 & H3 & H4 & H5) Hj Hk. split; [eapply ent_ok_mono; eauto|]. split; [exact H2|]. split; [exact H3|]. split; [exact H4|].
    intros; lia.
  Qed.

  Lemma cell_d c2 r i j diag cur prev :
    1 <= i <= m -> 1 <= j <= n -> r = znth 0 s1 (i - 1) -> c2 = znth 0 s2 (j - 1) ->
    cellD (i - 1) (j - 1) diag -> cellD i (j - 1) cur -> cellD (i - 1) j prev ->
    cellD i j (cell eqc cfg c2 r diag cur prev).
  Proof.
    intros Hi Hj Hr Hc2 (Do & Dc & Ds & Dl & De) (Co & Cc & Cs & Cl & Ce) (Po & Pc & Ps & Pl & Pe).
    pose proof (cell_ok eqc cfg c2 r i (j - 1) diag cur prev) as Hok. replace (j - 1 + 1) with j in Hok by lia.
    specialize (Hok Do Co Po).
    destruct Do as (d1 & d2 & d3 & d4). destruct Co as (c1 & c2' & c3 & c4). destruct Po as (p1 & p2 & p3 & p4).
    assert (Hs1 : forall o, - (i - 1) <= o -> zslice s1 (rs_of o) i = zslice s1 (rs_of o) (i - 1) ++ [r]).
    { intros o Ho. subst r. replace i with (i - 1 + 1) at 1 by lia. apply zslice_snoc; unfold rs_of; lia. }
    assert (Hs2 : forall o, o <= j - 1 -> zslice s2 (qs_of o) j = zslice s2 (qs_of o) (j - 1) ++ [c2]).
    { intros o Ho. subst c2. replace j with (j - 1 + 1) at 1 by lia. apply zslice_snoc; unfold qs_of; lia. }
    split; [exact Hok|]. unfold cell in *.
    destruct (eqc r c2) eqn:Eq; cbn [cost score origin] in *.
    - unfold MATCH_SCORE. repeat split; try lia. intros Hk. rewrite (Hs1 _ d1), (Hs2 _ d2). apply ed_match; auto.
    - destruct ((cost diag + 1 <=? cost prev + IND) && (cost diag + 1 <=? cost cur + IND)); cbn [cost score origin] in *.
      + unfold MISMATCH_SCORE. repeat split; try lia. intros Hk. rewrite (Hs1 _ d1), (Hs2 _ d2). apply ed_sub. apply De. lia.
      + destruct (cost prev + IND <=? cost cur + IND); cbn [cost score origin] in *.
        * unfold DELETION_SCORE. repeat split; try lia. intros Hk. rewrite (Hs1 _ p1). apply ed_del. apply Pe. lia.
        * unfold INSERTION_SCORE. repeat split; try lia. intros Hk. rewrite (Hs2 _ c2'). apply ed_ins. apply Ce. lia.
  Qed.

  Inductive colD (j : Z) : Z -> list entry -> Prop :=
  | colD_nil : forall i, colD j i []
  | colD_cons : forall i e l, cellD i j e -> colD j (i + 1) l -> colD j i (e :: l).

  Lemma colD_col_ok j : forall l i, colD j i l -> col_ok cfg j i l.
  Proof. induction l as [|e t IH]; intros i H; [constructor|]. inversion H as [|i0 e0 l0 He Hl]; subst. constructor; [destruct He; assumption | apply IH; assumption]. Qed.

  Lemma colD_stale j j' : forall l i, colD j i l -> j <= j' -> Forall (fun e => k < cost e) l -> colD j' i l.
  Proof.
    induction l as [|e t IH]; intros i H Hj Hall; [constructor|]. inversion H; subst. inversion Hall; subst.
    constructor; [eapply cellD_mono; eauto | apply IH; assumption].
  Qed.

  Lemma skipn_cons_nth {A} (d : A) : forall a (l : list A) x t, skipn a l = x :: t -> x = nth a l d /\ t = skipn (S a) l /\ (a < length l)%nat.
  Proof.
    induction a as [|a IH]; intros l x t H; destruct l as [|y u]; cbn in H; try discriminate.
    - inversion H; subst. cbn. repeat split; auto. lia.
    - destruct (IH u x t H) as (H1 & H2 & H3). cbn [nth length]. repeat split; auto. lia.
  Qed.

  Lemma fill_d : forall budget c2 refs old diag prev ov i j,
    1 <= i -> 1 <= j <= n -> c2 = znth 0 s2 (j - 1) ->
    refs = skipn (Z.to_nat (i - 1)) s1 -> length refs = length old ->
    colD (j - 1) i old -> Forall (fun e => k < cost e) (skipn budget old) ->
    cellD (i - 1) (j - 1) diag -> cellD (i - 1) j prev ->
    colD j i (fst (fill eqc cfg budget c2 refs old diag prev ov)).
  Proof.
    induction budget as [|b IH]; intros c2 refs old diag prev ov i j Hi Hj Hc2 Hrefs Hlen Hold HB Hd Hp.
    - cbn [fill fst]. cbn [skipn] in HB. eapply colD_stale; eauto. lia.
    - cbn [fill]. destruct refs as [|r refs'].
      + destruct old; [constructor | discriminate].
      + destruct old as [|cur old']; [discriminate|].
        inversion Hold as [|i0 e0 l0 Hcur Hrest]; subst i0 e0 l0.
        symmetry in Hrefs. destruct (skipn_cons_nth 0 _ _ _ _ Hrefs) as (Hr & Hrefs' & Hlt).
        assert (Him : i <= m) by (unfold zlen; lia).
        assert (Hr' : r = znth 0 s1 (i - 1)) by (unfold znth; destruct (i - 1 <? 0) eqn:E; [lia | exact Hr]).
        pose proof (cell_d c2 r i j diag cur prev ltac:(lia) Hj Hr' Hc2 Hd Hcur Hp) as Hcell.
        specialize (IH c2 refs' old' cur (cell eqc cfg c2 r diag cur prev) (origin (cell eqc cfg c2 r diag cur prev)) (i + 1) j).
        replace (i + 1 - 1) with i in IH by lia.
        assert (Hrefs2 : refs' = skipn (Z.to_nat i) s1) by (rewrite Hrefs'; f_equal; lia).
        cbn [length] in Hlen. cbn [skipn] in HB.
        specialize (IH ltac:(lia) Hj Hc2 Hrefs2 ltac:(lia) Hrest HB Hcur Hcell).
        destruct (fill eqc cfg b c2 refs' old' cur (cell eqc cfg c2 r diag cur prev) (origin (cell eqc cfg c2 r diag cur prev))) as [rest ov'].
        cbn [fst] in *. constructor; assumption.
  Qed.

  (** cells beyond the budget are left untouched *)
  Lemma fill_skip : forall budget c2 refs old diag prev ov,
    skipn budget (fst (fill eqc cfg budget c2 refs old diag prev ov)) = skipn budget old.
  Proof.
    induction budget as [|b IH]; intros c2 refs old diag prev ov; [reflexivity|]. cbn [fill].
    destruct refs as [|r refs']; [reflexivity|]. destruct old as [|cur old']; [reflexivity|].
    specialize (IH c2 refs' old' cur (cell eqc cfg c2 r diag cur prev) (origin (cell eqc cfg c2 r diag cur prev))).
    destruct (fill eqc cfg b c2 refs' old' cur (cell eqc cfg c2 r diag cur prev) (origin (cell eqc cfg c2 r diag cur prev))) as [rest ov'].
    cbn [fst skipn] in *. exact IH.
  Qed.

  (** ---- the Ukkonen cut-off *)
  Lemma last_le_spec : forall (l : list entry) i acc,
    acc < i ->
    let r := last_le thr s1 l i acc in
    (r = acc \/ (i <= r < i + zlen l /\ cost (nth (Z.to_nat (r - i)) l dummy) <= k)) /\
    (forall t, r < t -> i <= t < i + zlen l -> k < cost (nth (Z.to_nat (t - i)) l dummy)).
  Proof.
    induction l as [|e u IH]; intros i acc Hacc; cbn [last_le]; cbv zeta.
    - split; [left; reflexivity|]. intros t _ Ht. rewrite zlen_nil in Ht. lia.
    - rewrite zlen_cons. pose proof (zlen_nonneg u) as Hu. destruct (cost e <=? k) eqn:Ec.
      + apply Z.leb_le in Ec. specialize (IH (i + 1) i ltac:(lia)). cbv zeta in IH. remember (last_le thr s1 u (i + 1) i) as r eqn:Er. clear Er.
        destruct IH as [IH1 IH2]. split.
        * right. destruct IH1 as [->|(Hr & Hc)].
          -- split; [lia|]. rewrite Z.sub_diag. exact Ec.
          -- split; [lia|]. replace (Z.to_nat (r - i)) with (S (Z.to_nat (r - (i + 1)))) by lia. exact Hc.
        * intros t Ht Hr. assert (t <> i) by (destruct IH1 as [->|(Hr' & _)]; lia).
          replace (Z.to_nat (t - i)) with (S (Z.to_nat (t - (i + 1)))) by lia. cbn [nth]. apply IH2; lia.
      + apply Z.leb_gt in Ec. specialize (IH (i + 1) acc ltac:(lia)). cbv zeta in IH. remember (last_le thr s1 u (i + 1) acc) as r eqn:Er. clear Er.
        destruct IH as [IH1 IH2]. split.
        * destruct IH1 as [->|(Hr & Hc)]; [left; reflexivity|]. right. split; [lia|].
          replace (Z.to_nat (r - i)) with (S (Z.to_nat (r - (i + 1)))) by lia. exact Hc.
        * intros t Ht Hr. destruct (Z.eq_dec t i) as [->|Hne]; [rewrite Z.sub_diag; exact Ec|].
          replace (Z.to_nat (t - i)) with (S (Z.to_nat (t - (i + 1)))) by lia. cbn [nth]. apply IH2; lia.
  Qed.

  Lemma shrink_last_spec (c : list entry) (lst : Z) : 0 <= lst -> lst < zlen c ->
    let l1 := shrink_last thr s1 c lst in
    -1 <= l1 <= lst /\ (0 <= l1 -> cost (nth (Z.to_nat l1) c dummy) <= k) /\
    (forall t, l1 < t <= lst -> k < cost (nth (Z.to_nat t) c dummy)).
  Proof.
    intros H0 Hl. unfold shrink_last.
    pose proof (last_le_spec (firstn (Z.to_nat (lst + 1)) c) 0 (-1) ltac:(lia)) as H. cbv zeta in H.
    assert (Hz : zlen (firstn (Z.to_nat (lst + 1)) c) = lst + 1) by (unfold zlen in *; rewrite firstn_length; lia).
    rewrite Hz in H. destruct H as [H1 H2].
    assert (Hn : forall t, 0 <= t <= lst -> nth (Z.to_nat t) (firstn (Z.to_nat (lst + 1)) c) dummy = nth (Z.to_nat t) c dummy).
    { intros t Ht. rewrite <- (firstn_skipn (Z.to_nat (lst + 1)) c) at 2. rewrite app_nth1; [reflexivity|]. rewrite firstn_length. unfold zlen in *. lia. }
    split; [destruct H1 as [->|(Hr & _)]; lia|]. split.
    - intros Hl1. destruct H1 as [E|(Hr & Hc)]; [lia|]. rewrite Z.sub_0_r in Hc. rewrite <- Hn by lia. exact Hc.
    - intros t Ht. specialize (H2 t ltac:(lia) ltac:(lia)). rewrite Z.sub_0_r in H2. rewrite <- Hn by lia. exact H2.
  Qed.

  Lemma Forall_skipn_nth {A} (P : A -> Prop) (d : A) (l : list A) a :
    (forall t, (a <= t < length l)%nat -> P (nth t l d)) -> Forall P (skipn a l).
  Proof.
    revert a. induction l as [|x u IH]; intros a H; [rewrite skipn_nil; constructor|]. destruct a as [|a].
    - cbn [skipn]. constructor; [apply (H 0%nat); cbn; lia|]. apply (IH 0%nat). intros t Ht. apply (H (S t)). cbn; lia.
    - cbn [skipn]. apply IH. intros t Ht. apply (H (S t)). cbn; lia.
  Qed.

  Lemma Forall_skipn_get {A} (P : A -> Prop) (d : A) (l : list A) a t :
    Forall P (skipn a l) -> (a <= t < length l)%nat -> P (nth t l d).
  Proof.
    intros H Ht. rewrite Forall_forall in H. apply H. replace t with (a + (t - a))%nat by lia. rewrite <- nth_skipn.
    apply nth_In. rewrite skipn_length. lia.
  Qed.

  Lemma colD_nth : forall l j i0 i, colD j i0 l -> 0 <= i -> (Z.to_nat i < length l)%nat -> cellD (i0 + i) j (nth (Z.to_nat i) l dummy).
  Proof.
    induction l as [|e l IH]; intros j i0 i H Hi Hlt; [cbn in Hlt; lia|]. inversion H; subst.
    destruct (Z.eq_dec i 0) as [->|Hne]; [cbn; replace (i0 + 0) with i0 by lia; assumption|].
    replace (Z.to_nat i) with (S (Z.to_nat (i - 1))) by lia. cbn [nth]. replace (i0 + i) with (i0 + 1 + (i - 1)) by lia.
    apply IH; auto; [lia|]. cbn [length] in Hlt. lia.
  Qed.

  Lemma ed_nil_len : forall a b c, ed a b c -> a = [] -> zlen b * IND <= c.
  Proof.
    induction 1; intros Ha; subst; try (destruct a; discriminate).
    - cbn; lia.
    - specialize (IHed eq_refl). unfold zlen in *. rewrite app_length. cbn [length]. lia.
    - specialize (IHed eq_refl). lia.
  Qed.

  Lemma ed_nil_same_len b b' c : ed [] b c -> zlen b' = zlen b -> ed [] b' c.
  Proof. intros H Hl. pose proof (ed_nil_len _ _ _ H eq_refl). eapply ed_weak; [apply ed_ins_all; exact IND_pos|]. lia. Qed.

  (** ---- state invariant *)
  Definition bestD (b : best_t) : Prop :=
    b_cost b = no_best s1 n \/
    ed (zslice s1 (rs_of (b_origin b)) (b_refstop b)) (zslice s2 (qs_of (b_origin b)) (b_qstop b)) (b_cost b).

  Definition SD (j : Z) (st : lstate) : Prop :=
    colD j 0 (col st) /\ zlen (col st) = m + 1 /\ 0 <= last st <= m /\
    Forall (fun e => k < cost e) (skipn (Z.to_nat (last st + 1)) (col st)) /\ bestD (best st).

  Definition exact_best (b : best_t) : Prop := b_cost b = 0 /\ m <= b_score b.

  Lemma column_step_d c2 j st :
    SD (j - 1) st -> 1 <= j <= n -> c2 = znth 0 s2 (j - 1) ->
    let st' := column_step eqc thr cfg rawref s1 n c2 j st in
    SD j st' /\ (stopped st' = true -> exact_best (best st')).
  Proof.
    intros (Hcol & Hlen & Hlast & HB & Hbest) Hj Hc2. unfold column_step.
    destruct (col st) as [|c0 olds] eqn:Ecol; [rewrite zlen_nil in Hlen; pose proof (zlen_nonneg s1); lia|].
    inversion Hcol as [|i0 e0 l0 Hc0 Holds]; subst i0 e0 l0.
    set (new0 := mkE _ _ _).
    assert (Hnew0 : cellD 0 j new0).
    { destruct Hc0 as ((a & b & c & d) & Hc & Hs & Hl & He). subst new0. unfold cellD, AlignProofs.ent_ok; cbn [cost score origin].
      assert (R0 : rs_of (origin c0) = 0) by (unfold rs_of; lia).
      destruct (start_in_query cfg) eqn:Esiq.
      - assert (R1 : rs_of (origin c0 + 1) = 0) by (unfold rs_of; lia).
        rewrite !Z.add_0_r. rewrite R1. rewrite R0 in Hl, He. repeat split; auto; try lia; try (intros; discriminate).
        intros Hk. specialize (He Hk). rewrite zslice_empty in *. eapply ed_nil_same_len; [exact He|].
        unfold qs_of. rewrite !zslice_length by lia. lia.
      - unfold INSERTION_SCORE. specialize (d eq_refl). rewrite !Z.add_0_r. rewrite R0 in *. repeat split; auto; try lia.
        intros Hk. rewrite zslice_empty in *. replace j with (j - 1 + 1) at 1 by lia.
        rewrite (zslice_snoc 0) by (unfold qs_of; lia). apply ed_ins. apply He. lia. }
    assert (Holen : length s1 = length olds) by (rewrite zlen_cons in Hlen; unfold zlen in Hlen; lia).
    pose proof (fill_d (Z.to_nat (last st)) c2 s1 olds c0 new0 (ovar st) 1 j ltac:(lia) Hj Hc2 eq_refl Holen Holds) as Hf.
    replace (1 - 1) with 0 in Hf by lia.
    assert (HB' : Forall (fun e => k < cost e) (skipn (Z.to_nat (last st)) olds)).
    { replace (Z.to_nat (last st + 1)) with (S (Z.to_nat (last st))) in HB by lia. exact HB. }
    specialize (Hf HB' Hc0 Hnew0).
    pose proof (fill_skip (Z.to_nat (last st)) c2 s1 olds c0 new0 (ovar st)) as Hsk.
    pose proof (fill_ok eqc cfg (Z.to_nat (last st)) c2 s1 olds c0 new0 (ovar st) 1 (j - 1)) as Hfo.
    destruct (fill eqc cfg (Z.to_nat (last st)) c2 s1 olds c0 new0 (ovar st)) as [rest ov1] eqn:Efill. cbn [fst] in *.
    assert (Hrlen : length rest = length olds).
    { apply Hfo. - apply colD_col_ok. exact Holds.
      - replace (1 - 1) with 0 by lia. destruct Hc0; assumption.
      - replace (1 - 1) with 0 by lia. replace (j - 1 + 1) with j by lia. destruct Hnew0; assumption. }
    assert (Hcol' : colD j 0 (new0 :: rest)) by (constructor; assumption).
    assert (Hlen' : zlen (new0 :: rest) = m + 1) by (rewrite zlen_cons in *; unfold zlen in *; lia).
    pose proof (shrink_last_spec (new0 :: rest) (last st) ltac:(lia) ltac:(lia)) as Hsh. cbv zeta in Hsh.
    set (l1 := shrink_last thr s1 (new0 :: rest) (last st)) in *. destruct Hsh as (Hl1 & Hl1c & Hl1g).
    (* cells beyond a new last' >= l1+1 (or = m) have cost > k *)
    assert (HBn : forall lst', l1 < lst' -> Forall (fun e => k < cost e) (skipn (Z.to_nat (lst' + 1)) (new0 :: rest))).
    { intros lst' Hl'. apply (Forall_skipn_nth (fun e => k < cost e) dummy). intros t Ht.
      destruct (Z_le_gt_dec (Z.of_nat t) (last st)) as [Hle|Hgt].
      - replace t with (Z.to_nat (Z.of_nat t)) by lia. apply Hl1g. lia.
      - destruct t as [|t']; [lia|]. cbn [nth]. cbn [length] in Ht.
        assert (Hn : nth t' rest dummy = nth t' olds dummy).
        { replace t' with (Z.to_nat (last st) + (t' - Z.to_nat (last st)))%nat by lia. rewrite <- !nth_skipn. rewrite Hsk. reflexivity. }
        rewrite Hn. apply (Forall_skipn_get (fun e => k < cost e) dummy olds (Z.to_nat (last st)) t' HB'). lia. }
    cbv zeta.
    destruct (l1 <? m) eqn:El1m.
    - apply Z.ltb_lt in El1m. split; [|cbn [stopped]; discriminate]. unfold SD; cbn [col last best].
      split; [exact Hcol'|]. split; [exact Hlen'|]. split; [lia|]. split; [apply HBn; lia | exact Hbest].
    - apply Z.ltb_ge in El1m. assert (Hl1m : l1 = m) by lia.
      assert (HBm : Forall (fun e => k < cost e) (skipn (Z.to_nat (l1 + 1)) (new0 :: rest))).
      { rewrite skipn_all2; [constructor|]. unfold zlen in *. lia. }
      destruct (stop_in_query cfg) eqn:Estiq.
      + set (e := znth dummy (new0 :: rest) m).
        assert (He : cellD m j e).
        { subst e. unfold znth. destruct (m <? 0) eqn:E; [pose proof (zlen_nonneg s1); lia|].
          replace m with (0 + m) at 1 by lia. apply colD_nth; auto; [pose proof (zlen_nonneg s1); lia | unfold zlen in *; lia]. }
        assert (Hek : cost e <= k).
        { subst e. unfold znth. destruct (m <? 0) eqn:E; [pose proof (zlen_nonneg s1); lia|]. assert (Hx := Hl1c ltac:(pose proof (zlen_nonneg s1); lia)). rewrite Hl1m in Hx. exact Hx. }
        match goal with |- context [if ?c then _ else _] => destruct c eqn:Ecnd end.
        * split.
          -- unfold SD; cbn [col last best]. split; [exact Hcol'|]. split; [exact Hlen'|]. split; [lia|]. split; [exact HBm|].
             right. cbn [b_origin b_refstop b_qstop b_cost]. destruct He as (_ & _ & _ & _ & He). apply He. exact Hek.
          -- cbn [stopped best]. intros Hst. apply andb_prop in Hst. destruct Hst as [H0 Ho]. apply Z.eqb_eq in H0. apply Z.leb_le in Ho.
             unfold exact_best; cbn [b_cost b_score]. split; [exact H0|]. destruct He as (_ & _ & _ & Hlb & _). unfold rs_of in Hlb. lia.
        * split; [|cbn [stopped]; discriminate]. unfold SD; cbn [col last best].
          split; [exact Hcol'|]. split; [exact Hlen'|]. split; [lia|]. split; [exact HBm | exact Hbest].
      + split; [|cbn [stopped]; discriminate]. unfold SD; cbn [col last best].
        split; [exact Hcol'|]. split; [exact Hlen'|]. split; [lia|]. split; [exact HBm | exact Hbest].
  Qed.

  Definition colsD (jf : Z) (st : lstate) : Prop := colD jf 0 (col st) /\ zlen (col st) = m + 1.

  Lemma columns_d : forall qs j st,
    SD (j - 1) st -> 1 <= j -> j - 1 + zlen qs <= n ->
    qs = firstn (length qs) (skipn (Z.to_nat (j - 1)) s2) ->
    let st' := columns eqc thr cfg rawref s1 n qs j st in
    bestD (best st') /\ exists jf, colsD jf st' /\ (exact_best (best st') \/ jf = j - 1 + zlen qs).
  Proof.
    induction qs as [|c2 t IH]; intros j st Hst Hj Hn Hqs; cbv zeta; cbn [columns].
    - rewrite zlen_nil, Z.add_0_r. destruct Hst as (H1 & H2 & _ & _ & Hb). split; [exact Hb|]. exists (j - 1). split; [split; assumption | right; reflexivity].
    - rewrite zlen_cons in *. pose proof (zlen_nonneg t) as Ht.
      cbn [length firstn] in Hqs.
      destruct (skipn (Z.to_nat (j - 1)) s2) as [|x u] eqn:Esk; [discriminate|].
      injection Hqs as Hc2 Htl. destruct (skipn_cons_nth 0 _ _ _ _ Esk) as (Hx & Hu & Hlt).
      assert (Hc2' : c2 = znth 0 s2 (j - 1)).
      { unfold znth. destruct (j - 1 <? 0) eqn:E; [lia|]. congruence. }
      destruct (column_step_d c2 j st Hst ltac:(unfold zlen in *; lia) Hc2') as [Hs Hstop]. cbv zeta in Hs, Hstop.
      destruct (stopped (column_step eqc thr cfg rawref s1 n c2 j st)) eqn:Est.
      + destruct Hs as (H1 & H2 & _ & _ & Hb). split; [exact Hb|]. exists j. split; [split; assumption | left; apply Hstop; reflexivity].
      + specialize (IH (j + 1) (column_step eqc thr cfg rawref s1 n c2 j st)). replace (j + 1 - 1) with j in IH by lia.
        assert (Htl' : t = firstn (length t) (skipn (Z.to_nat j) s2)).
        { rewrite Htl at 1. rewrite Hu. do 2 f_equal. lia. }
        specialize (IH Hs ltac:(lia) ltac:(lia) Htl'). cbv zeta in IH.
        replace (j - 1 + (zlen t + 1)) with (j + zlen t) by lia. exact IH.
  Qed.

  Hypothesis thr_bound : forall L, thr L <= k.

  Lemma last_column_d ov : forall cells best,
    bestD best -> (forall i e, In (i, e) cells -> cellD i n e) ->
    bestD (last_column thr cfg rawref s1 n ov cells best).
  Proof.
    induction cells as [|[i e] t IH]; intros best Hb Hcells; cbn [last_column]; [exact Hb|].
    assert (Ht : forall i e, In (i, e) t -> cellD i n e) by (intros; apply Hcells; right; assumption).
    match goal with |- bestD (if ?c then _ else _) => destruct c eqn:Ecnd end; [|apply IH; assumption].
    apply IH; [|exact Ht]. right. cbn [b_origin b_refstop b_qstop b_cost].
    apply andb_prop in Ecnd. destruct Ecnd as [Eok _]. apply andb_prop in Eok. destruct Eok as [_ Ethr]. apply Z.leb_le in Ethr.
    destruct (Hcells i e (or_introl eq_refl)) as (_ & _ & _ & _ & He). apply He. pose proof (thr_bound (eff_len cfg rawref s1 (i + Z.min (origin e) 0) i)). lia.
  Qed.

  Lemma last_column_exact ov : forall cells best,
    exact_best best -> (forall i e, In (i, e) cells -> score e <= i /\ i <= m) ->
    last_column thr cfg rawref s1 n ov cells best = best.
  Proof.
    induction cells as [|[i e] t IH]; intros best Hex Hcells; cbn [last_column]; [reflexivity|].
    destruct Hex as [H0 Hsc]. destruct (Hcells i e (or_introl eq_refl)) as [Hs Hi].
    assert (Hrep : replaces s1 n best ov (score e) (i + Z.min (origin e) 0) (b_refstop best + Z.min (b_origin best) 0) = false).
    { unfold replaces. assert (E1 : (b_cost best =? no_best s1 n) = false).
      { apply Z.eqb_neq. unfold no_best. pose proof (zlen_nonneg s1). pose proof (zlen_nonneg s2). lia. }
      assert (E2 : (b_score best <? score e) = false) by (apply Z.ltb_ge; lia).
      rewrite E1, E2, !andb_false_r. reflexivity. }
    rewrite Hrep, andb_false_r. apply IH; [split; assumption | intros; apply Hcells; right; assumption].
  Qed.

  (** the invariant holds in the initial state, for any first column min_n *)
  Lemma init_state_d min_n : 0 <= min_n <= n ->
    SD (min_n + 1 - 1) (mkS (init_column cfg s1 min_n) (if start_in_ref cfg then m else Z.min m (k + 1)) 0 (mkB 0 (no_best s1 n) 0 m n) 0 false).
  Proof.
    intros Hmin.
    assert (Hn : 0 <= n) by apply zlen_nonneg.
    assert (Hm : 0 <= m) by apply zlen_nonneg.
    assert (Hinit : forall cnt lo, 0 <= lo -> lo + Z.of_nat cnt <= m + 1 -> colD min_n lo (map (init_entry cfg min_n) (zrange lo cnt))).
    { induction cnt as [|c IH]; intros lo Hlo Hc; cbn [zrange map]; constructor; [|apply IH; lia].
      split; [apply init_entry_ok; lia|].
      unfold init_entry, cellD. destruct (start_in_ref cfg), (start_in_query cfg); cbn [cost score origin]; unfold DELETION_SCORE, rs_of, qs_of.
      all: repeat split; try nia.
      all: intros _.
      all: (eapply ed_weak; [apply ed_trivial; exact IND_pos|]).
      all: rewrite !zslice_length by lia; nia. }
    assert (Hnz : forall cnt lo t d, (t < cnt)%nat -> nth t (zrange lo cnt) d = lo + Z.of_nat t).
    { induction cnt as [|c IH]; intros lo t d Ht; [lia|]. destruct t as [|t']; cbn [zrange nth]; [lia|]. rewrite IH by lia. lia. }
    replace (min_n + 1 - 1) with min_n by lia. unfold SD; cbn [col last best].
    split; [apply Hinit; [lia | unfold zlen; lia]|]. split; [apply init_column_length|].
    split; [destruct (start_in_ref cfg); lia|]. split; [|left; reflexivity].
    unfold init_column. apply (Forall_skipn_nth (fun e => k < cost e) dummy). intros t Ht. rewrite map_length, zrange_length in Ht.
    rewrite (nth_indep _ dummy (init_entry cfg min_n 0)) by (rewrite map_length, zrange_length; lia).
    rewrite map_nth, Hnz by lia. unfold init_entry. destruct (start_in_ref cfg) eqn:Esr; [unfold zlen in *; lia|].
    assert (Htk : k + 2 <= Z.of_nat t) by (unfold zlen in *; lia).
    destruct (start_in_query cfg); cbn [cost]; [|assert (Hmx : Z.of_nat t <= Z.max (0 + Z.of_nat t) min_n) by lia]; nia.
  Qed.

  (** ---- the result of locate_core *)
  Theorem locate_core_dist rs re qs qe sc e :
    locate_core eqc thr cfg rawref s1 s2 = Some (rs, re, qs, qe, sc, e) ->
    ed (zslice s1 rs re) (zslice s2 qs qe) e.
  Proof.
    unfold locate_core.
    set (max_n := if start_in_query cfg then n else Z.min n (m + k)).
    set (min_n := if stop_in_query cfg then 0 else Z.max 0 (n - m - k)).
    set (qsl := firstn _ _).
    set (st0 := mkS _ _ _ _ _ _).
    assert (Hn : 0 <= n) by apply zlen_nonneg.
    assert (Hm : 0 <= m) by apply zlen_nonneg.
    assert (Hmin : 0 <= min_n) by (subst min_n; destruct (stop_in_query cfg); lia).
    assert (Hminn : min_n <= n) by (subst min_n; destruct (stop_in_query cfg); lia).
    assert (Hmaxn : max_n <= n) by (subst max_n; destruct (start_in_query cfg); lia).
    (* the initial column *)
    assert (Hinit : forall cnt lo, 0 <= lo -> lo + Z.of_nat cnt <= m + 1 -> colD min_n lo (map (init_entry cfg min_n) (zrange lo cnt))).
    { induction cnt as [|c IH]; intros lo Hlo Hc; cbn [zrange map]; constructor; [|apply IH; lia].
      split; [apply init_entry_ok; assumption|].
      unfold init_entry, cellD. destruct (start_in_ref cfg), (start_in_query cfg); cbn [cost score origin]; unfold DELETION_SCORE, rs_of, qs_of.
      all: repeat split; try nia.
      all: intros _.
      all: (eapply ed_weak; [apply ed_trivial; exact IND_pos|]).
      all: rewrite !zslice_length by lia; nia. }
    assert (Hnz : forall cnt lo t d, (t < cnt)%nat -> nth t (zrange lo cnt) d = lo + Z.of_nat t).
    { induction cnt as [|c IH]; intros lo t d Ht; [lia|]. destruct t as [|t']; cbn [zrange nth]; [lia|]. rewrite IH by lia. lia. }
    assert (Hst0 : SD (min_n + 1 - 1) st0).
    { replace (min_n + 1 - 1) with min_n by lia. subst st0. unfold SD; cbn [col last best].
      split; [apply Hinit; [lia | unfold zlen; lia]|]. split; [apply init_column_length|].
      split; [destruct (start_in_ref cfg); lia|]. split; [|left; reflexivity].
      unfold init_column. apply (Forall_skipn_nth (fun e => k < cost e) dummy). intros t Ht. rewrite map_length, zrange_length in Ht.
      rewrite (nth_indep _ dummy (init_entry cfg min_n 0)) by (rewrite map_length, zrange_length; lia).
      rewrite map_nth, Hnz by lia. unfold init_entry. destruct (start_in_ref cfg) eqn:Esr; [unfold zlen in *; lia|].
      assert (Htk : k + 2 <= Z.of_nat t) by (unfold zlen in *; lia).
      destruct (start_in_query cfg); cbn [cost]; [|assert (Hmx : Z.of_nat t <= Z.max (0 + Z.of_nat t) min_n) by lia]; nia. }
    assert (Hqsl : qsl = firstn (length qsl) (skipn (Z.to_nat (min_n + 1 - 1)) s2)).
    { subst qsl. replace (min_n + 1 - 1) with min_n by lia. rewrite firstn_length.
      destruct (Nat.le_ge_cases (Z.to_nat (max_n - min_n)) (length (skipn (Z.to_nat min_n) s2))) as [Hle|Hge].
      - rewrite Nat.min_l by exact Hle. reflexivity.
      - rewrite Nat.min_r by exact Hge. rewrite !firstn_all2; auto. }
    assert (Hqlen : min_n + 1 - 1 + zlen qsl <= n).
    { subst qsl. unfold zlen at 1. rewrite firstn_length, skipn_length. unfold zlen in *. lia. }
    destruct (columns_d qsl (min_n + 1) st0 Hst0 ltac:(lia) Hqlen Hqsl) as (Hbest & jf & (Hcol & Hlen) & Hex). cbv zeta in *.
    set (st := columns eqc thr cfg rawref s1 n qsl (min_n + 1) st0) in *.
    set (bestf := if max_n =? n then _ else best st).
    assert (Hbf : bestD bestf).
    { subst bestf. destruct (max_n =? n) eqn:Emx; [|exact Hbest]. apply Z.eqb_eq in Emx.
      set (cells := filter _ _).
      assert (Hcells : forall i ee, In (i, ee) cells -> cellD i jf ee /\ 0 <= i <= m).
      { intros i ee Hin. subst cells. apply filter_In in Hin. destruct Hin as [Hin _]. apply in_rev in Hin.
        assert (Hin' : In (i, ee) (indexed (col st))) by (eapply In_firstn; eauto).
        unfold indexed in Hin'. apply In_indexed_aux in Hin'. destruct Hin' as [Hi He]. subst ee.
        replace (i - 0) with i by lia. split; [|lia]. replace i with (0 + i) at 1 by lia. apply colD_nth; auto; [lia | unfold zlen in *; lia]. }
      destruct Hex as [Hex|Hjf].
      - rewrite last_column_exact; [exact Hbest | exact Hex|]. intros i ee Hin. destruct (Hcells i ee Hin) as ((_ & _ & Hs & _) & Hi). lia.
      - apply last_column_d; [exact Hbest|]. intros i ee Hin. destruct (Hcells i ee Hin) as [Hc _].
        assert (Hjfn : jf = n).
        { rewrite Hjf. subst qsl. unfold zlen at 1. rewrite firstn_length, skipn_length. unfold zlen in *. lia. }
        rewrite <- Hjfn. exact Hc. }
    destruct (b_cost bestf =? no_best s1 n) eqn:Enb; [discriminate|]. apply Z.eqb_neq in Enb.
    destruct Hbf as [Hbf|Hed]; [contradiction|].
    destruct (0 <=? b_origin bestf) eqn:Eo; intros Hr; inversion Hr; subst; clear Hr.
    - apply Z.leb_le in Eo. unfold rs_of, qs_of in Hed. rewrite Z.max_l in Hed by lia. rewrite Z.max_r in Hed by lia. exact Hed.
    - apply Z.leb_gt in Eo. unfold rs_of, qs_of in Hed. rewrite Z.max_r in Hed by lia. rewrite Z.max_l in Hed by lia. exact Hed.
  Qed.
End D.

(** ---- Aligner.locate with its translation tables, all 16 flag sets *)
Definition loc_s1 (cfg : acfg) (wq : bool) (ref : list Z) : list Z :=
  if wildcard_ref cfg then map (tr iupac_table) ref else if wq then map (tr acgt_table) ref else ref.
Definition loc_s2 (cfg : acfg) (wq : bool) (query : list Z) : list Z :=
  if wq then map (tr iupac_table) query else if wildcard_ref cfg then map (tr acgt_table) query else map (tr upper_table) query.
Definition loc_eqc (cfg : acfg) (wq : bool) : Z -> Z -> bool := if wq || wildcard_ref cfg then eq_and else eq_ascii.

Theorem locate_dist thr cfg wq ref query rs re qs qe sc e :
  1 <= indel_cost cfg -> 0 <= thr (zlen ref) -> (forall L, thr L <= thr (zlen ref)) ->
  locate thr cfg wq ref query = Some (rs, re, qs, qe, sc, e) ->
  ed (loc_eqc cfg wq) (indel_cost cfg) (zslice (loc_s1 cfg wq ref) rs re) (zslice (loc_s2 cfg wq query) qs qe) e.
Proof.
  intros Hi Hk Hb H. unfold locate in H. fold (loc_s1 cfg wq ref) in H. fold (loc_s2 cfg wq query) in H. fold (loc_eqc cfg wq) in H.
  assert (Hlen : zlen (loc_s1 cfg wq ref) = zlen ref).
  { unfold loc_s1, zlen. destruct (wildcard_ref cfg); [rewrite map_length; reflexivity|]. destruct wq; [rewrite map_length|]; reflexivity. }
  eapply locate_core_dist; eauto; rewrite ?Hlen; auto.
Qed.

(** ---- the relation is closed under reversal (used for the one adapter class that aligns the
    reversed strings, RightmostFrontAdapter) *)
Section EdRev.
  Variable eqc : Z -> Z -> bool.
  Variable IND : Z.
  Notation ed := (ed eqc IND).

  Lemma ed_cons_match a b c : ed a b c -> forall x y, eqc x y = true -> ed (x :: a) (y :: b) c.
  Proof.
    induction 1; intros x0 y0 He.
    - apply (ed_match eqc IND [] [] 0 x0 y0 He). constructor.
    - apply (ed_match eqc IND (x0 :: a) (y0 :: b) c x y H). apply IHed. exact He.
    - apply (ed_sub eqc IND (x0 :: a) (y0 :: b) c x y). apply IHed. exact He.
    - apply (ed_del eqc IND (x0 :: a) (y0 :: b) c x). apply IHed. exact He.
    - apply (ed_ins eqc IND (x0 :: a) (y0 :: b) c y). apply IHed. exact He.
    - eapply ed_weak; [apply IHed; exact He | assumption].
  Qed.

  Lemma ed_cons_sub a b c : ed a b c -> forall x y, ed (x :: a) (y :: b) (c + 1).
  Proof.
    induction 1; intros x0 y0.
    - apply (ed_sub eqc IND [] [] 0 x0 y0). constructor.
    - apply (ed_match eqc IND (x0 :: a) (y0 :: b) (c + 1) x y H). apply IHed.
    - apply (ed_sub eqc IND (x0 :: a) (y0 :: b) (c + 1) x y). apply IHed.
    - replace (c + IND + 1) with (c + 1 + IND) by lia. apply (ed_del eqc IND (x0 :: a) (y0 :: b) (c + 1) x). apply IHed.
    - replace (c + IND + 1) with (c + 1 + IND) by lia. apply (ed_ins eqc IND (x0 :: a) (y0 :: b) (c + 1) y). apply IHed.
    - eapply ed_weak; [apply IHed | lia].
  Qed.

  Lemma ed_cons_del a b c : ed a b c -> forall x, ed (x :: a) b (c + IND).
  Proof.
    induction 1; intros x0.
    - apply (ed_del eqc IND [] [] 0 x0). constructor.
    - apply (ed_match eqc IND (x0 :: a) b (c + IND) x y H). apply IHed.
    - replace (c + 1 + IND) with (c + IND + 1) by lia. apply (ed_sub eqc IND (x0 :: a) b (c + IND) x y). apply IHed.
    - apply (ed_del eqc IND (x0 :: a) b (c + IND) x). apply IHed.
    - apply (ed_ins eqc IND (x0 :: a) b (c + IND) y). apply IHed.
    - eapply ed_weak; [apply IHed | lia].
  Qed.

  Lemma ed_cons_ins a b c : ed a b c -> forall y, ed a (y :: b) (c + IND).
  Proof.
    induction 1; intros y0.
    - apply (ed_ins eqc IND [] [] 0 y0). constructor.
    - apply (ed_match eqc IND a (y0 :: b) (c + IND) x y H). apply IHed.
    - replace (c + 1 + IND) with (c + IND + 1) by lia. apply (ed_sub eqc IND a (y0 :: b) (c + IND) x y). apply IHed.
    - apply (ed_del eqc IND a (y0 :: b) (c + IND) x). apply IHed.
    - apply (ed_ins eqc IND a (y0 :: b) (c + IND) y). apply IHed.
    - eapply ed_weak; [apply IHed | lia].
  Qed.

  Lemma ed_rev a b c : ed a b c -> ed (rev a) (rev b) c.
  Proof.
    induction 1; rewrite ?rev_app_distr; cbn [rev app].
    - constructor.
    - apply ed_cons_match; assumption.
    - apply ed_cons_sub; assumption.
    - apply ed_cons_del; assumption.
    - apply ed_cons_ins; assumption.
    - eapply ed_weak; eauto.
  Qed.
End EdRev.

Lemma zslice_app3 {A} (p mid s : list A) : zslice (p ++ mid ++ s) (zlen p) (zlen p + zlen mid) = mid.
Proof.
  unfold zslice, zlen. rewrite Nat2Z.id. replace (Z.to_nat (Z.of_nat (length p) + Z.of_nat (length mid) - Z.of_nat (length p))) with (length mid) by lia.
  rewrite skipn_app, skipn_all, Nat.sub_diag. cbn [skipn app]. rewrite firstn_app, firstn_all, Nat.sub_diag. cbn [firstn]. apply app_nil_r.
Qed.

Lemma zslice_split3 {A} (l : list A) a b : 0 <= a <= b -> b <= zlen l ->
  l = firstn (Z.to_nat a) l ++ zslice l a b ++ skipn (Z.to_nat b) l.
Proof.
  intros Hab Hb. unfold zslice. rewrite <- (firstn_skipn (Z.to_nat a) l) at 1. f_equal.
  rewrite <- (firstn_skipn (Z.to_nat (b - a)) (skipn (Z.to_nat a) l)) at 1. f_equal.
  assert (Hss : forall x y (u : list A), skipn x (skipn y u) = skipn (y + x) u).
  { intros x y. induction y as [|y IH]; intros u; [reflexivity|]. destruct u; [rewrite !skipn_nil; reflexivity|]. cbn. apply IH. }
  rewrite Hss. f_equal. lia.
Qed.

Lemma zslice_rev {A} (l : list A) a b : 0 <= a <= b -> b <= zlen l ->
  rev (zslice (rev l) a b) = zslice l (zlen l - b) (zlen l - a).
Proof.
  intros Hab Hb. set (n := zlen l).
  pose proof (zslice_split3 l (n - b) (n - a) ltac:(lia) ltac:(lia)) as Hl.
  set (p := firstn (Z.to_nat (n - b)) l) in *. set (mid := zslice l (n - b) (n - a)) in *. set (s := skipn (Z.to_nat (n - a)) l) in *.
  assert (Hs : zlen s = a) by (subst s; unfold zlen in *; rewrite skipn_length; subst n; unfold zlen; lia).
  assert (Hm : zlen mid = b - a) by (subst mid; rewrite zslice_length; subst n; lia).
  rewrite Hl at 1. rewrite !rev_app_distr, <- app_assoc.
  replace a with (zlen (rev s)) at 1 by (unfold zlen; rewrite rev_length; exact Hs).
  replace b with (zlen (rev s) + zlen (rev mid)) by (unfold zlen; rewrite !rev_length; unfold zlen in *; lia).
  rewrite zslice_app3. apply rev_involutive.
Qed.

(** ---- all adapter classes that use the aligner (the comparers are covered by C01_comparer_exact) *)
From CV Require Import Generated.Flags Model.Adapters.

Definition ad_cfg (ad : adapter) : acfg := cfg_of (aligner_flags ad) ad.
Definition ad_query (ad : adapter) (read : list Z) : list Z :=
  if class_upper_first (a_type ad) then map (tr upper_table) read else read.

Lemma loc_s1_rev cfg wq l : loc_s1 cfg wq (rev l) = rev (loc_s1 cfg wq l).
Proof. unfold loc_s1. destruct (wildcard_ref cfg); [apply map_rev|]. destruct wq; [apply map_rev | reflexivity]. Qed.
Lemma loc_s2_rev cfg wq l : loc_s2 cfg wq (rev l) = rev (loc_s2 cfg wq l).
Proof. unfold loc_s2. destruct wq; [apply map_rev|]. destruct (wildcard_ref cfg); apply map_rev. Qed.
Lemma loc_s1_len cfg wq l : zlen (loc_s1 cfg wq l) = zlen l.
Proof. unfold loc_s1, zlen. destruct (wildcard_ref cfg); [rewrite map_length; reflexivity|]. destruct wq; [rewrite map_length|]; reflexivity. Qed.
Lemma loc_s2_len cfg wq l : zlen (loc_s2 cfg wq l) = zlen l.
Proof. unfold loc_s2, zlen. destruct wq; [rewrite map_length; reflexivity|]. destruct (wildcard_ref cfg); rewrite map_length; reflexivity. Qed.

Theorem match_to_dist thr ad read mt :
  uses_comparer ad = false -> 0 <= thr (zlen (a_seq ad)) -> (forall L, thr L <= thr (zlen (a_seq ad))) ->
  match_to thr ad read = Some mt ->
  ed (loc_eqc (ad_cfg ad) (a_wq ad)) (indel_cost (ad_cfg ad))
     (zslice (loc_s1 (ad_cfg ad) (a_wq ad) (a_seq ad)) (astart mt) (astop mt))
     (zslice (loc_s2 (ad_cfg ad) (a_wq ad) (ad_query ad read)) (rstart mt) (rstop mt)) (merrors mt).
Proof.
  intros Hcmp Hk Hb H. unfold match_to in H.
  destruct (raw_locate thr ad read) as [[[[[[a0 a1] r0] r1] sc] e]|] eqn:Er; [|discriminate].
  inversion H; subst mt; clear H. cbn [astart astop rstart rstop merrors].
  assert (Hic : 1 <= indel_cost (ad_cfg ad)).
  { unfold ad_cfg, cfg_of. cbn [indel_cost]. destruct (a_indels ad); unfold INDEL_COST_ON, INDEL_COST_OFF; lia. }
  assert (Hdirect : forall q, locate thr (ad_cfg ad) (a_wq ad) (a_seq ad) q = Some (a0, a1, r0, r1, sc, e) ->
            ed (loc_eqc (ad_cfg ad) (a_wq ad)) (indel_cost (ad_cfg ad))
               (zslice (loc_s1 (ad_cfg ad) (a_wq ad) (a_seq ad)) a0 a1) (zslice (loc_s2 (ad_cfg ad) (a_wq ad) q) r0 r1) e).
  { intros q Hq. eapply locate_dist; eauto. }
  unfold raw_locate in Er. unfold uses_comparer in Hcmp. unfold ad_query. fold (ad_cfg ad) in Er.
  destruct (a_type ad) eqn:Et; cbn [class_reversed class_upper_first] in *;
    unfold cls_FrontAdapter_reversed, cls_RightmostFrontAdapter_reversed, cls_BackAdapter_reversed, cls_AnywhereAdapter_reversed,
           cls_NonInternalFrontAdapter_reversed, cls_NonInternalBackAdapter_reversed, cls_AnywhereAdapter_upper_first in *.
  - apply Hdirect. exact Er.
  - (* RightmostFront: aligned on the reversed strings *)
    destruct (locate thr (ad_cfg ad) (a_wq ad) (rev (a_seq ad)) (rev read)) as [[[[[[rs re] qs] qe] sc'] e']|] eqn:El; [|discriminate].
    inversion Er; subst; clear Er.
    assert (Hzr : zlen (rev (a_seq ad)) = zlen (a_seq ad)) by (unfold zlen; rewrite rev_length; reflexivity).
    assert (Hzq : zlen (rev read) = zlen read) by (unfold zlen; rewrite rev_length; reflexivity).
    pose proof (locate_structure thr (ad_cfg ad) (a_wq ad) (rev (a_seq ad)) (rev read) _ ltac:(rewrite Hzr; exact Hk) El) as Hs.
    unfold locate_ok in Hs. rewrite Hzr, Hzq in Hs. destruct Hs as (H1 & H2 & H3 & H4 & _).
    pose proof (locate_dist thr (ad_cfg ad) (a_wq ad) (rev (a_seq ad)) (rev read) rs re qs qe sc e Hic
                  ltac:(rewrite Hzr; exact Hk) ltac:(intros; rewrite Hzr; apply Hb) El) as Hd.
    apply ed_rev in Hd. rewrite loc_s1_rev, loc_s2_rev in Hd.
    rewrite zslice_rev in Hd by (rewrite ?loc_s1_len; lia). rewrite zslice_rev in Hd by (rewrite ?loc_s2_len; lia).
    rewrite loc_s1_len, loc_s2_len in Hd. exact Hd.
  - apply Hdirect. exact Er.
  - apply Hdirect. exact Er.
  - apply Hdirect. exact Er.
  - apply Hdirect. exact Er.
  - destruct (a_indels ad); [|discriminate]. apply Hdirect. exact Er.
  - destruct (a_indels ad); [|discriminate]. apply Hdirect. exact Er.
Qed.

(** the hypothesis on the threshold function holds for every table the code can produce:
    thr L = int(L * rate) for L = 0..m is non-negative and non-decreasing, and 0 outside the table *)
Definition table_ok (tab : list Z) : Prop :=
  (forall i, 0 <= i < zlen tab -> 0 <= znth 0 tab i) /\
  (forall i j, 0 <= i <= j -> j < zlen tab -> znth 0 tab i <= znth 0 tab j).

Lemma thr_of_bound tab : table_ok tab -> 0 < zlen tab ->
  0 <= thr_of tab (zlen tab - 1) /\ forall L, thr_of tab L <= thr_of tab (zlen tab - 1).
Proof.
  intros [Hnn Hmono] Hlen. unfold thr_of. split; [apply Hnn; lia|]. intros L.
  destruct (Z_lt_dec L 0) as [Hneg|Hnneg].
  - unfold znth at 1. assert (E : L <? 0 = true) by (apply Z.ltb_lt; lia). rewrite E. apply Hnn. lia.
  - destruct (Z_lt_dec L (zlen tab)) as [Hin|Hout].
    + apply Hmono; lia.
    + unfold znth at 1. assert (E : L <? 0 = false) by (apply Z.ltb_ge; lia). rewrite E.
      rewrite nth_overflow by (unfold zlen in *; lia). apply Hnn. lia.
Qed.
