(** Proofs about Model/Qualtrim.v: the running-sum scan returns the least
    argmax of the prefix sums over the positions reached before the scan
    stops. *)
From Coq Require Import ZArith List Bool Lia ZifyBool.
From CV Require Import Model.Qualtrim.
Import ListNotations.
Open Scope Z_scope.

(** prefix sums: [pre ds j] = sum of the first j elements *)
Fixpoint pre (ds : list Z) (j : nat) : Z :=
  match j, ds with
  | S j', d :: ds' => d + pre ds' j'
  | _, _ => 0
  end.

(** the scan, started with running sum [s], is still running after j elements *)
Definition alive (s : Z) (ds : list Z) (j : nat) : Prop :=
  forall i, (1 <= i <= j)%nat -> 0 <= s + pre ds i.

(** [j] is the least position maximising the prefix sum among the positions reached *)
Definition least_argmax (ds : list Z) (j : nat) : Prop :=
  (j <= length ds)%nat /\ alive 0 ds j
  /\ (forall i, (i <= length ds)%nat -> alive 0 ds i -> pre ds i <= pre ds j)
  /\ (forall i, (i < j)%nat -> pre ds i < pre ds j).

Lemma pre_0 ds : pre ds 0 = 0.
Proof. destruct ds; reflexivity. Qed.

Lemma pre_cons d ds j : pre (d :: ds) (S j) = d + pre ds j.
Proof. reflexivity. Qed.

Lemma alive_cons s d ds i :
  alive s (d :: ds) (S i) <-> (0 <= s + d /\ alive (s + d) ds i).
Proof.
  unfold alive; split.
  - intros H; split.
    + specialize (H 1%nat ltac:(lia)). rewrite pre_cons, pre_0 in H. lia.
    + intros t Ht. specialize (H (S t) ltac:(lia)). rewrite pre_cons in H. lia.
  - intros [H0 H] t Ht. destruct t as [|t]; [lia|]. rewrite pre_cons.
    destruct t as [|t].
    + rewrite pre_0. lia.
    + specialize (H (S t) ltac:(lia)). lia.
Qed.

Lemma tscan_spec ds : forall k s mx best, s <= mx ->
  let r := tscan ds k s mx best in
  (r = best /\ forall i, (i <= length ds)%nat -> alive s ds i -> s + pre ds i <= mx)
  \/ (exists j, (1 <= j <= length ds)%nat /\ r = k + Z.of_nat j /\ alive s ds j
        /\ mx < s + pre ds j
        /\ (forall i, (i <= length ds)%nat -> alive s ds i -> pre ds i <= pre ds j)
        /\ (forall i, (i < j)%nat -> pre ds i < pre ds j)).
Proof.
  induction ds as [|d ds IH]; intros k s mx best Hs; cbn [tscan].
  - left. split; [reflexivity|]. intros i Hi _. cbn in Hi. assert (i = 0)%nat by lia. subst. rewrite pre_0. lia.
  - cbv zeta. destruct (s + d <? 0) eqn:Hneg.
    + left. split; [reflexivity|]. intros i Hi Ha. destruct i as [|i]; [rewrite pre_0; lia|].
      apply alive_cons in Ha. lia.
    + destruct (mx <? s + d) eqn:Hgt.
      * right. specialize (IH (k + 1) (s + d) (s + d) (k + 1)). cbv zeta in IH.
        destruct IH as [[Hr Hall]|[j (Hj & Hr & Ha & Hm & Hall & Hlt)]]; [lia| |].
        -- exists 1%nat. cbn [length]; rewrite ?pre_cons. rewrite pre_0. repeat split; try lia.
           ++ intros i Hi. assert (i = 1)%nat by lia. subst. rewrite ?pre_cons. rewrite pre_0. lia.
           ++ intros i Hi Hal. destruct i as [|i]; [rewrite pre_0; lia|]. rewrite ?pre_cons.
              apply alive_cons in Hal. destruct Hal as [_ Hal]. specialize (Hall i). cbn [length] in Hi.
              assert (i <= length ds)%nat by lia. specialize (Hall H Hal). lia.
           ++ intros i Hi. assert (i = 0)%nat by lia. subst. rewrite pre_0. lia.
        -- exists (S j). cbn [length]; rewrite ?pre_cons. repeat split; try lia.
           ++ apply alive_cons. split; [lia|exact Ha].
           ++ intros i Hi Hal. destruct i as [|i]; [rewrite pre_0; lia|]. rewrite ?pre_cons.
              apply alive_cons in Hal. destruct Hal as [_ Hal]. specialize (Hall i).
              assert (i <= length ds)%nat by lia. specialize (Hall H Hal). lia.
           ++ intros i Hi. destruct i as [|i]; [rewrite pre_0; lia|]. rewrite ?pre_cons.
              specialize (Hlt i). assert (i < j)%nat by lia. specialize (Hlt H). lia.
      * specialize (IH (k + 1) (s + d) mx best). cbv zeta in IH.
        destruct IH as [[Hr Hall]|[j (Hj & Hr & Ha & Hm & Hall & Hlt)]]; [lia| |].
        -- left. split; [exact Hr|]. intros i Hi Hal. destruct i as [|i]; [rewrite pre_0; lia|].
           rewrite ?pre_cons. apply alive_cons in Hal. destruct Hal as [_ Hal]. specialize (Hall i).
           cbn [length] in Hi. assert (i <= length ds)%nat by lia. specialize (Hall H Hal). lia.
        -- right. exists (S j). cbn [length]; rewrite ?pre_cons. repeat split; try lia.
           ++ apply alive_cons. split; [lia|exact Ha].
           ++ intros i Hi Hal. destruct i as [|i]; [rewrite pre_0; lia|]. rewrite ?pre_cons.
              apply alive_cons in Hal. destruct Hal as [_ Hal]. specialize (Hall i).
              assert (i <= length ds)%nat by lia. specialize (Hall H Hal). lia.
           ++ intros i Hi. destruct i as [|i]; [rewrite pre_0; lia|]. rewrite ?pre_cons.
              specialize (Hlt i). assert (i < j)%nat by lia. specialize (Hlt H). lia.
Qed.

(** the scan returns the least argmax *)
Theorem trimcount_spec ds :
  exists j, trimcount ds = Z.of_nat j /\ least_argmax ds j.
Proof.
  unfold trimcount. pose proof (tscan_spec ds 0 0 0 0 ltac:(lia)) as H. cbv zeta in H.
  destruct H as [[Hr Hall]|[j (Hj & Hr & Ha & Hm & Hall & Hlt)]].
  - exists 0%nat. split; [rewrite Hr; reflexivity|]. unfold least_argmax. repeat split.
    + lia.
    + intros i Hi. lia.
    + intros i Hi Hal. rewrite pre_0. specialize (Hall i Hi Hal). lia.
    + intros i Hi. lia.
  - exists j. split; [lia|]. unfold least_argmax. repeat split; try lia; assumption.
Qed.

(** uniqueness: the declarative description determines the result *)
Lemma least_argmax_unique ds j1 j2 : least_argmax ds j1 -> least_argmax ds j2 -> j1 = j2.
Proof.
  intros (L1 & A1 & M1 & S1) (L2 & A2 & M2 & S2).
  destruct (Nat.lt_trichotomy j1 j2) as [H|[H|H]]; [|assumption|].
  - specialize (S2 j1 H). specialize (M1 j2 L2 A2). lia.
  - specialize (S1 j2 H). specialize (M2 j1 L1 A1). lia.
Qed.

Lemma trimcount_range ds : 0 <= trimcount ds <= zlen ds.
Proof.
  destruct (trimcount_spec ds) as (j & Hj & (L & _)). unfold zlen. lia.
Qed.

(** all deltas <= 0  ->  nothing is trimmed *)
Lemma pre_nil j : pre [] j = 0.
Proof. destruct j; reflexivity. Qed.

Lemma pre_nonpos ds : Forall (fun d => d <= 0) ds -> forall j, pre ds j <= 0.
Proof.
  induction 1 as [|d ds Hd Hf IH]; intros j.
  - rewrite pre_nil. lia.
  - destruct j as [|j]; [rewrite pre_0; lia|]. rewrite pre_cons. specialize (IH j). lia.
Qed.

Lemma trimcount_all_good ds : Forall (fun d => d <= 0) ds -> trimcount ds = 0.
Proof.
  intros H. destruct (trimcount_spec ds) as (j & Hj & (L & A & M & Sm)).
  destruct j as [|j]; [lia|]. specialize (Sm 0%nat ltac:(lia)). rewrite pre_0 in Sm.
  pose proof (pre_nonpos ds H (S j)). lia.
Qed.

(** all deltas > 0  ->  everything is trimmed *)
Lemma pre_pos_mono ds : Forall (fun d => 0 < d) ds ->
  forall i j, (i < j <= length ds)%nat -> pre ds i < pre ds j.
Proof.
  induction 1 as [|d ds Hd Hf IH]; intros i j Hij; cbn [length] in Hij; [lia|].
  destruct j as [|j]; [lia|]. rewrite pre_cons. destruct i as [|i].
  - rewrite pre_0. destruct j as [|j]; [rewrite pre_0; lia|].
    specialize (IH 0%nat (S j) ltac:(lia)). rewrite pre_0 in IH. lia.
  - rewrite pre_cons. specialize (IH i j ltac:(lia)). lia.
Qed.

Lemma trimcount_all_bad ds : Forall (fun d => 0 < d) ds -> trimcount ds = zlen ds.
Proof.
  intros H. destruct (trimcount_spec ds) as (j & Hj & (L & A & M & Sm)).
  assert (Hal : alive 0 ds (length ds)).
  { intros i Hi. pose proof (pre_pos_mono ds H 0%nat i ltac:(lia)) as P. rewrite pre_0 in P. lia. }
  specialize (M (length ds) ltac:(lia) Hal).
  destruct (Nat.eq_dec j (length ds)) as [E|E]; [unfold zlen; lia|].
  pose proof (pre_pos_mono ds H j (length ds) ltac:(lia)). lia.
Qed.

(** ** suffix-sum reading (the form used in the property text) *)
Definition zsum (l : list Z) : Z := fold_right Z.add 0 l.

Lemma pre_firstn ds : forall j, pre ds j = zsum (firstn j ds).
Proof.
  induction ds as [|d ds IH]; intros j.
  - rewrite pre_nil. destruct j; reflexivity.
  - destruct j as [|j]; [reflexivity|]. rewrite pre_cons, IH. reflexivity.
Qed.

Lemma zsum_cons x l : zsum (x :: l) = x + zsum l.
Proof. reflexivity. Qed.

Lemma zsum_app a b : zsum (a ++ b) = zsum a + zsum b.
Proof.
  induction a as [|x a IH]; [reflexivity|]. rewrite <- app_comm_cons, !zsum_cons, IH. lia.
Qed.

Lemma zsum_rev a : zsum (rev a) = zsum a.
Proof.
  induction a as [|x a IH]; [reflexivity|]. cbn [rev]. rewrite zsum_app, IH, !zsum_cons. cbn. lia.
Qed.

(** sum of the last j elements = prefix sum of the reversed list *)
Lemma pre_rev_suffix ds j : (j <= length ds)%nat ->
  pre (rev ds) j = zsum (skipn (length ds - j) ds).
Proof.
  intros Hj. rewrite pre_firstn.
  rewrite <- (firstn_skipn (length ds - j) ds) at 1.
  rewrite rev_app_distr.
  rewrite firstn_app.
  rewrite rev_length, skipn_length.
  replace (j - (length ds - (length ds - j)))%nat with 0%nat by lia.
  cbn [firstn]. rewrite app_nil_r.
  rewrite firstn_all2 by (rewrite rev_length, skipn_length; lia).
  apply zsum_rev.
Qed.

(** ** quality_trim_index *)
Lemma qtrim5_range cutoff base quals : 0 <= qtrim5 cutoff base quals <= zlen quals.
Proof.
  unfold qtrim5. pose proof (trimcount_range (deltas cutoff base quals)) as H.
  unfold zlen, deltas in *. rewrite map_length in H. exact H.
Qed.

Lemma qtrim3_range cutoff base quals : 0 <= qtrim3 cutoff base quals <= zlen quals.
Proof.
  unfold qtrim3. pose proof (trimcount_range (rev (deltas cutoff base quals))) as H.
  unfold zlen, deltas in *. rewrite rev_length, map_length in H. lia.
Qed.

Lemma quality_trim_index_range quals cf cb base :
  let '(a, b) := quality_trim_index quals cf cb base in 0 <= a <= b /\ b <= zlen quals.
Proof.
  unfold quality_trim_index. pose proof (qtrim5_range cf base quals). pose proof (qtrim3_range cb base quals).
  destruct (qtrim3 cb base quals <=? qtrim5 cf base quals) eqn:E; unfold zlen in *; lia.
Qed.

Lemma slice_length {A} a b (l : list A) : 0 <= a <= b -> b <= zlen l -> zlen (slice a b l) = b - a.
Proof.
  intros Ha Hb. unfold slice, zlen in *. rewrite firstn_length, skipn_length. lia.
Qed.

Lemma deltas_nonpos cutoff base quals :
  Forall (fun q => cutoff <= q - base) quals -> Forall (fun d => d <= 0) (deltas cutoff base quals).
Proof. intros H. unfold deltas. induction H; cbn [map]; constructor; [lia|assumption]. Qed.

Lemma deltas_pos cutoff base quals :
  Forall (fun q => q - base < cutoff) quals -> Forall (fun d => 0 < d) (deltas cutoff base quals).
Proof. intros H. unfold deltas. induction H; cbn [map]; constructor; [lia|assumption]. Qed.

Lemma all_good quals cf cb base :
  Forall (fun q => cf <= q - base) quals -> Forall (fun q => cb <= q - base) quals ->
  quals <> [] ->
  quality_trim_index quals cf cb base = (0, zlen quals).
Proof.
  intros Hf Hb Hne. unfold quality_trim_index, qtrim5, qtrim3.
  rewrite (trimcount_all_good _ (deltas_nonpos _ _ _ Hf)).
  rewrite (trimcount_all_good _ (Forall_rev (deltas_nonpos _ _ _ Hb))).
  destruct quals as [|q quals]; [congruence|]. unfold zlen. cbn [length].
  destruct (Z.of_nat (S (length quals)) - 0 <=? 0) eqn:E; [lia|]. rewrite Z.sub_0_r. reflexivity.
Qed.

Lemma all_bad quals cf cb base :
  Forall (fun q => q - base < cf) quals -> Forall (fun q => q - base < cb) quals ->
  quality_trim_index quals cf cb base = (0, 0).
Proof.
  intros Hf Hb. unfold quality_trim_index, qtrim5, qtrim3.
  rewrite (trimcount_all_bad _ (deltas_pos _ _ _ Hf)).
  rewrite (trimcount_all_bad _ (Forall_rev (deltas_pos _ _ _ Hb))).
  unfold zlen, deltas. rewrite rev_length, !map_length.
  destruct (_ <=? _) eqn:E; [reflexivity|lia].
Qed.

Lemma deltas_shift cutoff base t quals :
  deltas cutoff (base + t) (map (fun q => q + t) quals) = deltas cutoff base quals.
Proof. unfold deltas. rewrite map_map. apply map_ext. intros; lia. Qed.

Lemma nextseq_is_qtrim3 bases quals cutoff base :
  length bases = length quals ->
  nextseq_trim_index bases quals cutoff base = qtrim3 cutoff base (nextseq_quals cutoff base bases quals).
Proof.
  intros Hl. unfold nextseq_trim_index, qtrim3, nextseq_deltas, nextseq_quals, deltas.
  rewrite map_map. unfold zlen. rewrite map_length, combine_length, Hl, Nat.min_id.
  f_equal. f_equal. f_equal. apply map_ext. intros [b q]. cbn [fst snd]. destruct (b =? 71); lia.
Qed.

Theorem quality_trim_index_spec quals cf cb base :
  exists j5 j3,
    least_argmax (deltas cf base quals) j5 /\
    least_argmax (rev (deltas cb base quals)) j3 /\
    quality_trim_index quals cf cb base =
      (if zlen quals - Z.of_nat j3 <=? Z.of_nat j5 then (0, 0)
       else (Z.of_nat j5, zlen quals - Z.of_nat j3)).
Proof.
  destruct (trimcount_spec (deltas cf base quals)) as (j5 & E5 & L5).
  destruct (trimcount_spec (rev (deltas cb base quals))) as (j3 & E3 & L3).
  exists j5, j3. split; [exact L5|split; [exact L3|]].
  unfold quality_trim_index, qtrim5, qtrim3. rewrite E5, E3. reflexivity.
Qed.

Theorem nextseq_trim_index_spec bases quals cutoff base :
  length bases = length quals ->
  exists j3,
    least_argmax (rev (deltas cutoff base (nextseq_quals cutoff base bases quals))) j3 /\
    nextseq_trim_index bases quals cutoff base = zlen quals - Z.of_nat j3.
Proof.
  intros Hl. rewrite nextseq_is_qtrim3 by exact Hl.
  destruct (trimcount_spec (rev (deltas cutoff base (nextseq_quals cutoff base bases quals)))) as (j3 & E3 & L3).
  exists j3. split; [exact L3|]. unfold qtrim3. rewrite E3.
  unfold nextseq_quals, zlen. rewrite map_length, combine_length, Hl, Nat.min_id. reflexivity.
Qed.

Lemma quality_trimmer_count cf cb base seq quals :
  length seq = length quals ->
  let '(s', q', t) := quality_trimmer cf cb base (seq, quals) in
  zlen s' = zlen q' /\ t = zlen seq - zlen s'
  /\ exists a b, 0 <= a <= b /\ b <= zlen seq /\ s' = slice a b seq /\ q' = slice a b quals.
Proof.
  intros Hl. unfold quality_trimmer.
  pose proof (quality_trim_index_range quals cf cb base) as R.
  destruct (quality_trim_index quals cf cb base) as [a b].
  assert (Hz : zlen seq = zlen quals) by (unfold zlen; lia).
  rewrite !slice_length by lia.
  repeat split; try lia. exists a, b. repeat split; try lia.
Qed.

Lemma nextseq_trim_index_range bases quals cutoff base :
  0 <= nextseq_trim_index bases quals cutoff base <= zlen quals.
Proof.
  unfold nextseq_trim_index.
  pose proof (trimcount_range (rev (nextseq_deltas cutoff base bases quals))) as H.
  unfold zlen, nextseq_deltas in *. rewrite rev_length, map_length, combine_length in H. lia.
Qed.

Lemma nextseq_trimmer_count cutoff base seq quals :
  length seq = length quals ->
  let '(s', q', t) := nextseq_trimmer cutoff base (seq, quals) in
  zlen s' = zlen q' /\ t = zlen seq - zlen s'
  /\ exists b, 0 <= b <= zlen seq /\ s' = slice 0 b seq /\ q' = slice 0 b quals.
Proof.
  intros Hl. unfold nextseq_trimmer.
  pose proof (nextseq_trim_index_range seq quals cutoff base) as R.
  assert (Hz : zlen seq = zlen quals) by (unfold zlen; lia).
  rewrite !slice_length by lia.
  repeat split; try lia. eexists. repeat split; try reflexivity; lia.
Qed.
