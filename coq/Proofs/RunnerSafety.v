(** Runner protocol, part 1: safety for every schedule and every fault pattern.
    At every reachable state the ordered writer has written exactly the blocks of the first [cur]
    chunks, in order; every chunk index in flight (in a pipe or waiting in the writer) is distinct,
    lies in [cur, next) and carries the right block. *)
From Coq Require Import ZArith List Bool Arith Lia Permutation.
From CV Require Import Model.Runner.
Import ListNotations.

Section Safety.
  Variable A O S : Type.
  Variable f : A -> O.
  Variable g : A -> S.
  Variable szero : S.
  Variable sadd : S -> S -> S.
  Variable chunks : list A.
  Variable W : nat.
  Variable bad : nat -> bool.
  Variable rfail : option nat.
  Variable ffail : bool.

  Notation state := (state O S).
  Notation step := (step A O S f g sadd chunks W bad rfail ffail).
  Notation init := (init O S szero W).
  Notation run := (run A O S f g sadd chunks W bad rfail ffail).
  Notation C := (length chunks).

  Definition chunk_ids (l : list (nat * msg_in)) : list nat :=
    flat_map (fun x => match snd x with MChunk i => [i] | _ => [] end) l.
  Definition result_ids (l : list (nat * msg_out O S)) : list nat :=
    flat_map (fun x => match snd x with MResult i _ => [i] | _ => [] end) l.
  Definition keys (p : list (nat * O)) : list nat := map fst p.

  Definition flight (s : state) : list nat := chunk_ids (inflight s) ++ result_ids (results s) ++ keys (pending s).

  Definition value_ok (i : nat) (o : O) : Prop := exists c, nth_error chunks i = Some c /\ o = f c.

  Record inv (s : state) : Prop := mkInv {
    i_range : cur s <= next s <= C;
    i_written : written s = map f (firstn (cur s) chunks);
    i_nodup : NoDup (flight s);
    i_bounds : forall j, In j (flight s) -> cur s <= j < next s;
    i_notcur : ~ In (cur s) (keys (pending s));
    i_results : forall w i o, In (w, MResult i o) (results s) -> value_ok i o;
    i_pending : forall i o, In (i, o) (pending s) -> value_ok i o
  }.

  (** ---- list lemmas *)
  Lemma head_drop {M} w : forall (l : list (nat * M)) m,
    head_for w l = Some m -> exists a b, l = a ++ (w, m) :: b /\ drop_for w l = a ++ b /\ (forall x, In x a -> fst x <> w).
  Proof.
    induction l as [|[v m'] t IH]; intros m H; cbn in H; [discriminate|].
    destruct (Nat.eqb v w) eqn:E.
    - apply Nat.eqb_eq in E. subst v. inversion H; subst. exists [], t. cbn. rewrite Nat.eqb_refl. repeat split; auto; intros x [].
    - destruct (IH m H) as (a & b & Hl & Hd & Ha). exists ((v, m') :: a), b. cbn. rewrite E. repeat split.
      + rewrite Hl. reflexivity.
      + rewrite Hd. reflexivity.
      + intros x [Hx|Hx]; [subst x; cbn; apply Nat.eqb_neq; exact E | apply Ha; exact Hx].
  Qed.

  Lemma chunk_ids_app a b : chunk_ids (a ++ b) = chunk_ids a ++ chunk_ids b.
  Proof. unfold chunk_ids. apply flat_map_app. Qed.
  Lemma result_ids_app a b : result_ids (a ++ b) = result_ids a ++ result_ids b.
  Proof. unfold result_ids. apply flat_map_app. Qed.

  Lemma chunk_ids_errs l : chunk_ids (map (fun v => (v, MErrIn)) l) = [].
  Proof. induction l; cbn; auto. Qed.

  Lemma lookup_in i (p : list (nat * O)) o : lookup i p = Some o -> In (i, o) p.
  Proof.
    induction p as [|[j o'] t IH]; cbn; [discriminate|]. destruct (Nat.eqb j i) eqn:E.
    - intros H; inversion H; subst. apply Nat.eqb_eq in E. subst. left; reflexivity.
    - intros H. right. apply IH. exact H.
  Qed.

  Lemma lookup_none i (p : list (nat * O)) : lookup i p = None <-> ~ In i (keys p).
  Proof.
    induction p as [|[j o'] t IH]; cbn; [tauto|]. destruct (Nat.eqb j i) eqn:E.
    - apply Nat.eqb_eq in E. subst. split; [discriminate | intros H; exfalso; apply H; left; reflexivity].
    - apply Nat.eqb_neq in E. rewrite IH. tauto.
  Qed.

  Lemma delete_keys i (p : list (nat * O)) : NoDup (keys p) -> In i (keys p) ->
    Permutation (keys p) (i :: keys (delete i p)) /\ (forall x, In x (delete i p) -> In x p) /\ ~ In i (keys (delete i p)).
  Proof.
    induction p as [|[j o] t IH]; cbn; intros Hnd Hin; [contradiction|].
    inversion Hnd as [|x l Hnotin Hnd']; subst.
    destruct (Nat.eqb j i) eqn:E.
    - apply Nat.eqb_eq in E. subst j.
      assert (Hd : delete i t = t).
      { clear - Hnotin. induction t as [|[a b] t IH]; cbn; [reflexivity|]. cbn in Hnotin.
        destruct (Nat.eqb a i) eqn:Ea; [apply Nat.eqb_eq in Ea; subst; exfalso; apply Hnotin; left; reflexivity|].
        f_equal. apply IH. intros H. apply Hnotin. right. exact H. }
      rewrite Hd. split; [apply Permutation_refl|]. split; [intros x Hx; right; exact Hx | exact Hnotin].
    - apply Nat.eqb_neq in E. destruct Hin as [Hin|Hin]; [congruence|].
      destruct (IH Hnd' Hin) as (Hp & Hsub & Hni). cbn [keys map fst]. split; [|split].
      + eapply Permutation_trans; [apply perm_skip; exact Hp | apply perm_swap].
      + intros x [Hx|Hx]; [left; exact Hx | right; apply Hsub; exact Hx].
      + intros [H|H]; [congruence | contradiction].
  Qed.

  Lemma firstn_succ_nth (l : list A) n c : nth_error l n = Some c -> firstn (Datatypes.S n) l = firstn n l ++ [c].
  Proof.
    revert l. induction n as [|n IH]; intros [|x l] H; cbn in *; try discriminate.
    - inversion H; reflexivity.
    - f_equal. apply IH. exact H.
  Qed.

  Lemma NoDup_app_r {T} (a b : list T) : NoDup (a ++ b) -> NoDup b.
  Proof. induction a as [|x a IH]; cbn; intros H; [exact H|]. inversion H; subst. apply IH. assumption. Qed.

  Lemma perm_move {T} (a b r k : list T) i :
    Permutation ((a ++ b) ++ (r ++ [i]) ++ k) ((a ++ i :: b) ++ r ++ k).
  Proof.
    apply Permutation_trans with (i :: a ++ b ++ r ++ k).
    - replace ((a ++ b) ++ (r ++ [i]) ++ k) with ((a ++ b ++ r) ++ i :: k)
        by (rewrite <- !app_assoc; cbn [app]; reflexivity).
      eapply Permutation_trans; [apply Permutation_sym, Permutation_middle|]. rewrite <- !app_assoc. apply Permutation_refl.
    - replace ((a ++ i :: b) ++ r ++ k) with (a ++ i :: b ++ r ++ k) by (rewrite <- app_assoc; reflexivity).
      apply Permutation_middle.
  Qed.

  Lemma perm_move2 {T} (c ra rb k : list T) i :
    Permutation ((c ++ ra ++ rb) ++ i :: k) (c ++ (ra ++ i :: rb) ++ k).
  Proof.
    apply Permutation_trans with (i :: c ++ ra ++ rb ++ k).
    - eapply Permutation_trans; [apply Permutation_sym, Permutation_middle|]. rewrite <- !app_assoc. apply Permutation_refl.
    - replace (c ++ (ra ++ i :: rb) ++ k) with ((c ++ ra) ++ i :: rb ++ k) by (rewrite <- !app_assoc; reflexivity).
      eapply Permutation_trans; [|apply Permutation_middle]. rewrite <- !app_assoc. apply Permutation_refl.
  Qed.

  (** ---- the ordered writer's flush loop *)
  Lemma flush_inv X nxt : forall fuel p c wr,
    length p <= fuel ->
    c <= nxt <= C -> wr = map f (firstn c chunks) ->
    NoDup (X ++ keys p) -> (forall j, In j (X ++ keys p) -> c <= j < nxt) ->
    (forall i o, In (i, o) p -> value_ok i o) ->
    let '(p', c', wr') := flush fuel p c wr in
    c <= c' /\ c' <= nxt /\ wr' = map f (firstn c' chunks) /\ NoDup (X ++ keys p') /\
    (forall j, In j (X ++ keys p') -> c' <= j < nxt) /\ ~ In c' (keys p') /\
    (forall i o, In (i, o) p' -> value_ok i o) /\ length (keys p') + c' = length (keys p) + c.
  Proof.
    induction fuel as [|fu IH]; intros p c wr Hlen Hc Hwr Hnd Hb Hv; cbn [flush].
    - destruct p; [|cbn in Hlen; lia]. cbn. repeat split; auto; try lia.
      all: try (intros ? ? []); try (intros []).
      all: try (match goal with H : In ?j _ |- _ => pose proof (Hb j H); lia end).
    - destruct (lookup c p) as [o|] eqn:El.
      + pose proof (lookup_in _ _ _ El) as Hin.
        assert (Hk : In c (keys p)) by (unfold keys; apply in_map_iff; exists (c, o); auto).
        assert (Hndp : NoDup (keys p)) by (apply NoDup_app_r in Hnd; exact Hnd).
        destruct (delete_keys c p Hndp Hk) as (Hperm & Hsub & Hni).
        destruct (Hv c o Hin) as (cc & Hnth & Ho).
        assert (Hcn : c < nxt) by (apply (Hb c); apply in_or_app; right; exact Hk).
        assert (Hperm2 : Permutation (X ++ keys p) (c :: X ++ keys (delete c p))).
        { eapply Permutation_trans; [apply Permutation_app_head; exact Hperm|]. apply Permutation_sym, Permutation_middle. }
        assert (Hnd2 : NoDup (c :: X ++ keys (delete c p))) by (eapply Permutation_NoDup; eauto).
        apply NoDup_cons_iff in Hnd2. destruct Hnd2 as [Hcnot Hnd3].
        specialize (IH (delete c p) (Datatypes.S c) (wr ++ [o])).
        assert (Hlen' : length (delete c p) <= fu).
        { pose proof (Permutation_length Hperm) as Hl. cbn [length] in Hl. unfold keys in Hl. rewrite !map_length in Hl. lia. }
        assert (Hwr' : wr ++ [o] = map f (firstn (Datatypes.S c) chunks)).
        { rewrite (firstn_succ_nth _ _ _ Hnth), map_app, Hwr, Ho. reflexivity. }
        assert (Hb' : forall j, In j (X ++ keys (delete c p)) -> Datatypes.S c <= j < nxt).
        { intros j Hj. assert (Hj' : In j (X ++ keys p)).
          { eapply Permutation_in; [apply Permutation_sym; exact Hperm2|]. right. exact Hj. }
          specialize (Hb j Hj'). assert (j <> c) by (intros ->; contradiction). lia. }
        specialize (IH Hlen' ltac:(lia) Hwr' Hnd3 Hb' (fun i o' H => Hv i o' (Hsub _ H))).
        destruct (flush fu (delete c p) (Datatypes.S c) (wr ++ [o])) as [[p' c'] wr'].
        destruct IH as (h1 & h2 & h3 & h4 & h5 & h6 & h7 & h8).
        pose proof (Permutation_length Hperm) as Hl. cbn [length] in Hl.
        repeat split; auto; try lia.
        all: try (match goal with H : In ?j (_ ++ keys _) |- _ => pose proof (h5 j H); lia end).
        all: lia.
      + apply lookup_none in El. repeat split; auto; try lia.
        all: match goal with H : In ?j (_ ++ keys _) |- _ => pose proof (Hb j H); lia end.
  Qed.

  (** ---- preservation *)
  Lemma inv_init : inv init.
  Proof.
    constructor; cbn; try lia; auto; try constructor; try (intros ? []); try (intros ? ? ? []); try (intros ? ? []).
  Qed.

  Ltac same_flight H s := (* goals where flight and the writer are untouched *)
    destruct H; constructor; unfold flight; cbn [next cur written pending results inflight] in *; auto.

  Lemma inv_step s l s' : inv s -> step s l = Some s' -> inv s'.
  Proof.
    intros Hinv Hstep. unfold Runner.step in Hstep.
    destruct (failed s); [discriminate|].
    destruct ffail.
    { destruct l; try discriminate. inversion Hstep; subst; clear Hstep. destruct Hinv; constructor; cbn in *; auto. }
    destruct l as [w|w|w| |w|w|w|w|w|w|]; [| | | | | | | | | |discriminate].
    - (* LReq *)
      destruct ((w <? W) && match wstate s w with Idle => true | _ => false end); [|discriminate].
      inversion Hstep; subst; clear Hstep. destruct Hinv; constructor; cbn in *; auto.
    - (* LSend *)
      match type of Hstep with (if ?c then _ else _) = _ => destruct c eqn:Ec; [|discriminate] end.
      inversion Hstep; subst; clear Hstep.
      repeat (apply andb_prop in Ec; destruct Ec as [Ec ?]).
      assert (Hlt : next s < C) by (apply Nat.ltb_lt; assumption).
      destruct Hinv as [Hr Hw Hnd Hb Hnc Hres Hpen].
      unfold flight in *; cbn [next cur written pending results inflight] in *.
      assert (Hperm : Permutation ((chunk_ids (inflight s ++ [(w, MChunk (next s))])) ++ result_ids (results s) ++ keys (pending s))
                                  (next s :: chunk_ids (inflight s) ++ result_ids (results s) ++ keys (pending s))).
      { rewrite chunk_ids_app. cbn [chunk_ids flat_map snd app]. rewrite <- app_assoc. cbn [app].
        apply Permutation_sym, Permutation_middle. }
      constructor; unfold flight; cbn [next cur written pending results inflight]; auto; try lia.
      + eapply Permutation_NoDup; [apply Permutation_sym; exact Hperm|]. constructor; [|exact Hnd].
        intros Hin. specialize (Hb _ Hin). lia.
      + intros j Hj. eapply Permutation_in in Hj; [|exact Hperm]. destruct Hj as [<-|Hj]; [lia|]. specialize (Hb _ Hj). lia.
    - (* LPill *)
      match type of Hstep with (if ?c then _ else _) = _ => destruct c eqn:Ec; [|discriminate] end.
      inversion Hstep; subst; clear Hstep.
      destruct Hinv as [Hr Hw Hnd Hb Hnc Hres Hpen].
      unfold flight in *; cbn [next cur written pending results inflight] in *.
      assert (E : chunk_ids (inflight s ++ [(w, MPill)]) = chunk_ids (inflight s)) by (rewrite chunk_ids_app; cbn; apply app_nil_r).
      constructor; unfold flight; cbn [next cur written pending results inflight]; auto; rewrite ?E; auto.
    - (* LRFail *)
      match type of Hstep with (if ?c then _ else _) = _ => destruct c eqn:Ec; [|discriminate] end.
      inversion Hstep; subst; clear Hstep.
      destruct Hinv as [Hr Hw Hnd Hb Hnc Hres Hpen].
      unfold flight in *; cbn [next cur written pending results inflight] in *.
      assert (E : chunk_ids (inflight s ++ map (fun v => (v, MErrIn)) (seq 0 W)) = chunk_ids (inflight s))
        by (rewrite chunk_ids_app, chunk_ids_errs; apply app_nil_r).
      constructor; unfold flight; cbn [next cur written pending results inflight]; auto; rewrite ?E; auto.
    - (* LTake *)
      destruct (wstate s w); try discriminate.
      destruct (head_for w (inflight s)) as [[i| |]|] eqn:Eh; try discriminate.
      destruct (head_drop w _ _ Eh) as (a & b & Hl & Hd & _).
      destruct Hinv as [Hr Hw Hnd Hb Hnc Hres Hpen].
      unfold flight in *. rewrite Hl in Hnd, Hb. rewrite chunk_ids_app in Hnd, Hb. cbn [chunk_ids flat_map snd app] in Hnd, Hb.
      fold (chunk_ids b) in Hnd, Hb.
      destruct (bad i).
      + inversion Hstep; subst; clear Hstep.
        constructor; unfold flight; cbn [next cur written pending results inflight]; auto.
        * rewrite Hd, chunk_ids_app, result_ids_app. cbn [result_ids flat_map snd app]. rewrite app_nil_r.
          rewrite <- app_assoc in Hnd. cbn [app] in Hnd. apply NoDup_remove_1 in Hnd. rewrite <- app_assoc. exact Hnd.
        * intros j Hj. apply Hb. rewrite Hd, chunk_ids_app, result_ids_app in Hj. cbn [result_ids flat_map snd app] in Hj.
          rewrite app_nil_r in Hj. rewrite <- app_assoc in Hj. rewrite <- app_assoc. cbn [app].
          apply in_app_or in Hj. destruct Hj as [Hj|Hj]; [apply in_or_app; left; exact Hj | apply in_or_app; right; right; exact Hj].
        * intros w' i' o' Hin. apply in_app_or in Hin. destruct Hin as [Hin|[Hin|[]]]; [eapply Hres; eauto | discriminate].
      + destruct (nth_error chunks i) as [c|] eqn:En; [|discriminate].
        inversion Hstep; subst; clear Hstep.
        assert (Hperm : Permutation (chunk_ids (a ++ b) ++ result_ids (results s ++ [(w, MResult i (f c))]) ++ keys (pending s))
                                    ((chunk_ids a ++ i :: chunk_ids b) ++ result_ids (results s) ++ keys (pending s))).
        { rewrite chunk_ids_app, result_ids_app. cbn [result_ids flat_map snd app]. apply perm_move. }
        constructor; unfold flight; cbn [next cur written pending results inflight]; auto.
        * rewrite Hd. eapply Permutation_NoDup; [apply Permutation_sym; exact Hperm | exact Hnd].
        * intros j Hj. apply Hb. rewrite Hd in Hj. eapply Permutation_in; [exact Hperm | exact Hj].
        * intros w' i' o' Hin. apply in_app_or in Hin. destruct Hin as [Hin|[Hin|[]]]; [eapply Hres; eauto|].
          inversion Hin; subst. exists c. auto.
    - (* LFin *)
      destruct (wstate s w); try discriminate.
      destruct (head_for w (inflight s)) as [[i| |]|] eqn:Eh; try discriminate.
      inversion Hstep; subst; clear Hstep.
      destruct (head_drop w _ _ Eh) as (a & b & Hl & Hd & _).
      destruct Hinv as [Hr Hw Hnd Hb Hnc Hres Hpen]. unfold flight in *.
      assert (E1 : chunk_ids (drop_for w (inflight s)) = chunk_ids (inflight s)).
      { rewrite Hd, Hl, !chunk_ids_app. reflexivity. }
      assert (E2 : result_ids (results s ++ [(w, MFin (wacc s w))]) = result_ids (results s)).
      { rewrite result_ids_app. cbn. apply app_nil_r. }
      constructor; unfold flight; cbn [next cur written pending results inflight]; auto; rewrite ?E1, ?E2; auto.
      intros w' i' o' Hin. apply in_app_or in Hin. destruct Hin as [Hin|[Hin|[]]]; [eapply Hres; eauto | discriminate].
    - (* LWErr *)
      destruct (wstate s w); try discriminate.
      destruct (head_for w (inflight s)) as [[i| |]|] eqn:Eh; try discriminate.
      inversion Hstep; subst; clear Hstep.
      destruct (head_drop w _ _ Eh) as (a & b & Hl & Hd & _).
      destruct Hinv as [Hr Hw Hnd Hb Hnc Hres Hpen]. unfold flight in *.
      assert (E1 : chunk_ids (drop_for w (inflight s)) = chunk_ids (inflight s)).
      { rewrite Hd, Hl, !chunk_ids_app. reflexivity. }
      assert (E2 : result_ids (results s ++ [(w, MErrOut)]) = result_ids (results s)).
      { rewrite result_ids_app. cbn. apply app_nil_r. }
      constructor; unfold flight; cbn [next cur written pending results inflight]; auto; rewrite ?E1, ?E2; auto.
      intros w' i' o' Hin. apply in_app_or in Hin. destruct Hin as [Hin|[Hin|[]]]; [eapply Hres; eauto | discriminate].
    - (* LRecv *)
      destruct (mem w (open s)); [|discriminate].
      destruct (head_for w (results s)) as [[i o|st|]|] eqn:Eh; try discriminate.
      destruct (head_drop w _ _ Eh) as (a & b & Hl & Hd & _).
      destruct Hinv as [Hr Hw Hnd Hb Hnc Hres Hpen]. unfold flight in *.
      set (X := chunk_ids (inflight s) ++ result_ids (a ++ b)).
      assert (Hperm : Permutation (X ++ keys ((i, o) :: pending s))
                                  (chunk_ids (inflight s) ++ result_ids (results s) ++ keys (pending s))).
      { subst X. rewrite Hl, !result_ids_app. cbn [result_ids flat_map snd app keys map fst]. fold (result_ids b).
        apply perm_move2. }
      pose proof (flush_inv X (next s) (Datatypes.S (length (pending s))) ((i, o) :: pending s) (cur s) (written s)) as Hf.
      assert (Hvi : value_ok i o) by (eapply Hres; rewrite Hl; apply in_or_app; right; left; reflexivity).
      specialize (Hf ltac:(cbn; lia) Hr Hw).
      specialize (Hf ltac:(eapply Permutation_NoDup; [apply Permutation_sym; exact Hperm | exact Hnd])).
      specialize (Hf ltac:(intros j Hj; apply Hb; eapply Permutation_in; [exact Hperm | exact Hj])).
      specialize (Hf ltac:(intros i' o' [H|H]; [inversion H; subst; exact Hvi | eapply Hpen; eauto])).
      destruct (flush (Datatypes.S (length (pending s))) ((i, o) :: pending s) (cur s) (written s)) as [[p' c'] wr'].
      inversion Hstep; subst; clear Hstep.
      destruct Hf as (h1 & h2 & h3 & h4 & h5 & h6 & h7 & h8).
      constructor; unfold flight; cbn [next cur written pending results inflight]; auto; try lia.
      + rewrite Hd. subst X. rewrite <- app_assoc in h4. exact h4.
      + intros j Hj. rewrite Hd in Hj. apply h5. subst X. rewrite <- app_assoc. exact Hj.
      + intros w' i' o' Hin. rewrite Hd in Hin. eapply Hres. rewrite Hl. apply in_app_or in Hin. apply in_or_app.
        destruct Hin as [Hin|Hin]; [left; exact Hin | right; right; exact Hin].
    - (* LRecvFin *)
      destruct (mem w (open s)); [|discriminate].
      destruct (head_for w (results s)) as [[i o|st|]|] eqn:Eh; try discriminate.
      inversion Hstep; subst; clear Hstep.
      destruct (head_drop w _ _ Eh) as (a & b & Hl & Hd & _).
      destruct Hinv as [Hr Hw Hnd Hb Hnc Hres Hpen]. unfold flight in *.
      assert (E : result_ids (drop_for w (results s)) = result_ids (results s)) by (rewrite Hd, Hl, !result_ids_app; reflexivity).
      constructor; unfold flight; cbn [next cur written pending results inflight]; auto; rewrite ?E; auto.
      intros w' i' o' Hin. rewrite Hd in Hin. eapply Hres. rewrite Hl. apply in_app_or in Hin. apply in_or_app.
      destruct Hin as [Hin|Hin]; [left; exact Hin | right; right; exact Hin].
    - (* LRecvErr *)
      destruct (mem w (open s)); [|discriminate].
      destruct (head_for w (results s)) as [[i o|st|]|] eqn:Eh; try discriminate.
      inversion Hstep; subst; clear Hstep.
      destruct (head_drop w _ _ Eh) as (a & b & Hl & Hd & _).
      destruct Hinv as [Hr Hw Hnd Hb Hnc Hres Hpen]. unfold flight in *.
      assert (E : result_ids (drop_for w (results s)) = result_ids (results s)) by (rewrite Hd, Hl, !result_ids_app; reflexivity).
      constructor; unfold flight; cbn [next cur written pending results inflight]; auto; rewrite ?E; auto.
      intros w' i' o' Hin. rewrite Hd in Hin. eapply Hres. rewrite Hl. apply in_app_or in Hin. apply in_or_app.
      destruct Hin as [Hin|Hin]; [left; exact Hin | right; right; exact Hin].
  Qed.

  Lemma inv_run : forall ls s s', inv s -> run s ls = Some s' -> inv s'.
  Proof.
    induction ls as [|l t IH]; intros s s' Hi Hr; cbn in Hr; [inversion Hr; subst; exact Hi|].
    destruct (step s l) as [s1|] eqn:E; [|discriminate]. eapply IH; [eapply inv_step; eauto | exact Hr].
  Qed.

  (** for every number of workers, every fault pattern and every schedule: what has been written is
      exactly the output of the first [cur] chunks, in input order -- a prefix of the one-core output *)
  Theorem written_is_prefix s : reachable A O S f g szero sadd chunks W bad rfail ffail s ->
    written s = map f (firstn (cur s) chunks) /\ cur s <= length chunks.
  Proof.
    intros [ls Hr]. pose proof (inv_run ls _ _ inv_init Hr) as [Hr' Hw _ _ _ _ _]. split; [exact Hw | lia].
  Qed.
End Safety.
