(** C18: the parser model -- documented class table, restriction notation, parameter precedence,
    rate conversion, linked required/optional table, and a round trip for the core notation. *)
From Coq Require Import ZArith QArith List Bool Lia.
From CV Require Import Model.Base Model.Align Model.Adapters Model.Parser.
Import ListNotations.
Open Scope Z_scope.

(** ---- the class table (documentation: -a/-g/-b x none/^ $/X) *)
Lemma class_table :
  class_of TBack RNone false = Back /\ class_of TBack RAnchored false = Suffix /\ class_of TBack RNonInternal false = NonInternalBack /\
  class_of TFront RNone false = Front /\ class_of TFront RAnchored false = Prefix /\ class_of TFront RNonInternal false = NonInternalFront /\
  class_of TFront RNone true = RightmostFront /\ class_of TAnywhere RNone false = Anywhere.
Proof. repeat split; reflexivity. Qed.

(** ---- parameter precedence: dict.update, later wins *)
Lemma get_del_same k p : get_key k (del_key k p) = None.
Proof. induction p as [|[k' v] t IH]; cbn; [reflexivity|]. destruct (pkey_eqb k k') eqn:E; [exact IH | cbn; rewrite E; exact IH]. Qed.

Lemma pkey_eqb_eq a b : pkey_eqb a b = true <-> a = b.
Proof. destruct a, b; cbn; split; intros H; try reflexivity; try discriminate. Qed.

Lemma get_del_other k k' p : pkey_eqb k k' = false -> get_key k (del_key k' p) = get_key k p.
Proof.
  intros Hne. induction p as [|[k0 v] t IH]; cbn; [reflexivity|].
  destruct (pkey_eqb k' k0) eqn:E0.
  - apply pkey_eqb_eq in E0. subst k0. rewrite Hne. exact IH.
  - cbn. destruct (pkey_eqb k k0); [reflexivity | exact IH].
Qed.

Lemma get_set k k' v p : get_key k (set_key k' v p) = if pkey_eqb k k' then Some v else get_key k p.
Proof. unfold set_key. cbn. destruct (pkey_eqb k k') eqn:E; [reflexivity | apply get_del_other; exact E]. Qed.

(** the value of k after base.update(over): the last binding of k in [over], else the one in [base] *)
Fixpoint last_binding (k : pkey) (over : params) (acc : option value) : option value :=
  match over with
  | [] => acc
  | (k', v) :: t => last_binding k t (if pkey_eqb k k' then Some v else acc)
  end.

Lemma update_get k : forall over base,
  get_key k (update base over) = last_binding k over (get_key k base).
Proof.
  unfold update. induction over as [|[k' v] t IH]; intros base; cbn [fold_left last_binding fst snd]; [reflexivity|].
  rewrite IH, get_set. reflexivity.
Qed.

Lemma last_binding_absent k over acc : has_key k over = false -> last_binding k over acc = acc.
Proof.
  revert acc. induction over as [|[k' v] t IH]; intros acc H; cbn in *; [reflexivity|].
  apply orb_false_elim in H. destruct H as [H1 H2]. rewrite H1. apply IH; exact H2.
Qed.

Lemma last_binding_present k over acc v : get_key k over = Some v -> NoDup (map fst over) -> last_binding k over acc = Some v.
Proof.
  revert acc. induction over as [|[k' v'] t IH]; intros acc H Hnd; cbn in *; [discriminate|].
  inversion Hnd as [|x l Hnotin Hnd']; subst.
  destruct (pkey_eqb k k') eqn:E.
  - inversion H; subst. apply pkey_eqb_eq in E. subst k'.
    apply last_binding_absent.
    clear - Hnotin. induction t as [|[a b] t IH]; cbn in *; [reflexivity|].
    destruct (pkey_eqb k a) eqn:Ea; [apply pkey_eqb_eq in Ea; subst; exfalso; apply Hnotin; left; reflexivity|].
    cbn. apply IH. intros H. apply Hnotin. right. exact H.
  - apply IH; assumption.
Qed.

(** adapter-level over file-level over global, per parameter (keys unique in each dict, as Python dicts are) *)
Theorem precedence k glob file adapter :
  NoDup (map fst file) -> NoDup (map fst adapter) ->
  get_key k (update (update glob file) adapter) =
    match get_key k adapter with
    | Some v => Some v
    | None => match get_key k file with Some v => Some v | None => get_key k glob end
    end.
Proof.
  intros Hf Ha. rewrite !update_get.
  destruct (get_key k adapter) as [v|] eqn:Ea.
  - apply last_binding_present; assumption.
  - assert (Hh : has_key k adapter = false).
    { clear - Ea. induction adapter as [|[a b] t IH]; cbn in *; [reflexivity|]. destruct (pkey_eqb k a); [discriminate | cbn; apply IH; exact Ea]. }
    rewrite (last_binding_absent _ _ _ Hh).
    destruct (get_key k file) as [v|] eqn:Ef.
    + apply last_binding_present; assumption.
    + assert (Hh2 : has_key k file = false).
      { clear - Ef. induction file as [|[a b] t IH]; cbn in *; [reflexivity|]. destruct (pkey_eqb k a); [discriminate | cbn; apply IH; exact Ef]. }
      apply last_binding_absent; exact Hh2.
Qed.

(** ---- the error parameter: a value of 1 or more is divided by the number of non-N bases *)
Theorem rate_conversion cls seq p rw aw force name d :
  make_single cls seq p rw aw force name = Ok d ->
  let sequence := normalize_seq seq in
  let me := match get_key KMaxErrors p with Some v => value_q v | None => 0%Q end in
  let nn := count_char 78 sequence in
  d_sequence d = sequence /\
  d_rate d = (if Qle_bool 1 me && negb (nn =? zlen sequence) then Qdiv me (inject_Z (zlen sequence - nn)) else me) /\
  d_min_overlap d = (match cls with
                     | Prefix | Suffix => zlen seq
                     | _ => Z.min (match get_key KMinOverlap p with Some (VInt n) => n | _ => 3 end) (zlen sequence)
                     end) /\
  d_indels d = (match get_key KIndels p with Some v => truthy v | None => true end) /\
  d_adapter_wildcards d = (aw && negb (all_in acgt_chars sequence)) /\
  d_read_wildcards d = rw /\ d_force_anywhere d = force /\ d_name d = name /\ d_class d = cls.
Proof.
  cbn zeta. unfold make_single.
  destruct (normalize_seq seq) as [|c0 s0] eqn:En; [discriminate|].
  destruct (aw && negb (all_in iupac_chars (c0 :: s0))); [discriminate|].
  match goal with |- (if ?c then _ else _) = _ -> _ => destruct c; [discriminate|] end.
  match goal with |- (if ?c then _ else _) = _ -> _ => destruct c; [discriminate|] end.
  intros H. inversion H; subst; clear H. cbn [d_sequence d_rate d_min_overlap d_indels d_adapter_wildcards d_read_wildcards d_force_anywhere d_name d_class].
  repeat split; try reflexivity. destruct cls; reflexivity.
Qed.

(** ---- linked adapters: which parts are required *)
Theorem linked_required spec1 spec2 name t base rw aw nm fd bd fr br f b :
  make_linked spec1 spec2 name t base rw aw = Ok (OLinked nm fd bd fr br) ->
  parse_spec spec1 TFront = Ok f -> parse_spec spec2 TBack = Ok b ->
  let isr r := match r with RNone => false | _ => true end in
  fr = (match get_key KRequired (update base (sp_params f)) with
        | Some v => truthy v
        | None => match t with TFront => true | _ => isr (sp_restriction f) end
        end) /\
  br = (match get_key KRequired (update base (sp_params b)) with
        | Some v => truthy v
        | None => match t with TFront => true | _ => isr (sp_restriction b) end
        end) /\
  t <> TAnywhere.
Proof.
  intros H Hf Hb. cbn zeta. unfold make_linked in H. destruct t; try discriminate; rewrite Hf, Hb in H;
    repeat match type of H with context [match ?x with Ok _ => _ | Err => _ end] => destruct x eqn:?; try discriminate end;
    inversion H; subst; repeat split; try reflexivity; discriminate.
Qed.

(** ---- notation: ^ $ X.  [core] is a sequence whose first and last characters are none of ^ $ X x *)
Definition plain_char (c : Z) : bool := negb ((c =? 94) || (c =? 36) || is_x c).
Definition plain_ends (core : str) : Prop := head_is 94 core = false /\ head_x core = false /\
  head_is 36 (rev core) = false /\ head_x (rev core) = false.

Lemma lstrip_x_plain core : head_x core = false -> lstrip_x core = core.
Proof. destruct core as [|c t]; [reflexivity|]. cbn. unfold is_x, upper_c. intros H.
  destruct ((c =? 88) || (c =? 120)) eqn:E; [|reflexivity].
  exfalso. apply orb_prop in E. destruct E as [E|E]; apply Z.eqb_eq in E; subst c; cbn in H; discriminate. Qed.

Theorem restrictions_core core : plain_ends core ->
  parse_restrictions core = Ok (RNone, RNone, core).
Proof.
  intros (h1 & h2 & h3 & h4). unfold parse_restrictions. rewrite h1, h2. cbn [andb]. rewrite h3, h4. reflexivity.
Qed.

(** ^CORE : anchored 5' *)
Theorem restrictions_anchored_front core : plain_ends core ->
  parse_restrictions (94 :: core) = Ok (RAnchored, RNone, core).
Proof.
  intros (h1 & h2 & h3 & h4). unfold parse_restrictions. cbn [head_is tl]. rewrite Z.eqb_refl. rewrite h2. cbn [andb].
  rewrite h3, h4. reflexivity.
Qed.

Fixpoint all_xs (s : str) : bool := match s with [] => true | c :: t => ((c =? 88) || (c =? 120)) && all_xs t end.

Lemma lstrip_x_app xs core : all_xs xs = true -> head_x core = false -> lstrip_x (xs ++ core) = core.
Proof.
  induction xs as [|c t IH]; intros Hx Hc; cbn [app]; [apply lstrip_x_plain; exact Hc|].
  cbn in Hx. apply andb_prop in Hx. destruct Hx as [H1 H2]. cbn [lstrip_x]. rewrite H1. apply IH; assumption.
Qed.

(** X..XCORE : non-internal 5' *)
Theorem restrictions_noninternal_front x xs core : all_xs (x :: xs) = true -> plain_ends core -> core <> [] ->
  parse_restrictions ((x :: xs) ++ core) = Ok (RNonInternal, RNone, core).
Proof.
  intros Hx (h1 & h2 & h3 & h4) Hne. unfold parse_restrictions.
  assert (Hx0 : (x =? 88) || (x =? 120) = true) by (cbn in Hx; apply andb_prop in Hx; tauto).
  assert (H94 : head_is 94 ((x :: xs) ++ core) = false).
  { cbn. apply orb_prop in Hx0. destruct Hx0 as [E|E]; apply Z.eqb_eq in E; subst x; reflexivity. }
  rewrite H94.
  assert (Hhx : head_x ((x :: xs) ++ core) = true).
  { cbn. unfold is_x, upper_c. apply orb_prop in Hx0. destruct Hx0 as [E|E]; apply Z.eqb_eq in E; subst x; reflexivity. }
  rewrite Hhx. cbn [andb]. rewrite (lstrip_x_app (x :: xs) core Hx h2). rewrite h3, h4. reflexivity.
Qed.

(** CORE$ : anchored 3' *)
Theorem restrictions_anchored_back core : plain_ends core -> core <> [] ->
  parse_restrictions (core ++ [36]) = Ok (RNone, RAnchored, core).
Proof.
  intros (h1 & h2 & h3 & h4) Hne. unfold parse_restrictions.
  assert (H1 : head_is 94 (core ++ [36]) = false) by (destruct core; [contradiction | exact h1]).
  assert (H2 : head_x (core ++ [36]) = false) by (destruct core; [contradiction | exact h2]).
  rewrite H1, H2. cbn [andb]. rewrite rev_app_distr. cbn [rev app head_is tl]. rewrite Z.eqb_refl.
  rewrite !rev_involutive, h4. cbn [andb]. reflexivity.
Qed.

(** COREX..X : non-internal 3' *)
Theorem restrictions_noninternal_back x xs core : all_xs (x :: xs) = true -> plain_ends core -> core <> [] ->
  parse_restrictions (core ++ rev (x :: xs)) = Ok (RNone, RNonInternal, core).
Proof.
  intros Hx (h1 & h2 & h3 & h4) Hne. unfold parse_restrictions.
  assert (H1 : head_is 94 (core ++ rev (x :: xs)) = false) by (destruct core; [contradiction | exact h1]).
  assert (H2 : head_x (core ++ rev (x :: xs)) = false) by (destruct core; [contradiction | exact h2]).
  rewrite H1, H2. cbn [andb]. rewrite rev_app_distr, rev_involutive.
  assert (Hx0 : (x =? 88) || (x =? 120) = true) by (cbn in Hx; apply andb_prop in Hx; tauto).
  assert (H36 : head_is 36 ((x :: xs) ++ rev core) = false).
  { cbn. apply orb_prop in Hx0. destruct Hx0 as [E|E]; apply Z.eqb_eq in E; subst x; reflexivity. }
  rewrite H36.
  assert (Hhx : head_x ((x :: xs) ++ rev core) = true).
  { cbn. unfold is_x, upper_c. apply orb_prop in Hx0. destruct Hx0 as [E|E]; apply Z.eqb_eq in E; subst x; reflexivity. }
  cbn [andb]. rewrite ?rev_app_distr, ?rev_involutive.
  rewrite Hhx. cbn [andb]. unfold rstrip_x. rewrite ?rev_app_distr, ?rev_involutive.
  rewrite (lstrip_x_app (x :: xs) (rev core) Hx h4). rewrite rev_involutive. reflexivity.
Qed.

(** two restrictions at once are rejected *)
Theorem restrictions_both_rejected core : plain_ends core -> core <> [] ->
  parse_restrictions (94 :: core ++ [36]) = Err.
Proof.
  intros (h1 & h2 & h3 & h4) Hne.
  assert (H2 : head_x (core ++ [36]) = false) by (destruct core; [contradiction | exact h2]).
  unfold parse_restrictions.
  cbn [head_is tl]. rewrite Z.eqb_refl, H2. cbn [andb]. rewrite rev_app_distr. cbn [rev app head_is tl]. rewrite Z.eqb_refl.
  rewrite !rev_involutive, h4. cbn [andb]. reflexivity.
Qed.
