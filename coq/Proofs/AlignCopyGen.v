(** Completeness for error-free occurrences of every admissible shape (C02, first clause): the
    adapter part ref[rs, rs + L) occurs verbatim at query[p, p + L), where the occurrence starts at
    the beginning of the reference or of the query (rs = 0 or p = 0) and ends at the end of the
    reference (rs + L = m: found in the column loop) or at the end of the query (p + L = n: found
    in the last-column scan).  Generalises AlignComplete.v (rs = 0, L = m): the cells on the
    diagonal of the copy are tracked exactly -- cost 0, score = number of matched characters,
    origin p - rs -- so neither the Ukkonen cut-off nor a cheaper competing start can hide them. *)
From Coq Require Import ZArith List Bool Lia.
From CV Require Import Generated.Tables Generated.Scores Model.Align Proofs.AlignProofs Proofs.AdapterProofs Proofs.AlignDist
  Proofs.AlignOpt Proofs.AlignComplete Proofs.AlignFound.
Import ListNotations.
Open Scope Z_scope.

Section CopyGen.
  Variable eqc : Z -> Z -> bool.
  Variable thr : Z -> Z.
  Variable cfg : acfg.
  Variable rawref : list Z.
  Variable s1 s2 : list Z.

  Notation m := (zlen s1).
  Notation n := (zlen s2).
  Notation k := (thr m).
  Hypothesis IND_pos : 1 <= indel_cost cfg.
  Hypothesis k_nonneg : 0 <= k.
  Hypothesis k_le_m : k <= m.
  Hypothesis thr_nonneg : forall L, 0 <= thr L.
  Hypothesis thr_bound : forall L, thr L <= k.
  Hypothesis stop_q : stop_in_query cfg = true.

  (** the copy *)
  Variables rs p L : Z.
  Hypothesis shape : (rs = 0 \/ (p = 0 /\ start_in_ref cfg = true)) /\ (p = 0 \/ (rs = 0 /\ start_in_query cfg = true)).
  Hypothesis range : 0 <= rs /\ 0 <= p /\ 1 <= L /\ rs + L <= m /\ p + L <= n.
  Hypothesis copy : forall t, 0 <= t < L -> eqc (znth 0 s1 (rs + t)) (znth 0 s2 (p + t)) = true.
  Hypothesis ov_le : min_overlap cfg <= L.

  Notation SD := (AlignDist.SD eqc thr cfg s1 s2).
  Notation SL := (AlignOpt.SL eqc thr cfg s1 s2).
  Notation nb := (no_best s1 n).
  Notation has_best := (AlignFound.has_best s1 s2).

  (** the tracked cells: row 0 up to column p (free start in the query) and the diagonal of the copy *)
  Definition row0_ok (j : Z) (st : lstate) : Prop := rs = 0 -> j <= p -> nth 0 (col st) dummy = mkE 0 0 j.
  Definition diag_ok (j : Z) (st : lstate) : Prop :=
    p <= j <= p + L -> nth (Z.to_nat (rs + (j - p))) (col st) dummy = mkE 0 (j - p) (p - rs).

  Lemma column_step_copy_gen c2 j st :
    SD (j - 1) st -> SL (j - 1) st -> row0_ok (j - 1) st -> diag_ok (j - 1) st -> 1 <= j <= n -> c2 = znth 0 s2 (j - 1) ->
    let st' := column_step eqc thr cfg rawref s1 n c2 j st in
    row0_ok j st' /\ diag_ok j st' /\ (j = p + L -> rs + L = m -> has_best st').
  Proof.
    intros (Hcol & Hlen & Hlast & HB & Hbest) (_ & HB' & _) Hr0 Hdg Hj Hc2. cbv zeta. unfold column_step.
    destruct (col st) as [|c0 olds] eqn:Ecol; [rewrite zlen_nil in Hlen; pose proof (zlen_nonneg s1); lia|].
    set (new0 := mkE _ _ _).
    assert (Holen : length s1 = length olds) by (rewrite zlen_cons in Hlen; unfold zlen in Hlen; lia).
    pose proof (fill_nth eqc cfg (Z.to_nat (last st)) c2 s1 olds c0 new0 (ovar st)) as Hfn.
    pose proof (fill_ok eqc cfg (Z.to_nat (last st)) c2 s1 olds c0 new0 (ovar st) 1 (j - 1)) as Hfo.
    pose proof (fill_skip eqc cfg (Z.to_nat (last st)) c2 s1 olds c0 new0 (ovar st)) as Hsk.
    inversion Hcol as [|i0 e0 l0 Hc0d Holdsd]; subst i0 e0 l0.
    assert (Hnew0ok : AlignProofs.ent_ok cfg 0 j new0).
    { destruct Hc0d as ((a & b & c & d) & _). subst new0. unfold AlignProofs.ent_ok in *; cbn [origin] in *.
      destruct (start_in_query cfg); repeat split; intros; try congruence; try lia. }
    destruct (fill eqc cfg (Z.to_nat (last st)) c2 s1 olds c0 new0 (ovar st)) as [rest ov1] eqn:Efill. cbn [fst] in *.
    assert (Hrlen : length rest = length olds).
    { apply Hfo. - apply (colD_col_ok eqc thr cfg s1 s2). exact Holdsd.
      - replace (1 - 1) with 0 by lia. destruct Hc0d; assumption.
      - replace (1 - 1) with 0 by lia. replace (j - 1 + 1) with j by lia. exact Hnew0ok. }
    (* row 0 of the new column *)
    assert (Hr0' : rs = 0 -> j <= p -> new0 = mkE 0 0 j).
    { intros Hrs Hjp. unfold row0_ok in Hr0. rewrite Ecol in Hr0. cbn [nth] in Hr0. specialize (Hr0 Hrs ltac:(lia)).
      destruct shape as [_ [Hp0|[_ Hsiq]]]; [lia|]. subst new0. rewrite Hr0, Hsiq. cbn [cost score origin]. f_equal; lia. }
    (* the diagonal cell of the new column *)
    assert (Hdiag' : p <= j <= p + L -> nth (Z.to_nat (rs + (j - p))) (new0 :: rest) dummy = mkE 0 (j - p) (p - rs)).
    { intros Hpj. destruct (Z.eq_dec j p) as [Hjp|Hne].
      - (* only when p >= 1, hence rs = 0: the cell is row 0 *)
        assert (Hrs : rs = 0) by (destruct shape as [_ [Hp0|[Hrs _]]]; [lia | exact Hrs]).
        rewrite Hjp, Hrs, Z.sub_diag. cbn [Z.add Z.to_nat nth]. rewrite (Hr0' Hrs ltac:(lia)). f_equal; lia.
      - set (t := rs + (j - p)) in *. assert (Ht : 1 <= t <= m) by lia.
        replace (Z.to_nat t) with (S (Z.to_nat (t - 1))) by lia. cbn [nth].
        assert (Hold : nth (Z.to_nat (t - 1)) (c0 :: olds) dummy = mkE 0 (j - 1 - p) (p - rs)).
        { specialize (Hdg ltac:(lia)). rewrite Ecol in Hdg. replace (rs + (j - 1 - p)) with (t - 1) in Hdg by lia. exact Hdg. }
        assert (Hbud : (Z.to_nat (t - 1) < Z.to_nat (last st))%nat).
        { destruct HB' as [Hlm|HBs]; [lia|].
          destruct (Z_lt_dec (t - 1) (last st)) as [Hlt|Hge]; [lia|]. exfalso.
          pose proof (Forall_skipn_get (fun e => k < cost e) dummy (c0 :: olds) (Z.to_nat (last st)) (Z.to_nat (t - 1)) HBs
                        ltac:(cbn [length]; unfold zlen in *; lia)) as Hk.
          cbv beta in Hk. rewrite Hold in Hk. cbn [cost] in Hk. lia. }
        rewrite (Hfn (Z.to_nat (t - 1)) Hbud ltac:(unfold zlen in *; lia) ltac:(unfold zlen in *; lia)).
        assert (Hr : nth (Z.to_nat (t - 1)) s1 0 = znth 0 s1 (t - 1)) by (unfold znth; destruct (t - 1 <? 0) eqn:E; [lia | reflexivity]).
        rewrite Hr. assert (Heq : eqc (znth 0 s1 (t - 1)) c2 = true).
        { rewrite Hc2. replace (t - 1) with (rs + (j - 1 - p)) by lia. replace (j - 1) with (p + (j - 1 - p)) at 2 by lia. apply copy. lia. }
        unfold cell. rewrite Heq.
        assert (Hd : match Z.to_nat (t - 1) with O => c0 | S t' => nth t' olds dummy end = mkE 0 (j - 1 - p) (p - rs)).
        { rewrite <- Hold. destruct (Z.to_nat (t - 1)); reflexivity. }
        rewrite Hd. cbn [cost score origin]. unfold MATCH_SCORE. f_equal. lia. }
    assert (Hlen' : zlen (new0 :: rest) = m + 1) by (rewrite zlen_cons in *; unfold zlen in *; lia).
    pose proof (shrink_last_spec thr s1 (new0 :: rest) (last st) ltac:(lia) ltac:(lia)) as Hsh. cbv zeta in Hsh.
    set (l1 := shrink_last thr s1 (new0 :: rest) (last st)) in *. destruct Hsh as (Hl1 & Hl1c & Hl1g).
    assert (Hr0'' : rs = 0 -> j <= p -> nth 0 (new0 :: rest) dummy = mkE 0 0 j) by (intros; cbn [nth]; auto).
    destruct (l1 <? m) eqn:El1m.
    - apply Z.ltb_lt in El1m. unfold row0_ok, diag_ok, AlignFound.has_best; cbn [col best]. split; [exact Hr0''|]. split; [exact Hdiag'|].
      intros Hjm Hend. exfalso. specialize (Hdiag' ltac:(lia)). replace (rs + (j - p)) with m in Hdiag' by lia.
      assert (Hm_last : m <= last st).
      { destruct HB' as [Hlm|HBs]; [lia|].
        destruct (Z_le_dec m (last st)) as [Hle|Hgt]; [exact Hle|]. exfalso.
        assert (Hst : nth (Z.to_nat m) (new0 :: rest) dummy = nth (Z.to_nat m) (c0 :: olds) dummy).
        { replace (Z.to_nat m) with (S (Z.to_nat (m - 1))) by lia. cbn [nth].
          replace (Z.to_nat (m - 1)) with (Z.to_nat (last st) + (Z.to_nat (m - 1) - Z.to_nat (last st)))%nat by lia.
          rewrite <- !nth_skipn. rewrite Hsk. reflexivity. }
        pose proof (Forall_skipn_get (fun e => k < cost e) dummy (c0 :: olds) (Z.to_nat (last st)) (Z.to_nat m) HBs
                      ltac:(cbn [length]; unfold zlen in *; lia)) as Hk.
        cbv beta in Hk. rewrite <- Hst, Hdiag' in Hk. cbn [cost] in Hk. lia. }
      specialize (Hl1g m ltac:(lia)). rewrite Hdiag' in Hl1g. cbn [cost] in Hl1g. lia.
    - apply Z.ltb_ge in El1m. rewrite stop_q.
      match goal with |- context [if ?c then _ else _] => destruct c eqn:Ecnd end.
      + unfold row0_ok, diag_ok, AlignFound.has_best; cbn [col best b_cost]. split; [exact Hr0''|]. split; [exact Hdiag'|].
        intros _ _. apply andb_prop in Ecnd. destruct Ecnd as [Eok _]. apply andb_prop in Eok. destruct Eok as [_ Ethr]. apply Z.leb_le in Ethr.
        match type of Ethr with _ <= thr ?L0 => pose proof (thr_bound L0) end. unfold no_best. pose proof (zlen_nonneg s2). lia.
      + unfold row0_ok, diag_ok, AlignFound.has_best; cbn [col best]. split; [exact Hr0''|]. split; [exact Hdiag'|].
        intros Hjm Hend. specialize (Hdiag' ltac:(lia)). replace (rs + (j - p)) with m in Hdiag' by lia.
        assert (He : znth dummy (new0 :: rest) m = mkE 0 (j - p) (p - rs)).
        { unfold znth. destruct (m <? 0) eqn:E; [lia | exact Hdiag']. }
        rewrite He in Ecnd. cbn [cost score origin] in Ecnd.
        assert (Hlen_eq : m + Z.min (p - rs) 0 = L) by (destruct shape as [[Hrs|[Hp0 _]] _]; lia).
        rewrite Hlen_eq in Ecnd.
        assert (Eok : (min_overlap cfg <=? L) && (0 <=? thr (eff_len cfg rawref s1 L m)) = true).
        { apply andb_true_intro. split; [apply Z.leb_le; lia | apply Z.leb_le; apply thr_nonneg]. }
        rewrite Eok in Ecnd. cbn [andb] in Ecnd. unfold replaces in Ecnd.
        apply orb_false_iff in Ecnd. destruct Ecnd as [Ecnd _]. apply orb_false_iff in Ecnd. destruct Ecnd as [Ecnd _].
        apply Z.eqb_neq in Ecnd. exact Ecnd.
  Qed.

  Lemma columns_track : forall qs j st,
    SD (j - 1) st -> SL (j - 1) st -> row0_ok (j - 1) st -> diag_ok (j - 1) st ->
    1 <= j -> j - 1 + zlen qs <= n ->
    qs = firstn (length qs) (skipn (Z.to_nat (j - 1)) s2) ->
    let st' := columns eqc thr cfg rawref s1 n qs j st in
    has_best st' \/ (SD (j - 1 + zlen qs) st' /\ row0_ok (j - 1 + zlen qs) st' /\ diag_ok (j - 1 + zlen qs) st').
  Proof.
    induction qs as [|c2 t IH]; intros j st Hsd Hsl Hr0 Hdg Hj Hn Hqs; cbv zeta; cbn [columns].
    - right. assert (Hz : zlen (@nil Z) = 0) by reflexivity. rewrite Hz, Z.add_0_r. auto.
    - rewrite zlen_cons in *. pose proof (zlen_nonneg t) as Ht.
      cbn [length firstn] in Hqs.
      destruct (skipn (Z.to_nat (j - 1)) s2) as [|x u] eqn:Esk; [discriminate|].
      injection Hqs as Hc2 Htl. destruct (skipn_cons_nth 0 _ _ _ _ Esk) as (Hx & Hu & Hltn).
      assert (Hc2' : c2 = znth 0 s2 (j - 1)).
      { unfold znth. destruct (j - 1 <? 0) eqn:E; [lia|]. congruence. }
      assert (Hjn : 1 <= j <= n) by (unfold zlen in *; lia).
      destruct (column_step_d eqc thr cfg rawref s1 s2 IND_pos c2 j st Hsd Hjn Hc2') as [Hs Hstop]. cbv zeta in Hs, Hstop.
      pose proof (column_step_L eqc thr cfg rawref s1 s2 IND_pos k_nonneg c2 j st Hsd Hsl Hjn Hc2') as HsL.
      destruct (column_step_copy_gen c2 j st Hsd Hsl Hr0 Hdg Hjn Hc2') as (Hr0' & Hdg' & _). cbv zeta in *.
      destruct (stopped (column_step eqc thr cfg rawref s1 n c2 j st)) eqn:Est.
      + left. destruct (Hstop eq_refl) as [H0 _]. unfold AlignFound.has_best. rewrite H0. unfold no_best. pose proof (zlen_nonneg s2). pose proof (zlen_nonneg s1). lia.
      + specialize (IH (j + 1) (column_step eqc thr cfg rawref s1 n c2 j st)). replace (j + 1 - 1) with j in IH by lia.
        assert (Htl' : t = firstn (length t) (skipn (Z.to_nat j) s2)).
        { rewrite Htl at 1. rewrite Hu. do 2 f_equal. lia. }
        specialize (IH Hs HsL Hr0' Hdg' ltac:(lia) ltac:(lia) Htl'). cbv zeta in IH.
        replace (j - 1 + (zlen t + 1)) with (j + zlen t) by lia. exact IH.
  Qed.

  Lemma columns_copy_gen : forall qs j st,
    SD (j - 1) st -> SL (j - 1) st -> row0_ok (j - 1) st -> diag_ok (j - 1) st ->
    1 <= j -> j - 1 <= p + L -> j - 1 + zlen qs <= n -> p + L <= j - 1 + zlen qs -> rs + L = m ->
    (j - 1 = p + L -> has_best st) ->
    qs = firstn (length qs) (skipn (Z.to_nat (j - 1)) s2) ->
    has_best (columns eqc thr cfg rawref s1 n qs j st).
  Proof.
    induction qs as [|c2 t IH]; intros j st Hsd Hsl Hr0 Hdg Hj Hjp Hn Hend Hre Hb Hqs; cbn [columns].
    - apply Hb. assert (Hz : zlen (@nil Z) = 0) by reflexivity. rewrite Hz in Hend. lia.
    - destruct (Z.eq_dec (b_cost (best st)) nb) as [Hnb|Hhas].
      2:{ apply (columns_keeps eqc thr cfg rawref s1 s2 thr_bound stop_q k_le_m (c2 :: t) j st Hhas). }
      assert (Hlt : j - 1 < p + L) by (destruct (Z.eq_dec (j - 1) (p + L)) as [E|E]; [specialize (Hb E); contradiction | lia]).
      rewrite zlen_cons in *. pose proof (zlen_nonneg t) as Ht.
      cbn [length firstn] in Hqs.
      destruct (skipn (Z.to_nat (j - 1)) s2) as [|x u] eqn:Esk; [discriminate|].
      injection Hqs as Hc2 Htl. destruct (skipn_cons_nth 0 _ _ _ _ Esk) as (Hx & Hu & Hltn).
      assert (Hc2' : c2 = znth 0 s2 (j - 1)).
      { unfold znth. destruct (j - 1 <? 0) eqn:E; [lia|]. congruence. }
      assert (Hjn : 1 <= j <= n) by (unfold zlen in *; lia).
      destruct (column_step_d eqc thr cfg rawref s1 s2 IND_pos c2 j st Hsd Hjn Hc2') as [Hs Hstop]. cbv zeta in Hs, Hstop.
      pose proof (column_step_L eqc thr cfg rawref s1 s2 IND_pos k_nonneg c2 j st Hsd Hsl Hjn Hc2') as HsL.
      destruct (column_step_copy_gen c2 j st Hsd Hsl Hr0 Hdg Hjn Hc2') as (Hr0' & Hdg' & Hb'). cbv zeta in *.
      destruct (stopped (column_step eqc thr cfg rawref s1 n c2 j st)) eqn:Est.
      + destruct (Hstop eq_refl) as [H0 _]. unfold AlignFound.has_best. rewrite H0. unfold no_best. pose proof (zlen_nonneg s2). pose proof (zlen_nonneg s1). lia.
      + specialize (IH (j + 1) (column_step eqc thr cfg rawref s1 n c2 j st)). replace (j + 1 - 1) with j in IH by lia.
        assert (Htl' : t = firstn (length t) (skipn (Z.to_nat j) s2)).
        { rewrite Htl at 1. rewrite Hu. do 2 f_equal. lia. }
        apply IH; auto; try lia.
  Qed.

  (** a cell of the last column that passes the acceptance test leaves a candidate recorded *)
  Lemma last_column_hit_gen ov i e : forall cells b, In (i, e) cells ->
    min_overlap cfg <= i + Z.min (origin e) 0 -> cost e <= thr (eff_len cfg rawref s1 (i + Z.min (origin e) 0) i) ->
    b_cost (last_column thr cfg rawref s1 n ov cells b) <> nb.
  Proof.
    induction cells as [|[i' e'] t IH]; intros b Hin Hov Hc; [contradiction|]. cbn [last_column].
    destruct Hin as [Heq|Hin].
    - injection Heq as -> ->.
      assert (Eok : (min_overlap cfg <=? i + Z.min (origin e) 0) && (cost e <=? thr (eff_len cfg rawref s1 (i + Z.min (origin e) 0) i)) = true).
      { apply andb_true_intro. split; apply Z.leb_le; assumption. }
      rewrite Eok. cbn [andb].
      match goal with |- context [if ?c then _ else _] => destruct c eqn:Er end.
      + apply (last_column_keeps thr cfg rawref s1 s2 thr_bound k_le_m). cbn [b_cost].
        pose proof (thr_bound (eff_len cfg rawref s1 (i + Z.min (origin e) 0) i)). unfold no_best. pose proof (zlen_nonneg s2). lia.
      + apply (last_column_keeps thr cfg rawref s1 s2 thr_bound k_le_m).
        unfold replaces in Er. apply orb_false_iff in Er. destruct Er as [Er _]. apply orb_false_iff in Er. destruct Er as [Er _].
        apply Z.eqb_neq in Er. exact Er.
    - match goal with |- context [if ?c then _ else _] => destruct c end; apply IH; assumption.
  Qed.

  (** an error-free occurrence of an admissible shape is never missed *)
  Theorem copy_gen_is_found :
    let max_n := if start_in_query cfg then n else Z.min n (m + k) in
    (rs + L = m /\ p + L <= max_n) \/ (p + L = n /\ max_n = n /\ (stop_in_ref cfg = true \/ rs + L = m)) ->
    locate_core eqc thr cfg rawref s1 s2 <> None.
  Proof.
    intros max_n Hcase. unfold locate_core. rewrite stop_q. fold max_n.
    set (qsl := firstn _ _).
    set (st0 := mkS _ _ _ _ _ _).
    assert (Hn : 0 <= n) by apply zlen_nonneg.
    assert (Hm : 0 <= m) by apply zlen_nonneg.
    assert (Hmaxn : max_n <= n) by (subst max_n; destruct (start_in_query cfg); lia).
    assert (Hmax0 : 0 <= max_n) by (subst max_n; destruct (start_in_query cfg); lia).
    assert (Hnz : forall cnt lo t d, (t < cnt)%nat -> nth t (zrange lo cnt) d = lo + Z.of_nat t).
    { induction cnt as [|cn IH]; intros lo t d Ht; [lia|]. destruct t as [|t']; cbn [zrange nth]; [lia|]. rewrite IH by lia. lia. }
    destruct (locate_core_init eqc thr cfg s1 s2 IND_pos k_nonneg) as (Hsd0 & Hsl0).
    fold st0 in Hsd0, Hsl0.
    assert (Hqsl : qsl = firstn (length qsl) (skipn (Z.to_nat (0 + 1 - 1)) s2)).
    { subst qsl. replace (0 + 1 - 1) with 0 by lia. rewrite firstn_length.
      destruct (Nat.le_ge_cases (Z.to_nat (max_n - 0)) (length (skipn (Z.to_nat 0) s2))) as [Hle|Hge].
      - rewrite Nat.min_l by exact Hle. reflexivity.
      - rewrite Nat.min_r by exact Hge. rewrite !firstn_all2; auto. }
    assert (Hqz : zlen qsl = max_n).
    { subst qsl. unfold zlen. rewrite firstn_length, skipn_length. unfold zlen in *. lia. }
    assert (Hcell0 : forall i, 0 <= i <= m -> nth (Z.to_nat i) (col st0) dummy = init_entry cfg 0 i).
    { intros i Hi. subst st0. cbn [col]. unfold init_column.
      rewrite (nth_indep _ dummy (init_entry cfg 0 0)) by (rewrite map_length, zrange_length; unfold zlen in *; lia).
      rewrite map_nth, Hnz by (unfold zlen in *; lia). f_equal. lia. }
    assert (Hr0 : row0_ok (0 + 1 - 1) st0).
    { unfold row0_ok. intros _ _. replace (0 + 1 - 1) with 0 by lia. pose proof (Hcell0 0 ltac:(lia)) as H0. cbn [Z.to_nat] in H0. rewrite H0. unfold init_entry.
      destruct (start_in_ref cfg), (start_in_query cfg); f_equal; lia. }
    assert (Hdg0 : diag_ok (0 + 1 - 1) st0).
    { unfold diag_ok. intros Hp0. assert (Hp : p = 0) by lia. replace (rs + (0 + 1 - 1 - p)) with rs by lia.
      rewrite (Hcell0 rs ltac:(lia)). unfold init_entry.
      destruct shape as [[Hrs|[_ Hsr]] _].
      - rewrite Hrs, Hp. destruct (start_in_ref cfg), (start_in_query cfg); f_equal; lia.
      - rewrite Hsr, Hp. destruct (start_in_query cfg); f_equal; lia. }
    set (st := columns eqc thr cfg rawref s1 n qsl (0 + 1) st0).
    assert (Hfin : b_cost (if max_n =? n
                           then last_column thr cfg rawref s1 n (ovar st)
                                  (filter (fun ie : Z * entry => (if stop_in_ref cfg then 0 else m) <=? fst ie)
                                     (rev (firstn (Z.to_nat (last_filled st + 1)) (indexed (col st))))) (best st)
                           else best st) <> nb).
    { destruct Hcase as [[Hre Hqe]|(Hqe & Hmx & Hstop)].
      - assert (Hhas : has_best st).
        { subst st. apply columns_copy_gen; auto; try lia. all: try (rewrite Hqz; lia). }
        destruct (max_n =? n); [apply (last_column_keeps thr cfg rawref s1 s2 thr_bound k_le_m); exact Hhas | exact Hhas].
      - rewrite Hmx, Z.eqb_refl.
        assert (Hqlen : 0 + 1 - 1 + zlen qsl <= n) by lia.
        destruct (columns_track qsl (0 + 1) st0 Hsd0 Hsl0 Hr0 Hdg0 ltac:(lia) Hqlen Hqsl) as [Hhas|((HcolD & Hlen & _) & _ & Hdg)];
          [apply (last_column_keeps thr cfg rawref s1 s2 thr_bound k_le_m); exact Hhas|].
        fold st in HcolD, Hlen, Hdg.
        assert (Hjf : 0 + 1 - 1 + zlen qsl = n) by lia. rewrite Hjf in HcolD, Hdg.
        pose proof (columns_FL eqc thr cfg rawref s1 s2 IND_pos qsl (0 + 1) st0 Hsd0 ltac:(lia) Hqlen Hqsl
                      ltac:(left; intros E; rewrite E in Hqz; change (zlen (@nil Z)) with 0 in Hqz; lia)) as (Hlf & Hstale).
        fold st in Hlf, Hstale.
        set (re := rs + (n - p)).
        specialize (Hdg ltac:(lia)). fold re in Hdg.
        assert (Hrelf : re <= last_filled st).
        { destruct (Z_le_dec re (last_filled st)) as [H|H]; [exact H|]. exfalso.
          pose proof (Forall_skipn_get (fun e => k < cost e) dummy (col st) (Z.to_nat (last_filled st + 1)) (Z.to_nat re) Hstale
                        ltac:(unfold zlen in *; subst re; lia)) as Hk. cbv beta in Hk. rewrite Hdg in Hk. cbn [cost] in Hk. lia. }
        apply (last_column_hit_gen (ovar st) re (mkE 0 (n - p) (p - rs))).
        + apply filter_In. split.
          * apply -> in_rev. unfold indexed.
            pose proof (In_indexed_firstn (col st) 0 (Z.to_nat (last_filled st + 1)) (Z.to_nat re) ltac:(subst re; lia) ltac:(unfold zlen in *; subst re; lia)) as Hin.
            replace (0 + Z.of_nat (Z.to_nat re)) with re in Hin by (subst re; lia). rewrite Hdg in Hin. exact Hin.
          * cbn [fst]. apply Z.leb_le. destruct Hstop as [->|Hrm]; [subst re; lia|]. destruct (stop_in_ref cfg); subst re; lia.
        + cbn [origin]. destruct shape as [[Hrs|[Hp0 _]] _]; subst re; lia.
        + cbn [cost]. apply thr_nonneg. }
    match goal with |- context [if ?c then None else _] => destruct c eqn:E end; [apply Z.eqb_eq in E; contradiction|].
    match goal with |- context [if ?c then _ else _] => destruct c end; discriminate.
  Qed.
End CopyGen.

(** ---- Aligner.locate with its translation tables *)
Theorem locate_copy_found thr cfg wq ref query rs p L :
  1 <= indel_cost cfg -> stop_in_query cfg = true ->
  (forall L0, 0 <= thr L0) -> (forall L0, thr L0 <= thr (zlen ref)) -> thr (zlen ref) <= zlen ref ->
  (rs = 0 \/ (p = 0 /\ start_in_ref cfg = true)) -> (p = 0 \/ (rs = 0 /\ start_in_query cfg = true)) ->
  (rs + L = zlen ref \/ (stop_in_ref cfg = true /\ p + L = zlen query)) ->
  0 <= rs -> 0 <= p -> 1 <= L -> rs + L <= zlen ref -> p + L <= zlen query -> min_overlap cfg <= L ->
  (forall t, 0 <= t < L -> loc_eqc cfg wq (znth 0 (loc_s1 cfg wq ref) (rs + t)) (znth 0 (loc_s2 cfg wq query) (p + t)) = true) ->
  locate thr cfg wq ref query <> None.
Proof.
  intros Hi Hsq Hnn Hb Hkm Hsh1 Hsh2 Hend Hrs Hp HL Hrm Hpn Hov Hcopy. unfold locate.
  fold (loc_s1 cfg wq ref). fold (loc_s2 cfg wq query). fold (loc_eqc cfg wq).
  pose proof (loc_s1_len cfg wq ref) as H1. pose proof (loc_s2_len cfg wq query) as H2.
  apply (copy_gen_is_found (loc_eqc cfg wq) thr cfg ref (loc_s1 cfg wq ref) (loc_s2 cfg wq query)) with (rs := rs) (p := p) (L := L);
    rewrite ?H1, ?H2; auto; try lia.
  cbv zeta. pose proof (Hnn (zlen ref)) as Hk0.
  destruct Hend as [Hre|[Hsr Hqe]].
  - left. split; [exact Hre|]. destruct (start_in_query cfg) eqn:E; [lia|]. destruct Hsh2 as [->|[_ ?]]; [lia | discriminate].
  - right. split; [exact Hqe|]. split; [|left; exact Hsr].
    destruct (start_in_query cfg) eqn:E; [reflexivity|]. destruct Hsh2 as [->|[_ ?]]; [lia | discriminate].
Qed.

(** ---- the adapter classes whose aligner may stop anywhere in the read (all 5' types and
    'anywhere', also the regular and anchored-5' 3'-side types): an error-free occurrence of an
    admissible shape, at least the minimum overlap long, makes match_to report a match *)
From CV Require Import Generated.Flags Model.Adapters.

Theorem match_to_copy_found thr ad read rs p L :
  uses_comparer ad = false -> class_reversed (a_type ad) = false -> stop_in_query (ad_cfg ad) = true ->
  (forall L0, 0 <= thr L0) -> (forall L0, thr L0 <= thr (zlen (a_seq ad))) -> thr (zlen (a_seq ad)) <= zlen (a_seq ad) ->
  (rs = 0 \/ (p = 0 /\ start_in_ref (ad_cfg ad) = true)) -> (p = 0 \/ (rs = 0 /\ start_in_query (ad_cfg ad) = true)) ->
  (rs + L = zlen (a_seq ad) \/ (stop_in_ref (ad_cfg ad) = true /\ p + L = zlen read)) ->
  0 <= rs -> 0 <= p -> 1 <= L -> rs + L <= zlen (a_seq ad) -> p + L <= zlen read -> a_min_overlap ad <= L ->
  (forall t, 0 <= t < L ->
     loc_eqc (ad_cfg ad) (a_wq ad) (znth 0 (loc_s1 (ad_cfg ad) (a_wq ad) (a_seq ad)) (rs + t))
                                   (znth 0 (loc_s2 (ad_cfg ad) (a_wq ad) (ad_query ad read)) (p + t)) = true) ->
  match_to thr ad read <> None.
Proof.
  intros Hcmp Hrev Hsq Hnn Hb Hkm Hsh1 Hsh2 Hend Hrs Hp HL Hrm Hpn Hov Hcopy.
  assert (Hql : zlen (ad_query ad read) = zlen read).
  { unfold ad_query. destruct (class_upper_first (a_type ad)); [apply zlen_map | reflexivity]. }
  assert (Hloc : locate thr (ad_cfg ad) (a_wq ad) (a_seq ad) (ad_query ad read) <> None).
  { apply locate_copy_found with (rs := rs) (p := p) (L := L); rewrite ?Hql; auto. apply ad_indel_cost_pos. }
  unfold match_to, raw_locate. fold (ad_cfg ad). unfold ad_query in Hloc. unfold uses_comparer in Hcmp.
  destruct (a_type ad); cbn [class_reversed class_upper_first] in *;
    unfold cls_FrontAdapter_reversed, cls_BackAdapter_reversed, cls_AnywhereAdapter_reversed, cls_RightmostFrontAdapter_reversed,
           cls_NonInternalFrontAdapter_reversed, cls_NonInternalBackAdapter_reversed, cls_AnywhereAdapter_upper_first in *;
    try discriminate.
  all: try (destruct (a_indels ad); [|discriminate]).
  all: match goal with |- context [match ?l with Some _ => _ | None => None end] => destruct l as [[[[[[? ?] ?] ?] ?] ?]|] end; [discriminate | contradiction].
Qed.
