(** The (errors) component of an indel entry of the adapter index is exactly the edit distance
    between the adapter and the key (unit costs; adapter characters other than ACGT match nothing):
    the banded DP that edit_environment runs along a key computes, in every cell of the band, the
    distance of the two prefixes capped at k+1, and cells outside the band have distance > k. *)
From Coq Require Import ZArith List Bool Lia.
From CV Require Import Model.Base Model.Align Model.Adapters Model.Index Proofs.AlignProofs Proofs.AdapterProofs Proofs.AlignDist Proofs.AlignOpt Proofs.IndexLoop.
Import ListNotations.
Open Scope Z_scope.

Notation edc := (ed Z.eqb 1).

Lemma ed_len_diff a b c : edc a b c -> zlen a - zlen b <= c /\ zlen b - zlen a <= c.
Proof.
  induction 1; unfold zlen in *; rewrite ?app_length; cbn [length]; lia.
Qed.

Lemma firstn_snoc_z {A} (d : A) (l : list A) j : 1 <= j <= zlen l ->
  firstn (Z.to_nat j) l = firstn (Z.to_nat (j - 1)) l ++ [nth (Z.to_nat (j - 1)) l d].
Proof.
  intros Hj. replace (Z.to_nat j) with (S (Z.to_nat (j - 1))) by lia. apply firstn_snoc. unfold zlen in Hj. lia.
Qed.

Section Env.
  Variable tc : list Z.          (* adapter as codes *)
  Variable k : Z.
  Hypothesis k_nonneg : 0 <= k.
  Notation n := (zlen tc).

  (** the two prefixes of cell (i, j): j adapter codes, i key codes [sc] *)
  Definition cellE (sc : list Z) (i j : Z) (c : Z * Z) : Prop :=
    (fst c <= k -> edc (firstn (Z.to_nat j) tc) (firstn (Z.to_nat i) sc) (fst c)) /\
    (forall x, edc (firstn (Z.to_nat j) tc) (firstn (Z.to_nat i) sc) x -> Z.min (fst c) (k + 1) <= x).

  Definition rowE (sc : list Z) (i : Z) (row : list (Z * Z)) : Prop :=
    length row = S (length tc) /\ forall j, 0 <= j <= n -> cellE sc i j (nth (Z.to_nat j) row (0, 0)).

  Lemma edc_ins_all b : edc [] b (zlen b).
  Proof. eapply ed_weak; [apply (ed_ins_all Z.eqb 1); lia | lia]. Qed.
  Lemma edc_del_all a : edc a [] (zlen a).
  Proof. eapply ed_weak; [apply (ed_del_all Z.eqb 1) | lia]. Qed.

  Lemma row0_ok sc t : tc = map acgt_code t -> rowE sc 0 (row0 (zlen t) t).
  Proof.
    intros Ht. split.
    - unfold row0. cbn [length]. rewrite !map_length, seq_length, Ht, map_length. reflexivity.
    - intros j Hj. assert (Hn : nth (Z.to_nat j) (row0 (zlen t) t) (0, 0) = (j, 0)).
      { unfold row0. destruct (Z.eq_dec j 0) as [->|Hne]; [reflexivity|].
        replace (Z.to_nat j) with (S (Z.to_nat (j - 1))) by lia. cbn [nth].
        assert (Hgen : forall len a idx, (idx < len)%nat ->
                  nth idx (map (fun j0 : Z => (j0, 0)) (map (fun p : nat => Z.of_nat p) (seq a len))) (0, 0) = (Z.of_nat (a + idx), 0)).
        { induction len as [|len IH]; intros a idx Hidx; [lia|]. destruct idx as [|idx]; cbn [seq map nth]; [f_equal; f_equal; lia|].
          rewrite IH by lia. f_equal. f_equal. lia. }
        rewrite Hgen by (rewrite Ht in Hj; unfold zlen in Hj; rewrite map_length in Hj; lia). f_equal. lia. }
      rewrite Hn. cbn [Z.to_nat firstn]. split; cbn [fst].
      + intros _. assert (Hl : zlen (firstn (Z.to_nat j) tc) = j) by (unfold zlen; rewrite firstn_length; unfold zlen in Hj; lia).
        pose proof (edc_del_all (firstn (Z.to_nat j) tc)) as H. rewrite Hl in H. exact H.
      + intros x Hx. pose proof (ed_len_l Z.eqb 1 _ _ _ Hx eq_refl) as Hl.
        assert (Hz : zlen (firstn (Z.to_nat j) tc) = j) by (unfold zlen; rewrite firstn_length; unfold zlen in Hj; lia). lia.
  Qed.

  Lemma flen {A} (l : list A) j : 0 <= j <= zlen l -> zlen (firstn (Z.to_nat j) l) = j.
  Proof. intros H. unfold zlen in *. rewrite firstn_length. lia. Qed.

  (** one cell of the band *)
  Lemma cell_E sc i j tj chc pd pu left :
    1 <= i <= zlen sc -> 1 <= j <= n -> tj = nth (Z.to_nat (j - 1)) tc 0 -> chc = nth (Z.to_nat (i - 1)) sc 0 ->
    cellE sc (i - 1) (j - 1) pd -> cellE sc (i - 1) j pu -> cellE sc i (j - 1) left ->
    cellE sc i j
      (if in_band i k n j then
         let mt := if tj =? chc then 0 else 1 in
         let diag := fst pd + mt in let lf := fst left + 1 in let up := fst pu + 1 in
         if (diag <=? lf) && (diag <=? up) then (diag, snd pd + (1 - mt))
         else if lf <=? up then (lf, snd left) else (up, snd pu)
       else (inf_cost k, 0)).
  Proof.
    intros Hi Hj Htj Hchc (Ud & Ld) (Uu & Lu) (Ul & Ll).
    assert (Ht : firstn (Z.to_nat j) tc = firstn (Z.to_nat (j - 1)) tc ++ [tj]) by (subst tj; apply firstn_snoc_z; lia).
    assert (Hs : firstn (Z.to_nat i) sc = firstn (Z.to_nat (i - 1)) sc ++ [chc]) by (subst chc; apply firstn_snoc_z; lia).
    destruct (in_band i k n j) eqn:Eb.
    - cbv zeta. set (mt := if tj =? chc then 0 else 1).
      assert (Hmt : 0 <= mt <= 1) by (subst mt; destruct (tj =? chc); lia).
      assert (HL : forall cn, cn <= fst pd + mt -> cn <= fst left + 1 -> cn <= fst pu + 1 ->
                 forall x, edc (firstn (Z.to_nat j) tc) (firstn (Z.to_nat i) sc) x -> Z.min cn (k + 1) <= x).
      { intros cn H1 H2 H3 x Hx. rewrite Ht, Hs in Hx.
        destruct (ed_snoc_inv Z.eqb 1 _ _ _ Hx _ _ _ _ eq_refl eq_refl) as [[He H]|[H|[H|H]]].
        - pose proof (Ld x H). assert (mt = 0) by (subst mt; rewrite He; reflexivity). lia.
        - pose proof (Ld (x - 1) H). lia.
        - rewrite <- Hs in H. pose proof (Ll (x - 1) H). lia.
        - rewrite <- Ht in H. pose proof (Lu (x - 1) H). lia. }
      destruct ((fst pd + mt <=? fst left + 1) && (fst pd + mt <=? fst pu + 1)) eqn:E1.
      + apply andb_prop in E1. destruct E1 as [E1 E2]. apply Z.leb_le in E1. apply Z.leb_le in E2. split; cbn [fst].
        * intros Hk. rewrite Ht, Hs. subst mt. destruct (tj =? chc) eqn:Eq.
          -- rewrite Z.add_0_r in *. apply ed_match; [exact Eq | apply Ud; lia].
          -- apply ed_sub. apply Ud. lia.
        * apply HL; lia.
      + destruct (fst left + 1 <=? fst pu + 1) eqn:E2; split; cbn [fst].
        * intros Hk. rewrite Ht. apply (ed_del Z.eqb 1). apply Ul. lia.
        * apply Z.leb_le in E2. apply andb_false_iff in E1. apply HL; lia.
        * intros Hk. rewrite Hs. apply (ed_ins Z.eqb 1). apply Uu. lia.
        * apply Z.leb_gt in E2. apply andb_false_iff in E1. apply HL; lia.
    - split; cbn [fst].
      + unfold inf_cost. intros Hk. nia.
      + intros x Hx. destruct (ed_len_diff _ _ _ Hx) as [H1 H2]. rewrite (flen tc j) in * by lia. rewrite (flen sc i) in * by lia.
        unfold in_band in Eb. apply andb_false_iff in Eb. unfold inf_cost. destruct Eb as [Eb|Eb]; [apply Z.leb_gt in Eb | apply Z.ltb_ge in Eb]; nia.
  Qed.

  (** the cells of a row from column j on *)
  Lemma row_go_E sc i chc prevrow : 1 <= i <= zlen sc -> chc = nth (Z.to_nat (i - 1)) sc 0 -> rowE sc (i - 1) prevrow ->
    forall ts j prev left,
      1 <= j -> ts = skipn (Z.to_nat (j - 1)) tc -> prev = skipn (Z.to_nat (j - 1)) prevrow -> cellE sc i (j - 1) left ->
      let r := row_go chc i k n ts j prev left in
      forall idx, (idx < length ts)%nat -> cellE sc i (j + Z.of_nat idx) (nth idx r (0, 0)).
  Proof.
    intros Hi Hchc [Hplen Hprev]. induction ts as [|tj ts' IH]; intros j prev left Hj Hts Hpv Hleft; cbv zeta; intros idx Hidx; [cbn in Hidx; lia|].
    symmetry in Hts. destruct (skipn_cons_nth 0 _ _ _ _ Hts) as (Htj & Hts' & Hlt).
    assert (Hjn : j <= n) by (unfold zlen; lia).
    assert (Hpd : exists pd pu rest, prev = pd :: pu :: rest /\ pd = nth (Z.to_nat (j - 1)) prevrow (0, 0) /\ pu = nth (Z.to_nat j) prevrow (0, 0) /\
                    pu :: rest = skipn (Z.to_nat j) prevrow).
    { assert (Hl1 : (Z.to_nat (j - 1) < length prevrow)%nat) by lia.
      destruct (skipn (Z.to_nat (j - 1)) prevrow) as [|pd rest1] eqn:E1; [apply (f_equal (@length _)) in E1; rewrite skipn_length in E1; cbn in E1; lia|].
      destruct (skipn_cons_nth (0, 0) _ _ _ _ E1) as (Hpd & Hr1 & _).
      assert (Hl2 : (S (Z.to_nat (j - 1)) < length prevrow)%nat) by lia.
      destruct rest1 as [|pu rest2]; [apply (f_equal (@length _)) in Hr1; rewrite skipn_length in Hr1; cbn in Hr1; lia|].
      symmetry in Hr1. destruct (skipn_cons_nth (0, 0) _ _ _ _ Hr1) as (Hpu & _ & _).
      exists pd, pu, rest2. subst prev. split; [reflexivity|]. split; [exact Hpd|]. split.
      - rewrite Hpu. f_equal. lia.
      - rewrite <- Hr1. f_equal. lia. }
    destruct Hpd as (pd & pu & rest & -> & Hpd & Hpu & Hrest).
    cbn [row_go].
    set (cell := if in_band i k n j then _ else _).
    assert (Hcell : cellE sc i j cell).
    { subst cell. apply (cell_E sc i j tj chc pd pu left); auto; try lia.
      - rewrite Hpd. apply Hprev. lia.
      - rewrite Hpu. apply Hprev. lia. }
    destruct idx as [|idx']; [cbn [nth]; rewrite Z.add_0_r; exact Hcell|].
    cbn [nth]. replace (j + Z.of_nat (S idx')) with (j + 1 + Z.of_nat idx') by lia.
    apply (IH (j + 1) (pu :: rest) cell); [lia | rewrite Hts'; f_equal; lia | rewrite Hrest; f_equal; lia | replace (j + 1 - 1) with j by lia; exact Hcell | cbn in Hidx; lia].
  Qed.

  Lemma next_row_E sc i chc prevrow : 1 <= i <= zlen sc -> chc = nth (Z.to_nat (i - 1)) sc 0 -> rowE sc (i - 1) prevrow ->
    rowE sc i (next_row tc chc i k n prevrow).
  Proof.
    intros Hi Hchc Hprev. pose proof Hprev as [Hplen _]. split; [apply next_row_len; exact Hplen|].
    assert (H0 : cellE sc i 0 (i, 0)).
    { split; cbn [fst Z.to_nat firstn].
      - intros _. pose proof (edc_ins_all (firstn (Z.to_nat i) sc)) as H. rewrite (flen sc i) in H by lia. exact H.
      - intros x Hx. pose proof (ed_len_r Z.eqb 1 _ _ _ Hx eq_refl) as Hl. rewrite (flen sc i) in Hl by lia. lia. }
    intros j Hj. unfold next_row. destruct (Z.eq_dec j 0) as [->|Hne]; [exact H0|].
    replace (Z.to_nat j) with (S (Z.to_nat (j - 1))) by lia. cbn [nth].
    pose proof (row_go_E sc i chc prevrow Hi Hchc Hprev tc 1 prevrow (i, 0) ltac:(lia) eq_refl eq_refl H0) as H. cbv zeta in H.
    specialize (H (Z.to_nat (j - 1)) ltac:(unfold zlen in Hj; lia)). replace (1 + Z.of_nat (Z.to_nat (j - 1))) with j in H by lia. exact H.
  Qed.
End Env.

Lemma last_nth {A} (d : A) : forall l, l <> [] -> List.last l d = nth (length l - 1) l d.
Proof.
  intros l Hne. destruct (exists_last Hne) as (l' & a & ->). rewrite last_last, app_length. cbn [length].
  rewrite app_nth2 by lia. replace (length l' + 1 - 1 - length l')%nat with 0%nat by lia. reflexivity.
Qed.

Lemma env_go_E tcs k : 0 <= k -> forall stotal srest spre i row mc c m,
  stotal = spre ++ srest -> i = zlen spre ->
  rowE tcs k (map code_of_acgt stotal) i row ->
  env_go tcs k (zlen tcs) srest i row mc = Some (c, m) ->
  c <= k /\ edc tcs (map code_of_acgt stotal) c /\ forall x, edc tcs (map code_of_acgt stotal) x -> c <= x.
Proof.
  intros Hk stotal. induction srest as [|ch s' IH]; intros spre i row mc c m Hst Hi Hrow H; cbn [env_go] in H.
  - rewrite app_nil_r in Hst. subst spre. destruct Hrow as [Hlen Hcells].
    assert (Hne : row <> []) by (destruct row; [cbn in Hlen; discriminate | discriminate]).
    rewrite (last_nth (0, 0) row Hne) in H. rewrite Hlen in H. replace (S (length tcs) - 1)%nat with (length tcs) in H by lia.
    pose proof (Hcells (zlen tcs) ltac:(pose proof (zlen_nonneg tcs); lia)) as [Ub Lb]. unfold zlen in Ub, Lb at 1 2. rewrite Nat2Z.id in *.
    destruct (nth (length tcs) row (0, 0)) as [c0 m0] eqn:E. cbn [fst] in *. destruct (c0 <=? k) eqn:Ec; [|discriminate]. apply Z.leb_le in Ec. inversion H; subst c0 m0.
    assert (Hf1 : firstn (length tcs) tcs = tcs) by apply firstn_all.
    assert (Hf2 : firstn (Z.to_nat i) (map code_of_acgt stotal) = map code_of_acgt stotal).
    { apply firstn_all2. rewrite map_length. subst i. unfold zlen. lia. }
    rewrite Hf1, Hf2 in *. split; [exact Ec|]. split; [apply Ub; exact Ec|]. intros x Hx. specialize (Lb x Hx). lia.
  - destruct (is_acgt ch && (mc <=? k) && (i <? zlen tcs + k)); [|discriminate].
    eapply (IH (spre ++ [ch]) (i + 1)); [rewrite <- app_assoc; exact Hst | unfold zlen in *; rewrite app_length; cbn [length]; lia | | exact H].
    replace i with (i + 1 - 1) in Hrow by lia.
    apply (next_row_E tcs k Hk (map code_of_acgt stotal) (i + 1) (code_of_acgt ch) row); [| |exact Hrow].
    + unfold zlen in *. rewrite map_length, Hst, app_length. cbn [length]. lia.
    + replace (i + 1 - 1) with i by lia. rewrite Hst, map_app. rewrite app_nth2 by (rewrite map_length; unfold zlen in Hi; lia).
      rewrite map_length. replace (Z.to_nat i - length spre)%nat with 0%nat by (unfold zlen in Hi; lia). reflexivity.
Qed.

(** the errors of an indel entry are exactly the edit distance between the adapter (as codes; a
    character other than ACGT matches nothing) and the key *)
Theorem env_entry_exact t k s c m : 0 <= k -> env_entry t k s = Some (c, m) ->
  c <= k /\ edc (map acgt_code t) (map code_of_acgt s) c /\ forall x, edc (map acgt_code t) (map code_of_acgt s) x -> c <= x.
Proof.
  intros Hk H. unfold env_entry in H.
  assert (Hz : zlen t = zlen (map acgt_code t)) by (unfold zlen; rewrite map_length; reflexivity).
  rewrite Hz in H at 1.
  apply (env_go_E (map acgt_code t) k Hk s s [] 0 (row0 (zlen t) t) 0 c m eq_refl eq_refl); [|exact H].
  apply row0_ok. reflexivity.
Qed.

From CV Require Import Proofs.IndexProofs.

(** every entry of the dictionary carries the exact distance between its adapter and the key:
    the edit distance when the adapter allows indels, the Hamming distance otherwise -- and that
    distance is within the adapter's tolerance k *)
Theorem index_entry_exact ads s r e m :
  Forall wf_iad ads -> index_lookup ads s = Some (r, e, m) ->
  exists a, nth_error ads r = Some a /\ e <= ia_k a /\
    (if a_indels (ia_ad a)
     then edc (map acgt_code (a_seq (ia_ad a))) (map code_of_acgt s) e /\
          (forall x, edc (map acgt_code (a_seq (ia_ad a))) (map code_of_acgt s) x -> e <= x)
     else length s = length (a_seq (ia_ad a)) /\ e = hamming (a_seq (ia_ad a)) s).
Proof.
  intros Hwf H. destruct (index_lookup_sound _ _ _ _ _ H) as (a & Hn & He). exists a. split; [exact Hn|].
  assert (Hwa : wf_iad a) by (rewrite Forall_forall in Hwf; apply Hwf; eapply nth_error_In; eauto). destruct Hwa as [Hk _].
  unfold entry_for in He. destruct (a_indels (ia_ad a)).
  - destruct (env_entry_exact _ _ _ _ _ Hk He) as (H1 & H2 & H3). repeat split; assumption.
  - destruct (ham_entry_exact _ _ _ _ _ He) as (H1 & H2 & H3 & _). repeat split; assumption.
Qed.
