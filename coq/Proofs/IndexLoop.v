(** The look-up loop of the adapter index (Model/Index.v: match_one_length, multi_go): coordinates of
    a reported match lie inside the read; a key of the dictionary has one of the indexed lengths. *)
From Coq Require Import ZArith List Bool Lia.
From CV Require Import Generated.Tables Model.Base Model.Align Model.Adapters Model.Index Proofs.IndexProofs Proofs.AlignProofs.
Import ListNotations.
Open Scope Z_scope.

(** ---- a string in the edit neighbourhood differs in length by at most k *)
Lemma row_go_last ch i k n : 0 <= k -> forall ts j prev left d,
  length prev = S (length ts) -> ts <> [] ->
  let r := row_go ch i k n ts j prev left in
  length r = length ts /\ (fst (List.last r d) <= k -> in_band i k n (j + zlen ts - 1) = true).
Proof.
  intros Hk. induction ts as [|tj ts' IH]; intros j prev left d Hlen Hne; [contradiction|].
  cbv zeta. cbn [row_go]. destruct prev as [|pd [|pu prev'']]; try (cbn in Hlen; lia).
  set (cell := if in_band i k n j then _ else _).
  destruct ts' as [|tj' ts''].
  - cbn [row_go length List.last]. split; [reflexivity|]. intros Hc. rewrite zlen_cons, zlen_nil. replace (j + (0 + 1) - 1) with j by lia.
    subst cell. destruct (in_band i k n j); [reflexivity|]. cbn [fst] in Hc. unfold inf_cost in Hc. nia.
  - specialize (IH (j + 1) (pu :: prev'') cell d ltac:(cbn in *; lia) ltac:(discriminate)). cbv zeta in IH. destruct IH as [IH1 IH2].
    split; [cbn [length] in *; rewrite IH1; reflexivity|].
    intros Hc. rewrite zlen_cons. replace (j + (zlen (tj' :: ts'') + 1) - 1) with (j + 1 + zlen (tj' :: ts'') - 1) by lia. apply IH2.
    remember (row_go ch i k n (tj' :: ts'') (j + 1) (pu :: prev'') cell) as rr. destruct rr as [|x xs]; [cbn in IH1; discriminate|]. exact Hc.
Qed.

Lemma row_go_length ch i k n : forall ts j prev left, length prev = S (length ts) -> length (row_go ch i k n ts j prev left) = length ts.
Proof.
  induction ts as [|tj ts' IH]; intros j prev left Hlen; [reflexivity|]. cbn [row_go].
  destruct prev as [|pd [|pu prev'']]; try (cbn in Hlen; lia). cbn [length]. f_equal. apply IH. cbn in *. lia.
Qed.

Lemma next_row_len ch i k n t prev : length prev = S (length t) -> length (next_row t ch i k n prev) = S (length t).
Proof. intros H. unfold next_row. cbn [length]. f_equal. apply row_go_length. exact H. Qed.

Lemma next_row_last t ch i k n prev d : 0 <= k -> 0 <= i -> n = zlen t -> length prev = S (length t) ->
  fst (List.last (next_row t ch i k n prev) d) <= k -> i - k <= n <= i + k.
Proof.
  intros Hk Hi Hn Hlen Hc. unfold next_row in Hc. destruct t as [|tj ts].
  - cbn in Hc. rewrite zlen_nil in Hn. lia.
  - pose proof (row_go_last ch i k n Hk (tj :: ts) 1 prev (i, 0) d Hlen ltac:(discriminate)) as H. cbv zeta in H. destruct H as [Hl Hb].
    remember (row_go ch i k n (tj :: ts) 1 prev (i, 0)) as rr. destruct rr as [|x xs]; [cbn in Hl; discriminate|].
    cbn [List.last] in Hc. specialize (Hb Hc). unfold in_band in Hb. apply andb_prop in Hb. destruct Hb as [H1 H2].
    apply Z.leb_le in H1. apply Z.ltb_lt in H2. lia.
Qed.

Lemma env_go_len t k n : 0 <= k -> n = zlen t -> forall s i row mc c m, 0 <= i ->
  length row = S (length t) -> (fst (List.last row (0, 0)) <= k -> i - k <= n <= i + k) ->
  env_go t k n s i row mc = Some (c, m) -> i + zlen s - k <= n <= i + zlen s + k.
Proof.
  intros Hk Hn. induction s as [|ch s' IH]; intros i row mc c m Hi0 Hlen HP H; cbn [env_go] in H.
  - rewrite zlen_nil, Z.add_0_r. destruct (List.last row (0, 0)) as [c0 m0] eqn:El. destruct (c0 <=? k) eqn:E; [|discriminate].
    apply Z.leb_le in E. apply HP. cbn. exact E.
  - destruct (is_acgt ch && (mc <=? k) && (i <? n + k)); [|discriminate]. rewrite zlen_cons.
    replace (i + (zlen s' + 1)) with (i + 1 + zlen s') by lia.
    eapply IH; [| | |exact H]; [lia | apply next_row_len; exact Hlen|]. intros Hc. eapply next_row_last; eauto. lia.
Qed.

Lemma env_entry_len t k s c m : 0 <= k -> env_entry t k s = Some (c, m) -> zlen t - k <= zlen s <= zlen t + k.
Proof.
  intros Hk H. unfold env_entry in H.
  pose proof (env_go_len (map acgt_code t) k (zlen t) Hk ltac:(unfold zlen; rewrite map_length; reflexivity) s 0 (row0 (zlen t) t) 0 c m ltac:(lia)) as HH.
  assert (Hl : length (row0 (zlen t) t) = S (length (map acgt_code t))) by (unfold row0; cbn [length]; rewrite !map_length, seq_length; reflexivity).
  assert (HP : fst (List.last (row0 (zlen t) t) (0, 0)) <= k -> 0 - k <= zlen t <= 0 + k).
  { unfold row0. intros Hc. destruct t as [|x u]; [unfold zlen; cbn; lia|].
    assert (E : List.last ((0, 0) :: map (fun j => (j, 0)) (map (fun p => Z.of_nat p) (seq 1 (length (x :: u))))) (0, 0) = (zlen (x :: u), 0)).
    { cbn [length]. rewrite seq_S, !map_app. cbn [map]. rewrite app_comm_cons, last_last. unfold zlen. cbn [length]. f_equal; lia. }
    rewrite E in Hc. cbn [fst] in Hc. pose proof (zlen_nonneg (x :: u)). lia. }
  specialize (HH Hl HP H). lia.
Qed.

Lemma ham_entry_len t k s c m : ham_entry t k s = Some (c, m) -> zlen s = zlen t.
Proof. intros H. destruct (ham_entry_exact _ _ _ _ _ H) as [Hl _]. unfold zlen. rewrite Hl. reflexivity. Qed.

(** ---- keys of the dictionary have one of the indexed lengths *)
Definition wf_iad (a : iad) : Prop := 0 <= ia_k a <= zlen (a_seq (ia_ad a)).

Lemma entry_for_len a s e m : wf_iad a -> entry_for a s = Some (e, m) -> In (zlen s) (lengths_of a).
Proof.
  intros [Hk Hkn] H. unfold entry_for, lengths_of in *. destruct (a_indels (ia_ad a)).
  - pose proof (env_entry_len _ _ _ _ _ Hk H) as Hl. apply in_map_iff.
    exists (Z.to_nat (zlen s - (zlen (a_seq (ia_ad a)) - ia_k a))). split; [lia|]. apply in_seq. lia.
  - rewrite (ham_entry_len _ _ _ _ _ H). left. reflexivity.
Qed.

Lemma in_insert_desc x y : forall l, In x (insert_desc y l) <-> x = y \/ In x l.
Proof.
  induction l as [|z t IH]; cbn [insert_desc].
  - cbn. intuition.
  - destruct (z <? y); [cbn; intuition|]. destruct (z =? y) eqn:E.
    + apply Z.eqb_eq in E. subst z. cbn. intuition.
    + cbn [In]. rewrite IH. intuition.
Qed.

Lemma in_fold_insert x : forall l acc, In x (fold_left (fun acc y => insert_desc y acc) l acc) <-> In x l \/ In x acc.
Proof.
  induction l as [|y t IH]; intros acc; cbn [fold_left]; [cbn; tauto|]. rewrite IH, in_insert_desc. cbn [In]. intuition.
Qed.

Lemma in_index_lengths x ads : In x (index_lengths ads) <-> exists a, In a ads /\ In x (lengths_of a).
Proof.
  unfold index_lengths. rewrite in_fold_insert. rewrite in_flat_map. cbn [In]. split; [intros [H|[]]; exact H | intros H; left; exact H].
Qed.

Lemma lengths_of_nonneg a x : wf_iad a -> In x (lengths_of a) -> 0 <= x.
Proof.
  intros [Hk Hkn] H. unfold lengths_of in H. destruct (a_indels (ia_ad a)).
  - apply in_map_iff in H. destruct H as (d & <- & _). lia.
  - destruct H as [<-|[]]. apply zlen_nonneg.
Qed.

Lemma index_lookup_len ads s r e m : Forall wf_iad ads -> index_lookup ads s = Some (r, e, m) -> In (zlen s) (index_lengths ads).
Proof.
  intros Hwf H. destruct (index_lookup_sound _ _ _ _ _ H) as (a & Hn & He). apply nth_error_In in Hn.
  apply in_index_lengths. exists a. split; [exact Hn|]. rewrite Forall_forall in Hwf. eapply entry_for_len; eauto.
Qed.

Lemma lookup_affix_len ads affix r e m : Forall wf_iad ads -> lookup_affix ads affix = Some (r, e, m) -> In (zlen affix) (index_lengths ads).
Proof.
  intros Hwf H. unfold lookup_affix in H. destruct (has_n affix).
  - unfold lookup_with_n in H. destruct (index_lookup ads (map (fun c => if c =? 78 then 65 else c) affix)) as [[[r' e'] m']|] eqn:E; [|discriminate].
    pose proof (index_lookup_len _ _ _ _ _ Hwf E) as Hl. unfold zlen in *. rewrite map_length in Hl. exact Hl.
  - eapply index_lookup_len; eauto.
Qed.

Lemma pyslice_len_le {A} lo hi (l : list A) : zlen (pyslice lo hi l) <= zlen l.
Proof. unfold pyslice, zlen. rewrite firstn_length, skipn_length. lia. Qed.

Lemma make_affix_len_le p s n : zlen (make_affix p s n) <= zlen s.
Proof. unfold make_affix. destruct p; apply pyslice_len_le. Qed.

(** ---- coordinates of an index match lie inside the read and are anchored *)
Definition coords_ok (prefix : bool) (seqlen : Z) (r : nat * Z * Z * Z * Z) : Prop :=
  let '(_, rs, re, _, _) := r in 0 <= rs <= re /\ re <= seqlen /\ (if prefix then rs = 0 else re = seqlen).

Lemma multi_go_best prefix ads seqlen : forall lens affix best bm be,
  Forall (fun x => 0 <= x) lens ->
  (forall r len, best = Some (r, len) -> 0 <= len <= seqlen) ->
  forall r len, fst (fst (multi_go prefix ads seqlen lens affix best bm be)) = Some (r, len) -> 0 <= len <= seqlen.
Proof.
  induction lens as [|x t IH]; intros affix best bm be Hnn Hb r len H; cbn [multi_go] in H; [cbn in H; apply (Hb r len H)|].
  inversion Hnn as [|x0 t0 Hx Ht]; subst. destruct (x <? bm); [cbn in H; apply (Hb r len H)|].
  destruct (seqlen <? x) eqn:Esx; [exact (IH affix best bm be Ht Hb r len H)|].
  apply Z.ltb_ge in Esx. destruct (lookup_affix ads (make_affix prefix affix x)) as [[[r' e'] m']|];
    [|exact (IH (make_affix prefix affix x) best bm be Ht Hb r len H)].
  destruct ((bm <? m') || (m' =? bm) && (e' <? be)); [|exact (IH (make_affix prefix affix x) best bm be Ht Hb r len H)].
  refine (IH (make_affix prefix affix x) (Some (r', x)) m' e' Ht _ r len H). intros r0 len0 Heq. inversion Heq; subst. lia.
Qed.

Theorem index_match_coords prefix ads sequence res :
  Forall wf_iad ads -> index_match prefix ads sequence = Some res -> coords_ok prefix (zlen sequence) res.
Proof.
  intros Hwf H. unfold index_match in H.
  assert (Hnn : Forall (fun x => 0 <= x) (index_lengths ads)).
  { apply Forall_forall. intros x Hx. apply in_index_lengths in Hx. destruct Hx as (a & Ha & Hx). rewrite Forall_forall in Hwf. eapply lengths_of_nonneg; eauto. }
  assert (Hmulti : forall lens, Forall (fun x => 0 <= x) lens -> match_multiple_lengths prefix ads lens sequence = Some res -> coords_ok prefix (zlen sequence) res).
  { intros lens Hl Hm. unfold match_multiple_lengths in Hm.
    destruct (multi_go prefix ads (zlen sequence) lens (map (tr upper_table) sequence) None (-1) 1000) as [[b bm] be] eqn:Eg.
    destruct b as [[r len]|]; [|discriminate]. inversion Hm; subst res.
    assert (Hlen : 0 <= len <= zlen sequence).
    { apply (multi_go_best prefix ads (zlen sequence) lens (map (tr upper_table) sequence) None (-1) 1000 Hl ltac:(intros; discriminate) r len). rewrite Eg. reflexivity. }
    unfold make_match, coords_ok. destruct prefix; repeat split; lia. }
  destruct (index_lengths ads) as [|len [|len2 rest]] eqn:El; [apply (Hmulti []); [constructor | exact H] | | apply (Hmulti (len :: len2 :: rest)); assumption].
  unfold match_one_length in H.
  destruct (lookup_affix ads (make_affix prefix (map (tr upper_table) sequence) len)) as [[[r e] m]|] eqn:Ela; [|discriminate].
  inversion H; subst res.
  pose proof (lookup_affix_len _ _ _ _ _ Hwf Ela) as Hin. rewrite El in Hin. destruct Hin as [Hin|[]].
  pose proof (make_affix_len_le prefix (map (tr upper_table) sequence) len) as Hle.
  assert (Hu : zlen (map (tr upper_table) sequence) = zlen sequence) by (unfold zlen; rewrite map_length; reflexivity).
  inversion Hnn; subst. unfold make_match, coords_ok. destruct prefix; repeat split; lia.
Qed.

(** ---- the loop over affix lengths: which adapter is reported *)
Definition is_affix (prefix : bool) (u s : str) : Prop :=
  exists a : nat, s = if prefix then firstn a u else skipn a u.

Lemma skipn_skipn' {A} : forall x y (l : list A), skipn x (skipn y l) = skipn (y + x) l.
Proof. intros x y. induction y as [|y IH]; intros l; [reflexivity|]. destruct l; [rewrite !skipn_nil; reflexivity|]. cbn. apply IH. Qed.

Lemma is_affix_make prefix u s x : is_affix prefix u s -> is_affix prefix u (make_affix prefix s x).
Proof.
  intros [a Ha]. unfold make_affix, pyslice. destruct prefix; subst s.
  - cbn [norm_idx]. rewrite Z.sub_0_r. cbn [skipn Z.to_nat]. rewrite firstn_firstn. eexists. reflexivity.
  - cbn [norm_idx]. set (st := Z.max 0 _). replace (Z.to_nat (zlen (skipn a u) - st)) with (length (skipn (Z.to_nat st) (skipn a u))).
    + rewrite firstn_all, skipn_skipn'. eexists. reflexivity.
    + rewrite skipn_length. unfold zlen. subst st. lia.
Qed.

Lemma is_affix_self prefix u : is_affix prefix u u.
Proof. destruct prefix; [exists (length u); symmetry; apply firstn_all | exists 0%nat; reflexivity]. Qed.

(** if every anchored affix of the read that the dictionary knows belongs to adapter r0, the loop
    can only report r0 *)
Lemma multi_go_same prefix ads seqlen u r0 : forall lens affix best bm be,
  is_affix prefix u affix ->
  (forall s r e m, is_affix prefix u s -> lookup_affix ads s = Some (r, e, m) -> r = r0) ->
  (forall r len, best = Some (r, len) -> r = r0) ->
  forall r len, fst (fst (multi_go prefix ads seqlen lens affix best bm be)) = Some (r, len) -> r = r0.
Proof.
  induction lens as [|x t IH]; intros affix best bm be Haf Hall Hb r len H; cbn [multi_go] in H; [cbn in H; apply (Hb r len H)|].
  destruct (x <? bm); [cbn in H; apply (Hb r len H)|].
  destruct (seqlen <? x); [exact (IH affix best bm be Haf Hall Hb r len H)|].
  pose proof (is_affix_make prefix u affix x Haf) as Haf'.
  destruct (lookup_affix ads (make_affix prefix affix x)) as [[[r' e'] m']|] eqn:El;
    [|exact (IH (make_affix prefix affix x) best bm be Haf' Hall Hb r len H)].
  destruct ((bm <? m') || (m' =? bm) && (e' <? be)); [|exact (IH (make_affix prefix affix x) best bm be Haf' Hall Hb r len H)].
  refine (IH (make_affix prefix affix x) (Some (r', x)) m' e' Haf' Hall _ r len H). intros r1 len1 Heq. inversion Heq; subst.
  eapply Hall; eauto.
Qed.

Theorem index_match_same_adapter prefix ads sequence r0 r rs re e m :
  (forall s r' e' m', is_affix prefix (map (tr upper_table) sequence) s -> lookup_affix ads s = Some (r', e', m') -> r' = r0) ->
  index_match prefix ads sequence = Some (r, rs, re, e, m) -> r = r0.
Proof.
  intros Hall H. unfold index_match in H.
  assert (Hmulti : forall lens, match_multiple_lengths prefix ads lens sequence = Some (r, rs, re, e, m) -> r = r0).
  { intros lens Hm. unfold match_multiple_lengths in Hm.
    destruct (multi_go prefix ads (zlen sequence) lens (map (tr upper_table) sequence) None (-1) 1000) as [[b bm] be] eqn:Eg.
    destruct b as [[r1 len]|]; [|discriminate].
    assert (Hr1 : r1 = r0).
    { apply (multi_go_same prefix ads (zlen sequence) (map (tr upper_table) sequence) r0 lens (map (tr upper_table) sequence) None (-1) 1000
               (is_affix_self _ _) Hall ltac:(intros; discriminate) r1 len). rewrite Eg. reflexivity. }
    unfold make_match in Hm. destruct prefix; inversion Hm; subst; reflexivity. }
  destruct (index_lengths ads) as [|len [|len2 rest]]; [apply (Hmulti []); exact H | | apply (Hmulti (len :: len2 :: rest)); exact H].
  unfold match_one_length in H.
  destruct (lookup_affix ads (make_affix prefix (map (tr upper_table) sequence) len)) as [[[r1 e1] m1]|] eqn:Ela; [|discriminate].
  assert (Hr1 : r1 = r0) by (eapply Hall; [apply is_affix_make; apply is_affix_self | exact Ela]).
  unfold make_match in H. destruct prefix; inversion H; subst; reflexivity.
Qed.

(** ---- existence: an affix known to the dictionary at one of the indexed lengths is found *)
Fixpoint desc (l : list Z) : Prop :=
  match l with [] => True | x :: t => Forall (fun y => y < x) t /\ desc t end.

Lemma insert_desc_sorted y : forall l, desc l -> desc (insert_desc y l) /\ (forall b, (forall z, In z l -> z < b) -> y < b -> forall z, In z (insert_desc y l) -> z < b).
Proof.
  induction l as [|x t IH]; intros Hd; cbn [insert_desc].
  - split; [cbn; split; [constructor | exact I]|]. intros b _ Hy z [<-|[]]. exact Hy.
  - destruct Hd as [Hx Ht]. destruct (x <? y) eqn:E1.
    + apply Z.ltb_lt in E1. split.
      * cbn [desc]. split; [|split; assumption]. constructor; [exact E1|]. rewrite Forall_forall in *. intros z Hz. specialize (Hx z Hz). lia.
      * intros b Hb Hy z [<-|Hz]; [exact Hy | apply Hb; exact Hz].
    + apply Z.ltb_ge in E1. destruct (x =? y) eqn:E2.
      * split; [cbn [desc]; split; assumption|]. intros b Hb _ z Hz. apply Hb. exact Hz.
      * apply Z.eqb_neq in E2. destruct (IH Ht) as [IH1 IH2]. split.
        -- cbn [desc]. split; [|exact IH1]. apply Forall_forall. intros z Hz. apply (IH2 x); [rewrite Forall_forall in Hx; exact Hx | lia | exact Hz].
        -- intros b Hb Hy z [<-|Hz]; [apply Hb; left; reflexivity|]. apply (IH2 b); [intros w Hw; apply Hb; right; exact Hw | exact Hy | exact Hz].
Qed.

Lemma index_lengths_desc ads : desc (index_lengths ads).
Proof.
  unfold index_lengths. assert (H : forall l acc, desc acc -> desc (fold_left (fun acc x => insert_desc x acc) l acc)).
  { induction l as [|x t IH]; intros acc Ha; [exact Ha|]. cbn [fold_left]. apply IH. apply insert_desc_sorted. exact Ha. }
  apply H. exact I.
Qed.

Lemma firstn_firstn' {A} : forall i j (l : list A), firstn i (firstn j l) = firstn (Nat.min i j) l.
Proof. intros. apply firstn_firstn. Qed.

Lemma make_affix_compose prefix s a b : 1 <= b <= a -> make_affix prefix (make_affix prefix s a) b = make_affix prefix s b.
Proof.
  intros Hab. unfold make_affix, pyslice. destruct prefix; cbn [norm_idx].
  - rewrite !Z.sub_0_r. cbn [Z.to_nat skipn].
    set (n := zlen s). assert (Hn : 0 <= n) by apply zlen_nonneg.
    assert (E1 : (a <? 0) = false) by (apply Z.ltb_ge; lia). assert (E2 : (b <? 0) = false) by (apply Z.ltb_ge; lia). rewrite E1, E2.
    assert (Hz : zlen (firstn (Z.to_nat (Z.max 0 (Z.min n a))) s) = Z.min n a).
    { unfold zlen. rewrite firstn_length. subst n. unfold zlen in *. lia. }
    rewrite Hz. rewrite firstn_firstn. f_equal. lia.
  - set (n := zlen s). assert (Hn : 0 <= n) by apply zlen_nonneg.
    assert (E1 : (- a <? 0) = true) by (apply Z.ltb_lt; lia). assert (E2 : (- b <? 0) = true) by (apply Z.ltb_lt; lia). rewrite E1, E2.
    set (st := Z.max 0 (Z.min n (- a + n))).
    assert (F1 : firstn (Z.to_nat (n - st)) (skipn (Z.to_nat st) s) = skipn (Z.to_nat st) s).
    { apply firstn_all2. rewrite skipn_length. subst n st. unfold zlen in *. lia. }
    rewrite F1.
    assert (Hz : zlen (skipn (Z.to_nat st) s) = n - st) by (unfold zlen; rewrite skipn_length; subst n st; unfold zlen in *; lia).
    rewrite Hz. set (st' := Z.max 0 (Z.min (n - st) (- b + (n - st)))).
    rewrite skipn_skipn'.
    rewrite firstn_all2 by (rewrite skipn_length; subst n st st'; unfold zlen in *; lia).
    rewrite firstn_all2 by (rewrite skipn_length; subst n; unfold zlen in *; lia).
    f_equal. subst st st'. lia.
Qed.

Lemma multi_go_some prefix ads seqlen : forall lens affix r len bm be, exists r' len',
  fst (fst (multi_go prefix ads seqlen lens affix (Some (r, len)) bm be)) = Some (r', len').
Proof.
  induction lens as [|x t IH]; intros affix r len bm be; cbn [multi_go]; [eexists; eexists; reflexivity|].
  destruct (x <? bm); [eexists; eexists; reflexivity|]. destruct (seqlen <? x); [apply IH|].
  destruct (lookup_affix ads (make_affix prefix affix x)) as [[[r1 e1] m1]|]; [|apply IH].
  destruct ((bm <? m1) || (m1 =? bm) && (e1 <? be)); apply IH.
Qed.

(** with no candidate yet, the loop reaches every indexed length that fits into the read and looks
    up the affix of exactly that length *)
Lemma multi_go_finds prefix ads seqlen u x0 r0 e0 m0 : forall lens affix,
  desc lens -> Forall (fun x => 1 <= x) lens -> In x0 lens -> x0 <= seqlen ->
  (affix = u \/ exists a, affix = make_affix prefix u a /\ Forall (fun x => x <= a) lens) ->
  lookup_affix ads (make_affix prefix u x0) = Some (r0, e0, m0) -> 0 <= m0 ->
  exists r len, fst (fst (multi_go prefix ads seqlen lens affix None (-1) 1000)) = Some (r, len).
Proof.
  induction lens as [|x t IH]; intros affix Hd Hpos Hin Hx0 Haf Hl Hm0; [contradiction|].
  cbn [multi_go]. inversion Hpos as [|x' t' Hx Ht]; subst. destruct Hd as [Hlt Hdt].
  assert (E : (x <? -1) = false) by (apply Z.ltb_ge; lia). rewrite E.
  assert (Hcur : make_affix prefix affix x = make_affix prefix u x).
  { destruct Haf as [->|(a & -> & Ha)]; [reflexivity|]. inversion Ha; subst. apply make_affix_compose. lia. }
  assert (Haf' : make_affix prefix affix x = u \/ exists a, make_affix prefix affix x = make_affix prefix u a /\ Forall (fun y => y <= a) t).
  { right. exists x. split; [exact Hcur|]. rewrite Forall_forall in *. intros y Hy. specialize (Hlt y Hy). lia. }
  assert (Haft : affix = u \/ exists a, affix = make_affix prefix u a /\ Forall (fun y => y <= a) t).
  { destruct Haf as [->|(a & -> & Ha)]; [left; reflexivity|]. right. exists a. split; [reflexivity|]. inversion Ha; assumption. }
  destruct Hin as [<-|Hin].
  - assert (E2 : (seqlen <? x) = false) by (apply Z.ltb_ge; lia). rewrite E2, Hcur, Hl.
    assert (E3 : ((-1 <? m0) || (m0 =? -1) && (e0 <? 1000)) = true) by (apply orb_true_iff; left; apply Z.ltb_lt; lia). rewrite E3.
    apply multi_go_some.
  - destruct (seqlen <? x); [apply (IH affix Hdt Ht Hin Hx0 Haft Hl Hm0)|].
    destruct (lookup_affix ads (make_affix prefix affix x)) as [[[r1 e1] m1]|]; [|apply (IH _ Hdt Ht Hin Hx0 Haf' Hl Hm0)].
    destruct ((-1 <? m1) || (m1 =? -1) && (e1 <? 1000)); [apply multi_go_some | apply (IH _ Hdt Ht Hin Hx0 Haf' Hl Hm0)].
Qed.

(** ---- the number of matches of an entry is non-negative *)
Lemma row_go_nonneg ch i k n : forall ts j prev left,
  Forall (fun c => 0 <= snd c) prev -> 0 <= snd left -> Forall (fun c => 0 <= snd c) (row_go ch i k n ts j prev left).
Proof.
  induction ts as [|tj ts' IH]; intros j prev left Hp Hl; cbn [row_go]; [constructor|].
  destruct prev as [|pd [|pu prev'']]; try constructor.
  - inversion Hp as [|? ? Hpd Hrest]; subst. inversion Hrest as [|? ? Hpu _]; subst.
    destruct (in_band i k n j); [|cbn; lia].
    destruct (tj =? ch); cbn [fst snd].
    + destruct ((fst pd + 0 <=? fst left + 1) && (fst pd + 0 <=? fst pu + 1)); [cbn; lia|]. destruct (fst left + 1 <=? fst pu + 1); cbn; lia.
    + destruct ((fst pd + 1 <=? fst left + 1) && (fst pd + 1 <=? fst pu + 1)); [cbn; lia|]. destruct (fst left + 1 <=? fst pu + 1); cbn; lia.
  - inversion Hp as [|? ? Hpd Hrest]; subst. apply IH; [exact Hrest|].
    inversion Hrest as [|? ? Hpu _]; subst.
    destruct (in_band i k n j); [|cbn; lia].
    destruct (tj =? ch); cbn [fst snd].
    + destruct ((fst pd + 0 <=? fst left + 1) && (fst pd + 0 <=? fst pu + 1)); [cbn; lia|]. destruct (fst left + 1 <=? fst pu + 1); cbn; lia.
    + destruct ((fst pd + 1 <=? fst left + 1) && (fst pd + 1 <=? fst pu + 1)); [cbn; lia|]. destruct (fst left + 1 <=? fst pu + 1); cbn; lia.
Qed.

Lemma env_go_nonneg t k n : forall s i row mc c m,
  Forall (fun c => 0 <= snd c) row -> env_go t k n s i row mc = Some (c, m) -> 0 <= m.
Proof.
  induction s as [|ch s' IH]; intros i row mc c m Hrow H; cbn [env_go] in H.
  - destruct (List.last row (0, 0)) as [c0 m0] eqn:El. destruct (c0 <=? k); [|discriminate]. inversion H; subst.
    destruct row as [|x xs]; [cbn in El; inversion El; lia|].
    assert (Hin : In (c, m) (x :: xs)) by (rewrite <- El; apply (@exists_last _ (x :: xs) ltac:(discriminate)) || (destruct (@exists_last _ (x :: xs) ltac:(discriminate)) as (l' & a & ->); rewrite last_last; apply in_or_app; right; left; reflexivity)).
    rewrite Forall_forall in Hrow. apply (Hrow (c, m) Hin).
  - destruct (is_acgt ch && (mc <=? k) && (i <? n + k)); [|discriminate].
    eapply IH; [|exact H]. unfold next_row. constructor; [cbn; lia|]. apply row_go_nonneg; [exact Hrow | cbn; lia].
Qed.

Lemma entry_for_nonneg a s e m : wf_iad a -> entry_for a s = Some (e, m) -> 0 <= m.
Proof.
  intros [Hk Hkn] H. unfold entry_for in H. destruct (a_indels (ia_ad a)).
  - unfold env_entry in H. eapply env_go_nonneg; [|exact H]. unfold row0. constructor; [cbn; lia|].
    apply Forall_forall. intros c Hc. apply in_map_iff in Hc. destruct Hc as (j & <- & _). cbn. lia.
  - destruct (ham_entry_exact _ _ _ _ _ H) as (_ & _ & He & Hm). lia.
Qed.

(** the whole statement: whenever all anchored affixes of an N-free read that the dictionary knows
    belong to one adapter r0, and one of them has an indexed length that fits into the read, the
    index reports a match, and it is a match of r0 with coordinates inside the read *)
Theorem index_reports_unique prefix ads sequence r0 x0 e0 m0 :
  Forall wf_iad ads -> Forall (fun x => 1 <= x) (index_lengths ads) ->
  (forall s r e m, is_affix prefix (map (tr upper_table) sequence) s -> lookup_affix ads s = Some (r, e, m) -> r = r0) ->
  In x0 (index_lengths ads) -> x0 <= zlen sequence ->
  has_n (make_affix prefix (map (tr upper_table) sequence) x0) = false ->
  index_lookup ads (make_affix prefix (map (tr upper_table) sequence) x0) = Some (r0, e0, m0) ->
  exists rs re e m, index_match prefix ads sequence = Some (r0, rs, re, e, m) /\ coords_ok prefix (zlen sequence) (r0, rs, re, e, m).
Proof.
  intros Hwf Hpos Hall Hin Hx0 Hn Hl.
  assert (Hla : lookup_affix ads (make_affix prefix (map (tr upper_table) sequence) x0) = Some (r0, e0, m0)) by (unfold lookup_affix; rewrite Hn; exact Hl).
  assert (Hm0 : 0 <= m0).
  { destruct (index_lookup_sound _ _ _ _ _ Hl) as (a & Ha & He). apply nth_error_In in Ha. rewrite Forall_forall in Hwf. eapply entry_for_nonneg; eauto. }
  assert (Hex : exists res, index_match prefix ads sequence = Some res).
  { unfold index_match. pose proof (index_lengths_desc ads) as Hd.
    destruct (index_lengths ads) as [|len [|len2 rest]] eqn:El; [contradiction| |].
    - destruct Hin as [<-|[]]. unfold match_one_length. rewrite Hla. eexists. reflexivity.
    - destruct (multi_go_finds prefix ads (zlen sequence) (map (tr upper_table) sequence) x0 r0 e0 m0 (len :: len2 :: rest) (map (tr upper_table) sequence)
                  Hd Hpos Hin Hx0 (or_introl eq_refl) Hla Hm0) as (r & len' & Hg).
      unfold match_multiple_lengths.
      destruct (multi_go prefix ads (zlen sequence) (len :: len2 :: rest) (map (tr upper_table) sequence) None (-1) 1000) as [[b bm] be].
      cbn [fst] in Hg. subst b. eexists. reflexivity. }
  destruct Hex as ([[[[r rs] re] e] m] & Hres).
  pose proof (index_match_same_adapter prefix ads sequence r0 r rs re e m Hall Hres) as ->.
  exists rs, re, e, m. split; [exact Hres|]. eapply index_match_coords; eauto.
Qed.

(** the N fallback (after the repair of F8c): what it reports is a match of that adapter against the
    affix that covers the whole affix, with that match's errors and score *)
Lemma lookup_with_n_covers ads affix r e sc :
  lookup_with_n ads affix = Some (r, e, sc) ->
  exists a mt, nth_error ads r = Some a /\ match_to (thr_of (ia_thr a)) (ia_ad a) affix = Some mt /\
               rstop mt - rstart mt = zlen affix /\ e = merrors mt /\ sc = mscore mt.
Proof.
  unfold lookup_with_n. intros H.
  destruct (index_lookup ads (map (fun c => if c =? 78 then 65 else c) affix)) as [[[r' e'] m']|]; [|discriminate].
  destruct (nth_error ads r') as [a|] eqn:En; [|discriminate].
  destruct (match_to (thr_of (ia_thr a)) (ia_ad a) affix) as [mt|] eqn:Em; [|discriminate].
  destruct (rstop mt - rstart mt =? zlen affix) eqn:Ec; [|discriminate].
  injection H as <- <- <-. exists a, mt. apply Z.eqb_eq in Ec. auto.
Qed.
