(** Python slices are contiguous sub-lists; composition of slices; reads as slices of reads.
    Used by C03 (output = slice of input), C09 (rounds compose), C17 (info fields concatenate). *)
From Coq Require Import ZArith List Bool Lia.
From CV Require Import Model.Base Model.Align Model.Adapters Proofs.AlignProofs Proofs.AdapterProofs.
Import ListNotations.
Open Scope Z_scope.

(** [sub k n l] = l[k : k+n] *)
Definition sub {A} (k n : nat) (l : list A) : list A := firstn n (skipn k l).

Lemma zslice_sub {A} (l : list A) a b : zslice l a b = sub (Z.to_nat a) (Z.to_nat (b - a)) l.
Proof. reflexivity. Qed.

Lemma skipn_skipn {A} : forall (x y : nat) (l : list A), skipn x (skipn y l) = skipn (y + x) l.
Proof.
  intros x y. induction y as [|y IH]; intros l; [reflexivity|].
  destruct l as [|a l]; cbn [skipn Nat.add]; [destruct x; reflexivity | apply IH].
Qed.

Lemma sub_sub {A} (k n k' n' : nat) (l : list A) :
  sub k' n' (sub k n l) = sub (k + k') (Nat.min n' (n - k')) l.
Proof.
  unfold sub. rewrite skipn_firstn_comm, firstn_firstn, skipn_skipn. reflexivity.
Qed.

Lemma sub_length {A} (k n : nat) (l : list A) : length (sub k n l) = Nat.min n (length l - k).
Proof. unfold sub. rewrite firstn_length, skipn_length. reflexivity. Qed.

Lemma sub_map {A B} (f : A -> B) k n l : sub k n (map f l) = map f (sub k n l).
Proof. unfold sub. rewrite skipn_map, firstn_map. reflexivity. Qed.

Lemma sub_is_infix {A} (k n : nat) (l : list A) : exists pre post, l = pre ++ sub k n l ++ post.
Proof.
  exists (firstn k l), (skipn n (skipn k l)). unfold sub.
  rewrite firstn_skipn. rewrite firstn_skipn. reflexivity.
Qed.

(** pyslice is always some [sub] *)
Lemma pyslice_sub {A} lo hi (l : list A) : exists k n, pyslice lo hi l = sub k n l /\ (k + n <= length l)%nat.
Proof.
  unfold pyslice. set (a := norm_idx (zlen l) lo 0). set (b := norm_idx (zlen l) hi (zlen l)).
  assert (Ha : 0 <= a <= zlen l).
  { subst a. unfold norm_idx. pose proof (zlen_nonneg l). destruct lo as [v|]; [|lia]. destruct (v <? 0); lia. }
  assert (Hb : 0 <= b <= zlen l).
  { subst b. unfold norm_idx. pose proof (zlen_nonneg l). destruct hi as [v|]; [|lia]. destruct (v <? 0); lia. }
  destruct (Z_le_gt_dec a b).
  - exists (Z.to_nat a), (Z.to_nat (b - a)). split; [reflexivity|]. unfold zlen in *. lia.
  - exists (Z.to_nat a), 0%nat. split; [|unfold zlen in *; lia].
    replace (Z.to_nat (b - a)) with 0%nat by lia. reflexivity.
Qed.

(** in-range slices *)
Lemma pyslice_range {A} (l : list A) a b : 0 <= a <= b -> b <= zlen l ->
  pyslice (Some a) (Some b) l = zslice l a b.
Proof.
  intros H1 H2. unfold pyslice, norm_idx, zslice.
  destruct (a <? 0) eqn:Ea; [lia|]. destruct (b <? 0) eqn:Eb; [lia|].
  rewrite !Z.min_r by lia. rewrite !Z.max_r by lia. reflexivity.
Qed.

Lemma pyslice_from {A} (l : list A) a : 0 <= a <= zlen l -> pyslice (Some a) None l = zslice l a (zlen l).
Proof.
  intros H. unfold pyslice, norm_idx, zslice. destruct (a <? 0) eqn:Ea; [lia|].
  rewrite Z.min_r by lia. rewrite Z.max_r by lia. reflexivity.
Qed.

Lemma pyslice_to {A} (l : list A) b : 0 <= b <= zlen l -> pyslice None (Some b) l = zslice l 0 b.
Proof.
  intros H. unfold pyslice, norm_idx, zslice. destruct (b <? 0) eqn:Eb; [lia|].
  rewrite Z.min_r by lia. rewrite Z.max_r by lia. reflexivity.
Qed.

(** three consecutive slices concatenate to the whole *)
Lemma three_slices {A} (l : list A) a b : 0 <= a <= b -> b <= zlen l ->
  pyslice (Some 0) (Some a) l ++ pyslice (Some a) (Some b) l ++ pyslice (Some b) None l = l.
Proof.
  intros H1 H2. rewrite !pyslice_range by lia. rewrite pyslice_from by lia. unfold zslice.
  replace (Z.to_nat (a - 0)) with (Z.to_nat a) by lia. cbn [Z.to_nat skipn].
  replace (Z.to_nat (zlen l - b)) with (length l - Z.to_nat b)%nat by (unfold zlen; lia).
  assert (Hl : firstn (length l - Z.to_nat b) (skipn (Z.to_nat b) l) = skipn (Z.to_nat b) l).
  { apply firstn_all2. rewrite skipn_length. lia. }
  rewrite Hl.
  rewrite <- (firstn_skipn (Z.to_nat a) l) at 4. f_equal.
  rewrite <- (firstn_skipn (Z.to_nat (b - a)) (skipn (Z.to_nat a) l)) at 2. f_equal.
  rewrite skipn_skipn. f_equal. lia.
Qed.

Lemma zslice_zslice {A} (l : list A) a b a' b' : 0 <= a <= b -> b <= zlen l -> 0 <= a' <= b' -> b' <= b - a ->
  zslice (zslice l a b) a' b' = zslice l (a + a') (a + b').
Proof.
  intros H1 H2 H3 H4. rewrite !zslice_sub, sub_sub. f_equal; lia.
Qed.

Lemma zslice_zlen {A} (l : list A) a b : 0 <= a <= b -> b <= zlen l -> zlen (zslice l a b) = b - a.
Proof. apply zslice_length. Qed.
