(** Runner protocol, part 3: per-worker shape of the two pipes, pill accounting, fault tracking --
    with and without faults.  From these:
    - a run that finishes without failure has met no fault (C12_fail_visible),
    - a fault-free run that finishes has written the blocks of ALL chunks in input order and merged
      the statistics of all of them (C06_final),
    - a state that is not terminal always has an enabled step: no deadlock (C06_progress / C12_no_deadlock). *)
From Coq Require Import ZArith List Bool Arith Lia Permutation.
From CV Require Import Model.Runner Proofs.RunnerSafety.
Import ListNotations.

Section Live.
  Variable A O S : Type.
  Variable f : A -> O.
  Variable g : A -> S.
  Variable szero : S.
  Variable sadd : S -> S -> S.
  Variable chunks : list A.
  Variable W : nat.
  Variable bad : nat -> bool.
  Variable rfail : option nat.
  Variable ffail : bool.
  Hypothesis W_pos : 0 < W.

  Notation state := (state O S).
  Notation step := (step A O S f g sadd chunks W bad rfail ffail).
  Notation init := (init O S szero W).
  Notation run := (run A O S f g sadd chunks W bad rfail ffail).
  Notation C := (length chunks).
  Notation inv := (inv A O S f chunks).
  Notation flight := (flight O S).

  (** entries of worker w in a pipe *)
  Definition ents {M} (w : nat) (l : list (nat * M)) : list (nat * M) := filter (fun x => Nat.eqb (fst x) w) l.

  Lemma ents_app {M} w (a b : list (nat * M)) : ents w (a ++ b) = ents w a ++ ents w b.
  Proof. unfold ents. apply filter_app. Qed.

  Lemma ents_head {M} w : forall (l : list (nat * M)) m,
    head_for w l = Some m -> ents w l = (w, m) :: ents w (drop_for w l).
  Proof.
    induction l as [|[v m'] t IH]; intros m H; cbn in H; [discriminate|]. cbn [ents filter fst drop_for].
    destruct (Nat.eqb v w) eqn:E.
    - apply Nat.eqb_eq in E. subst v. inversion H; subst. reflexivity.
    - cbn [filter fst]. rewrite E. apply IH. exact H.
  Qed.

  Lemma ents_drop_other {M} v w : v <> w -> forall (l : list (nat * M)), ents v (drop_for w l) = ents v l.
  Proof.
    intros Hne. induction l as [|[u m] t IH]; [reflexivity|]. cbn [drop_for].
    destruct (Nat.eqb u w) eqn:E.
    - apply Nat.eqb_eq in E. subst u. cbn [ents filter fst]. assert (E' : Nat.eqb w v = false) by (apply Nat.eqb_neq; congruence).
      rewrite E'. reflexivity.
    - cbn [ents filter fst]. destruct (Nat.eqb u v); [f_equal|]; apply IH.
  Qed.

  Lemma head_none {M} w : forall (l : list (nat * M)), head_for w l = None <-> ents w l = [].
  Proof.
    induction l as [|[v m] t IH]; cbn [head_for ents filter fst]; [tauto|].
    destruct (Nat.eqb v w); [split; discriminate | exact IH].
  Qed.

  Lemma ents_single_other {M} v w (m : M) : v <> w -> ents v [(w, m)] = [].
  Proof. intros H. cbn. assert (E : Nat.eqb w v = false) by (apply Nat.eqb_neq; congruence). rewrite E. reflexivity. Qed.
  Lemma ents_single_same {M} w (m : M) : ents w [(w, m)] = [(w, m)].
  Proof. cbn. rewrite Nat.eqb_refl. reflexivity. Qed.

  Definition qcount (w : nat) (q : list nat) : nat := length (filter (Nat.eqb w) q).

  Lemma qcount_app w a b : qcount w (a ++ b) = qcount w a + qcount w b.
  Proof. unfold qcount. rewrite filter_app, app_length. reflexivity. Qed.

  Lemma qcount_remove_same w : forall q, mem w q = true -> qcount w q = Datatypes.S (qcount w (remove1 w q)).
  Proof.
    induction q as [|x t IH]; cbn; [discriminate|]. rewrite (Nat.eqb_sym x w).
    destruct (Nat.eqb w x) eqn:E; cbn [orb]; [intros _; cbn; reflexivity|].
    intros H. unfold qcount in *. cbn [filter]. rewrite E. apply IH. exact H.
  Qed.

  Lemma qcount_remove_other v w : v <> w -> forall q, qcount v (remove1 w q) = qcount v q.
  Proof.
    intros Hne. induction q as [|x t IH]; [reflexivity|]. cbn [remove1].
    destruct (Nat.eqb x w) eqn:E.
    - apply Nat.eqb_eq in E. subst x. unfold qcount. cbn [filter].
      assert (E' : Nat.eqb v w = false) by (apply Nat.eqb_neq; exact Hne). rewrite E'. reflexivity.
    - unfold qcount in *. cbn [filter]. destruct (Nat.eqb v x); cbn [length]; rewrite IH; reflexivity.
  Qed.

  Lemma mem_qcount w q : mem w q = true <-> 0 < qcount w q.
  Proof.
    unfold qcount. induction q as [|x t IH]; cbn; [split; [discriminate | lia]|].
    destruct (Nat.eqb w x); cbn; [split; [lia | reflexivity] | exact IH].
  Qed.


  Notation rfn := (reader_fails_now O S rfail).

  (** ---- inversion of a step: the guard of the label and the successor state *)
  Definition stp (s : state) nx rd pl qu inf ws wa res fl : state :=
    mkSt O S nx rd pl qu inf ws wa res (pending s) (cur s) (written s) (macc s) (open s) fl.

  Lemma step_inv s l s' : step s l = Some s' ->
    failed s = false /\
    match l with
    | LFmtFail => ffail = true /\
        s' = stp s (next s) (rdone s) (pills s) (queue s) (inflight s) (wstate s) (wacc s) (results s) true
    | LReq w => ffail = false /\ w < W /\ wstate s w = Idle /\
        s' = stp s (next s) (rdone s) (pills s) (queue s ++ [w]) (inflight s) (upd (wstate s) w Waiting) (wacc s) (results s) false
    | LSend w => ffail = false /\ rdone s = false /\ rfn s = false /\ next s < C /\ mem w (queue s) = true /\
        s' = stp s (Datatypes.S (next s)) (rdone s) (pills s) (remove1 w (queue s)) (inflight s ++ [(w, MChunk (next s))])
                 (wstate s) (wacc s) (results s) false
    | LPill w => ffail = false /\ rdone s = false /\ rfn s = false /\ next s = C /\ pills s < W /\ mem w (queue s) = true /\
        s' = stp s (next s) (Nat.eqb (Datatypes.S (pills s)) W) (Datatypes.S (pills s)) (remove1 w (queue s))
                 (inflight s ++ [(w, MPill)]) (wstate s) (wacc s) (results s) false
    | LRFail => ffail = false /\ rdone s = false /\ rfn s = true /\
        s' = stp s (next s) true (pills s) (queue s) (inflight s ++ map (fun v => (v, MErrIn)) (seq 0 W))
                 (wstate s) (wacc s) (results s) false
    | LTake w => ffail = false /\ wstate s w = Waiting /\ exists i, head_for w (inflight s) = Some (MChunk i) /\
        ((bad i = true /\
          s' = stp s (next s) (rdone s) (pills s) (queue s) (drop_for w (inflight s)) (upd (wstate s) w Done) (wacc s)
                   (results s ++ [(w, MErrOut)]) false) \/
         (bad i = false /\ exists c, nth_error chunks i = Some c /\
          s' = stp s (next s) (rdone s) (pills s) (queue s) (drop_for w (inflight s)) (upd (wstate s) w Idle)
                   (upd (wacc s) w (sadd (wacc s w) (g c))) (results s ++ [(w, MResult i (f c))]) false))
    | LFin w => ffail = false /\ wstate s w = Waiting /\ head_for w (inflight s) = Some MPill /\
        s' = stp s (next s) (rdone s) (pills s) (queue s) (drop_for w (inflight s)) (upd (wstate s) w Done) (wacc s)
                 (results s ++ [(w, MFin (wacc s w))]) false
    | LWErr w => ffail = false /\ wstate s w = Waiting /\ head_for w (inflight s) = Some MErrIn /\
        s' = stp s (next s) (rdone s) (pills s) (queue s) (drop_for w (inflight s)) (upd (wstate s) w Done) (wacc s)
                 (results s ++ [(w, MErrOut)]) false
    | LRecv w => ffail = false /\ mem w (open s) = true /\ exists i o, head_for w (results s) = Some (MResult i o) /\
        exists p c wr, flush (Datatypes.S (length (pending s))) ((i, o) :: pending s) (cur s) (written s) = (p, c, wr) /\
        s' = mkSt O S (next s) (rdone s) (pills s) (queue s) (inflight s) (wstate s) (wacc s) (drop_for w (results s))
                  p c wr (macc s) (open s) false
    | LRecvFin w => ffail = false /\ mem w (open s) = true /\ exists st, head_for w (results s) = Some (MFin st) /\
        s' = mkSt O S (next s) (rdone s) (pills s) (queue s) (inflight s) (wstate s) (wacc s) (drop_for w (results s))
                  (pending s) (cur s) (written s) (sadd (macc s) st) (remove1 w (open s)) false
    | LRecvErr w => ffail = false /\ mem w (open s) = true /\ head_for w (results s) = Some MErrOut /\
        s' = mkSt O S (next s) (rdone s) (pills s) (queue s) (inflight s) (wstate s) (wacc s) (drop_for w (results s))
                  (pending s) (cur s) (written s) (macc s) (open s) true
    end.
  Proof.
    intros H. unfold Runner.step in H. destruct (failed s) eqn:Ef; [discriminate|]. split; [reflexivity|].
    destruct ffail eqn:Eff.
    { destruct l; try discriminate. inversion H; subst. split; reflexivity. }
    destruct l as [w|w|w| |w|w|w|w|w|w|]; try discriminate.
    - destruct (w <? W) eqn:Ew; cbn [andb] in H; [|discriminate]. destruct (wstate s w) eqn:Ews; try discriminate.
      inversion H; subst. apply Nat.ltb_lt in Ew. repeat split; auto.
    - match type of H with (if ?c then _ else _) = _ => destruct c eqn:Ec; [|discriminate] end. inversion H; subst.
      repeat (apply andb_prop in Ec; destruct Ec as [Ec ?]). apply negb_true_iff in Ec.
      repeat match goal with Hx : negb _ = true |- _ => apply negb_true_iff in Hx end.
      match goal with Hx : (_ <? _) = true |- _ => apply Nat.ltb_lt in Hx end. repeat split; auto.
    - match type of H with (if ?c then _ else _) = _ => destruct c eqn:Ec; [|discriminate] end. inversion H; subst.
      repeat (apply andb_prop in Ec; destruct Ec as [Ec ?]). apply negb_true_iff in Ec.
      repeat match goal with Hx : negb _ = true |- _ => apply negb_true_iff in Hx end.
      match goal with Hx : (_ <? _) = true |- _ => apply Nat.ltb_lt in Hx end.
      match goal with Hx : Nat.eqb _ _ = true |- _ => apply Nat.eqb_eq in Hx end. repeat split; auto.
    - match type of H with (if ?c then _ else _) = _ => destruct c eqn:Ec; [|discriminate] end. inversion H; subst.
      apply andb_prop in Ec. destruct Ec as [Ec ?]. apply negb_true_iff in Ec. repeat split; auto.
    - destruct (wstate s w) eqn:Ews; try discriminate.
      destruct (head_for w (inflight s)) as [[i| |]|] eqn:Eh; try discriminate.
      split; [reflexivity|]. split; [reflexivity|]. exists i. split; [reflexivity|].
      destruct (bad i) eqn:Eb.
      + left. inversion H; subst. split; reflexivity.
      + right. destruct (nth_error chunks i) as [c|] eqn:En; [|discriminate]. inversion H; subst.
        split; [reflexivity|]. exists c. split; reflexivity.
    - destruct (wstate s w) eqn:Ews; try discriminate.
      destruct (head_for w (inflight s)) as [[i| |]|] eqn:Eh; try discriminate. inversion H; subst. repeat split; auto.
    - destruct (wstate s w) eqn:Ews; try discriminate.
      destruct (head_for w (inflight s)) as [[i| |]|] eqn:Eh; try discriminate. inversion H; subst. repeat split; auto.
    - destruct (mem w (open s)) eqn:Em; [|discriminate].
      destruct (head_for w (results s)) as [[i o|st|]|] eqn:Eh; try discriminate.
      destruct (flush _ _ _ _) as [[p c] wr] eqn:Efl. inversion H; subst.
      split; [reflexivity|]. split; [reflexivity|]. exists i, o. split; [reflexivity|]. exists p, c, wr. split; [exact Efl | reflexivity].
    - destruct (mem w (open s)) eqn:Em; [|discriminate].
      destruct (head_for w (results s)) as [[i o|st|]|] eqn:Eh; try discriminate. inversion H; subst.
      split; [reflexivity|]. split; [reflexivity|]. exists st. split; reflexivity.
    - destruct (mem w (open s)) eqn:Em; [|discriminate].
      destruct (head_for w (results s)) as [[i o|st|]|] eqn:Eh; try discriminate. inversion H; subst. repeat split; auto.
  Qed.

  (** ---- L0: basic facts *)
  Record binv (s : state) : Prop := mkB {
    b_in : forall x, In x (inflight s) -> fst x < W;
    b_out : forall x, In x (results s) -> fst x < W;
    b_q : forall w, In w (queue s) -> w < W;
    b_open_nd : NoDup (open s);
    b_open_lt : forall w, In w (open s) -> w < W;
    b_pills : pills s <= W;
    b_rd : rdone s = false -> pills s < W;
    b_pn : 0 < pills s -> next s = C /\ rfn s = false;
    b_rf : forall k, rfail = Some k -> next s <= k;
    b_ff : ffail = true -> open s = seq 0 W;
    b_nc : next s <= C
  }.

  Lemma in_remove1 w : forall q x, In x (remove1 w q) -> In x q.
  Proof.
    induction q as [|y t IH]; cbn; [tauto|]. intros x. destruct (Nat.eqb y w); [intros H; right; exact H|].
    intros [H|H]; [left; exact H | right; apply IH; exact H].
  Qed.

  Lemma in_drop_for {M} w : forall (l : list (nat * M)) x, In x (drop_for w l) -> In x l.
  Proof.
    induction l as [|[v m] t IH]; cbn; [tauto|]. intros x. destruct (Nat.eqb v w); [intros H; right; exact H|].
    intros [H|H]; [left; exact H | right; apply IH; exact H].
  Qed.

  Lemma NoDup_remove1 w : forall q, NoDup q -> NoDup (remove1 w q).
  Proof.
    induction q as [|y t IH]; intros H; cbn; [constructor|]. inversion H; subst.
    destruct (Nat.eqb y w); [assumption|]. constructor; [intros Hin; apply in_remove1 in Hin; contradiction | apply IH; assumption].
  Qed.

  Lemma mem_in w l : mem w l = true <-> In w l.
  Proof.
    unfold mem. rewrite existsb_exists. split.
    - intros (x & Hx & He). apply Nat.eqb_eq in He. subst. exact Hx.
    - intros H. exists w. split; [exact H | apply Nat.eqb_refl].
  Qed.

  Ltac fields := unfold stp; cbn [next rdone pills queue inflight wstate wacc results pending cur written macc open failed].

  Lemma binv_init : binv init.
  Proof.
    constructor; cbn; try (intros ? []); try lia; auto.
    all: try apply seq_NoDup.
    all: try (intros w Hw; apply in_seq in Hw; lia).
    all: try (intros; lia).
  Qed.

  Lemma rfn_next s s' : next s' = next s -> rfn s' = rfn s.
  Proof. intros H. unfold reader_fails_now. rewrite H. reflexivity. Qed.

  Lemma binv_step s l s' : binv s -> step s l = Some s' -> binv s'.
  Proof.
    intros [Hin Hout Hq Hnd Hlt Hp Hrd Hpn Hrf Hff Hnc] Hstep.
    destruct (step_inv _ _ _ Hstep) as [Hf Hc].
    destruct l as [w|w|w| |w|w|w|w|w|w|].
    - destruct Hc as (Hff' & Hw & Hws & ->). constructor; fields; auto.
      intros v Hv. apply in_app_or in Hv. destruct Hv as [Hv|[<-|[]]]; auto.
    - destruct Hc as (Hff' & Hr & Hfn & Hlt' & Hm & ->). constructor; fields; auto; try lia; try congruence.
      all: try (intros x Hx; apply in_app_or in Hx; destruct Hx as [Hx|[<-|[]]]; auto; cbn; apply Hq; apply mem_in; exact Hm).
      all: try (intros v Hv; apply Hq; eapply in_remove1; exact Hv).
      all: try (intros k Hk; pose proof (Hrf k Hk); unfold reader_fails_now in Hfn; rewrite Hk in Hfn; apply Nat.eqb_neq in Hfn; lia).
    - destruct Hc as (Hff' & Hr & Hfn & Hn & Hpl & Hm & ->). constructor; fields; auto; try lia; try congruence.
      all: try (intros x Hx; apply in_app_or in Hx; destruct Hx as [Hx|[<-|[]]]; auto; cbn; apply Hq; apply mem_in; exact Hm).
      all: try (intros v Hv; apply Hq; eapply in_remove1; exact Hv).
      all: try (intros He; apply Nat.eqb_neq in He; lia).
      all: try (intros _; split; [exact Hn|]; rewrite <- Hfn; apply rfn_next; reflexivity).
    - destruct Hc as (Hff' & Hr & Hfn & ->). constructor; fields; auto; try lia; try congruence; try discriminate.
      all: try (intros x Hx; apply in_app_or in Hx; destruct Hx as [Hx|Hx]; auto; apply in_map_iff in Hx; destruct Hx as (v & <- & Hv);
                cbn; apply in_seq in Hv; lia).
    - destruct Hc as (Hff' & Hws & i & Hh & [(Hb & ->)|(Hb & c & Hc' & ->)]); constructor; fields; auto; try congruence.
      all: try (intros x Hx; apply Hin; eapply in_drop_for; exact Hx).
      all: intros x Hx; apply in_app_or in Hx; destruct Hx as [Hx|[<-|[]]]; auto; cbn;
           destruct (head_drop w _ _ Hh) as (a & b & Hl & _); apply (Hin (w, MChunk i)); rewrite Hl; apply in_or_app; right; left; reflexivity.
    - destruct Hc as (Hff' & Hws & Hh & ->). constructor; fields; auto; try congruence.
      all: try (intros x Hx; apply Hin; eapply in_drop_for; exact Hx).
      all: intros x Hx; apply in_app_or in Hx; destruct Hx as [Hx|[<-|[]]]; auto; cbn;
        destruct (head_drop w _ _ Hh) as (a & b & Hl & _); apply (Hin (w, MPill)); rewrite Hl; apply in_or_app; right; left; reflexivity.
    - destruct Hc as (Hff' & Hws & Hh & ->). constructor; fields; auto; try congruence.
      all: try (intros x Hx; apply Hin; eapply in_drop_for; exact Hx).
      all: intros x Hx; apply in_app_or in Hx; destruct Hx as [Hx|[<-|[]]]; auto; cbn;
        destruct (head_drop w _ _ Hh) as (a & b & Hl & _); apply (Hin (w, MErrIn)); rewrite Hl; apply in_or_app; right; left; reflexivity.
    - destruct Hc as (Hff' & Hm & i & o & Hh & p & c & wr & Hfl & ->). constructor; fields; auto; try congruence.
      all: intros x Hx; apply Hout; eapply in_drop_for; exact Hx.
    - destruct Hc as (Hff' & Hm & st & Hh & ->). constructor; fields; auto; try congruence.
      all: try (intros x Hx; apply Hout; eapply in_drop_for; exact Hx).
      all: try (apply NoDup_remove1; exact Hnd).
      all: intros v Hv; apply Hlt; eapply in_remove1; exact Hv.
    - destruct Hc as (Hff' & Hm & Hh & ->). constructor; fields; auto; try congruence.
      all: intros x Hx; apply Hout; eapply in_drop_for; exact Hx.
    - destruct Hc as (Hff' & ->). constructor; fields; auto.
  Qed.

  (** ---- L1: workers and the result pipes *)
  Definition is_fin (m : msg_out O S) : bool := match m with MFin _ => true | _ => false end.
  Definition is_end (m : msg_out O S) : bool := match m with MResult _ _ => false | _ => true end.
  Definition has_fin (w : nat) (l : list (nat * msg_out O S)) : bool := existsb is_fin (map snd (ents w l)).
  Definition has_end (w : nat) (l : list (nat * msg_out O S)) : bool := existsb is_end (map snd (ents w l)).

  Record oinv (s : state) : Prop := mkOI {
    o_live : forall w, w < W -> wstate s w <> Done -> mem w (open s) = true /\ has_fin w (results s) = false;
    o_in : forall x, In x (results s) -> mem (fst x) (open s) = true;
    o_finlast : forall w a b st, ents w (results s) = a ++ (w, MFin st) :: b -> b = [];
    o_done : failed s = false -> forall w, w < W -> wstate s w = Done -> mem w (open s) = true -> has_end w (results s) = true
  }.

  Lemma ents_other_single {M} v w (m : M) (l : list (nat * M)) : v <> w -> ents v (l ++ [(w, m)]) = ents v l.
  Proof. intros H. rewrite ents_app, (ents_single_other v w m H), app_nil_r. reflexivity. Qed.

  Lemma ents_same_single {M} w (m : M) (l : list (nat * M)) : ents w (l ++ [(w, m)]) = ents w l ++ [(w, m)].
  Proof. rewrite ents_app, ents_single_same. reflexivity. Qed.

  Lemma in_ents {M} w (l : list (nat * M)) x : In x (ents w l) <-> In x l /\ fst x = w.
  Proof. unfold ents. rewrite filter_In. rewrite Nat.eqb_eq. tauto. Qed.

  Lemma mem_remove1_other v w : v <> w -> forall l, mem v (remove1 w l) = mem v l.
  Proof.
    intros Hne. induction l as [|x t IH]; [reflexivity|]. cbn [remove1]. destruct (Nat.eqb x w) eqn:E.
    - apply Nat.eqb_eq in E. subst x. unfold mem. cbn [existsb]. assert (E' : Nat.eqb v w = false) by (apply Nat.eqb_neq; exact Hne).
      rewrite E'. reflexivity.
    - unfold mem in *. cbn [existsb]. rewrite IH. reflexivity.
  Qed.

  Lemma mem_remove1_same w : forall l, NoDup l -> mem w (remove1 w l) = false.
  Proof.
    induction l as [|x t IH]; intros Hnd; [reflexivity|]. inversion Hnd; subst. cbn [remove1]. destruct (Nat.eqb x w) eqn:E.
    - apply Nat.eqb_eq in E. subst x. destruct (mem w t) eqn:Em; [|reflexivity]. apply mem_in in Em. contradiction.
    - unfold mem in *. cbn [existsb]. rewrite (Nat.eqb_sym w x), E. cbn. apply IH. assumption.
  Qed.

  Lemma app_single_split {T} (l a b : list T) x y : l ++ [x] = a ++ y :: b -> b = [] \/ In y l.
  Proof.
    intros H. destruct b as [|z b'] using rev_ind; [left; reflexivity|]. right. clear IHb'.
    replace (a ++ y :: b' ++ [z]) with ((a ++ y :: b') ++ [z]) in H by (rewrite <- app_assoc; reflexivity).
    apply app_inj_tail in H. destruct H as [H _]. subst l. apply in_or_app. right. left. reflexivity.
  Qed.

  Lemma has_fin_in w l : has_fin w l = true <-> exists st, In (w, MFin st) (ents w l).
  Proof.
    unfold has_fin. rewrite existsb_exists. split.
    - intros (m & Hm & Hf). apply in_map_iff in Hm. destruct Hm as ([v m'] & Hs & Hin). cbn in Hs. subst m'.
      destruct m as [| st |]; try discriminate. exists st. pose proof (proj1 (in_ents w l (v, MFin st)) Hin) as [_ Hv]. cbn in Hv. subst v. exact Hin.
    - intros (st & Hin). exists (MFin st). split; [|reflexivity]. apply in_map_iff. exists (w, MFin st). split; [reflexivity | exact Hin].
  Qed.

  Lemma has_fin_head w l st : head_for w l = Some (MFin st) -> has_fin w l = true.
  Proof. intros H. apply has_fin_in. exists st. rewrite (ents_head w l _ H). left. reflexivity. Qed.

  Lemma oinv_init : oinv init.
  Proof.
    constructor; cbn [init next rdone pills queue inflight wstate wacc results pending cur written macc open failed].
    - intros w Hw _. split; [|reflexivity]. apply mem_in. apply in_seq. lia.
    - intros x [].
    - intros w a b st H. destruct a; discriminate.
    - intros _ w Hw H. discriminate.
  Qed.

  Lemma oinv_step s l s' : binv s -> oinv s -> step s l = Some s' -> oinv s'.
  Proof.
    intros HB [Hlive Hino Hfl Hdone] Hstep.
    destruct (step_inv _ _ _ Hstep) as [Hf Hc].
    destruct l as [w|w|w| |w|w|w|w|w|w|].
    - (* LReq *) destruct Hc as (_ & Hw & Hws & ->). constructor; fields; auto.
      + intros v Hv Hnd. unfold upd in Hnd. destruct (Nat.eqb v w) eqn:E.
        * apply Nat.eqb_eq in E. subst v. apply Hlive; [exact Hw | congruence].
        * apply Hlive; assumption.
      + intros _ v Hv Hd. unfold upd in Hd. destruct (Nat.eqb v w); [discriminate|]. apply Hdone; assumption.
    - destruct Hc as (_ & _ & _ & _ & _ & ->). constructor; fields; auto.
    - destruct Hc as (_ & _ & _ & _ & _ & _ & ->). constructor; fields; auto.
    - destruct Hc as (_ & _ & _ & ->). constructor; fields; auto.
    - (* LTake *)
      destruct Hc as (_ & Hws & i & Hh & Hcase).
      assert (Hw : w < W).
      { destruct (head_drop w _ _ Hh) as (a & b & Hl & _). apply (b_in _ HB (w, MChunk i)). rewrite Hl. apply in_or_app. right. left. reflexivity. }
      destruct (Hlive w Hw ltac:(congruence)) as [Hmo Hnf].
      assert (Hgen : forall m st' wa', is_fin m = false ->
                oinv (stp s (next s) (rdone s) (pills s) (queue s) (drop_for w (inflight s)) (upd (wstate s) w st') wa' (results s ++ [(w, m)]) false) \/ True) by (intros; right; exact I).
      clear Hgen.
      assert (Hcommon : forall m st' wa', is_fin m = false -> (st' = Done -> is_end m = true) ->
                oinv (stp s (next s) (rdone s) (pills s) (queue s) (drop_for w (inflight s)) (upd (wstate s) w st') wa' (results s ++ [(w, m)]) false)).
      { intros m st' wa' Hnfm Hend. constructor; fields.
        - intros v Hv Hnd. unfold upd in Hnd. destruct (Nat.eqb v w) eqn:E.
          + apply Nat.eqb_eq in E. subst v. split; [exact Hmo|]. unfold has_fin. rewrite ents_same_single, map_app, existsb_app. cbn.
            unfold has_fin in Hnf. rewrite Hnf, Hnfm. reflexivity.
          + apply Nat.eqb_neq in E. unfold has_fin. rewrite (ents_other_single v w m _ E). apply Hlive; assumption.
        - intros x Hx. apply in_app_or in Hx. destruct Hx as [Hx|[<-|[]]]; [apply Hino; exact Hx | exact Hmo].
        - intros v a b st Hv. destruct (Nat.eq_dec v w) as [->|Hne].
          + rewrite ents_same_single in Hv. destruct (app_single_split _ _ _ _ _ Hv) as [Hb|Hin]; [exact Hb|].
            exfalso. assert (Ht : has_fin w (results s) = true) by (apply has_fin_in; exists st; exact Hin). congruence.
          + rewrite (ents_other_single v w m _ Hne) in Hv. eapply Hfl. exact Hv.
        - intros _ v Hv Hd Hm. unfold upd in Hd. destruct (Nat.eqb v w) eqn:E.
          + apply Nat.eqb_eq in E. subst v. unfold has_end. rewrite ents_same_single, map_app, existsb_app. cbn. rewrite (Hend Hd). apply orb_true_r.
          + apply Nat.eqb_neq in E. unfold has_end. rewrite (ents_other_single v w m _ E). apply Hdone; assumption. }
      destruct Hcase as [(Hb & ->)|(Hb & c & Hc' & ->)]; apply Hcommon; auto; discriminate.
    - (* LFin *)
      destruct Hc as (_ & Hws & Hh & ->).
      assert (Hw : w < W).
      { destruct (head_drop w _ _ Hh) as (a & b & Hl & _). apply (b_in _ HB (w, MPill)). rewrite Hl. apply in_or_app. right. left. reflexivity. }
      destruct (Hlive w Hw ltac:(congruence)) as [Hmo Hnf].
      constructor; fields.
      + intros v Hv Hnd. unfold upd in Hnd. destruct (Nat.eqb v w) eqn:E; [congruence|].
        apply Nat.eqb_neq in E. unfold has_fin. rewrite (ents_other_single v w _ _ E). apply Hlive; assumption.
      + intros x Hx. apply in_app_or in Hx. destruct Hx as [Hx|[<-|[]]]; [apply Hino; exact Hx | exact Hmo].
      + intros v a b st Hv. destruct (Nat.eq_dec v w) as [->|Hne].
        * rewrite ents_same_single in Hv. destruct (app_single_split _ _ _ _ _ Hv) as [Hb|Hin]; [exact Hb|].
          exfalso. assert (Ht : has_fin w (results s) = true) by (apply has_fin_in; exists st; exact Hin). congruence.
        * rewrite (ents_other_single v w _ _ Hne) in Hv. eapply Hfl. exact Hv.
      + intros _ v Hv Hd Hm. unfold upd in Hd. destruct (Nat.eqb v w) eqn:E.
        * apply Nat.eqb_eq in E. subst v. unfold has_end. rewrite ents_same_single, map_app, existsb_app. cbn. apply orb_true_r.
        * apply Nat.eqb_neq in E. unfold has_end. rewrite (ents_other_single v w _ _ E). apply Hdone; assumption.
    - (* LWErr *)
      destruct Hc as (_ & Hws & Hh & ->).
      assert (Hw : w < W).
      { destruct (head_drop w _ _ Hh) as (a & b & Hl & _). apply (b_in _ HB (w, MErrIn)). rewrite Hl. apply in_or_app. right. left. reflexivity. }
      destruct (Hlive w Hw ltac:(congruence)) as [Hmo Hnf].
      constructor; fields.
      + intros v Hv Hnd. unfold upd in Hnd. destruct (Nat.eqb v w) eqn:E; [congruence|].
        apply Nat.eqb_neq in E. unfold has_fin. rewrite (ents_other_single v w _ _ E). apply Hlive; assumption.
      + intros x Hx. apply in_app_or in Hx. destruct Hx as [Hx|[<-|[]]]; [apply Hino; exact Hx | exact Hmo].
      + intros v a b st Hv. destruct (Nat.eq_dec v w) as [->|Hne].
        * rewrite ents_same_single in Hv. destruct (app_single_split _ _ _ _ _ Hv) as [Hb|Hin]; [exact Hb|].
          exfalso. assert (Ht : has_fin w (results s) = true) by (apply has_fin_in; exists st; exact Hin). congruence.
        * rewrite (ents_other_single v w _ _ Hne) in Hv. eapply Hfl. exact Hv.
      + intros _ v Hv Hd Hm. unfold upd in Hd. destruct (Nat.eqb v w) eqn:E.
        * apply Nat.eqb_eq in E. subst v. unfold has_end. rewrite ents_same_single, map_app, existsb_app. cbn. apply orb_true_r.
        * apply Nat.eqb_neq in E. unfold has_end. rewrite (ents_other_single v w _ _ E). apply Hdone; assumption.
    - (* LRecv *)
      destruct Hc as (_ & Hm & i & o & Hh & p & c & wr & Hfl' & ->).
      pose proof (ents_head w _ _ Hh) as He.
      constructor; fields.
      + intros v Hv Hnd. destruct (Hlive v Hv Hnd) as [H1 H2]. split; [exact H1|].
        destruct (Nat.eq_dec v w) as [->|Hne].
        * unfold has_fin in *. rewrite He in H2. cbn in H2. exact H2.
        * unfold has_fin in *. rewrite (ents_drop_other v w Hne). exact H2.
      + intros x Hx. apply Hino. eapply in_drop_for. exact Hx.
      + intros v a b st Hv. destruct (Nat.eq_dec v w) as [->|Hne].
        * apply (Hfl w ((w, MResult i o) :: a) b st). rewrite He, Hv. reflexivity.
        * rewrite (ents_drop_other v w Hne) in Hv. eapply Hfl. exact Hv.
      + intros _ v Hv Hd Hmo. specialize (Hdone Hf v Hv Hd Hmo). destruct (Nat.eq_dec v w) as [->|Hne].
        * unfold has_end in *. rewrite He in Hdone. cbn in Hdone. exact Hdone.
        * unfold has_end in *. rewrite (ents_drop_other v w Hne). exact Hdone.
    - (* LRecvFin *)
      destruct Hc as (_ & Hm & st & Hh & ->).
      pose proof (ents_head w _ _ Hh) as He.
      assert (Htail : ents w (drop_for w (results s)) = []) by (apply (Hfl w [] _ st); exact He).
      assert (Hwd : forall v, v < W -> wstate s v <> Done -> v <> w).
      { intros v Hv Hnd ->. destruct (Hlive w Hv Hnd) as [_ H2]. rewrite (has_fin_head _ _ _ Hh) in H2. discriminate. }
      constructor; fields.
      + intros v Hv Hnd. pose proof (Hwd v Hv Hnd) as Hne. destruct (Hlive v Hv Hnd) as [H1 H2].
        split; [rewrite (mem_remove1_other v w Hne); exact H1|]. unfold has_fin in *. rewrite (ents_drop_other v w Hne). exact H2.
      + intros x Hx. destruct (Nat.eq_dec (fst x) w) as [Hxw|Hne].
        * exfalso. assert (Hin : In x (ents w (drop_for w (results s)))) by (apply in_ents; split; assumption). rewrite Htail in Hin. exact Hin.
        * rewrite (mem_remove1_other _ w Hne). apply Hino. eapply in_drop_for. exact Hx.
      + intros v a b st' Hv. destruct (Nat.eq_dec v w) as [->|Hne].
        * rewrite Htail in Hv. destruct a; discriminate.
        * rewrite (ents_drop_other v w Hne) in Hv. eapply Hfl. exact Hv.
      + intros _ v Hv Hd Hmo. destruct (Nat.eq_dec v w) as [->|Hne].
        * rewrite (mem_remove1_same w _ (b_open_nd _ HB)) in Hmo. discriminate.
        * rewrite (mem_remove1_other v w Hne) in Hmo. specialize (Hdone Hf v Hv Hd Hmo).
          unfold has_end in *. rewrite (ents_drop_other v w Hne). exact Hdone.
    - (* LRecvErr *)
      destruct Hc as (_ & Hm & Hh & ->).
      pose proof (ents_head w _ _ Hh) as He.
      constructor; fields.
      + intros v Hv Hnd. destruct (Hlive v Hv Hnd) as [H1 H2]. split; [exact H1|].
        destruct (Nat.eq_dec v w) as [->|Hne].
        * unfold has_fin in *. rewrite He in H2. cbn in H2. exact H2.
        * unfold has_fin in *. rewrite (ents_drop_other v w Hne). exact H2.
      + intros x Hx. apply Hino. eapply in_drop_for. exact Hx.
      + intros v a b st Hv. destruct (Nat.eq_dec v w) as [->|Hne].
        * apply (Hfl w ((w, MErrOut) :: a) b st). rewrite He, Hv. reflexivity.
        * rewrite (ents_drop_other v w Hne) in Hv. eapply Hfl. exact Hv.
      + discriminate.
    - (* LFmtFail *)
      destruct Hc as (_ & ->). constructor; fields; auto; try discriminate.
  Qed.

  (** ---- L2: shape of the reader->worker pipes *)
  Definition rfailed (s : state) : bool := rdone s && (pills s <? W).
  Definition non_err (m : msg_in) : bool := match m with MErrIn => false | _ => true end.

  Definition in_shape (s : state) (w : nat) : Prop :=
    exists base errs, ents w (inflight s) = base ++ errs /\
      (rfailed s = false -> errs = []) /\
      (rfailed s = true -> errs = [(w, MErrIn)] \/ (errs = [] /\ wstate s w = Done)) /\
      match wstate s w with
      | Waiting => (qcount w (queue s) = 1 /\ base = []) \/
                   (qcount w (queue s) = 0 /\ exists m, base = [(w, m)] /\ non_err m = true)
      | Idle => qcount w (queue s) = 0 /\ base = []
      | Done => base = [] /\ (rfailed s = false -> qcount w (queue s) = 0)
      end.
  Definition pinv (s : state) : Prop := forall w, w < W -> in_shape s w.

  Lemma qcount_single_same w : qcount w [w] = 1.
  Proof. unfold qcount. cbn. rewrite Nat.eqb_refl. reflexivity. Qed.
  Lemma qcount_single_other v w : v <> w -> qcount v [w] = 0.
  Proof. intros H. unfold qcount. cbn. assert (E : Nat.eqb v w = false) by (apply Nat.eqb_neq; exact H). rewrite E. reflexivity. Qed.

  Lemma ents_broadcast w : w < W -> ents w (map (fun v => (v, MErrIn)) (seq 0 W)) = [(w, MErrIn)].
  Proof.
    intros Hw. assert (H : forall n a, a <= w < a + n -> ents w (map (fun v => (v, MErrIn)) (seq a n)) = [(w, MErrIn)]).
    { induction n as [|n IH]; intros a Ha; [lia|]. cbn [seq map ents filter fst]. destruct (Nat.eqb a w) eqn:E.
      - apply Nat.eqb_eq in E. subst a. f_equal.
        assert (Hn : forall n b, w < b -> filter (fun x : nat * msg_in => Nat.eqb (fst x) w) (map (fun v => (v, MErrIn)) (seq b n)) = []).
        { induction n0 as [|n0 IH0]; intros b Hb; [reflexivity|]. cbn [seq map filter fst].
          assert (E' : Nat.eqb b w = false) by (apply Nat.eqb_neq; lia). rewrite E'. apply IH0. lia. }
        apply Hn. lia.
      - apply Nat.eqb_neq in E. apply IH. lia. }
    apply H. lia.
  Qed.

  Lemma pinv_init : pinv init.
  Proof.
    intros w Hw. exists [], []. cbn. repeat split; auto. unfold rfailed; cbn. intros H. discriminate.
  Qed.

  Lemma shape_nonerr s w m : in_shape s w -> In (w, m) (inflight s) -> non_err m = true ->
    wstate s w = Waiting /\ qcount w (queue s) = 0 /\ exists errs, ents w (inflight s) = (w, m) :: errs /\ (forall x, In x errs -> snd x = MErrIn).
  Proof.
    intros (base & errs & He & Hf & Ht & Hs) Hin Hne.
    assert (Hin' : In (w, m) (base ++ errs)) by (rewrite <- He; apply in_ents; split; [exact Hin | reflexivity]).
    assert (Herrs : forall x, In x errs -> snd x = MErrIn).
    { destruct (rfailed s); [destruct (Ht eq_refl) as [->|[-> _]] | rewrite (Hf eq_refl)]; intros x Hx; try destruct Hx as [<-|[]]; try reflexivity; contradiction. }
    apply in_app_or in Hin'. destruct Hin' as [Hb|Hb]; [|apply Herrs in Hb; cbn in Hb; subst m; discriminate].
    destruct (wstate s w).
    - destruct Hs as [_ ->]. contradiction.
    - destruct Hs as [[_ ->]|(Hq & m' & -> & Hm')]; [contradiction|]. destruct Hb as [Hb|[]]. inversion Hb; subst m'.
      split; [reflexivity|]. split; [exact Hq|]. exists errs. split; [rewrite He; reflexivity | exact Herrs].
    - destruct Hs as [-> _]. contradiction.
  Qed.

  Lemma shape_queued s w : in_shape s w -> mem w (queue s) = true -> rdone s = false ->
    wstate s w = Waiting /\ qcount w (queue s) = 1 /\ ents w (inflight s) = [].
  Proof.
    intros (base & errs & He & Hf & Ht & Hs) Hm Hr. apply mem_qcount in Hm.
    assert (Hrf : rfailed s = false) by (unfold rfailed; rewrite Hr; reflexivity).
    rewrite (Hf Hrf), app_nil_r in He. destruct (wstate s w).
    - destruct Hs as [Hq _]. lia.
    - destruct Hs as [[Hq ->]|(Hq & _)]; [|lia]. repeat split; auto.
    - destruct Hs as [_ Hq]. specialize (Hq Hrf). lia.
  Qed.

  Lemma pinv_step s l s' : binv s -> pinv s -> step s l = Some s' -> pinv s'.
  Proof.
    intros HB HP Hstep v Hv. pose proof (HP v Hv) as Hsv.
    destruct (step_inv _ _ _ Hstep) as [Hf Hc].
    destruct l as [w|w|w| |w|w|w|w|w|w|].
    - (* LReq *) destruct Hc as (_ & Hw & Hws & ->). destruct Hsv as (base & errs & He & Hfa & Htr & Hs).
      exists base, errs. unfold in_shape, rfailed in *; fields. repeat split; auto.
      + intros H. destruct (Htr H) as [H1|[H1 H2]]; [left; exact H1|]. right. split; [exact H1|]. unfold upd. destruct (Nat.eqb v w) eqn:E; [|exact H2].
        apply Nat.eqb_eq in E. subst v. congruence.
      + unfold upd. destruct (Nat.eqb v w) eqn:E.
        * apply Nat.eqb_eq in E. subst v. rewrite Hws in Hs. destruct Hs as [Hq ->]. left. rewrite qcount_app, qcount_single_same. split; [lia | reflexivity].
        * apply Nat.eqb_neq in E. rewrite qcount_app, (qcount_single_other v w E), Nat.add_0_r. exact Hs.
    - (* LSend *) destruct Hc as (_ & Hr & Hfn & Hlt & Hm & ->).
      assert (Hrf : rfailed s = false) by (unfold rfailed; rewrite Hr; reflexivity).
      destruct (Nat.eq_dec v w) as [->|Hne].
      + destruct (shape_queued s w Hsv Hm Hr) as (Hws & Hq & He).
        exists [(w, MChunk (next s))], []. unfold in_shape, rfailed in *; fields. rewrite Hr. cbn [andb].
        rewrite ents_same_single, He. repeat split; auto; try discriminate. rewrite Hws. right.
        pose proof (qcount_remove_same w _ Hm). split; [lia|]. exists (MChunk (next s)). split; reflexivity.
      + destruct Hsv as (base & errs & He & Hfa & Htr & Hs). exists base, errs. unfold in_shape, rfailed in *; fields.
        rewrite (ents_other_single v w _ _ Hne), (qcount_remove_other v w Hne). repeat split; auto.
    - (* LPill *) destruct Hc as (_ & Hr & Hfn & Hn & Hpl & Hm & ->).
      assert (Hrf : rfailed s = false) by (unfold rfailed; rewrite Hr; reflexivity).
      assert (Hrf' : Nat.eqb (Datatypes.S (pills s)) W && (Datatypes.S (pills s) <? W) = false).
      { destruct (Nat.eqb (Datatypes.S (pills s)) W) eqn:E; [|reflexivity]. apply Nat.eqb_eq in E. cbn [andb]. apply Nat.ltb_ge. lia. }
      destruct (Nat.eq_dec v w) as [->|Hne].
      + destruct (shape_queued s w Hsv Hm Hr) as (Hws & Hq & He).
        exists [(w, MPill)], []. unfold in_shape, rfailed in *; fields. rewrite Hrf'.
        rewrite ents_same_single, He. repeat split; auto; try discriminate. rewrite Hws. right.
        pose proof (qcount_remove_same w _ Hm). split; [lia|]. exists MPill. split; reflexivity.
      + destruct Hsv as (base & errs & He & Hfa & Htr & Hs). exists base, errs. unfold in_shape, rfailed in *; fields. rewrite Hrf'.
        rewrite (ents_other_single v w _ _ Hne), (qcount_remove_other v w Hne). rewrite Hr in *. cbn [andb] in *.
        repeat split; auto; try discriminate.
    - (* LRFail *) destruct Hc as (_ & Hr & Hfn & ->).
      assert (Hrf : rfailed s = false) by (unfold rfailed; rewrite Hr; reflexivity).
      destruct Hsv as (base & errs & He & Hfa & Htr & Hs). rewrite (Hfa Hrf), app_nil_r in He.
      assert (Hp : pills s <? W = true) by (apply Nat.ltb_lt; apply (b_rd _ HB Hr)).
      exists base, [(v, MErrIn)]. unfold in_shape, rfailed in *; fields. rewrite Hp. cbn [andb].
      rewrite ents_app, (ents_broadcast v Hv), He. repeat split; auto; try discriminate.
      destruct (wstate s v); auto. destruct Hs as [Hb Hq]. split; [exact Hb | discriminate].
    - (* LTake *) destruct Hc as (_ & Hws & i & Hh & Hcase).
      assert (Hgoal : forall st' wa' res', st' <> Waiting ->
                in_shape (stp s (next s) (rdone s) (pills s) (queue s) (drop_for w (inflight s)) (upd (wstate s) w st') wa' res' false) v).
      { intros st' wa' res' Hst'. destruct (Nat.eq_dec v w) as [->|Hne].
        - assert (Hinw : In (w, MChunk i) (inflight s)).
          { destruct (head_drop w _ _ Hh) as (a & b & Hl & _). rewrite Hl. apply in_or_app. right. left. reflexivity. }
          destruct (shape_nonerr s w _ Hsv Hinw eq_refl) as (_ & Hq & errs & He & Herrs).
          destruct Hsv as (base0 & errs0 & He0 & Hfa & Htr & Hs). rewrite Hws in Hs.
          assert (Hb0 : base0 = [(w, MChunk i)] /\ errs0 = errs).
          { destruct Hs as [[Hq1 _]|(_ & m & -> & _)]; [lia|]. rewrite He in He0. cbn in He0. inversion He0; subst. split; reflexivity. }
          destruct Hb0 as [-> ->].
          exists [], errs. unfold in_shape, rfailed in *; fields.
          rewrite (ents_head w _ _ Hh) in He. injection He as He'. unfold upd. rewrite Nat.eqb_refl. rewrite He'.
          repeat split; auto.
          all: try (intros H; destruct (Htr H) as [H1|[_ H2]]; [left; exact H1 | congruence]).
          all: try (destruct st'; try contradiction; repeat split; auto).
        - destruct Hsv as (base & errs & He & Hfa & Htr & Hs). exists base, errs. unfold in_shape, rfailed in *; fields.
          rewrite (ents_drop_other v w Hne). unfold upd. assert (E : Nat.eqb v w = false) by (apply Nat.eqb_neq; exact Hne). rewrite E.
          repeat split; auto. }
      destruct Hcase as [(Hb & ->)|(Hb & c & Hc' & ->)]; apply Hgoal; discriminate.
    - (* LFin *) destruct Hc as (_ & Hws & Hh & ->).
      destruct (Nat.eq_dec v w) as [->|Hne].
      + assert (Hinw : In (w, MPill) (inflight s)).
        { destruct (head_drop w _ _ Hh) as (a & b & Hl & _). rewrite Hl. apply in_or_app. right. left. reflexivity. }
        destruct (shape_nonerr s w _ Hsv Hinw eq_refl) as (_ & Hq & errs & He & Herrs).
        destruct Hsv as (base0 & errs0 & He0 & Hfa & Htr & Hs). rewrite Hws in Hs.
        assert (Hb0 : base0 = [(w, MPill)] /\ errs0 = errs).
        { destruct Hs as [[Hq1 _]|(_ & m & -> & _)]; [lia|]. rewrite He in He0. cbn in He0. inversion He0; subst. split; reflexivity. }
        destruct Hb0 as [-> ->].
        exists [], errs. unfold in_shape, rfailed in *; fields.
        rewrite (ents_head w _ _ Hh) in He. injection He as He'. unfold upd. rewrite Nat.eqb_refl. rewrite He'.
        repeat split; auto.
        all: intros H; destruct (Htr H) as [H1|[_ H2]]; [left; exact H1 | congruence].
      + destruct Hsv as (base & errs & He & Hfa & Htr & Hs). exists base, errs. unfold in_shape, rfailed in *; fields.
        rewrite (ents_drop_other v w Hne). unfold upd. assert (E : Nat.eqb v w = false) by (apply Nat.eqb_neq; exact Hne). rewrite E.
        repeat split; auto.
    - (* LWErr *) destruct Hc as (_ & Hws & Hh & ->).
      destruct (Nat.eq_dec v w) as [->|Hne].
      + destruct Hsv as (base & errs & He & Hfa & Htr & Hs). rewrite Hws in Hs.
        pose proof (ents_head w _ _ Hh) as Heh.
        assert (Hb : base = [] /\ errs = [(w, MErrIn)]).
        { destruct Hs as [[_ ->]|(_ & m & -> & Hm)].
          - cbn in He. split; [reflexivity|]. destruct (rfailed s) eqn:Erf.
            + destruct (Htr eq_refl) as [->|[_ H2]]; [reflexivity | congruence].
            + rewrite (Hfa eq_refl) in He. rewrite Heh in He. discriminate.
          - rewrite Heh in He. cbn in He. inversion He; subst. discriminate. }
        destruct Hb as [-> ->]. cbn in He.
        assert (Hrf : rfailed s = true) by (destruct (rfailed s); [reflexivity | specialize (Hfa eq_refl); discriminate]).
        exists [], []. unfold in_shape, rfailed in *; fields. rewrite Heh in He. injection He as He'. rewrite He'.
        unfold upd. rewrite Nat.eqb_refl. repeat split; auto; try congruence.
        all: try (intros _; right; split; reflexivity).
      + destruct Hsv as (base & errs & He & Hfa & Htr & Hs). exists base, errs. unfold in_shape, rfailed in *; fields.
        rewrite (ents_drop_other v w Hne). unfold upd. assert (E : Nat.eqb v w = false) by (apply Nat.eqb_neq; exact Hne). rewrite E.
        repeat split; auto.
    - destruct Hc as (_ & Hm & i & o & Hh & p & c & wr & Hfl' & ->). exact Hsv.
    - destruct Hc as (_ & Hm & st & Hh & ->). exact Hsv.
    - destruct Hc as (_ & Hm & Hh & ->). exact Hsv.
    - destruct Hc as (_ & ->). exact Hsv.
  Qed.

  (** ---- L3: every pill goes to a different worker: pills = number of workers that hold a pill in
      their pipe or have finished regularly *)
  Definition is_pill (m : msg_in) : bool := match m with MPill => true | _ => false end.
  Definition has_pill (w : nat) (l : list (nat * msg_in)) : bool := existsb is_pill (map snd (ents w l)).
  Definition finished (s : state) (w : nat) : bool := negb (mem w (open s)) || has_fin w (results s).
  Definition pilled (s : state) (w : nat) : bool := has_pill w (inflight s) || finished s w.
  Definition kinv (s : state) : Prop := pills s = length (filter (pilled s) (seq 0 W)).

  Lemma filter_flip (p p' : nat -> bool) w : forall l, NoDup l -> In w l -> p w = false -> p' w = true ->
    (forall v, v <> w -> p' v = p v) -> length (filter p' l) = Datatypes.S (length (filter p l)).
  Proof.
    induction l as [|x t IH]; intros Hnd Hin Hp Hp' Hext; [contradiction|]. inversion Hnd; subst. cbn [filter].
    destruct (Nat.eq_dec x w) as [->|Hne].
    - rewrite Hp, Hp'. cbn [length]. f_equal. f_equal. apply filter_ext_in. intros v Hv. apply Hext. intros ->. contradiction.
    - destruct Hin as [Hin|Hin]; [contradiction|]. rewrite (Hext x Hne). destruct (p x); cbn [length]; rewrite (IH H2 Hin Hp Hp' Hext); reflexivity.
  Qed.

  Lemma kinv_same s s' : pills s' = pills s -> (forall v, v < W -> pilled s' v = pilled s v) -> kinv s -> kinv s'.
  Proof.
    intros Hp Hext Hk. unfold kinv in *. rewrite Hp, Hk. f_equal. apply filter_ext_in. intros v Hv. apply in_seq in Hv. symmetry. apply Hext. lia.
  Qed.

  Lemma has_pill_other v w m l : v <> w -> has_pill v (l ++ [(w, m)]) = has_pill v l.
  Proof. intros H. unfold has_pill. rewrite (ents_other_single v w m l H). reflexivity. Qed.
  Lemma has_pill_same w m l : has_pill w (l ++ [(w, m)]) = has_pill w l || is_pill m.
  Proof. unfold has_pill. rewrite ents_same_single, map_app, existsb_app. cbn. rewrite orb_false_r. reflexivity. Qed.
  Lemma has_fin_other v w m l : v <> w -> has_fin v (l ++ [(w, m)]) = has_fin v l.
  Proof. intros H. unfold has_fin. rewrite (ents_other_single v w m l H). reflexivity. Qed.
  Lemma has_fin_same w m l : has_fin w (l ++ [(w, m)]) = has_fin w l || is_fin m.
  Proof. unfold has_fin. rewrite ents_same_single, map_app, existsb_app. cbn. rewrite orb_false_r. reflexivity. Qed.
  Lemma has_fin_drop_other v w l : v <> w -> has_fin v (drop_for w l) = has_fin v l.
  Proof. intros H. unfold has_fin. rewrite (ents_drop_other v w H). reflexivity. Qed.
  Lemma has_pill_drop_other v w l : v <> w -> has_pill v (drop_for w l) = has_pill v l.
  Proof. intros H. unfold has_pill. rewrite (ents_drop_other v w H). reflexivity. Qed.
  Lemma has_fin_drop_same w l m : head_for w l = Some m -> has_fin w l = is_fin m || has_fin w (drop_for w l).
  Proof. intros H. unfold has_fin. rewrite (ents_head w l m H). reflexivity. Qed.
  Lemma has_pill_broadcast v l : has_pill v (l ++ map (fun u => (u, MErrIn)) (seq 0 W)) = has_pill v l.
  Proof.
    unfold has_pill. rewrite ents_app, map_app, existsb_app.
    assert (H : existsb is_pill (map snd (ents v (map (fun u => (u, MErrIn)) (seq 0 W)))) = false).
    { generalize (seq 0 W). induction l0 as [|x t IH]; [reflexivity|]. cbn [map ents filter fst]. destruct (Nat.eqb x v); cbn; exact IH. }
    rewrite H. apply orb_false_r.
  Qed.

  Lemma shape_errs_nopill (errs : list (nat * msg_in)) : (forall x, In x errs -> snd x = MErrIn) -> existsb is_pill (map snd errs) = false.
  Proof.
    intros H. induction errs as [|x t IH]; [reflexivity|]. cbn. rewrite (H x (or_introl eq_refl)). cbn. apply IH. intros y Hy. apply H. right. exact Hy.
  Qed.

  Lemma kinv_init : kinv init.
  Proof.
    unfold kinv. cbn [init pills]. symmetry. apply length_zero_iff_nil.
    assert (H : forall l, (forall w, In w l -> w < W) -> filter (pilled init) l = []).
    { induction l as [|x t IH]; intros Hl; [reflexivity|]. cbn [filter].
      assert (Hm : mem x (seq 0 W) = true) by (apply mem_in; apply in_seq; specialize (Hl x (or_introl eq_refl)); lia).
      assert (Hp : pilled init x = false).
      { unfold pilled, finished. cbn [init inflight open results]. rewrite Hm. reflexivity. }
      rewrite Hp. apply IH. intros w Hw. apply Hl. right. exact Hw. }
    apply H. intros w Hw. apply in_seq in Hw. lia.
  Qed.

  Lemma kinv_step s l s' : binv s -> oinv s -> pinv s -> kinv s -> step s l = Some s' -> kinv s'.
  Proof.
    intros HB HO HP HK Hstep.
    destruct (step_inv _ _ _ Hstep) as [Hf Hc].
    destruct l as [w|w|w| |w|w|w|w|w|w|].
    - destruct Hc as (_ & Hw & Hws & ->). apply (kinv_same s); auto.
    - (* LSend *) destruct Hc as (_ & Hr & Hfn & Hlt & Hm & ->). apply (kinv_same s); auto. intros v Hv. unfold pilled, finished; fields.
      destruct (Nat.eq_dec v w) as [->|Hne]; [rewrite has_pill_same; cbn; rewrite orb_false_r | rewrite (has_pill_other v w _ _ Hne)]; reflexivity.
    - (* LPill *) destruct Hc as (_ & Hr & Hfn & Hn & Hpl & Hm & ->).
      assert (Hw : w < W) by (apply (b_q _ HB); apply mem_in; exact Hm).
      destruct (shape_queued s w (HP w Hw) Hm Hr) as (Hws & Hq & He).
      destruct (o_live _ HO w Hw ltac:(congruence)) as [Hmo Hnf].
      unfold kinv in *; fields. rewrite HK. symmetry. apply (filter_flip _ _ w).
      + apply seq_NoDup.
      + apply in_seq. lia.
      + unfold pilled, finished, has_pill. rewrite He, Hmo, Hnf. reflexivity.
      + unfold pilled; fields. rewrite has_pill_same. cbn. rewrite orb_true_r. reflexivity.
      + intros v Hne. unfold pilled, finished; fields. rewrite (has_pill_other v w _ _ Hne). reflexivity.
    - (* LRFail *) destruct Hc as (_ & Hr & Hfn & ->). apply (kinv_same s); auto. intros v Hv. unfold pilled, finished; fields.
      rewrite has_pill_broadcast. reflexivity.
    - (* LTake *) destruct Hc as (_ & Hws & i & Hh & Hcase).
      assert (Hinw : In (w, MChunk i) (inflight s)).
      { destruct (head_drop w _ _ Hh) as (a & b & Hl & _). rewrite Hl. apply in_or_app. right. left. reflexivity. }
      assert (Hw : w < W) by (apply (b_in _ HB _ Hinw)).
      destruct (shape_nonerr s w _ (HP w Hw) Hinw eq_refl) as (_ & Hq & errs & He & Herrs).
      destruct (o_live _ HO w Hw ltac:(congruence)) as [Hmo Hnf].
      assert (Hgoal : forall st' wa' m, is_fin m = false ->
                kinv (stp s (next s) (rdone s) (pills s) (queue s) (drop_for w (inflight s)) st' wa' (results s ++ [(w, m)]) false)).
      { intros st' wa' m Hm. apply (kinv_same s); auto. intros v Hv. unfold pilled, finished; fields.
        destruct (Nat.eq_dec v w) as [->|Hne].
        - rewrite has_fin_same, Hm, orb_false_r. f_equal. unfold has_pill. rewrite He. rewrite (ents_head w _ _ Hh) in He. injection He as He'.
          rewrite He'. cbn. reflexivity.
        - rewrite (has_fin_other v w _ _ Hne), (has_pill_drop_other v w _ Hne). reflexivity. }
      destruct Hcase as [(Hb & ->)|(Hb & c & Hc' & ->)]; apply Hgoal; reflexivity.
    - (* LFin *) destruct Hc as (_ & Hws & Hh & ->).
      assert (Hinw : In (w, MPill) (inflight s)).
      { destruct (head_drop w _ _ Hh) as (a & b & Hl & _). rewrite Hl. apply in_or_app. right. left. reflexivity. }
      assert (Hw : w < W) by (apply (b_in _ HB _ Hinw)).
      apply (kinv_same s); auto. intros v Hv. unfold pilled, finished; fields.
      destruct (Nat.eq_dec v w) as [->|Hne].
      + rewrite has_fin_same. cbn. rewrite !orb_true_r. unfold has_pill. rewrite (ents_head w _ _ Hh). cbn. reflexivity.
      + rewrite (has_fin_other v w _ _ Hne), (has_pill_drop_other v w _ Hne). reflexivity.
    - (* LWErr *) destruct Hc as (_ & Hws & Hh & ->).
      apply (kinv_same s); auto. intros v Hv. unfold pilled, finished; fields.
      destruct (Nat.eq_dec v w) as [->|Hne].
      + rewrite has_fin_same. cbn. rewrite orb_false_r. f_equal. unfold has_pill. rewrite (ents_head w _ _ Hh). cbn. reflexivity.
      + rewrite (has_fin_other v w _ _ Hne), (has_pill_drop_other v w _ Hne). reflexivity.
    - (* LRecv *) destruct Hc as (_ & Hm & i & o & Hh & p & c & wr & Hfl' & ->).
      apply (kinv_same s); auto. intros v Hv. unfold pilled, finished; fields.
      destruct (Nat.eq_dec v w) as [->|Hne]; [rewrite (has_fin_drop_same w _ _ Hh); reflexivity | rewrite (has_fin_drop_other v w _ Hne); reflexivity].
    - (* LRecvFin *) destruct Hc as (_ & Hm & st & Hh & ->).
      apply (kinv_same s); auto. intros v Hv. unfold pilled, finished; fields.
      destruct (Nat.eq_dec v w) as [->|Hne].
      + rewrite (mem_remove1_same w _ (b_open_nd _ HB)). rewrite (has_fin_head _ _ _ Hh). cbn. rewrite !orb_true_r. reflexivity.
      + rewrite (mem_remove1_other v w Hne), (has_fin_drop_other v w _ Hne). reflexivity.
    - (* LRecvErr *) destruct Hc as (_ & Hm & Hh & ->).
      apply (kinv_same s); auto. intros v Hv. unfold pilled, finished; fields.
      destruct (Nat.eq_dec v w) as [->|Hne]; [rewrite (has_fin_drop_same w _ _ Hh); reflexivity | rewrite (has_fin_drop_other v w _ Hne); reflexivity].
    - destruct Hc as (_ & ->). apply (kinv_same s); auto.
  Qed.

  (** ---- all invariants together *)
  Definition linv (s : state) : Prop := inv s /\ binv s /\ oinv s /\ pinv s /\ kinv s.

  Lemma linv_init : linv init.
  Proof.
    split; [apply inv_init|]. split; [apply binv_init|]. split; [apply oinv_init|]. split; [apply pinv_init | apply kinv_init].
  Qed.

  Lemma linv_step s l s' : linv s -> step s l = Some s' -> linv s'.
  Proof.
    intros (H1 & H2 & H3 & H4 & H5) Hs.
    split; [eapply inv_step; eauto|]. split; [eapply binv_step; eauto|]. split; [eapply oinv_step; eauto|].
    split; [eapply pinv_step; eauto | eapply kinv_step; eauto].
  Qed.

  Lemma linv_reachable s : reachable A O S f g szero sadd chunks W bad rfail ffail s -> linv s.
  Proof.
    intros [ls Hr]. revert Hr. generalize linv_init. generalize init. induction ls as [|l t IH]; intros s0 H0 Hr; cbn in Hr.
    - inversion Hr; subst. exact H0.
    - destruct (step s0 l) as [s1|] eqn:E; [|discriminate]. eapply IH; [eapply linv_step; eauto | exact Hr].
  Qed.

  Lemma filter_len_le (p : nat -> bool) : forall l, length (filter p l) <= length l.
  Proof. induction l as [|y t IH]; cbn; [lia|]. destruct (p y); cbn; lia. Qed.

  Lemma filter_all (p : nat -> bool) : forall l, length (filter p l) = length l -> forall x, In x l -> p x = true.
  Proof.
    induction l as [|y t IH]; intros Hlen x Hx; [contradiction|]. cbn [filter] in Hlen. destruct (p y) eqn:Ep.
    - cbn [length] in Hlen. destruct Hx as [<-|Hx]; [exact Ep | apply IH; [lia | exact Hx]].
    - pose proof (filter_len_le p t). cbn [length] in Hlen. lia.
  Qed.

  Lemma all_pilled s : kinv s -> pills s = W -> forall w, w < W -> pilled s w = true.
  Proof.
    intros HK Hp w Hw. apply (filter_all (pilled s) (seq 0 W)); [rewrite seq_length, <- HK; exact Hp | apply in_seq; lia].
  Qed.

  (** ---- no deadlock: in every reachable state that is not terminal some step is enabled --
      with every fault pattern *)
  Theorem progress s : linv s -> terminal s = false -> exists l s', step s l = Some s'.
  Proof.
    intros (HI & HB & HO & HP & HK) Hterm. unfold terminal in Hterm. apply orb_false_iff in Hterm. destruct Hterm as [Hf Hopen].
    destruct (open s) as [|w ow] eqn:Eo; [discriminate|].
    assert (Hmo : mem w (open s) = true) by (rewrite Eo; apply mem_in; left; reflexivity).
    assert (Hw : w < W) by (apply (b_open_lt _ HB); rewrite Eo; left; reflexivity).
    unfold Runner.step. rewrite Hf.
    destruct ffail eqn:Eff.
    { exists LFmtFail. eexists. reflexivity. }
    destruct (head_for w (results s)) as [[i o|st|]|] eqn:Ehr.
    - exists (LRecv w). rewrite Hmo, Ehr. destruct (flush _ _ _ _) as [[p c] wr]. eexists. reflexivity.
    - exists (LRecvFin w). rewrite Hmo, Ehr. eexists. reflexivity.
    - exists (LRecvErr w). rewrite Hmo, Ehr. eexists. reflexivity.
    - apply head_none in Ehr.
      destruct (wstate s w) eqn:Ews.
      + exists (LReq w). assert (E : w <? W = true) by (apply Nat.ltb_lt; exact Hw). rewrite E, Ews. eexists. reflexivity.
      + destruct (head_for w (inflight s)) as [[i| |]|] eqn:Ehi.
        * exists (LTake w). rewrite Ews, Ehi. destruct (bad i); [eexists; reflexivity|].
          assert (Hi : i < C).
          { destruct (head_drop w _ _ Ehi) as (a & b & Hl & _). destruct HI as [Hr _ _ Hb _ _ _]. specialize (Hb i).
            assert (Hin : In i (flight s)).
            { unfold flight. apply in_or_app. left. rewrite Hl. rewrite chunk_ids_app. apply in_or_app. right. cbn. left. reflexivity. }
            specialize (Hb Hin). lia. }
          apply nth_error_Some in Hi. destruct (nth_error chunks i); [eexists; reflexivity | contradiction].
        * exists (LFin w). rewrite Ews, Ehi. eexists. reflexivity.
        * exists (LWErr w). rewrite Ews, Ehi. eexists. reflexivity.
        * apply head_none in Ehi. destruct (HP w Hw) as (base & errs & He & Hfa & Htr & Hs). rewrite Ews in Hs. rewrite Ehi in He.
          symmetry in He. apply app_eq_nil in He. destruct He as [-> ->].
          destruct Hs as [[Hq _]|(_ & m & Hb & _)]; [|discriminate].
          assert (Hmq : mem w (queue s) = true) by (apply mem_qcount; lia).
          destruct (rdone s) eqn:Erd.
          -- exfalso. destruct (Nat.eq_dec (pills s) W) as [Hpw|Hpw].
             ++ pose proof (all_pilled s HK Hpw w Hw) as Hpl. unfold pilled, finished, has_pill in Hpl. rewrite Ehi, Hmo in Hpl. cbn in Hpl.
                destruct (o_live _ HO w Hw ltac:(congruence)) as [_ Hnf]. congruence.
             ++ assert (Hrf : rfailed s = true).
                { unfold rfailed. rewrite Erd. cbn. apply Nat.ltb_lt. pose proof (b_pills _ HB). lia. }
                destruct (Htr Hrf) as [Hx|[_ Hx]]; [discriminate | congruence].
          -- destruct (rfn s) eqn:Efn.
             ++ exists LRFail. cbn [negb andb]. eexists. reflexivity.
             ++ destruct (next s <? C) eqn:Elt.
                ** exists (LSend w). cbn [negb andb]. rewrite Hmq. cbn [negb andb]. eexists. reflexivity.
                ** exists (LPill w). apply Nat.ltb_ge in Elt. pose proof (b_nc _ HB).
                   assert (E1 : Nat.eqb (next s) C = true) by (apply Nat.eqb_eq; lia).
                   assert (E2 : pills s <? W = true) by (apply Nat.ltb_lt; apply (b_rd _ HB Erd)).
                   cbn [negb andb]. rewrite E1, E2, Hmq. cbn [negb andb]. eexists. reflexivity.
      + exfalso. pose proof (o_done _ HO Hf w Hw Ews Hmo) as He. unfold has_end in He. rewrite Ehr in He. discriminate.
  Qed.

  (** ---- L4: a chunk that makes its worker raise is either still on its way or has left a worker
      that can never finish regularly *)
  Definition errored (s : state) (w : nat) : Prop :=
    wstate s w = Done /\ mem w (open s) = true /\ has_fin w (results s) = false.
  Definition tinv (s : state) : Prop := forall i, i < next s -> bad i = true ->
    (exists w, In (w, MChunk i) (inflight s)) \/ (exists w, w < W /\ errored s w).

  Lemma in_drop_other {M} w (l : list (nat * M)) m x : head_for w l = Some m -> In x l -> x <> (w, m) -> In x (drop_for w l).
  Proof.
    intros Hh Hin Hne. destruct (head_drop w l m Hh) as (a & b & Hl & Hd & _). rewrite Hd. rewrite Hl in Hin.
    apply in_app_or in Hin. apply in_or_app. destruct Hin as [H|[H|H]]; [left; exact H | congruence | right; exact H].
  Qed.

  Lemma errored_step s l s' w : step s l = Some s' -> errored s w -> errored s' w.
  Proof.
    intros Hstep (Hd & Hmo & Hnf). destruct (step_inv _ _ _ Hstep) as [Hf Hc]. unfold errored.
    destruct l as [v|v|v| |v|v|v|v|v|v|].
    - destruct Hc as (_ & Hv & Hws & ->). fields. unfold upd. destruct (Nat.eqb w v) eqn:E; [apply Nat.eqb_eq in E; subst; congruence | auto].
    - destruct Hc as (_ & _ & _ & _ & _ & ->). fields. auto.
    - destruct Hc as (_ & _ & _ & _ & _ & _ & ->). fields. auto.
    - destruct Hc as (_ & _ & _ & ->). fields. auto.
    - destruct Hc as (_ & Hws & i & Hh & Hcase).
      assert (Hne : w <> v) by (intros ->; congruence).
      assert (E : Nat.eqb w v = false) by (apply Nat.eqb_neq; exact Hne).
      destruct Hcase as [(Hb & ->)|(Hb & c & Hc' & ->)]; fields; unfold upd; rewrite E, (has_fin_other w v _ _ Hne); auto.
    - destruct Hc as (_ & Hws & Hh & ->). assert (Hne : w <> v) by (intros ->; congruence).
      assert (E : Nat.eqb w v = false) by (apply Nat.eqb_neq; exact Hne). fields; unfold upd; rewrite E, (has_fin_other w v _ _ Hne); auto.
    - destruct Hc as (_ & Hws & Hh & ->). assert (Hne : w <> v) by (intros ->; congruence).
      assert (E : Nat.eqb w v = false) by (apply Nat.eqb_neq; exact Hne). fields; unfold upd; rewrite E, (has_fin_other w v _ _ Hne); auto.
    - destruct Hc as (_ & Hm & i & o & Hh & p & c & wr & Hfl' & ->). fields. repeat split; auto.
      destruct (Nat.eq_dec w v) as [->|Hne]; [rewrite (has_fin_drop_same v _ _ Hh) in Hnf; cbn in Hnf; exact Hnf | rewrite (has_fin_drop_other w v _ Hne); exact Hnf].
    - destruct Hc as (_ & Hm & st & Hh & ->). fields.
      assert (Hne : w <> v) by (intros ->; rewrite (has_fin_head _ _ _ Hh) in Hnf; discriminate).
      rewrite (mem_remove1_other w v Hne), (has_fin_drop_other w v _ Hne). auto.
    - destruct Hc as (_ & Hm & Hh & ->). fields. repeat split; auto.
      destruct (Nat.eq_dec w v) as [->|Hne]; [rewrite (has_fin_drop_same v _ _ Hh) in Hnf; cbn in Hnf; exact Hnf | rewrite (has_fin_drop_other w v _ Hne); exact Hnf].
    - destruct Hc as (_ & ->). fields. auto.
  Qed.

  Lemma tinv_init : tinv init.
  Proof. intros i Hi. cbn in Hi. lia. Qed.

  Lemma tinv_step s l s' : binv s -> oinv s -> tinv s -> step s l = Some s' -> tinv s'.
  Proof.
    intros HB HO HT Hstep.
    assert (Hkeep : next s' = next s -> (forall x, In x (inflight s) -> In x (inflight s')) -> tinv s').
    { intros Hn Hsub i Hi Hb. rewrite Hn in Hi. destruct (HT i Hi Hb) as [(w & Hw)|(w & Hw & He)].
      - left. exists w. apply Hsub. exact Hw.
      - right. exists w. split; [exact Hw | eapply errored_step; eauto]. }
    destruct (step_inv _ _ _ Hstep) as [Hf Hc].
    destruct l as [w|w|w| |w|w|w|w|w|w|].
    - destruct Hc as (_ & Hw & Hws & ->). apply Hkeep; fields; auto.
    - (* LSend *) destruct Hc as (_ & Hr & Hfn & Hlt & Hm & Hs'). intros i Hi Hb. rewrite Hs' in Hi; unfold stp in Hi; cbn [next] in Hi.
      destruct (Nat.eq_dec i (next s)) as [->|Hne].
      + left. exists w. rewrite Hs'; fields. apply in_or_app. right. left. reflexivity.
      + destruct (HT i ltac:(lia) Hb) as [(v & Hv)|(v & Hv & He)].
        * left. exists v. rewrite Hs'; fields. apply in_or_app. left. exact Hv.
        * right. exists v. split; [exact Hv | eapply errored_step; eauto].
    - destruct Hc as (_ & _ & _ & _ & _ & _ & ->). apply Hkeep; fields; auto. intros x Hx. apply in_or_app. left. exact Hx.
    - destruct Hc as (_ & _ & _ & ->). apply Hkeep; fields; auto. intros x Hx. apply in_or_app. left. exact Hx.
    - (* LTake *) destruct Hc as (_ & Hws & j & Hh & Hcase).
      assert (Hinw : In (w, MChunk j) (inflight s)).
      { destruct (head_drop w _ _ Hh) as (a & b & Hl & _). rewrite Hl. apply in_or_app. right. left. reflexivity. }
      assert (Hw : w < W) by (apply (b_in _ HB _ Hinw)).
      destruct (o_live _ HO w Hw ltac:(congruence)) as [Hmo Hnf].
      intros i Hi Hb.
      assert (Hn : next s' = next s) by (destruct Hcase as [(_ & ->)|(_ & c & _ & ->)]; reflexivity).
      rewrite Hn in Hi. destruct (HT i Hi Hb) as [(v & Hv)|(v & Hv & He)].
      + destruct (Nat.eq_dec i j) as [->|Hij].
        * destruct Hcase as [(Hbj & Hs')|(Hbj & _)]; [|congruence].
          right. exists w. split; [exact Hw|]. rewrite Hs'. unfold errored; fields. unfold upd. rewrite Nat.eqb_refl.
          rewrite has_fin_same, Hnf. repeat split; auto.
        * left. exists v. assert (Hin' : In (v, MChunk i) (drop_for w (inflight s))).
          { eapply in_drop_other; [exact Hh | exact Hv | intros Heq; inversion Heq; congruence]. }
          destruct Hcase as [(_ & ->)|(_ & c & _ & ->)]; fields; exact Hin'.
      + right. exists v. split; [exact Hv | eapply errored_step; eauto].
    - (* LFin *) destruct Hc as (_ & Hws & Hh & Hs'). intros i Hi Hb. rewrite Hs' in Hi; unfold stp in Hi; cbn [next] in Hi.
      destruct (HT i Hi Hb) as [(v & Hv)|(v & Hv & He)].
      + left. exists v. rewrite Hs'; fields. eapply in_drop_other; [exact Hh | exact Hv | intros Heq; inversion Heq].
      + right. exists v. split; [exact Hv | eapply errored_step; eauto].
    - (* LWErr *) destruct Hc as (_ & Hws & Hh & Hs'). intros i Hi Hb. rewrite Hs' in Hi; unfold stp in Hi; cbn [next] in Hi.
      destruct (HT i Hi Hb) as [(v & Hv)|(v & Hv & He)].
      + left. exists v. rewrite Hs'; fields. eapply in_drop_other; [exact Hh | exact Hv | intros Heq; inversion Heq].
      + right. exists v. split; [exact Hv | eapply errored_step; eauto].
    - destruct Hc as (_ & Hm & i & o & Hh & p & c & wr & Hfl' & ->). apply Hkeep; fields; auto.
    - destruct Hc as (_ & Hm & st & Hh & ->). apply Hkeep; fields; auto.
    - destruct Hc as (_ & Hm & Hh & ->). apply Hkeep; fields; auto.
    - destruct Hc as (_ & ->). apply Hkeep; fields; auto.
  Qed.

  Lemma tinv_reachable s : reachable A O S f g szero sadd chunks W bad rfail ffail s -> tinv s.
  Proof.
    intros [ls Hr]. revert Hr. generalize tinv_init linv_init. generalize init. induction ls as [|l t IH]; intros s0 HT0 HL0 Hr; cbn in Hr.
    - inversion Hr; subst. exact HT0.
    - destruct (step s0 l) as [s1|] eqn:E; [|discriminate]. pose proof (linv_step _ _ _ HL0 E) as HL1. destruct HL0 as (H1 & H2 & H3 & H4 & H5).
      eapply IH; [eapply tinv_step; eauto | exact HL1 | exact Hr].
  Qed.

  (** ---- a run that finishes without failure has met no fault: the format was detected, the
      reader never raised, and no chunk made a worker raise *)
  Theorem finished_means_no_fault s : reachable A O S f g szero sadd chunks W bad rfail ffail s -> finished_ok s = true ->
    ffail = false /\ next s = C /\ (forall k, rfail = Some k -> C < k) /\ (forall i, i < C -> bad i = false).
  Proof.
    intros Hreach Hfin. pose proof (tinv_reachable s Hreach) as HT. destruct (linv_reachable s Hreach) as (HI & HB & HO & HP & HK).
    unfold finished_ok in Hfin. apply andb_prop in Hfin. destruct Hfin as [Hf Hop]. apply negb_true_iff in Hf.
    destruct (open s) as [|x ox] eqn:Eo; [|discriminate].
    assert (Hff : ffail = false).
    { destruct (Bool.bool_dec ffail false) as [E|E]; [exact E|]. apply not_false_is_true in E.
      pose proof (b_ff _ HB E) as H. rewrite Eo in H. destruct W; [lia | discriminate]. }
    assert (Hallfin : forall w, w < W -> pilled s w = true).
    { intros w Hw. unfold pilled, finished. rewrite Eo. cbn. apply orb_true_r. }
    assert (Hp : pills s = W).
    { unfold kinv in HK. rewrite HK. rewrite <- (seq_length W 0) at 2. f_equal.
      assert (H : forall l, (forall w, In w l -> w < W) -> filter (pilled s) l = l).
      { induction l as [|y t IH]; intros Hl; [reflexivity|]. cbn [filter]. rewrite (Hallfin y (Hl y (or_introl eq_refl))). f_equal. apply IH.
        intros w Hw. apply Hl. right. exact Hw. }
      apply H. intros w Hw. apply in_seq in Hw. lia. }
    destruct (b_pn _ HB ltac:(lia)) as [Hn Hfn].
    split; [exact Hff|]. split; [exact Hn|]. split.
    - intros k Hk. pose proof (b_rf _ HB k Hk). unfold reader_fails_now in Hfn. rewrite Hk in Hfn. apply Nat.eqb_neq in Hfn. lia.
    - intros i Hi. destruct (bad i) eqn:Eb; [|reflexivity]. exfalso. rewrite <- Hn in Hi.
      destruct (HT i Hi Eb) as [(w & Hw)|(w & Hw & (_ & Hmo & _))].
      + pose proof (b_in _ HB _ Hw) as Hlt. cbn in Hlt. destruct (shape_nonerr s w _ (HP w Hlt) Hw eq_refl) as (Hws & _).
        destruct (o_live _ HO w Hlt ltac:(congruence)) as [Hmo _]. rewrite Eo in Hmo. discriminate.
      + rewrite Eo in Hmo. discriminate.
  Qed.

  (** ---- L5: when no chunk below C makes a worker raise, no chunk is ever dropped: the chunks in
      flight plus the chunks written are all the chunks handed out *)
  Definition cinv (s : state) : Prop := length (flight s) + cur s = next s.

  Lemma chunk_ids_cons x l : chunk_ids (x :: l) = (match snd x with MChunk i => [i] | _ => [] end) ++ chunk_ids l.
  Proof. reflexivity. Qed.
  Lemma result_ids_cons x l : result_ids O S (x :: l) = (match snd x with MResult i _ => [i] | _ => [] end) ++ result_ids O S l.
  Proof. reflexivity. Qed.

  Lemma chunk_ids_drop w (l : list (nat * msg_in)) m : head_for w l = Some m ->
    length (chunk_ids l) = length (chunk_ids (drop_for w l)) + (match m with MChunk _ => 1 | _ => 0 end).
  Proof.
    intros Hh. destruct (head_drop w l m Hh) as (a & b & Hl & Hd & _). rewrite Hd. rewrite Hl at 1.
    rewrite !chunk_ids_app, chunk_ids_cons, !app_length. cbn [snd]. destruct m; cbn [length]; lia.
  Qed.

  Lemma result_ids_drop w (l : list (nat * msg_out O S)) m : head_for w l = Some m ->
    length (result_ids O S l) = length (result_ids O S (drop_for w l)) + (match m with MResult _ _ => 1 | _ => 0 end).
  Proof.
    intros Hh. destruct (head_drop w l m Hh) as (a & b & Hl & Hd & _). rewrite Hd. rewrite Hl at 1.
    rewrite !result_ids_app, result_ids_cons, !app_length. cbn [snd]. destruct m; cbn [length]; lia.
  Qed.

  Lemma flush_count : forall fuel (p : list (nat * O)) c wr, NoDup (keys O p) ->
    let '(p', c', wr') := flush fuel p c wr in length p' + c' = length p + c.
  Proof.
    induction fuel as [|fu IH]; intros p c wr Hnd; cbn [flush]; [reflexivity|].
    destruct (lookup c p) as [o|] eqn:El; [|reflexivity].
    pose proof (lookup_in _ _ _ _ El) as Hin.
    assert (Hk : In c (keys O p)) by (unfold keys; apply in_map_iff; exists (c, o); auto).
    destruct (delete_keys O c p Hnd Hk) as (Hperm & Hsub & Hni).
    assert (Hnd2 : NoDup (c :: keys O (delete c p))) by (eapply Permutation_NoDup; eauto).
    apply NoDup_cons_iff in Hnd2. destruct Hnd2 as [_ Hnd3].
    specialize (IH (delete c p) (Datatypes.S c) (wr ++ [o]) Hnd3).
    destruct (flush fu (delete c p) (Datatypes.S c) (wr ++ [o])) as [[p' c'] wr'].
    pose proof (Permutation_length Hperm) as Hl. cbn [length] in Hl. unfold keys in Hl. rewrite !map_length in Hl. lia.
  Qed.

  Hypothesis no_bad : forall i, i < C -> bad i = false.

  Lemma cinv_init : cinv init.
  Proof. reflexivity. Qed.

  Lemma cinv_step s l s' : inv s -> cinv s -> step s l = Some s' -> cinv s'.
  Proof.
    intros HI HC Hstep. destruct (step_inv _ _ _ Hstep) as [Hf Hc]. unfold cinv, flight in *.
    destruct l as [w|w|w| |w|w|w|w|w|w|].
    - destruct Hc as (_ & Hw & Hws & ->). fields. exact HC.
    - destruct Hc as (_ & _ & _ & _ & _ & ->). fields. rewrite chunk_ids_app, !app_length in *. cbn. lia.
    - destruct Hc as (_ & _ & _ & _ & _ & _ & ->). fields. rewrite chunk_ids_app, !app_length in *. cbn. lia.
    - destruct Hc as (_ & _ & _ & ->). fields. rewrite chunk_ids_app, chunk_ids_errs, app_nil_r. exact HC.
    - destruct Hc as (_ & Hws & i & Hh & Hcase). pose proof (chunk_ids_drop w _ _ Hh) as Hd; cbv iota in Hd.
      assert (Hi : i < C).
      { destruct (head_drop w _ _ Hh) as (a & b & Hl & _). destruct HI as [Hr _ _ Hb _ _ _]. specialize (Hb i).
        assert (Hin : In i (RunnerSafety.flight O S s)).
        { unfold RunnerSafety.flight. apply in_or_app. left. rewrite Hl. rewrite chunk_ids_app. apply in_or_app. right. cbn. left. reflexivity. }
        specialize (Hb Hin). lia. }
      destruct Hcase as [(Hb & _)|(Hb & c & Hc' & ->)]; [rewrite (no_bad i Hi) in Hb; discriminate|].
      fields. rewrite result_ids_app, !app_length in *. cbn [result_ids flat_map snd length app]. lia.
    - destruct Hc as (_ & Hws & Hh & ->). pose proof (chunk_ids_drop w _ _ Hh) as Hd; cbv iota in Hd. fields.
      rewrite result_ids_app, !app_length in *. cbn [result_ids flat_map snd length app]. lia.
    - destruct Hc as (_ & Hws & Hh & ->). pose proof (chunk_ids_drop w _ _ Hh) as Hd; cbv iota in Hd. fields.
      rewrite result_ids_app, !app_length in *. cbn [result_ids flat_map snd length app]. lia.
    - destruct Hc as (_ & Hm & i & o & Hh & p & c & wr & Hfl' & ->). pose proof (result_ids_drop w _ _ Hh) as Hd; cbv iota in Hd. fields.
      assert (Hnd : NoDup (keys O ((i, o) :: pending s))).
      { destruct HI as [_ _ Hnd _ _ _ _]. unfold RunnerSafety.flight in Hnd. destruct (head_drop w _ _ Hh) as (a & b & Hl & _).
        rewrite Hl, result_ids_app in Hnd. cbn [result_ids flat_map snd app] in Hnd.
        apply NoDup_app_r in Hnd. rewrite <- app_assoc in Hnd. apply NoDup_app_r in Hnd. cbn [app] in Hnd.
        cbn [keys map fst]. apply NoDup_cons_iff in Hnd. destruct Hnd as [Hni Hnd]. apply NoDup_app_r in Hnd.
        constructor; [|exact Hnd]. intros Hin. apply Hni. apply in_or_app. right. exact Hin. }
      pose proof (flush_count (Datatypes.S (length (pending s))) ((i, o) :: pending s) (cur s) (written s) Hnd) as Hfc.
      rewrite Hfl' in Hfc. cbn [length] in Hfc. unfold keys in *. rewrite !app_length, !map_length in *. lia.
    - destruct Hc as (_ & Hm & st & Hh & ->). pose proof (result_ids_drop w _ _ Hh) as Hd; cbv iota in Hd. fields. rewrite !app_length in *. lia.
    - destruct Hc as (_ & Hm & Hh & ->). pose proof (result_ids_drop w _ _ Hh) as Hd; cbv iota in Hd. fields. rewrite !app_length in *. lia.
    - destruct Hc as (_ & ->). fields. exact HC.
  Qed.

  Lemma cinv_reachable s : reachable A O S f g szero sadd chunks W bad rfail ffail s -> cinv s.
  Proof.
    intros [ls Hr]. revert Hr. generalize cinv_init linv_init. generalize init. induction ls as [|l t IH]; intros s0 HC0 HL0 Hr; cbn in Hr.
    - inversion Hr; subst. exact HC0.
    - destruct (step s0 l) as [s1|] eqn:E; [|discriminate]. pose proof (linv_step _ _ _ HL0 E) as HL1. destruct HL0 as (H1 & _).
      eapply IH; [eapply cinv_step; eauto | exact HL1 | exact Hr].
  Qed.

  Lemma chunk_ids_in i : forall l, In i (chunk_ids l) -> exists w, In (w, MChunk i) l.
  Proof.
    induction l as [|[w m] t IH]; intros H; [contradiction|]. rewrite chunk_ids_cons in H. apply in_app_or in H. destruct H as [H|H].
    - cbn [snd] in H. destruct m; try contradiction. destruct H as [<-|[]]. exists w. left. reflexivity.
    - destruct (IH H) as (v & Hv). exists v. right. exact Hv.
  Qed.

  Lemma result_ids_in i : forall l, In i (result_ids O S l) -> exists w o, In (w, MResult i o) l.
  Proof.
    induction l as [|[w m] t IH]; intros H; [contradiction|]. rewrite result_ids_cons in H. apply in_app_or in H. destruct H as [H|H].
    - cbn [snd] in H. destruct m; try contradiction. destruct H as [<-|[]]. exists w, o. left. reflexivity.
    - destruct (IH H) as (v & o & Hv). exists v, o. right. exact Hv.
  Qed.

  Lemma nodup_range_length (l : list nat) a b : NoDup l -> (forall x, In x l -> a < x < b) -> length l + a + 1 <= b \/ l = [].
  Proof.
    intros Hnd Hr. destruct l as [|y t] eqn:El; [right; reflexivity|]. left. rewrite <- El in *.
    assert (Hincl : incl l (seq (Datatypes.S a) (b - a - 1))).
    { intros x Hx. apply in_seq. specialize (Hr x Hx). lia. }
    pose proof (NoDup_incl_length Hnd Hincl) as Hlen. rewrite seq_length in Hlen.
    assert (Hy : a < y < b) by (apply Hr; rewrite El; left; reflexivity). lia.
  Qed.

  (** a run that finishes (no chunk below C being faulty) has written the blocks of all chunks *)
  Theorem finished_wrote_everything s : reachable A O S f g szero sadd chunks W bad rfail ffail s -> finished_ok s = true ->
    written s = map f chunks /\ cur s = C.
  Proof.
    intros Hreach Hfin. pose proof (cinv_reachable s Hreach) as HC. destruct (linv_reachable s Hreach) as (HI & HB & HO & HP & HK).
    destruct (finished_means_no_fault s Hreach Hfin) as (_ & Hn & _ & _).
    unfold finished_ok in Hfin. apply andb_prop in Hfin. destruct Hfin as [Hf Hop].
    destruct (open s) as [|x ox] eqn:Eo; [|discriminate].
    assert (H1 : chunk_ids (inflight s) = []).
    { destruct (chunk_ids (inflight s)) as [|i t] eqn:E; [reflexivity|]. exfalso.
      destruct (chunk_ids_in i (inflight s)) as (w & Hw); [rewrite E; left; reflexivity|].
      pose proof (b_in _ HB _ Hw) as Hlt. cbn in Hlt. destruct (shape_nonerr s w _ (HP w Hlt) Hw eq_refl) as (Hws & _).
      destruct (o_live _ HO w Hlt ltac:(congruence)) as [Hmo _]. rewrite Eo in Hmo. discriminate. }
    assert (H2 : result_ids O S (results s) = []).
    { destruct (result_ids O S (results s)) as [|i t] eqn:E; [reflexivity|]. exfalso.
      destruct (result_ids_in i (results s)) as (w & o & Hw); [rewrite E; left; reflexivity|].
      pose proof (o_in _ HO _ Hw) as Hmo. rewrite Eo in Hmo. discriminate. }
    unfold cinv, RunnerSafety.flight in HC. rewrite H1, H2 in HC. cbn [app] in HC.
    destruct HI as [Hr Hw Hnd Hb Hnc _ _]. unfold RunnerSafety.flight in Hnd, Hb. rewrite H1, H2 in Hnd, Hb. cbn [app] in Hnd, Hb.
    assert (Hrange : forall j, In j (keys O (pending s)) -> cur s < j < C).
    { intros j Hj. specialize (Hb j Hj). assert (j <> cur s) by (intros ->; contradiction). lia. }
    destruct (nodup_range_length _ _ _ Hnd Hrange) as [Hlen|Hnil]; [lia|].
    rewrite Hnil in HC. cbn in HC. assert (Hcur : cur s = C) by lia. split; [|exact Hcur].
    rewrite Hw, Hcur. rewrite firstn_all. reflexivity.
  Qed.
End Live.

(** the fault-free hypothesis of [finished_wrote_everything] is itself a consequence of finishing *)
Theorem finished_complete (A O S : Type) (f : A -> O) (g : A -> S) szero sadd chunks W bad rfail ffail s :
  0 < W -> reachable A O S f g szero sadd chunks W bad rfail ffail s -> finished_ok s = true ->
  written s = map f chunks.
Proof.
  intros HW Hr Hf. destruct (finished_means_no_fault A O S f g szero sadd chunks W bad rfail ffail HW s Hr Hf) as (_ & _ & _ & Hnb).
  destruct (finished_wrote_everything A O S f g szero sadd chunks W bad rfail ffail HW Hnb s Hr Hf) as [H _]. exact H.
Qed.

(** no deadlock, for every fault pattern: a reachable state that is not terminal has an enabled step *)
Theorem no_deadlock (A O S : Type) (f : A -> O) (g : A -> S) szero sadd chunks W bad rfail ffail s :
  0 < W -> reachable A O S f g szero sadd chunks W bad rfail ffail s -> terminal s = false ->
  exists l s', step A O S f g sadd chunks W bad rfail ffail s l = Some s'.
Proof.
  intros HW Hr Ht. apply (progress A O S f g szero sadd chunks W bad rfail ffail HW s); [|exact Ht].
  apply (linv_reachable A O S f g szero sadd chunks W bad rfail ffail HW s Hr).
Qed.
