(** Runner protocol, part 3: the fault-free protocol ([bad] nowhere, the reader does not fail).
    Per-worker shape of the two pipes, pill accounting, placement count; from these:
    - a finished run has written the blocks of *all* chunks in input order (C06_final),
    - a state that is not finished always has an enabled step (no deadlock, C06_progress). *)
From Coq Require Import ZArith List Bool Arith Lia Permutation.
From CV Require Import Model.Runner Proofs.RunnerSafety.
Import ListNotations.

Section Live.
  Variable A O S : Type.
  Variable f : A -> O.
  Variable g : A -> S.
  Variable szero : S.
  Variable sadd : S -> S -> S.
  Variable chunks : list A.
  Variable W : nat.
  Variable bad : nat -> bool.
  Variable rfail : option nat.
  Variable ffail : bool.
  Hypothesis no_bad : forall i, bad i = false.
  Hypothesis no_rfail : rfail = None.
  Hypothesis W_pos : 0 < W.

  Notation state := (state O S).
  Notation step := (step A O S f g sadd chunks W bad rfail ffail).
  Notation init := (init O S szero W).
  Notation run := (run A O S f g sadd chunks W bad rfail ffail).
  Notation C := (length chunks).
  Notation inv := (inv A O S f chunks).
  Notation flight := (flight O S).

  (** entries of worker w in a pipe *)
  Definition ents {M} (w : nat) (l : list (nat * M)) : list (nat * M) := filter (fun x => Nat.eqb (fst x) w) l.

  Lemma ents_app {M} w (a b : list (nat * M)) : ents w (a ++ b) = ents w a ++ ents w b.
  Proof. unfold ents. apply filter_app. Qed.

  Lemma ents_head {M} w : forall (l : list (nat * M)) m,
    head_for w l = Some m -> ents w l = (w, m) :: ents w (drop_for w l).
  Proof.
    induction l as [|[v m'] t IH]; intros m H; cbn in H; [discriminate|]. cbn [ents filter fst drop_for].
    destruct (Nat.eqb v w) eqn:E.
    - apply Nat.eqb_eq in E. subst v. inversion H; subst. reflexivity.
    - cbn [filter fst]. rewrite E. apply IH. exact H.
  Qed.

  Lemma ents_drop_other {M} v w : v <> w -> forall (l : list (nat * M)), ents v (drop_for w l) = ents v l.
  Proof.
    intros Hne. induction l as [|[u m] t IH]; [reflexivity|]. cbn [drop_for].
    destruct (Nat.eqb u w) eqn:E.
    - apply Nat.eqb_eq in E. subst u. cbn [ents filter fst]. assert (E' : Nat.eqb w v = false) by (apply Nat.eqb_neq; congruence).
      rewrite E'. reflexivity.
    - cbn [ents filter fst]. destruct (Nat.eqb u v); [f_equal|]; apply IH.
  Qed.

  Lemma head_none {M} w : forall (l : list (nat * M)), head_for w l = None <-> ents w l = [].
  Proof.
    induction l as [|[v m] t IH]; cbn [head_for ents filter fst]; [tauto|].
    destruct (Nat.eqb v w); [split; discriminate | exact IH].
  Qed.

  Lemma ents_single_other {M} v w (m : M) : v <> w -> ents v [(w, m)] = [].
  Proof. intros H. cbn. assert (E : Nat.eqb w v = false) by (apply Nat.eqb_neq; congruence). rewrite E. reflexivity. Qed.
  Lemma ents_single_same {M} w (m : M) : ents w [(w, m)] = [(w, m)].
  Proof. cbn. rewrite Nat.eqb_refl. reflexivity. Qed.

  Definition qcount (w : nat) (q : list nat) : nat := length (filter (Nat.eqb w) q).

  Lemma qcount_app w a b : qcount w (a ++ b) = qcount w a + qcount w b.
  Proof. unfold qcount. rewrite filter_app, app_length. reflexivity. Qed.

  Lemma qcount_remove_same w : forall q, mem w q = true -> qcount w q = Datatypes.S (qcount w (remove1 w q)).
  Proof.
    induction q as [|x t IH]; cbn; [discriminate|]. rewrite (Nat.eqb_sym x w).
    destruct (Nat.eqb w x) eqn:E; cbn [orb]; [intros _; cbn; reflexivity|].
    intros H. unfold qcount in *. cbn [filter]. rewrite E. apply IH. exact H.
  Qed.

  Lemma qcount_remove_other v w : v <> w -> forall q, qcount v (remove1 w q) = qcount v q.
  Proof.
    intros Hne. induction q as [|x t IH]; [reflexivity|]. cbn [remove1].
    destruct (Nat.eqb x w) eqn:E.
    - apply Nat.eqb_eq in E. subst x. unfold qcount. cbn [filter].
      assert (E' : Nat.eqb v w = false) by (apply Nat.eqb_neq; exact Hne). rewrite E'. reflexivity.
    - unfold qcount in *. cbn [filter]. destruct (Nat.eqb v x); cbn [length]; rewrite IH; reflexivity.
  Qed.

  Lemma mem_qcount w q : mem w q = true <-> 0 < qcount w q.
  Proof.
    unfold qcount. induction q as [|x t IH]; cbn; [split; [discriminate | lia]|].
    destruct (Nat.eqb w x); cbn; [split; [lia | reflexivity] | exact IH].
  Qed.

  Definition is_result (m : msg_out O S) : bool := match m with MResult _ _ => true | _ => false end.
  Definition is_pill (m : msg_in) : bool := match m with MPill => true | _ => false end.
  Definition npills (l : list (nat * msg_in)) : nat := length (filter (fun x => is_pill (snd x)) l).
  Definition ndone (h : nat -> wst) : nat := length (filter (fun w => match h w with Done => true | _ => false end) (seq 0 W)).

  (** shape of the two pipes of worker w *)
  Definition in_shape (s : state) (w : nat) : Prop :=
    match wstate s w with
    | Waiting => (qcount w (queue s) = 1 /\ ents w (inflight s) = []) \/
                 (qcount w (queue s) = 0 /\ exists m, ents w (inflight s) = [(w, m)] /\ m <> MErrIn /\
                    (forall i, m = MChunk i -> i < next s))
    | _ => qcount w (queue s) = 0 /\ ents w (inflight s) = []
    end.

  Definition out_shape (s : state) (w : nat) : Prop :=
    let es := map snd (ents w (results s)) in
    match wstate s w with
    | Done => if mem w (open s)
              then exists rs st, es = rs ++ [MFin st] /\ forallb is_result rs = true
              else es = []
    | _ => forallb is_result es = true /\ mem w (open s) = true
    end.

  Record inv2 (s : state) : Prop := mkInv2 {
    j_in_lt : forall x, In x (inflight s) -> fst x < W;
    j_out_lt : forall x, In x (results s) -> fst x < W;
    j_q_lt : forall w, In w (queue s) -> w < W;
    j_in : forall w, w < W -> in_shape s w;
    j_out : forall w, w < W -> out_shape s w;
    j_pills : pills s = npills (inflight s) + ndone (wstate s) /\ pills s <= W;
    j_pill_next : 0 < pills s -> next s = C;
    j_rdone : rdone s = Nat.eqb (pills s) W;
    j_open : NoDup (open s) /\ (forall w, In w (open s) -> w < W);
    j_count : length (flight s) + cur s = next s;
    j_nofail : failed s = false
  }.
End Live.
