(** C02, last clause for anchored 3' adapters with indels (aligner flags: start anywhere in the read, stop
    only at its end): an error-free copy at the end of the read is removed exactly.  The reported cost is minimal
    over all admissible starts (AlignOptTail.v), hence 0; an alignment at cost 0 has equal lengths. *)
From Coq Require Import ZArith List Bool Lia.
From CV Require Import Generated.Tables Generated.Scores Generated.Flags Model.Align Model.Adapters Proofs.AlignProofs Proofs.AdapterProofs
  Proofs.AlignDist Proofs.AlignOpt Proofs.AlignOptTail Proofs.AlignCut.

Import ListNotations.
Open Scope Z_scope.

Lemma ed_exact eqc IND : forall a b, Forall2 (fun x y => eqc x y = true) a b -> ed eqc IND a b 0.
Proof. induction 1 as [|x y a b Hxy H IH]; [constructor | apply ed_cons_match; assumption]. Qed.

Lemma Forall2_of_nth {A B} (P : A -> B -> Prop) (da : A) (db : B) : forall a b, length a = length b ->
  (forall t, (t < length a)%nat -> P (nth t a da) (nth t b db)) -> Forall2 P a b.
Proof.
  induction a as [|x a IH]; intros [|y b] Hl H; try discriminate; constructor.
  - apply (H 0%nat). cbn. lia.
  - apply IH; [cbn in Hl; lia|]. intros t Ht. apply (H (S t)). cbn. lia.
Qed.

Theorem locate_anchored3_exact thr cfg wq ref query rs re qs qe sc e :
  1 <= indel_cost cfg -> start_in_ref cfg = false -> start_in_query cfg = true -> stop_in_query cfg = false -> stop_in_ref cfg = false ->
  0 <= thr (zlen ref) -> (forall L, thr L <= thr (zlen ref)) -> zlen ref <= zlen query ->
  (forall t, 0 <= t < zlen ref ->
     loc_eqc cfg wq (znth 0 (loc_s1 cfg wq ref) t) (znth 0 (loc_s2 cfg wq query) (zlen query - zlen ref + t)) = true) ->
  locate thr cfg wq ref query = Some (rs, re, qs, qe, sc, e) ->
  qs = zlen query - zlen ref /\ qe = zlen query /\ rs = 0 /\ re = zlen ref /\ e = 0.
Proof.
  intros Hi Hsr Hsq Heq Her Hk Hb Hmn Hcopy Hloc.
  pose proof (locate_dist thr cfg wq ref query rs re qs qe sc e Hi Hk Hb Hloc) as Hw.
  revert Hloc. unfold locate. fold (loc_s1 cfg wq ref). fold (loc_s2 cfg wq query). fold (loc_eqc cfg wq). intros Hloc.
  pose proof (loc_s1_len cfg wq ref) as H1. pose proof (loc_s2_len cfg wq query) as H2.
  set (s1 := loc_s1 cfg wq ref) in *. set (s2 := loc_s2 cfg wq query) in *.
  set (m := zlen ref) in *. set (n := zlen query) in *.
  assert (Hn0 : 0 <= n) by apply zlen_nonneg. assert (Hm0 : 0 <= m) by apply zlen_nonneg.
  pose proof (locate_core_structure (loc_eqc cfg wq) thr cfg ref s1 s2 _ ltac:(rewrite H1; exact Hk) Hloc) as Hres. unfold result_ok in Hres.
  destruct Hres as (R1 & R2 & R3 & R4 & R5 & R6 & R7 & R8 & R9 & R10 & _). rewrite H1, H2 in *.
  specialize (R6 Hsr). specialize (R9 Her). specialize (R10 Heq). subst rs re qe.
  assert (Hq0 : 0 <= Z.max 0 (n - m - thr m) <= n) by lia.
  destruct (locate_core_opt_tail_gen (loc_eqc cfg wq) thr cfg ref s1 s2 Hi ltac:(rewrite H1; exact Hk) Hsr Hsq (Z.max 0 (n - m - thr m))
              ltac:(rewrite H2; exact Hq0) Heq ltac:(rewrite H1; exact Hb) ltac:(rewrite H1, H2; reflexivity) 0 m qs n sc e Hloc) as [_ Hmin].
  assert (Hcp : ed (loc_eqc cfg wq) (indel_cost cfg) (zslice s1 0 m) (zslice s2 (n - m) n) 0).
  { apply ed_exact. apply (Forall2_of_nth _ 0 0).
    - pose proof (zslice_length s1 0 m ltac:(lia) ltac:(lia)) as L1.
      pose proof (zslice_length s2 (n - m) n ltac:(lia) ltac:(lia)) as L2. apply Nat2Z.inj. change (zlen (zslice s1 0 m) = zlen (zslice s2 (n - m) n)). lia.
    - intros t Ht.
      assert (Htm : (t < Z.to_nat m)%nat).
      { pose proof (zslice_length s1 0 m ltac:(lia) ltac:(lia)) as L1. unfold zlen at 1 in L1. lia. }
      rewrite nth_zslice by lia. rewrite nth_zslice by lia.
      specialize (Hcopy (Z.of_nat t) ltac:(lia)). unfold znth in Hcopy.
      destruct (Z.of_nat t <? 0) eqn:E1; [lia|]. destruct (n - m + Z.of_nat t <? 0) eqn:E2; [lia|].
      rewrite Nat2Z.id in Hcopy. replace (Z.to_nat (n - m + Z.of_nat t)) with (Z.to_nat (n - m) + t)%nat in Hcopy by lia. exact Hcopy. }
  pose proof (Hmin (n - m) 0 ltac:(lia) Hcp) as He0.
  pose proof (ed_nonneg _ _ Hi _ _ _ Hw) as He1. assert (He : e = 0) by lia. subst e.
  pose proof (ed_zero2 _ _ Hi _ _ _ Hw ltac:(lia)) as HF.
  destruct (Forall2_nth _ 0 0 _ _ HF) as [Hlen _].
  pose proof (zslice_length s1 0 m ltac:(lia) ltac:(lia)) as L1.
  pose proof (zslice_length s2 qs n ltac:(lia) ltac:(lia)) as L2.
  assert (Hlz : zlen (zslice s1 0 m) = zlen (zslice s2 qs n)) by (change (Z.of_nat (length (zslice s1 0 m)) = Z.of_nat (length (zslice s2 qs n))); rewrite Hlen; reflexivity).
  repeat split; lia.
Qed.

Theorem match_to_anchored3_exact thr ad read mt :
  a_type ad = Suffix -> a_indels ad = true ->
  0 <= thr (zlen (a_seq ad)) -> (forall L0, thr L0 <= thr (zlen (a_seq ad))) -> zlen (a_seq ad) <= zlen read ->
  (forall t, 0 <= t < zlen (a_seq ad) ->
     loc_eqc (ad_cfg ad) (a_wq ad) (znth 0 (loc_s1 (ad_cfg ad) (a_wq ad) (a_seq ad)) t)
                                   (znth 0 (loc_s2 (ad_cfg ad) (a_wq ad) read) (zlen read - zlen (a_seq ad) + t)) = true) ->
  match_to thr ad read = Some mt ->
  rstart mt = zlen read - zlen (a_seq ad) /\ rstop mt = zlen read /\ astart mt = 0 /\ astop mt = zlen (a_seq ad) /\ merrors mt = 0.
Proof.
  intros Hty Hind Hk Hb Hmn Hcopy.
  assert (Hflags : start_in_ref (ad_cfg ad) = false /\ start_in_query (ad_cfg ad) = true /\ stop_in_query (ad_cfg ad) = false /\ stop_in_ref (ad_cfg ad) = false).
  { unfold ad_cfg, cfg_of, aligner_flags. rewrite Hty. cbn [start_in_query start_in_ref stop_in_query stop_in_ref]. vm_compute. auto. }
  destruct Hflags as (Fsr & Fsq & Feq & Fer).
  unfold match_to, raw_locate. fold (ad_cfg ad). rewrite Hty, Hind. cbn [class_side].
  destruct (locate thr (ad_cfg ad) (a_wq ad) (a_seq ad) read) as [[[[[[rs re] qs] qe] sc] e]|] eqn:El; [|discriminate].
  intros H; injection H as <-; cbn [rstart rstop astart astop merrors].
  destruct (locate_anchored3_exact thr (ad_cfg ad) (a_wq ad) (a_seq ad) read rs re qs qe sc e (ad_indel_cost_pos ad) Fsr Fsq Feq Fer Hk Hb Hmn Hcopy El)
    as (A1 & A2 & A3 & A4 & A5).
  repeat split; assumption.
Qed.
