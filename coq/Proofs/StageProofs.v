(** The adapter-trimming stage of the pipeline model: every applied match lies inside the
    sequence it was found in (by C01's structure theorem), the rounds of --times compose into
    one interval of the original read ([remainder]), and every action yields what the
    documentation says.  Used by C03, C09, C16, C17. *)
From Coq Require Import ZArith List Bool Lia.
From CV Require Import Generated.Tables Model.Base Model.Align Model.Adapters Model.Kmer Model.Qualtrim Model.Pipeline
  Proofs.AlignProofs Proofs.AdapterProofs Proofs.KmerProofs Proofs.SliceProofs.
Import ListNotations.
Open Scope Z_scope.

Definition wf_single (ad : adapter) (thr : list Z) : Prop :=
  wf_adapter ad /\ 0 <= thr_of thr (zlen (a_seq ad)).

Definition wf_padapter (a : padapter) : Prop :=
  match a with
  | PSingle _ ad thr => wf_single ad thr
  | PLinked _ f ft b bt _ _ => wf_single f ft /\ wf_single b bt
  end.

(** a single match inside a sequence of length n *)
Definition sm_ok (n : Z) (x : smatch) : Prop :=
  sm_len x = n /\ 0 <= rstart (sm x) /\ rstart (sm x) <= rstop (sm x) /\ rstop (sm x) <= n /\
  (mside (sm x) = 0 \/ mside (sm x) = 1).

Definition iv_ok (n : Z) (iv : Z * Z) : Prop := 0 <= fst iv /\ fst iv <= snd iv /\ snd iv <= n.

Lemma single_match_ok ad thr s x :
  wf_single ad thr -> single_match ad thr s = Some x -> sm_ok (zlen s) x.
Proof.
  intros [Hwf Hk] H. unfold single_match in H.
  destruct (match_to_prefiltered (thr_of thr) ad s) as [m|] eqn:E; [|discriminate].
  inversion H; subst x; clear H.
  assert (Hm : match_to (thr_of thr) ad s = Some m).
  { destruct (prefilter_only_rejects (thr_of thr) ad s) as [H|H]; congruence. }
  apply match_to_structure in Hm; auto.
  destruct Hm as (h1 & h2 & h3 & h4 & h5 & h6 & h7 & h8).
  unfold sm_ok; cbn [sm sm_len]. repeat split; try lia.
  rewrite h8. unfold documented_side. destruct (a_type ad); auto. destruct (rstart m =? 0); auto.
Qed.

Lemma s_remainder_ok n x : sm_ok n x -> iv_ok n (s_remainder x).
Proof.
  intros (h1 & h2 & h3 & h4 & h5). unfold s_remainder, iv_ok.
  destruct (mside (sm x) =? 0); cbn [fst snd]; lia.
Qed.

Lemma s_trim_seq_slice {A} n x (s : list A) : sm_ok n x -> zlen s = n ->
  (if mside (sm x) =? 0 then pyslice (Some (rstop (sm x))) None s else pyslice None (Some (rstart (sm x))) s)
  = zslice s (fst (s_remainder x)) (snd (s_remainder x)).
Proof.
  intros (h1 & h2 & h3 & h4 & h5) Hs. unfold s_remainder.
  destruct (mside (sm x) =? 0); cbn [fst snd].
  - rewrite pyslice_from by lia. rewrite h1, Hs. reflexivity.
  - rewrite pyslice_to by lia. reflexivity.
Qed.

(** well-formed reads: qualities, if present, are as long as the sequence *)
Definition wf_read (r : read) : Prop :=
  match rqual r with Some q => zlen q = zlen (rseq r) | None => True end.

(** r' is the slice [a,b) of r (sequence and qualities alike, same name) *)
Definition read_slice (r' r : read) (a b : Z) : Prop :=
  rname r' = rname r /\ rseq r' = zslice (rseq r) a b /\ rqual r' = option_map (fun q => zslice q a b) (rqual r).

Lemma s_trimmed_slice n x r : sm_ok n x -> wf_read r -> rlen r = n ->
  read_slice (s_trimmed x r) r (fst (s_remainder x)) (snd (s_remainder x)).
Proof.
  intros Hok Hwf Hn. unfold read_slice, s_trimmed.
  pose proof (s_trim_seq_slice n x (rseq r) Hok Hn) as Hs.
  destruct (mside (sm x) =? 0) eqn:E; unfold rslice; cbn [rname rseq rqual]; (split; [reflexivity|]); (split; [exact Hs|]).
  - unfold wf_read in Hwf. destruct (rqual r) as [q|]; cbn [option_map]; [|reflexivity].
    f_equal. pose proof (s_trim_seq_slice n x q Hok) as Hq. rewrite E in Hq. apply Hq. unfold rlen in Hn. lia.
  - unfold wf_read in Hwf. destruct (rqual r) as [q|]; cbn [option_map]; [|reflexivity].
    f_equal. pose proof (s_trim_seq_slice n x q Hok) as Hq. rewrite E in Hq. apply Hq. unfold rlen in Hn. lia.
Qed.

Lemma read_slice_wf r' r a b : wf_read r -> iv_ok (rlen r) (a, b) -> read_slice r' r a b -> wf_read r' /\ rlen r' = b - a.
Proof.
  intros Hwf (h1 & h2 & h3) (_ & Hs & Hq). cbn [fst snd] in *. unfold wf_read, rlen in *.
  rewrite Hs, Hq. split.
  - destruct (rqual r) as [q|]; cbn [option_map]; [|exact I]. rewrite !zslice_zlen; lia.
  - apply zslice_zlen; lia.
Qed.

Lemma read_slice_trans r2 r1 r0 a b a' b' :
  iv_ok (rlen r0) (a, b) -> iv_ok (b - a) (a', b') -> wf_read r0 ->
  read_slice r1 r0 a b -> read_slice r2 r1 a' b' -> read_slice r2 r0 (a + a') (a + b').
Proof.
  intros (h1 & h2 & h3) (g1 & g2 & g3) Hwf (n1 & s1 & q1) (n2 & s2 & q2). cbn [fst snd] in *. unfold rlen in *.
  unfold read_slice. split; [congruence|]. split.
  - rewrite s2, s1. apply zslice_zslice; lia.
  - rewrite q2, q1. unfold wf_read in Hwf. destruct (rqual r0) as [q|]; cbn [option_map]; [|reflexivity].
    f_equal. apply zslice_zslice; lia.
Qed.

(** ---- matches (single or linked) inside a sequence of length n *)
Definition m_ok (n : Z) (m : match_t) : Prop :=
  match m with
  | MSingle _ x => sm_ok n x
  | MLinked _ (Some f) (Some b) => sm_ok n f /\ sm_ok (snd (s_remainder f) - fst (s_remainder f)) b
  | MLinked _ (Some f) None => sm_ok n f
  | MLinked _ None (Some b) => sm_ok n b
  | MLinked _ None None => False
  end.

Lemma remainder_single iv : remainder [iv] = iv.
Proof. destruct iv as [a b]. unfold remainder; cbn. f_equal; lia. Qed.

Lemma remainder_two a b a' b' : remainder [(a, b); (a', b')] = (a + a', a + b').
Proof. unfold remainder; cbn. f_equal; lia. Qed.

Lemma m_remainder_ok n m : m_ok n m -> iv_ok n (m_remainder m).
Proof.
  destruct m as [idx x|idx [f|] [b|]]; cbn [m_ok m_remainder olist app map].
  - apply s_remainder_ok.
  - intros [Hf Hb]. apply s_remainder_ok in Hf. apply s_remainder_ok in Hb.
    destruct (s_remainder f) as [a1 b1]. destruct (s_remainder b) as [a2 b2]. rewrite remainder_two.
    unfold iv_ok in *; cbn [fst snd] in *. lia.
  - intros Hf. rewrite remainder_single. apply s_remainder_ok; assumption.
  - intros Hb. rewrite remainder_single. apply s_remainder_ok; assumption.
  - intros [].
Qed.

Lemma m_trimmed_slice n m r : m_ok n m -> wf_read r -> rlen r = n ->
  read_slice (m_trimmed m r) r (fst (m_remainder m)) (snd (m_remainder m)).
Proof.
  destruct m as [idx x|idx [f|] [b|]]; cbn [m_ok m_remainder m_trimmed olist app map]; intros Hok Hwf Hn.
  - apply s_trimmed_slice with (n := n); assumption.
  - destruct Hok as [Hf Hb].
    pose proof (s_trimmed_slice n f r Hf Hwf Hn) as H1.
    pose proof (s_remainder_ok n f Hf) as Hiv.
    destruct (s_remainder f) as [a1 b1] eqn:Ef. cbn [fst snd] in *.
    assert (Hiv' : iv_ok (rlen r) (a1, b1)) by (rewrite Hn; exact Hiv).
    destruct (read_slice_wf _ _ _ _ Hwf Hiv' H1) as [Hwf1 Hlen1].
    pose proof (s_trimmed_slice (b1 - a1) b (s_trimmed f r) Hb Hwf1 Hlen1) as H2.
    pose proof (s_remainder_ok (b1 - a1) b Hb) as Hiv2.
    destruct (s_remainder b) as [a2 b2] eqn:Eb. cbn [fst snd] in *.
    rewrite remainder_two. cbn [fst snd].
    eapply read_slice_trans; eauto.
  - rewrite remainder_single. apply s_trimmed_slice with (n := n); assumption.
  - rewrite remainder_single. apply s_trimmed_slice with (n := n); assumption.
  - destruct Hok.
Qed.

Lemma adapter_match_ok idx a s m :
  wf_padapter a -> adapter_match idx a s = Some m -> m_ok (zlen s) m /\ m_idx m = idx.
Proof.
  destruct a as [nm ad thr|nm fa ft ba bt freq breq]; cbn [wf_padapter adapter_match].
  - intros Hwf H. destruct (single_match ad thr s) as [x|] eqn:E; [|discriminate]. inversion H; subst.
    split; [|reflexivity]. cbn [m_ok]. eapply single_match_ok; eauto.
  - intros [Hf Hb] H.
    destruct (single_match fa ft s) as [f|] eqn:Ef.
    + pose proof (single_match_ok _ _ _ _ Hf Ef) as Hfok.
      assert (Hs' : zlen (s_trim_seq f s) = snd (s_remainder f) - fst (s_remainder f)).
      { unfold s_trim_seq. pose proof (s_trim_seq_slice (zlen s) f s Hfok eq_refl) as Hx. unfold str in *. rewrite Hx.
        pose proof (s_remainder_ok _ _ Hfok) as (i1 & i2 & i3). apply zslice_zlen; lia. }
      destruct freq; cbn iota in H;
        (destruct (single_match ba bt (s_trim_seq f s)) as [b|] eqn:Eb;
         [ inversion H; subst; split; [|reflexivity]; cbn [m_ok]; split; [assumption|];
           rewrite <- Hs'; eapply single_match_ok; eauto
         | destruct breq; [discriminate|]; inversion H; subst; split; [|reflexivity]; cbn [m_ok]; assumption ]).
    + destruct freq; [discriminate|]. cbn iota in H.
      destruct (single_match ba bt s) as [b|] eqn:Eb; [|discriminate].
      inversion H; subst. split; [|reflexivity]. cbn [m_ok]. eapply single_match_ok; eauto.
Qed.

Lemma best_match_aux_ok : forall ads idx s best m,
  Forall wf_padapter ads ->
  (forall b, best = Some b -> m_ok (zlen s) b /\ (m_idx b < idx)%nat) ->
  best_match_aux idx ads s best = Some m ->
  m_ok (zlen s) m /\ (m_idx m < idx + length ads)%nat.
Proof.
  induction ads as [|a t IH]; intros idx s best m Hwf Hbest H; cbn [best_match_aux] in H.
  - destruct (Hbest m H) as [H1 H2]. split; [assumption | cbn; lia].
  - inversion Hwf as [|a' t' Ha Ht]; subst.
    apply IH in H; auto.
    + destruct H as [H1 H2]. split; [assumption | cbn [length]; lia].
    + intros b Hb.
      destruct (adapter_match idx a s) as [m'|] eqn:Em.
      * destruct (adapter_match_ok idx a s m' Ha Em) as [Hok Hidx].
        destruct best as [b0|].
        -- destruct (Hbest b0 eq_refl) as [Hb0 Hi0].
           destruct ((m_score b0 <? m_score m') || (m_score m' =? m_score b0) && (m_errors m' <? m_errors b0));
             inversion Hb; subst; split; auto; lia.
        -- inversion Hb; subst. split; auto; lia.
      * destruct (Hbest b Hb) as [Hb0 Hi0]. split; auto; lia.
Qed.

Lemma best_match_ok ads s m :
  Forall wf_padapter ads -> best_match ads s = Some m -> m_ok (zlen s) m /\ (m_idx m < length ads)%nat.
Proof.
  intros Hwf H. unfold best_match in H. apply best_match_aux_ok in H; auto.
  intros b Hb; discriminate.
Qed.

(** ---- rounds compose: the final read is the slice [remainder] of the read the stage received *)
Lemma remainder_aux_shift : forall ivs start lastlen a0,
  remainder_aux ivs (a0 + start) lastlen =
  (a0 + fst (remainder_aux ivs start lastlen), a0 + snd (remainder_aux ivs start lastlen)).
Proof.
  induction ivs as [|[a b] t IH]; intros start lastlen a0; cbn [remainder_aux fst snd].
  - f_equal; lia.
  - replace (a0 + start + a) with (a0 + (start + a)) by lia. apply IH.
Qed.

Lemma remainder_cons a b ivs : ivs <> [] ->
  remainder ((a, b) :: ivs) = (a + fst (remainder ivs), a + snd (remainder ivs)).
Proof.
  intros Hne. unfold remainder. cbn [remainder_aux].
  destruct ivs as [|[a' b'] t]; [contradiction|]. cbn [remainder_aux].
  replace (0 + a + a') with (a + (0 + a')) by lia. apply remainder_aux_shift.
Qed.

Lemma rounds_spec ads : Forall wf_padapter ads -> forall times r r' ms,
  wf_read r -> rounds ads times r = (r', ms) ->
  Forall (fun m => (m_idx m < length ads)%nat) ms /\
  match ms with
  | [] => r' = r
  | _ => iv_ok (rlen r) (remainder (map m_remainder ms)) /\
         read_slice r' r (fst (remainder (map m_remainder ms))) (snd (remainder (map m_remainder ms)))
  end.
Proof.
  intros Hwf. induction times as [|t IH]; intros r r' ms Hr H; cbn [rounds] in H.
  - inversion H; subst. split; [constructor | reflexivity].
  - destruct (best_match ads (rseq r)) as [m|] eqn:Eb.
    + destruct (best_match_ok ads (rseq r) m Hwf Eb) as [Hok Hidx].
      destruct (rounds ads t (m_trimmed m r)) as [r1 ms1] eqn:Er. inversion H; subst r' ms; clear H.
      pose proof (m_trimmed_slice (zlen (rseq r)) m r Hok Hr eq_refl) as Hsl.
      pose proof (m_remainder_ok _ _ Hok) as Hiv.
      destruct (m_remainder m) as [a b] eqn:Em. cbn [fst snd] in *.
      destruct (read_slice_wf _ _ _ _ Hr Hiv Hsl) as [Hwf1 Hlen1].
      destruct (IH (m_trimmed m r) r1 ms1 Hwf1 Er) as [Hall Hrest].
      split; [constructor; assumption|].
      cbn [map]. rewrite Em.
      destruct ms1 as [|m1 ms1'].
      * subst r1. rewrite remainder_single. cbn [fst snd]. split; assumption.
      * destruct Hrest as [Hiv1 Hsl1]. rewrite Hlen1 in Hiv1.
        rewrite remainder_cons by (cbn; discriminate). cbn [fst snd].
        set (iv1 := remainder (map m_remainder (m1 :: ms1'))) in *.
        destruct iv1 as [a1 b1]. cbn [fst snd] in *.
        split.
        -- unfold iv_ok, rlen in *; cbn [fst snd] in *. lia.
        -- eapply read_slice_trans; eauto.
    + inversion H; subst. split; [constructor | reflexivity].
Qed.
