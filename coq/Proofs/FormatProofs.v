(** The output format is a function of the output file name (before any compression suffix) and of
    whether the input has qualities -- nothing else. *)
From Coq Require Import ZArith List Bool Lia.
From CV Require Import Model.Base Model.Parser Model.Format.
Import ListNotations.
Open Scope Z_scope.

(** [name] does not itself end in a compression suffix *)
Definition uncompressed_name (name : str) : Prop :=
  strip_first_rev compression_suffixes (rev name) = rev name.

Lemma detect_compression_irrelevant name comp :
  In comp compression_suffixes -> uncompressed_name name ->
  detect_format (name ++ comp) = detect_format name.
Proof.
  intros Hin Hu. unfold detect_format. rewrite Hu. rewrite rev_app_distr.
  assert (E : strip_first_rev compression_suffixes (rev comp ++ rev name) = rev name).
  { cbn in Hin. destruct Hin as [<-|[<-|[<-|[<-|[]]]]]; reflexivity. }
  rewrite E. reflexivity.
Qed.

Lemma compression_irrelevant name comp q :
  In comp compression_suffixes -> uncompressed_name name ->
  output_format (name ++ comp) q = output_format name q.
Proof. intros H1 H2. unfold output_format. rewrite (detect_compression_irrelevant _ _ H1 H2). reflexivity. Qed.

Lemma stem_ok_cons c t : c <> 46 -> c <> 47 -> stem_ok (c :: t) = true.
Proof.
  intros H1 H2. cbn [stem_ok]. destruct (c =? 47) eqn:E1; [apply Z.eqb_eq in E1; contradiction|].
  destruct (c =? 46) eqn:E2; [apply Z.eqb_eq in E2; contradiction|]. reflexivity.
Qed.

Lemma detect_fasta stem c ext :
  c <> 46 -> c <> 47 -> In ext fasta_exts -> detect_format (stem ++ [c] ++ ext) = Some Fasta.
Proof.
  intros H1 H2 Hin. unfold detect_format. rewrite !rev_app_distr. pose proof (stem_ok_cons c (rev stem) H1 H2) as Hs.
  cbn in Hin. destruct Hin as [<-|[<-|[<-|[<-|[<-|[]]]]]]; cbn [rev app e_fasta e_fa e_fna e_csfasta e_csfa];
    cbn [strip_first_rev compression_suffixes s_gz s_xz s_bz2 s_zst rev app starts_with Z.eqb Pos.eqb andb];
    unfold splitext_rev; cbn [split_rev Z.eqb Pos.eqb]; rewrite Hs; reflexivity.
Qed.

Lemma detect_fastq stem c ext :
  c <> 46 -> c <> 47 -> In ext fastq_exts -> detect_format (stem ++ [c] ++ ext) = Some Fastq.
Proof.
  intros H1 H2 Hin. unfold detect_format. rewrite !rev_app_distr. pose proof (stem_ok_cons c (rev stem) H1 H2) as Hs.
  cbn in Hin. destruct Hin as [<-|[<-|[]]]; cbn [rev app e_fastq e_fq];
    cbn [strip_first_rev compression_suffixes s_gz s_xz s_bz2 s_zst rev app starts_with Z.eqb Pos.eqb andb];
    unfold splitext_rev; cbn [split_rev Z.eqb Pos.eqb]; rewrite Hs; reflexivity.
Qed.

(** the file name decides: a FASTA extension always gives FASTA; a FASTQ extension gives FASTQ exactly
    when there are qualities to write; with and without a compression suffix *)
Theorem name_decides_format stem c q :
  c <> 46 -> c <> 47 ->
  (forall ext, In ext fasta_exts -> output_format (stem ++ [c] ++ ext) q = Fasta) /\
  (forall ext, In ext fastq_exts -> output_format (stem ++ [c] ++ ext) q = if q then Fastq else Fasta).
Proof.
  intros H1 H2. split; intros ext Hin; unfold output_format.
  - rewrite (detect_fasta _ _ _ H1 H2 Hin). reflexivity.
  - rewrite (detect_fastq _ _ _ H1 H2 Hin). reflexivity.
Qed.

Theorem unknown_name_falls_back name q :
  detect_format name = None -> output_format name q = if q then Fastq else Fasta.
Proof. intros H. unfold output_format. rewrite H. reflexivity. Qed.

(** non-vacuity: out.fasta is an uncompressed name and out.fasta.gz is FASTA *)
Example format_example :
  uncompressed_name ([111; 117; 116] ++ e_fasta) /\
  output_format ([111; 117; 116] ++ e_fasta ++ s_gz) true = Fasta /\
  output_format ([111; 117; 116] ++ e_fq ++ s_zst) true = Fastq /\
  output_format ([111; 117; 116] ++ e_fq) false = Fasta /\
  output_format [111; 117; 116] true = Fastq.
Proof. repeat split; vm_compute; reflexivity. Qed.
