(** C08, last clause: for anchored adapters of equal length with indels disabled, the index and the
    one-by-one search (best of the individual comparers: highest score, then fewest errors, then the
    adapter given first) report the same adapter, the same coordinates and the same error count on
    every read whose anchored end is strictly closer to one adapter (within that adapter's tolerance)
    than to every other adapter that is within its own tolerance. *)
From Coq Require Import ZArith List Bool Lia.
From CV Require Import Generated.Tables Generated.Scores Generated.Flags Model.Base Model.Align Model.Adapters Model.Kmer Model.Index Model.Pipeline
  Proofs.AlignProofs Proofs.AdapterProofs Proofs.SliceProofs Proofs.KmerProofs Proofs.IndexProofs Proofs.IndexLoop Proofs.ActionProofs.
Import ListNotations.
Open Scope Z_scope.

(** ---- the index side *)
Definition equal_noindel (L : Z) (ads : list iad) : Prop :=
  Forall (fun a => a_indels (ia_ad a) = false /\ zlen (a_seq (ia_ad a)) = L) ads.

Lemma index_lengths_equal L ads : equal_noindel L ads -> ads <> [] -> index_lengths ads = [L].
Proof.
  intros Heq Hne. unfold index_lengths.
  assert (Hfm : Forall (fun x => x = L) (flat_map lengths_of ads) /\ flat_map lengths_of ads <> []).
  { induction ads as [|a t IH]; [contradiction|]. inversion Heq as [|x l Hx Ht]; subst. destruct Hx as [Hi Hl]. cbn [flat_map].
    unfold lengths_of at 1 3. rewrite Hi, Hl. cbn [app]. split; [|discriminate].
    constructor; [reflexivity|]. destruct t as [|b t']; [constructor|]. apply IH; [exact Ht | discriminate]. }
  destruct Hfm as [Hall Hnn]. revert Hall Hnn. generalize (flat_map lengths_of ads). intros l Hall Hnn.
  assert (Hgo : forall l acc, Forall (fun x => x = L) l -> acc = [L] -> fold_left (fun acc x => insert_desc x acc) l acc = [L]).
  { induction l0 as [|x t IH]; intros acc Ha Hacc; cbn [fold_left]; [exact Hacc|]. inversion Ha; subst.
    apply IH; [assumption|]. cbn [insert_desc]. rewrite Z.ltb_irrefl, Z.eqb_refl. reflexivity. }
  destruct l as [|x t]; [contradiction|]. inversion Hall; subst. cbn [fold_left insert_desc]. apply Hgo; [assumption | reflexivity].
Qed.

Theorem index_equal_length prefix L ads sequence r0 a0 e0 m0 :
  equal_noindel L ads -> nth_error ads r0 = Some a0 ->
  let affix := make_affix prefix (map (tr upper_table) sequence) L in
  has_n affix = false ->
  entry_for a0 affix = Some (e0, m0) ->
  (forall j b, j <> r0 -> nth_error ads j = Some b -> beaten affix m0 b) ->
  index_match prefix ads sequence = Some (make_match prefix (zlen sequence) r0 L m0 e0).
Proof.
  intros Heq Hn affix Hnn He Hbeat.
  assert (Hne : ads <> []) by (intros ->; destruct r0; discriminate).
  unfold index_match. rewrite (index_lengths_equal L ads Heq Hne). unfold match_one_length. fold affix.
  unfold lookup_affix. rewrite Hnn.
  destruct (nth_error_split ads r0 Hn) as (l1 & l2 & Hads & Hl1).
  assert (Hlook : index_lookup ads affix = Some (length l1, e0, m0)).
  { apply (index_lookup_unique_best ads affix l1 a0 l2 e0 m0 Hads He).
    intros b Hb. destruct Hb as [Hb|Hb].
    - apply In_nth_error in Hb. destruct Hb as [j Hj]. apply (Hbeat j b).
      + assert (j < length l1)%nat by (apply nth_error_Some; rewrite Hj; discriminate). lia.
      + rewrite Hads, nth_error_app1; [exact Hj | apply nth_error_Some; rewrite Hj; discriminate].
    - apply In_nth_error in Hb. destruct Hb as [j Hj]. apply (Hbeat (length l1 + S j)%nat b).
      + lia.
      + rewrite Hads, nth_error_app2 by lia. replace (length l1 + S j - length l1)%nat with (S j) by lia. exact Hj. }
  rewrite Hlook, Hl1. reflexivity.
Qed.

(** ---- the one-by-one side: anchored 5' adapters without indels are compared position by position *)
Lemma mismatches_hamming : forall (t s : str), (length t <= length s)%nat ->
  mismatches eq_ascii t s = hamming t (firstn (length t) s).
Proof.
  induction t as [|a t IH]; intros s Hl; [destruct s; reflexivity|].
  destruct s as [|b s]; [cbn [length] in Hl; lia|]. cbn [mismatches hamming firstn length] in *.
  unfold eq_ascii at 1. rewrite IH by lia. reflexivity.
Qed.

Lemma ham_go_total : forall (t s : str) e0, length s = length t -> Forall (fun c => is_acgt c = true) s ->
  ham_go t s e0 = Some (e0 + hamming t s).
Proof.
  induction t as [|a t IH]; intros s e0 Hl Hall.
  { destruct s; [cbn; f_equal; lia | discriminate]. }
  destruct s as [|b s]; [discriminate|]. cbn [ham_go hamming length] in *.
  inversion Hall; subst. injection Hl as Hl. destruct (a =? b).
  - rewrite IH by assumption. f_equal.
  - match goal with H : is_acgt b = true |- _ => rewrite H end. rewrite IH by assumption. f_equal. lia.
Qed.

(** what is assumed of each indexed adapter: an anchored 5' adapter as the parser builds it for the index *)
Definition prefix_iad (L : Z) (a : iad) : Prop :=
  a_type (ia_ad a) = Prefix /\ a_indels (ia_ad a) = false /\ a_wref (ia_ad a) = false /\ a_wq (ia_ad a) = false /\
  zlen (a_seq (ia_ad a)) = L /\ a_min_overlap (ia_ad a) = L /\ map (tr upper_table) (a_seq (ia_ad a)) = a_seq (ia_ad a) /\
  ia_k a = thr_of (ia_thr a) L.

Definition to_p (a : iad) : padapter := PSingle [] (ia_ad a) (ia_thr a).

Definition comparer_result (L n h : Z) : smatch := mkSM (mkM 0 L 0 L (L - 2 * h) h 0) n.

Lemma prefix_single_match L a s :
  prefix_iad L a -> L <= zlen s -> 0 <= L ->
  let affix := make_affix true (map (tr upper_table) s) L in
  let h := hamming (a_seq (ia_ad a)) affix in
  single_match (ia_ad a) (ia_thr a) s = if h <=? ia_k a then Some (comparer_result L (zlen s) h) else None.
Proof.
  intros (Ht & Hi & Hwr & Hwq & Hl & Hov & Hup & Hk) Hs HL. cbv zeta.
  unfold single_match. rewrite comparer_no_prefilter by (unfold uses_comparer; rewrite Ht, Hi; reflexivity).
  unfold match_to, raw_locate. rewrite Ht, Hi, Hwr, Hwq, Hov.
  unfold prefix_locate. cbn [orb]. rewrite Hup.
  assert (Haff : make_affix true (map (tr upper_table) s) L = firstn (length (a_seq (ia_ad a))) (map (tr upper_table) s)).
  { unfold make_affix. rewrite pyslice_to by (rewrite zlen_map; lia). unfold zslice. cbn [Z.to_nat skipn]. f_equal. unfold zlen in Hl. lia. }
  rewrite Haff.
  rewrite (mismatches_hamming (a_seq (ia_ad a)) (map (tr upper_table) s)) by (rewrite map_length; unfold zlen in *; lia).
  set (h := hamming _ _). unfold comparer_eff_len. rewrite Hl, Z.min_l by lia. rewrite Hk.
  assert (E2 : (L <? L) = false) by (apply Z.ltb_irrefl). rewrite E2, orb_false_r.
  destruct (h <=? thr_of (ia_thr a) L) eqn:E.
  - apply Z.leb_le in E. assert (E1 : (thr_of (ia_thr a) L <? h) = false) by (apply Z.ltb_ge; lia). rewrite E1.
    unfold comparer_result, class_side, cls_PrefixAdapter_side, MATCH_SCORE, MISMATCH_SCORE. cbn [Z.eqb]. do 3 f_equal. lia.
  - apply Z.leb_gt in E. assert (E1 : (thr_of (ia_thr a) L <? h) = true) by (apply Z.ltb_lt; lia). rewrite E1. reflexivity.
Qed.

Lemma entry_for_hamming L a affix :
  prefix_iad L a -> zlen affix = L -> Forall (fun c => is_acgt c = true) affix ->
  let h := hamming (a_seq (ia_ad a)) affix in
  entry_for a affix = if h <=? ia_k a then Some (h, L - h) else None.
Proof.
  intros (_ & Hi & _ & _ & Hl & _ & _ & _) Hal Hacgt. cbv zeta. unfold entry_for. rewrite Hi. unfold ham_entry.
  rewrite ham_go_total by (unfold zlen in *; try lia; assumption). rewrite Hl. cbn [Z.add]. reflexivity.
Qed.

(** the clause: indexed and one-by-one search agree *)
Theorem index_agrees_with_one_by_one L ads s r0 a0 :
  1 <= L -> Forall (prefix_iad L) ads -> L <= zlen s ->
  let affix := make_affix true (map (tr upper_table) s) L in
  Forall (fun c => is_acgt c = true) affix ->
  nth_error ads r0 = Some a0 ->
  let h0 := hamming (a_seq (ia_ad a0)) affix in
  h0 <= ia_k a0 ->
  (forall j b, j <> r0 -> nth_error ads j = Some b -> hamming (a_seq (ia_ad b)) affix <= ia_k b -> h0 < hamming (a_seq (ia_ad b)) affix) ->
  index_match true ads s = Some (r0, 0, L, h0, L - h0) /\
  best_match (map to_p ads) s = Some (MSingle r0 (comparer_result L (zlen s) h0)).
Proof.
  intros HL Hall Hs affix Hacgt Hn h0 Hh0 Huniq.
  assert (Hal : zlen affix = L).
  { subst affix. unfold make_affix. rewrite pyslice_to by (rewrite zlen_map; lia). rewrite zslice_length by (rewrite ?zlen_map; lia). lia. }
  assert (Hnn : has_n affix = false).
  { unfold has_n. apply not_true_is_false. intros Hex. apply existsb_exists in Hex. destruct Hex as (c & Hc & Ec).
    rewrite Forall_forall in Hacgt. specialize (Hacgt c Hc). apply Z.eqb_eq in Ec. subst c. discriminate. }
  assert (Hp : forall j b, nth_error ads j = Some b -> prefix_iad L b).
  { intros j b Hj. rewrite Forall_forall in Hall. apply Hall. eapply nth_error_In; eauto. }
  split.
  - (* the index *)
    assert (Heq : equal_noindel L ads).
    { unfold equal_noindel. eapply Forall_impl; [|exact Hall]. intros a (_ & Hi & _ & _ & Hl & _). split; assumption. }
    pose proof (index_equal_length true L ads s r0 a0 h0 (L - h0) Heq Hn) as Hidx. cbv zeta in Hidx. fold affix in Hidx.
    unfold make_match in Hidx. apply Hidx; [exact Hnn| |].
    + rewrite (entry_for_hamming L a0 affix (Hp _ _ Hn) Hal Hacgt). fold h0. apply Z.leb_le in Hh0. rewrite Hh0. reflexivity.
    + intros j b Hj Hb. unfold beaten. rewrite (entry_for_hamming L b affix (Hp _ _ Hb) Hal Hacgt).
      destruct (hamming (a_seq (ia_ad b)) affix <=? ia_k b) eqn:E; [|exact I]. apply Z.leb_le in E. specialize (Huniq j b Hj Hb E). lia.
  - (* one by one *)
    assert (Hcand : forall j, cand (map to_p ads) s j =
              match nth_error ads j with
              | Some b => let h := hamming (a_seq (ia_ad b)) affix in
                          if h <=? ia_k b then Some (MSingle j (comparer_result L (zlen s) h)) else None
              | None => None
              end).
    { intros j. unfold cand. rewrite nth_error_map. destruct (nth_error ads j) as [b|] eqn:Ej; [|reflexivity]. cbn [option_map to_p adapter_match].
      rewrite (prefix_single_match L b s (Hp _ _ Ej) Hs ltac:(lia)). fold affix. cbv zeta.
      destruct (hamming (a_seq (ia_ad b)) affix <=? ia_k b); reflexivity. }
    pose proof (best_match_spec (map to_p ads) s) as Hspec.
    assert (Hc0 : cand (map to_p ads) s r0 = Some (MSingle r0 (comparer_result L (zlen s) h0))).
    { rewrite Hcand, Hn. cbv zeta. fold h0. apply Z.leb_le in Hh0. rewrite Hh0. reflexivity. }
    destruct (best_match (map to_p ads) s) as [b|].
    + destruct Hspec as (ib & Hib & Hnw & _).
      destruct (Nat.eq_dec ib r0) as [->|Hne]; [rewrite Hc0 in Hib; exact (eq_sym Hib)|]. exfalso.
      rewrite Hcand in Hib. destruct (nth_error ads ib) as [bb|] eqn:Eib; [|discriminate]. cbv zeta in Hib.
      destruct (hamming (a_seq (ia_ad bb)) affix <=? ia_k bb) eqn:E; [|discriminate]. apply Z.leb_le in E.
      injection Hib as <-. specialize (Huniq ib bb Hne Eib E).
      specialize (Hnw r0 _ Hc0). unfold not_worse, comparer_result in Hnw. cbn [m_score m_errors sm mscore merrors] in Hnw. lia.
    + specialize (Hspec r0). rewrite Hc0 in Hspec. discriminate.
Qed.

(** ---- anchored 3' adapters: the comparer works on the reversed strings *)
Lemma hamming_app : forall (t1 s1 t2 s2 : str), length t1 = length s1 -> hamming (t1 ++ t2) (s1 ++ s2) = hamming t1 s1 + hamming t2 s2.
Proof.
  induction t1 as [|a t1 IH]; intros s1 t2 s2 Hl; destruct s1 as [|b s1]; try discriminate; [reflexivity|].
  cbn [app hamming]. rewrite IH by (cbn in Hl; lia). lia.
Qed.

Lemma hamming_rev : forall (t s : str), length t = length s -> hamming (rev t) (rev s) = hamming t s.
Proof.
  induction t as [|a t IH]; intros s Hl; destruct s as [|b s]; try discriminate; [reflexivity|].
  cbn [rev]. rewrite hamming_app by (rewrite !rev_length; cbn in Hl; lia). rewrite IH by (cbn in Hl; lia). cbn [hamming]. lia.
Qed.

Lemma pyslice_last {A} (u : list A) L : 1 <= L <= zlen u -> pyslice (Some (- L)) None u = skipn (length u - Z.to_nat L) u.
Proof.
  intros HL. unfold pyslice, norm_idx. assert (E : (- L <? 0) = true) by (apply Z.ltb_lt; lia). rewrite E.
  rewrite Z.min_r, Z.max_r by lia. rewrite firstn_all2 by (rewrite skipn_length; unfold zlen in *; lia).
  f_equal. unfold zlen in *. lia.
Qed.

Lemma firstn_rev {A} (u : list A) k : (k <= length u)%nat -> firstn k (rev u) = rev (skipn (length u - k) u).
Proof.
  intros Hk. rewrite <- (firstn_skipn (length u - k) u) at 1. rewrite rev_app_distr.
  rewrite firstn_app, rev_length, skipn_length. replace (k - (length u - (length u - k)))%nat with 0%nat by lia.
  cbn [firstn]. rewrite app_nil_r. apply firstn_all2. rewrite rev_length, skipn_length. lia.
Qed.

Definition suffix_iad (L : Z) (a : iad) : Prop :=
  a_type (ia_ad a) = Suffix /\ a_indels (ia_ad a) = false /\ a_wref (ia_ad a) = false /\ a_wq (ia_ad a) = false /\
  zlen (a_seq (ia_ad a)) = L /\ a_min_overlap (ia_ad a) = L /\ map (tr upper_table) (a_seq (ia_ad a)) = a_seq (ia_ad a) /\
  ia_k a = thr_of (ia_thr a) L.

Definition suffix_result (L n h : Z) : smatch := mkSM (mkM 0 L (n - L) n (L - 2 * h) h 1) n.

Lemma suffix_single_match L a s :
  suffix_iad L a -> L <= zlen s -> 1 <= L ->
  let affix := make_affix false (map (tr upper_table) s) L in
  let h := hamming (a_seq (ia_ad a)) affix in
  single_match (ia_ad a) (ia_thr a) s = if h <=? ia_k a then Some (suffix_result L (zlen s) h) else None.
Proof.
  intros (Ht & Hi & Hwr & Hwq & Hl & Hov & Hup & Hk) Hs HL. cbv zeta.
  unfold single_match. rewrite comparer_no_prefilter by (unfold uses_comparer; rewrite Ht, Hi; reflexivity).
  unfold match_to, raw_locate. rewrite Ht, Hi, Hwr, Hwq, Hov.
  unfold suffix_locate, prefix_locate. cbn [orb].
  rewrite map_rev, Hup.
  set (u := map (tr upper_table) s).
  assert (Hul : length u = length s) by (subst u; apply map_length).
  assert (Haff : make_affix false u L = skipn (length u - length (a_seq (ia_ad a))) u).
  { unfold make_affix. rewrite pyslice_last by (unfold zlen in *; lia). f_equal. unfold zlen in *. lia. }
  rewrite Haff. rewrite map_rev. fold u.
  rewrite (mismatches_hamming (rev (a_seq (ia_ad a))) (rev u)) by (rewrite !rev_length; unfold zlen in *; lia).
  rewrite rev_length.
  assert (Hfr : firstn (length (a_seq (ia_ad a))) (rev u) = rev (skipn (length u - length (a_seq (ia_ad a))) u)).
  { apply firstn_rev. unfold zlen in *. lia. }
  rewrite Hfr, hamming_rev by (rewrite skipn_length; unfold zlen in *; lia).
  set (h := hamming _ _). unfold comparer_eff_len. rewrite !zlen_rev, Hl, Z.min_l by lia. rewrite Hk.
  assert (E2 : (L <? L) = false) by (apply Z.ltb_irrefl). rewrite E2, orb_false_r.
  destruct (h <=? thr_of (ia_thr a) L) eqn:E.
  - apply Z.leb_le in E. assert (E1 : (thr_of (ia_thr a) L <? h) = false) by (apply Z.ltb_ge; lia). rewrite E1.
    unfold suffix_result, class_side, cls_SuffixAdapter_side, MATCH_SCORE, MISMATCH_SCORE. cbn [Z.eqb]. do 3 f_equal; lia.
  - apply Z.leb_gt in E. assert (E1 : (thr_of (ia_thr a) L <? h) = true) by (apply Z.ltb_lt; lia). rewrite E1. reflexivity.
Qed.

Lemma entry_for_hamming' L a affix :
  a_indels (ia_ad a) = false -> zlen (a_seq (ia_ad a)) = L -> zlen affix = L -> Forall (fun c => is_acgt c = true) affix ->
  let h := hamming (a_seq (ia_ad a)) affix in
  entry_for a affix = if h <=? ia_k a then Some (h, L - h) else None.
Proof.
  intros Hi Hl Hal Hacgt. cbv zeta. unfold entry_for. rewrite Hi. unfold ham_entry.
  rewrite ham_go_total by (unfold zlen in *; try lia; assumption). rewrite Hl. cbn [Z.add]. reflexivity.
Qed.

Theorem index_agrees_with_one_by_one_suffix L ads s r0 a0 :
  1 <= L -> Forall (suffix_iad L) ads -> L <= zlen s ->
  let affix := make_affix false (map (tr upper_table) s) L in
  Forall (fun c => is_acgt c = true) affix ->
  nth_error ads r0 = Some a0 ->
  let h0 := hamming (a_seq (ia_ad a0)) affix in
  h0 <= ia_k a0 ->
  (forall j b, j <> r0 -> nth_error ads j = Some b -> hamming (a_seq (ia_ad b)) affix <= ia_k b -> h0 < hamming (a_seq (ia_ad b)) affix) ->
  index_match false ads s = Some (r0, zlen s - L, zlen s, h0, L - h0) /\
  best_match (map to_p ads) s = Some (MSingle r0 (suffix_result L (zlen s) h0)).
Proof.
  intros HL Hall Hs affix Hacgt Hn h0 Hh0 Huniq.
  assert (Hal : zlen affix = L).
  { subst affix. unfold make_affix. rewrite pyslice_last by (rewrite zlen_map; lia). unfold zlen. rewrite skipn_length, map_length. unfold zlen in Hs. lia. }
  assert (Hnn : has_n affix = false).
  { unfold has_n. apply not_true_is_false. intros Hex. apply existsb_exists in Hex. destruct Hex as (c & Hc & Ec).
    rewrite Forall_forall in Hacgt. specialize (Hacgt c Hc). apply Z.eqb_eq in Ec. subst c. discriminate. }
  assert (Hp : forall j b, nth_error ads j = Some b -> suffix_iad L b).
  { intros j b Hj. rewrite Forall_forall in Hall. apply Hall. eapply nth_error_In; eauto. }
  assert (Hpi : forall j b, nth_error ads j = Some b -> a_indels (ia_ad b) = false /\ zlen (a_seq (ia_ad b)) = L).
  { intros j b Hj. destruct (Hp j b Hj) as (_ & Hi & _ & _ & Hl & _). split; assumption. }
  split.
  - assert (Heq : equal_noindel L ads).
    { unfold equal_noindel. eapply Forall_impl; [|exact Hall]. intros a (_ & Hi & _ & _ & Hl & _). split; assumption. }
    pose proof (index_equal_length false L ads s r0 a0 h0 (L - h0) Heq Hn) as Hidx. cbv zeta in Hidx. fold affix in Hidx.
    unfold make_match in Hidx. apply Hidx; [exact Hnn| |].
    + destruct (Hpi _ _ Hn) as [Hi Hl]. rewrite (entry_for_hamming' L a0 affix Hi Hl Hal Hacgt). fold h0. apply Z.leb_le in Hh0. rewrite Hh0. reflexivity.
    + intros j b Hj Hb. unfold beaten. destruct (Hpi _ _ Hb) as [Hi Hl]. rewrite (entry_for_hamming' L b affix Hi Hl Hal Hacgt).
      destruct (hamming (a_seq (ia_ad b)) affix <=? ia_k b) eqn:E; [|exact I]. apply Z.leb_le in E. specialize (Huniq j b Hj Hb E). lia.
  - assert (Hcand : forall j, cand (map to_p ads) s j =
              match nth_error ads j with
              | Some b => let h := hamming (a_seq (ia_ad b)) affix in
                          if h <=? ia_k b then Some (MSingle j (suffix_result L (zlen s) h)) else None
              | None => None
              end).
    { intros j. unfold cand. rewrite nth_error_map. destruct (nth_error ads j) as [b|] eqn:Ej; [|reflexivity]. cbn [option_map to_p adapter_match].
      rewrite (suffix_single_match L b s (Hp _ _ Ej) Hs HL). fold affix. cbv zeta.
      destruct (hamming (a_seq (ia_ad b)) affix <=? ia_k b); reflexivity. }
    pose proof (best_match_spec (map to_p ads) s) as Hspec.
    assert (Hc0 : cand (map to_p ads) s r0 = Some (MSingle r0 (suffix_result L (zlen s) h0))).
    { rewrite Hcand, Hn. cbv zeta. fold h0. apply Z.leb_le in Hh0. rewrite Hh0. reflexivity. }
    destruct (best_match (map to_p ads) s) as [b|].
    + destruct Hspec as (ib & Hib & Hnw & _).
      destruct (Nat.eq_dec ib r0) as [->|Hne]; [rewrite Hc0 in Hib; exact (eq_sym Hib)|]. exfalso.
      rewrite Hcand in Hib. destruct (nth_error ads ib) as [bb|] eqn:Eib; [|discriminate]. cbv zeta in Hib.
      destruct (hamming (a_seq (ia_ad bb)) affix <=? ia_k bb) eqn:E; [|discriminate]. apply Z.leb_le in E.
      injection Hib as <-. specialize (Huniq ib bb Hne Eib E).
      specialize (Hnw r0 _ Hc0). unfold not_worse, suffix_result in Hnw. cbn [m_score m_errors sm mscore merrors] in Hnw. lia.
    + specialize (Hspec r0). rewrite Hc0 in Hspec. discriminate.
Qed.
