(** Layer (A) of C01 for Aligner.locate: every origin stored in the DP column points
    inside the matrix and respects the two start flags; hence every reported result has
    coordinates inside reference and query, obeys the placement rule given by the four
    flags, covers at least min_overlap reference characters and its cost is at most
    thr (number of non-N reference characters aligned). *)
From Coq Require Import ZArith List Bool Lia.
From CV Require Import Generated.Scores Model.Align.
Import ListNotations.
Open Scope Z_scope.

Lemma zlen_nonneg {A} (l : list A) : 0 <= zlen l.
Proof. unfold zlen; lia. Qed.

Lemma zlen_cons {A} (x : A) l : zlen (x :: l) = zlen l + 1.
Proof. unfold zlen; cbn [length]; lia. Qed.

Lemma zlen_nil {A} : zlen (@nil A) = 0.
Proof. reflexivity. Qed.

Lemma In_firstn {A} (x : A) : forall n l, In x (firstn n l) -> In x l.
Proof.
  induction n as [|n IH]; intros l H; [cbn in H; contradiction|].
  destruct l as [|y l]; [cbn in H; contradiction|]. cbn in H. destruct H as [H|H]; [left; auto | right; auto].
Qed.

Section A.
  Variable eqc : Z -> Z -> bool.
  Variable thr : Z -> Z.
  Variable cfg : acfg.
  Variable rawref : list Z.
  Variable s1 : list Z.

  Notation m := (zlen s1).

  Definition ent_ok (i j : Z) (e : entry) : Prop :=
    - i <= origin e /\ origin e <= j /\
    (start_in_ref cfg = false -> 0 <= origin e) /\
    (start_in_query cfg = false -> origin e <= 0).

  Inductive col_ok (j : Z) : Z -> list entry -> Prop :=
  | col_nil : forall i, col_ok j i []
  | col_cons : forall i e l, ent_ok i j e -> col_ok j (i + 1) l -> col_ok j i (e :: l).

  Lemma ent_ok_mono i j j' e : ent_ok i j e -> j <= j' -> ent_ok i j' e.
  Proof. unfold ent_ok; intros (a & b & c & d) H; repeat split; auto; lia. Qed.

  Lemma col_ok_mono j j' i l : col_ok j i l -> j <= j' -> col_ok j' i l.
  Proof.
    induction 1 as [|i e l He Hl IH]; intros Hj; constructor; auto.
    eapply ent_ok_mono; eauto.
  Qed.

  Lemma cell_ok c2 r i j diag cur prev :
    ent_ok (i - 1) j diag -> ent_ok i j cur -> ent_ok (i - 1) (j + 1) prev ->
    ent_ok i (j + 1) (cell eqc cfg c2 r diag cur prev).
  Proof.
    unfold ent_ok, cell; intros (d1 & d2 & d3 & d4) (c1 & c2' & c3 & c4) (p1 & p2 & p3 & p4).
    destruct (eqc r c2); cbn [origin].
    - repeat split; auto; lia.
    - destruct ((cost diag + 1 <=? cost prev + indel_cost cfg) && (cost diag + 1 <=? cost cur + indel_cost cfg)); cbn [origin].
      + repeat split; auto; lia.
      + destruct (cost prev + indel_cost cfg <=? cost cur + indel_cost cfg); cbn [origin]; repeat split; auto; lia.
  Qed.

  Lemma fill_ok : forall budget c2 refs old diag prev ov i j,
    col_ok j i old -> ent_ok (i - 1) j diag -> ent_ok (i - 1) (j + 1) prev ->
    col_ok (j + 1) i (fst (fill eqc cfg budget c2 refs old diag prev ov)) /\
    length (fst (fill eqc cfg budget c2 refs old diag prev ov)) = length old.
  Proof.
    induction budget as [|b IH]; intros c2 refs old diag prev ov i j Hold Hd Hp.
    - cbn [fill fst]. split; [eapply col_ok_mono; eauto; lia | reflexivity].
    - cbn [fill]. destruct refs as [|r refs'].
      + cbn [fst]. split; [eapply col_ok_mono; eauto; lia | reflexivity].
      + destruct old as [|cur old'].
        * cbn [fst]. split; [constructor | reflexivity].
        * inversion Hold as [|i0 e0 l0 Hcur Hrest]; subst.
          pose proof (cell_ok c2 r i j diag cur prev Hd Hcur Hp) as Hc.
          specialize (IH c2 refs' old' cur (cell eqc cfg c2 r diag cur prev)
                         (origin (cell eqc cfg c2 r diag cur prev)) (i + 1) j Hrest).
          replace (i + 1 - 1) with i in IH by lia.
          specialize (IH Hcur Hc).
          destruct (fill eqc cfg b c2 refs' old' cur (cell eqc cfg c2 r diag cur prev)
                         (origin (cell eqc cfg c2 r diag cur prev))) as [rest ov'] eqn:E.
          cbn [fst] in *. destruct IH as [IH1 IH2]. split.
          -- constructor; assumption.
          -- cbn [length]; lia.
  Qed.

  Lemma col_ok_nth : forall l j i0 i, col_ok j i0 l -> 0 <= i -> (Z.to_nat i < length l)%nat ->
    ent_ok (i0 + i) j (nth (Z.to_nat i) l dummy).
  Proof.
    induction l as [|e l IH]; intros j i0 i H Hi Hlt; [cbn in Hlt; lia|].
    inversion H as [|i1 e1 l1 He Hl]; subst.
    destruct (Z.eq_dec i 0) as [->|Hne].
    - cbn. replace (i0 + 0) with i0 by lia. exact He.
    - replace (Z.to_nat i) with (S (Z.to_nat (i - 1))) by lia. cbn [nth].
      replace (i0 + i) with (i0 + 1 + (i - 1)) by lia. apply IH; auto; [lia|].
      cbn [length] in Hlt. lia.
  Qed.

  Lemma col_ok_znth l j i : col_ok j 0 l -> 0 <= i < zlen l -> ent_ok i j (znth dummy l i).
  Proof.
    intros H Hi. unfold znth. destruct (i <? 0) eqn:E; [lia|].
    replace i with (0 + i) at 1 by lia. apply col_ok_nth; auto; [lia|]. unfold zlen in Hi. lia.
  Qed.

  (** ---- the initial column *)
  Lemma init_entry_ok min_n i : 0 <= min_n -> 0 <= i -> ent_ok i min_n (init_entry cfg min_n i).
  Proof.
    intros Hm Hi. unfold ent_ok, init_entry.
    destruct (start_in_ref cfg), (start_in_query cfg); cbn [origin]; repeat split; intros; try discriminate; lia.
  Qed.

  Lemma zrange_length lo c : length (zrange lo c) = c.
  Proof. revert lo; induction c; intros; cbn; auto. Qed.

  Lemma init_col_ok_aux min_n : 0 <= min_n -> forall c lo, 0 <= lo ->
    col_ok min_n lo (map (init_entry cfg min_n) (zrange lo c)).
  Proof.
    intros Hm; induction c as [|c IH]; intros lo Hlo; cbn; constructor.
    - apply init_entry_ok; auto.
    - apply IH; lia.
  Qed.

  Lemma init_column_ok min_n : 0 <= min_n -> col_ok min_n 0 (init_column cfg s1 min_n).
  Proof. intros; unfold init_column; apply init_col_ok_aux; lia. Qed.

  Lemma init_column_length min_n : zlen (init_column cfg s1 min_n) = m + 1.
  Proof. unfold init_column, zlen. rewrite map_length, zrange_length. lia. Qed.

  (** ---- what a recorded best match satisfies *)
  Definition good (n : Z) (b : best_t) : Prop :=
    let o := b_origin b in
    let len := b_refstop b + Z.min o 0 in
    - b_refstop b <= o /\ o <= b_qstop b /\ 0 <= b_refstop b <= m /\ 0 <= b_qstop b <= n /\
    (start_in_ref cfg = false -> 0 <= o) /\ (start_in_query cfg = false -> o <= 0) /\
    (b_refstop b = m \/ b_qstop b = n) /\
    (stop_in_ref cfg = false -> b_refstop b = m) /\ (stop_in_query cfg = false -> b_qstop b = n) /\
    min_overlap cfg <= len /\
    b_cost b <= thr (eff_len cfg rawref s1 len (b_refstop b)).

  Definition best_ok (n : Z) (b : best_t) : Prop := b_cost b = no_best s1 n \/ good n b.

  Definition st_ok (n j : Z) (st : lstate) : Prop :=
    col_ok j 0 (col st) /\ zlen (col st) = m + 1 /\ best_ok n (best st).

  Lemma column_step_ok n c2 j st :
    st_ok n (j - 1) st -> 0 <= j <= n -> st_ok n j (column_step eqc thr cfg rawref s1 n c2 j st).
  Proof.
    intros (Hcol & Hlen & Hbest) Hjn. unfold column_step.
    destruct (col st) as [|c0 olds] eqn:Ecol.
    - rewrite zlen_nil in Hlen. pose proof (zlen_nonneg s1). lia.
    - inversion Hcol as [|i0 e0 l0 Hc0 Holds]; subst.
      set (new0 := mkE _ _ _).
      assert (Hnew0 : ent_ok 0 j new0).
      { unfold ent_ok in *. destruct Hc0 as (a & b & c & d). subst new0; cbn [origin].
        destruct (start_in_query cfg); repeat split; intros; try discriminate; try lia. }
      pose proof (fill_ok (Z.to_nat (last st)) c2 s1 olds c0 new0 (ovar st) (0 + 1) (j - 1) Holds) as Hf.
      replace (0 + 1 - 1) with 0 in Hf by lia. replace (j - 1 + 1) with j in Hf by lia.
      specialize (Hf Hc0 Hnew0).
      destruct (fill eqc cfg (Z.to_nat (last st)) c2 s1 olds c0 new0 (ovar st)) as [rest ov1] eqn:Efill.
      cbn [fst] in Hf. destruct Hf as [Hrest Hrlen].
      assert (Hcol' : col_ok j 0 (new0 :: rest)) by (constructor; assumption).
      assert (Hlen' : zlen (new0 :: rest) = m + 1).
      { rewrite zlen_cons in *. unfold zlen in *. lia. }
      destruct (shrink_last thr s1 (new0 :: rest) (last st) <? m).
      + repeat split; assumption.
      + destruct (stop_in_query cfg) eqn:Estiq; [|repeat split; assumption].
        set (e := znth dummy (new0 :: rest) m).
        assert (He : ent_ok m j e).
        { apply col_ok_znth; auto. pose proof (zlen_nonneg s1); lia. }
        match goal with |- st_ok _ _ (if ?c then _ else _) => destruct c eqn:Ecnd end.
        * split; [exact Hcol'|]. split; [exact Hlen'|]. right.
          apply andb_prop in Ecnd. destruct Ecnd as [Eok _].
          apply andb_prop in Eok. destruct Eok as [Eov Ethr].
          apply Z.leb_le in Eov. apply Z.leb_le in Ethr.
          destruct He as (a & b & c & d).
          unfold good; cbn [best b_origin b_refstop b_qstop b_cost].
          pose proof (zlen_nonneg s1).
          repeat split; auto; try lia. all: try (intros; congruence).
        * repeat split; assumption.
  Qed.

  Lemma columns_ok n : forall qs j st,
    st_ok n (j - 1) st -> 0 <= j - 1 -> j - 1 + zlen qs <= n ->
    exists j', j - 1 <= j' <= n /\ st_ok n j' (columns eqc thr cfg rawref s1 n qs j st).
  Proof.
    induction qs as [|c2 t IH]; intros j st Hst Hj0 Hj.
    - cbn. exists (j - 1). rewrite zlen_nil in Hj. split; [lia | assumption].
    - cbn [columns]. rewrite zlen_cons in Hj. pose proof (zlen_nonneg t).
      assert (Hs : st_ok n j (column_step eqc thr cfg rawref s1 n c2 j st)) by (apply column_step_ok; auto; lia).
      destruct (stopped (column_step eqc thr cfg rawref s1 n c2 j st)).
      + exists j; split; [lia | assumption].
      + destruct (IH (j + 1) (column_step eqc thr cfg rawref s1 n c2 j st)) as (j' & Hj' & Hok).
        * replace (j + 1 - 1) with j by lia. assumption.
        * lia.
        * lia.
        * exists j'; split; [lia | assumption].
  Qed.

  (** ---- the last-column search *)
  Lemma last_column_ok n ov : forall cells best j,
    0 <= j <= n ->
    (forall i e, In (i, e) cells -> ent_ok i j e /\ 0 <= i <= m /\ (stop_in_ref cfg = false -> i = m)) ->
    best_ok n best ->
    best_ok n (last_column thr cfg rawref s1 n ov cells best).
  Proof.
    induction cells as [|[i e] t IH]; intros best j Hj Hcells Hbest; cbn [last_column]; [assumption|].
    assert (Ht : forall i e, In (i, e) t -> ent_ok i j e /\ 0 <= i <= m /\ (stop_in_ref cfg = false -> i = m))
      by (intros; apply Hcells; right; assumption).
    match goal with |- best_ok _ (if ?c then _ else _) => destruct c eqn:Ecnd end.
    - eapply IH; eauto. right.
      apply andb_prop in Ecnd. destruct Ecnd as [Eok _].
      apply andb_prop in Eok. destruct Eok as [Eov Ethr].
      apply Z.leb_le in Eov. apply Z.leb_le in Ethr.
      destruct (Hcells i e (or_introl eq_refl)) as ((a & b & c & d) & Hi & Hsr).
      unfold good; cbn [b_origin b_refstop b_qstop b_cost].
      repeat split; auto; try lia.
    - eapply IH; eauto.
  Qed.

  Lemma In_indexed_aux : forall (l : list entry) lo i e,
    In (i, e) (combine (zrange lo (length l)) l) ->
    lo <= i < lo + zlen l /\ e = nth (Z.to_nat (i - lo)) l dummy.
  Proof.
    induction l as [|x l IH]; intros lo i e H; cbn in H; [contradiction|].
    rewrite zlen_cons. pose proof (zlen_nonneg l). destruct H as [H|H].
    - inversion H; subst. replace (i - i) with 0 by lia. cbn. split; [lia | reflexivity].
    - apply IH in H. destruct H as [H1 H2]. split; [lia|].
      replace (Z.to_nat (i - lo)) with (S (Z.to_nat (i - (lo + 1)))) by lia. cbn [nth]. exact H2.
  Qed.

  Lemma In_indexed l i e j : col_ok j 0 l -> In (i, e) (indexed l) -> ent_ok i j e /\ 0 <= i < zlen l.
  Proof.
    intros Hc H. unfold indexed in H. apply In_indexed_aux in H. destruct H as [Hi He].
    split; [|lia]. subst e. replace (i - 0) with i by lia.
    replace i with (0 + i) at 1 by lia. apply col_ok_nth; auto; [lia|]. unfold zlen in Hi; lia.
  Qed.

  (** ---- the result *)
  Definition result_ok (n : Z) (r : Z * Z * Z * Z * Z * Z) : Prop :=
    let '(rs, re, qs, qe, sc, e) := r in
    0 <= rs <= re /\ re <= m /\ 0 <= qs <= qe /\ qe <= n /\
    (rs = 0 \/ qs = 0) /\
    (start_in_ref cfg = false -> rs = 0) /\ (start_in_query cfg = false -> qs = 0) /\
    (re = m \/ qe = n) /\
    (stop_in_ref cfg = false -> re = m) /\ (stop_in_query cfg = false -> qe = n) /\
    min_overlap cfg <= re - rs /\
    e <= thr (eff_len cfg rawref s1 (re - rs) re).

  Theorem locate_core_structure s2 r :
    0 <= thr m ->
    locate_core eqc thr cfg rawref s1 s2 = Some r -> result_ok (zlen s2) r.
  Proof.
    intros Hk. unfold locate_core.
    set (n := zlen s2). set (k := thr m) in *.
    set (max_n := if start_in_query cfg then n else Z.min n (m + k)).
    set (min_n := if stop_in_query cfg then 0 else Z.max 0 (n - m - k)).
    set (qs := firstn _ _).
    set (st0 := mkS _ _ _ _ _ _).
    assert (Hn : 0 <= n) by apply zlen_nonneg.
    assert (Hm : 0 <= m) by apply zlen_nonneg.
    assert (Hmin : 0 <= min_n) by (subst min_n; destruct (stop_in_query cfg); lia).
    assert (Hmaxn : max_n <= n) by (subst max_n; destruct (start_in_query cfg); lia).
    assert (Hst0 : st_ok n (min_n + 1 - 1) st0).
    { replace (min_n + 1 - 1) with min_n by lia. subst st0. split; [|split]; cbn [col best].
      - apply init_column_ok; assumption.
      - apply init_column_length.
      - left; reflexivity. }
    assert (Hqs : min_n + 1 - 1 + zlen qs <= n).
    { assert (Hminn : min_n <= n) by (subst min_n; destruct (stop_in_query cfg); lia).
      subst qs. unfold zlen at 1.
      pose proof (firstn_le_length (Z.to_nat (max_n - min_n)) (skipn (Z.to_nat min_n) s2)) as Hfl. lia. }
    destruct (columns_ok n qs (min_n + 1) st0 Hst0 ltac:(lia) Hqs) as (jf & Hjf & (Hcol & Hlen & Hbest)).
    set (st := columns eqc thr cfg rawref s1 n qs (min_n + 1) st0) in *.
    set (bestf := if max_n =? n then _ else best st).
    assert (Hbf : best_ok n bestf).
    { subst bestf. destruct (max_n =? n); [|assumption].
      eapply last_column_ok with (j := jf); [lia| |assumption].
      intros i e Hin. apply filter_In in Hin. destruct Hin as [Hin Hfi]. cbn [fst] in Hfi.
      apply in_rev in Hin.
      assert (Hin' : In (i, e) (indexed (col st))) by (eapply In_firstn; eauto).
      destruct (In_indexed _ _ _ _ Hcol Hin') as [Hent Hi].
      split; [assumption|]. split; [lia|].
      intros Hsr. rewrite Hsr in Hfi. apply Z.leb_le in Hfi. lia. }
    destruct (b_cost bestf =? no_best s1 n) eqn:Enb; [discriminate|].
    apply Z.eqb_neq in Enb.
    destruct Hbf as [Hbf|Hg]; [contradiction|].
    unfold good in Hg. destruct Hg as (g1 & g2 & g3 & [g4 g4'] & g5 & g6 & g7 & g8 & g9 & g10 & g11).
    destruct (0 <=? b_origin bestf) eqn:Eo; intros Hr; inversion Hr; subst r; clear Hr; unfold result_ok.
    - apply Z.leb_le in Eo. rewrite Z.min_r in g10, g11 by lia.
      replace (b_refstop bestf - 0) with (b_refstop bestf + 0) by lia.
      repeat split; auto; try lia.
      intros H; specialize (g6 H); lia.
    - apply Z.leb_gt in Eo. rewrite Z.min_l in g10, g11 by lia.
      replace (b_refstop bestf - - b_origin bestf) with (b_refstop bestf + b_origin bestf) by lia.
      repeat split; auto; try lia.
      intros H; specialize (g5 H); lia.
  Qed.
End A.
