(** C02, the cut-position clauses.  If the query holds an error-free copy of the whole reference at
    position p and none further left, and the alignment may start and stop anywhere in the query
    (regular 5' and 3' adapters, 'anywhere' adapters), then Aligner.locate reports either that copy
    itself, [p, p + m), or a match that was recorded before the copy's last column and starts more
    than m/2 characters before p.  Either way the match starts at or before p and ends at or before
    p + m.  Ingredients: the diagonal of the copy is tracked exactly (AlignCopyGen.v); a score of m
    is only reached at cost 0 by the whole reference (cellU), so no earlier candidate can have it
    unless it is an earlier copy; every cell computed in column j >= p + i at row i has origin >= p
    (cellG: a syntactic invariant of the recurrence, the insertion branch cannot be taken on the
    diagonal of the copy, nor from a stale cell below the Ukkonen band); hence after column p + m
    no candidate can overlap the recorded one "sufficiently", and the stale C variable [origin]
    that the last-column scan reads is >= p as well. *)
From Coq Require Import ZArith List Bool Lia.
From CV Require Import Generated.Tables Generated.Scores Model.Align Proofs.AlignProofs Proofs.AdapterProofs Proofs.AlignDist
  Proofs.AlignOpt Proofs.AlignComplete Proofs.AlignFound Proofs.AlignCopyGen.
Import ListNotations.
Open Scope Z_scope.

Section EdZero.
  Variable eqc : Z -> Z -> bool.
  Variable IND : Z.
  Hypothesis IND_pos : 1 <= IND.
  Lemma ed_zero2 a b c : ed eqc IND a b c -> c <= 0 -> Forall2 (fun x y => eqc x y = true) a b.
  Proof.
    induction 1 as [|a b c x y He H IH|a b c x y H IH|a b c x H IH|a b c y H IH|a b c c' H IH Hle]; intros Hc.
    - constructor.
    - apply Forall2_app; [apply IH; exact Hc | constructor; [exact He | constructor]].
    - pose proof (ed_nonneg eqc IND IND_pos _ _ _ H). lia.
    - pose proof (ed_nonneg eqc IND IND_pos _ _ _ H). lia.
    - pose proof (ed_nonneg eqc IND IND_pos _ _ _ H). lia.
    - apply IH. lia.
  Qed.
End EdZero.

Lemma Forall2_nth {A B} (P : A -> B -> Prop) (da : A) (db : B) : forall a b, Forall2 P a b ->
  length a = length b /\ forall t, (t < length a)%nat -> P (nth t a da) (nth t b db).
Proof.
  induction 1 as [|x y a b Hxy H IH]; [split; [reflexivity | cbn; intros; lia]|].
  destruct IH as [Hl Hn]. split; [cbn; lia|]. intros [|t] Ht; cbn [nth]; [exact Hxy | apply Hn; cbn in Ht; lia].
Qed.

Lemma nth_firstn_lt {A} (d : A) : forall c (l : list A) t, (t < c)%nat -> nth t (firstn c l) d = nth t l d.
Proof.
  induction c as [|c IH]; intros l t Ht; [lia|]. destruct l as [|x u]; [destruct t; reflexivity|].
  cbn [firstn]. destruct t as [|t]; cbn [nth]; [reflexivity | apply IH; lia].
Qed.

Lemma nth_zslice {A} (d : A) (l : list A) a b t : 0 <= a -> (t < Z.to_nat (b - a))%nat ->
  nth t (zslice l a b) d = nth (Z.to_nat a + t) l d.
Proof. intros Ha Ht. unfold zslice. rewrite nth_firstn_lt by exact Ht. rewrite nth_skipn. reflexivity. Qed.

Lemma nth_zrange : forall c lo t, (t < c)%nat -> nth t (zrange lo c) 0 = lo + Z.of_nat t.
Proof.
  induction c as [|c IH]; intros lo t Ht; [lia|]. cbn [zrange]. destruct t as [|t]; cbn [nth]; [lia|].
  rewrite IH by lia. lia.
Qed.

Section U.
  Variable eqc : Z -> Z -> bool.
  Variable cfg : acfg.
  Variable s1 : list Z.
  Hypothesis IND_pos : 1 <= indel_cost cfg.

  (** an upper bound on the score: the aligned part of the reference, minus one as soon as there is an error *)
  Definition cellU (i : Z) (e : entry) : Prop :=
    score e <= i - rs_of (origin e) /\ (0 < cost e -> score e <= i - rs_of (origin e) - 1).

  Lemma cell_u c2 r i diag cur prev : cellU (i - 1) diag -> cellU i cur -> cellU (i - 1) prev ->
    cellU i (cell eqc cfg c2 r diag cur prev).
  Proof.
    unfold cellU, cell. intros (D1 & D2) (C1 & C2) (P1 & P2).
    destruct (eqc r c2); cbn [cost score origin]; [unfold MATCH_SCORE; lia|].
    destruct ((cost diag + 1 <=? cost prev + indel_cost cfg) && (cost diag + 1 <=? cost cur + indel_cost cfg)); cbn [cost score origin].
    - unfold MISMATCH_SCORE. lia.
    - destruct (cost prev + indel_cost cfg <=? cost cur + indel_cost cfg); cbn [cost score origin].
      + unfold DELETION_SCORE. lia.
      + unfold INSERTION_SCORE. lia.
  Qed.

  Definition colU (c : list entry) : Prop := forall t, (t <= length s1)%nat -> cellU (Z.of_nat t) (nth t c dummy).
End U.

Section FillOv.
  Variable eqc : Z -> Z -> bool.
  Variable cfg : acfg.
  (** the C variable [origin] after the inner loop: unchanged, or the origin of a cell just computed *)
  Lemma fill_ov : forall budget c2 refs old diag prev ov,
    let r := fill eqc cfg budget c2 refs old diag prev ov in
    snd r = ov \/ exists t, (t < budget)%nat /\ (t < length refs)%nat /\ (t < length old)%nat /\ snd r = origin (nth t (fst r) dummy).
  Proof.
    induction budget as [|b IH]; intros c2 refs old diag prev ov; cbv zeta; cbn [fill]; [left; reflexivity|].
    destruct refs as [|r refs']; [left; reflexivity|]. destruct old as [|cur old']; [left; reflexivity|].
    specialize (IH c2 refs' old' cur (cell eqc cfg c2 r diag cur prev) (origin (cell eqc cfg c2 r diag cur prev))). cbv zeta in IH.
    destruct (fill eqc cfg b c2 refs' old' cur (cell eqc cfg c2 r diag cur prev) (origin (cell eqc cfg c2 r diag cur prev))) as [rest ov'] eqn:E.
    cbn [fst snd] in *. right. destruct IH as [->|(t & H1 & H2 & H3 & ->)].
    - exists 0%nat. cbn [nth length]. repeat split; lia.
    - exists (S t). cbn [nth length]. repeat split; lia.
  Qed.
End FillOv.

Section Cut.
  Variable eqc : Z -> Z -> bool.
  Variable thr : Z -> Z.
  Variable cfg : acfg.
  Variable rawref : list Z.
  Variable s1 s2 : list Z.

  Notation m := (zlen s1).
  Notation n := (zlen s2).
  Notation k := (thr m).
  Hypothesis IND_pos : 1 <= indel_cost cfg.
  Hypothesis k_nonneg : 0 <= k.
  Hypothesis k_le_m : k <= m.
  Hypothesis thr_nonneg : forall L, 0 <= thr L.
  Hypothesis thr_bound : forall L, thr L <= k.
  Hypothesis stop_q : stop_in_query cfg = true.
  Hypothesis ov_le : min_overlap cfg <= m.
  Hypothesis m_pos : 1 <= m.

  (** the leftmost error-free copy of the whole reference starts at p *)
  Variable p : Z.
  Hypothesis p_range : 0 <= p /\ p + m <= n.
  (** the alignment may start anywhere in the query, or it must start at the beginning of both strings and the copy is there *)
  Hypothesis mode : start_in_query cfg = true \/ (start_in_query cfg = false /\ start_in_ref cfg = false /\ p = 0).
  Hypothesis copy : forall t, 0 <= t < m -> eqc (znth 0 s1 t) (znth 0 s2 (p + t)) = true.
  Hypothesis leftmost : forall p', 0 <= p' < p -> ~ (forall t, 0 <= t < m -> eqc (znth 0 s1 t) (znth 0 s2 (p' + t)) = true).

  Notation SD := (AlignDist.SD eqc thr cfg s1 s2).
  Notation SL := (AlignOpt.SL eqc thr cfg s1 s2).
  Notation nb := (no_best s1 n).
  Notation row0_ok := (AlignCopyGen.row0_ok 0 p).
  Notation diag_ok := (AlignCopyGen.diag_ok 0 p m).
  Notation cellD := (AlignDist.cellD eqc thr cfg s1 s2).
  Notation step := (column_step eqc thr cfg rawref s1 n).

  Lemma shape0 : (0 = 0 \/ (p = 0 /\ start_in_ref cfg = true)) /\ (p = 0 \/ (0 = 0 /\ start_in_query cfg = true)).
  Proof. split; [left; reflexivity|]. destruct mode as [H|(_ & _ & H)]; [right; split; [reflexivity | exact H] | left; exact H]. Qed.
  Lemma range0 : 0 <= 0 /\ 0 <= p /\ 1 <= m /\ 0 + m <= m /\ p + m <= n.
  Proof. lia. Qed.
  Lemma copy0 : forall t, 0 <= t < m -> eqc (znth 0 s1 (0 + t)) (znth 0 s2 (p + t)) = true.
  Proof. intros t Ht. rewrite Z.add_0_l. apply copy. exact Ht. Qed.

  (** every cell computed at row i in a column j >= p + i starts at or after p *)
  Definition cellG (i j : Z) (e : entry) : Prop := p + i <= j -> p <= origin e.

  Definition SG (j : Z) (st : lstate) : Prop :=
    (forall t, Z.of_nat t < last st -> cellG (Z.of_nat t) j (nth t (col st) dummy)) /\
    (cellG (last st) j (nth (Z.to_nat (last st)) (col st) dummy) \/
     (1 <= last st /\ k < cost (nth (Z.to_nat (last st)) (col st) dummy) /\ cost (nth (Z.to_nat (last st) - 1) (col st) dummy) <= k)) /\
    (start_in_query cfg = true -> origin (nth 0 (col st) dummy) = j).

  Lemma nth_s1 t : (t < length s1)%nat -> nth t s1 0 = znth 0 s1 (Z.of_nat t).
  Proof. intros Ht. unfold znth. destruct (Z.of_nat t <? 0) eqn:E; [lia|]. rewrite Nat2Z.id. reflexivity. Qed.

  (** the recurrence along one column, rows 1..L *)
  Definition rec_ok (L : nat) (c2 : Z) (oldc newc : list entry) : Prop :=
    forall t, (t < L)%nat -> nth (S t) newc dummy =
      cell eqc cfg c2 (nth t s1 0) (nth t oldc dummy) (nth (S t) oldc dummy) (nth t newc dummy).

  Lemma newcol_G L c2 j oldc newc : rec_ok L c2 oldc newc -> (L <= length s1)%nat -> 1 <= j <= n -> c2 = znth 0 s2 (j - 1) ->
    cellG 0 j (nth 0 newc dummy) ->
    (forall t, (t < L)%nat -> cellG (Z.of_nat t) (j - 1) (nth t oldc dummy)) ->
    (cellG (Z.of_nat L) (j - 1) (nth L oldc dummy) \/ ((1 <= L)%nat /\ k < cost (nth L oldc dummy) /\ cost (nth (L - 1) oldc dummy) <= k)) ->
    forall t, (t <= L)%nat -> cellG (Z.of_nat t) j (nth t newc dummy).
  Proof.
    intros Hrec HL Hj Hc2 H0 Hold HoldL. induction t as [|t IH]; intros Ht; [exact H0|].
    specialize (IH ltac:(lia)). rewrite (Hrec t ltac:(lia)). unfold cellG. intros Hpj.
    assert (Hdiag : p <= origin (nth t oldc dummy)) by (apply (Hold t ltac:(lia)); lia).
    assert (Hprev : p <= origin (nth t newc dummy)) by (apply IH; lia).
    destruct (Z.eq_dec (p + Z.of_nat (S t)) j) as [Hon|Hoff].
    - (* on the diagonal of the copy the characters are equal *)
      assert (Heq : eqc (nth t s1 0) c2 = true).
      { rewrite nth_s1 by lia. rewrite Hc2. replace (j - 1) with (p + Z.of_nat t) by lia. apply copy. unfold zlen. lia. }
      unfold cell. rewrite Heq. cbn [origin]. exact Hdiag.
    - unfold cell. destruct (eqc (nth t s1 0) c2); cbn [origin]; [exact Hdiag|].
      destruct ((cost (nth t oldc dummy) + 1 <=? cost (nth t newc dummy) + indel_cost cfg) && (cost (nth t oldc dummy) + 1 <=? cost (nth (S t) oldc dummy) + indel_cost cfg)) eqn:E1;
        cbn [origin]; [exact Hdiag|].
      destruct (cost (nth t newc dummy) + indel_cost cfg <=? cost (nth (S t) oldc dummy) + indel_cost cfg) eqn:E2; cbn [origin]; [exact Hprev|].
      (* insertion: the cell to the left was computed in column j - 1, or is stale and too expensive to be chosen *)
      destruct (Nat.eq_dec (S t) L) as [HtL|HtL].
      + destruct HoldL as [Hs|(_ & Hgt & Hle)].
        * rewrite <- HtL in Hs. apply Hs. lia.
        * exfalso. rewrite <- HtL in Hgt, Hle. replace (S t - 1)%nat with t in Hle by lia.
          apply Z.leb_gt in E2. apply andb_false_iff in E1. destruct E1 as [E1|E1]; apply Z.leb_gt in E1; lia.
      + apply (Hold (S t) ltac:(lia)). lia.
  Qed.

  Lemma newcol_U L c2 oldc newc : rec_ok L c2 oldc newc ->
    cellU 0 (nth 0 newc dummy) -> (forall t, (t <= L)%nat -> cellU (Z.of_nat t) (nth t oldc dummy)) ->
    forall t, (t <= L)%nat -> cellU (Z.of_nat t) (nth t newc dummy).
  Proof.
    intros Hrec H0 Hold. induction t as [|t IH]; intros Ht; [exact H0|].
    rewrite (Hrec t ltac:(lia)). apply cell_u.
    - replace (Z.of_nat (S t) - 1) with (Z.of_nat t) by lia. apply Hold. lia.
    - apply Hold. lia.
    - replace (Z.of_nat (S t) - 1) with (Z.of_nat t) by lia. apply IH. lia.
  Qed.

  Lemma fill_length : forall budget c2 refs old diag prev ov, length (fst (fill eqc cfg budget c2 refs old diag prev ov)) = length old.
  Proof.
    induction budget as [|b IH]; intros c2 refs old diag prev ov; cbn [fill]; [reflexivity|].
    destruct refs as [|r refs']; [reflexivity|]. destruct old as [|cur old']; [reflexivity|].
    specialize (IH c2 refs' old' cur (cell eqc cfg c2 r diag cur prev) (origin (cell eqc cfg c2 r diag cur prev))).
    destruct (fill eqc cfg b c2 refs' old' cur (cell eqc cfg c2 r diag cur prev) (origin (cell eqc cfg c2 r diag cur prev))) as [rest ov'].
    cbn [fst length] in *. lia.
  Qed.

  Definition new0_of (c0 : entry) : entry :=
    mkE (cost c0 + (if start_in_query cfg then 0 else indel_cost cfg)) (score c0 + (if start_in_query cfg then 0 else INSERTION_SCORE))
        (origin c0 + (if start_in_query cfg then 1 else 0)).

  (** one column step, spelled out for the flag sets of this section *)
  Lemma column_step_spec c2 j st c0 olds : col st = c0 :: olds ->
    let r := fill eqc cfg (Z.to_nat (last st)) c2 s1 olds c0 (new0_of c0) (ovar st) in
    let col' := new0_of c0 :: fst r in
    let l1 := shrink_last thr s1 col' (last st) in
    let e := znth dummy col' m in
    let length := m + Z.min (origin e) 0 in
    let ok := (min_overlap cfg <=? length) && (cost e <=? thr (eff_len cfg rawref s1 length m)) in
    step c2 j st =
      if l1 <? m then mkS col' (l1 + 1) (last st) (best st) (snd r) false
      else if ok && replaces s1 n (best st) (origin e) (score e) length (m + Z.min (b_origin (best st)) 0)
           then mkS col' l1 (last st) (mkB (origin e) (cost e) (score e) m j) (origin e) ((cost e =? 0) && (0 <=? origin e))
           else mkS col' l1 (last st) (best st) (origin e) false.
  Proof.
    intros E. cbv zeta. unfold column_step. rewrite E, stop_q. fold (new0_of c0).
    destruct (fill eqc cfg (Z.to_nat (last st)) c2 s1 olds c0 (new0_of c0) (ovar st)) as [rest ov1]. cbn [fst snd]. reflexivity.
  Qed.

  Lemma column_step_inv c2 j st :
    SD (j - 1) st -> SG (j - 1) st -> colU s1 (col st) -> 1 <= j <= n -> c2 = znth 0 s2 (j - 1) ->
    let st' := step c2 j st in
    SG j st' /\ colU s1 (col st') /\ (p + m <= j -> ovar st' = ovar st \/ p <= ovar st').
  Proof.
    intros (Hcol & Hlen & Hlast & HB & Hbest) (HG1 & HG2 & HR0) HU Hj Hc2.
    destruct (col st) as [|c0 olds] eqn:Ecol; [rewrite zlen_nil in Hlen; lia|].
    pose proof (column_step_spec c2 j st c0 olds Ecol) as Hspec. cbv zeta in Hspec. cbv zeta. rewrite Hspec. clear Hspec.
    set (L := Z.to_nat (last st)).
    assert (HLz : Z.of_nat L = last st) by (subst L; lia).
    pose proof (fill_nth eqc cfg L c2 s1 olds c0 (new0_of c0) (ovar st)) as Hfn. cbv zeta in Hfn.
    pose proof (fill_skip eqc cfg L c2 s1 olds c0 (new0_of c0) (ovar st)) as Hsk.
    pose proof (fill_length L c2 s1 olds c0 (new0_of c0) (ovar st)) as Hrlen.
    pose proof (fill_ov eqc cfg L c2 s1 olds c0 (new0_of c0) (ovar st)) as Hov. cbv zeta in Hov.
    fold L. set (r := fill eqc cfg L c2 s1 olds c0 (new0_of c0) (ovar st)) in *.
    set (col' := new0_of c0 :: fst r).
    assert (Holen : length s1 = length olds) by (rewrite zlen_cons in Hlen; unfold zlen in Hlen; lia).
    assert (HLm : (L <= length s1)%nat) by (unfold zlen in *; lia).
    assert (Hrec : rec_ok L c2 (c0 :: olds) col').
    { intros t Ht. subst col'. cbn [nth]. rewrite (Hfn t Ht ltac:(lia) ltac:(lia)). destruct t as [|t']; reflexivity. }
    assert (Hstale : forall t, (L <= t)%nat -> nth (S t) col' dummy = nth (S t) (c0 :: olds) dummy).
    { intros t Ht. subst col'. cbn [nth]. replace t with (L + (t - L))%nat by lia. rewrite <- !nth_skipn. rewrite Hsk. reflexivity. }
    assert (HG0new : cellG 0 j (new0_of c0)).
    { unfold cellG, new0_of; cbn [origin]. intros Hpj. destruct mode as [Hsiq|(Hsiq & Hsir & Hp0)]; rewrite Hsiq.
      - cbn [nth] in HR0. specialize (HR0 Hsiq). lia.
      - inversion Hcol as [|i0 e0 l0 Hc0d _]; subst. destruct Hc0d as ((_ & _ & Hnn & _) & _). specialize (Hnn Hsir). lia. }
    assert (HGall : forall t, (t <= L)%nat -> cellG (Z.of_nat t) j (nth t col' dummy)).
    { apply (newcol_G L c2 j (c0 :: olds) col' Hrec HLm Hj Hc2).
      - subst col'. cbn [nth]. exact HG0new.
      - intros t Ht. apply HG1. lia.
      - destruct HG2 as [Hs|(H1 & H2 & H3)].
        + left. replace (Z.of_nat L) with (last st) by lia. exact Hs.
        + right. split; [lia|]. split; assumption. }
    assert (HUall : colU s1 col').
    { intros t Ht. destruct (Nat.le_gt_cases t L) as [HtL|HtL].
      - apply (newcol_U L c2 (c0 :: olds) col' Hrec); [|intros; apply HU; lia | exact HtL].
        subst col'. cbn [nth]. specialize (HU 0%nat ltac:(lia)). cbn [nth] in HU. unfold cellU, new0_of in *; cbn [cost score origin].
        unfold rs_of, INSERTION_SCORE in *. destruct (start_in_query cfg); lia.
      - destruct t as [|t']; [lia|]. rewrite Hstale by lia. apply HU. exact Ht. }
    assert (Hlen' : zlen col' = m + 1) by (subst col'; rewrite zlen_cons in *; unfold zlen in *; lia).
    pose proof (shrink_last_spec thr s1 col' (last st) ltac:(lia) ltac:(lia)) as Hsh. cbv zeta in Hsh.
    set (l1 := shrink_last thr s1 col' (last st)) in *. destruct Hsh as (Hl1 & Hl1c & Hl1g).
    assert (HR0' : start_in_query cfg = true -> origin (nth 0 col' dummy) = j).
    { intros Hsiq. subst col'; cbn [nth]; unfold new0_of; cbn [origin]. cbn [nth] in HR0. specialize (HR0 Hsiq). rewrite Hsiq. lia. }
    destruct (l1 <? m) eqn:El1m.
    - apply Z.ltb_lt in El1m. unfold SG. cbn [col last ovar]. split; [|split; [exact HUall|]].
      + split; [|split; [|exact HR0']].
        * intros t Ht. apply HGall. lia.
        * destruct (Z_le_dec (l1 + 1) (last st)) as [Hle|Hgt].
          -- left. replace (l1 + 1) with (Z.of_nat (Z.to_nat (l1 + 1))) at 1 by lia. apply HGall. lia.
          -- right. assert (Hl1L : l1 = last st) by lia. split; [lia|]. split.
             ++ replace (Z.to_nat (l1 + 1)) with (S L) by lia. rewrite Hstale by lia.
                apply (Forall_skipn_get (fun e => k < cost e) dummy (c0 :: olds) (Z.to_nat (last st + 1))); [exact HB|].
                cbn [length]. unfold zlen in *. lia.
             ++ replace (Z.to_nat (l1 + 1) - 1)%nat with (Z.to_nat l1) by lia. apply Hl1c. lia.
      + intros Hpm. destruct Hov as [Hsame|(t & Ht1 & Ht2 & Ht3 & Heq)]; [left; exact Hsame|]. right. rewrite Heq.
        assert (HG := HGall (S t) ltac:(lia)). subst col'. cbn [nth] in HG. apply HG. unfold zlen in *. lia.
    - apply Z.ltb_ge in El1m. assert (Hl1m : l1 = m) by lia. assert (HLeq : last st = m) by lia.
      assert (HGm : cellG m j (znth dummy col' m)).
      { unfold znth. destruct (m <? 0) eqn:E; [lia|]. replace m with (Z.of_nat (Z.to_nat m)) at 1 by lia. apply HGall. lia. }
      assert (Hsg : SG j (mkS col' l1 (last st) (best st) (origin (znth dummy col' m)) false)).
      { unfold SG. cbn [col last]. split; [|split; [|exact HR0']].
        - intros t Ht. apply HGall. lia.
        - left. rewrite Hl1m. unfold znth in HGm. destruct (m <? 0) eqn:E; [lia | exact HGm]. }
      match goal with |- context [if ?c then _ else _] => destruct c end; cbn [col last ovar].
      + split; [exact Hsg|]. split; [exact HUall|]. intros Hpm. right. apply HGm. exact Hpm.
      + split; [exact Hsg|]. split; [exact HUall|]. intros Hpm. right. apply HGm. exact Hpm.
  Qed.

  (** a cell of the last row whose score is m, or whose cost is 0 with the whole reference aligned, is an error-free copy *)
  Lemma exact_cell_is_copy j e : 1 <= j <= n -> cellD m j e -> cellU m e ->
    (m <= score e \/ (cost e = 0 /\ 0 <= origin e)) ->
    cost e = 0 /\ origin e = j - m /\ 0 <= j - m /\ forall t, 0 <= t < m -> eqc (znth 0 s1 t) (znth 0 s2 (j - m + t)) = true.
  Proof.
    intros Hj (Hok & Hc0 & Hs & Hl & Hw) (U1 & U2) Hcase.
    assert (Hz : cost e = 0 /\ 0 <= origin e).
    { destruct Hcase as [Hsc|[H1 H2]]; [|split; assumption]. unfold rs_of in *. split; lia. }
    destruct Hz as [Hcz Ho]. destruct Hok as (o1 & o2 & _ & _).
    specialize (Hw ltac:(lia)). rewrite Hcz in Hw.
    replace (rs_of (origin e)) with 0 in Hw by (unfold rs_of; lia). replace (qs_of (origin e)) with (origin e) in Hw by (unfold qs_of; lia).
    pose proof (ed_zero2 eqc (indel_cost cfg) IND_pos _ _ _ Hw ltac:(lia)) as HF.
    destruct (Forall2_nth (fun x y => eqc x y = true) 0 0 _ _ HF) as [Hlen Hnth].
    assert (L1 : zlen (zslice s1 0 m) = m) by (rewrite zslice_length; lia).
    assert (L2 : zlen (zslice s2 (origin e) j) = j - origin e) by (apply zslice_length; lia).
    assert (Hlz : zlen (zslice s1 0 m) = zlen (zslice s2 (origin e) j)) by (unfold zlen at 1 3; rewrite Hlen; reflexivity).
    assert (Hom : origin e = j - m) by lia.
    split; [exact Hcz|]. split; [exact Hom|]. split; [lia|]. intros t Ht.
    assert (Hl1n : length (zslice s1 0 m) = Z.to_nat m) by (unfold zlen at 1 in L1; lia).
    specialize (Hnth (Z.to_nat t) ltac:(lia)).
    rewrite nth_zslice in Hnth by lia. rewrite nth_zslice in Hnth by lia.
    unfold znth. destruct (t <? 0) eqn:E1; [lia|]. destruct (j - m + t <? 0) eqn:E2; [lia|].
    replace (Z.to_nat (j - m + t)) with (Z.to_nat (origin e) + Z.to_nat t)%nat by lia. exact Hnth.
  Qed.

  Definition E1 (st : lstate) : Prop :=
    b_refstop (best st) = m /\ (b_cost (best st) = nb \/ (b_score (best st) < m /\ b_qstop (best st) < p + m)).
  Definition E3 (st : lstate) : Prop :=
    b_cost (best st) <> nb /\ b_origin (best st) + m / 2 < p /\ 0 <= b_origin (best st) /\ b_refstop (best st) = m /\
    b_qstop (best st) < p + m /\ p <= ovar st.
  Definition EF (st : lstate) : Prop := best st = mkB p 0 m m (p + m).

  Lemma column_step_phase c2 j st :
    SD (j - 1) st -> SL (j - 1) st -> row0_ok (j - 1) st -> diag_ok (j - 1) st -> SG (j - 1) st -> colU s1 (col st) ->
    1 <= j <= n -> c2 = znth 0 s2 (j - 1) ->
    let st' := step c2 j st in
    (j < p + m -> E1 st -> E1 st' /\ stopped st' = false) /\
    (j = p + m -> E1 st -> (EF st' /\ stopped st' = true) \/ (E3 st' /\ stopped st' = false)) /\
    (p + m < j -> E3 st -> E3 st' /\ stopped st' = false).
  Proof.
    intros Hsd Hsl Hr0 Hdg Hsg HU Hj Hc2. cbv zeta.
    destruct (column_step_d eqc thr cfg rawref s1 s2 IND_pos c2 j st Hsd Hj Hc2) as [Hsd' _]. cbv zeta in Hsd'.
    destruct (column_step_copy_gen eqc thr cfg rawref s1 s2 k_nonneg k_le_m thr_nonneg thr_bound stop_q 0 p m shape0 range0 copy0 ov_le
                c2 j st Hsd Hsl Hr0 Hdg Hj Hc2) as (_ & Hdg' & _). cbv zeta in Hdg'.
    destruct (column_step_inv c2 j st Hsd Hsg HU Hj Hc2) as (Hsg' & HU' & Hov'). cbv zeta in Hsg', HU', Hov'.
    destruct Hsd as (Hcol & Hlen & Hlast & HB & Hbest). destruct Hsl as (_ & HB' & _).
    destruct (col st) as [|c0 olds] eqn:Ecol; [rewrite zlen_nil in Hlen; lia|].
    pose proof (column_step_spec c2 j st c0 olds Ecol) as Hspec. cbv zeta in Hspec.
    pose proof (fill_skip eqc cfg (Z.to_nat (last st)) c2 s1 olds c0 (new0_of c0) (ovar st)) as Hsk.
    pose proof (fill_length (Z.to_nat (last st)) c2 s1 olds c0 (new0_of c0) (ovar st)) as Hrlen.
    set (r := fill eqc cfg (Z.to_nat (last st)) c2 s1 olds c0 (new0_of c0) (ovar st)) in *.
    set (col' := new0_of c0 :: fst r) in *.
    assert (Holen : length s1 = length olds) by (rewrite zlen_cons in Hlen; unfold zlen in Hlen; lia).
    assert (Hlen' : zlen col' = m + 1) by (subst col'; rewrite zlen_cons in *; unfold zlen in *; lia).
    pose proof (shrink_last_spec thr s1 col' (last st) ltac:(lia) ltac:(lia)) as Hsh. cbv zeta in Hsh.
    set (l1 := shrink_last thr s1 col' (last st)) in *. destruct Hsh as (Hl1 & Hl1c & Hl1g).
    set (e := znth dummy col' m) in *.
    assert (Hcol' : col (step c2 j st) = col').
    { rewrite Hspec. repeat match goal with |- context [if ?c then _ else _] => destruct c end; reflexivity. }
    assert (He_nth : e = nth (Z.to_nat m) col' dummy) by (subst e; unfold znth; destruct (m <? 0) eqn:E; [lia | reflexivity]).
    assert (HeD : cellD m j e).
    { destruct Hsd' as (HcD & _). rewrite Hcol' in HcD. rewrite He_nth. replace m with (0 + m) at 1 by lia.
      apply (colD_nth eqc thr cfg s1 s2 col' j 0 m HcD); unfold zlen in *; lia. }
    assert (HeU : cellU m e).
    { rewrite Hcol' in HU'. rewrite He_nth. replace m with (Z.of_nat (Z.to_nat m)) at 1 by lia. apply HU'. unfold zlen in *. lia. }
    assert (Hdiag : p <= j <= p + m -> nth (Z.to_nat (j - p)) col' dummy = mkE 0 (j - p) p).
    { intros Hpj. unfold AlignCopyGen.diag_ok in Hdg'. rewrite Hcol' in Hdg'. specialize (Hdg' Hpj).
      rewrite Z.add_0_l, Z.sub_0_r in Hdg'. exact Hdg'. }
    (* before the last column of the copy no candidate reaches score m, and none stops the loop *)
    assert (Hearly : j < p + m -> score e < m /\ ((cost e =? 0) && (0 <=? origin e) = false)).
    { intros Hjp. split.
      - destruct (Z_lt_dec (score e) m) as [H|H]; [exact H|]. exfalso.
        destruct (exact_cell_is_copy j e Hj HeD HeU ltac:(left; lia)) as (_ & _ & H0 & Hcp).
        apply (leftmost (j - m) ltac:(lia)). exact Hcp.
      - destruct ((cost e =? 0) && (0 <=? origin e)) eqn:Est; [|reflexivity]. exfalso.
        apply andb_prop in Est. destruct Est as [Ea Eb]. apply Z.eqb_eq in Ea. apply Z.leb_le in Eb.
        destruct (exact_cell_is_copy j e Hj HeD HeU ltac:(right; split; assumption)) as (_ & _ & H0 & Hcp).
        apply (leftmost (j - m) ltac:(lia)). exact Hcp. }
    rewrite Hspec in *. clear Hspec. split; [|split].
    - (* phase 1 *)
      intros Hjp (Hrs & Hb1). destruct (Hearly Hjp) as [Hsc Hst].
      unfold E1. destruct (l1 <? m); cbn [best stopped]; [split; [split; assumption | reflexivity]|].
      match goal with |- context [if ?c then _ else _] => destruct c end; cbn [best stopped b_refstop b_cost b_score b_qstop].
      + split; [|exact Hst]. split; [reflexivity|]. right. split; [exact Hsc | lia].
      + split; [split; assumption | reflexivity].
    - (* phase 2: the last column of the copy *)
      intros Hjp (Hrs & Hb1). specialize (Hdiag ltac:(lia)). replace (j - p) with m in Hdiag by lia. rewrite <- He_nth in Hdiag.
      assert (Hm_last : m <= last st).
      { destruct HB' as [Hlm|HBs]; [lia|].
        destruct (Z_le_dec m (last st)) as [Hle|Hgt]; [exact Hle|]. exfalso.
        assert (Hst : nth (Z.to_nat m) col' dummy = nth (Z.to_nat m) (c0 :: olds) dummy).
        { subst col'. replace (Z.to_nat m) with (S (Z.to_nat (m - 1))) by lia. cbn [nth].
          replace (Z.to_nat (m - 1)) with (Z.to_nat (last st) + (Z.to_nat (m - 1) - Z.to_nat (last st)))%nat by lia.
          rewrite <- !nth_skipn. rewrite Hsk. reflexivity. }
        pose proof (Forall_skipn_get (fun e => k < cost e) dummy (c0 :: olds) (Z.to_nat (last st)) (Z.to_nat m) HBs
                      ltac:(cbn [length]; unfold zlen in *; lia)) as Hk.
        cbv beta in Hk. rewrite <- Hst, <- He_nth, Hdiag in Hk. cbn [cost] in Hk. lia. }
      destruct (l1 <? m) eqn:El1m.
      { exfalso. apply Z.ltb_lt in El1m. specialize (Hl1g m ltac:(lia)). rewrite <- He_nth, Hdiag in Hl1g. cbn [cost] in Hl1g. lia. }
      rewrite Hdiag. cbn [cost score origin].
      replace (m + Z.min p 0) with m by lia.
      assert (Eok : (min_overlap cfg <=? m) && (0 <=? thr (eff_len cfg rawref s1 m m)) = true).
      { apply andb_true_intro. split; apply Z.leb_le; [lia | apply thr_nonneg]. }
      rewrite Eok. cbn [andb].
      destruct (replaces s1 n (best st) p m m (m + Z.min (b_origin (best st)) 0)) eqn:Erep; cbn [best stopped ovar].
      + left. split; [unfold EF; cbn [best]; f_equal; lia|]. cbn [Z.eqb]. apply Z.leb_le. lia.
      + right. split; [|reflexivity]. unfold replaces in Erep.
        apply orb_false_iff in Erep. destruct Erep as [Erep E3c]. apply orb_false_iff in Erep. destruct Erep as [E1c E2c].
        apply Z.eqb_neq in E1c. destruct Hb1 as [Hnb|[Hsc Hqs]]; [contradiction|].
        assert (Hlt : (b_score (best st) <? m) = true) by (apply Z.ltb_lt; exact Hsc).
        rewrite Hlt, andb_true_r in E2c, E3c. apply Z.leb_gt in E2c. apply Z.ltb_ge in E3c.
        unfold E3; cbn [best ovar]. repeat split; try assumption; try lia.
    - (* phase 3: behind the copy *)
      intros Hjp (Hnb & Hbo & Hbo0 & Hrs & Hqs & Hov).
      destruct (l1 <? m) eqn:El1m; cbn [best stopped ovar] in *.
      + split; [|reflexivity]. unfold E3; cbn [best ovar]. repeat split; try assumption. destruct (Hov' ltac:(lia)) as [->|H]; assumption.
      + apply Z.ltb_ge in El1m. assert (Hl1m : l1 = m) by lia.
        assert (HGm : p <= origin e).
        { assert (Hx : cellG l1 j (nth (Z.to_nat l1) col' dummy)).
          { match type of Hsg' with context [if ?c then _ else _] => destruct c end; unfold SG in Hsg'; cbn [col last] in Hsg';
              destruct Hsg' as (_ & [Hs|(_ & Hgt & _)] & _); try exact Hs; exfalso; specialize (Hl1c ltac:(lia)); lia. }
          rewrite Hl1m in Hx. rewrite He_nth. apply Hx. lia. }
        match goal with |- context [if ?c then _ else _] => destruct c eqn:Ecnd end; cbn [best stopped ovar].
        * exfalso. apply andb_prop in Ecnd. destruct Ecnd as [_ Erep]. unfold replaces in Erep.
          apply orb_prop in Erep. destruct Erep as [Erep|Erep]; [apply orb_prop in Erep; destruct Erep as [Erep|Erep]|].
          -- apply Z.eqb_eq in Erep. contradiction.
          -- apply andb_prop in Erep. destruct Erep as [Ea _]. apply Z.leb_le in Ea. lia.
          -- apply andb_prop in Erep. destruct Erep as [Ea _]. apply Z.ltb_lt in Ea. lia.
        * split; [|reflexivity]. unfold E3; cbn [best ovar]. repeat split; assumption.
  Qed.

  Definition INV (j : Z) (st : lstate) : Prop :=
    SD j st /\ SL j st /\ row0_ok j st /\ diag_ok j st /\ SG j st /\ colU s1 (col st).

  Lemma column_step_INV c2 j st : INV (j - 1) st -> 1 <= j <= n -> c2 = znth 0 s2 (j - 1) -> INV j (step c2 j st).
  Proof.
    intros (Hsd & Hsl & Hr0 & Hdg & Hsg & HU) Hj Hc2.
    destruct (column_step_d eqc thr cfg rawref s1 s2 IND_pos c2 j st Hsd Hj Hc2) as [Hsd' _].
    pose proof (column_step_L eqc thr cfg rawref s1 s2 IND_pos k_nonneg c2 j st Hsd Hsl Hj Hc2) as Hsl'.
    destruct (column_step_copy_gen eqc thr cfg rawref s1 s2 k_nonneg k_le_m thr_nonneg thr_bound stop_q 0 p m shape0 range0 copy0 ov_le
                c2 j st Hsd Hsl Hr0 Hdg Hj Hc2) as (Hr0' & Hdg' & _).
    destruct (column_step_inv c2 j st Hsd Hsg HU Hj Hc2) as (Hsg' & HU' & _).
    cbv zeta in *. split; [exact Hsd'|]. split; [exact Hsl'|]. split; [exact Hr0'|]. split; [exact Hdg'|]. split; [exact Hsg' | exact HU'].
  Qed.

  (** the state after the column loop: the copy itself was recorded and stopped the loop, or an earlier candidate survived *)
  Definition Fin (st : lstate) : Prop := (EF st \/ E3 st) /\ exists jf, SD jf st.

  Lemma columns_cut : forall qs j st,
    INV (j - 1) st -> 1 <= j -> j - 1 + zlen qs <= n ->
    qs = firstn (length qs) (skipn (Z.to_nat (j - 1)) s2) ->
    (j - 1 < p + m /\ E1 st /\ p + m <= j - 1 + zlen qs) \/ (p + m <= j - 1 /\ E3 st) ->
    Fin (columns eqc thr cfg rawref s1 n qs j st).
  Proof.
    induction qs as [|c2 t IH]; intros j st Hinv Hj Hn Hqs Hcase; cbn [columns].
    - change (zlen (@nil Z)) with 0 in Hcase. destruct Hcase as [(H1 & _ & H2)|(_ & H3)]; [lia|].
      split; [right; exact H3|]. exists (j - 1). destruct Hinv as (Hsd & _). exact Hsd.
    - rewrite zlen_cons in *. pose proof (zlen_nonneg t) as Ht.
      cbn [length firstn] in Hqs.
      destruct (skipn (Z.to_nat (j - 1)) s2) as [|x u] eqn:Esk; [discriminate|].
      injection Hqs as Hc2 Htl. destruct (skipn_cons_nth 0 _ _ _ _ Esk) as (Hx & Hu & Hltn).
      assert (Hc2' : c2 = znth 0 s2 (j - 1)).
      { unfold znth. destruct (j - 1 <? 0) eqn:E; [lia|]. congruence. }
      assert (Hjn : 1 <= j <= n) by (unfold zlen in *; lia).
      pose proof (column_step_INV c2 j st Hinv Hjn Hc2') as Hinv'.
      destruct Hinv as (Hsd & Hsl & Hr0 & Hdg & Hsg & HU).
      destruct (column_step_phase c2 j st Hsd Hsl Hr0 Hdg Hsg HU Hjn Hc2') as (P1 & P2 & P3). cbv zeta in P1, P2, P3.
      assert (Htl' : t = firstn (length t) (skipn (Z.to_nat j) s2)).
      { rewrite Htl at 1. rewrite Hu. do 2 f_equal. lia. }
      specialize (IH (j + 1) (step c2 j st)). replace (j + 1 - 1) with j in IH by lia.
      destruct Hcase as [(H1 & He1 & H2)|(H3 & He3)].
      + destruct (Z_lt_dec j (p + m)) as [Hlt|Hge].
        * destruct (P1 Hlt He1) as [He1' Hst]. rewrite Hst. apply IH; auto; try lia. left. split; [lia|]. split; [exact He1' | lia].
        * assert (Hjeq : j = p + m) by lia. destruct (P2 Hjeq He1) as [[Hef Hst]|[He3' Hst]]; rewrite Hst.
          -- split; [left; exact Hef|]. exists j. destruct Hinv' as (Hsd' & _). exact Hsd'.
          -- apply IH; auto; try lia. right. split; [lia | exact He3'].
      + destruct (P3 ltac:(lia) He3) as [He3' Hst]. rewrite Hst. apply IH; auto; try lia. right. split; [lia | exact He3'].
  Qed.

  (** an earlier candidate that the copy could not replace survives the last-column scan as well *)
  Lemma last_column_E3 ov : forall cells b,
    b_cost b <> nb -> b_origin b + m / 2 < p -> p <= ov -> 0 <= b_origin b -> b_refstop b = m ->
    (forall i e, In (i, e) cells -> i <= m) ->
    last_column thr cfg rawref s1 n ov cells b = b.
  Proof.
    induction cells as [|[i e] t IH]; intros b Hnb Hbo Hov Hbo0 Hrs Hcells; cbn [last_column]; [reflexivity|].
    pose proof (Hcells i e (or_introl eq_refl)) as Hi.
    assert (Hrep : replaces s1 n b ov (score e) (i + Z.min (origin e) 0) (b_refstop b + Z.min (b_origin b) 0) = false).
    { unfold replaces. assert (E1c : (b_cost b =? nb) = false) by (apply Z.eqb_neq; exact Hnb).
      assert (E2c : (ov <=? b_origin b + m / 2) = false) by (apply Z.leb_gt; lia).
      assert (E3c : (b_refstop b + Z.min (b_origin b) 0 <? i + Z.min (origin e) 0) = false) by (apply Z.ltb_ge; lia).
      rewrite E1c, E2c, E3c. reflexivity. }
    rewrite Hrep, andb_false_r. apply IH; auto. intros; eapply Hcells; right; eassumption.
  Qed.

  (** C02, cut positions: the reported match is the leftmost copy, or lies further left *)
  Theorem leftmost_copy_bounds rs re qs qe sc e :
    locate_core eqc thr cfg rawref s1 s2 = Some (rs, re, qs, qe, sc, e) ->
    (qs = p /\ qe = p + m /\ rs = 0 /\ re = m /\ e = 0) \/ (0 <= qs /\ qs + m / 2 < p /\ qe < p + m /\ rs = 0 /\ re = m).
  Proof.
    unfold locate_core. rewrite stop_q.
    set (max_n := if start_in_query cfg then n else Z.min n (m + k)).
    set (qsl := firstn _ _).
    set (st0 := mkS _ _ _ _ _ _).
    assert (Hn : 0 <= n) by apply zlen_nonneg.
    assert (Hmaxn : p + m <= max_n <= n).
    { subst max_n. destruct mode as [Hsiq|(Hsiq & _ & Hp0)]; rewrite Hsiq; lia. }
    destruct (locate_core_init eqc thr cfg s1 s2 IND_pos k_nonneg) as (Hsd0 & Hsl0).
    fold st0 in Hsd0, Hsl0.
    assert (Hqsl : qsl = firstn (length qsl) (skipn (Z.to_nat (0 + 1 - 1)) s2)).
    { subst qsl. replace (0 + 1 - 1) with 0 by lia. rewrite firstn_length.
      destruct (Nat.le_ge_cases (Z.to_nat (max_n - 0)) (length (skipn (Z.to_nat 0) s2))) as [Hle|Hge].
      - rewrite Nat.min_l by exact Hle. reflexivity.
      - rewrite Nat.min_r by exact Hge. rewrite !firstn_all2; auto. }
    assert (Hqz : zlen qsl = max_n).
    { subst qsl. unfold zlen. rewrite firstn_length, skipn_length. unfold zlen in *. lia. }
    assert (Hcell0 : forall t, (t <= length s1)%nat -> nth t (col st0) dummy = init_entry cfg 0 (Z.of_nat t)).
    { intros t Ht. subst st0. cbn [col]. unfold init_column.
      rewrite (nth_indep _ dummy (init_entry cfg 0 0)) by (rewrite map_length, zrange_length; lia).
      rewrite map_nth, nth_zrange by lia. f_equal. }
    assert (Hinv0 : INV (0 + 1 - 1) st0).
    { replace (0 + 1 - 1) with 0 in * by lia. split; [exact Hsd0|]. split; [exact Hsl0|]. split; [|split; [|split]].
      - unfold AlignCopyGen.row0_ok. intros _ _. rewrite (Hcell0 0%nat ltac:(lia)). unfold init_entry.
        destruct (start_in_ref cfg), (start_in_query cfg); f_equal; lia.
      - unfold AlignCopyGen.diag_ok. intros Hp0. assert (Hp : p = 0) by lia. rewrite Hp. replace (Z.to_nat (0 + (0 - 0))) with 0%nat by lia.
        rewrite (Hcell0 0%nat ltac:(lia)). unfold init_entry. destruct (start_in_ref cfg), (start_in_query cfg); f_equal; lia.
      - assert (HG0 : forall t, (t <= length s1)%nat -> cellG (Z.of_nat t) 0 (nth t (col st0) dummy)).
        { intros t Ht Hpt. assert (t = 0%nat) by lia. subst t. rewrite (Hcell0 0%nat ltac:(lia)). unfold init_entry.
          destruct (start_in_ref cfg), (start_in_query cfg); cbn [origin]; lia. }
        assert (Hl0 : 0 <= last st0 <= m) by (destruct Hsd0 as (_ & _ & H & _); exact H).
        unfold SG. split; [|split].
        + intros t Ht. apply HG0. unfold zlen in *. lia.
        + left. replace (last st0) with (Z.of_nat (Z.to_nat (last st0))) at 1 by lia. apply HG0. unfold zlen in *. lia.
        + intros _. rewrite (Hcell0 0%nat ltac:(lia)). unfold init_entry. destruct (start_in_ref cfg), (start_in_query cfg); cbn [origin]; lia.
      - intros t Ht. rewrite (Hcell0 t Ht). unfold init_entry, cellU.
        destruct (start_in_ref cfg), (start_in_query cfg); cbn [cost score origin]; unfold DELETION_SCORE, rs_of; nia. }
    assert (He10 : E1 st0) by (subst st0; unfold E1; cbn [best b_refstop b_cost]; split; [reflexivity | left; reflexivity]).
    pose proof (columns_cut qsl (0 + 1) st0 Hinv0 ltac:(lia) ltac:(lia) Hqsl ltac:(left; split; [lia|]; split; [exact He10 | lia])) as (Hfin & jf & Hsdf).
    set (st := columns eqc thr cfg rawref s1 n qsl (0 + 1) st0) in *.
    set (cells := filter _ _).
    destruct Hsdf as (HcolD & Hlen & _).
    assert (Hcells : forall i ee, In (i, ee) cells -> score ee <= i /\ i <= m).
    { intros i ee Hin. subst cells. apply filter_In in Hin. destruct Hin as [Hin _]. apply in_rev in Hin.
      assert (Hin' : In (i, ee) (indexed (col st))) by (eapply In_firstn; eauto).
      unfold indexed in Hin'. apply In_indexed_aux in Hin'. destruct Hin' as [Hi He]. subst ee.
      replace (i - 0) with i by lia. split; [|lia].
      assert (Hc : cellD (0 + i) jf (nth (Z.to_nat i) (col st) dummy)) by (apply colD_nth; auto; [lia | unfold zlen in *; lia]).
      destruct Hc as (_ & _ & Hs & _). lia. }
    assert (Hbf : (if max_n =? n then last_column thr cfg rawref s1 n (ovar st) cells (best st) else best st) = best st).
    { destruct (max_n =? n); [|reflexivity]. destruct Hfin as [Hef|(Hnb & Hbo & Hbo0 & Hrs & Hqs & Hov)].
      - apply last_column_exact; [|exact Hcells]. unfold EF in Hef. rewrite Hef. split; cbn; lia.
      - apply last_column_E3; auto. intros i ee Hin. apply (Hcells i ee Hin). }
    rewrite Hbf.
    destruct Hfin as [Hef|(Hnb & Hbo & Hbo0 & Hrs & Hqs & Hov)].
    - unfold EF in Hef. rewrite Hef. cbn [b_cost b_origin b_refstop b_qstop b_score].
      destruct (0 =? nb) eqn:E; [apply Z.eqb_eq in E; unfold no_best in E; pose proof (zlen_nonneg s1); lia|].
      destruct (0 <=? p) eqn:Ep; [|apply Z.leb_gt in Ep; lia]. intros H; inversion H; subst. left. repeat split; reflexivity.
    - destruct (b_cost (best st) =? nb) eqn:E; [apply Z.eqb_eq in E; contradiction|].
      destruct (0 <=? b_origin (best st)) eqn:Ep; [|apply Z.leb_gt in Ep; lia]. intros H; inversion H; subst. apply Z.leb_le in Ep. right. repeat split; auto.
  Qed.
End Cut.

(** ---- Aligner.locate with its translation tables *)
Theorem locate_leftmost_copy thr cfg wq ref query p rs re qs qe sc e :
  1 <= indel_cost cfg ->
  (start_in_query cfg = true \/ (start_in_query cfg = false /\ start_in_ref cfg = false /\ p = 0)) -> stop_in_query cfg = true ->
  (forall L0, 0 <= thr L0) -> (forall L0, thr L0 <= thr (zlen ref)) -> thr (zlen ref) <= zlen ref ->
  1 <= zlen ref -> min_overlap cfg <= zlen ref -> 0 <= p -> p + zlen ref <= zlen query ->
  (forall t, 0 <= t < zlen ref -> loc_eqc cfg wq (znth 0 (loc_s1 cfg wq ref) t) (znth 0 (loc_s2 cfg wq query) (p + t)) = true) ->
  (forall p', 0 <= p' < p ->
     ~ (forall t, 0 <= t < zlen ref -> loc_eqc cfg wq (znth 0 (loc_s1 cfg wq ref) t) (znth 0 (loc_s2 cfg wq query) (p' + t)) = true)) ->
  locate thr cfg wq ref query = Some (rs, re, qs, qe, sc, e) ->
  (qs = p /\ qe = p + zlen ref /\ rs = 0 /\ re = zlen ref /\ e = 0) \/
  (0 <= qs /\ qs + zlen ref / 2 < p /\ qe < p + zlen ref /\ rs = 0 /\ re = zlen ref).
Proof.
  intros Hi Hsiq Hsq Hnn Hb Hkm Hm Hov Hp Hpn Hcopy Hleft. unfold locate.
  fold (loc_s1 cfg wq ref). fold (loc_s2 cfg wq query). fold (loc_eqc cfg wq).
  pose proof (loc_s1_len cfg wq ref) as H1. pose proof (loc_s2_len cfg wq query) as H2.
  intros Hloc.
  pose proof (leftmost_copy_bounds (loc_eqc cfg wq) thr cfg ref (loc_s1 cfg wq ref) (loc_s2 cfg wq query)) as HT.
  rewrite H1, H2 in HT. eapply HT; eauto.
Qed.

(** ---- the adapter classes: regular 5' and 3' adapters and 'anywhere' adapters (with and without
    indels, also with force_anywhere).  The match is the leftmost error-free copy [p, p + m), or it
    ends before p + m and starts more than m/2 before p. *)
From CV Require Import Generated.Flags Model.Adapters.

Theorem match_to_leftmost_copy thr ad read p mt :
  (a_type ad = Front \/ a_type ad = Back \/ a_type ad = Anywhere) ->
  (forall L0, 0 <= thr L0) -> (forall L0, thr L0 <= thr (zlen (a_seq ad))) -> thr (zlen (a_seq ad)) <= zlen (a_seq ad) ->
  1 <= zlen (a_seq ad) -> a_min_overlap ad <= zlen (a_seq ad) -> 0 <= p -> p + zlen (a_seq ad) <= zlen read ->
  (forall t, 0 <= t < zlen (a_seq ad) ->
     loc_eqc (ad_cfg ad) (a_wq ad) (znth 0 (loc_s1 (ad_cfg ad) (a_wq ad) (a_seq ad)) t)
                                   (znth 0 (loc_s2 (ad_cfg ad) (a_wq ad) (ad_query ad read)) (p + t)) = true) ->
  (forall p', 0 <= p' < p ->
     ~ (forall t, 0 <= t < zlen (a_seq ad) ->
          loc_eqc (ad_cfg ad) (a_wq ad) (znth 0 (loc_s1 (ad_cfg ad) (a_wq ad) (a_seq ad)) t)
                                        (znth 0 (loc_s2 (ad_cfg ad) (a_wq ad) (ad_query ad read)) (p' + t)) = true)) ->
  match_to thr ad read = Some mt ->
  (rstart mt = p /\ rstop mt = p + zlen (a_seq ad) /\ astart mt = 0 /\ astop mt = zlen (a_seq ad) /\ merrors mt = 0) \/
  (0 <= rstart mt /\ rstart mt + zlen (a_seq ad) / 2 < p /\ rstop mt < p + zlen (a_seq ad) /\ astart mt = 0 /\ astop mt = zlen (a_seq ad)).
Proof.
  intros Hty Hnn Hb Hkm Hm Hov Hp Hpn Hcopy Hleft.
  assert (Hql : zlen (ad_query ad read) = zlen read).
  { unfold ad_query. destruct (class_upper_first (a_type ad)); [apply zlen_map | reflexivity]. }
  assert (Hflags : start_in_query (ad_cfg ad) = true /\ stop_in_query (ad_cfg ad) = true).
  { unfold ad_cfg, cfg_of, aligner_flags. cbn [stop_in_query start_in_query].
    destruct Hty as [->|[->| ->]]; destruct (a_force_anywhere ad); vm_compute; auto. }
  destruct Hflags as [Fsq Feq].
  assert (Hloc : forall rs re qs qe sc e, locate thr (ad_cfg ad) (a_wq ad) (a_seq ad) (ad_query ad read) = Some (rs, re, qs, qe, sc, e) ->
            (qs = p /\ qe = p + zlen (a_seq ad) /\ rs = 0 /\ re = zlen (a_seq ad) /\ e = 0) \/
            (0 <= qs /\ qs + zlen (a_seq ad) / 2 < p /\ qe < p + zlen (a_seq ad) /\ rs = 0 /\ re = zlen (a_seq ad))).
  { intros rs re qs qe sc e. apply locate_leftmost_copy; rewrite ?Hql; auto. apply ad_indel_cost_pos. }
  unfold match_to, raw_locate. fold (ad_cfg ad). unfold ad_query in Hloc.
  destruct Hty as [Hty|[Hty|Hty]]; rewrite Hty in *; cbn [class_reversed class_upper_first class_side] in *;
    unfold cls_FrontAdapter_reversed, cls_BackAdapter_reversed, cls_AnywhereAdapter_reversed, cls_AnywhereAdapter_upper_first in *.
  all: match goal with |- context [match ?l with Some _ => _ | None => None end] => destruct l as [[[[[[rs re] qs] qe] sc] e]|] eqn:El end; [|discriminate].
  all: intros H; injection H as <-; cbn [rstart rstop astart astop merrors]; apply (Hloc rs re qs qe sc e eq_refl).
Qed.

Lemma znth_rev {A} (d : A) (l : list A) t : 0 <= t < zlen l -> znth d (rev l) t = znth d l (zlen l - 1 - t).
Proof.
  intros Ht. unfold znth. destruct (t <? 0) eqn:E1; [lia|]. destruct (zlen l - 1 - t <? 0) eqn:E2; [lia|].
  rewrite rev_nth by (unfold zlen in Ht; lia). f_equal. unfold zlen in *. lia.
Qed.

(** 'rightmost' 5' adapters (aligned on the reversed strings with the flags of a regular 3' adapter): the match
    is the rightmost error-free copy [p, p + m), or it starts behind p and ends more than m/2 behind p + m *)
Theorem match_to_rightmost_copy thr ad read p mt :
  a_type ad = RightmostFront -> a_force_anywhere ad = false ->
  (forall L0, 0 <= thr L0) -> (forall L0, thr L0 <= thr (zlen (a_seq ad))) -> thr (zlen (a_seq ad)) <= zlen (a_seq ad) ->
  1 <= zlen (a_seq ad) -> a_min_overlap ad <= zlen (a_seq ad) -> 0 <= p -> p + zlen (a_seq ad) <= zlen read ->
  (forall t, 0 <= t < zlen (a_seq ad) ->
     loc_eqc (ad_cfg ad) (a_wq ad) (znth 0 (loc_s1 (ad_cfg ad) (a_wq ad) (a_seq ad)) t)
                                   (znth 0 (loc_s2 (ad_cfg ad) (a_wq ad) read) (p + t)) = true) ->
  (forall p', p < p' -> p' + zlen (a_seq ad) <= zlen read ->
     ~ (forall t, 0 <= t < zlen (a_seq ad) ->
          loc_eqc (ad_cfg ad) (a_wq ad) (znth 0 (loc_s1 (ad_cfg ad) (a_wq ad) (a_seq ad)) t)
                                        (znth 0 (loc_s2 (ad_cfg ad) (a_wq ad) read) (p' + t)) = true)) ->
  match_to thr ad read = Some mt ->
  (rstart mt = p /\ rstop mt = p + zlen (a_seq ad) /\ astart mt = 0 /\ astop mt = zlen (a_seq ad) /\ merrors mt = 0) \/
  (p + zlen (a_seq ad) + zlen (a_seq ad) / 2 < rstop mt /\ rstop mt <= zlen read /\ p < rstart mt /\ astart mt = 0 /\ astop mt = zlen (a_seq ad)).
Proof.
  intros Hty Hforce Hnn Hb Hkm Hm Hov Hp Hpn Hcopy Hright.
  set (m := zlen (a_seq ad)) in *. set (n := zlen read) in *.
  assert (Hzr : zlen (rev (a_seq ad)) = m) by apply zlen_rev.
  assert (Hzq : zlen (rev read) = n) by apply zlen_rev.
  pose proof (loc_s1_len (ad_cfg ad) (a_wq ad) (a_seq ad)) as H1. pose proof (loc_s2_len (ad_cfg ad) (a_wq ad) read) as H2.
  fold m in H1. fold n in H2.
  assert (Hflags : start_in_query (ad_cfg ad) = true /\ stop_in_query (ad_cfg ad) = true).
  { unfold ad_cfg, cfg_of, aligner_flags. rewrite Hty, Hforce. cbn [start_in_query stop_in_query]. vm_compute. auto. }
  destruct Hflags as (Fsq & Feq).
  (* a copy at q of the strings as given is a copy at n - m - q of the reversed strings *)
  assert (Hrevcopy : forall q, 0 <= q -> q + m <= n ->
            (forall t, 0 <= t < m -> loc_eqc (ad_cfg ad) (a_wq ad) (znth 0 (loc_s1 (ad_cfg ad) (a_wq ad) (rev (a_seq ad))) t)
                                            (znth 0 (loc_s2 (ad_cfg ad) (a_wq ad) (rev read)) (n - m - q + t)) = true) <->
            (forall t, 0 <= t < m -> loc_eqc (ad_cfg ad) (a_wq ad) (znth 0 (loc_s1 (ad_cfg ad) (a_wq ad) (a_seq ad)) t)
                                            (znth 0 (loc_s2 (ad_cfg ad) (a_wq ad) read) (q + t)) = true)).
  { intros q Hq Hqn. rewrite loc_s1_rev, loc_s2_rev. split; intros H t Ht.
    - specialize (H (m - 1 - t) ltac:(lia)). rewrite znth_rev in H by (rewrite H1; lia). rewrite znth_rev in H by (rewrite H2; lia).
      rewrite H1, H2 in H. replace (m - 1 - (m - 1 - t)) with t in H by lia. replace (n - 1 - (n - m - q + (m - 1 - t))) with (q + t) in H by lia. exact H.
    - rewrite znth_rev by (rewrite H1; lia). rewrite znth_rev by (rewrite H2; lia). rewrite H1, H2.
      replace (n - 1 - (n - m - q + t)) with (q + (m - 1 - t)) by lia. apply H. lia. }
  assert (Hloc : forall rs re qs qe sc e, locate thr (ad_cfg ad) (a_wq ad) (rev (a_seq ad)) (rev read) = Some (rs, re, qs, qe, sc, e) ->
            (qs = n - m - p /\ qe = n - m - p + m /\ rs = 0 /\ re = m /\ e = 0) \/
            (0 <= qs /\ qs + m / 2 < n - m - p /\ qe < n - m - p + m /\ rs = 0 /\ re = m)).
  { intros rs re qs qe sc e Hl. pose proof (locate_leftmost_copy thr (ad_cfg ad) (a_wq ad) (rev (a_seq ad)) (rev read) (n - m - p) rs re qs qe sc e) as HT.
    rewrite Hzr, Hzq in HT. apply HT; auto; try lia.
    - apply ad_indel_cost_pos.
    - apply (proj2 (Hrevcopy p Hp Hpn)). exact Hcopy.
    - intros p' Hp' Hc. replace p' with (n - m - (n - m - p')) in Hc by lia.
      pose proof (proj1 (Hrevcopy (n - m - p') ltac:(lia) ltac:(lia)) Hc) as Hc'. apply (Hright (n - m - p') ltac:(lia) ltac:(lia)). exact Hc'. }
  unfold match_to, raw_locate. fold (ad_cfg ad). rewrite Hty. cbn [class_reversed class_side]. unfold cls_RightmostFrontAdapter_reversed.
  fold m. fold n.
  destruct (locate thr (ad_cfg ad) (a_wq ad) (rev (a_seq ad)) (rev read)) as [[[[[[rs re] qs] qe] sc] e]|] eqn:El; [|discriminate].
  intros H; injection H as <-; cbn [rstart rstop astart astop merrors].
  destruct (Hloc rs re qs qe sc e eq_refl) as [(A1 & A2 & A3 & A4 & A5)|(B0 & B1 & B2 & B3 & B4)]; [left | right]; repeat split; lia.
Qed.

(** anchored 5' adapters with indels (aligner flags: stop anywhere in the read, start nowhere): an error-free copy at the
    beginning of the read is removed exactly *)
Theorem match_to_anchored5_exact thr ad read mt :
  a_type ad = Prefix -> a_indels ad = true ->
  (forall L0, 0 <= thr L0) -> (forall L0, thr L0 <= thr (zlen (a_seq ad))) -> thr (zlen (a_seq ad)) <= zlen (a_seq ad) ->
  1 <= zlen (a_seq ad) -> a_min_overlap ad <= zlen (a_seq ad) -> zlen (a_seq ad) <= zlen read ->
  (forall t, 0 <= t < zlen (a_seq ad) ->
     loc_eqc (ad_cfg ad) (a_wq ad) (znth 0 (loc_s1 (ad_cfg ad) (a_wq ad) (a_seq ad)) t)
                                   (znth 0 (loc_s2 (ad_cfg ad) (a_wq ad) read) t) = true) ->
  match_to thr ad read = Some mt ->
  rstart mt = 0 /\ rstop mt = zlen (a_seq ad) /\ astart mt = 0 /\ astop mt = zlen (a_seq ad) /\ merrors mt = 0.
Proof.
  intros Hty Hind Hnn Hb Hkm Hm Hov Hmn Hcopy.
  assert (Hflags : start_in_query (ad_cfg ad) = false /\ start_in_ref (ad_cfg ad) = false /\ stop_in_query (ad_cfg ad) = true).
  { unfold ad_cfg, cfg_of, aligner_flags. rewrite Hty. cbn [start_in_query start_in_ref stop_in_query]. vm_compute. auto. }
  destruct Hflags as (Fsq & Fsr & Feq).
  unfold match_to, raw_locate. fold (ad_cfg ad). rewrite Hty, Hind. cbn [class_side].
  destruct (locate thr (ad_cfg ad) (a_wq ad) (a_seq ad) read) as [[[[[[rs re] qs] qe] sc] e]|] eqn:El; [|discriminate].
  intros H; injection H as <-; cbn [rstart rstop astart astop merrors].
  assert (Hcopy' : forall t, 0 <= t < zlen (a_seq ad) ->
            loc_eqc (ad_cfg ad) (a_wq ad) (znth 0 (loc_s1 (ad_cfg ad) (a_wq ad) (a_seq ad)) t)
                                          (znth 0 (loc_s2 (ad_cfg ad) (a_wq ad) read) (0 + t)) = true).
  { intros t Ht. rewrite Z.add_0_l. apply Hcopy. exact Ht. }
  assert (Hleft : forall p', 0 <= p' < 0 ->
            ~ (forall t, 0 <= t < zlen (a_seq ad) ->
                 loc_eqc (ad_cfg ad) (a_wq ad) (znth 0 (loc_s1 (ad_cfg ad) (a_wq ad) (a_seq ad)) t)
                                               (znth 0 (loc_s2 (ad_cfg ad) (a_wq ad) read) (p' + t)) = true)) by (intros; lia).
  destruct (locate_leftmost_copy thr (ad_cfg ad) (a_wq ad) (a_seq ad) read 0 rs re qs qe sc e (ad_indel_cost_pos ad)
              (or_intror (conj Fsq (conj Fsr eq_refl))) Feq Hnn Hb Hkm Hm Hov ltac:(lia) ltac:(lia) Hcopy' Hleft El)
    as [(A1 & A2 & A3 & A4 & A5)|(B0 & B1 & _)].
  - repeat split; lia.
  - pose proof (Z.div_pos (zlen (a_seq ad)) 2 ltac:(lia) ltac:(lia)). lia.
Qed.

(** ---- the clauses in the words of the property *)
Corollary back_cut_at_or_before thr ad read p mt :
  a_type ad = Back ->
  (forall L0, 0 <= thr L0) -> (forall L0, thr L0 <= thr (zlen (a_seq ad))) -> thr (zlen (a_seq ad)) <= zlen (a_seq ad) ->
  1 <= zlen (a_seq ad) -> a_min_overlap ad <= zlen (a_seq ad) -> 0 <= p -> p + zlen (a_seq ad) <= zlen read ->
  (forall t, 0 <= t < zlen (a_seq ad) ->
     loc_eqc (ad_cfg ad) (a_wq ad) (znth 0 (loc_s1 (ad_cfg ad) (a_wq ad) (a_seq ad)) t)
                                   (znth 0 (loc_s2 (ad_cfg ad) (a_wq ad) (ad_query ad read)) (p + t)) = true) ->
  (forall p', 0 <= p' < p ->
     ~ (forall t, 0 <= t < zlen (a_seq ad) ->
          loc_eqc (ad_cfg ad) (a_wq ad) (znth 0 (loc_s1 (ad_cfg ad) (a_wq ad) (a_seq ad)) t)
                                        (znth 0 (loc_s2 (ad_cfg ad) (a_wq ad) (ad_query ad read)) (p' + t)) = true)) ->
  match_to thr ad read = Some mt ->
  rstart mt <= p /\
  (* what is kept, read[0, rstart), holds no error-free copy of the adapter *)
  forall q, 0 <= q -> q + zlen (a_seq ad) <= rstart mt ->
    ~ (forall t, 0 <= t < zlen (a_seq ad) ->
         loc_eqc (ad_cfg ad) (a_wq ad) (znth 0 (loc_s1 (ad_cfg ad) (a_wq ad) (a_seq ad)) t)
                                       (znth 0 (loc_s2 (ad_cfg ad) (a_wq ad) (ad_query ad read)) (q + t)) = true).
Proof.
  intros Hty Hnn Hb Hkm Hm Hov Hp Hpn Hcopy Hleft Hmt.
  pose proof (Z.div_pos (zlen (a_seq ad)) 2 ltac:(lia) ltac:(lia)) as Hh.
  assert (Hle : rstart mt <= p).
  { destruct (match_to_leftmost_copy thr ad read p mt ltac:(right; left; exact Hty) Hnn Hb Hkm Hm Hov Hp Hpn Hcopy Hleft Hmt)
      as [(A1 & _)|(_ & B1 & _)]; lia. }
  split; [exact Hle|]. intros q Hq Hqr. apply Hleft. lia.
Qed.

Corollary front_cut_at_or_before thr ad read p mt :
  a_type ad = Front ->
  (forall L0, 0 <= thr L0) -> (forall L0, thr L0 <= thr (zlen (a_seq ad))) -> thr (zlen (a_seq ad)) <= zlen (a_seq ad) ->
  1 <= zlen (a_seq ad) -> a_min_overlap ad <= zlen (a_seq ad) -> 0 <= p -> p + zlen (a_seq ad) <= zlen read ->
  (forall t, 0 <= t < zlen (a_seq ad) ->
     loc_eqc (ad_cfg ad) (a_wq ad) (znth 0 (loc_s1 (ad_cfg ad) (a_wq ad) (a_seq ad)) t)
                                   (znth 0 (loc_s2 (ad_cfg ad) (a_wq ad) (ad_query ad read)) (p + t)) = true) ->
  (forall p', 0 <= p' < p ->
     ~ (forall t, 0 <= t < zlen (a_seq ad) ->
          loc_eqc (ad_cfg ad) (a_wq ad) (znth 0 (loc_s1 (ad_cfg ad) (a_wq ad) (a_seq ad)) t)
                                        (znth 0 (loc_s2 (ad_cfg ad) (a_wq ad) (ad_query ad read)) (p' + t)) = true)) ->
  match_to thr ad read = Some mt ->
  rstop mt <= p + zlen (a_seq ad).
Proof.
  intros Hty Hnn Hb Hkm Hm Hov Hp Hpn Hcopy Hleft Hmt.
  destruct (match_to_leftmost_copy thr ad read p mt ltac:(left; exact Hty) Hnn Hb Hkm Hm Hov Hp Hpn Hcopy Hleft Hmt)
    as [(_ & A2 & _)|(_ & _ & B2 & _)]; lia.
Qed.

Corollary rightmost_cut_at_or_after thr ad read p mt :
  a_type ad = RightmostFront -> a_force_anywhere ad = false ->
  (forall L0, 0 <= thr L0) -> (forall L0, thr L0 <= thr (zlen (a_seq ad))) -> thr (zlen (a_seq ad)) <= zlen (a_seq ad) ->
  1 <= zlen (a_seq ad) -> a_min_overlap ad <= zlen (a_seq ad) -> 0 <= p -> p + zlen (a_seq ad) <= zlen read ->
  (forall t, 0 <= t < zlen (a_seq ad) ->
     loc_eqc (ad_cfg ad) (a_wq ad) (znth 0 (loc_s1 (ad_cfg ad) (a_wq ad) (a_seq ad)) t)
                                   (znth 0 (loc_s2 (ad_cfg ad) (a_wq ad) read) (p + t)) = true) ->
  (forall p', p < p' -> p' + zlen (a_seq ad) <= zlen read ->
     ~ (forall t, 0 <= t < zlen (a_seq ad) ->
          loc_eqc (ad_cfg ad) (a_wq ad) (znth 0 (loc_s1 (ad_cfg ad) (a_wq ad) (a_seq ad)) t)
                                        (znth 0 (loc_s2 (ad_cfg ad) (a_wq ad) read) (p' + t)) = true)) ->
  match_to thr ad read = Some mt ->
  p + zlen (a_seq ad) <= rstop mt.
Proof.
  intros Hty Hf Hnn Hb Hkm Hm Hov Hp Hpn Hcopy Hright Hmt.
  pose proof (Z.div_pos (zlen (a_seq ad)) 2 ltac:(lia) ltac:(lia)) as Hh.
  destruct (match_to_rightmost_copy thr ad read p mt Hty Hf Hnn Hb Hkm Hm Hov Hp Hpn Hcopy Hright Hmt)
    as [(_ & A2 & _)|(B1 & _)]; lia.
Qed.
