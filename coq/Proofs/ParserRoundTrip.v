(** Round trip for the adapter notation (C18): the printed form of an abstract specification
    -- optional name, one restriction marker (^, leading Xs, $, trailing Xs), a core sequence, a list of
    search parameters in any of their documented spellings with flag / integer / decimal values --
    is parsed by [parse_spec] (the model of AdapterSpecification.parse) into exactly the parts it was
    printed from.  All string handling of the parser (partition on ';' and '=', split, strip, the
    key table, number parsing, brace tokenisation, restriction stripping) is covered; what remains
    after the strings are gone is the decision part [finish], a verbatim copy of the tail of [parse_spec]. *)
From Coq Require Import ZArith QArith List Bool Lia.
From CV Require Import Model.Base Model.Align Model.Adapters Model.Parser Proofs.ParserProofs.
Import ListNotations.
Open Scope Z_scope.

(** ---- partition on a single character *)
Lemma starts_with_single c s : starts_with [c] s = head_is c s.
Proof. destruct s as [|x t]; cbn; [reflexivity|]. rewrite Z.eqb_sym. destruct (x =? c); reflexivity. Qed.

Lemma head_is_absent c s : ~ In c s -> head_is c s = false.
Proof. destruct s as [|x t]; cbn; [reflexivity|]. intros H. apply Z.eqb_neq. intros ->. apply H. now left. Qed.

Lemma partition_aux_absent c : forall s acc fuel, (length s < fuel)%nat -> ~ In c s ->
  partition_aux fuel [c] s acc = (rev acc ++ s, false, []).
Proof.
  induction s as [|x t IH]; intros acc fuel Hf Hn.
  - destruct fuel as [|f]; [cbn in Hf; lia|]. cbn. rewrite app_nil_r. reflexivity.
  - destruct fuel as [|f]; [cbn in Hf; lia|]. cbn [partition_aux]. rewrite starts_with_single, head_is_absent by exact Hn.
    rewrite IH; [|cbn in Hf; lia | intros H; apply Hn; now right]. cbn [rev]. rewrite <- app_assoc. reflexivity.
Qed.

Lemma partition_aux_found c : forall a b acc fuel, ~ In c a -> (length (a ++ c :: b) < fuel)%nat ->
  partition_aux fuel [c] (a ++ c :: b) acc = (rev acc ++ a, true, b).
Proof.
  induction a as [|x t IH]; intros b acc fuel Hn Hf.
  - destruct fuel as [|f]; [cbn in Hf; lia|]. cbn [app partition_aux]. rewrite starts_with_single. cbn [head_is].
    rewrite Z.eqb_refl. rewrite app_nil_r. reflexivity.
  - destruct fuel as [|f]; [cbn in Hf; lia|]. cbn [app partition_aux]. rewrite starts_with_single.
    change (head_is c (x :: t ++ c :: b)) with (x =? c).
    assert (x <> c) as Hx by (intros ->; apply Hn; now left). apply Z.eqb_neq in Hx. rewrite Hx.
    rewrite IH; [|intros H; apply Hn; now right | cbn in Hf; lia]. cbn [rev]. rewrite <- app_assoc. reflexivity.
Qed.

Lemma partition_absent c s : ~ In c s -> partition [c] s = (s, false, []).
Proof. intros H. unfold partition. rewrite partition_aux_absent by (auto; lia). reflexivity. Qed.

Lemma partition_found c a b : ~ In c a -> partition [c] (a ++ c :: b) = (a, true, b).
Proof. intros H. unfold partition. rewrite partition_aux_found by (auto; lia). reflexivity. Qed.

(** ---- split *)
Lemma split_on_absent sep : forall s cur, ~ In sep s -> split_on sep s cur = [rev cur ++ s].
Proof.
  induction s as [|x t IH]; intros cur Hn; cbn [split_on]; [rewrite app_nil_r; reflexivity|].
  assert (x <> sep) as Hx by (intros ->; apply Hn; now left). apply Z.eqb_neq in Hx. rewrite Hx.
  rewrite IH by (intros H; apply Hn; now right). cbn [rev]. rewrite <- app_assoc. reflexivity.
Qed.

Lemma split_on_found sep : forall a rest cur, ~ In sep a ->
  split_on sep (a ++ sep :: rest) cur = (rev cur ++ a) :: split_on sep rest [].
Proof.
  induction a as [|x t IH]; intros rest cur Hn; cbn [app split_on].
  - rewrite Z.eqb_refl, app_nil_r. reflexivity.
  - assert (x <> sep) as Hx by (intros ->; apply Hn; now left). apply Z.eqb_neq in Hx. rewrite Hx.
    rewrite IH by (intros H; apply Hn; now right). cbn [rev]. rewrite <- app_assoc. reflexivity.
Qed.

(** ---- strip *)
Definition nospace (s : str) : bool := forallb (fun c => negb (is_space c)) s.

Lemma lstrip_head s : match s with c :: _ => is_space c = false | [] => True end -> lstrip s = s.
Proof. destruct s as [|c t]; cbn; [reflexivity|]. intros ->. reflexivity. Qed.

Lemma nospace_rev s : nospace s = true -> nospace (rev s) = true.
Proof.
  unfold nospace. rewrite !forallb_forall. intros H x Hx. apply H. now apply in_rev.
Qed.

Lemma lstrip_nospace s : nospace s = true -> lstrip s = s.
Proof.
  intros H. apply lstrip_head. destruct s as [|c t]; [exact I|]. cbn in H. apply andb_prop in H. destruct H as [H _].
  now apply negb_true_iff in H.
Qed.

Lemma strip_nospace s : nospace s = true -> strip s = s.
Proof.
  intros H. unfold strip. rewrite (lstrip_nospace s H). rewrite (lstrip_nospace (rev s) (nospace_rev s H)). apply rev_involutive.
Qed.

Lemma nospace_app a b : nospace (a ++ b) = nospace a && nospace b.
Proof. unfold nospace. apply forallb_app. Qed.

(** ---- digits and numbers *)
Definition all_digits (s : str) : bool := forallb is_digit s.

Lemma parse_digits_total : forall ds acc, all_digits ds = true -> exists n, parse_digits ds acc = Some n.
Proof.
  induction ds as [|c t IH]; intros acc H; cbn; [eauto|]. cbn in H. apply andb_prop in H. destruct H as [Hc Ht].
  rewrite Hc. apply IH, Ht.
Qed.

Definition dval (ds : str) : Z := match parse_digits ds 0 with Some n => n | None => 0 end.

Lemma parse_digits_dval ds : all_digits ds = true -> parse_digits ds 0 = Some (dval ds).
Proof. intros H. unfold dval. destruct (parse_digits_total ds 0 H) as [n ->]. reflexivity. Qed.

Lemma digits_no_char c ds : is_digit c = false -> all_digits ds = true -> ~ In c ds.
Proof.
  intros Hc H Hin. unfold all_digits in H. rewrite forallb_forall in H. specialize (H c Hin). congruence.
Qed.

Lemma digits_nospace ds : all_digits ds = true -> nospace ds = true.
Proof.
  unfold all_digits, nospace. rewrite !forallb_forall. intros H x Hx. specialize (H x Hx).
  unfold is_digit in H. unfold is_space. apply andb_prop in H. destruct H as [H1 H2].
  apply Z.leb_le in H1. apply Z.leb_le in H2. apply negb_true_iff. apply orb_false_iff. split.
  - apply Z.eqb_neq. lia.
  - apply andb_false_iff. right. apply Z.leb_gt. lia.
Qed.

Inductive pval := PFlag | PInt (ds : str) | PDec (a b : str).

Definition wf_val (v : pval) : Prop :=
  match v with
  | PFlag => True
  | PInt ds => ds <> [] /\ all_digits ds = true
  | PDec a b => all_digits a = true /\ all_digits b = true /\ (a <> [] \/ b <> [])
  end.

Definition show_num (v : pval) : str :=
  match v with PFlag => [] | PInt ds => ds | PDec a b => a ++ 46 :: b end.

Definition val_of (v : pval) : value :=
  match v with PFlag => VTrue | PInt ds => VInt (dval ds) | PDec a b => VDec (dval (a ++ b)) (length b) end.

Lemma all_digits_app a b : all_digits (a ++ b) = all_digits a && all_digits b.
Proof. apply forallb_app. Qed.

Lemma parse_number_int ds : ds <> [] -> all_digits ds = true -> parse_number ds = Some (VInt (dval ds)).
Proof.
  intros Hne H. unfold parse_number. destruct ds as [|c t] eqn:E; [congruence|]. rewrite <- E in *.
  rewrite partition_absent by (apply digits_no_char; [reflexivity | exact H]).
  rewrite parse_digits_dval by exact H. reflexivity.
Qed.

Lemma parse_number_dec a b : all_digits a = true -> all_digits b = true -> (a <> [] \/ b <> []) ->
  parse_number (a ++ 46 :: b) = Some (VDec (dval (a ++ b)) (length b)).
Proof.
  intros Ha Hb Hne. unfold parse_number. destruct (a ++ 46 :: b) as [|c t] eqn:E; [destruct a; discriminate|]. rewrite <- E.
  rewrite partition_found by (apply digits_no_char; [reflexivity | exact Ha]).
  assert (parse_digits (a ++ b) 0 = Some (dval (a ++ b))) as Hp
    by (apply parse_digits_dval; rewrite all_digits_app, Ha, Hb; reflexivity).
  destruct a as [|x a']; destruct b as [|y b']; try (rewrite Hp; reflexivity).
  destruct Hne as [Hne|Hne]; congruence.
Qed.

(** ---- one parameter field: spelling, optionally "=" and a number *)
Definition no_char (c : Z) (s : str) : bool := forallb (fun x => negb (x =? c)) s.

Lemma no_char_spec c s : no_char c s = true -> ~ In c s.
Proof.
  unfold no_char. rewrite forallb_forall. intros H Hin. specialize (H c Hin). rewrite Z.eqb_refl in H. discriminate.
Qed.

Definition good_entry (kv : str * pkey) : bool :=
  no_char 61 (fst kv) && no_char 59 (fst kv) && nospace (fst kv) && negb (str_eqb (fst kv) []) &&
  match lookup_key (fst kv) key_table with Some k => pkey_eqb k (snd kv) | None => false end.

Lemma key_table_good : forallb good_entry key_table = true.
Proof. vm_compute. reflexivity. Qed.

Lemma spelling_props s k : In (s, k) key_table ->
  ~ In 61 s /\ ~ In 59 s /\ nospace s = true /\ s <> [] /\ lookup_key s key_table = Some k.
Proof.
  intros Hin. pose proof key_table_good as G. rewrite forallb_forall in G. specialize (G _ Hin).
  unfold good_entry in G. cbn [fst snd] in G.
  repeat (apply andb_prop in G; destruct G as [G ?]).
  repeat split.
  - now apply no_char_spec.
  - now apply no_char_spec.
  - assumption.
  - intros ->. match goal with H : negb (str_eqb [] []) = true |- _ => cbn in H; discriminate end.
  - destruct (lookup_key s key_table) as [k'|]; [|discriminate].
    match goal with H : pkey_eqb k' k = true |- _ => apply pkey_eqb_eq in H; subst; reflexivity end.
Qed.

Record field := mkF { f_spelling : str; f_key : pkey; f_val : pval }.

Definition wf_field (f : field) : Prop := In (f_spelling f, f_key f) key_table /\ wf_val (f_val f).

Definition show_field (f : field) : str :=
  f_spelling f ++ match f_val f with PFlag => [] | v => 61 :: show_num v end.

Lemma show_num_nospace v : wf_val v -> nospace (show_num v) = true.
Proof.
  destruct v as [|ds|a b]; cbn; intros H; [reflexivity | apply digits_nospace, H |].
  destruct H as (Ha & Hb & _). rewrite nospace_app. rewrite (digits_nospace a Ha). cbn.
  change (forallb (fun c => negb (is_space c)) b) with (nospace b). rewrite (digits_nospace b Hb). reflexivity.
Qed.

Lemma show_num_no59 v : wf_val v -> ~ In 59 (show_num v).
Proof.
  destruct v as [|ds|a b]; cbn; intros H; [tauto | apply digits_no_char; [reflexivity | apply H] |].
  destruct H as (Ha & Hb & _). intros Hin. apply in_app_or in Hin. destruct Hin as [Hin|[Hin|Hin]].
  - revert Hin. apply digits_no_char; [reflexivity | exact Ha].
  - discriminate.
  - revert Hin. apply digits_no_char; [reflexivity | exact Hb].
Qed.

Lemma show_num_nonempty v : wf_val v -> v <> PFlag -> show_num v <> [].
Proof.
  destruct v as [|ds|a b]; cbn; intros H Hv; [congruence | apply H | destruct a; discriminate].
Qed.

Lemma parse_show_num v : wf_val v -> v <> PFlag -> parse_number (show_num v) = Some (val_of v).
Proof.
  destruct v as [|ds|a b]; cbn [show_num val_of wf_val]; intros H Hv; [congruence | |].
  - apply parse_number_int; apply H.
  - destruct H as (Ha & Hb & Hne). now apply parse_number_dec.
Qed.

Lemma show_field_nospace f : wf_field f -> nospace (show_field f) = true.
Proof.
  intros [Hin Hv]. destruct (spelling_props _ _ Hin) as (_ & _ & Hs & _ & _). unfold show_field.
  destruct (f_val f) eqn:E; rewrite nospace_app, Hs; [reflexivity | |];
    cbn [nospace forallb]; change (forallb (fun c => negb (is_space c)) ?x) with (nospace x);
    rewrite show_num_nospace by exact Hv; reflexivity.
Qed.

Lemma show_field_no59 f : wf_field f -> ~ In 59 (show_field f).
Proof.
  intros [Hin Hv]. destruct (spelling_props _ _ Hin) as (_ & H59 & _ & _ & _). unfold show_field. intros H.
  apply in_app_or in H. destruct H as [H|H]; [now apply H59|].
  destruct (f_val f) eqn:E; [destruct H | |]; (destruct H as [H|H]; [discriminate | revert H; apply show_num_no59; exact Hv]).
Qed.

Lemma show_field_nonempty f : wf_field f -> show_field f <> [].
Proof.
  intros [Hin _]. destruct (spelling_props _ _ Hin) as (_ & _ & _ & Hne & _). unfold show_field.
  destruct (f_spelling f); [congruence | discriminate].
Qed.

Definition meaning (f : field) : pkey * value := (f_key f, val_of (f_val f)).

(** one step of parse_fields on a printed field *)
Lemma parse_fields_step f rest acc : wf_field f -> has_key (f_key f) acc = false ->
  parse_fields (show_field f :: rest) acc = parse_fields rest (acc ++ [meaning f]).
Proof.
  intros Hw Hk. pose proof Hw as [Hin Hv]. destruct (spelling_props _ _ Hin) as (H61 & _ & Hs & Hne & Hl).
  cbn [parse_fields]. rewrite (strip_nospace _ (show_field_nospace f Hw)).
  destruct (show_field f) as [|c0 t0] eqn:Esf; [exfalso; revert Esf; apply show_field_nonempty, Hw|]. rewrite <- Esf.
  unfold show_field. destruct (f_val f) as [|ds|a b] eqn:Ev.
  - rewrite app_nil_r. rewrite partition_absent by exact H61. rewrite (strip_nospace _ Hs), Hl. cbn [andb].
    cbn [strip lstrip rev]. rewrite Hk. unfold meaning. rewrite Ev. reflexivity.
  - rewrite partition_found by exact H61. rewrite (strip_nospace _ Hs), Hl.
    assert (wf_val (PInt ds)) as Hv' by exact Hv.
    assert (show_num (PInt ds) <> []) as Hn by (apply show_num_nonempty; [exact Hv' | discriminate]).
    destruct (show_num (PInt ds)) as [|c1 t1] eqn:En; [congruence|]. rewrite <- En. cbn [andb].
    rewrite (strip_nospace _ (show_num_nospace _ Hv')). rewrite En. rewrite <- En.
    rewrite parse_show_num by (auto; discriminate). rewrite Hk. unfold meaning. rewrite Ev. reflexivity.
  - rewrite partition_found by exact H61. rewrite (strip_nospace _ Hs), Hl.
    assert (wf_val (PDec a b)) as Hv' by exact Hv.
    assert (show_num (PDec a b) <> []) as Hn by (apply show_num_nonempty; [exact Hv' | discriminate]).
    destruct (show_num (PDec a b)) as [|c1 t1] eqn:En; [congruence|]. rewrite <- En. cbn [andb].
    rewrite (strip_nospace _ (show_num_nospace _ Hv')). rewrite En. rewrite <- En.
    rewrite parse_show_num by (auto; discriminate). rewrite Hk. unfold meaning. rewrite Ev. reflexivity.
Qed.

Lemma has_key_app k a b : has_key k (a ++ b) = has_key k a || has_key k b.
Proof. induction a as [|[k' v] t IH]; cbn; [reflexivity|]. rewrite IH. apply orb_assoc. Qed.

Lemma has_key_map_false k fs : ~ In k (map f_key fs) -> has_key k (map meaning fs) = false.
Proof.
  induction fs as [|f t IH]; cbn; [reflexivity|]. intros H.
  apply orb_false_iff. split.
  - destruct (pkey_eqb k (f_key f)) eqn:E; [|reflexivity]. apply pkey_eqb_eq in E. exfalso. apply H. left. congruence.
  - apply IH. intros Hin. apply H. now right.
Qed.

Lemma parse_fields_printed : forall fs acc, Forall wf_field fs -> NoDup (map f_key fs) ->
  (forall f, In f fs -> has_key (f_key f) acc = false) ->
  parse_fields (map show_field fs) acc = Ok (acc ++ map meaning fs).
Proof.
  induction fs as [|f t IH]; intros acc Hw Hnd Hacc; cbn [map]; [cbn; rewrite app_nil_r; reflexivity|].
  inversion Hw as [|? ? Hwf Hwt]; subst. inversion Hnd as [|? ? Hnin Hndt]; subst.
  rewrite parse_fields_step by (auto; apply Hacc; now left).
  rewrite IH; [rewrite <- app_assoc; reflexivity | exact Hwt | exact Hndt |].
  intros g Hg. rewrite has_key_app. rewrite Hacc by (now right). cbn.
  destruct (pkey_eqb (f_key g) (f_key f)) eqn:E; [|reflexivity].
  apply pkey_eqb_eq in E. exfalso. apply Hnin. rewrite <- E. now apply in_map.
Qed.

(** the parameter string: fields joined by ';' *)
Definition pspec_of (fs : list field) : str :=
  match fs with [] => [] | f :: t => show_field f ++ concat (map (fun g => 59 :: show_field g) t) end.

Lemma split_joined : forall t f cur, Forall wf_field (f :: t) ->
  split_on 59 (show_field f ++ concat (map (fun g => 59 :: show_field g) t)) cur
  = (rev cur ++ show_field f) :: map show_field t.
Proof.
  induction t as [|g t IH]; intros f cur Hw; inversion Hw as [|? ? Hf Ht]; subst; cbn [map concat app].
  - rewrite app_nil_r. rewrite split_on_absent by (apply show_field_no59, Hf). reflexivity.
  - rewrite split_on_found by (apply show_field_no59, Hf). rewrite IH by exact Ht. reflexivity.
Qed.

(** the post-processing of parse_search_parameters, on the meaning of the fields *)
Definition post_params (p : params) : res params :=
  if has_key KOptional p && has_key KRequired p then Err
  else if has_key KIndels p && has_key KNoIndels p then Err
  else
    let p := if has_key KOptional p then set_key KRequired (VInt 0) (del_key KOptional p) else p in
    let p := if has_key KNoIndels p then set_key KIndels (VInt 0) (del_key KNoIndels p) else p in
    Ok p.

Theorem parse_search_parameters_printed fs : Forall wf_field fs -> NoDup (map f_key fs) ->
  parse_search_parameters (pspec_of fs) = post_params (map meaning fs).
Proof.
  intros Hw Hnd. unfold parse_search_parameters.
  assert (parse_fields (split 59 (pspec_of fs)) [] = Ok (map meaning fs)) as ->; [|reflexivity].
  destruct fs as [|f t]; [reflexivity|]. unfold split, pspec_of. rewrite split_joined by exact Hw. cbn [rev app].
  change (show_field f :: map show_field t) with (map show_field (f :: t)).
  rewrite parse_fields_printed; [reflexivity | exact Hw | exact Hnd | reflexivity].
Qed.

(** ---- the body: name, marker, core *)
Inductive mark := MNone | MCaret | MFrontX (x : Z) (xs : str) | MDollar | MBackX (x : Z) (xs : str).

Definition wf_mark (m : mark) : Prop :=
  match m with MFrontX x xs | MBackX x xs => all_xs (x :: xs) = true | _ => True end.

Definition show_marked (m : mark) (core : str) : str :=
  match m with
  | MNone => core
  | MCaret => 94 :: core
  | MFrontX x xs => (x :: xs) ++ core
  | MDollar => core ++ [36]
  | MBackX x xs => core ++ rev (x :: xs)
  end.

Definition mark_front (m : mark) : restriction := match m with MCaret => RAnchored | MFrontX _ _ => RNonInternal | _ => RNone end.
Definition mark_back (m : mark) : restriction := match m with MDollar => RAnchored | MBackX _ _ => RNonInternal | _ => RNone end.

(** characters allowed in a core: no blanks, none of ; = { } *)
Definition core_char (c : Z) : bool :=
  negb (is_space c) && negb (c =? 59) && negb (c =? 61) && negb (c =? 123) && negb (c =? 125).
Definition wf_core (core : str) : Prop := core <> [] /\ forallb core_char core = true /\ plain_ends core.

Lemma parse_restrictions_marked m core : wf_mark m -> wf_core core ->
  parse_restrictions (show_marked m core) = Ok (mark_front m, mark_back m, core).
Proof.
  intros Hm (Hne & _ & Hp). destruct m as [| |x xs| |x xs]; cbn [show_marked mark_front mark_back].
  - now apply restrictions_core.
  - now apply restrictions_anchored_front.
  - now apply restrictions_noninternal_front.
  - now apply restrictions_anchored_back.
  - now apply restrictions_noninternal_back.
Qed.

Definition marker_char (c : Z) : bool := (c =? 94) || (c =? 36) || (c =? 88) || (c =? 120).

Lemma all_xs_marker xs : all_xs xs = true -> forallb marker_char xs = true.
Proof.
  induction xs as [|c t IH]; cbn; [reflexivity|]. intros H. apply andb_prop in H. destruct H as [Hc Ht].
  rewrite (IH Ht), andb_true_r. unfold marker_char. apply orb_prop in Hc. destruct Hc as [Hc|Hc]; rewrite Hc; cbn;
    rewrite ?orb_true_r; reflexivity.
Qed.

Definition body_char (c : Z) : bool := core_char c || marker_char c.

Lemma marked_chars m core : wf_mark m -> wf_core core -> forallb body_char (show_marked m core) = true.
Proof.
  intros Hm (_ & Hc & _).
  assert (forall s, forallb core_char s = true -> forallb body_char s = true) as A.
  { intros s H. rewrite forallb_forall in *. intros x Hx. unfold body_char. rewrite (H x Hx). reflexivity. }
  assert (forall s, forallb marker_char s = true -> forallb body_char s = true) as B.
  { intros s H. rewrite forallb_forall in *. intros x Hx. unfold body_char. rewrite (H x Hx). apply orb_true_r. }
  destruct m as [| |x xs| |x xs]; cbn [show_marked].
  - now apply A.
  - cbn [forallb]. rewrite (A _ Hc). reflexivity.
  - rewrite forallb_app. rewrite (B _ (all_xs_marker _ Hm)), (A _ Hc). reflexivity.
  - rewrite forallb_app. rewrite (A _ Hc). reflexivity.
  - rewrite forallb_app. rewrite (A _ Hc). cbn [andb]. apply B.
    pose proof (all_xs_marker _ Hm) as H. rewrite forallb_forall in *. intros y Hy. apply H. now apply in_rev.
Qed.

Lemma body_char_facts s : forallb body_char s = true ->
  nospace s = true /\ ~ In 59 s /\ ~ In 61 s /\ ~ In 123 s /\ ~ In 125 s.
Proof.
  intros H. rewrite forallb_forall in H.
  assert (forall c, body_char c = true -> is_space c = false /\ c <> 59 /\ c <> 61 /\ c <> 123 /\ c <> 125) as F.
  { intros c Hc. unfold body_char in Hc. apply orb_prop in Hc. destruct Hc as [Hc|Hc].
    - unfold core_char in Hc. repeat (apply andb_prop in Hc; destruct Hc as [Hc ?]).
      repeat match goal with H : negb _ = true |- _ => apply negb_true_iff in H end.
      repeat match goal with H : (_ =? _) = false |- _ => apply Z.eqb_neq in H end. auto.
    - unfold marker_char in Hc.
      assert (c = 94 \/ c = 36 \/ c = 88 \/ c = 120) as D.
      { repeat (apply orb_prop in Hc; destruct Hc as [Hc|Hc]); apply Z.eqb_eq in Hc; auto. }
      destruct D as [-> | [-> | [-> | ->]]]; cbn; repeat split; discriminate. }
  split; [|repeat split; intros Hin; destruct (F _ (H _ Hin)) as (_ & ? & ? & ? & ?); congruence].
  unfold nospace. rewrite forallb_forall. intros x Hx. destruct (F _ (H _ Hx)) as (Hs & _). now rewrite Hs.
Qed.

(** brace_tokens on a string without braces *)
Lemma brace_tokens_plain : forall s cur, ~ In 123 s -> ~ In 125 s ->
  brace_tokens s cur = match rev cur ++ s with [] => [] | x => [TText x] end.
Proof.
  induction s as [|c t IH]; intros cur H1 H2.
  - cbn [brace_tokens]. rewrite app_nil_r. destruct cur as [|x cur']; [reflexivity|].
    destruct (rev (x :: cur')) eqn:E; [|reflexivity]. apply (f_equal (@length Z)) in E. rewrite rev_length in E. discriminate.
  - cbn [brace_tokens].
    assert (c <> 123) as N1 by (intros ->; apply H1; now left). assert (c <> 125) as N2 by (intros ->; apply H2; now left).
    apply Z.eqb_neq in N1. apply Z.eqb_neq in N2. rewrite N1, N2.
    rewrite IH by (intros H; (apply H1 + apply H2); now right). cbn [rev]. rewrite <- app_assoc. reflexivity.
Qed.

Lemma expand_braces_plain s : ~ In 123 s -> ~ In 125 s -> expand_braces s = Ok s.
Proof.
  intros H1 H2. unfold expand_braces. rewrite brace_tokens_plain by assumption. cbn [rev app].
  destruct s as [|c t]; reflexivity.
Qed.

Lemma all_x_app a b : all_x (a ++ b) = all_x a && all_x b.
Proof. induction a as [|c t IH]; cbn; [reflexivity|]. rewrite IH. apply andb_assoc. Qed.

Lemma all_x_head_plain core : core <> [] -> head_x core = false -> all_x core = false.
Proof.
  destruct core as [|c t]; [congruence|]. intros _ H. cbn in *. unfold is_x, upper_c in H.
  destruct (c =? 88) eqn:E; [|reflexivity]. apply Z.eqb_eq in E. subst c. cbn in H. discriminate.
Qed.

Lemma all_x_marked m core : wf_core core -> all_x (show_marked m core) = false.
Proof.
  intros (Hne & _ & (_ & Hx & _)). pose proof (all_x_head_plain core Hne Hx) as Hc.
  destruct m as [| |x xs| |x xs]; cbn [show_marked].
  - exact Hc.
  - cbn. reflexivity.
  - rewrite all_x_app, Hc. apply andb_false_r.
  - rewrite all_x_app, Hc. reflexivity.
  - rewrite all_x_app, Hc. reflexivity.
Qed.

(** ---- the abstract specification and its printed form *)
Record sast := mkA { s_name : option str; s_mark : mark; s_core : str; s_fields : list field }.

Definition wf_name (n : str) : Prop := strip n = n /\ ~ In 61 n /\ ~ In 59 n.

Definition wf_sast (a : sast) : Prop :=
  match s_name a with Some n => wf_name n | None => True end /\
  wf_mark (s_mark a) /\ wf_core (s_core a) /\ Forall wf_field (s_fields a) /\ NoDup (map f_key (s_fields a)).

Definition show_sast (a : sast) : str :=
  match s_name a with Some n => n ++ [61] | None => [] end ++ show_marked (s_mark a) (s_core a) ++
  match s_fields a with [] => [] | _ => 59 :: pspec_of (s_fields a) end.

(** what parse_spec decides once the strings are gone: a verbatim copy of its tail *)
Definition finish (name : option str) (fr br : restriction) (seq : str) (ps : params) (t : cmdtype) : res aspec :=
  let rightmost := has_key KRightmost ps in
  let ps := del_key KRightmost ps in
  let isr r := match r with RNone => false | _ => true end in
  if match t with TFront => isr br | TBack => isr fr | TAnywhere => false end then Err else
  let r := if isr fr then fr else br in
  if match t with TAnywhere => isr r | _ => false end then Err else
  if has_key KMinOverlap ps && match r with RAnchored => true | _ => false end then Err else
  let ps := match get_key KMinOverlap ps with
            | Some (VInt n) => if zlen seq <? n then set_key KMinOverlap (VInt (zlen seq)) ps else ps
            | _ => ps
            end in
  if rightmost && negb (match t, r with TFront, RNone => true | _, _ => false end) then Err else
  Ok (mkSpec name r seq ps t rightmost).

(** the string handling of parse_spec, for any printed body [pb] that is free of blanks, ';' and '=' and whose
    brace expansion [eb] carries the restriction markers *)
Lemma parse_spec_generic name pb fs t eb fr br core :
  match name with Some n => wf_name n | None => True end ->
  nospace pb = true -> ~ In 59 pb -> ~ In 61 pb ->
  Forall wf_field fs -> NoDup (map f_key fs) ->
  expand_braces pb = Ok eb -> all_x eb = false -> parse_restrictions eb = Ok (fr, br, core) ->
  parse_spec ((match name with Some n => n ++ [61] | None => [] end ++ pb) ++
              match fs with [] => [] | _ => 59 :: pspec_of fs end) t =
  match post_params (map meaning fs) with
  | Err => Err
  | Ok ps => finish name fr br core ps t
  end.
Proof.
  intros Hn Bs B59 B61 Hf Hnd Hex Hax Hpr. unfold parse_spec.
  assert (partition [59] ((match name with Some n => n ++ [61] | None => [] end ++ pb) ++
            match fs with [] => [] | _ => 59 :: pspec_of fs end)
          = (match name with Some n => n ++ [61] | None => [] end ++ pb,
             match fs with [] => false | _ => true end, pspec_of fs)) as P1.
  { assert (~ In 59 (match name with Some n => n ++ [61] | None => [] end ++ pb)) as N.
    { intros H. apply in_app_or in H. destruct H as [H|H]; [|now apply B59].
      destruct name as [n|]; [|destruct H]. apply in_app_or in H. destruct H as [H|[H|[]]]; [|discriminate].
      destruct Hn as (_ & _ & Hn59). now apply Hn59. }
    destruct fs as [|f fs']; [rewrite app_nil_r; now apply partition_absent | now apply partition_found]. }
  rewrite P1.
  rewrite parse_search_parameters_printed by assumption.
  assert ((let '(name0, body0) :=
             match partition [61] (match name with Some n => n ++ [61] | None => [] end ++ pb) with
             | (n, true, rest) => (Some (strip n), strip rest)
             | (b, false, _) => (None, strip b)
             end in (name0, body0)) = (name, pb)) as P2.
  { destruct name as [n|].
    - destruct Hn as (Hs & Hn61 & _). rewrite <- app_assoc. cbn [app]. rewrite partition_found by exact Hn61.
      rewrite Hs, (strip_nospace _ Bs). reflexivity.
    - cbn [app]. rewrite partition_absent by exact B61. rewrite (strip_nospace _ Bs). reflexivity. }
  destruct (match partition [61] (match name with Some n => n ++ [61] | None => [] end ++ pb) with
            | (n, true, rest) => (Some (strip n), strip rest)
            | (b, false, _) => (None, strip b)
            end) as [name0 body0]. injection P2 as -> ->.
  destruct (post_params (map meaning fs)) as [ps|]; [|reflexivity].
  rewrite Hex, Hax, Hpr. unfold finish. reflexivity.
Qed.

Theorem parse_spec_printed a t : wf_sast a ->
  parse_spec (show_sast a) t =
  match post_params (map meaning (s_fields a)) with
  | Err => Err
  | Ok ps => finish (s_name a) (mark_front (s_mark a)) (mark_back (s_mark a)) (s_core a) ps t
  end.
Proof.
  intros (Hn & Hm & Hc & Hf & Hnd). unfold show_sast.
  pose proof (marked_chars _ _ Hm Hc) as Hb. apply body_char_facts in Hb. destruct Hb as (Bs & B59 & B61 & B123 & B125).
  rewrite app_assoc.
  apply parse_spec_generic with (eb := show_marked (s_mark a) (s_core a)); try assumption.
  - now apply expand_braces_plain.
  - now apply all_x_marked.
  - now apply parse_restrictions_marked.
Qed.

(** ---- above parse_spec: "..." and make_adapter *)
Fixpoint no_sub3 (s : str) : bool :=
  negb (starts_with dots s) && match s with [] => true | _ :: t => no_sub3 t end.

Lemma partition_dots_absent : forall s acc fuel, (length s < fuel)%nat -> no_sub3 s = true ->
  partition_aux fuel dots s acc = (rev acc ++ s, false, []).
Proof.
  induction s as [|x t IH]; intros acc fuel Hf Hn.
  - destruct fuel as [|f]; [cbn in Hf; lia|]. cbn. rewrite app_nil_r. reflexivity.
  - destruct fuel as [|f]; [cbn in Hf; lia|]. cbn [no_sub3] in Hn. apply andb_prop in Hn. destruct Hn as [H1 H2].
    apply negb_true_iff in H1. cbn [partition_aux]. rewrite H1.
    rewrite IH; [|cbn in Hf; lia | exact H2]. cbn [rev]. rewrite <- app_assoc. reflexivity.
Qed.

Lemma starts_dots_prefix s1 s2 : s1 <> [] -> starts_with dots (s1 ++ dots ++ s2) = starts_with dots (s1 ++ [46; 46]).
Proof.
  intros Hne. destruct s1 as [|x [|y [|z r]]]; [congruence | | |]; cbn; repeat rewrite ?andb_true_r; reflexivity.
Qed.

Lemma partition_dots_found : forall s1 s2 acc fuel, no_sub3 (s1 ++ [46; 46]) = true ->
  (length (s1 ++ dots ++ s2) < fuel)%nat ->
  partition_aux fuel dots (s1 ++ dots ++ s2) acc = (rev acc ++ s1, true, s2).
Proof.
  induction s1 as [|x t IH]; intros s2 acc fuel Hn Hf.
  - destruct fuel as [|f]; [cbn in Hf; lia|]. cbn. rewrite app_nil_r. reflexivity.
  - destruct fuel as [|f]; [cbn in Hf; lia|]. cbn [partition_aux].
    rewrite starts_dots_prefix by discriminate.
    cbn [app no_sub3] in Hn. apply andb_prop in Hn. destruct Hn as [H1 H2]. apply negb_true_iff in H1.
    change ((x :: t) ++ [46; 46]) with (x :: t ++ [46; 46]). rewrite H1.
    cbn [app]. rewrite IH; [|exact H2 | cbn in Hf; cbn; lia]. cbn [rev]. rewrite <- app_assoc. reflexivity.
Qed.

(** the tail of make_not_linked, on the parsed parts *)
Definition build_single (a : aspec) (name : option str) (base : params) (rw aw : bool) : res adesc :=
  let cls := class_of (sp_type a) (sp_restriction a) (sp_rightmost a) in
  let anyw := match get_key KAnywhere (sp_params a) with Some v => truthy v | None => false end in
  let ps := del_key KAnywhere (sp_params a) in
  let force := anyw && match cls with Front | Back | RightmostFront => true | _ => false end in
  if has_key KRequired ps then Err
  else make_single cls (sp_sequence a) (update base ps) rw aw force
                   (match name with Some n => Some n | None => sp_name a end).

Definition spec_meaning (a : sast) (t : cmdtype) : res aspec :=
  match post_params (map meaning (s_fields a)) with
  | Err => Err
  | Ok ps => finish (s_name a) (mark_front (s_mark a)) (mark_back (s_mark a)) (s_core a) ps t
  end.

(** a specification without "..." : the adapter is built from the parts it was printed from *)
Theorem make_adapter_printed a t base rw aw nm : wf_sast a -> no_sub3 (show_sast a) = true ->
  make_adapter (show_sast a) t base rw aw nm =
  match spec_meaning a t with
  | Err => Err
  | Ok sp => match build_single sp nm base rw aw with Ok d => Ok (OSingle d) | Err => Err end
  end.
Proof.
  intros Hw Hd. unfold make_adapter, partition. rewrite partition_dots_absent by (auto; lia). cbn [rev app].
  unfold make_not_linked. rewrite parse_spec_printed by exact Hw. fold (spec_meaning a t).
  destruct (spec_meaning a t) as [sp|]; reflexivity.
Qed.

(** A...B : both parts non-empty, no "..." before the separator -- the linked adapter of the two parts, the first parsed
    as a 5' specification, the second as a 3' specification *)
Theorem make_adapter_linked_printed a1 a2 t base rw aw nm : wf_sast a1 -> wf_sast a2 ->
  no_sub3 (show_sast a1 ++ [46; 46]) = true ->
  make_adapter (show_sast a1 ++ dots ++ show_sast a2) t base rw aw nm =
    make_linked (show_sast a1) (show_sast a2) nm t base rw aw
  /\ parse_spec (show_sast a1) TFront = spec_meaning a1 TFront
  /\ parse_spec (show_sast a2) TBack = spec_meaning a2 TBack.
Proof.
  intros H1 H2 Hd. split; [|split; apply parse_spec_printed; assumption].
  unfold make_adapter, partition. rewrite partition_dots_found by (auto; lia). cbn [rev app].
  assert (forall a, wf_sast a -> show_sast a <> []) as Hne.
  { intros a (_ & _ & (Hc & _) & _). unfold show_sast. intros E. apply app_eq_nil in E. destruct E as [_ E].
    apply app_eq_nil in E. destruct E as [E _]. destruct (s_mark a); cbn in E; try congruence.
    - apply app_eq_nil in E. destruct E as [_ E]. discriminate.
    - apply app_eq_nil in E. destruct E as [E _]. congruence. }
  destruct (show_sast a1) as [|c1 r1] eqn:E1; [exfalso; revert E1; apply Hne, H1|].
  destruct (show_sast a2) as [|c2 r2] eqn:E2; [exfalso; revert E2; apply Hne, H2|]. reflexivity.
Qed.

(** non-vacuity: "adap=^ACGTNNAC;e=0.15;noindels" is a printed specification *)
Definition ex_sast : sast :=
  mkA (Some [97;100;97;112]) MCaret [65;67;71;84;78;78;65;67]
      [mkF [101] KMaxErrors (PDec [48] [49;53]); mkF [110;111;105;110;100;101;108;115] KNoIndels PFlag].

Example ex_sast_wf : wf_sast ex_sast /\ no_sub3 (show_sast ex_sast) = true /\
  show_sast ex_sast = [97;100;97;112;61;94;65;67;71;84;78;78;65;67;59;101;61;48;46;49;53;59;110;111;105;110;100;101;108;115].
Proof.
  split; [|split; vm_compute; reflexivity].
  unfold wf_sast, ex_sast; cbn [s_name s_mark s_core s_fields].
  split; [repeat split; vm_compute; intuition discriminate|].
  split; [exact I|].
  split; [repeat split; vm_compute; congruence|].
  split.
  - constructor; [|constructor; [|constructor]].
    + split; [cbn; tauto|]. cbn. repeat split; try reflexivity. left. discriminate.
    + split; [cbn; tauto|]. exact I.
  - cbn. constructor; [cbn; intros [H|[]]; discriminate|]. constructor; [cbn; tauto|]. constructor.
Qed.

Example ex_sast_meaning :
  spec_meaning ex_sast TFront
  = Ok (mkSpec (Some [97;100;97;112]) RAnchored [65;67;71;84;78;78;65;67]
               [(KIndels, VInt 0); (KMaxErrors, VDec 15 2)] TFront false).
Proof. vm_compute. reflexivity. Qed.

(** ---- file:, ^file: and file$: -- every record becomes an adapter specification (anchored as the prefix says), the
    parameters after the path are file-level parameters: they update the global ones and are themselves overridden by
    parameters inside a record (precedence theorem) *)
Definition file_tail (path : str) (fs : list field) : str :=
  path ++ match fs with [] => [] | _ => 59 :: pspec_of fs end.

Definition from_records (pre suf : str) (fs : list field) (t : cmdtype) (g : globals) (records : list (option str * str))
  : res (list adapter_out) :=
  match post_params (map meaning fs) with
  | Err => Err
  | Ok fp => all_ok (map (fun rec : option str * str =>
                            make_adapter (pre ++ snd rec ++ suf) t (update (globals_params g) fp)
                                         (g_read_wildcards g) (g_adapter_wildcards g) (fst rec)) records)
  end.

Lemma file_tail_params path fs : ~ In 59 path -> Forall wf_field fs -> NoDup (map f_key fs) ->
  (let '(_, _, pspec) := partition [59] (file_tail path fs) in parse_search_parameters pspec) = post_params (map meaning fs).
Proof.
  intros Hp Hw Hnd. unfold file_tail. destruct fs as [|f fs'].
  - rewrite app_nil_r, partition_absent by exact Hp. reflexivity.
  - rewrite partition_found by exact Hp. now apply parse_search_parameters_printed.
Qed.

Theorem file_plain path fs t g records : ~ In 59 path -> Forall wf_field fs -> NoDup (map f_key fs) ->
  make_from_spec (file_prefix ++ file_tail path fs) t g records = from_records [] [] fs t g records.
Proof.
  intros Hp Hw Hnd. unfold make_from_spec. change (starts_with file_prefix (file_prefix ++ file_tail path fs)) with true. cbv iota.
  change (skipn 5 (file_prefix ++ file_tail path fs)) with (file_tail path fs).
  pose proof (file_tail_params path fs Hp Hw Hnd) as E. destruct (partition [59] (file_tail path fs)) as [[x y] pspec].
  rewrite E. unfold from_records. reflexivity.
Qed.

Theorem file_anchored5 path fs t g records : ~ In 59 path -> Forall wf_field fs -> NoDup (map f_key fs) ->
  make_from_spec (94 :: file_prefix ++ file_tail path fs) t g records = from_records [94] [] fs t g records.
Proof.
  intros Hp Hw Hnd. unfold make_from_spec.
  change (starts_with file_prefix (94 :: file_prefix ++ file_tail path fs)) with false. cbv iota.
  change (starts_with (94 :: file_prefix) (94 :: file_prefix ++ file_tail path fs)) with true. cbv iota.
  change (skipn 6 (94 :: file_prefix ++ file_tail path fs)) with (file_tail path fs).
  pose proof (file_tail_params path fs Hp Hw Hnd) as E. destruct (partition [59] (file_tail path fs)) as [[x y] pspec].
  rewrite E. unfold from_records. reflexivity.
Qed.

Theorem file_anchored3 path fs t g records : ~ In 59 path -> Forall wf_field fs -> NoDup (map f_key fs) ->
  make_from_spec ([102; 105; 108; 101; 36; 58] ++ file_tail path fs) t g records = from_records [] [36] fs t g records.
Proof.
  intros Hp Hw Hnd. unfold make_from_spec.
  change (starts_with file_prefix ([102; 105; 108; 101; 36; 58] ++ file_tail path fs)) with false. cbv iota.
  change (starts_with (94 :: file_prefix) ([102; 105; 108; 101; 36; 58] ++ file_tail path fs)) with false. cbv iota.
  change (starts_with [102; 105; 108; 101; 36; 58] ([102; 105; 108; 101; 36; 58] ++ file_tail path fs)) with true. cbv iota.
  change (skipn 6 ([102; 105; 108; 101; 36; 58] ++ file_tail path fs)) with (file_tail path fs).
  pose proof (file_tail_params path fs Hp Hw Hnd) as E. destruct (partition [59] (file_tail path fs)) as [[x y] pspec].
  rewrite E. unfold from_records. reflexivity.
Qed.
