(** Paired-end pipeline model: pairs are processed and routed as a unit (C05), the documented pair
    decision, which mate each option reaches (C10), accounting for pairs (C04), layout (C19). *)
From Coq Require Import ZArith List Bool Lia.
From CV Require Import Model.Base Model.Align Model.Adapters Model.Kmer Model.Qualtrim Model.Pipeline Model.Paired
  Proofs.PipelineProofs.
Import ListNotations.
Open Scope Z_scope.

(** ---- the pair decision: truth table of --pair-filter, and one-sided bounds *)
Theorem pair_decision_table (f1 f2 : pred) r1 r2 i1 i2 :
  pair_decision PFAny (Some f1) (Some f2) r1 r2 i1 i2 = (f1 r1 i1 || f2 r2 i2) /\
  pair_decision PFBoth (Some f1) (Some f2) r1 r2 i1 i2 = (f1 r1 i1 && f2 r2 i2) /\
  pair_decision PFFirst (Some f1) (Some f2) r1 r2 i1 i2 = f1 r1 i1 /\
  (forall mode, pair_decision mode (Some f1) None r1 r2 i1 i2 = f1 r1 i1) /\
  (forall mode, pair_decision mode None (Some f2) r1 r2 i1 i2 = f2 r2 i2).
Proof. repeat split; intros; try destruct mode; reflexivity. Qed.

(** the untrimmed filters use 'both' when adapters are given for one mate only *)
Theorem untrimmed_override p :
  (o_adapters (po_base p) = [] \/ po_adapters2 p = []) ->
  (o_discard_untrimmed (po_base p) = true \/ o_untrimmed_output (po_base p) = true) ->
  untrimmed_mode p = PFBoth.
Proof.
  intros Hone Hopt. unfold untrimmed_mode.
  assert (H1 : match o_adapters (po_base p), po_adapters2 p with [], _ | _, [] => true | _, _ => false end = true).
  { destruct Hone as [-> | ->]; [reflexivity | destruct (o_adapters (po_base p)); reflexivity]. }
  rewrite H1. destruct Hopt as [-> | ->]; [reflexivity | rewrite orb_true_r; reflexivity].
Qed.

Theorem untrimmed_no_override p :
  o_adapters (po_base p) <> [] -> po_adapters2 p <> [] -> untrimmed_mode p = pf_mode p.
Proof.
  intros H1 H2. unfold untrimmed_mode. destruct (o_adapters (po_base p)); [contradiction|].
  destruct (po_adapters2 p); [contradiction | reflexivity].
Qed.

(** ---- first applicable pair filter consumes the pair *)
Lemma run_pfilters_first fs r1 r2 i1 i2 cat redir :
  run_pfilters fs r1 r2 i1 i2 = Some (Filtered cat redir) ->
  exists pre mode p1 p2 post, fs = pre ++ (cat, mode, p1, p2, redir) :: post /\
    pair_decision mode p1 p2 r1 r2 i1 i2 = true /\
    forall f, In f pre -> let '(_, m, q1, q2, _) := f in pair_decision m q1 q2 r1 r2 i1 i2 = false.
Proof.
  induction fs as [|[[[[c m] q1] q2] rd] t IH]; cbn [run_pfilters]; intros H; [discriminate|].
  destruct (pair_decision m q1 q2 r1 r2 i1 i2) eqn:E.
  - inversion H; subst. exists [], m, q1, q2, t. split; [reflexivity|]. split; [assumption|]. intros f [].
  - destruct (IH H) as (pre & mode & p1 & p2 & post & Hfs & Hp & Hpre).
    exists ((c, m, q1, q2, rd) :: pre), mode, p1, p2, post. split; [cbn; rewrite Hfs; reflexivity|]. split; [assumption|].
    intros f [Hf|Hf]; [subst f; assumption | apply Hpre; assumption].
Qed.

Lemma run_pfilters_only_filtered fs r1 r2 i1 i2 f : run_pfilters fs r1 r2 i1 i2 = Some f -> exists c rd, f = Filtered c rd.
Proof.
  induction fs as [|[[[[c m] q1] q2] rd] t IH]; cbn [run_pfilters]; intros H; [discriminate|].
  destruct (pair_decision m q1 q2 r1 r2 i1 i2); [inversion H; eauto | auto].
Qed.

(** ---- --pair-adapters: both mates trimmed by adapters of the same rank, or neither changed *)
Lemma adapter_match_idx idx a s m : adapter_match idx a s = Some m -> m_idx m = idx.
Proof.
  destruct a as [nm ad thr|nm fa ft ba bt freq breq]; cbn [adapter_match].
  - destruct (single_match ad thr s); intros H; inversion H; reflexivity.
  - destruct (single_match fa ft s) as [f|]; destruct freq; cbn iota; try discriminate;
      match goal with |- context [single_match ba bt ?r] => destruct (single_match ba bt r) end;
      try destruct breq; intros H; inversion H; reflexivity.
Qed.

Lemma best_pair_same_rank : forall ads1 ads2 idx s1 s2 best m1 m2,
  (forall b1 b2, best = Some (b1, b2) -> m_idx b1 = m_idx b2) ->
  best_pair idx ads1 ads2 s1 s2 best = Some (m1, m2) -> m_idx m1 = m_idx m2.
Proof.
  induction ads1 as [|a1 t1 IH]; intros ads2 idx s1 s2 best m1 m2 Hb H; cbn [best_pair] in H.
  - eauto.
  - destruct ads2 as [|a2 t2]; [eauto|].
    eapply IH; [|exact H].
    intros b1 b2 Hbest.
    destruct (adapter_match idx a1 s1) as [x1|] eqn:E1; [|eauto].
    destruct (adapter_match idx a2 s2) as [x2|] eqn:E2; [|eauto].
    apply adapter_match_idx in E1. apply adapter_match_idx in E2.
    destruct best as [[c1 c2]|].
    + destruct ((m_score c1 + m_score c2 <? m_score x1 + m_score x2)
                || (m_score x1 + m_score x2 =? m_score c1 + m_score c2) && (m_errors x1 + m_errors x2 <? m_errors c1 + m_errors c2));
        inversion Hbest; subst; [congruence | eauto].
    + inversion Hbest; subst. congruence.
Qed.

Theorem pair_adapters_both_or_neither o1 o2 r1 r2 :
  let '(a1, a2, m1, m2) := pair_adapters_stage o1 o2 r1 r2 in
  (m1 = [] /\ m2 = [] /\ a1 = r1 /\ a2 = r2) \/
  (exists x1 x2, m1 = [x1] /\ m2 = [x2] /\ m_idx x1 = m_idx x2 /\
                 a1 = apply_one_match (o_action o1) x1 r1 /\ a2 = apply_one_match (o_action o1) x2 r2).
Proof.
  unfold pair_adapters_stage.
  destruct (best_pair 0 (o_adapters o1) (o_adapters o2) (rseq r1) (rseq r2) None) as [[x1 x2]|] eqn:E.
  - right. exists x1, x2. repeat split; try reflexivity.
    eapply best_pair_same_rank; [|exact E]. intros b1 b2 Hb; discriminate.
  - left. auto.
Qed.

(** ---- which mate each option reaches (C10) *)
Theorem sides p :
  let o := po_base p in
  (* lower-case options: R1 only; upper-case: R2 only *)
  o_cuts (side1 p) = o_cuts o /\ o_cuts (side2 p) = po_cuts2 p /\
  o_adapters (side1 p) = o_adapters o /\ o_adapters (side2 p) = po_adapters2 p /\
  (* -q applies to both unless -Q is given *)
  o_qcut (side1 p) = o_qcut o /\
  o_qcut (side2 p) = (match po_qcut2 p with Some q => q | None => o_qcut o end) /\
  (* --length applies to both unless -L is given; -L alone touches R2 only *)
  o_length (side1 p) = o_length o /\
  o_length (side2 p) = (match po_length2 p with Some l => Some l | None => o_length o end) /\
  (* shared options *)
  o_nextseq (side2 p) = o_nextseq o /\ o_trim_n (side2 p) = o_trim_n o /\ o_length_tag (side2 p) = o_length_tag o /\
  o_strip_suffix (side2 p) = o_strip_suffix o /\ o_prefix (side2 p) = o_prefix o /\ o_suffix (side2 p) = o_suffix o /\
  o_zero_cap (side2 p) = o_zero_cap o /\
  (* --poly-a: poly-A tail on R1, poly-T head on R2 *)
  o_poly_a (side2 p) = false /\ o_poly_t (side2 p) = o_poly_a o.
Proof.
  cbn zeta. unfold side1, side2; cbn.
  repeat split; try reflexivity.
  destruct (o_length (po_base p)), (po_length2 p); reflexivity.
Qed.

(** every non-adapter stage acts on each mate separately, with that mate's options *)
Theorem pstage_independent p k s :
  k <> KAdapters ->
  apply_pkind p k s = (apply_kind (side1 p) k (fst s), apply_kind (side2 p) k (snd s)).
Proof. intros Hk. destruct s as [ri1 ri2]. unfold apply_pkind. destruct k; try contradiction; reflexivity. Qed.

(** ---- accounting for pairs *)
Definition poutcomes order forder p pairs : list poutcome := map (process_pair order forder p) pairs.
Definition pfold (outs : list poutcome) (rep : preport) : preport := fold_left pstep outs rep.

Lemma prun_as_fold order forder p pairs : prun order forder p pairs = pfold (poutcomes order forder p pairs) empty_preport.
Proof.
  unfold prun, pfold, poutcomes. generalize empty_preport.
  induction pairs as [|x t IH]; intros rep; cbn; [reflexivity | apply IH].
Qed.

Definition p_is_written (out : poutcome) : bool := match po_fate out with Written _ => true | Filtered _ _ => false end.
Definition p_out_file (out : poutcome) : option Z := match po_fate out with Written d => Some d | Filtered _ rd => rd end.

Lemma pfold_counts : forall outs rep,
  pr_n (pfold outs rep) = pr_n rep + zlen outs /\
  pr_written (pfold outs rep) = pr_written rep + zsum_map (fun o => b2z (p_is_written o)) outs /\
  total_filtered (pr_filtered (pfold outs rep)) = total_filtered (pr_filtered rep) + zsum_map (fun o => b2z (negb (p_is_written o))) outs /\
  pr_wbp1 (pfold outs rep) = pr_wbp1 rep + zsum_map (fun o => if p_is_written o then rlen (po_r1 o) else 0) outs /\
  pr_wbp2 (pfold outs rep) = pr_wbp2 rep + zsum_map (fun o => if p_is_written o then rlen (po_r2 o) else 0) outs.
Proof.
  induction outs as [|out t IH]; intros rep; cbn [pfold fold_left]; rewrite ?zsum_map_cons, ?zsum_map_nil.
  - unfold zlen; cbn. repeat split; lia.
  - fold (pfold t (pstep rep out)). destruct (IH (pstep rep out)) as (h1 & h2 & h3 & h4 & h5).
    rewrite h1, h2, h3, h4, h5. rewrite zlen_cons'.
    unfold pstep, p_is_written; cbn [pr_n pr_written pr_filtered pr_wbp1 pr_wbp2].
    destruct (po_fate out); cbn beta iota zeta; cbn [negb b2z]; rewrite ?total_bump; repeat split; lia.
Qed.

Theorem pair_totals order forder p pairs :
  let rep := prun order forder p pairs in
  pr_n rep = zlen pairs /\ pr_n rep = pr_written rep + total_filtered (pr_filtered rep).
Proof.
  cbn zeta. rewrite prun_as_fold.
  destruct (pfold_counts (poutcomes order forder p pairs) empty_preport) as (h1 & h2 & h3 & _).
  rewrite h1, h2, h3. cbn [empty_preport pr_n pr_written pr_filtered total_filtered zsum_map fold_right].
  unfold poutcomes. unfold zlen. rewrite map_length. split; [lia|].
  fold (zlen pairs).
  assert (Hs : forall l : list poutcome,
             zlen l = zsum_map (fun o => b2z (p_is_written o)) l + zsum_map (fun o => b2z (negb (p_is_written o))) l).
  { induction l as [|x l IHl]; [reflexivity|]. rewrite zlen_cons', !zsum_map_cons. destruct (p_is_written x); cbn [negb b2z]; lia. }
  specialize (Hs (map (process_pair order forder p) pairs)). unfold zlen in Hs at 1. rewrite map_length in Hs.
  unfold zlen. lia.
Qed.

(** each pair file holds exactly the pairs routed to it, both mates together, in input order *)
Definition precords_of (d : Z) (fs : list (Z * list (read * read))) : list (read * read) :=
  flat_map (fun f : Z * list (read * read) => if fst f =? d then snd f else []) fs.
Definition pdests (fs : list (Z * list (read * read))) : list Z := map fst fs.

Lemma precords_absent d : forall l, ~ In d (pdests l) -> precords_of d l = [].
Proof.
  induction l as [|[a b] l IH]; intros Hn; [reflexivity|]. cbn [precords_of flat_map fst snd].
  destruct (a =? d) eqn:Ea.
  - apply Z.eqb_eq in Ea. subst a. exfalso. apply Hn. left. reflexivity.
  - cbn [app]. apply IH. intros Hin. apply Hn. right. assumption.
Qed.

Lemma pdests_add d rr d0 : forall l, In d0 (pdests (add_pfile d rr l)) -> d0 = d \/ In d0 (pdests l).
Proof.
  induction l as [|[a b] l IH]; cbn [add_pfile pdests map fst].
  - intros [H|[]]; auto.
  - destruct (a =? d); cbn [pdests map fst]; intros [H|H].
    + right; left; assumption.
    + right; right; assumption.
    + right; left; assumption.
    + fold (pdests (add_pfile d rr l)) in H. destruct (IH H) as [H'|H']; [left | right; right]; assumption.
Qed.

Lemma add_pfile_spec d rr : forall fs, NoDup (pdests fs) ->
  NoDup (pdests (add_pfile d rr fs)) /\
  forall d', precords_of d' (add_pfile d rr fs) = precords_of d' fs ++ (if d =? d' then [rr] else []).
Proof.
  induction fs as [|[d0 rs] t IH]; intros Hnd.
  - cbn. split; [constructor; [intros [] | constructor]|]. intros d'. destruct (d =? d'); reflexivity.
  - cbn [pdests map fst] in Hnd. inversion Hnd as [|x l Hnotin Hnd']; subst. cbn [add_pfile].
    destruct (d0 =? d) eqn:E.
    + apply Z.eqb_eq in E. subst d0. split; [cbn [pdests map fst]; constructor; assumption|].
      intros d'. cbn [precords_of flat_map fst snd]. fold (precords_of d' t). destruct (d =? d') eqn:E'.
      * apply Z.eqb_eq in E'. subst d'. rewrite (precords_absent d t Hnotin). rewrite !app_nil_r. reflexivity.
      * rewrite app_nil_r. reflexivity.
    + destruct (IH Hnd') as [IH1 IH2]. split.
      * cbn [pdests map fst]. constructor; [|exact IH1].
        intros Hin. apply pdests_add in Hin. destruct Hin as [Hin|Hin].
        -- apply Z.eqb_neq in E. congruence.
        -- apply Hnotin. exact Hin.
      * intros d'. cbn [precords_of flat_map fst snd]. fold (precords_of d' t). fold (precords_of d' (add_pfile d rr t)).
        rewrite IH2. rewrite app_assoc. reflexivity.
Qed.

Lemma pfold_files : forall outs rep, NoDup (pdests (pr_files rep)) ->
  NoDup (pdests (pr_files (pfold outs rep))) /\
  forall d, precords_of d (pr_files (pfold outs rep)) =
            precords_of d (pr_files rep) ++
            map (fun o => (po_r1 o, po_r2 o)) (filter (fun o => match p_out_file o with Some d' => d' =? d | None => false end) outs).
Proof.
  induction outs as [|out t IH]; intros rep Hnd; cbn [pfold fold_left filter map].
  - split; [assumption|]. intros d. rewrite app_nil_r. reflexivity.
  - fold (pfold t (pstep rep out)).
    assert (Hstep : NoDup (pdests (pr_files (pstep rep out))) /\
                    forall d, precords_of d (pr_files (pstep rep out)) =
                              precords_of d (pr_files rep) ++ (match p_out_file out with Some d' => if d' =? d then [(po_r1 out, po_r2 out)] else [] | None => [] end)).
    { unfold pstep, p_out_file; cbn [pr_files].
      destruct (po_fate out) as [d0|c [d0|]].
      - destruct (add_pfile_spec d0 (po_r1 out, po_r2 out) (pr_files rep) Hnd) as [H1 H2]. split; [exact H1|exact H2].
      - destruct (add_pfile_spec d0 (po_r1 out, po_r2 out) (pr_files rep) Hnd) as [H1 H2]. split; [exact H1|exact H2].
      - split; [exact Hnd|]. intros d. rewrite app_nil_r. reflexivity. }
    destruct Hstep as [Hs1 Hs2]. destruct (IH (pstep rep out) Hs1) as [IH1 IH2]. split; [exact IH1|].
    intros d. rewrite IH2, Hs2. rewrite <- app_assoc. f_equal.
    destruct (p_out_file out) as [d'|]; [destruct (d' =? d)|]; reflexivity.
Qed.

Theorem pair_files_synchronized order forder p pairs d :
  let file := precords_of d (pr_files (prun order forder p pairs)) in
  file = map (fun o => (po_r1 o, po_r2 o))
             (filter (fun o => match p_out_file o with Some d' => d' =? d | None => false end) (poutcomes order forder p pairs)) /\
  (* the R1 file and the R2 file of this destination: same number of records, k-th records from the same input pair *)
  length (map fst file) = length (map snd file).
Proof.
  cbn zeta. rewrite prun_as_fold.
  destruct (pfold_files (poutcomes order forder p pairs) empty_preport) as [_ H]; [constructor|].
  rewrite H. cbn [empty_preport pr_files precords_of flat_map app]. split; [reflexivity|]. rewrite !map_length. reflexivity.
Qed.

Theorem pair_one_fate (out : poutcome) :
  (p_is_written out = true /\ exists d, p_out_file out = Some d) \/ (p_is_written out = false).
Proof. unfold p_is_written, p_out_file. destruct (po_fate out); [left; eauto | right; reflexivity]. Qed.

(** ---- layout: interleaved and two-file input carry the same pairs *)
Theorem deinterleave_interleave pairs : deinterleave (interleave pairs) = pairs.
Proof.
  induction pairs as [|[a b] t IH]; [reflexivity|]. cbn [interleave flat_map app fst snd deinterleave].
  fold (interleave t). rewrite IH. reflexivity.
Qed.

(** ---- C06 for pairs: every pair file of a run over a chunked input is the concatenation, in chunk
    order, of the files of the runs over the chunks; the pair count adds up *)
Theorem pair_files_chunked order forder p (chunks : list (list (read * read))) d :
  precords_of d (pr_files (prun order forder p (concat chunks))) =
  concat (map (fun c => precords_of d (pr_files (prun order forder p c))) chunks).
Proof.
  destruct (pair_files_synchronized order forder p (concat chunks) d) as [H _]. cbv zeta in H. rewrite H. clear H.
  induction chunks as [|c t IH]; [reflexivity|].
  cbn [concat map]. unfold poutcomes in *. rewrite map_app, filter_app, map_app, IH. f_equal.
  destruct (pair_files_synchronized order forder p c d) as [H _]. cbv zeta in H. rewrite H. reflexivity.
Qed.

Theorem pair_counts_chunked order forder p (chunks : list (list (read * read))) :
  pr_n (prun order forder p (concat chunks)) = zsum_map (fun c => pr_n (prun order forder p c)) chunks.
Proof.
  induction chunks as [|c t IH]; [reflexivity|]. cbn [concat]. rewrite zsum_map_cons, <- IH.
  destruct (pair_totals order forder p (c ++ concat t)) as [H1 _].
  destruct (pair_totals order forder p c) as [H2 _]. destruct (pair_totals order forder p (concat t)) as [H3 _].
  cbn zeta in *. rewrite H1, H2, H3. unfold zlen. rewrite app_length. lia.
Qed.
