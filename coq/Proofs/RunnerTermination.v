(** Runner protocol, part 2: every step decreases a natural-number measure, so every schedule --
    fault-free or not -- is finite (no infinite exchange of messages: the protocol cannot livelock). *)
From Coq Require Import ZArith List Bool Arith Lia.
From CV Require Import Model.Runner Proofs.RunnerSafety.
Import ListNotations.

Section Termination.
  Variable A O S : Type.
  Variable f : A -> O.
  Variable g : A -> S.
  Variable szero : S.
  Variable sadd : S -> S -> S.
  Variable chunks : list A.
  Variable W : nat.
  Variable bad : nat -> bool.
  Variable rfail : option nat.
  Variable ffail : bool.

  Notation state := (state O S).
  Notation step := (step A O S f g sadd chunks W bad rfail ffail).
  Notation C := (length chunks).

  Definition idle_count (h : nat -> wst) (l : list nat) : nat :=
    length (filter (fun w => match h w with Idle => true | _ => false end) l).

  Definition measure (s : state) : nat :=
    4 * (C - next s) + 4 * (W - pills s) + 3 * length (inflight s) + idle_count (wstate s) (seq 0 W)
    + length (results s) + length (open s) + (if rdone s then 0 else 3 * W + 1) + (if failed s then 0 else 1).

  Lemma idle_upd_absent h w x l : ~ In w l -> idle_count (upd h w x) l = idle_count h l.
  Proof.
    unfold idle_count. induction l as [|v t IH]; intros Hn; [reflexivity|]. cbn [filter].
    unfold upd at 1. destruct (Nat.eqb v w) eqn:E.
    - apply Nat.eqb_eq in E. subst v. exfalso. apply Hn. left. reflexivity.
    - assert (IH' := IH ltac:(intros H; apply Hn; right; exact H)).
      destruct (h v); cbn [length]; rewrite IH'; reflexivity.
  Qed.

  Lemma idle_upd_le h w x l : NoDup l -> idle_count (upd h w x) l <= idle_count h l + 1.
  Proof.
    intros Hnd. induction l as [|v t IH]; [cbn; lia|]. inversion Hnd as [|y l' Hnotin Hnd']; subst.
    destruct (Nat.eq_dec v w) as [->|Hne].
    - pose proof (idle_upd_absent h w x t Hnotin) as Habs. unfold idle_count in *. cbn [filter].
      unfold upd at 1. rewrite Nat.eqb_refl.
      destruct x, (h w); cbn [length]; rewrite ?Habs; lia.
    - specialize (IH Hnd'). unfold idle_count in *. cbn [filter]. unfold upd at 1.
      assert (E : Nat.eqb v w = false) by (apply Nat.eqb_neq; exact Hne). rewrite E.
      destruct (h v); cbn [length]; lia.
  Qed.

  Lemma idle_upd_notidle h w x l : x <> Idle -> idle_count (upd h w x) l <= idle_count h l.
  Proof.
    intros Hx. unfold idle_count. induction l as [|v t IH]; cbn [filter length]; [lia|].
    unfold upd at 1. destruct (Nat.eqb v w) eqn:E.
    - destruct x; try contradiction; destruct (h v); cbn [length]; lia.
    - destruct (h v); cbn [length]; lia.
  Qed.

  Lemma idle_upd_dec h w l : In w l -> h w = Idle -> idle_count (upd h w Waiting) l < idle_count h l.
  Proof.
    intros Hin Hw. induction l as [|v t IH]; [contradiction|].
    pose proof (idle_upd_notidle h w Waiting t ltac:(discriminate)) as Hle.
    unfold idle_count in *. cbn [filter].
    unfold upd at 1. destruct (Nat.eqb v w) eqn:E.
    - apply Nat.eqb_eq in E. subst v. rewrite Hw. cbn [length]. lia.
    - apply Nat.eqb_neq in E. destruct Hin as [Hin|Hin]; [congruence|]. specialize (IH Hin).
      destruct (h v); cbn [length]; lia.
  Qed.

  Lemma drop_for_length {M} w : forall (l : list (nat * M)) m, head_for w l = Some m -> length l = Datatypes.S (length (drop_for w l)).
  Proof.
    intros l m H. destruct (head_drop w l m H) as (a & b & Hl & Hd & _). rewrite Hd. rewrite Hl at 1. rewrite !app_length. cbn. lia.
  Qed.

  Lemma remove1_length w : forall l, mem w l = true -> length l = Datatypes.S (length (remove1 w l)).
  Proof.
    induction l as [|x t IH]; cbn; [discriminate|]. rewrite (Nat.eqb_sym w x).
    destruct (Nat.eqb x w) eqn:E; cbn; [reflexivity|]. intros H. rewrite (IH H). reflexivity.
  Qed.

  Theorem step_decreases s l s' : step s l = Some s' -> measure s' < measure s.
  Proof.
    intros Hstep. unfold Runner.step in Hstep.
    destruct (failed s) eqn:Efail; [discriminate|].
    destruct ffail.
    { destruct l; try discriminate. inversion Hstep; subst; clear Hstep. unfold measure; cbn [next pills inflight wstate results open rdone failed]. rewrite Efail. lia. }
    destruct l as [w|w|w| |w|w|w|w|w|w|]; [| | | | | | | | | |discriminate].
    - destruct (w <? W) eqn:Ew; cbn [andb] in Hstep; [|discriminate].
      destruct (wstate s w) eqn:Ews; try discriminate.
      inversion Hstep; subst; clear Hstep. unfold measure; cbn [next pills inflight wstate results open rdone failed]; rewrite ?Efail.
      apply Nat.ltb_lt in Ew.
      pose proof (idle_upd_dec (wstate s) w (seq 0 W) ltac:(apply in_seq; lia) Ews). lia.
    - match type of Hstep with (if ?c then _ else _) = _ => destruct c eqn:Ec; [|discriminate] end.
      inversion Hstep; subst; clear Hstep.
      repeat (apply andb_prop in Ec; destruct Ec as [Ec ?]).
      assert (Hlt : next s < C) by (apply Nat.ltb_lt; assumption).
      unfold measure; cbn [next pills inflight wstate results open rdone failed]; rewrite ?Efail. rewrite app_length. cbn [length]. lia.
    - match type of Hstep with (if ?c then _ else _) = _ => destruct c eqn:Ec; [|discriminate] end.
      inversion Hstep; subst; clear Hstep.
      repeat (apply andb_prop in Ec; destruct Ec as [Ec ?]).
      assert (Hlt : pills s < W) by (apply Nat.ltb_lt; assumption).
      assert (Hrd : rdone s = false) by (destruct (rdone s); [discriminate | reflexivity]).
      unfold measure; cbn [next pills inflight wstate results open rdone failed]; rewrite ?Efail. rewrite app_length, Hrd. cbn [length].
      match goal with |- context [if ?c then 0 else _] => destruct c end; lia.
    - match type of Hstep with (if ?c then _ else _) = _ => destruct c eqn:Ec; [|discriminate] end.
      inversion Hstep; subst; clear Hstep.
      apply andb_prop in Ec. destruct Ec as [Ec _].
      assert (Hrd : rdone s = false) by (destruct (rdone s); [discriminate | reflexivity]).
      unfold measure; cbn [next pills inflight wstate results open rdone failed]; rewrite ?Efail. rewrite app_length, map_length, seq_length, Hrd. cbv iota. lia.
    - destruct (wstate s w) eqn:Ews; try discriminate.
      destruct (head_for w (inflight s)) as [[i| |]|] eqn:Eh; try discriminate.
      pose proof (drop_for_length w _ _ Eh) as Hl.
      destruct (bad i).
      + inversion Hstep; subst; clear Hstep. unfold measure; cbn [next pills inflight wstate results open rdone failed]; rewrite ?Efail.
        pose proof (idle_upd_notidle (wstate s) w Done (seq 0 W) ltac:(discriminate)). rewrite app_length. cbn [length]. lia.
      + destruct (nth_error chunks i); [|discriminate].
        inversion Hstep; subst; clear Hstep. unfold measure; cbn [next pills inflight wstate results open rdone failed]; rewrite ?Efail.
        pose proof (idle_upd_le (wstate s) w Idle (seq 0 W) (seq_NoDup W 0)). rewrite app_length. cbn [length]. lia.
    - destruct (wstate s w) eqn:Ews; try discriminate.
      destruct (head_for w (inflight s)) as [[i| |]|] eqn:Eh; try discriminate.
      pose proof (drop_for_length w _ _ Eh) as Hl.
      inversion Hstep; subst; clear Hstep. unfold measure; cbn [next pills inflight wstate results open rdone failed]; rewrite ?Efail.
      pose proof (idle_upd_notidle (wstate s) w Done (seq 0 W) ltac:(discriminate)). rewrite app_length. cbn [length]. lia.
    - destruct (wstate s w) eqn:Ews; try discriminate.
      destruct (head_for w (inflight s)) as [[i| |]|] eqn:Eh; try discriminate.
      pose proof (drop_for_length w _ _ Eh) as Hl.
      inversion Hstep; subst; clear Hstep. unfold measure; cbn [next pills inflight wstate results open rdone failed]; rewrite ?Efail.
      pose proof (idle_upd_notidle (wstate s) w Done (seq 0 W) ltac:(discriminate)). rewrite app_length. cbn [length]. lia.
    - destruct (mem w (open s)); [|discriminate].
      destruct (head_for w (results s)) as [[i o|st|]|] eqn:Eh; try discriminate.
      pose proof (drop_for_length w _ _ Eh) as Hl.
      destruct (flush _ _ _ _) as [[p c] wr]. inversion Hstep; subst; clear Hstep.
      unfold measure; cbn [next pills inflight wstate results open rdone failed]; rewrite ?Efail. lia.
    - destruct (mem w (open s)) eqn:Em; [|discriminate].
      destruct (head_for w (results s)) as [[i o|st|]|] eqn:Eh; try discriminate.
      pose proof (drop_for_length w _ _ Eh) as Hl. pose proof (remove1_length w _ Em) as Hr.
      inversion Hstep; subst; clear Hstep. unfold measure; cbn [next pills inflight wstate results open rdone failed]; rewrite ?Efail. lia.
    - destruct (mem w (open s)); [|discriminate].
      destruct (head_for w (results s)) as [[i o|st|]|] eqn:Eh; try discriminate.
      pose proof (drop_for_length w _ _ Eh) as Hl.
      inversion Hstep; subst; clear Hstep. unfold measure; cbn [next pills inflight wstate results open rdone failed]; rewrite ?Efail. lia.
  Qed.

  (** hence a schedule that the system accepts is never longer than the initial measure *)
  Theorem schedules_are_bounded : forall ls s s',
    run A O S f g sadd chunks W bad rfail ffail s ls = Some s' -> length ls + measure s' <= measure s.
  Proof.
    induction ls as [|l t IH]; intros s s' H; cbn in H.
    - inversion H; subst. cbn. lia.
    - destruct (step s l) as [s1|] eqn:E; [|discriminate].
      pose proof (step_decreases _ _ _ E). specialize (IH _ _ H). cbn [length]. lia.
  Qed.
End Termination.
