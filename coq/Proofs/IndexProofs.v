(** Theorems about the adapter index model (Model/Index.v). *)
From Coq Require Import ZArith List Bool Lia.
From CV Require Import Model.Base Model.Align Model.Adapters Model.Index.
Import ListNotations.
Open Scope Z_scope.

(** ---- the Hamming neighbourhood *)
Fixpoint hamming (t s : str) : Z :=
  match t, s with
  | a :: t', b :: s' => (if a =? b then 0 else 1) + hamming t' s'
  | _, _ => 0
  end.

Lemma ham_go_spec : forall t s e0 e, ham_go t s e0 = Some e -> length s = length t /\ e = e0 + hamming t s.
Proof.
  induction t as [|a t IH]; intros [|b s] e0 e H; cbn in H; try discriminate.
  - inversion H; subst. cbn. split; [reflexivity | lia].
  - cbn [hamming length]. destruct (a =? b).
    + destruct (IH _ _ _ H) as [Hl He]. split; [congruence | lia].
    + destruct (is_acgt b); [|discriminate]. destruct (IH _ _ _ H) as [Hl He]. split; [congruence | lia].
Qed.

(** an entry of the Hamming part of the index: same length, errors = the Hamming distance <= k,
    matches = length - errors *)
Lemma ham_entry_exact t k s e m :
  ham_entry t k s = Some (e, m) -> length s = length t /\ e = hamming t s /\ e <= k /\ m = zlen t - e.
Proof.
  unfold ham_entry. destruct (ham_go t s 0) as [e'|] eqn:H; [|discriminate].
  destruct (e' <=? k) eqn:Hk; [|discriminate]. intros Heq. inversion Heq; subst.
  destruct (ham_go_spec _ _ _ _ H) as [Hl He]. apply Z.leb_le in Hk. repeat split; auto; lia.
Qed.

(** ---- the dictionary as a fold *)
Lemma number_nth {X} : forall (l : list X) i r x, In (r, x) (number i l) -> exists j, r = (i + j)%nat /\ nth_error l j = Some x.
Proof.
  induction l as [|y t IH]; intros i r x H; cbn in H; [contradiction|].
  destruct H as [H|H].
  - inversion H; subst. exists 0%nat. split; [lia | reflexivity].
  - destruct (IH _ _ _ H) as (j & Hr & Hn). exists (S j). split; [lia | exact Hn].
Qed.

Definition st_ok (l : list (nat * iad)) (s : str) (st : istate) : Prop :=
  match fst st with
  | None => snd st = false
  | Some (r, e, m) => exists a, In (r, a) l /\ entry_for a s = Some (e, m)
  end.

Lemma fold_index_sound s : forall l pre st,
  st_ok pre s st -> st_ok (pre ++ l) s (fold_left (index_step s) l st).
Proof.
  induction l as [|[r a] t IH]; intros pre st Hst; cbn [fold_left].
  - rewrite app_nil_r. exact Hst.
  - replace (pre ++ (r, a) :: t) with ((pre ++ [(r, a)]) ++ t) by (rewrite <- app_assoc; reflexivity).
    apply IH. unfold index_step; cbn [fst snd].
    destruct (entry_for a s) as [[e m]|] eqn:He.
    + destruct st as [[[[r0 e0] m0]|] amb]; cbn [fst snd] in *.
      * destruct (m <? m0).
        -- unfold st_ok in *; cbn [fst] in *. destruct Hst as (a0 & Hin & H0). exists a0. split; [apply in_or_app; left; exact Hin | exact H0].
        -- unfold st_ok; cbn [fst]. exists a. split; [apply in_or_app; right; left; reflexivity | exact He].
      * unfold st_ok; cbn [fst]. exists a. split; [apply in_or_app; right; left; reflexivity | exact He].
    + unfold st_ok in *. destruct (fst st) as [[[r0 e0] m0]|]; [|exact Hst].
      destruct Hst as (a0 & Hin & H0). exists a0. split; [apply in_or_app; left; exact Hin | exact H0].
Qed.

(** every entry the dictionary holds for a key comes from an adapter of the set in whose
    neighbourhood the key lies, with that adapter's (errors, matches) *)
Theorem index_lookup_sound ads s r e m :
  index_lookup ads s = Some (r, e, m) ->
  exists a, nth_error ads r = Some a /\ entry_for a s = Some (e, m).
Proof.
  unfold index_lookup. pose proof (fold_index_sound s (number 0 ads) [] (None, false) eq_refl) as H.
  destruct (fold_left (index_step s) (number 0 ads) (None, false)) as [cur amb]. cbn [app] in H.
  destruct amb; [discriminate|]. intros ->. unfold st_ok in H; cbn [fst] in H.
  destruct H as (a & Hin & He). destruct (number_nth _ _ _ _ Hin) as (j & Hr & Hn). cbn in Hr. subst r.
  exists a. split; assumption.
Qed.

(** ---- a unique best candidate is found, whatever the order of the adapters *)
Definition beaten (s : str) (m : Z) (b : iad) : Prop :=
  match entry_for b s with Some (_, m') => m' < m | None => True end.

Definition st_below (s : str) (m : Z) (st : istate) : Prop :=
  match fst st with None => snd st = false | Some (_, _, m0) => m0 < m end.

Lemma fold_beaten s m : forall l st,
  (forall x, In x l -> beaten s m (snd x)) -> st_below s m st -> st_below s m (fold_left (index_step s) l st).
Proof.
  induction l as [|[r b] t IH]; intros st Hall Hst; cbn [fold_left]; [exact Hst|].
  apply IH; [intros x Hx; apply Hall; right; exact Hx|].
  pose proof (Hall (r, b) (or_introl eq_refl)) as Hb. unfold beaten in Hb; cbn [snd] in Hb.
  unfold index_step; cbn [fst snd]. destruct (entry_for b s) as [[e' m']|]; [|exact Hst].
  unfold st_below in *. destruct st as [[[[r0 e0] m0]|] amb]; cbn [fst snd] in *.
  - destruct (m' <? m0); cbn [fst]; [exact Hst | exact Hb].
  - exact Hb.
Qed.

Lemma fold_after_best s r e m : forall l st,
  (forall x, In x l -> beaten s m (snd x)) -> st = (Some (r, e, m), false) ->
  fold_left (index_step s) l st = (Some (r, e, m), false).
Proof.
  induction l as [|[r' b] t IH]; intros st Hall Hst; cbn [fold_left]; [exact Hst|].
  apply IH; [intros x Hx; apply Hall; right; exact Hx|].
  pose proof (Hall (r', b) (or_introl eq_refl)) as Hb. unfold beaten in Hb; cbn [snd] in Hb.
  subst st. unfold index_step; cbn [fst snd]. destruct (entry_for b s) as [[e' m']|]; [|reflexivity].
  assert (H : m' <? m = true) by (apply Z.ltb_lt; exact Hb). rewrite H. reflexivity.
Qed.

Theorem index_lookup_unique_best ads s l1 a l2 e m :
  ads = l1 ++ a :: l2 -> entry_for a s = Some (e, m) ->
  (forall b, In b l1 \/ In b l2 -> beaten s m b) ->
  index_lookup ads s = Some (length l1, e, m).
Proof.
  intros Hads He Hall. unfold index_lookup.
  assert (Hnum : forall (l : list iad) i k, number i (l ++ k) = number i l ++ number (i + length l) k).
  { induction l as [|x t IH]; intros i k; cbn [number app length]; [rewrite Nat.add_0_r; reflexivity|].
    rewrite IH. replace (S i + length t)%nat with (i + S (length t))%nat by lia. reflexivity. }
  assert (Hsnd : forall (l : list iad) i x, In x (number i l) -> In (snd x) l).
  { induction l as [|y t IH]; intros i x Hx; cbn in Hx; [contradiction|]. destruct Hx as [<-|Hx]; [left; reflexivity | right; eapply IH; exact Hx]. }
  rewrite Hads, Hnum. cbn [number plus]. rewrite fold_left_app. cbn [fold_left].
  pose proof (fold_beaten s m (number 0 l1) (None, false)
                (fun x Hx => Hall _ (or_introl (Hsnd _ _ _ Hx))) eq_refl) as H1.
  destruct (fold_left (index_step s) (number 0 l1) (None, false)) as [cur amb] eqn:Ef.
  assert (Hstep : index_step s (cur, amb) (length l1, a) = (Some (length l1, e, m), false)).
  { unfold index_step; cbn [fst snd]. rewrite He. unfold st_below in H1; cbn [fst snd] in H1.
    destruct cur as [[[r0 e0] m0]|].
    - assert (H : m <? m0 = false) by (apply Z.ltb_ge; lia). rewrite H.
      assert (H' : m0 <? m = true) by (apply Z.ltb_lt; exact H1). rewrite H'. reflexivity.
    - subst amb. reflexivity. }
  rewrite Hstep.
  rewrite (fold_after_best s (length l1) e m _ _ (fun x Hx => Hall _ (or_intror (Hsnd _ _ _ Hx))) eq_refl).
  reflexivity.
Qed.
