(** Theorems about the single-end pipeline model (Model/Pipeline.v): filters (C11), accounting
    (C04), routing (C15), statistics (C20).  All by induction over the list of reads / filters. *)
From Coq Require Import ZArith List Bool Lia Permutation.
From CV Require Import Model.Base Model.Align Model.Adapters Model.Kmer Model.Qualtrim Model.Pipeline.
Import ListNotations.
Open Scope Z_scope.

(** ------------------------------------------------------------------ C11: first matching filter consumes *)
Lemma run_filters_first fs r i cat redir :
  run_filters fs r i = Some (Filtered cat redir) ->
  exists pre p post, fs = pre ++ (cat, p, redir) :: post /\ p r i = true /\
                     forall f, In f pre -> snd (fst f) r i = false.
Proof.
  induction fs as [|[[c p] rd] t IH]; cbn [run_filters]; intros H; [discriminate|].
  destruct (p r i) eqn:Ep.
  - inversion H; subst. exists [], p, t. split; [reflexivity|]. split; [assumption|]. intros f [].
  - destruct (IH H) as (pre & p' & post & Hfs & Hp & Hpre).
    exists ((c, p, rd) :: pre), p', post. split; [cbn; rewrite Hfs; reflexivity|]. split; [assumption|].
    intros f [Hf|Hf]; [subst f; cbn; assumption | apply Hpre; assumption].
Qed.

Lemma run_filters_none fs r i :
  run_filters fs r i = None <-> forall f, In f fs -> snd (fst f) r i = false.
Proof.
  induction fs as [|[[c p] rd] t IH]; cbn [run_filters].
  - split; [intros _ f [] | reflexivity].
  - destruct (p r i) eqn:Ep; split.
    + discriminate.
    + intros H. specialize (H (c, p, rd) (or_introl eq_refl)). cbn in H. congruence.
    + intros H f [Hf|Hf]; [subst f; cbn; assumption | apply IH; assumption].
    + intros H. apply IH. intros f Hf. apply H. right. assumption.
Qed.

Lemma run_filters_only_filtered fs r i f : run_filters fs r i = Some f -> exists c rd, f = Filtered c rd.
Proof.
  induction fs as [|[[c p] rd] t IH]; cbn [run_filters]; intros H; [discriminate|].
  destruct (p r i); [inversion H; eauto | auto].
Qed.

(** ------------------------------------------------------------------ C04: accounting *)
Definition outcomes (order : list kind) (forder : list fkind) (o : options) (reads : list read) : list outcome :=
  map (process_read order forder o) reads.

Definition fold_report (outs : list outcome) (rep : report) : report := fold_left step_report outs rep.

Lemma run_as_fold order forder o reads :
  run order forder o reads = fold_report (outcomes order forder o reads) empty_report.
Proof.
  unfold run, fold_report, outcomes. generalize empty_report.
  induction reads as [|r t IH]; intros rep; cbn; [reflexivity | apply IH].
Qed.

Definition zsum_map {A} (f : A -> Z) (l : list A) : Z := fold_right (fun x acc => f x + acc) 0 l.

Lemma zsum_map_cons {A} (f : A -> Z) x l : zsum_map f (x :: l) = f x + zsum_map f l.
Proof. reflexivity. Qed.
Lemma zsum_map_nil {A} (f : A -> Z) : zsum_map f [] = 0.
Proof. reflexivity. Qed.
Lemma zlen_cons' {A} (x : A) l : zlen (x :: l) = zlen l + 1.
Proof. unfold zlen; cbn [length]; lia. Qed.

Definition is_written (out : outcome) : bool := match out_fate out with Written _ => true | Filtered _ _ => false end.
Definition out_file (out : outcome) : option Z := match out_fate out with Written d => Some d | Filtered _ rd => rd end.
Definition out_cat (out : outcome) : option Z := match out_fate out with Written _ => None | Filtered c _ => Some c end.

Definition b2z (b : bool) : Z := if b then 1 else 0.

Lemma fold_report_counts : forall outs rep,
  let rep' := fold_report outs rep in
  rep_n rep' = rep_n rep + zlen outs /\
  rep_total_bp rep' = rep_total_bp rep + zsum_map out_in_len outs /\
  rep_written rep' = rep_written rep + zsum_map (fun o => b2z (is_written o)) outs /\
  rep_written_bp rep' = rep_written_bp rep + zsum_map (fun o => if is_written o then rlen (out_read o) else 0) outs /\
  rep_with_adapters rep' = rep_with_adapters rep + zsum_map (fun o => match out_matches o with [] => 0 | _ => 1 end) outs /\
  rep_rc rep' = rep_rc rep + zsum_map (fun o => match out_is_rc o with Some true => 1 | _ => 0 end) outs /\
  rep_qtrimmed rep' = rep_qtrimmed rep + zsum_map out_qtrimmed outs /\
  rep_polya rep' = rep_polya rep + zsum_map (fun o => match out_polya o with Some p => p | None => 0 end) outs.
Proof.
  induction outs as [|out t IH]; intros rep; cbn [fold_report fold_left]; rewrite ?zsum_map_cons, ?zsum_map_nil.
  - unfold zlen; cbn. repeat split; lia.
  - specialize (IH (step_report rep out)). cbn zeta in IH. fold (fold_report t (step_report rep out)) in *.
    destruct IH as (h1 & h2 & h3 & h4 & h5 & h6 & h7 & h8).
    unfold zlen in *. cbn [length]. rewrite Nat2Z.inj_succ.
    rewrite h1, h2, h3, h4, h5, h6, h7, h8.
    unfold step_report, is_written, b2z; cbn [rep_n rep_total_bp rep_written rep_written_bp rep_with_adapters rep_rc rep_qtrimmed rep_polya].
    destruct (out_fate out); repeat split; lia.
Qed.

(** the filter counters: count of category c *)
Definition count_of (c : Z) (l : list (Z * Z)) : Z :=
  fold_right (fun cn acc => if fst cn =? c then snd cn + acc else acc) 0 l.

Lemma count_of_bump c c' l : count_of c (bump c' l) = count_of c l + (if c' =? c then 1 else 0).
Proof.
  induction l as [|[c0 n] t IH]; cbn [bump count_of fold_right fst snd].
  - destruct (c' =? c); lia.
  - destruct (c0 =? c') eqn:E0; cbn [count_of fold_right fst snd].
    + apply Z.eqb_eq in E0. subst c0. destruct (c' =? c); lia.
    + fold (count_of c t). fold (count_of c (bump c' t)). rewrite IH. destruct (c0 =? c); lia.
Qed.

Lemma fold_report_filtered c : forall outs rep,
  count_of c (rep_filtered (fold_report outs rep)) =
  count_of c (rep_filtered rep) + zsum_map (fun o => match out_cat o with Some c' => if c' =? c then 1 else 0 | None => 0 end) outs.
Proof.
  induction outs as [|out t IH]; intros rep; cbn [fold_report fold_left]; rewrite ?zsum_map_cons, ?zsum_map_nil; [lia|].
  fold (fold_report t (step_report rep out)). rewrite IH.
  unfold step_report, out_cat; cbn [rep_filtered]. destruct (out_fate out); [lia|]. rewrite count_of_bump. lia.
Qed.

(** total over all categories *)
Definition total_filtered (l : list (Z * Z)) : Z := zsum_map snd l.

Lemma total_bump c l : total_filtered (bump c l) = total_filtered l + 1.
Proof.
  unfold total_filtered. induction l as [|[c0 n] t IH]; [reflexivity|]. cbn [bump].
  destruct (c0 =? c); rewrite !zsum_map_cons; cbn [snd]; [lia|]. rewrite IH. lia.
Qed.

Lemma fold_report_total_filtered : forall outs rep,
  total_filtered (rep_filtered (fold_report outs rep)) =
  total_filtered (rep_filtered rep) + zsum_map (fun o => b2z (negb (is_written o))) outs.
Proof.
  induction outs as [|out t IH]; intros rep; cbn [fold_report fold_left]; rewrite ?zsum_map_cons, ?zsum_map_nil; [lia|].
  fold (fold_report t (step_report rep out)). rewrite IH.
  unfold step_report, is_written; cbn [rep_filtered]. destruct (out_fate out); cbn [negb b2z]; [lia|]. rewrite total_bump. lia.
Qed.

(** input = written + sum of all filter categories *)
Theorem totals_add_up order forder o reads :
  let rep := run order forder o reads in
  rep_n rep = zlen reads /\
  rep_n rep = rep_written rep + total_filtered (rep_filtered rep).
Proof.
  cbn zeta. rewrite run_as_fold.
  pose proof (fold_report_counts (outcomes order forder o reads) empty_report) as H. cbn zeta in H.
  destruct H as (h1 & _ & h3 & _).
  pose proof (fold_report_total_filtered (outcomes order forder o reads) empty_report) as Hf.
  rewrite h1, h3, Hf. cbn [empty_report rep_n rep_written rep_filtered total_filtered zsum_map fold_right].
  unfold outcomes. unfold zlen. rewrite map_length. split; [lia|].
  fold (zlen reads).
  assert (Hs : forall l : list outcome,
             zlen l = zsum_map (fun o => b2z (is_written o)) l + zsum_map (fun o => b2z (negb (is_written o))) l).
  { induction l as [|x l IHl]; [reflexivity|]. rewrite zlen_cons', !zsum_map_cons.
    destruct (is_written x); cbn [negb b2z]; lia. }
  specialize (Hs (map (process_read order forder o) reads)). unfold zlen in Hs at 1. rewrite map_length in Hs.
  unfold zlen. lia.
Qed.

(** ---- files: each destination file is exactly the subsequence of reads routed there, in input order *)
Definition records_of (d : Z) (fs : list (Z * list read)) : list read :=
  flat_map (fun f : Z * list read => if fst f =? d then snd f else []) fs.

Definition dests (fs : list (Z * list read)) : list Z := map fst fs.

Lemma records_of_absent d : forall l, ~ In d (dests l) -> records_of d l = [].
Proof.
  induction l as [|[a b] l IH]; intros Hn; [reflexivity|]. cbn [records_of flat_map fst snd].
  destruct (a =? d) eqn:Ea.
  - apply Z.eqb_eq in Ea. subst a. exfalso. apply Hn. left. reflexivity.
  - cbn [app]. apply IH. intros Hin. apply Hn. right. assumption.
Qed.

Lemma dests_add_file d r d0 : forall l, In d0 (dests (add_file d r l)) -> d0 = d \/ In d0 (dests l).
Proof.
  induction l as [|[a b] l IH]; cbn [add_file dests map fst].
  - intros [H|[]]; auto.
  - destruct (a =? d); cbn [dests map fst]; intros [H|H].
    + right; left; assumption.
    + right; right; assumption.
    + right; left; assumption.
    + fold (dests (add_file d r l)) in H. destruct (IH H) as [H'|H']; [left | right; right]; assumption.
Qed.

Lemma add_file_spec d r : forall fs, NoDup (dests fs) ->
  NoDup (dests (add_file d r fs)) /\
  forall d', records_of d' (add_file d r fs) = records_of d' fs ++ (if d =? d' then [r] else []).
Proof.
  induction fs as [|[d0 rs] t IH]; intros Hnd.
  - cbn. split; [constructor; [intros [] | constructor]|]. intros d'. destruct (d =? d'); reflexivity.
  - cbn [dests map fst] in Hnd. inversion Hnd as [|x l Hnotin Hnd']; subst. cbn [add_file].
    destruct (d0 =? d) eqn:E.
    + apply Z.eqb_eq in E. subst d0. split; [cbn [dests map fst]; constructor; assumption|].
      intros d'. cbn [records_of flat_map fst snd]. fold (records_of d' t). destruct (d =? d') eqn:E'.
      * apply Z.eqb_eq in E'. subst d'. rewrite (records_of_absent d t Hnotin). rewrite !app_nil_r. reflexivity.
      * rewrite app_nil_r. reflexivity.
    + destruct (IH Hnd') as [IH1 IH2]. split.
      * cbn [dests map fst]. constructor; [|exact IH1].
        intros Hin. apply dests_add_file in Hin. destruct Hin as [Hin|Hin].
        -- apply Z.eqb_neq in E. congruence.
        -- apply Hnotin. exact Hin.
      * intros d'. cbn [records_of flat_map fst snd]. fold (records_of d' t). fold (records_of d' (add_file d r t)).
        rewrite IH2. rewrite app_assoc. reflexivity.
Qed.

Lemma fold_report_files : forall outs rep, NoDup (dests (rep_files rep)) ->
  NoDup (dests (rep_files (fold_report outs rep))) /\
  forall d, records_of d (rep_files (fold_report outs rep)) =
            records_of d (rep_files rep) ++ map out_read (filter (fun o => match out_file o with Some d' => d' =? d | None => false end) outs).
Proof.
  induction outs as [|out t IH]; intros rep Hnd; cbn [fold_report fold_left filter map].
  - split; [assumption|]. intros d. rewrite app_nil_r. reflexivity.
  - fold (fold_report t (step_report rep out)).
    assert (Hstep : NoDup (dests (rep_files (step_report rep out))) /\
                    forall d, records_of d (rep_files (step_report rep out)) =
                              records_of d (rep_files rep) ++ (match out_file out with Some d' => if d' =? d then [out_read out] else [] | None => [] end)).
    { unfold step_report, out_file; cbn [rep_files].
      destruct (out_fate out) as [d0|c [d0|]].
      - destruct (add_file_spec d0 (out_read out) (rep_files rep) Hnd) as [H1 H2]. split; [exact H1|exact H2].
      - destruct (add_file_spec d0 (out_read out) (rep_files rep) Hnd) as [H1 H2]. split; [exact H1|exact H2].
      - split; [exact Hnd|]. intros d. rewrite app_nil_r. reflexivity. }
    destruct Hstep as [Hs1 Hs2]. destruct (IH (step_report rep out) Hs1) as [IH1 IH2]. split; [exact IH1|].
    intros d. rewrite IH2, Hs2. rewrite <- app_assoc. f_equal.
    destruct (out_file out) as [d'|]; [destruct (d' =? d)|]; reflexivity.
Qed.

Theorem files_are_subsequences order forder o reads d :
  records_of d (rep_files (run order forder o reads)) =
  map out_read (filter (fun out => match out_file out with Some d' => d' =? d | None => false end)
                       (outcomes order forder o reads)).
Proof.
  rewrite run_as_fold.
  destruct (fold_report_files (outcomes order forder o reads) empty_report) as [_ H]; [constructor|].
  rewrite H. reflexivity.
Qed.

(** every outcome has at most one file and exactly one fate: written xor one filter category *)
Theorem one_fate (out : outcome) :
  (is_written out = true /\ out_cat out = None /\ exists d, out_file out = Some d) \/
  (is_written out = false /\ exists c, out_cat out = Some c).
Proof.
  unfold is_written, out_cat, out_file. destruct (out_fate out) as [d|c rd]; [left | right]; eauto.
Qed.

(** ------------------------------------------------------------------ C06: chunking -- the report of a
    concatenation is the merge of the reports *)
Lemma fold_report_app outs1 outs2 rep : fold_report (outs1 ++ outs2) rep = fold_report outs2 (fold_report outs1 rep).
Proof. unfold fold_report. apply fold_left_app. Qed.

Theorem run_chunked order forder o reads1 reads2 :
  run order forder o (reads1 ++ reads2) =
  fold_report (outcomes order forder o reads2) (run order forder o reads1).
Proof. rewrite !run_as_fold. unfold outcomes. rewrite map_app. apply fold_report_app. Qed.

(** every output file of a run over a chunked input is the concatenation, in chunk order, of the
    files of the runs over the chunks; the record count adds up *)
Theorem files_chunked order forder o (chunks : list (list read)) d :
  records_of d (rep_files (run order forder o (concat chunks))) =
  concat (map (fun c => records_of d (rep_files (run order forder o c))) chunks).
Proof.
  rewrite files_are_subsequences. induction chunks as [|c t IH]; [reflexivity|].
  cbn [concat map]. unfold outcomes in *. rewrite map_app, filter_app, map_app, IH.
  f_equal. rewrite files_are_subsequences. reflexivity.
Qed.

Theorem counts_chunked order forder o (chunks : list (list read)) :
  rep_n (run order forder o (concat chunks)) = zsum_map (fun c => rep_n (run order forder o c)) chunks.
Proof.
  induction chunks as [|c t IH]; [reflexivity|]. cbn [concat]. rewrite zsum_map_cons, <- IH.
  destruct (totals_add_up order forder o (c ++ concat t)) as [H1 _].
  destruct (totals_add_up order forder o c) as [H2 _]. destruct (totals_add_up order forder o (concat t)) as [H3 _].
  cbn zeta in *. rewrite H1, H2, H3. unfold zlen. rewrite app_length. lia.
Qed.
