(** The shift-and search of KmerFinder is correct: with the words of an entry packed into one machine
    word (total length <= 64, no empty word), [shift_and_present] answers whether one of the words occurs
    in the text under the character matching of the match table -- the specification the k-mer model
    ([Model/Kmer.v], [occurs]) uses.  Invariant: after j characters, bit off_w + i of the state is set iff
    the first i + 1 characters of word w match the text ending at j; the bit shifted from the last position
    of one word into the first position of the next is absorbed by the init mask; the 64-bit truncation of
    the shift is harmless because the mask has no bit at or above the total length. *)
From Coq Require Import ZArith List Bool Lia.
From CV Require Import Model.Base Model.Align Model.Kmer Model.ShiftAnd Proofs.AlignProofs.
Import ListNotations.
Open Scope Z_scope.

Lemma testbit_one k : 0 <= k -> Z.testbit 1 k = (k =? 0).
Proof.
  intros Hk. destruct (Z.eq_dec k 0) as [->|Hne]; [reflexivity|].
  rewrite Z.bits_above_log2 by (cbn; lia). symmetry. apply Z.eqb_neq. exact Hne.
Qed.

Lemma testbit_shiftl1 i b : 0 <= i -> 0 <= b -> Z.testbit (Z.shiftl 1 i) b = (b =? i).
Proof.
  intros Hi Hb. rewrite Z.shiftl_spec by exact Hb.
  destruct (Z_lt_dec b i) as [Hlt|Hge].
  - rewrite Z.testbit_neg_r by lia. symmetry. apply Z.eqb_neq. lia.
  - rewrite testbit_one by lia. destruct (Z.eq_dec b i) as [->|Hne]; [rewrite Z.sub_diag, !Z.eqb_refl; reflexivity|].
    transitivity false; [apply Z.eqb_neq; lia | symmetry; apply Z.eqb_neq; exact Hne].
Qed.

Lemma forallb_ext' {A} (f g : A -> bool) l : (forall x, f x = g x) -> forallb f l = forallb g l.
Proof. intros H. induction l as [|x l IH]; [reflexivity|]. cbn. rewrite H, IH. reflexivity. Qed.

Section Sem.
  Variable cmatch : Z -> Z -> bool.
  Variable t : list Z.

  (** the first i + 1 characters of w match the text ending at position j *)
  Definition pm (w : list Z) (i j : Z) : bool :=
    (i + 1 <=? j) && forallb (fun u => cmatch (znth 0 w u) (znth 0 t (j - 1 - i + u))) (zrange 0 (Z.to_nat (i + 1))).

  Fixpoint bitsem (ws : list (list Z)) (off j b : Z) : bool :=
    match ws with
    | [] => false
    | w :: rest => if b <? off + zlen w then (off <=? b) && pm w (b - off) j else bitsem rest (off + zlen w) j b
    end.
  Fixpoint masksem (ws : list (list Z)) (off b c : Z) : bool :=
    match ws with
    | [] => false
    | w :: rest => if b <? off + zlen w then (off <=? b) && cmatch (znth 0 w (b - off)) c else masksem rest (off + zlen w) b c
    end.
  Fixpoint initsem (ws : list (list Z)) (off b : Z) : bool :=
    match ws with [] => false | w :: rest => (b =? off) || initsem rest (off + zlen w) b end.
  Fixpoint foundsem (ws : list (list Z)) (off b : Z) : bool :=
    match ws with [] => false | w :: rest => (b =? off + zlen w - 1) || foundsem rest (off + zlen w) b end.

  Definition total (ws : list (list Z)) : Z := zlen (concat ws).
  Definition nonempty (ws : list (list Z)) : Prop := Forall (fun w => 1 <= zlen w) ws.

  Lemma total_cons w ws : total (w :: ws) = zlen w + total ws.
  Proof. unfold total, zlen. cbn [concat]. rewrite app_length. lia. Qed.
  Lemma total_nonneg ws : 0 <= total ws.
  Proof. apply zlen_nonneg. Qed.

  Lemma initsem_below : forall ws off b, nonempty ws -> b < off -> initsem ws off b = false.
  Proof.
    induction ws as [|w rest IH]; intros off b Hne Hb; [reflexivity|]. inversion Hne; subst. cbn [initsem].
    rewrite IH by (auto; lia). rewrite orb_false_r. apply Z.eqb_neq. lia.
  Qed.
  Lemma foundsem_below : forall ws off b, nonempty ws -> b < off -> foundsem ws off b = false.
  Proof.
    induction ws as [|w rest IH]; intros off b Hne Hb; [reflexivity|]. inversion Hne; subst. cbn [foundsem].
    rewrite IH by (auto; lia). rewrite orb_false_r. apply Z.eqb_neq. lia.
  Qed.
  Lemma bitsem_above : forall ws off j b, off + total ws <= b -> bitsem ws off j b = false.
  Proof.
    induction ws as [|w rest IH]; intros off j b Hb; [reflexivity|]. rewrite total_cons in Hb. cbn [bitsem].
    pose proof (total_nonneg rest). destruct (b <? off + zlen w) eqn:E; [apply Z.ltb_lt in E; lia|]. apply IH. lia.
  Qed.
  Lemma masksem_above : forall ws off b c, off + total ws <= b -> masksem ws off b c = false.
  Proof.
    induction ws as [|w rest IH]; intros off b c Hb; [reflexivity|]. rewrite total_cons in Hb. cbn [masksem].
    pose proof (total_nonneg rest). destruct (b <? off + zlen w) eqn:E; [apply Z.ltb_lt in E; lia|]. apply IH. lia.
  Qed.

  (** one more character: the prefix of length i + 2 matches at j + 1 iff the one of length i + 1 matched at j and the new characters agree *)
  Lemma zrange_snoc lo n : zrange lo (S n) = zrange lo n ++ [lo + Z.of_nat n].
  Proof.
    revert lo. induction n as [|n IH]; intros lo; [cbn [zrange app Z.of_nat]; rewrite Z.add_0_r; reflexivity|].
    change (zrange lo (S (S n))) with (lo :: zrange (lo + 1) (S n)). rewrite IH. cbn [zrange app]. do 3 f_equal. lia.
  Qed.

  Lemma pm_zero w j : 0 <= j -> pm w 0 (j + 1) = cmatch (znth 0 w 0) (znth 0 t j).
  Proof.
    intros Hj. unfold pm. change (Z.to_nat (0 + 1)) with 1%nat. cbn [zrange forallb]. rewrite andb_true_r.
    replace (0 + 1 <=? j + 1) with true by (symmetry; apply Z.leb_le; lia). cbn [andb].
    replace (j + 1 - 1 - 0 + 0) with j by lia. reflexivity.
  Qed.

  Lemma pm_step w i j : 0 <= i -> 0 <= j ->
    pm w (i + 1) (j + 1) = pm w i j && cmatch (znth 0 w (i + 1)) (znth 0 t j).
  Proof.
    intros Hi Hj. unfold pm. replace (Z.to_nat (i + 1 + 1)) with (S (Z.to_nat (i + 1))) by lia.
    rewrite zrange_snoc, forallb_app. cbn [forallb]. rewrite andb_true_r.
    replace (i + 1 + 1 <=? j + 1) with (i + 1 <=? j) by (destruct (Z.leb_spec (i + 1) j), (Z.leb_spec (i + 1 + 1) (j + 1)); lia).
    replace (0 + Z.of_nat (Z.to_nat (i + 1))) with (i + 1) by lia.
    replace (j + 1 - 1 - (i + 1) + (i + 1)) with j by lia.
    rewrite andb_assoc. f_equal. f_equal. apply forallb_ext'. intros u. do 2 f_equal. lia.
  Qed.

  (** the step on one bit, by induction over the packed words *)
  Lemma step_sem j c (R : Z) : 0 <= j -> c = znth 0 t j ->
    forall ws off b, nonempty ws -> 0 <= off -> off <= b ->
    (off < b -> Z.testbit R (b - 1) = bitsem ws off j (b - 1)) ->
    ((off <? b) && Z.testbit R (b - 1) || initsem ws off b) && masksem ws off b c = bitsem ws off (j + 1) b.
  Proof.
    intros Hj Hc. induction ws as [|w rest IH]; intros off b Hne Hoff Hb HR.
    - cbn [initsem masksem bitsem]. rewrite andb_false_r. reflexivity.
    - inversion Hne as [|w0 r0 Hw Hrest]; subst w0 r0. cbn [initsem masksem bitsem].
      destruct (b <? off + zlen w) eqn:Eb.
      + apply Z.ltb_lt in Eb. rewrite (initsem_below rest (off + zlen w) b Hrest Eb), orb_false_r.
        replace (off <=? b) with true by (symmetry; apply Z.leb_le; lia). cbn [andb].
        destruct (Z.eq_dec b off) as [->|Hne'].
        * rewrite Z.eqb_refl, orb_true_r. cbn [andb]. rewrite Z.sub_diag. rewrite pm_zero by exact Hj. rewrite Hc. reflexivity.
        * replace (b =? off) with false by (symmetry; apply Z.eqb_neq; exact Hne'). rewrite orb_false_r.
          replace (off <? b) with true by (symmetry; apply Z.ltb_lt; lia). cbn [andb].
          rewrite (HR ltac:(lia)). cbn [bitsem]. replace (b - 1 <? off + zlen w) with true by (symmetry; apply Z.ltb_lt; lia).
          replace (off <=? b - 1) with true by (symmetry; apply Z.leb_le; lia). cbn [andb].
          replace (b - off) with (b - 1 - off + 1) by lia. rewrite pm_step by lia. rewrite Hc.
          replace (b - 1 - off + 1) with (b - off) by lia. reflexivity.
      + apply Z.ltb_ge in Eb.
        replace (b =? off) with false by (symmetry; apply Z.eqb_neq; lia). cbn [orb].
        replace (off <? b) with true by (symmetry; apply Z.ltb_lt; lia). cbn [andb].
        destruct (Z.eq_dec b (off + zlen w)) as [Heq|Hgt].
        * (* first position of the next word: the init bit decides, whatever was shifted in *)
          specialize (IH (off + zlen w) b Hrest ltac:(lia) ltac:(lia) ltac:(intros; lia)).
          replace (off + zlen w <? b) with false in IH by (symmetry; apply Z.ltb_ge; lia). cbn [andb orb] in IH.
          destruct rest as [|w2 r2]; [cbn [initsem masksem bitsem]; rewrite andb_false_r; reflexivity|].
          cbn [initsem] in *. rewrite Heq, Z.eqb_refl in *. cbn [orb] in *. rewrite orb_true_r. exact IH.
        * specialize (IH (off + zlen w) b Hrest ltac:(lia) ltac:(lia)).
          replace (off + zlen w <? b) with true in IH by (symmetry; apply Z.ltb_lt; lia). cbn [andb] in IH. apply IH.
          intros _. rewrite (HR ltac:(lia)). cbn [bitsem]. replace (b - 1 <? off + zlen w) with false by (symmetry; apply Z.ltb_ge; lia). reflexivity.
  Qed.

  (** ---- the masks, bit by bit *)
  Lemma znth_cons_pos (x : Z) l k : 1 <= k -> znth 0 (x :: l) k = znth 0 l (k - 1).
  Proof.
    intros Hk. unfold znth. destruct (k <? 0) eqn:E1; [lia|]. destruct (k - 1 <? 0) eqn:E2; [lia|].
    replace (Z.to_nat k) with (S (Z.to_nat (k - 1))) by lia. reflexivity.
  Qed.

  Lemma znth_app_l (a b : list Z) k : 0 <= k < zlen a -> znth 0 (a ++ b) k = znth 0 a k.
  Proof. intros Hk. unfold znth. destruct (k <? 0); [reflexivity|]. apply app_nth1. unfold zlen in Hk. lia. Qed.
  Lemma znth_app_r (a b : list Z) k : zlen a <= k -> znth 0 (a ++ b) k = znth 0 b (k - zlen a).
  Proof.
    intros Hk. pose proof (zlen_nonneg a). unfold znth. destruct (k <? 0) eqn:E1; [lia|]. destruct (k - zlen a <? 0) eqn:E2; [lia|].
    rewrite app_nth2 by (unfold zlen in *; lia). f_equal. unfold zlen in *. lia.
  Qed.

  Lemma mask_aux_bits : forall nd i0 c b, 0 <= i0 -> 0 <= b ->
    Z.testbit (mask_aux cmatch nd i0 c) b = (i0 <=? b) && (b <? i0 + zlen nd) && cmatch (znth 0 nd (b - i0)) c.
  Proof.
    induction nd as [|x nd IH]; intros i0 c b Hi Hb; cbn [mask_aux].
    - rewrite Z.bits_0. change (zlen (@nil Z)) with 0. destruct (i0 <=? b) eqn:E1; [|reflexivity].
      apply Z.leb_le in E1. replace (b <? i0 + 0) with false by (symmetry; apply Z.ltb_ge; lia). reflexivity.
    - rewrite Z.lor_spec, IH by lia. rewrite zlen_cons. pose proof (zlen_nonneg nd) as Hn.
      assert (H1 : Z.testbit (if cmatch x c then Z.shiftl 1 i0 else 0) b = (b =? i0) && cmatch x c).
      { destruct (cmatch x c); [rewrite testbit_shiftl1 by lia; rewrite andb_true_r; reflexivity | rewrite Z.bits_0, andb_false_r; reflexivity]. }
      rewrite H1. destruct (Z.eq_dec b i0) as [->|Hne].
      + rewrite Z.eqb_refl, Z.sub_diag. cbn [andb]. replace (i0 + 1 <=? i0) with false by (symmetry; apply Z.leb_gt; lia). cbn [andb]. rewrite orb_false_r.
        replace (i0 <=? i0) with true by (symmetry; apply Z.leb_le; lia). replace (i0 <? i0 + (zlen nd + 1)) with true by (symmetry; apply Z.ltb_lt; lia).
        cbn [andb]. unfold znth. cbn. reflexivity.
      + replace (b =? i0) with false by (symmetry; apply Z.eqb_neq; exact Hne). cbn [andb orb].
        destruct (Z_lt_dec b i0) as [Hlt|Hge].
        * replace (i0 + 1 <=? b) with false by (symmetry; apply Z.leb_gt; lia). replace (i0 <=? b) with false by (symmetry; apply Z.leb_gt; lia). reflexivity.
        * replace (i0 + 1 <=? b) with true by (symmetry; apply Z.leb_le; lia). replace (i0 <=? b) with true by (symmetry; apply Z.leb_le; lia).
          replace (b <? i0 + 1 + zlen nd) with (b <? i0 + (zlen nd + 1)) by (f_equal; lia).
          rewrite znth_cons_pos by lia. replace (b - i0 - 1) with (b - (i0 + 1)) by lia. reflexivity.
  Qed.

  Lemma masksem_concat : forall ws off b c, off <= b ->
    masksem ws off b c = (b <? off + total ws) && cmatch (znth 0 (concat ws) (b - off)) c.
  Proof.
    induction ws as [|w rest IH]; intros off b c Hb; cbn [masksem concat].
    - unfold total. cbn [concat]. change (zlen (@nil Z)) with 0. replace (b <? off + 0) with false by (symmetry; apply Z.ltb_ge; lia). reflexivity.
    - rewrite total_cons. pose proof (total_nonneg rest) as Hr. pose proof (zlen_nonneg w) as Hw.
      destruct (b <? off + zlen w) eqn:E.
      + apply Z.ltb_lt in E. replace (off <=? b) with true by (symmetry; apply Z.leb_le; lia).
        replace (b <? off + (zlen w + total rest)) with true by (symmetry; apply Z.ltb_lt; lia). cbn [andb].
        rewrite znth_app_l by lia. reflexivity.
      + apply Z.ltb_ge in E. rewrite IH by lia. rewrite znth_app_r by lia.
        replace (b <? off + zlen w + total rest) with (b <? off + (zlen w + total rest)) by (f_equal; lia).
        replace (b - (off + zlen w)) with (b - off - zlen w) by lia. reflexivity.
  Qed.

  Lemma mask_bits ws c b : 0 <= b -> Z.testbit (mask cmatch ws c) b = masksem ws 0 b c.
  Proof.
    intros Hb. unfold mask, needle. rewrite mask_aux_bits by lia. rewrite masksem_concat by lia.
    replace (0 <=? b) with true by (symmetry; apply Z.leb_le; lia). cbn [andb]. unfold total. rewrite Z.sub_0_r. reflexivity.
  Qed.

  Lemma init_bits : forall ws off b, 0 <= off -> 0 <= b -> Z.testbit (init_aux ws off) b = initsem ws off b.
  Proof.
    induction ws as [|w rest IH]; intros off b Ho Hb; cbn [init_aux initsem]; [apply Z.bits_0|].
    pose proof (zlen_nonneg w). rewrite Z.lor_spec, testbit_shiftl1, IH by lia. reflexivity.
  Qed.

  Lemma found_bits : forall ws off b, nonempty ws -> 0 <= off -> 0 <= b -> Z.testbit (found_aux ws off) b = foundsem ws off b.
  Proof.
    induction ws as [|w rest IH]; intros off b Hne Ho Hb; cbn [found_aux foundsem]; [apply Z.bits_0|].
    inversion Hne; subst. rewrite Z.lor_spec, testbit_shiftl1, IH by (auto; lia). reflexivity.
  Qed.

  Lemma foundsem_above : forall ws off b, off + total ws <= b -> foundsem ws off b = false.
  Proof.
    induction ws as [|w rest IH]; intros off b Hb; [reflexivity|]. rewrite total_cons in Hb. cbn [foundsem].
    pose proof (total_nonneg rest). rewrite IH by lia. rewrite orb_false_r. apply Z.eqb_neq. lia.
  Qed.

  Lemma bitsem_zero : forall ws off b, bitsem ws off 0 b = false.
  Proof.
    induction ws as [|w rest IH]; intros off b; [reflexivity|]. cbn [bitsem].
    destruct (b <? off + zlen w); [|apply IH]. destruct (off <=? b) eqn:E; [|reflexivity]. apply Z.leb_le in E. cbn [andb].
    unfold pm. replace (b - off + 1 <=? 0) with false by (symmetry; apply Z.leb_gt; lia). reflexivity.
  Qed.

  (** ---- the state after j characters *)
  Variable ws : list (list Z).
  Hypothesis ws_nonempty : nonempty ws.
  Hypothesis ws_fit : total ws <= WORD.

  Definition state_ok (j : Z) (R : Z) : Prop := forall b, 0 <= b -> Z.testbit R b = bitsem ws 0 j b.

  Lemma step_ok j R : 0 <= j -> state_ok j R -> state_ok (j + 1) (step cmatch ws R (znth 0 t j)).
  Proof.
    intros Hj HR b Hb. unfold step. rewrite Z.land_spec, Z.lor_spec, mask_bits by exact Hb.
    unfold init_mask. rewrite init_bits by lia.
    destruct (Z_le_gt_dec (total ws) b) as [Hhi|Hlo].
    - rewrite masksem_above, bitsem_above by lia. apply andb_false_r.
    - unfold WORD in *. rewrite Z.mod_pow2_bits_low by lia. rewrite Z.shiftl_spec by exact Hb.
      assert (Hs : Z.testbit R (b - 1) = (0 <? b) && Z.testbit R (b - 1)).
      { destruct (Z.eq_dec b 0) as [->|Hne]; [rewrite Z.testbit_neg_r by lia; reflexivity|].
        replace (0 <? b) with true by (symmetry; apply Z.ltb_lt; lia). reflexivity. }
      rewrite Hs. apply (step_sem j (znth 0 t j) R Hj eq_refl ws 0 b ws_nonempty ltac:(lia) Hb).
      intros Hb0. apply HR. lia.
  Qed.

  Lemma state_ok_0 : state_ok 0 0.
  Proof. intros b Hb. rewrite Z.bits_0, bitsem_zero. reflexivity. Qed.

  (** ---- the found test *)
  Definition hit (j : Z) : bool := existsb (fun w => pm w (zlen w - 1) j) ws.

  Lemma sem_hit j : forall l off b, nonempty l -> off <= b -> bitsem l off j b = true -> foundsem l off b = true ->
    exists w, In w l /\ pm w (zlen w - 1) j = true.
  Proof.
    induction l as [|w rest IH]; intros off b Hne Hb Hbit Hf; [discriminate|]. inversion Hne; subst. cbn [bitsem foundsem] in *.
    destruct (b <? off + zlen w) eqn:E.
    - apply Z.ltb_lt in E. rewrite (foundsem_below rest (off + zlen w) b) in Hf by (auto; lia). rewrite orb_false_r in Hf. apply Z.eqb_eq in Hf.
      apply andb_prop in Hbit. destruct Hbit as [_ Hp]. exists w. split; [left; reflexivity|]. replace (zlen w - 1) with (b - off) by lia. exact Hp.
    - apply Z.ltb_ge in E. replace (b =? off + zlen w - 1) with false in Hf by (symmetry; apply Z.eqb_neq; lia). cbn [orb] in Hf.
      destruct (IH (off + zlen w) b ltac:(assumption) ltac:(lia) Hbit Hf) as (w' & Hin & Hp). exists w'. split; [right; exact Hin | exact Hp].
  Qed.

  Lemma hit_sem j w : forall l off, nonempty l -> In w l -> pm w (zlen w - 1) j = true ->
    exists b, off <= b < off + total l /\ bitsem l off j b = true /\ foundsem l off b = true.
  Proof.
    induction l as [|w0 rest IH]; intros off Hne Hin Hp; [contradiction|]. inversion Hne; subst. rewrite total_cons. pose proof (total_nonneg rest) as Hr.
    destruct Hin as [->|Hin].
    - exists (off + zlen w - 1). split; [lia|]. cbn [bitsem foundsem].
      replace (off + zlen w - 1 <? off + zlen w) with true by (symmetry; apply Z.ltb_lt; lia).
      replace (off <=? off + zlen w - 1) with true by (symmetry; apply Z.leb_le; lia). rewrite Z.eqb_refl. cbn [andb orb]. split; [|reflexivity].
      replace (off + zlen w - 1 - off) with (zlen w - 1) by lia. exact Hp.
    - destruct (IH (off + zlen w0) ltac:(assumption) Hin Hp) as (b & Hb & Hb1 & Hb2). exists b. split; [lia|]. cbn [bitsem foundsem].
      replace (b <? off + zlen w0) with false by (symmetry; apply Z.ltb_ge; lia). rewrite Hb1, Hb2, orb_true_r. split; reflexivity.
  Qed.

  Lemma found_test j R : state_ok j R ->
    (Z.land R (found_mask ws) =? 0) = negb (hit j).
  Proof.
    intros HR. destruct (hit j) eqn:Eh; cbn [negb].
    - apply Z.eqb_neq. intros H0. unfold hit in Eh. apply existsb_exists in Eh. destruct Eh as (w & Hin & Hp).
      destruct (hit_sem j w ws 0 ws_nonempty Hin Hp) as (b & Hb & H1 & H2).
      assert (Hbit : Z.testbit (Z.land R (found_mask ws)) b = true).
      { rewrite Z.land_spec. unfold found_mask. rewrite found_bits by (auto; lia). rewrite (HR b ltac:(lia)), H1, H2. reflexivity. }
      rewrite H0, Z.bits_0 in Hbit. discriminate.
    - apply Z.eqb_eq. apply Z.bits_inj_0. intros b. destruct (Z_lt_dec b 0) as [Hneg|Hpos]; [apply Z.testbit_neg_r; exact Hneg|].
      rewrite Z.land_spec. unfold found_mask. rewrite found_bits by (auto; lia). rewrite (HR b ltac:(lia)).
      destruct (bitsem ws 0 j b) eqn:E1; [|reflexivity]. destruct (foundsem ws 0 b) eqn:E2; [|reflexivity]. exfalso.
      destruct (sem_hit j ws 0 b ws_nonempty ltac:(lia) E1 E2) as (w & Hin & Hp).
      unfold hit in Eh. assert (Ht : existsb (fun w0 => pm w0 (zlen w0 - 1) j) ws = true) by (apply existsb_exists; exists w; split; assumption).
      rewrite Ht in Eh. discriminate.
  Qed.
End Sem.

Lemma skipn_nth_cons {A} (d : A) : forall j (l : list A), (j < length l)%nat -> skipn j l = nth j l d :: skipn (S j) l.
Proof.
  induction j as [|j IH]; intros l Hj; destruct l as [|x l]; cbn in Hj; try lia; [reflexivity|].
  cbn [skipn nth]. apply IH. lia.
Qed.

Lemma nth_skipn' {A} (d : A) : forall a n (l : list A), nth n (skipn a l) d = nth (a + n) l d.
Proof. induction a as [|a IH]; intros n l; [reflexivity|]. destruct l as [|x l]; [destruct n; reflexivity | apply IH]. Qed.

Lemma zrange_in_range : forall cnt lo x, In x (zrange lo cnt) -> lo <= x < lo + Z.of_nat cnt.
Proof.
  induction cnt as [|cnt IHc]; intros lo x Hx; [contradiction|]. cbn [zrange] in Hx. destruct Hx as [<-|Hx]; [lia|].
  apply IHc in Hx. lia.
Qed.
Lemma zrange_in : forall cnt lo m, (m < cnt)%nat -> In (lo + Z.of_nat m) (zrange lo cnt).
Proof.
  induction cnt as [|cnt IHc]; intros lo m Hm; [lia|]. destruct m as [|m]; cbn [zrange]; [left; lia|].
  right. replace (lo + Z.of_nat (S m)) with (lo + 1 + Z.of_nat m) by lia. apply IHc. lia.
Qed.

Lemma existsb_ext' {A} (f g : A -> bool) l : (forall x, f x = g x) -> existsb f l = existsb g l.
Proof. intros H. induction l as [|x l IH]; [reflexivity|]. cbn. rewrite H, IH. reflexivity. Qed.

Section Run.
  Variable cmatch : Z -> Z -> bool.
  Variable t : list Z.
  Variable ws : list (list Z).
  Hypothesis ws_nonempty : nonempty ws.
  Hypothesis ws_fit : total ws <= WORD.

  Lemma run_spec : forall k j R, (j + k = length t)%nat -> state_ok cmatch t ws (Z.of_nat j) R ->
    run cmatch ws R (skipn j t) = existsb (hit cmatch t ws) (zrange (Z.of_nat j + 1) k).
  Proof.
    induction k as [|k IH]; intros j R Hjk HR.
    - rewrite skipn_all2 by lia. reflexivity.
    - rewrite (skipn_nth_cons 0) by lia. cbn [run zrange existsb]. cbv zeta.
      assert (Hc : nth j t 0 = znth 0 t (Z.of_nat j)) by (unfold znth; destruct (Z.of_nat j <? 0) eqn:E; [lia | rewrite Nat2Z.id; reflexivity]).
      rewrite Hc. pose proof (step_ok cmatch t ws ws_nonempty ws_fit (Z.of_nat j) R ltac:(lia) HR) as HR'.
      rewrite (found_test cmatch t ws ws_nonempty (Z.of_nat j + 1) _ HR').
      destruct (hit cmatch t ws (Z.of_nat j + 1)); cbn [negb orb]; [reflexivity|].
      replace (Z.of_nat j + 1 + 1) with (Z.of_nat (S j) + 1) by lia. apply IH; [lia|].
      replace (Z.of_nat (S j)) with (Z.of_nat j + 1) by lia. exact HR'.
  Qed.

  Lemma shift_and_hits : shift_and_present cmatch ws t = existsb (hit cmatch t ws) (zrange 1 (length t)).
  Proof.
    unfold shift_and_present. change (run cmatch ws 0 t) with (run cmatch ws 0 (skipn 0 t)).
    rewrite (run_spec (length t) 0 0 ltac:(lia) (state_ok_0 cmatch t ws)). reflexivity.
  Qed.

  (** ---- the specification side: occurs / prefix_match of Model/Kmer.v *)
  Lemma prefix_match_iff : forall w s, prefix_match cmatch w s = true <->
    zlen w <= zlen s /\ forall u, 0 <= u < zlen w -> cmatch (znth 0 w u) (znth 0 s u) = true.
  Proof.
    induction w as [|c w IH]; intros s.
    - cbn [prefix_match]. split; [intros _|reflexivity]. split; [change (zlen (@nil Z)) with 0; apply zlen_nonneg | intros u Hu; change (zlen (@nil Z)) with 0 in Hu; lia].
    - destruct s as [|q s]; cbn [prefix_match].
      + split; [discriminate|]. intros [Hl _]. rewrite zlen_cons in Hl. change (zlen (@nil Z)) with 0 in Hl. pose proof (zlen_nonneg w). lia.
      + rewrite andb_true_iff, IH, !zlen_cons. split.
        * intros (H0 & Hl & Hr). split; [lia|]. intros u Hu. destruct (Z.eq_dec u 0) as [->|Hne]; [unfold znth; cbn; exact H0|].
          rewrite !znth_cons_pos by lia. apply Hr. lia.
        * intros (Hl & Hr). split; [|split; [lia|]].
          -- specialize (Hr 0 ltac:(pose proof (zlen_nonneg w); lia)). unfold znth in Hr. cbn in Hr. exact Hr.
          -- intros u Hu. specialize (Hr (u + 1) ltac:(lia)). rewrite !znth_cons_pos in Hr by lia. replace (u + 1 - 1) with u in Hr by lia. exact Hr.
  Qed.

  Lemma occurs_iff w : forall s, occurs cmatch w s = true <-> exists a, (a <= length s)%nat /\ prefix_match cmatch w (skipn a s) = true.
  Proof.
    induction s as [|q s IH].
    - cbn [occurs]. rewrite orb_false_r. split; [intros H; exists 0%nat; split; [cbn; lia | exact H] | intros (a & Ha & H); destruct a; exact H].
    - cbn [occurs]. rewrite orb_true_iff, IH. split.
      + intros [H|(a & Ha & H)]; [exists 0%nat; split; [cbn; lia | exact H] | exists (S a); split; [cbn; lia | exact H]].
      + intros (a & Ha & H). destruct a as [|a]; [left; exact H | right; exists a; split; [cbn in Ha; lia | exact H]].
  Qed.

  Lemma znth_skipn (a : nat) u : 0 <= u -> znth 0 (skipn a t) u = znth 0 t (Z.of_nat a + u).
  Proof.
    intros Hu. unfold znth. destruct (u <? 0) eqn:E1; [apply Z.ltb_lt in E1; lia|]. destruct (Z.of_nat a + u <? 0) eqn:E2; [apply Z.ltb_lt in E2; lia|].
    rewrite nth_skipn'. f_equal. lia.
  Qed.

  Lemma pm_iff w i j : 0 <= i -> pm cmatch t w i j = true <->
    i + 1 <= j /\ forall u, 0 <= u <= i -> cmatch (znth 0 w u) (znth 0 t (j - 1 - i + u)) = true.
  Proof.
    intros Hi. unfold pm. rewrite andb_true_iff, Z.leb_le, forallb_forall. split; intros [H1 H2]; (split; [exact H1|]).
    - intros u Hu. apply H2. replace u with (0 + Z.of_nat (Z.to_nat u)) by lia. apply zrange_in. lia.
    - intros u Hin. apply H2. apply zrange_in_range in Hin. lia.
  Qed.

  (** the property of the packed search: some word of the entry occurs in the text *)
  Theorem shift_and_correct : shift_and_present cmatch ws t = existsb (fun w => occurs cmatch w t) ws.
  Proof.
    rewrite shift_and_hits. apply eq_true_iff_eq. rewrite !existsb_exists. split.
    - intros (j & Hj & Hh). unfold hit in Hh. apply existsb_exists in Hh. destruct Hh as (w & Hin & Hp). exists w. split; [exact Hin|].
      assert (Hw : 1 <= zlen w) by (unfold nonempty in ws_nonempty; rewrite Forall_forall in ws_nonempty; apply ws_nonempty; exact Hin).
      pose proof (zrange_in_range _ _ _ Hj) as Hjr.
      apply (pm_iff w (zlen w - 1) j ltac:(lia)) in Hp. destruct Hp as [Hlen Hall].
      apply occurs_iff. exists (Z.to_nat (j - zlen w)). split; [lia|]. apply prefix_match_iff. split.
      + unfold zlen in *. rewrite skipn_length. lia.
      + intros u Hu. rewrite znth_skipn by lia. specialize (Hall u ltac:(lia)).
        replace (Z.of_nat (Z.to_nat (j - zlen w)) + u) with (j - 1 - (zlen w - 1) + u) by lia. exact Hall.
    - intros (w & Hin & Ho). apply occurs_iff in Ho. destruct Ho as (a & Ha & Hp). apply prefix_match_iff in Hp. destruct Hp as [Hl Hall].
      assert (Hw : 1 <= zlen w) by (unfold nonempty in ws_nonempty; rewrite Forall_forall in ws_nonempty; apply ws_nonempty; exact Hin).
      unfold zlen at 2 in Hl. rewrite skipn_length in Hl.
      exists (Z.of_nat a + zlen w). split.
      + replace (Z.of_nat a + zlen w) with (1 + Z.of_nat (Z.to_nat (Z.of_nat a + zlen w - 1))) by lia. apply zrange_in. unfold zlen in *. lia.
      + unfold hit. apply existsb_exists. exists w. split; [exact Hin|]. apply (pm_iff w (zlen w - 1) _ ltac:(lia)). split; [lia|].
        intros u Hu. specialize (Hall u ltac:(lia)). rewrite znth_skipn in Hall by lia.
        replace (Z.of_nat a + zlen w - 1 - (zlen w - 1) + u) with (Z.of_nat a + u) by lia. exact Hall.
  Qed.
End Run.

(** ---- packing: every word built by [pack] satisfies the hypotheses of [shift_and_correct], and together the words hold exactly the k-mers given *)
Lemma total_app a b : total (a ++ b) = total a + total b.
Proof. unfold total, zlen. rewrite concat_app, app_length. lia. Qed.
Lemma total_single (x : list Z) : total [x] = zlen x.
Proof. unfold total. cbn [concat]. rewrite app_nil_r. reflexivity. Qed.
Lemma total_rev a : total (rev a) = total a.
Proof. induction a as [|x a IH]; [reflexivity|]. cbn [rev]. rewrite total_app, IH, total_single, total_cons. lia. Qed.

Lemma pack_go_ok : forall ks cur off,
  Forall (fun k => 1 <= zlen k <= WORD) ks -> nonempty cur -> total cur = off -> off <= WORD ->
  Forall (fun g => nonempty g /\ total g <= WORD) (pack_go ks cur off) /\
  concat (pack_go ks cur off) = rev cur ++ ks.
Proof.
  induction ks as [|k t IH]; intros cur off Hks Hcur Htot Hoff; cbn [pack_go].
  - destruct cur as [|c cur']; [split; [constructor | reflexivity]|]. split.
    + constructor; [|constructor]. split; [unfold nonempty in *; apply Forall_rev; exact Hcur | rewrite total_rev; lia].
    + cbn [concat]. rewrite !app_nil_r. reflexivity.
  - inversion Hks as [|k0 t0 Hk Ht]; subst k0 t0. destruct (off + zlen k <=? WORD) eqn:E.
    + apply Z.leb_le in E. destruct (IH (k :: cur) (off + zlen k) Ht) as [H1 H2].
      * constructor; [lia | exact Hcur].
      * rewrite total_cons. lia.
      * exact E.
      * split; [exact H1|]. rewrite H2. cbn [rev]. rewrite <- app_assoc. reflexivity.
    + destruct (IH [k] (zlen k) Ht) as [H1 H2].
      * constructor; [lia | constructor].
      * apply total_single.
      * lia.
      * destruct cur as [|c cur'].
        -- split; [exact H1|]. rewrite H2. reflexivity.
        -- split.
           ++ constructor; [|exact H1]. split; [unfold nonempty in *; apply Forall_rev; exact Hcur | rewrite total_rev; lia].
           ++ cbn [concat]. rewrite H2. cbn [rev app]. rewrite <- app_assoc. reflexivity.
Qed.

Lemma existsb_map' {A B} (f : B -> bool) (g : A -> B) l : existsb f (map g l) = existsb (fun x => f (g x)) l.
Proof. induction l as [|x l IH]; [reflexivity|]. cbn. rewrite IH. reflexivity. Qed.

Lemma existsb_ext_in {A} (f g : A -> bool) l : (forall x, In x l -> f x = g x) -> existsb f l = existsb g l.
Proof.
  induction l as [|x l IH]; intros H; [reflexivity|]. cbn. rewrite (H x (or_introl eq_refl)), IH; [reflexivity|]. intros y Hy. apply H. right. exact Hy.
Qed.

Lemma existsb_concat {A} (f : A -> bool) : forall ls, existsb f (concat ls) = existsb (existsb f) ls.
Proof. induction ls as [|l ls IH]; [reflexivity|]. cbn [concat existsb]. rewrite existsb_app, IH. reflexivity. Qed.

(** the search of one entry, word by word, is the search for any of its k-mers *)
Theorem packed_search_correct cmatch ks t :
  Forall (fun k => 1 <= zlen k <= WORD) ks ->
  existsb (fun g => shift_and_present cmatch g t) (pack ks) = existsb (fun k => occurs cmatch k t) ks.
Proof.
  intros Hks. destruct (pack_go_ok ks [] 0 Hks ltac:(constructor) eq_refl ltac:(unfold WORD; lia)) as [Hall Hcat].
  fold (pack ks) in Hall, Hcat. cbn [rev app] in Hcat. rewrite <- Hcat at 2. rewrite existsb_concat.
  rewrite Forall_forall in Hall. clear Hcat. induction (pack ks) as [|g gs IH]; [reflexivity|].
  cbn [existsb]. destruct (Hall g (or_introl eq_refl)) as [Hne Hfit].
  rewrite (shift_and_correct cmatch t g Hne Hfit). f_equal. apply IH. intros x Hx. apply Hall. right. exact Hx.
Qed.

(** ---- KmerFinder.kmers_present on entries (start, stop, [k-mers]) as the implementation holds them, searched with the packed
    shift-and words, is [kmers_present] of Model/Kmer.v on the flat table *)
Theorem kmers_present_sa_correct wref wq entries seq :
  Forall (fun e : Z * option Z * list str => Forall (fun k => 1 <= zlen k <= WORD) (snd e)) entries ->
  kmers_present_sa wref wq entries seq = kmers_present wref wq (flat_table entries) seq.
Proof.
  intros Hall. unfold kmers_present_sa, kmers_present, flat_table. induction entries as [|[[start stop] ks] es IH]; [reflexivity|].
  inversion Hall as [|e0 es0 He Hes]; subst e0 es0. cbn [snd] in He. cbn [existsb flat_map]. rewrite existsb_app, IH by exact Hes. f_equal.
  unfold entry_present_sa. rewrite existsb_map'. destruct (window (zlen seq) start stop) as [[a b]|] eqn:Ew.
  - rewrite (packed_search_correct _ ks _ He). apply existsb_ext_in. intros k Hk. unfold entry_present. rewrite Ew.
    rewrite Forall_forall in He. specialize (He k Hk). destruct k as [|c k']; [change (zlen (@nil Z)) with 0 in He; lia | reflexivity].
  - symmetry. transitivity (existsb (fun _ : str => false) ks).
    + apply existsb_ext'. intros k. unfold entry_present. rewrite Ew. destruct k; reflexivity.
    + clear. induction ks as [|k ks IHk]; [reflexivity | exact IHk].
Qed.
