(** Best-adapter choice (C09), linked adapters (C09), the actions of match_and_trim (C03),
    the --revcomp choice (C16) and the info-file fields (C17) on the pipeline model. *)
From Coq Require Import ZArith List Bool Lia.
From CV Require Import Generated.Tables Model.Base Model.Align Model.Adapters Model.Kmer Model.Qualtrim Model.Pipeline
  Proofs.AlignProofs Proofs.AdapterProofs Proofs.KmerProofs Proofs.SliceProofs Proofs.StageProofs.
Import ListNotations.
Open Scope Z_scope.

(** ------------------------------------------------------------------ C09: best match *)
(** m is strictly preferred to m': higher score, or equal score and fewer errors *)
Definition beats (m m' : match_t) : Prop :=
  m_score m' < m_score m \/ (m_score m = m_score m' /\ m_errors m < m_errors m').
Definition not_worse (m m' : match_t) : Prop :=
  m_score m' < m_score m \/ (m_score m = m_score m' /\ m_errors m <= m_errors m').

Definition cand (ads : list padapter) (s : str) (j : nat) : option match_t :=
  match nth_error ads j with Some a => adapter_match j a s | None => None end.

Lemma best_match_aux_spec : forall ads idx s best,
  (* [cands] = candidates of the adapters already processed, given as a function of their index *)
  forall (prev : nat -> option match_t),
  (match best with
   | None => forall j, (j < idx)%nat -> prev j = None
   | Some b => exists ib, (ib < idx)%nat /\ prev ib = Some b /\
                          (forall j m', (j < idx)%nat -> prev j = Some m' -> not_worse b m') /\
                          (forall j m', (j < ib)%nat -> prev j = Some m' -> beats b m')
   end) ->
  let all j := if (j <? idx)%nat then prev j else
                 match nth_error ads (j - idx) with Some a => adapter_match j a s | None => None end in
  match best_match_aux idx ads s best with
  | None => forall j, all j = None
  | Some b => exists ib, all ib = Some b /\
                         (forall j m', all j = Some m' -> not_worse b m') /\
                         (forall j m', (j < ib)%nat -> all j = Some m' -> beats b m')
  end.
Proof.
  induction ads as [|a t IH]; intros idx s best prev Hinv; cbn zeta.
  - cbn [best_match_aux]. destruct best as [b|].
    + destruct Hinv as (ib & Hib & Hb & Hall & Hless). exists ib.
      assert (Hlt : (ib <? idx)%nat = true) by (apply Nat.ltb_lt; lia).
      rewrite Hlt. split; [exact Hb|]. split.
      * intros j m' Hj. destruct (j <? idx)%nat eqn:E; [apply Nat.ltb_lt in E; eauto|].
        destruct (j - idx)%nat; discriminate.
      * intros j m' Hjl Hj. assert (Hjlt : (j <? idx)%nat = true) by (apply Nat.ltb_lt; lia).
        rewrite Hjlt in Hj. eauto.
    + intros j. destruct (j <? idx)%nat eqn:E; [apply Nat.ltb_lt in E; auto|]. destruct (j - idx)%nat; reflexivity.
  - cbn [best_match_aux].
    set (best' := match adapter_match idx a s with
                  | None => best
                  | Some m => match best with
                              | None => Some m
                              | Some b => if (m_score b <? m_score m) || ((m_score m =? m_score b) && (m_errors m <? m_errors b))
                                          then Some m else best
                              end
                  end).
    set (prev' := fun j => if (j =? idx)%nat then adapter_match idx a s else prev j).
    specialize (IH (S idx) s best' prev').
    assert (Hinv' : match best' with
                    | None => forall j, (j < S idx)%nat -> prev' j = None
                    | Some b => exists ib, (ib < S idx)%nat /\ prev' ib = Some b /\
                                  (forall j m', (j < S idx)%nat -> prev' j = Some m' -> not_worse b m') /\
                                  (forall j m', (j < ib)%nat -> prev' j = Some m' -> beats b m')
                    end).
    { subst best' prev'. destruct (adapter_match idx a s) as [m|] eqn:Em.
      - destruct best as [b|].
        + destruct Hinv as (ib & Hib & Hb & Hall & Hless).
          destruct ((m_score b <? m_score m) || ((m_score m =? m_score b) && (m_errors m <? m_errors b))) eqn:Ecmp.
          * (* m replaces b *)
            assert (Hbeats : beats m b).
            { unfold beats. apply orb_prop in Ecmp. destruct Ecmp as [E|E].
              - apply Z.ltb_lt in E. lia.
              - apply andb_prop in E. destruct E as [E1 E2]. apply Z.eqb_eq in E1. apply Z.ltb_lt in E2. lia. }
            exists idx. split; [lia|]. split; [rewrite Nat.eqb_refl; reflexivity|]. split.
            -- intros j m' Hj Hm'. destruct (j =? idx)%nat eqn:Ej.
               ++ inversion Hm'; subst. unfold not_worse. lia.
               ++ apply Nat.eqb_neq in Ej. assert (Hj' : (j < idx)%nat) by lia.
                  specialize (Hall j m' Hj' Hm'). unfold not_worse, beats in *. lia.
            -- intros j m' Hj Hm'. destruct (j =? idx)%nat eqn:Ej; [apply Nat.eqb_eq in Ej; lia|].
               specialize (Hall j m' Hj Hm'). unfold not_worse, beats in *. lia.
          * (* b stays *)
            assert (Hnw : not_worse b m).
            { unfold not_worse. apply orb_false_elim in Ecmp. destruct Ecmp as [E1 E2].
              apply Z.ltb_ge in E1. apply andb_false_elim in E2. destruct E2 as [E2|E2].
              - apply Z.eqb_neq in E2. lia.
              - apply Z.ltb_ge in E2. lia. }
            exists ib. split; [lia|]. split.
            -- destruct (ib =? idx)%nat eqn:Ei; [apply Nat.eqb_eq in Ei; lia | exact Hb].
            -- split.
               ++ intros j m' Hj Hm'. destruct (j =? idx)%nat eqn:Ej.
                  ** inversion Hm'; subst. exact Hnw.
                  ** apply Nat.eqb_neq in Ej. apply (Hall j m'); [lia | exact Hm'].
               ++ intros j m' Hj Hm'. destruct (j =? idx)%nat eqn:Ej; [apply Nat.eqb_eq in Ej; lia|]. eauto.
        + exists idx. split; [lia|]. split; [rewrite Nat.eqb_refl; reflexivity|]. split.
          * intros j m' Hj Hm'. destruct (j =? idx)%nat eqn:Ej.
            -- inversion Hm'; subst. unfold not_worse. lia.
            -- apply Nat.eqb_neq in Ej. rewrite Hinv in Hm' by lia. discriminate.
          * intros j m' Hj Hm'. destruct (j =? idx)%nat eqn:Ej; [apply Nat.eqb_eq in Ej; lia|].
            rewrite Hinv in Hm' by lia. discriminate.
      - destruct best as [b|].
        + destruct Hinv as (ib & Hib & Hb & Hall & Hless). exists ib. split; [lia|]. split.
          * destruct (ib =? idx)%nat eqn:Ei; [apply Nat.eqb_eq in Ei; lia | exact Hb].
          * split.
            -- intros j m' Hj Hm'. destruct (j =? idx)%nat eqn:Ej; [discriminate|].
               apply Nat.eqb_neq in Ej. apply (Hall j m'); [lia | exact Hm'].
            -- intros j m' Hj Hm'. destruct (j =? idx)%nat eqn:Ej; [discriminate|]. eauto.
        + intros j Hj. destruct (j =? idx)%nat eqn:Ej; [reflexivity|]. apply Nat.eqb_neq in Ej. apply Hinv. lia. }
    specialize (IH Hinv'). cbn zeta in IH.
    assert (Hsame : forall j,
      (if (j <? S idx)%nat then prev' j else match nth_error t (j - S idx) with Some a0 => adapter_match j a0 s | None => None end) =
      (if (j <? idx)%nat then prev j else match nth_error (a :: t) (j - idx) with Some a0 => adapter_match j a0 s | None => None end)).
    { intros j. subst prev'. cbn beta.
      destruct (j <? idx)%nat eqn:E1.
      - apply Nat.ltb_lt in E1. assert (E2 : (j <? S idx)%nat = true) by (apply Nat.ltb_lt; lia). rewrite E2.
        assert (E3 : (j =? idx)%nat = false) by (apply Nat.eqb_neq; lia). rewrite E3. reflexivity.
      - apply Nat.ltb_ge in E1. destruct (j =? idx)%nat eqn:E3.
        + apply Nat.eqb_eq in E3. subst j. assert (E2 : (idx <? S idx)%nat = true) by (apply Nat.ltb_lt; lia). rewrite E2.
          replace (idx - idx)%nat with 0%nat by lia. reflexivity.
        + apply Nat.eqb_neq in E3. assert (E2 : (j <? S idx)%nat = false) by (apply Nat.ltb_ge; lia). rewrite E2.
          replace (j - idx)%nat with (S (j - S idx)) by lia. reflexivity. }
    destruct (best_match_aux (S idx) t s best') as [b|].
    + destruct IH as (ib & H1 & H2 & H3). exists ib. rewrite <- Hsame. split; [exact H1|]. split.
      * intros j m' Hj. rewrite <- Hsame in Hj. eauto.
      * intros j m' Hjl Hj. rewrite <- Hsame in Hj. eauto.
    + intros j. rewrite <- Hsame. apply IH.
Qed.

Theorem best_match_spec ads s :
  match best_match ads s with
  | None => forall j, cand ads s j = None
  | Some b => exists ib, cand ads s ib = Some b /\
                         (forall j m', cand ads s j = Some m' -> not_worse b m') /\
                         (forall j m', (j < ib)%nat -> cand ads s j = Some m' -> beats b m')
  end.
Proof.
  unfold best_match.
  pose proof (best_match_aux_spec ads 0 s None (fun _ => None)) as H.
  assert (H0 : forall j : nat, (j < 0)%nat -> (fun _ : nat => @None match_t) j = None) by (intros; reflexivity).
  specialize (H H0). cbn zeta in H.
  assert (Hc : forall j, (if (j <? 0)%nat then None else match nth_error ads (j - 0) with Some a => adapter_match j a s | None => None end) = cand ads s j).
  { intros j. unfold cand. replace (j - 0)%nat with j by lia. reflexivity. }
  destruct (best_match_aux 0 ads s None) as [b|].
  - destruct H as (ib & H1 & H2 & H3). exists ib. rewrite <- Hc. split; [exact H1|]. split.
    + intros j m' Hj. rewrite <- Hc in Hj. eauto.
    + intros j m' Hjl Hj. rewrite <- Hc in Hj. eauto.
  - intros j. rewrite <- Hc. apply H.
Qed.

(** ------------------------------------------------------------------ C09: linked adapters *)
Theorem linked_spec idx nm fa ft ba bt freq breq s :
  let fm := single_match fa ft s in
  let rest := match fm with Some x => s_trim_seq x s | None => s end in
  let bm := single_match ba bt rest in
  adapter_match idx (PLinked nm fa ft ba bt freq breq) s =
    if (match fm with None => freq | Some _ => false end) then None                 (* required 5' part missing *)
    else if (match bm with None => breq | Some _ => false end) then None            (* required 3' part missing *)
    else match fm, bm with
         | None, None => None                                                        (* nothing found *)
         | _, _ => Some (MLinked idx fm bm)
         end.
Proof.
  cbn zeta. cbn [adapter_match].
  destruct (single_match fa ft s) as [f|]; destruct freq; cbn iota;
    try reflexivity;
    match goal with |- context [single_match ba bt ?r] => destruct (single_match ba bt r) as [b|] end;
    destruct breq; reflexivity.
Qed.

(** ------------------------------------------------------------------ C03: the actions *)
Lemma match_and_trim_unfold ads times act r0 :
  let r := match act with ALowercase => mkR (rname r0) (upper (rseq r0)) (rqual r0) | _ => r0 end in
  forall trimmed ms, rounds ads times r = (trimmed, ms) ->
  match ms with
  | [] => match_and_trim ads times act r0 = (trimmed, [])
  | _ => snd (match_and_trim ads times act r0) = ms
  end.
Proof.
  cbn zeta. intros trimmed ms H. unfold match_and_trim. rewrite H.
  destruct ms as [|m ms']; [reflexivity|].
  destruct (remainder (map m_remainder (m :: ms'))) as [a b]. reflexivity.
Qed.

Lemma upper_length s : zlen (upper s) = zlen s.
Proof. unfold upper. apply zlen_map. Qed.

Theorem match_and_trim_no_match ads times act r0 :
  Forall wf_padapter ads -> wf_read r0 ->
  snd (match_and_trim ads times act r0) = [] ->
  fst (match_and_trim ads times act r0) =
    match act with ALowercase => mkR (rname r0) (upper (rseq r0)) (rqual r0) | _ => r0 end.
Proof.
  intros Hwf Hr. unfold match_and_trim.
  set (r := match act with ALowercase => _ | _ => r0 end).
  assert (Hwr : wf_read r).
  { subst r. destruct act; try exact Hr. unfold wf_read in *; cbn [rqual rseq]. destruct (rqual r0); [rewrite upper_length; exact Hr | exact I]. }
  destruct (rounds ads times r) as [trimmed ms] eqn:Er.
  destruct (rounds_spec ads Hwf times r trimmed ms Hwr Er) as [_ Hs].
  destruct ms as [|m ms']; [cbn; intros _; exact Hs|].
  destruct (remainder (map m_remainder (m :: ms'))) as [a b]. cbn [snd]. discriminate.
Qed.

(** what each action returns when at least one adapter was found; r = the read the stage
    received (upper-cased first for action lowercase), [a,b) = remainder of the matches *)
Theorem match_and_trim_actions ads times act r0 res ms :
  Forall wf_padapter ads -> wf_read r0 ->
  match_and_trim ads times act r0 = (res, ms) -> ms <> [] ->
  let r := match act with ALowercase => mkR (rname r0) (upper (rseq r0)) (rqual r0) | _ => r0 end in
  let a := fst (remainder (map m_remainder ms)) in
  let b := snd (remainder (map m_remainder ms)) in
  iv_ok (rlen r0) (a, b) /\
  match act with
  | ATrim => read_slice res r a b
  | ANone => res = r0
  | AMask => rname res = rname r0 /\ rqual res = rqual r0 /\
             rseq res = repeat_z 78 a ++ zslice (rseq r0) a b ++ repeat_z 78 (rlen r0 - b) /\ rlen res = rlen r0
  | ALowercase => rname res = rname r0 /\ rqual res = rqual r0 /\
             rseq res = lower (zslice (upper (rseq r0)) 0 a) ++ upper (zslice (upper (rseq r0)) a b)
                        ++ lower (zslice (upper (rseq r0)) b (rlen r0)) /\ rlen res = rlen r0
  | ARetain | ACrop => True
  end.
Proof.
  intros Hwf Hr H Hne. cbn zeta. unfold match_and_trim in H.
  set (r := match act with ALowercase => _ | _ => r0 end) in *.
  assert (Hwr : wf_read r).
  { subst r. destruct act; try exact Hr. unfold wf_read in *; cbn [rqual rseq]. destruct (rqual r0); [rewrite upper_length; exact Hr | exact I]. }
  assert (Hlen : rlen r = rlen r0).
  { subst r. destruct act; try reflexivity. unfold rlen; cbn [rseq]. apply upper_length. }
  destruct (rounds ads times r) as [trimmed ms0] eqn:Er.
  destruct (rounds_spec ads Hwf times r trimmed ms0 Hwr Er) as [_ Hs].
  destruct ms0 as [|m ms']; [inversion H; subst; contradiction|].
  destruct Hs as [Hiv Hsl].
  destruct (remainder (map m_remainder (m :: ms'))) as [a b] eqn:Erem. cbn [fst snd] in *.
  inversion H; subst res ms; clear H. rewrite Erem. cbn [fst snd].
  rewrite Hlen in Hiv. split; [exact Hiv|].
  destruct Hiv as (h1 & h2 & h3). cbn [fst snd] in *.
  destruct act; subst r; cbn [rname rseq rqual]; auto.
  - (* mask *)
    split; [reflexivity|]. split; [reflexivity|]. unfold rlen in *.
    rewrite pyslice_range by lia. split; [reflexivity|]. cbn [rseq].
    unfold repeat_z.
    pose proof (zslice_zlen (rseq r0) a b ltac:(lia) ltac:(lia)) as Hz.
    unfold zlen in *. rewrite !app_length, !repeat_length. lia.
  - (* lowercase *)
    split; [reflexivity|]. split; [reflexivity|]. unfold rlen in *. cbn [rseq] in *.
    rewrite pyslice_range by (rewrite ?upper_length; lia).
    rewrite pyslice_to by (rewrite ?upper_length; lia).
    rewrite pyslice_from by (rewrite ?upper_length; lia). rewrite upper_length.
    split; [reflexivity|]. cbn [rseq].
    unfold lower, upper. unfold zlen. rewrite !app_length, !map_length.
    pose proof (zslice_zlen (map (tr upper_table) (rseq r0)) 0 a) as Z1.
    pose proof (zslice_zlen (map (tr upper_table) (rseq r0)) a b) as Z2.
    pose proof (zslice_zlen (map (tr upper_table) (rseq r0)) b (zlen (rseq r0))) as Z3.
    rewrite zlen_map in Z1, Z2, Z3. unfold zlen in *. lia.
Qed.

(** ------------------------------------------------------------------ C16: the --revcomp choice *)
Theorem revcomp_choice ads times act suffix r :
  let fwd := match_and_trim ads times act r in
  let rv := match_and_trim ads times act (revcomp_read r) in
  revcomp_stage ads times act suffix r =
    if (match snd rv with [] => false | _ => true end) && (sum_scores (snd fwd) <? sum_scores (snd rv))
    then (mkR (rname (fst rv) ++ suffix) (rseq (fst rv)) (rqual (fst rv)), snd rv, true)
    else (fst fwd, snd fwd, false).
Proof.
  cbn zeta. unfold revcomp_stage.
  destruct (match_and_trim ads times act r) as [fr fms].
  destruct (match_and_trim ads times act (revcomp_read r)) as [rr rms]. reflexivity.
Qed.

(** on equal scores (or no reverse match) the given orientation is kept *)
Corollary revcomp_tie_keeps_forward ads times act suffix r :
  sum_scores (snd (match_and_trim ads times act (revcomp_read r))) <= sum_scores (snd (match_and_trim ads times act r)) ->
  revcomp_stage ads times act suffix r =
    (fst (match_and_trim ads times act r), snd (match_and_trim ads times act r), false).
Proof.
  intros H. rewrite revcomp_choice. cbn zeta.
  assert (E : (sum_scores (snd (match_and_trim ads times act r)) <? sum_scores (snd (match_and_trim ads times act (revcomp_read r)))) = false)
    by (apply Z.ltb_ge; exact H).
  rewrite E, andb_false_r. reflexivity.
Qed.

(** reverse complement is an involution on well-formed DNA and reverses the qualities *)
Lemma revcomp_read_shape r : rname (revcomp_read r) = rname r /\ rlen (revcomp_read r) = rlen r /\
  rqual (revcomp_read r) = option_map (@rev Z) (rqual r).
Proof.
  unfold revcomp_read, rlen; cbn [rname rseq rqual]. split; [reflexivity|]. split; [|reflexivity].
  unfold zlen. rewrite rev_length, map_length. reflexivity.
Qed.

(** ------------------------------------------------------------------ C17: info-file fields *)
Definition field_str (f : field) : str := match f with FS s => s | FI _ => [] end.

Theorem info_record_fields suffix aname x cur :
  sm_ok (rlen cur) x -> wf_read cur ->
  let rec := info_record suffix aname x cur in
  length rec = 11%nat /\
  nth 1 rec (FI 0) = FI (merrors (sm x)) /\ nth 2 rec (FI 0) = FI (rstart (sm x)) /\ nth 3 rec (FI 0) = FI (rstop (sm x)) /\
  field_str (nth 4 rec (FI 0)) ++ field_str (nth 5 rec (FI 0)) ++ field_str (nth 6 rec (FI 0)) = rseq cur /\
  field_str (nth 5 rec (FI 0)) = zslice (rseq cur) (rstart (sm x)) (rstop (sm x)) /\
  nth 7 rec (FI 0) = FS aname /\
  field_str (nth 8 rec (FI 0)) ++ field_str (nth 9 rec (FI 0)) ++ field_str (nth 10 rec (FI 0)) =
    match rqual cur with Some q => q | None => [] end.
Proof.
  intros (h1 & h2 & h3 & h4 & h5) Hwf. cbn zeta. unfold info_record. unfold rlen in *.
  assert (Hq : forall q : list Z, zlen q = zlen (rseq cur) ->
      pyslice (Some 0) (Some (rstart (sm x))) q ++ pyslice (Some (rstart (sm x))) (Some (rstop (sm x))) q
      ++ pyslice (Some (rstop (sm x))) None q = q) by (intros q Hq; apply three_slices; lia).
  unfold wf_read in Hwf.
  destruct (rqual cur) as [[|q0 q]|]; cbn [app length nth field_str].
  - repeat split; try reflexivity; [apply three_slices; lia | apply pyslice_range; lia].
  - repeat split; try reflexivity; [apply three_slices; lia | apply pyslice_range; lia | apply Hq; exact Hwf].
  - repeat split; try reflexivity; [apply three_slices; lia | apply pyslice_range; lia].
Qed.
