(** Completeness for exact copies (C02): if the whole (translated) reference occurs in the query
    without errors at position p, and the alignment may start and stop anywhere in the query, then
    Aligner.locate reports a match.  The cells on the diagonal of the copy are tracked exactly:
    after column p + t, cell t holds cost 0, score t and origin p -- the Ukkonen cut-off cannot
    drop them because their cost is 0. *)
From Coq Require Import ZArith List Bool Lia.
From CV Require Import Generated.Tables Generated.Scores Model.Align Proofs.AlignProofs Proofs.AdapterProofs Proofs.AlignDist.
Import ListNotations.
Open Scope Z_scope.

Section Fill.
  Variable eqc : Z -> Z -> bool.
  Variable cfg : acfg.

  (** the cell that [fill] computes at list position t (row i0 + t) *)
  Lemma fill_nth : forall budget c2 refs old diag prev ov t,
    (t < budget)%nat -> (t < length refs)%nat -> (t < length old)%nat ->
    let res := fst (fill eqc cfg budget c2 refs old diag prev ov) in
    nth t res dummy =
      cell eqc cfg c2 (nth t refs 0)
           (match t with O => diag | S t' => nth t' old dummy end)
           (nth t old dummy)
           (match t with O => prev | S t' => nth t' res dummy end).
  Proof.
    induction budget as [|b IH]; intros c2 refs old diag prev ov t Hb Hr Ho; [lia|]. cbv zeta. cbn [fill].
    destruct refs as [|r refs']; [cbn in Hr; lia|]. destruct old as [|cur old']; [cbn in Ho; lia|].
    specialize (IH c2 refs' old' cur (cell eqc cfg c2 r diag cur prev) (origin (cell eqc cfg c2 r diag cur prev))).
    destruct (fill eqc cfg b c2 refs' old' cur (cell eqc cfg c2 r diag cur prev) (origin (cell eqc cfg c2 r diag cur prev))) as [rest ov'] eqn:E.
    cbn [fst] in *. destruct t as [|t']; [reflexivity|]. cbn [nth].
    specialize (IH t' ltac:(lia) ltac:(cbn in Hr; lia) ltac:(cbn in Ho; lia)). cbv zeta in IH. rewrite IH.
    destruct t' as [|t'']; reflexivity.
  Qed.
End Fill.

From CV Require Import Proofs.AlignOpt.

Section Copy.
  Variable eqc : Z -> Z -> bool.
  Variable thr : Z -> Z.
  Variable cfg : acfg.
  Variable rawref : list Z.
  Variable s1 s2 : list Z.

  Notation m := (zlen s1).
  Notation n := (zlen s2).
  Notation k := (thr m).
  Hypothesis IND_pos : 1 <= indel_cost cfg.
  Hypothesis k_nonneg : 0 <= k.
  Hypothesis k_le_m : k <= m.
  Hypothesis thr_nonneg : forall L, 0 <= thr L.
  Hypothesis thr_bound : forall L, thr L <= k.
  Hypothesis siq : start_in_query cfg = true.
  Hypothesis stop_q : stop_in_query cfg = true.
  Hypothesis ov_le : min_overlap cfg <= m.
  Hypothesis m_pos : 1 <= m.

  (** an error-free copy of the whole reference at position p of the query *)
  Variable p : Z.
  Hypothesis p_range : 0 <= p /\ p + m <= n.
  Hypothesis copy : forall t, 0 <= t < m -> eqc (znth 0 s1 t) (znth 0 s2 (p + t)) = true.

  Notation SD := (AlignDist.SD eqc thr cfg s1 s2).
  Notation SL := (AlignOpt.SL eqc thr cfg s1 s2).
  Notation nb := (no_best s1 n).

  Definition has_best (st : lstate) : Prop := b_cost (best st) <> nb.

  (** once a candidate has been recorded, one stays recorded *)
  Lemma column_step_keeps c2 j st : has_best st -> has_best (column_step eqc thr cfg rawref s1 n c2 j st).
  Proof.
    unfold has_best, column_step. intros H. destruct (col st) as [|c0 olds]; [exact H|].
    destruct (fill eqc cfg (Z.to_nat (last st)) c2 s1 olds c0 _ (ovar st)) as [rest ov1].
    destruct (shrink_last thr s1 _ (last st) <? m); [exact H|]. rewrite stop_q.
    match goal with |- context [if ?c then _ else _] => destruct c eqn:Ecnd end; [|exact H].
    cbn [best b_cost]. apply andb_prop in Ecnd. destruct Ecnd as [Eok _]. apply andb_prop in Eok. destruct Eok as [_ Ethr]. apply Z.leb_le in Ethr.
    match type of Ethr with _ <= thr ?L => pose proof (thr_bound L) end. unfold no_best. pose proof (zlen_nonneg s2). lia.
  Qed.

  Lemma columns_keeps : forall qs j st, has_best st -> has_best (columns eqc thr cfg rawref s1 n qs j st).
  Proof.
    induction qs as [|c2 t IH]; intros j st H; cbn [columns]; [exact H|].
    destruct (stopped (column_step eqc thr cfg rawref s1 n c2 j st)); [apply column_step_keeps; exact H | apply IH; apply column_step_keeps; exact H].
  Qed.

  Lemma last_column_keeps ov : forall cells b, b_cost b <> nb -> b_cost (last_column thr cfg rawref s1 n ov cells b) <> nb.
  Proof.
    induction cells as [|[i e] t IH]; intros b H; cbn [last_column]; [exact H|].
    match goal with |- context [if ?c then _ else _] => destruct c eqn:Ecnd end; [|apply IH; exact H].
    apply IH. cbn [b_cost]. apply andb_prop in Ecnd. destruct Ecnd as [Eok _]. apply andb_prop in Eok. destruct Eok as [_ Ethr]. apply Z.leb_le in Ethr.
    match type of Ethr with _ <= thr ?L => pose proof (thr_bound L) end. unfold no_best. pose proof (zlen_nonneg s2). lia.
  Qed.

  (** the tracked cells: row 0 (free start in the query) and the diagonal of the copy *)
  Definition row0_ok (j : Z) (st : lstate) : Prop := nth 0 (col st) dummy = mkE 0 0 j.
  Definition diag_ok (j : Z) (st : lstate) : Prop := p <= j <= p + m -> nth (Z.to_nat (j - p)) (col st) dummy = mkE 0 (j - p) p.

  Lemma column_step_copy c2 j st :
    SD (j - 1) st -> SL (j - 1) st -> row0_ok (j - 1) st -> diag_ok (j - 1) st -> 1 <= j <= n -> c2 = znth 0 s2 (j - 1) ->
    let st' := column_step eqc thr cfg rawref s1 n c2 j st in
    row0_ok j st' /\ diag_ok j st' /\ (j = p + m -> has_best st').
  Proof.
    intros (Hcol & Hlen & Hlast & HB & Hbest) (_ & HB' & _) Hr0 Hdg Hj Hc2. cbv zeta. unfold column_step.
    destruct (col st) as [|c0 olds] eqn:Ecol; [rewrite zlen_nil in Hlen; pose proof (zlen_nonneg s1); lia|].
    unfold row0_ok in Hr0. rewrite Ecol in Hr0. cbn [nth] in Hr0. subst c0. cbn [cost score origin]. rewrite siq.
    set (c0 := mkE 0 0 (j - 1)) in *.
    set (new0 := mkE (0 + 0) (0 + 0) (j - 1 + 1)).
    assert (Hnew0 : new0 = mkE 0 0 j) by (subst new0; f_equal; lia).
    assert (Holen : length s1 = length olds) by (rewrite zlen_cons in Hlen; unfold zlen in Hlen; lia).
    pose proof (fill_nth eqc cfg (Z.to_nat (last st)) c2 s1 olds c0 new0 (ovar st)) as Hfn.
    pose proof (fill_ok eqc cfg (Z.to_nat (last st)) c2 s1 olds c0 new0 (ovar st) 1 (j - 1)) as Hfo.
    inversion Hcol as [|i0 e0 l0 Hc0d Holdsd]; subst i0 e0 l0.
    assert (Hnew0ok : AlignProofs.ent_ok cfg 0 j new0).
    { destruct Hc0d as ((a & b & c & d) & _). subst new0 c0. unfold AlignProofs.ent_ok in *; cbn [origin] in *. repeat split; intros; try congruence; try lia. }
    destruct (fill eqc cfg (Z.to_nat (last st)) c2 s1 olds c0 new0 (ovar st)) as [rest ov1] eqn:Efill. cbn [fst] in *.
    assert (Hrlen : length rest = length olds).
    { apply Hfo. - apply (colD_col_ok eqc thr cfg s1 s2). exact Holdsd.
      - replace (1 - 1) with 0 by lia. destruct Hc0d; assumption.
      - replace (1 - 1) with 0 by lia. replace (j - 1 + 1) with j by lia. exact Hnew0ok. }
    (* the diagonal cell of the new column *)
    assert (Hdiag' : p <= j <= p + m -> nth (Z.to_nat (j - p)) (new0 :: rest) dummy = mkE 0 (j - p) p).
    { intros Hpj. destruct (Z.eq_dec j p) as [->|Hne]; [rewrite Z.sub_diag; cbn [Z.to_nat nth]; rewrite Hnew0; f_equal; lia|].
      set (t := j - p) in *. assert (Ht : 1 <= t <= m) by lia.
      replace (Z.to_nat t) with (S (Z.to_nat (t - 1))) by lia. cbn [nth].
      (* the old diagonal cell has cost 0, so it lies below the budget *)
      assert (Hold : nth (Z.to_nat (t - 1)) (c0 :: olds) dummy = mkE 0 (t - 1) p).
      { specialize (Hdg ltac:(lia)). rewrite Ecol in Hdg. replace (j - 1 - p) with (t - 1) in Hdg by lia. exact Hdg. }
      assert (Hbud : (Z.to_nat (t - 1) < Z.to_nat (last st))%nat).
      { destruct HB' as [Hlm|HBs]; [lia|].
        destruct (Z_lt_dec (t - 1) (last st)) as [Hlt|Hge]; [lia|]. exfalso.
        pose proof (Forall_skipn_get (fun e => k < cost e) dummy (c0 :: olds) (Z.to_nat (last st)) (Z.to_nat (t - 1)) HBs
                      ltac:(cbn [length]; unfold zlen in *; lia)) as Hk.
        cbv beta in Hk. rewrite Hold in Hk. cbn [cost] in Hk. lia. }
      rewrite (Hfn (Z.to_nat (t - 1)) Hbud ltac:(unfold zlen in *; lia) ltac:(unfold zlen in *; lia)).
      assert (Hr : nth (Z.to_nat (t - 1)) s1 0 = znth 0 s1 (t - 1)) by (unfold znth; destruct (t - 1 <? 0) eqn:E; [lia | reflexivity]).
      rewrite Hr. assert (Heq : eqc (znth 0 s1 (t - 1)) c2 = true).
      { rewrite Hc2. replace (j - 1) with (p + (t - 1)) by lia. apply copy. lia. }
      unfold cell. rewrite Heq.
      assert (Hd : match Z.to_nat (t - 1) with O => c0 | S t' => nth t' olds dummy end = mkE 0 (t - 1) p).
      { rewrite <- Hold. destruct (Z.to_nat (t - 1)); reflexivity. }
      rewrite Hd. cbn [cost score origin]. unfold MATCH_SCORE. f_equal. lia. }
    assert (Hlen' : zlen (new0 :: rest) = m + 1) by (rewrite zlen_cons in *; unfold zlen in *; lia).
    pose proof (shrink_last_spec thr s1 (new0 :: rest) (last st) ltac:(lia) ltac:(lia)) as Hsh. cbv zeta in Hsh.
    set (l1 := shrink_last thr s1 (new0 :: rest) (last st)) in *. destruct Hsh as (Hl1 & Hl1c & Hl1g).
    assert (Hr0' : nth 0 (new0 :: rest) dummy = mkE 0 0 j) by (cbn [nth]; exact Hnew0).
    destruct (l1 <? m) eqn:El1m.
    - apply Z.ltb_lt in El1m. unfold row0_ok, diag_ok, has_best; cbn [col best]. split; [exact Hr0'|]. split; [exact Hdiag'|].
      intros Hjm. exfalso. specialize (Hdiag' ltac:(lia)). replace (j - p) with m in Hdiag' by lia.
      (* cell m has cost 0 and was computed, so the cut-off cannot be below m *)
      assert (Hm_last : m <= last st).
      { destruct HB' as [Hlm|HBs]; [lia|].
        destruct (Z_le_dec m (last st)) as [Hle|Hgt]; [exact Hle|]. exfalso.
        assert (Hst : nth (Z.to_nat m) (new0 :: rest) dummy = nth (Z.to_nat m) (c0 :: olds) dummy).
        { replace (Z.to_nat m) with (S (Z.to_nat (m - 1))) by lia. cbn [nth].
          pose proof (fill_skip eqc cfg (Z.to_nat (last st)) c2 s1 olds c0 new0 (ovar st)) as Hsk. rewrite Efill in Hsk. cbn [fst] in Hsk.
          replace (Z.to_nat (m - 1)) with (Z.to_nat (last st) + (Z.to_nat (m - 1) - Z.to_nat (last st)))%nat by lia.
          rewrite <- !nth_skipn. rewrite Hsk. reflexivity. }
        pose proof (Forall_skipn_get (fun e => k < cost e) dummy (c0 :: olds) (Z.to_nat (last st)) (Z.to_nat m) HBs
                      ltac:(cbn [length]; unfold zlen in *; lia)) as Hk.
        cbv beta in Hk. rewrite <- Hst, Hdiag' in Hk. cbn [cost] in Hk. lia. }
      specialize (Hl1g m ltac:(lia)). rewrite Hdiag' in Hl1g. cbn [cost] in Hl1g. lia.
    - apply Z.ltb_ge in El1m. rewrite stop_q.
      match goal with |- context [if ?c then _ else _] => destruct c eqn:Ecnd end.
      + unfold row0_ok, diag_ok, has_best; cbn [col best b_cost]. split; [exact Hr0'|]. split; [exact Hdiag'|].
        intros _. apply andb_prop in Ecnd. destruct Ecnd as [Eok _]. apply andb_prop in Eok. destruct Eok as [_ Ethr]. apply Z.leb_le in Ethr.
        match type of Ethr with _ <= thr ?L => pose proof (thr_bound L) end. unfold no_best. pose proof (zlen_nonneg s2). lia.
      + unfold row0_ok, diag_ok, has_best; cbn [col best]. split; [exact Hr0'|]. split; [exact Hdiag'|].
        intros Hjm. specialize (Hdiag' ltac:(lia)). replace (j - p) with m in Hdiag' by lia.
        assert (He : znth dummy (new0 :: rest) m = mkE 0 m p).
        { unfold znth. destruct (m <? 0) eqn:E; [lia | exact Hdiag']. }
        rewrite He in Ecnd. cbn [cost score origin] in Ecnd.
        assert (Eok : (min_overlap cfg <=? m + Z.min p 0) && (0 <=? thr (eff_len cfg rawref s1 (m + Z.min p 0) m)) = true).
        { apply andb_true_intro. split; [apply Z.leb_le; lia | apply Z.leb_le; apply thr_nonneg]. }
        rewrite Eok in Ecnd. cbn [andb] in Ecnd. unfold replaces in Ecnd.
        apply orb_false_iff in Ecnd. destruct Ecnd as [Ecnd _]. apply orb_false_iff in Ecnd. destruct Ecnd as [Ecnd _].
        apply Z.eqb_neq in Ecnd. exact Ecnd.
  Qed.

  Lemma columns_copy : forall qs j st,
    SD (j - 1) st -> SL (j - 1) st -> row0_ok (j - 1) st -> diag_ok (j - 1) st ->
    1 <= j -> j - 1 <= p + m -> j - 1 + zlen qs <= n -> p + m <= j - 1 + zlen qs ->
    (j - 1 = p + m -> has_best st) ->
    qs = firstn (length qs) (skipn (Z.to_nat (j - 1)) s2) ->
    has_best (columns eqc thr cfg rawref s1 n qs j st).
  Proof.
    induction qs as [|c2 t IH]; intros j st Hsd Hsl Hr0 Hdg Hj Hjp Hn Hend Hb Hqs; cbn [columns].
    - apply Hb. assert (Hz : zlen (@nil Z) = 0) by reflexivity. rewrite Hz in Hend. lia.
    - destruct (Z.eq_dec (b_cost (best st)) nb) as [Hnb|Hhas].
      2:{ destruct (stopped (column_step eqc thr cfg rawref s1 n c2 j st)); [apply column_step_keeps; exact Hhas | apply columns_keeps; apply column_step_keeps; exact Hhas]. }
      assert (Hlt : j - 1 < p + m) by (destruct (Z.eq_dec (j - 1) (p + m)) as [E|E]; [specialize (Hb E); contradiction | lia]).
      rewrite zlen_cons in *. pose proof (zlen_nonneg t) as Ht.
      cbn [length firstn] in Hqs.
      destruct (skipn (Z.to_nat (j - 1)) s2) as [|x u] eqn:Esk; [discriminate|].
      injection Hqs as Hc2 Htl. destruct (skipn_cons_nth 0 _ _ _ _ Esk) as (Hx & Hu & Hltn).
      assert (Hc2' : c2 = znth 0 s2 (j - 1)).
      { unfold znth. destruct (j - 1 <? 0) eqn:E; [lia|]. congruence. }
      assert (Hjn : 1 <= j <= n) by (unfold zlen in *; lia).
      destruct (column_step_d eqc thr cfg rawref s1 s2 IND_pos c2 j st Hsd Hjn Hc2') as [Hs Hstop]. cbv zeta in Hs, Hstop.
      pose proof (column_step_L eqc thr cfg rawref s1 s2 IND_pos k_nonneg c2 j st Hsd Hsl Hjn Hc2') as HsL.
      destruct (column_step_copy c2 j st Hsd Hsl Hr0 Hdg Hjn Hc2') as (Hr0' & Hdg' & Hb'). cbv zeta in *.
      destruct (stopped (column_step eqc thr cfg rawref s1 n c2 j st)) eqn:Est.
      + destruct (Hstop eq_refl) as [H0 _]. unfold has_best. rewrite H0. unfold no_best. pose proof (zlen_nonneg s2). lia.
      + specialize (IH (j + 1) (column_step eqc thr cfg rawref s1 n c2 j st)). replace (j + 1 - 1) with j in IH by lia.
        assert (Htl' : t = firstn (length t) (skipn (Z.to_nat j) s2)).
        { rewrite Htl at 1. rewrite Hu. do 2 f_equal. lia. }
        apply IH; auto; lia.
  Qed.

  (** an error-free copy of the whole reference anywhere in the query is never missed *)
  Theorem full_copy_is_found : locate_core eqc thr cfg rawref s1 s2 <> None.
  Proof.
    unfold locate_core. rewrite stop_q, siq.
    set (qsl := firstn _ _).
    set (st0 := mkS _ _ _ _ _ _).
    assert (Hn : 0 <= n) by apply zlen_nonneg.
    assert (Hnz : forall cnt lo t d, (t < cnt)%nat -> nth t (zrange lo cnt) d = lo + Z.of_nat t).
    { induction cnt as [|cn IH]; intros lo t d Ht; [lia|]. destruct t as [|t']; cbn [zrange nth]; [lia|]. rewrite IH by lia. lia. }
    destruct (locate_core_init eqc thr cfg s1 s2 IND_pos k_nonneg) as (Hsd0 & Hsl0).
    fold st0 in Hsd0, Hsl0.
    assert (Hqsl : qsl = firstn (length qsl) (skipn (Z.to_nat (0 + 1 - 1)) s2)).
    { subst qsl. replace (0 + 1 - 1) with 0 by lia. rewrite firstn_length.
      destruct (Nat.le_ge_cases (Z.to_nat (n - 0)) (length (skipn (Z.to_nat 0) s2))) as [Hle|Hge].
      - rewrite Nat.min_l by exact Hle. reflexivity.
      - rewrite Nat.min_r by exact Hge. rewrite !firstn_all2; auto. }
    assert (Hqz : zlen qsl = n).
    { subst qsl. unfold zlen. rewrite firstn_length, skipn_length. lia. }
    assert (Hr0 : row0_ok (0 + 1 - 1) st0).
    { unfold row0_ok. subst st0. cbn [col]. unfold init_column. cbn [zrange map nth]. unfold init_entry. rewrite siq.
      destruct (start_in_ref cfg); f_equal; lia. }
    assert (Hdg0 : diag_ok (0 + 1 - 1) st0).
    { unfold diag_ok. intros Hp0. assert (p = 0) by lia. subst p. replace (0 + 1 - 1 - 0) with 0 by lia. exact Hr0. }
    pose proof (columns_copy qsl (0 + 1) st0 Hsd0 Hsl0 Hr0 Hdg0 ltac:(lia) ltac:(lia) ltac:(lia) ltac:(lia) ltac:(intros; lia) Hqsl) as Hhas.
    set (st := columns eqc thr cfg rawref s1 n qsl (0 + 1) st0) in *.
    rewrite Z.eqb_refl.
    match goal with |- context [last_column thr cfg rawref s1 n ?ov ?cells (best st)] =>
      pose proof (last_column_keeps ov cells (best st) Hhas) as Hf end.
    match goal with |- context [if ?c then None else _] => destruct c eqn:E end; [apply Z.eqb_eq in E; contradiction|].
    match goal with |- context [if ?c then _ else _] => destruct c end; discriminate.
  Qed.
End Copy.

(** ---- Aligner.locate and the regular adapter classes *)
Theorem locate_full_copy thr cfg wq ref query p :
  1 <= indel_cost cfg -> start_in_query cfg = true -> stop_in_query cfg = true ->
  1 <= zlen ref -> min_overlap cfg <= zlen ref ->
  (forall L, 0 <= thr L) -> (forall L, thr L <= thr (zlen ref)) -> thr (zlen ref) <= zlen ref ->
  0 <= p -> p + zlen ref <= zlen query ->
  (forall t, 0 <= t < zlen ref -> loc_eqc cfg wq (znth 0 (loc_s1 cfg wq ref) t) (znth 0 (loc_s2 cfg wq query) (p + t)) = true) ->
  locate thr cfg wq ref query <> None.
Proof.
  intros Hi Hsq Hst Hm Hov Hnn Hb Hkm Hp Hpn Hcopy. unfold locate.
  fold (loc_s1 cfg wq ref). fold (loc_s2 cfg wq query). fold (loc_eqc cfg wq).
  pose proof (loc_s1_len cfg wq ref) as H1. pose proof (loc_s2_len cfg wq query) as H2.
  apply (full_copy_is_found (loc_eqc cfg wq) thr cfg ref (loc_s1 cfg wq ref) (loc_s2 cfg wq query)) with (p := p); rewrite ?H1, ?H2; auto.
Qed.

From CV Require Import Generated.Flags Model.Adapters.

(** regular 5', regular 3' and 'anywhere' adapters, indels enabled: an error-free copy of the whole
    adapter anywhere in the read is always reported as a match *)
Theorem match_to_full_copy thr ad read p :
  match a_type ad with Front | Back | Anywhere => True | _ => False end ->
  1 <= zlen (a_seq ad) -> a_min_overlap ad <= zlen (a_seq ad) ->
  (forall L, 0 <= thr L) -> (forall L, thr L <= thr (zlen (a_seq ad))) -> thr (zlen (a_seq ad)) <= zlen (a_seq ad) ->
  0 <= p -> p + zlen (a_seq ad) <= zlen read ->
  (forall t, 0 <= t < zlen (a_seq ad) ->
     loc_eqc (ad_cfg ad) (a_wq ad) (znth 0 (loc_s1 (ad_cfg ad) (a_wq ad) (a_seq ad)) t)
                                   (znth 0 (loc_s2 (ad_cfg ad) (a_wq ad) (ad_query ad read)) (p + t)) = true) ->
  match_to thr ad read <> None.
Proof.
  intros Hty Hm Hov Hnn Hb Hkm Hp Hpn Hcopy.
  assert (Hloc : locate thr (ad_cfg ad) (a_wq ad) (a_seq ad) (ad_query ad read) <> None).
  { apply locate_full_copy with (p := p); auto.
    - apply ad_indel_cost_pos.
    - unfold ad_cfg, cfg_of, aligner_flags. cbn [start_in_query]. destruct (a_type ad); try contradiction; destruct (a_force_anywhere ad); vm_compute; reflexivity.
    - unfold ad_cfg, cfg_of, aligner_flags. cbn [stop_in_query]. destruct (a_type ad); try contradiction; destruct (a_force_anywhere ad); vm_compute; reflexivity.
    - unfold ad_query. destruct (class_upper_first (a_type ad)); [unfold zlen; rewrite map_length|]; exact Hpn. }
  unfold match_to, raw_locate. fold (ad_cfg ad). unfold ad_query in Hloc.
  destruct (a_type ad); try contradiction; cbn [class_reversed class_upper_first] in *;
    unfold cls_FrontAdapter_reversed, cls_BackAdapter_reversed, cls_AnywhereAdapter_reversed, cls_AnywhereAdapter_upper_first in *.
  - destruct (locate thr (ad_cfg ad) (a_wq ad) (a_seq ad) read) as [[[[[[? ?] ?] ?] ?] ?]|]; [discriminate | contradiction].
  - destruct (locate thr (ad_cfg ad) (a_wq ad) (a_seq ad) read) as [[[[[[? ?] ?] ?] ?] ?]|]; [discriminate | contradiction].
  - destruct (locate thr (ad_cfg ad) (a_wq ad) (a_seq ad) (map (tr upper_table) read)) as [[[[[[? ?] ?] ?] ?] ?]|]; [discriminate | contradiction].
Qed.
