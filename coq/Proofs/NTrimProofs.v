(** --trim-n (NEndTrimmer) removes exactly the maximal runs of N (byte 78) at both ends *)
From Coq Require Import ZArith List Bool Lia ZifyBool.
From CV Require Import Model.Qualtrim.
Import ListNotations.
Open Scope Z_scope.

Definition allN (l : list Z) : Prop := Forall (fun c => c = 78) l.

Lemma drop_n_split s : exists ns, s = ns ++ drop_n s /\ allN ns.
Proof.
  induction s as [|c s IH]; [exists []; split; [reflexivity|constructor]|].
  cbn [drop_n]. destruct (c =? 78) eqn:E.
  - destruct IH as (ns & Hs & Hn). exists (c :: ns). split; [cbn; congruence|]. constructor; [lia|exact Hn].
  - exists []. split; [reflexivity|constructor].
Qed.

Lemma drop_n_head s : match drop_n s with c :: _ => c <> 78 | [] => True end.
Proof.
  induction s as [|c s IH]; [exact I|]. cbn [drop_n]. destruct (c =? 78) eqn:E; [exact IH|lia].
Qed.

Lemma drop_n_nil s : drop_n s = [] <-> allN s.
Proof.
  induction s as [|c s IH]; [split; [constructor|reflexivity]|]. cbn [drop_n].
  destruct (c =? 78) eqn:E.
  - rewrite IH. split; intros H; [constructor; [lia|exact H]|inversion H; assumption].
  - split; [discriminate|]. intros H. inversion H; subst. lia.
Qed.

Lemma drop_n_allN_app ns l : allN ns -> drop_n (ns ++ l) = drop_n l.
Proof.
  induction 1 as [|c ns Hc Hn IH]; [reflexivity|]. cbn [app drop_n]. subst c. cbn. exact IH.
Qed.

Lemma drop_n_app l1 l2 : drop_n l1 <> [] -> drop_n (l1 ++ l2) = drop_n l1 ++ l2.
Proof.
  induction l1 as [|c l1 IH]; [cbn; congruence|]. cbn [app drop_n].
  destruct (c =? 78); [exact IH|reflexivity].
Qed.

Lemma allN_rev l : allN l -> allN (rev l).
Proof. apply Forall_rev. Qed.

Lemma slice_app_exact {A} (a b c : list A) :
  slice (zlen a) (zlen a + zlen b) (a ++ b ++ c) = b.
Proof.
  unfold slice, zlen. replace (Z.of_nat (length a) + Z.of_nat (length b) - Z.of_nat (length a)) with (Z.of_nat (length b)) by lia.
  rewrite !Nat2Z.id. rewrite skipn_app, skipn_all, Nat.sub_diag. cbn [skipn app].
  rewrite firstn_app, firstn_all, Nat.sub_diag. cbn [firstn]. apply app_nil_r.
Qed.

(** the result is the read minus an all-N prefix and an all-N suffix, and it neither
    starts nor ends with N: so the removed runs are the *maximal* ones *)
Theorem trim_n_spec s :
  exists a b, s = a ++ trim_n s ++ b /\ allN a /\ allN b
    /\ (match trim_n s with c :: _ => c <> 78 | [] => True end)
    /\ (match rev (trim_n s) with c :: _ => c <> 78 | [] => True end).
Proof.
  destruct (drop_n_split s) as (a & Hs & Ha).
  destruct (drop_n s) as [|d0 d] eqn:Ed.
  - (* all N *)
    assert (HallN : allN s) by (apply drop_n_nil; exact Ed).
    assert (Ht : trim_n s = []).
    { unfold trim_n, n_start_cut, n_end_cut. rewrite Ed.
      assert (E2 : drop_n (rev s) = []) by (apply drop_n_nil, allN_rev, HallN). rewrite E2.
      unfold slice, zlen. cbn [length]. replace (Z.to_nat (0 - _)) with 0%nat by lia. reflexivity. }
    rewrite Ht. exists s, []. rewrite app_nil_r. repeat split; try assumption; constructor.
  - set (dd := d0 :: d) in *.
    destruct (drop_n_split (rev dd)) as (b' & Hr & Hb').
    assert (Hne : drop_n (rev dd) <> []).
    { intros E. apply drop_n_nil in E. apply allN_rev in E. rewrite rev_involutive in E.
      pose proof (drop_n_head s) as Hh. rewrite Ed in Hh. unfold dd in E. inversion E; subst. congruence. }
    set (e := drop_n (rev dd)) in *.
    assert (Hdd : dd = rev e ++ rev b').
    { rewrite <- (rev_involutive dd), Hr, rev_app_distr. reflexivity. }
    assert (Hrevs : drop_n (rev s) = e ++ rev a).
    { rewrite Hs, rev_app_distr. unfold e. rewrite drop_n_app by exact Hne. reflexivity. }
    assert (A1 : n_start_cut s = zlen a).
    { unfold n_start_cut. rewrite Ed. fold dd. rewrite Hs at 1. unfold zlen. rewrite app_length. lia. }
    assert (A2 : n_end_cut s = zlen a + zlen (rev e)).
    { unfold n_end_cut. rewrite Hrevs. unfold zlen. rewrite !app_length, !rev_length. lia. }
    assert (A3 : s = a ++ rev e ++ rev b') by (rewrite Hs at 1; rewrite Hdd; reflexivity).
    assert (Ht : trim_n s = rev e).
    { unfold trim_n. rewrite A1, A2. rewrite A3 at 1. apply slice_app_exact. }
    exists a, (rev b'). rewrite Ht. split; [exact A3|].
    split; [exact Ha|]. split; [apply allN_rev, Hb'|]. split.
    + (* head of rev e = head of dd = d0 (when e <> []) *)
      destruct (rev e) as [|x xs] eqn:Ee; [exact I|].
      pose proof (drop_n_head s) as Hh. rewrite Ed in Hh. unfold dd in Hdd. cbn [app] in Hdd. congruence.
    + rewrite rev_involutive. exact (drop_n_head (rev dd)).
Qed.

Lemma trim_n_allN s : allN s -> trim_n s = [].
Proof.
  intros H. unfold trim_n, n_start_cut, n_end_cut.
  assert (E1 : drop_n s = []) by (apply drop_n_nil, H).
  assert (E2 : drop_n (rev s) = []) by (apply drop_n_nil, allN_rev, H).
  rewrite E1, E2. unfold slice, zlen. cbn [length]. replace (Z.to_nat (0 - _)) with 0%nat by lia. reflexivity.
Qed.

(** a read that neither starts nor ends with N is left alone; hence trimming is idempotent *)
Lemma trim_n_fix s :
  (match s with c :: _ => c <> 78 | [] => True end) ->
  (match rev s with c :: _ => c <> 78 | [] => True end) -> trim_n s = s.
Proof.
  intros H1 H2. unfold trim_n, n_start_cut, n_end_cut.
  assert (E1 : drop_n s = s). { destruct s as [|c s]; [reflexivity|]. cbn [drop_n]. destruct (c =? 78) eqn:E; [lia|reflexivity]. }
  assert (E2 : drop_n (rev s) = rev s). { destruct (rev s) as [|c r]; [reflexivity|]. cbn [drop_n]. destruct (c =? 78) eqn:E; [lia|reflexivity]. }
  rewrite E1, E2. unfold slice, zlen. rewrite rev_length, Z.sub_diag, Z.sub_0_r, Nat2Z.id. cbn [Z.to_nat skipn].
  apply firstn_all.
Qed.

Theorem trim_n_idem s : trim_n (trim_n s) = trim_n s.
Proof.
  destruct (trim_n_spec s) as (a & b & _ & _ & _ & H1 & H2). apply trim_n_fix; assumption.
Qed.

(** N count used by --max-n: upper and lower case *)
Lemma n_count_spec s : n_count s = zlen (filter (fun c => (c =? 78) || (c =? 110)) s).
Proof. reflexivity. Qed.

Lemma n_count_cons c s : n_count (c :: s) = (if (c =? 78) || (c =? 110) then 1 else 0) + n_count s.
Proof. unfold n_count, zlen. cbn [filter]. destruct ((c =? 78) || (c =? 110)); cbn [length]; lia. Qed.
