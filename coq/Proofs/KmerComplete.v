(** C07, matches that cover the whole adapter: an alignment of the whole adapter with at most k
    errors leaves one of the k+1 chunks of the adapter untouched (pigeonhole over the edit script),
    so that chunk occurs verbatim in the read and the k-mer prefilter cannot reject the read. *)
From Coq Require Import ZArith List Bool Lia.
From CV Require Import Generated.Tables Generated.Scores Generated.Flags Model.Base Model.Align Model.Adapters Model.Kmer
  Proofs.AlignProofs Proofs.AdapterProofs Proofs.AlignDist Proofs.KmerProofs.
Import ListNotations.
Open Scope Z_scope.

Section Split.
  Variable eqc : Z -> Z -> bool.
  Variable IND : Z.
  Hypothesis IND_pos : 1 <= IND.
  Notation ed := (ed eqc IND).

  Lemma snoc_app_cases {A} (a a1 a2 : list A) x : a ++ [x] = a1 ++ a2 ->
    (a2 = [] /\ a1 = a ++ [x]) \/ (exists a2', a2 = a2' ++ [x] /\ a = a1 ++ a2').
  Proof.
    intros H. destruct a2 as [|z a2t] using rev_ind.
    - left. rewrite app_nil_r in H. split; [reflexivity | symmetry; exact H].
    - right. clear IHa2t. rewrite app_assoc in H. apply app_inj_tail in H. destruct H as [H1 H2]. subst z. exists a2t. split; [reflexivity | exact H1].
  Qed.

  (** an alignment of a1 ++ a2 splits into an alignment of a1 and one of a2 *)
  Lemma ed_split A b c : ed A b c -> forall a1 a2, A = a1 ++ a2 ->
    exists b1 b2 c1 c2, b = b1 ++ b2 /\ ed a1 b1 c1 /\ ed a2 b2 c2 /\ c1 + c2 <= c.
  Proof.
    induction 1 as [|a b c x y He H IH|a b c x y H IH|a b c x H IH|a b c y H IH|a b c c' H IH Hle]; intros a1 a2 HA.
    - symmetry in HA. apply app_eq_nil in HA. destruct HA as [-> ->]. exists [], [], 0, 0. repeat split; try constructor; lia.
    - destruct (snoc_app_cases a a1 a2 x HA) as [[-> ->]|(a2' & -> & ->)].
      + exists (b ++ [y]), [], c, 0. rewrite app_nil_r. repeat split; [apply ed_match; assumption | constructor | lia].
      + destruct (IH a1 a2' eq_refl) as (b1 & b2 & c1 & c2 & -> & E1 & E2 & Hc).
        exists b1, (b2 ++ [y]), c1, c2. rewrite app_assoc. repeat split; [exact E1 | apply ed_match; assumption | exact Hc].
    - destruct (snoc_app_cases a a1 a2 x HA) as [[-> ->]|(a2' & -> & ->)].
      + exists (b ++ [y]), [], (c + 1), 0. rewrite app_nil_r. repeat split; [apply ed_sub; assumption | constructor | lia].
      + destruct (IH a1 a2' eq_refl) as (b1 & b2 & c1 & c2 & -> & E1 & E2 & Hc).
        exists b1, (b2 ++ [y]), c1, (c2 + 1). rewrite app_assoc. repeat split; [exact E1 | apply ed_sub; assumption | lia].
    - destruct (snoc_app_cases a a1 a2 x HA) as [[-> ->]|(a2' & -> & ->)].
      + exists b, [], (c + IND), 0. rewrite app_nil_r. repeat split; [apply ed_del; assumption | constructor | lia].
      + destruct (IH a1 a2' eq_refl) as (b1 & b2 & c1 & c2 & -> & E1 & E2 & Hc).
        exists b1, b2, c1, (c2 + IND). repeat split; [exact E1 | apply ed_del; assumption | lia].
    - destruct (IH a1 a2 HA) as (b1 & b2 & c1 & c2 & -> & E1 & E2 & Hc).
      exists b1, (b2 ++ [y]), c1, (c2 + IND). rewrite app_assoc. repeat split; [exact E1 | apply ed_ins; assumption | lia].
    - destruct (IH a1 a2 HA) as (b1 & b2 & c1 & c2 & -> & E1 & E2 & Hc).
      exists b1, b2, c1, c2. repeat split; auto. lia.
  Qed.

  (** an alignment at cost 0 is a character-by-character match *)
  Lemma ed_zero a b c : ed a b c -> c <= 0 -> Forall2 (fun x y => eqc x y = true) a b.
  Proof.
    induction 1 as [|a b c x y He H IH|a b c x y H IH|a b c x H IH|a b c y H IH|a b c c' H IH Hle]; intros Hc.
    - constructor.
    - apply Forall2_app; [apply IH; exact Hc | constructor; [exact He | constructor]].
    - pose proof (ed_nonneg eqc IND IND_pos _ _ _ H). lia.
    - pose proof (ed_nonneg eqc IND IND_pos _ _ _ H). lia.
    - pose proof (ed_nonneg eqc IND IND_pos _ _ _ H). lia.
    - apply IH. lia.
  Qed.

  (** pigeonhole: fewer errors than chunks leaves one chunk untouched *)
  Lemma ed_pigeon : forall chunks b c, ed (concat chunks) b c -> c < Z.of_nat (length chunks) ->
    exists ch pre bi post, In ch chunks /\ b = pre ++ bi ++ post /\ Forall2 (fun x y => eqc x y = true) ch bi.
  Proof.
    induction chunks as [|ch rest IH]; intros b c H Hc.
    - pose proof (ed_nonneg eqc IND IND_pos _ _ _ H). cbn in Hc. lia.
    - cbn [concat] in H. destruct (ed_split _ _ _ H ch (concat rest) eq_refl) as (b1 & b2 & c1 & c2 & -> & E1 & E2 & Hs).
      destruct (Z_le_gt_dec c1 0) as [Hz|Hp].
      + exists ch, [], b1, b2. split; [left; reflexivity|]. split; [reflexivity|]. eapply ed_zero; eauto.
      + destruct (IH b2 c2 E2) as (ch' & pre & bi & post & Hin & -> & Hf); [cbn [length] in Hc; lia|].
        exists ch', (b1 ++ pre), bi, post. split; [right; exact Hin|]. split; [rewrite <- app_assoc; reflexivity | exact Hf].
  Qed.
End Split.

(** ---- the search table keeps every chunk of the whole adapter with the window "anywhere" *)
Lemma str_eqb_refl k : str_eqb k k = true.
Proof. induction k as [|x t IH]; [reflexivity|]. cbn. rewrite Z.eqb_refl, IH. reflexivity. Qed.

Lemma str_eqb_eq : forall a b, str_eqb a b = true -> a = b.
Proof.
  induction a as [|x a IH]; intros [|y b] H; cbn in H; try discriminate; [reflexivity|].
  apply andb_prop in H. destruct H as [H1 H2]. apply Z.eqb_eq in H1. subst y. f_equal. apply IH. exact H2.
Qed.

Lemma distinct_has k a b : forall l seen, In (k, a, b) l -> existsb (str_eqb k) seen = false -> In k (distinct_kmers l seen).
Proof.
  induction l as [|[[k' a'] b'] t IH]; intros seen Hin Hs; [contradiction|]. cbn [distinct_kmers].
  destruct Hin as [Heq|Hin].
  - inversion Heq; subst. rewrite Hs. left. reflexivity.
  - destruct (existsb (str_eqb k') seen) eqn:E; [apply IH; assumption|].
    destruct (str_eqb k k') eqn:Ek.
    + apply str_eqb_eq in Ek. subst k'. left. reflexivity.
    + right. apply IH; [exact Hin|]. cbn [existsb]. rewrite Ek, Hs. reflexivity.
Qed.

Lemma minimize_keeps_anywhere k l : In (k, 0, None) l -> In (k, 0, None) (minimize l).
Proof.
  intros Hin. unfold minimize. apply in_flat_map. exists k. split; [apply (distinct_has k 0 None l [] Hin); reflexivity|].
  assert (Hp : In (0, None) (positions_of k l)).
  { unfold positions_of. apply in_map_iff. exists (k, 0, None). split; [reflexivity|]. apply filter_In. split; [exact Hin | apply str_eqb_refl]. }
  unfold minimize_one. destruct (positions_of k l) as [|p [|p2 rest]] eqn:E.
  - contradiction.
  - destruct Hp as [Hp|[]]. subst p. left. reflexivity.
  - assert (He : existsb (pos_eqb (0, None)) (p :: p2 :: rest) = true).
    { apply existsb_exists. exists (0, None). split; [exact Hp | reflexivity]. }
    rewrite He. left. reflexivity.
Qed.

Lemma table_has_internal_chunks thr adapter min_overlap back front indels ch :
  In ch (kmer_chunks adapter (Z.to_nat (thr (zlen adapter) + 1))) ->
  In (ch, 0, None) (positions_and_kmers thr adapter min_overlap back front true indels).
Proof.
  intros Hin. unfold positions_and_kmers. apply minimize_keeps_anywhere. unfold flatten_sets. apply in_flat_map.
  exists (0, None, kmer_chunks adapter (Z.to_nat (thr (zlen adapter) + 1))). split.
  - unfold raw_search_sets. apply in_or_app. right. apply in_or_app. right. left. reflexivity.
  - apply in_map_iff. exists ch. split; [reflexivity | exact Hin].
Qed.

(** ---- occurrence of a k-mer in the read *)
Lemma prefix_match_app km : forall k bi post, Forall2 (fun x y => km x y = true) k bi -> prefix_match km k (bi ++ post) = true.
Proof.
  induction k as [|c k IH]; intros bi post H; [reflexivity|]. inversion H; subst. cbn [app prefix_match]. rewrite H2. cbn. apply IH. exact H4.
Qed.

Lemma occurs_skip km k : forall pre s, occurs km k s = true -> occurs km k (pre ++ s) = true.
Proof.
  induction pre as [|x pre IH]; intros s H; [exact H|]. cbn [app occurs]. rewrite (IH s H). apply orb_true_r.
Qed.

Lemma occurs_segment km k pre bi post : Forall2 (fun x y => km x y = true) k bi -> occurs km k (pre ++ bi ++ post) = true.
Proof.
  intros H. apply occurs_skip. destruct (bi ++ post) eqn:E; cbn [occurs]; rewrite <- ?E, (prefix_match_app km k bi post H); reflexivity.
Qed.

Lemma entry_present_anywhere wref wq seq k :
  k <> [] -> occurs (kmer_char_match wref wq) k seq = true -> seq <> [] -> entry_present wref wq seq (k, 0, None) = true.
Proof.
  intros Hk Ho Hs. unfold entry_present. destruct k as [|c k']; [contradiction|].
  unfold window. cbn [Z.ltb Z.compare Z.leb andb].
  assert (Hn : 0 < zlen seq) by (destruct seq; [contradiction | unfold zlen; cbn; lia]).
  assert (E1 : (zlen seq <? 0) = false) by (apply Z.ltb_ge; lia). rewrite E1. cbn [andb Z.eqb].
  assert (E2 : (zlen seq - 0 <=? 0) = false) by (apply Z.leb_gt; lia). rewrite E2.
  replace (Z.to_nat (zlen seq - 0)) with (length seq) by (unfold zlen; lia). cbn [Z.to_nat skipn]. rewrite firstn_all. exact Ho.
Qed.

(** ---- the aligner's character comparison implies the k-mer finder's, for ASCII characters
    (checked by computation over all pairs of characters 1..127 and all flag combinations) *)
Definition f1 (wref wq : bool) (c : Z) : Z := if wref then tr iupac_table c else if wq then tr acgt_table c else c.
Definition f2 (wref wq : bool) (q : Z) : Z := if wq then tr iupac_table q else if wref then tr acgt_table q else tr upper_table q.
Definition eqcF (wref wq : bool) : Z -> Z -> bool := if wq || wref then eq_and else eq_ascii.

Definition codes : list Z := zrange 1 127.
Definition char_ok (wref wq up : bool) (c q : Z) : bool :=
  implb (eqcF wref wq (f1 wref wq c) (f2 wref wq (if up then tr upper_table q else q))) (kmer_char_match wref wq c q).
Definition all_ok : bool :=
  forallb (fun wref => forallb (fun wq => forallb (fun up => forallb (fun c => forallb (fun q => char_ok wref wq up c q) codes) codes)
    [true; false]) [true; false]) [true; false].

Lemma all_ok_true : all_ok = true.
Proof. vm_compute. reflexivity. Qed.

Lemma in_zrange : forall cnt lo x, lo <= x < lo + Z.of_nat cnt -> In x (zrange lo cnt).
Proof.
  induction cnt as [|cnt IH]; intros lo x H; [lia|]. cbn [zrange]. destruct (Z.eq_dec x lo) as [->|Hne]; [left; reflexivity|].
  right. apply IH. lia.
Qed.

Lemma char_compat wref wq (up : bool) c q : 0 < c < 128 -> 0 < q < 128 ->
  eqcF wref wq (f1 wref wq c) (f2 wref wq (if up then tr upper_table q else q)) = true -> kmer_char_match wref wq c q = true.
Proof.
  intros Hc Hq He. pose proof all_ok_true as H. unfold all_ok in H.
  assert (Hb : forall b : bool, In b [true; false]) by (intros []; cbn; auto).
  rewrite forallb_forall in H. specialize (H wref (Hb wref)).
  rewrite forallb_forall in H. specialize (H wq (Hb wq)).
  rewrite forallb_forall in H. specialize (H up (Hb up)).
  rewrite forallb_forall in H. specialize (H c ltac:(apply in_zrange; lia)).
  rewrite forallb_forall in H. specialize (H q ltac:(apply in_zrange; lia)).
  unfold char_ok in H. rewrite He in H. exact H.
Qed.

(** chunks commute with a character translation *)
Lemma take_chunks_map (f : Z -> Z) : forall sizes s, take_chunks sizes (map f s) = map (map f) (take_chunks sizes s).
Proof.
  induction sizes as [|n t IH]; intros s; [reflexivity|]. cbn [take_chunks map]. rewrite firstn_map, skipn_map, IH. reflexivity.
Qed.

Lemma kmer_chunks_map (f : Z -> Z) s c : kmer_chunks (map f s) c = map (map f) (kmer_chunks s c).
Proof. unfold kmer_chunks. rewrite map_length. apply take_chunks_map. Qed.

Lemma Forall2_map_both {A B C D} (P : C -> D -> Prop) (f : A -> C) (g : B -> D) : forall la lb,
  Forall2 P (map f la) (map g lb) -> Forall2 (fun x y => P (f x) (g y)) la lb.
Proof.
  induction la as [|a la IH]; intros [|b lb] H; inversion H; subst; constructor; auto.
Qed.

Lemma Forall2_impl_in {A B} (P Q : A -> B -> Prop) : forall la lb, Forall2 P la lb ->
  (forall x y, In x la -> In y lb -> P x y -> Q x y) -> Forall2 Q la lb.
Proof.
  induction 1 as [|x y la lb Hxy H IH]; intros Himp; constructor.
  - apply Himp; [left; reflexivity | left; reflexivity | exact Hxy].
  - apply IH. intros a b Ha Hb. apply Himp; right; assumption.
Qed.

(** every chunk is non-empty when there are no more chunks than characters *)
Lemma take_chunks_lengths : forall sizes (s : str), (fold_right Nat.add 0 sizes <= length s)%nat ->
  map (@length Z) (take_chunks sizes s) = sizes.
Proof.
  induction sizes as [|k t IH]; intros s H; [reflexivity|]. cbn [take_chunks map fold_right] in *.
  rewrite firstn_length_le by lia. f_equal. apply IH. rewrite skipn_length. lia.
Qed.

Lemma kmer_chunks_nonempty (s : str) (chunks : nat) ch : (0 < chunks <= length s)%nat -> In ch (kmer_chunks s chunks) -> ch <> [].
Proof.
  intros Hc Hin. unfold kmer_chunks in Hin.
  pose proof (Nat.div_mod (length s) chunks ltac:(lia)) as Hdm.
  pose proof (Nat.mod_upper_bound (length s) chunks ltac:(lia)) as Hub.
  assert (Hq : (1 <= Nat.div (length s) chunks)%nat) by (apply Nat.div_le_lower_bound; lia).
  set (q := Nat.div (length s) chunks) in *. set (r := Nat.modulo (length s) chunks) in *.
  set (sizes := repeat (S q) r ++ repeat q (chunks - r)) in *.
  assert (Hsum : (fold_right Nat.add 0 sizes <= length s)%nat) by (subst sizes; rewrite sum_app, !sum_repeat; nia).
  pose proof (take_chunks_lengths sizes s Hsum) as Hl.
  assert (Hlen : In (length ch) sizes) by (rewrite <- Hl; apply in_map; exact Hin).
  subst sizes. apply in_app_or in Hlen. destruct Hlen as [Hr|Hr]; apply repeat_spec in Hr; intros ->; cbn in Hr; lia.
Qed.

Lemma in_concat_chunk (s : str) (chunks : nat) ch x : (0 < chunks)%nat -> In ch (kmer_chunks s chunks) -> In x ch -> In x s.
Proof.
  intros Hc Hin Hx. rewrite <- (kmer_chunks_partition s chunks Hc). apply in_concat. exists ch. split; assumption.
Qed.

Definition ascii (s : str) : Prop := Forall (fun c => 0 < c < 128) s.

(** the core: an alignment of the whole (translated) adapter against a segment of the (translated)
    read with at most k errors leaves one of the k+1 chunks of the adapter as a verbatim k-mer hit *)
Lemma whole_adapter_chunk_found wref wq (up : bool) IND (a q : str) P B S e k :
  1 <= IND -> ascii a -> ascii q -> 0 <= k < zlen a -> e <= k ->
  ed (eqcF wref wq) IND (map (f1 wref wq) a) B e ->
  map (f2 wref wq) (if up then map (tr upper_table) q else q) = P ++ B ++ S ->
  exists ch, In ch (kmer_chunks a (Z.to_nat (k + 1))) /\ ch <> [] /\ q <> [] /\ occurs (kmer_char_match wref wq) ch q = true.
Proof.
  intros Hi Ha Hq Hk He Hed Hmap. set (n := Z.to_nat (k + 1)).
  assert (Hn : (0 < n <= length a)%nat) by (subst n; unfold zlen in Hk; lia).
  rewrite <- (kmer_chunks_partition (map (f1 wref wq) a) n ltac:(lia)) in Hed. rewrite kmer_chunks_map in Hed.
  destruct (ed_pigeon (eqcF wref wq) IND Hi _ _ _ Hed) as (ch' & pre & bi & post & Hin & -> & Hf).
  { rewrite map_length, kmer_chunks_count by lia. subst n. lia. }
  apply in_map_iff in Hin. destruct Hin as (ch & <- & Hin).
  exists ch. split; [exact Hin|]. pose proof (kmer_chunks_nonempty a n ch Hn Hin) as Hne. split; [exact Hne|].
  set (u := fun x : Z => if up then tr upper_table x else x).
  assert (Hq' : (if up then map (tr upper_table) q else q) = map u q).
  { subst u. destruct up; [reflexivity | symmetry; apply map_id]. }
  rewrite Hq', map_map in Hmap.
  replace (P ++ (pre ++ bi ++ post) ++ S) with ((P ++ pre) ++ bi ++ (post ++ S)) in Hmap by (rewrite <- !app_assoc; reflexivity).
  apply map_eq_app in Hmap. destruct Hmap as (lx & rest & -> & Hlx & Hrest).
  apply map_eq_app in Hrest. destruct Hrest as (ly & lz & -> & Hly & Hlz). subst bi.
  apply Forall2_map_both in Hf.
  assert (Hf' : Forall2 (fun x y => kmer_char_match wref wq x y = true) ch ly).
  { eapply Forall2_impl_in; [exact Hf|]. intros x y Hx Hy Hxy. cbv beta in Hxy. subst u. cbv beta in Hxy.
    apply (char_compat wref wq up); [| |exact Hxy].
    - unfold ascii in Ha. rewrite Forall_forall in Ha. apply Ha. eapply in_concat_chunk; [|exact Hin|exact Hx]. lia.
    - unfold ascii in Hq. rewrite Forall_forall in Hq. apply Hq. apply in_or_app. right. apply in_or_app. left. exact Hy. }
  split.
  - destruct ch as [|c0 ch0]; [contradiction|]. inversion Hf'; subst. destruct lx; discriminate.
  - apply occurs_segment. exact Hf'.
Qed.

Lemma finder_present_chunk thr ad s q back front ch f :
  In ch (kmer_chunks s (Z.to_nat (thr (zlen s) + 1))) -> ch <> [] -> q <> [] ->
  occurs (kmer_char_match (a_wref ad) (a_wq ad)) ch q = true ->
  make_finder thr ad s back front true = Some f -> finder_present (a_wref ad) (a_wq ad) f q = true.
Proof.
  intros Hin Hne Hq Ho Hf. unfold make_finder in Hf. injection Hf as <-.
  assert (Hk : kmers_present (a_wref ad) (a_wq ad) (positions_and_kmers thr s (a_min_overlap ad) back front true (a_indels ad)) q = true).
  { unfold kmers_present. apply existsb_exists. exists (ch, 0, None). split.
    - apply table_has_internal_chunks. exact Hin.
    - apply entry_present_anywhere; assumption. }
  unfold finder_present. cbn [f_min_length f_table]. destruct (back && front); [rewrite Hk; apply orb_true_r | exact Hk].
Qed.

Lemma loc_s1_f1 cfg wq l : loc_s1 cfg wq l = map (f1 (wildcard_ref cfg) wq) l.
Proof. unfold loc_s1, f1. destruct (wildcard_ref cfg); [reflexivity|]. destruct wq; [reflexivity | symmetry; apply map_id]. Qed.
Lemma loc_s2_f2 cfg wq l : loc_s2 cfg wq l = map (f2 (wildcard_ref cfg) wq) l.
Proof. unfold loc_s2, f2. destruct wq; [reflexivity|]. destruct (wildcard_ref cfg); reflexivity. Qed.

Lemma ascii_rev s : ascii s -> ascii (rev s).
Proof. unfold ascii. rewrite !Forall_forall. intros H x Hx. apply H. apply in_rev. exact Hx. Qed.

(** C07, whole-adapter matches: for the four adapter classes whose k-mer table contains the
    "anywhere" chunks (Front, RightmostFront, Back, Anywhere), whenever the aligner reports a match
    that covers the whole adapter, the prefilter lets the read through. *)
Theorem whole_adapter_never_prefiltered thr ad read mt :
  (a_type ad = Front \/ a_type ad = RightmostFront \/ a_type ad = Back \/ a_type ad = Anywhere) ->
  wf_adapter ad -> ascii (a_seq ad) -> ascii read ->
  0 <= thr (zlen (a_seq ad)) < zlen (a_seq ad) -> (forall L, thr L <= thr (zlen (a_seq ad))) ->
  match_to thr ad read = Some mt -> astart mt = 0 -> astop mt = zlen (a_seq ad) ->
  prefilter_passes thr ad read = true.
Proof.
  intros Ht Hwf Ha Hr Hk Hb Hm H0 H1.
  assert (Hcmp : uses_comparer ad = false) by (unfold uses_comparer; destruct Ht as [E|[E|[E|E]]]; rewrite E; reflexivity).
  pose proof (match_to_dist thr ad read mt Hcmp (proj1 Hk) Hb Hm) as Hd.
  pose proof (match_to_structure thr ad read mt Hwf (proj1 Hk) Hm) as Hs. unfold match_ok in Hs. cbv zeta in Hs.
  destruct Hs as (_ & _ & Hr0 & Hr1 & _ & _ & He & _).
  assert (He' : merrors mt <= thr (zlen (a_seq ad))) by (etransitivity; [exact He | apply Hb]).
  rewrite H0, H1 in Hd.
  replace (zlen (a_seq ad)) with (zlen (loc_s1 (ad_cfg ad) (a_wq ad) (a_seq ad))) in Hd at 1 by apply loc_s1_len.
  rewrite zslice_full in Hd.
  assert (Hic : 1 <= indel_cost (ad_cfg ad)).
  { unfold ad_cfg, cfg_of. cbn [indel_cost]. destruct (a_indels ad); unfold INDEL_COST_ON, INDEL_COST_OFF; lia. }
  assert (Hwr : wildcard_ref (ad_cfg ad) = a_wref ad) by reflexivity.
  set (Q := loc_s2 (ad_cfg ad) (a_wq ad) (ad_query ad read)) in *.
  pose proof (zslice_split3 Q (rstart mt) (rstop mt) Hr0 ltac:(subst Q; rewrite loc_s2_len; unfold ad_query; destruct (class_upper_first (a_type ad)); rewrite ?zlen_map; exact Hr1)) as Hsplit.
  set (P := firstn (Z.to_nat (rstart mt)) Q) in *. set (B := zslice Q (rstart mt) (rstop mt)) in *. set (S := skipn (Z.to_nat (rstop mt)) Q) in *.
  subst Q. rewrite loc_s1_f1 in Hd. rewrite loc_s2_f2 in Hsplit. rewrite Hwr in *. unfold ad_query in Hsplit.
  change (loc_eqc (ad_cfg ad) (a_wq ad)) with (eqcF (a_wref ad) (a_wq ad)) in Hd.
  unfold prefilter_passes, finder_of, finder_query.
  destruct Ht as [E|[E|[E|E]]]; rewrite E in *; cbn [class_upper_first] in Hsplit; unfold make_finder; cbv beta iota.
  - destruct (whole_adapter_chunk_found _ _ false _ _ _ _ _ _ _ _ Hic Ha Hr Hk He' Hd Hsplit) as (ch & Hin & Hne & Hq & Ho).
    eapply finder_present_chunk; [exact Hin|exact Hne|exact Hq|exact Ho|unfold make_finder; reflexivity].
  - apply ed_rev in Hd. rewrite <- map_rev in Hd.
    assert (Hsplit' : map (f2 (a_wref ad) (a_wq ad)) (rev read) = rev S ++ rev B ++ rev P).
    { rewrite map_rev, Hsplit, !rev_app_distr, <- app_assoc. reflexivity. }
    assert (Hk' : 0 <= thr (zlen (a_seq ad)) < zlen (rev (a_seq ad))) by (rewrite zlen_rev; exact Hk).
    destruct (whole_adapter_chunk_found _ _ false _ _ _ _ _ _ _ _ Hic (ascii_rev _ Ha) (ascii_rev _ Hr) Hk' He' Hd Hsplit') as (ch & Hin & Hne & Hq & Ho).
    eapply finder_present_chunk; [|exact Hne|exact Hq|exact Ho|unfold make_finder; reflexivity]. rewrite zlen_rev. exact Hin.
  - destruct (whole_adapter_chunk_found _ _ false _ _ _ _ _ _ _ _ Hic Ha Hr Hk He' Hd Hsplit) as (ch & Hin & Hne & Hq & Ho).
    eapply finder_present_chunk; [exact Hin|exact Hne|exact Hq|exact Ho|unfold make_finder; reflexivity].
  - destruct (whole_adapter_chunk_found _ _ cls_AnywhereAdapter_upper_first _ _ _ _ _ _ _ _ Hic Ha Hr Hk He' Hd Hsplit) as (ch & Hin & Hne & Hq & Ho).
    eapply finder_present_chunk; [exact Hin|exact Hne|exact Hq|exact Ho|unfold make_finder; reflexivity].
Qed.
