(** C07, matches that cover only a prefix or a suffix of the adapter: the overlap search sets of
    kmer_heuristic.py are complete.  Part A: what error_lengths computes; part B: for every prefix
    length a of the adapter the back-overlap sets contain a set whose k-mers are the E+1 chunks of
    a prefix no longer than a, with E >= thr a and a window of at least a (+ E with indels)
    characters at the end of the read. *)
From Coq Require Import ZArith List Bool Lia.
From CV Require Import Generated.Tables Generated.Scores Generated.Flags Model.Base Model.Align Model.Adapters Model.Kmer
  Proofs.AlignProofs Proofs.AdapterProofs Proofs.AlignDist Proofs.AlignOpt Proofs.KmerProofs Proofs.KmerComplete.
Import ListNotations.
Open Scope Z_scope.

Section Thr.
  Variable thr : Z -> Z.
  Hypothesis thr0 : thr 0 = 0.
  Hypothesis thr_step : forall i, 0 <= i -> thr i <= thr (i + 1) <= thr i + 1.
  Hypothesis thr_lt : forall i, 1 <= i -> thr i < i.

  Lemma thr_mono : forall i j, 0 <= i <= j -> thr i <= thr j.
  Proof.
    intros i j [Hi Hij]. replace j with (i + Z.of_nat (Z.to_nat (j - i))) by lia.
    induction (Z.to_nat (j - i)) as [|d IH]; [rewrite Z.add_0_r; lia|].
    replace (i + Z.of_nat (S d)) with (i + Z.of_nat d + 1) by lia. pose proof (thr_step (i + Z.of_nat d) ltac:(lia)). lia.
  Qed.

  Lemma thr_nonneg' i : 0 <= i -> 0 <= thr i.
  Proof. intros H. pose proof (thr_mono 0 i ltac:(lia)). lia. Qed.

  (** entries (E, len) in ascending order: the lengths in (prev, len] are exactly those with thr = E *)
  Fixpoint ELs (prev : Z) (els : list (Z * Z)) : Prop :=
    match els with
    | [] => True
    | (E, len) :: t => prev < len /\ (forall i, prev < i <= len -> thr i = E) /\ ELs len t
    end.

  (** the walk of error_lengths: i, ..., i + cnt - 1 still to do, current range [s, i) has thr = me *)
  Lemma error_lengths_aux_spec : forall cnt i s me acc,
    0 <= s -> s <= i -> (s < i \/ (i = 0 /\ me = 0)) -> (forall j, s <= j < i -> thr j = me) -> (i = 0 \/ thr (i - 1) = me) ->
    let '(acc', me') := error_lengths_aux thr (zrange i cnt) me acc in
    exists Lst, acc' = acc ++ Lst /\ ELs (s - 1) (Lst ++ [(me', i + Z.of_nat cnt - 1)]) \/
                (cnt = 0%nat /\ s = i /\ acc' = acc /\ me' = me).
  Proof.
    induction cnt as [|cnt IH]; intros i s me acc Hs Hsi Hne Hrange Hprev; cbn [zrange error_lengths_aux].
    - exists []. destruct (Z.eq_dec s i) as [E|E].
      + right. auto.
      + left. split; [rewrite app_nil_r; reflexivity|]. cbn [app ELs]. split; [lia|]. split; [|exact I].
        intros j Hj. apply Hrange. lia.
    - destruct (me <? thr i) eqn:Elt.
      + (* a new error is allowed from length i on: close the range [s, i) *)
        apply Z.ltb_lt in Elt.
        assert (Hi0 : i <> 0) by (intros ->; rewrite thr0 in Elt; destruct Hne as [?|[_ ->]]; lia).
        assert (Hme : thr (i - 1) = me) by (destruct Hprev; [contradiction | assumption]).
        pose proof (thr_step (i - 1) ltac:(lia)) as Hst. replace (i - 1 + 1) with i in Hst by lia.
        assert (Hthr : thr i = me + 1) by lia.
        specialize (IH (i + 1) i (me + 1) (acc ++ [(me, i - 1)]) ltac:(lia) ltac:(lia) ltac:(left; lia)).
        specialize (IH ltac:(intros j Hj; assert (j = i) by lia; subst j; exact Hthr) ltac:(right; replace (i + 1 - 1) with i by lia; exact Hthr)).
        destruct (error_lengths_aux thr (zrange (i + 1) cnt) (me + 1) (acc ++ [(me, i - 1)])) as [acc' me'].
        destruct IH as (Lst & [[Hacc HE]|(Hc & Hsi' & _)]); [|lia].
        exists ((me, i - 1) :: Lst). left. split; [rewrite Hacc, <- app_assoc; reflexivity|].
        cbn [app ELs]. split; [destruct Hne as [?|[? _]]; lia|]. split; [intros j Hj; apply Hrange; lia|].
        replace (i - 1) with (i - 1) by lia. replace (i + 1 + Z.of_nat cnt - 1) with (i + Z.of_nat (S cnt) - 1) in HE by lia.
        replace (i - 1) with (i - 1) in HE by lia. exact HE.
      + apply Z.ltb_ge in Elt.
        assert (Hthr : thr i = me).
        { destruct (Z.eq_dec i 0) as [Hi0|Hi0].
          - subst i. destruct Hne as [?|[_ ->]]; [lia | rewrite thr0; reflexivity].
          - destruct Hprev as [?|Hp]; [contradiction|].
            pose proof (thr_step (i - 1) ltac:(lia)) as Hst. replace (i - 1 + 1) with i in Hst by lia. lia. }
        specialize (IH (i + 1) s me acc Hs ltac:(lia) ltac:(left; lia)).
        specialize (IH ltac:(intros j Hj; destruct (Z.eq_dec j i) as [->|?]; [exact Hthr | apply Hrange; lia]) ltac:(right; replace (i + 1 - 1) with i by lia; exact Hthr)).
        destruct (error_lengths_aux thr (zrange (i + 1) cnt) me acc) as [acc' me'].
        destruct IH as (Lst & [[Hacc HE]|(Hc & Hsi' & _)]); [|lia].
        exists Lst. left. split; [exact Hacc|]. replace (i + Z.of_nat (S cnt) - 1) with (i + 1 + Z.of_nat cnt - 1) by lia. exact HE.
  Qed.

  Lemma error_lengths_ELs m : 0 <= m -> ELs (-1) (error_lengths thr m).
  Proof.
    intros Hm. unfold error_lengths.
    pose proof (error_lengths_aux_spec (S (Z.to_nat m)) 0 0 0 [] ltac:(lia) ltac:(lia) ltac:(right; auto) ltac:(intros; lia) ltac:(left; reflexivity)) as H.
    destruct (error_lengths_aux thr (zrange 0 (S (Z.to_nat m))) 0 []) as [acc me].
    destruct H as (Lst & [[Hacc HE]|(Hc & _)]); [|discriminate].
    cbn [app] in Hacc. subst acc. replace (0 + Z.of_nat (S (Z.to_nat m)) - 1) with m in HE by lia. exact HE.
  Qed.

  Lemma ELs_last_len prev : forall els E len, ELs prev (els ++ [(E, len)]) -> forall E' len', In (E', len') (els ++ [(E, len)]) -> len' <= len.
  Proof.
    intros els. revert prev. induction els as [|[E0 l0] t IH]; intros prev E len H E' len' Hin; cbn [app] in *.
    - destruct Hin as [Heq|[]]. injection Heq as _ <-. lia.
    - destruct H as (H1 & H2 & H3). destruct Hin as [Heq|Hin].
      + injection Heq as _ <-. clear IH. revert H3. generalize l0. induction t as [|[E1 l1] t IHt]; intros l H3; cbn [app ELs] in H3.
        * lia.
        * destruct H3 as (G1 & _ & G3). specialize (IHt l1 G3). lia.
      + eapply IH; eauto.
  Qed.

  Lemma kmer_chunks_one (s : str) : kmer_chunks s 1 = [s].
  Proof.
    unfold kmer_chunks. rewrite Nat.div_1_r, Nat.mod_1_r. cbn [repeat app Nat.sub take_chunks]. rewrite firstn_all. reflexivity.
  Qed.

  (** part B: every prefix length a >= min_overlap has a back-overlap set *)
  Definition covered (indels : bool) (adapter : str) (a : Z) (sets : list searchset) : Prop :=
    exists start E ml, In (start, None, kmer_chunks (firstn (Z.to_nat ml) adapter) (Z.to_nat (E + 1))) sets
      /\ thr a <= E /\ 0 <= E < ml /\ ml <= a /\ a + (if indels then E else 0) <= - start.

  Lemma back_sets_cover indels adapter a : forall els prev minimum_length,
    ELs prev els -> 0 <= prev + 1 -> prev < minimum_length -> 1 <= minimum_length <= a ->
    (exists E len, In (E, len) els /\ a <= len) ->
    covered indels adapter a (back_sets_loop indels adapter els minimum_length).
  Proof.
    induction els as [|[E len] t IH]; intros prev ml HE Hprev Hpm Hml (E' & len' & Hin & Hlen); [contradiction|].
    cbn [ELs] in HE. destruct HE as (Hpl & Hrange & Ht). cbn [back_sets_loop].
    destruct (len <? ml) eqn:Eskip.
    - apply Z.ltb_lt in Eskip. destruct Hin as [Heq|Hin]; [injection Heq as <- <-; lia|].
      apply (IH len ml Ht ltac:(lia) ltac:(lia) Hml). exists E', len'. auto.
    - apply Z.ltb_ge in Eskip.
      destruct (Z_le_gt_dec a len) as [Hal|Hal].
      + (* this entry covers a *)
        assert (Hthr : thr a = E) by (apply Hrange; lia).
        assert (HE0 : 0 <= E) by (rewrite <- Hthr; apply thr_nonneg'; lia).
        destruct ((E =? 0) && (ml <? 5)) eqn:Eshort.
        * apply andb_prop in Eshort. destruct Eshort as [E0 Eml]. apply Z.eqb_eq in E0. apply Z.ltb_lt in Eml.
          destruct (Z_lt_ge_dec a 5) as [Ha5|Ha5].
          -- exists (- a), E, a. split.
             { apply in_or_app. left. apply in_map_iff. exists a. split.
               - rewrite E0. change (Z.to_nat (0 + 1)) with 1%nat. rewrite kmer_chunks_one. reflexivity.
               - apply in_zrange. lia. }
             split; [lia|]. split; [lia|]. split; [lia|]. destruct indels; lia.
          -- exists (- (if indels then len + E else len)), E, 5. split.
             { apply in_or_app. right. apply in_or_app. left. left. reflexivity. }
             split; [lia|]. split; [lia|]. split; [lia|]. destruct indels; lia.
        * exists (- (if indels then len + E else len)), E, ml. split.
          { cbn [app]. left. reflexivity. }
          split; [lia|]. split.
          { split; [exact HE0|]. assert (Hm : thr ml = E) by (apply Hrange; lia). pose proof (thr_lt ml ltac:(lia)). lia. }
          split; [lia|]. destruct indels; lia.
      + (* a lies in a later range *)
        destruct Hin as [Heq|Hin]; [injection Heq as <- <-; lia|].
        destruct (IH len (len + 1) Ht ltac:(lia) ltac:(lia) ltac:(lia) ltac:(exists E', len'; auto)) as (st & E1 & ml1 & Hin1 & Hrest).
        exists st, E1, ml1. split; [|exact Hrest].
        apply in_or_app. right. apply in_or_app. right. exact Hin1.
  Qed.
End Thr.

Section Cover.
  Variable thr : Z -> Z.
  Hypothesis thr0 : thr 0 = 0.
  Hypothesis thr_step : forall i, 0 <= i -> thr i <= thr (i + 1) <= thr i + 1.
  Hypothesis thr_lt : forall i, 1 <= i -> thr i < i.

  Lemma create_back_cover indels adapter ov a : 1 <= ov <= a -> a <= zlen adapter ->
    covered thr indels adapter a (create_back_overlap_searchsets thr indels adapter ov).
  Proof.
    intros Hov Ha. unfold create_back_overlap_searchsets.
    pose proof (error_lengths_ELs thr thr0 thr_step (zlen adapter) (zlen_nonneg adapter)) as HE.
    apply (back_sets_cover thr thr0 thr_step thr_lt indels adapter a _ (-1) ov HE); try lia.
    unfold error_lengths. destruct (error_lengths_aux thr _ 0 []) as [acc me].
    exists me, (zlen adapter). split; [apply in_or_app; right; left; reflexivity | exact Ha].
  Qed.
End Cover.

(** ---- part C: minimize keeps every position, possibly widened *)
Lemma zmin_list_le : forall l d x, In x l -> zmin_list d l <= x.
Proof.
  unfold zmin_list. induction l as [|y l IH]; intros d x Hin; [contradiction|]. cbn [fold_left].
  assert (Hle : forall l d, fold_left Z.min l d <= d).
  { clear. induction l as [|y l IH]; intros d; cbn [fold_left]; [lia|]. specialize (IH (Z.min d y)). lia. }
  destruct Hin as [->|Hin]; [specialize (Hle l (Z.min d x)); lia | apply IH; exact Hin].
Qed.

Lemma zmax_list_ge : forall l d x, In x l -> x <= zmax_list d l.
Proof.
  unfold zmax_list. induction l as [|y l IH]; intros d x Hin; [contradiction|]. cbn [fold_left].
  assert (Hge : forall l d, d <= fold_left Z.max l d).
  { clear. induction l as [|y l IH]; intros d; cbn [fold_left]; [lia|]. specialize (IH (Z.max d y)). lia. }
  destruct Hin as [->|Hin]; [specialize (Hge l (Z.max d x)); lia | apply IH; exact Hin].
Qed.

Lemma positions_has k a b l : In (k, a, b) l -> In (a, b) (positions_of k l).
Proof.
  intros Hin. unfold positions_of. apply in_map_iff. exists (k, a, b). split; [reflexivity|].
  apply filter_In. split; [exact Hin | apply str_eqb_refl].
Qed.

Lemma minimize_has k l : In k (distinct_kmers l []) -> forall t, In t (minimize_one k (positions_of k l)) -> In t (minimize l).
Proof. intros Hk t Ht. unfold minimize. apply in_flat_map. exists k. split; assumption. Qed.

Lemma minimize_keeps_back k start l : In (k, start, None) l -> start < 0 ->
  exists start', In (k, start', None) (minimize l) /\ (start' <= start \/ start' = 0).
Proof.
  intros Hin Hneg.
  assert (Hk : In k (distinct_kmers l [])) by (eapply distinct_has; [exact Hin | reflexivity]).
  pose proof (positions_has k start None l Hin) as Hp.
  assert (Hgoal : exists start', In (k, start', None) (minimize_one k (positions_of k l)) /\ (start' <= start \/ start' = 0)).
  { unfold minimize_one. destruct (positions_of k l) as [|p1 [|p2 rest]] eqn:E.
    - contradiction.
    - destruct Hp as [Hp|[]]. subst p1. exists start. split; [left; reflexivity | left; lia].
    - destruct (existsb (pos_eqb (0, None)) (p1 :: p2 :: rest)) eqn:Eex.
      + exists 0. split; [left; reflexivity | right; reflexivity].
      + set (backs := filter (fun p : Z * option Z => match snd p with None => true | _ => false end) (p1 :: p2 :: rest)).
        assert (Hb : In (start, None) backs) by (subst backs; apply filter_In; split; [exact Hp | reflexivity]).
        destruct backs as [|b0 bt] eqn:Eb; [contradiction|].
        exists (zmin_list (fst b0) (map fst (b0 :: bt))). split.
        * apply in_or_app. right. left. reflexivity.
        * left. apply zmin_list_le. apply (in_map fst) in Hb. exact Hb. }
  destruct Hgoal as (s' & Hin' & Hs'). exists s'. split; [|exact Hs']. eapply minimize_has; eauto.
Qed.

Lemma minimize_keeps_front k stop l : In (k, 0, Some stop) l ->
  exists p', In (k, 0, p') (minimize l) /\ (p' = None \/ exists s', p' = Some s' /\ stop <= s').
Proof.
  intros Hin.
  assert (Hk : In k (distinct_kmers l [])) by (eapply distinct_has; [exact Hin | reflexivity]).
  pose proof (positions_has k 0 (Some stop) l Hin) as Hp.
  assert (Hgoal : exists p', In (k, 0, p') (minimize_one k (positions_of k l)) /\ (p' = None \/ exists s', p' = Some s' /\ stop <= s')).
  { unfold minimize_one. destruct (positions_of k l) as [|p1 [|p2 rest]] eqn:E.
    - contradiction.
    - destruct Hp as [Hp|[]]. subst p1. exists (Some stop). split; [left; reflexivity | right; exists stop; split; [reflexivity | lia]].
    - destruct (existsb (pos_eqb (0, None)) (p1 :: p2 :: rest)) eqn:Eex.
      + exists None. split; [left; reflexivity | left; reflexivity].
      + set (fronts := filter (fun p : Z * option Z => fst p =? 0) (p1 :: p2 :: rest)).
        assert (Hf : In (0, Some stop) fronts) by (subst fronts; apply filter_In; split; [exact Hp | reflexivity]).
        destruct fronts as [|f0 ft] eqn:Ef; [contradiction|].
        eexists. split.
        * apply in_or_app. left. left. reflexivity.
        * right. eexists. split; [reflexivity|]. apply zmax_list_ge.
          apply (in_map (fun q : Z * option Z => match snd q with Some s => s | None => 0 end)) in Hf. exact Hf. }
  destruct Hgoal as (p' & Hin' & Hp'). exists p'. split; [|exact Hp']. eapply minimize_has; eauto.
Qed.

(** ---- part D: windows *)
Lemma prefix_match_app_r km : forall k s x, prefix_match km k s = true -> prefix_match km k (s ++ x) = true.
Proof.
  induction k as [|c k IH]; intros s x H; [reflexivity|]. destruct s as [|q s]; [discriminate|]. cbn [app prefix_match] in *.
  apply andb_prop in H. destruct H as [H1 H2]. rewrite H1, (IH s x H2). reflexivity.
Qed.

Lemma occurs_app_r km k : forall s x, occurs km k s = true -> occurs km k (s ++ x) = true.
Proof.
  induction s as [|q s IH]; intros x H.
  - cbn [occurs] in H. rewrite orb_false_r in H. destruct k; [|discriminate]. destruct x; reflexivity.
  - cbn [app occurs] in *. apply orb_prop in H. destruct H as [H|H].
    + pose proof (prefix_match_app_r km k (q :: s) x H) as Hx. cbn [app] in Hx. rewrite Hx. reflexivity.
    + rewrite (IH x H). apply orb_true_r.
Qed.

Lemma entry_present_back wref wq seq k start pre suf :
  k <> [] -> seq = pre ++ suf -> start < 0 -> zlen suf <= - start -> suf <> [] ->
  occurs (kmer_char_match wref wq) k suf = true -> entry_present wref wq seq (k, start, None) = true.
Proof.
  intros Hk Hseq Hneg Hlen Hsuf Ho. unfold entry_present. destruct k as [|c k']; [contradiction|].
  assert (Hn : zlen seq = zlen pre + zlen suf) by (subst seq; unfold zlen; rewrite app_length; lia).
  assert (Hs1 : 1 <= zlen suf) by (destruct suf; [contradiction | unfold zlen; cbn [length]; lia]).
  pose proof (zlen_nonneg pre) as Hp0.
  unfold window. assert (E1 : (start <? 0) = true) by (apply Z.ltb_lt; lia). rewrite E1.
  assert (E2 : (0 <=? start) = false) by (apply Z.leb_gt; lia). rewrite E2. cbn [andb Z.ltb Z.compare].
  assert (E3 : (zlen seq - Z.max 0 (zlen seq + start) <=? 0) = false) by (apply Z.leb_gt; lia).
  cbn [Z.eqb]. rewrite E3.
  set (a := Z.max 0 (zlen seq + start)).
  assert (Ha : 0 <= a <= zlen pre) by (subst a; lia).
  assert (Hsk : skipn (Z.to_nat a) seq = skipn (Z.to_nat a) pre ++ suf).
  { subst seq. rewrite skipn_app. replace (Z.to_nat a - length pre)%nat with 0%nat by (unfold zlen in *; lia). reflexivity. }
  rewrite Hsk. rewrite firstn_all2 by (rewrite app_length, skipn_length; unfold zlen in *; lia).
  apply occurs_skip. exact Ho.
Qed.

Lemma entry_present_front wref wq seq k stop pre suf :
  k <> [] -> seq = pre ++ suf -> 0 < stop -> zlen pre <= stop ->
  occurs (kmer_char_match wref wq) k pre = true -> entry_present wref wq seq (k, 0, Some stop) = true.
Proof.
  intros Hk Hseq Hpos Hlen Ho. unfold entry_present. destruct k as [|c k']; [contradiction|].
  pose proof (zlen_nonneg seq) as Hn0.
  unfold window. cbn [Z.ltb Z.compare Z.leb]. assert (E0 : (zlen seq <? 0) = false) by (apply Z.ltb_ge; lia). rewrite E0. cbn [andb].
  assert (E1 : (stop <? 0) = false) by (apply Z.ltb_ge; lia). rewrite E1.
  assert (E2 : (stop =? 0) = false) by (apply Z.eqb_neq; lia). rewrite E2.
  assert (E3 : (stop - 0 <=? 0) = false) by (apply Z.leb_gt; lia). rewrite E3.
  cbn [Z.to_nat skipn]. subst seq. rewrite firstn_app.
  rewrite (firstn_all2 pre) by (unfold zlen in *; lia). apply occurs_app_r. exact Ho.
Qed.

(** ---- part E: from an alignment of an adapter prefix to a k-mer hit inside the aligned part of the read *)
Lemma chunk_segment_found wref wq (up : bool) IND (a q : str) P B S e k :
  1 <= IND -> ascii a -> ascii q -> 0 <= k < zlen a -> e <= k ->
  ed (eqcF wref wq) IND (map (f1 wref wq) a) B e ->
  map (f2 wref wq) (if up then map (tr upper_table) q else q) = P ++ B ++ S ->
  exists ch lx ly lz, In ch (kmer_chunks a (Z.to_nat (k + 1))) /\ ch <> [] /\ q = lx ++ ly ++ lz /\
    zlen lx >= zlen P /\ zlen lz >= zlen S /\
    Forall2 (fun x y => kmer_char_match wref wq x y = true) ch ly.
Proof.
  intros Hi Ha Hq Hk He Hed Hmap. set (n := Z.to_nat (k + 1)).
  assert (Hn : (0 < n <= length a)%nat) by (subst n; unfold zlen in Hk; lia).
  rewrite <- (kmer_chunks_partition (map (f1 wref wq) a) n ltac:(lia)) in Hed. rewrite kmer_chunks_map in Hed.
  destruct (ed_pigeon (eqcF wref wq) IND Hi _ _ _ Hed) as (ch' & pre & bi & post & Hin & -> & Hf).
  { rewrite map_length, kmer_chunks_count by lia. subst n. lia. }
  apply in_map_iff in Hin. destruct Hin as (ch & <- & Hin).
  pose proof (kmer_chunks_nonempty a n ch Hn Hin) as Hne.
  set (u := fun x : Z => if up then tr upper_table x else x).
  assert (Hq' : (if up then map (tr upper_table) q else q) = map u q).
  { subst u. destruct up; [reflexivity | symmetry; apply map_id]. }
  rewrite Hq', map_map in Hmap.
  replace (P ++ (pre ++ bi ++ post) ++ S) with ((P ++ pre) ++ bi ++ (post ++ S)) in Hmap by (rewrite <- !app_assoc; reflexivity).
  apply map_eq_app in Hmap. destruct Hmap as (lx & rest & -> & Hlx & Hrest).
  apply map_eq_app in Hrest. destruct Hrest as (ly & lz & -> & Hly & Hlz). subst bi.
  apply Forall2_map_both in Hf.
  assert (Hf' : Forall2 (fun x y => kmer_char_match wref wq x y = true) ch ly).
  { eapply Forall2_impl_in; [exact Hf|]. intros x y Hx Hy Hxy. cbv beta in Hxy. subst u. cbv beta in Hxy.
    apply (char_compat wref wq up); [| |exact Hxy].
    - unfold ascii in Ha. rewrite Forall_forall in Ha. apply Ha. eapply in_concat_chunk; [|exact Hin|exact Hx]. lia.
    - unfold ascii in Hq. rewrite Forall_forall in Hq. apply Hq. apply in_or_app. right. apply in_or_app. left. exact Hy. }
  exists ch, lx, ly, lz. split; [exact Hin|]. split; [exact Hne|]. split; [reflexivity|].
  apply (f_equal (@length Z)) in Hlx. apply (f_equal (@length Z)) in Hlz. rewrite map_length, app_length in Hlx, Hlz.
  unfold zlen. split; [lia|]. split; [lia | exact Hf'].
Qed.

Lemma ascii_firstn n s : ascii s -> ascii (firstn n s).
Proof. unfold ascii. rewrite !Forall_forall. intros H x Hx. apply H. eapply In_firstn; eauto. Qed.

Lemma ascii_app_r a b : ascii (a ++ b) -> ascii b.
Proof. unfold ascii. rewrite !Forall_forall. intros H x Hx. apply H. apply in_or_app. right. exact Hx. Qed.

Section Shapes.
  Variable thr : Z -> Z.
  Hypothesis thr0 : thr 0 = 0.
  Hypothesis thr_step : forall i, 0 <= i -> thr i <= thr (i + 1) <= thr i + 1.
  Hypothesis thr_lt : forall i, 1 <= i -> thr i < i.

  (** a prefix of the adapter aligned with the end of the read: some k-mer of a back-overlap set hits *)
  Lemma back_shape_present wref wq (up indels : bool) IND (s q : str) ov front internal a1 B P e :
    1 <= IND -> ascii s -> ascii q -> 1 <= ov <= a1 -> a1 <= zlen s ->
    ed (eqcF wref wq) IND (map (f1 wref wq) (firstn (Z.to_nat a1) s)) B e -> e <= thr a1 ->
    map (f2 wref wq) (if up then map (tr upper_table) q else q) = P ++ B ->
    zlen B <= a1 + (if indels then e else 0) ->
    kmers_present wref wq (positions_and_kmers thr s ov true front internal indels) q = true.
  Proof.
    intros Hi Has Haq Hov Ha1 Hed He Hmap HB.
    destruct (create_back_cover thr thr0 thr_step thr_lt indels s ov a1 Hov Ha1) as (start & E & ml & Hin & HthrE & HEml & Hmla & Hwin).
    assert (Hsplit : firstn (Z.to_nat a1) s = firstn (Z.to_nat ml) s ++ skipn (Z.to_nat ml) (firstn (Z.to_nat a1) s)).
    { rewrite <- (firstn_skipn (Z.to_nat ml) (firstn (Z.to_nat a1) s)) at 1. f_equal. rewrite firstn_firstn. f_equal. lia. }
    rewrite Hsplit, map_app in Hed.
    destruct (ed_split (eqcF wref wq) IND _ _ _ Hed _ _ eq_refl) as (b1 & b2 & c1 & c2 & -> & E1 & E2 & Hs).
    pose proof (ed_nonneg _ _ Hi _ _ _ E2) as Hc2.
    assert (Hzl : zlen (firstn (Z.to_nat ml) s) = ml) by (unfold zlen in *; rewrite firstn_length; lia).
    destruct (chunk_segment_found wref wq up IND (firstn (Z.to_nat ml) s) q P b1 b2 c1 E Hi (ascii_firstn _ _ Has) Haq
                ltac:(rewrite Hzl; lia) ltac:(lia) E1 Hmap) as (ch & lx & ly & lz & Hch & Hne & Hq & Hlx & _ & Hf).
    assert (Hqlen : zlen q = zlen P + zlen (b1 ++ b2)).
    { apply (f_equal (@length Z)) in Hmap. rewrite map_length, app_length in Hmap.
      assert (length (if up then map (tr upper_table) q else q) = length q) by (destruct up; [apply map_length | reflexivity]).
      unfold zlen. lia. }
    assert (Hsuf : zlen (ly ++ lz) <= - start).
    { assert (zlen q = zlen lx + zlen (ly ++ lz)) by (rewrite Hq; unfold zlen; rewrite !app_length; lia).
      destruct indels; lia. }
    assert (Hly : ly <> []) by (intros ->; destruct ch; [contradiction | inversion Hf]).
    assert (Hocc : occurs (kmer_char_match wref wq) ch (ly ++ lz) = true) by (apply (occurs_segment _ ch [] ly lz Hf)).
    assert (Hflat : In (ch, start, None) (flatten_sets (raw_search_sets thr s ov true front internal indels))).
    { unfold flatten_sets. apply in_flat_map. eexists. split.
      - unfold raw_search_sets. apply in_or_app. left. exact Hin.
      - cbv beta iota. apply in_map_iff. exists ch. split; [reflexivity | exact Hch]. }
    assert (Hneg : start < 0) by (destruct indels; lia).
    destruct (minimize_keeps_back ch start _ Hflat Hneg) as (start' & Hin' & Hs').
    unfold kmers_present, positions_and_kmers. apply existsb_exists. exists (ch, start', None). split; [exact Hin'|].
    destruct Hs' as [Hle| ->].
    - apply (entry_present_back wref wq q ch start' lx (ly ++ lz)); auto; try lia.
      intros Hnil. apply app_eq_nil in Hnil. destruct Hnil; contradiction.
    - apply entry_present_anywhere; [exact Hne| |].
      + rewrite Hq. apply occurs_skip. exact Hocc.
      + rewrite Hq. intros Hnil. apply app_eq_nil in Hnil. destruct Hnil as [_ Hnil]. apply app_eq_nil in Hnil. destruct Hnil; contradiction.
  Qed.

  Lemma rev_skipn {A} (l : list A) a : rev (skipn a l) = firstn (length l - a) (rev l).
  Proof.
    assert (H : rev l = rev (skipn a l) ++ rev (firstn a l)) by (rewrite <- rev_app_distr, firstn_skipn; reflexivity).
    rewrite H, firstn_app, rev_length, skipn_length, Nat.sub_diag. cbn [firstn]. rewrite app_nil_r.
    rewrite firstn_all2; [reflexivity | rewrite rev_length, skipn_length; lia].
  Qed.

  Lemma Forall2_rev {A B} (R : A -> B -> Prop) : forall la lb, Forall2 R la lb -> Forall2 R (rev la) (rev lb).
  Proof.
    induction 1 as [|x y la lb Hxy H IH]; [constructor|]. cbn [rev]. apply Forall2_app; [exact IH | constructor; [exact Hxy | constructor]].
  Qed.

  (** a suffix of the adapter aligned with the beginning of the read: some k-mer of a front-overlap set hits *)
  Lemma front_shape_present wref wq (up indels : bool) IND (s q : str) ov back internal a0 B S e :
    1 <= IND -> ascii s -> ascii q -> 0 <= a0 -> 1 <= ov <= zlen s - a0 ->
    ed (eqcF wref wq) IND (map (f1 wref wq) (skipn (Z.to_nat a0) s)) B e -> e <= thr (zlen s - a0) ->
    map (f2 wref wq) (if up then map (tr upper_table) q else q) = B ++ S ->
    zlen B <= zlen s - a0 + (if indels then e else 0) ->
    kmers_present wref wq (positions_and_kmers thr s ov back true internal indels) q = true.
  Proof.
    intros Hi Has Haq Ha0 Hov Hed He Hmap HB. set (a1 := zlen s - a0) in *.
    assert (Hrl : zlen (rev s) = zlen s) by apply zlen_rev.
    destruct (create_back_cover thr thr0 thr_step thr_lt indels (rev s) ov a1 Hov ltac:(rewrite Hrl; lia)) as (start & E & ml & Hin & HthrE & HEml & Hmla & Hwin).
    apply ed_rev in Hed. rewrite <- map_rev in Hed. rewrite rev_skipn in Hed.
    replace (length s - Z.to_nat a0)%nat with (Z.to_nat a1) in Hed by (subst a1; unfold zlen; lia).
    assert (Hsplit : firstn (Z.to_nat a1) (rev s) = firstn (Z.to_nat ml) (rev s) ++ skipn (Z.to_nat ml) (firstn (Z.to_nat a1) (rev s))).
    { rewrite <- (firstn_skipn (Z.to_nat ml) (firstn (Z.to_nat a1) (rev s))) at 1. f_equal. rewrite firstn_firstn. f_equal. lia. }
    rewrite Hsplit, map_app in Hed.
    destruct (ed_split (eqcF wref wq) IND _ _ _ Hed _ _ eq_refl) as (b1 & b2 & c1 & c2 & HrB & E1 & E2 & Hs).
    pose proof (ed_nonneg _ _ Hi _ _ _ E2) as Hc2.
    assert (Hzl : zlen (firstn (Z.to_nat ml) (rev s)) = ml) by (unfold zlen in *; rewrite firstn_length, rev_length in *; lia).
    assert (Hmap' : map (f2 wref wq) (if up then map (tr upper_table) (rev q) else rev q) = rev S ++ b1 ++ b2).
    { rewrite <- HrB, <- rev_app_distr, <- Hmap. destruct up; rewrite ?map_rev; reflexivity. }
    destruct (chunk_segment_found wref wq up IND (firstn (Z.to_nat ml) (rev s)) (rev q) (rev S) b1 b2 c1 E Hi (ascii_firstn _ _ (ascii_rev _ Has)) (ascii_rev _ Haq)
                ltac:(rewrite Hzl; lia) ltac:(lia) E1 Hmap') as (ch & lx & ly & lz & Hch & Hne & Hq & Hlx & _ & Hf).
    assert (Hq' : q = (rev lz ++ rev ly) ++ rev lx).
    { rewrite <- (rev_involutive q), Hq, !rev_app_distr. reflexivity. }
    assert (Hqlen : zlen q = zlen B + zlen S).
    { apply (f_equal (@length Z)) in Hmap. rewrite map_length, app_length in Hmap.
      assert (length (if up then map (tr upper_table) q else q) = length q) by (destruct up; [apply map_length | reflexivity]).
      unfold zlen. lia. }
    assert (Hpre : zlen (rev lz ++ rev ly) <= - start).
    { assert (zlen q = zlen (rev lz ++ rev ly) + zlen lx) by (rewrite Hq'; unfold zlen; rewrite !app_length, !rev_length; lia).
      rewrite zlen_rev in Hlx. destruct indels; lia. }
    assert (Hly : ly <> []) by (intros ->; destruct ch; [contradiction | inversion Hf]).
    assert (Hocc : occurs (kmer_char_match wref wq) (rev ch) (rev lz ++ rev ly) = true).
    { pose proof (occurs_segment (kmer_char_match wref wq) (rev ch) (rev lz) (rev ly) [] (Forall2_rev _ _ _ Hf)) as Ho. rewrite app_nil_r in Ho. exact Ho. }
    assert (Hrne : rev ch <> []) by (intros Hn; apply (f_equal (@rev Z)) in Hn; rewrite rev_involutive in Hn; contradiction).
    assert (Hflat : In (rev ch, 0, Some (- start)) (flatten_sets (raw_search_sets thr s ov back true internal indels))).
    { unfold flatten_sets. apply in_flat_map. eexists. split.
      - unfold raw_search_sets. apply in_or_app. right. apply in_or_app. left. apply in_map_iff. eexists. split; [|exact Hin]. reflexivity.
      - cbv beta iota. apply in_map_iff. exists (rev ch). split; [reflexivity|]. apply in_map. exact Hch. }
    assert (Hneg : 0 < - start) by (destruct indels; lia).
    destruct (minimize_keeps_front (rev ch) (- start) _ Hflat) as (p' & Hin' & Hp').
    unfold kmers_present, positions_and_kmers. apply existsb_exists. exists (rev ch, 0, p'). split; [exact Hin'|].
    destruct Hp' as [->|(s' & -> & Hs')].
    - apply entry_present_anywhere; [exact Hrne| |].
      + rewrite Hq'. apply occurs_app_r. exact Hocc.
      + rewrite Hq'. intros Hnil. apply app_eq_nil in Hnil. destruct Hnil as [Hnil _]. apply app_eq_nil in Hnil. destruct Hnil as [_ Hnil].
        apply (f_equal (@rev Z)) in Hnil. rewrite rev_involutive in Hnil. contradiction.
    - apply (entry_present_front wref wq q (rev ch) s' (rev lz ++ rev ly) (rev lx)); auto; lia.
  Qed.
End Shapes.

Lemma ed_len_diff_ind eqc IND a b c : 0 <= IND -> ed eqc IND a b c -> IND * Z.abs (zlen a - zlen b) <= c.
Proof.
  intros Hi H. induction H.
  - cbn. lia.
  - unfold zlen in *. rewrite !app_length. cbn [length]. replace (Z.of_nat (length a + 1) - Z.of_nat (length b + 1)) with (Z.of_nat (length a) - Z.of_nat (length b)) by lia. exact IHed.
  - unfold zlen in *. rewrite !app_length. cbn [length]. replace (Z.of_nat (length a + 1) - Z.of_nat (length b + 1)) with (Z.of_nat (length a) - Z.of_nat (length b)) by lia. lia.
  - unfold zlen in *. rewrite app_length. cbn [length]. nia.
  - unfold zlen in *. rewrite app_length. cbn [length]. nia.
  - lia.
Qed.

Lemma zslice_map {A B} (f : A -> B) l a b : zslice (map f l) a b = map f (zslice l a b).
Proof. unfold zslice. rewrite skipn_map, firstn_map. reflexivity. Qed.

Lemma zslice_prefix {A} (l : list A) b : zslice l 0 b = firstn (Z.to_nat b) l.
Proof. unfold zslice. cbn [Z.to_nat skipn]. f_equal. lia. Qed.

Lemma zslice_suffix {A} (l : list A) a : 0 <= a -> zslice l a (zlen l) = skipn (Z.to_nat a) l.
Proof. intros Ha. unfold zslice. apply firstn_all2. rewrite skipn_length. unfold zlen. lia. Qed.

Section Result.
  Variable thr : Z -> Z.
  Hypothesis thr0 : thr 0 = 0.
  Hypothesis thr_step : forall i, 0 <= i -> thr i <= thr (i + 1) <= thr i + 1.
  Hypothesis thr_lt : forall i, 1 <= i -> thr i < i.

  (** whatever the aligner reports, in one of the shapes the finder was built for, passes the finder *)
  Lemma result_present wref wq (up indels : bool) IND (s q : str) ov back front internal a0 a1 r0 r1 e :
    1 <= IND -> (indels = true -> IND = 1) -> (indels = false -> zlen s < IND) ->
    ascii s -> ascii q -> 1 <= ov ->
    0 <= a0 <= a1 -> a1 <= zlen s -> 0 <= r0 <= r1 -> r1 <= zlen q -> ov <= a1 - a0 -> e <= thr (a1 - a0) ->
    ed (eqcF wref wq) IND (zslice (map (f1 wref wq) s) a0 a1)
       (zslice (map (f2 wref wq) (if up then map (tr upper_table) q else q)) r0 r1) e ->
    ((a0 = 0 /\ a1 = zlen s /\ internal = true) \/ (a0 = 0 /\ r1 = zlen q /\ back = true) \/
     (r0 = 0 /\ a1 = zlen s /\ front = true) \/ (r0 = 0 /\ r1 = zlen q /\ back = true /\ front = true)) ->
    finder_present wref wq (mkF (positions_and_kmers thr s ov back front internal indels)
                                (if back && front then Some (zlen s + thr (zlen s)) else None)) q = true.
  Proof.
    intros Hi Hind Hnoind Has Haq Hov Ha Ha1 Hr Hr1 Hova He Hed Hshape.
    set (Q := map (f2 wref wq) (if up then map (tr upper_table) q else q)) in *.
    assert (HQl : zlen Q = zlen q).
    { subst Q. rewrite zlen_map. destruct up; [apply zlen_map | reflexivity]. }
    pose proof (zslice_split3 Q r0 r1 Hr ltac:(lia)) as HQ.
    assert (HBl : zlen (zslice Q r0 r1) = r1 - r0) by (apply zslice_length; lia).
    pose proof (ed_nonneg _ _ Hi _ _ _ Hed) as He0.
    pose proof (ed_len_diff_ind (eqcF wref wq) IND _ _ _ ltac:(lia) Hed) as Hd.
    rewrite zslice_length in Hd by (rewrite ?zlen_map; lia). rewrite HBl in Hd.
    assert (Hthr_m : thr (a1 - a0) < a1 - a0) by (apply thr_lt; lia).
    assert (Hlen : r1 - r0 <= a1 - a0 + (if indels then e else 0)).
    { destruct indels; [rewrite (Hind eq_refl) in Hd; lia|]. specialize (Hnoind eq_refl). nia. }
    assert (Hpres : forall tab o, kmers_present wref wq tab q = true -> finder_present wref wq (mkF tab o) q = true).
    { intros tab o H. unfold finder_present. cbn [f_min_length f_table]. destruct o; [rewrite H; apply orb_true_r | exact H]. }
    rewrite zslice_map in Hed.
    destruct Hshape as [(-> & -> & ->)|[(-> & -> & ->)|[(-> & -> & ->)|(-> & -> & -> & ->)]]].
    - (* the whole adapter *)
      apply Hpres. replace (zlen s - 0) with (zlen s) in * by lia.
      rewrite zslice_full in Hed.
      destruct (whole_adapter_chunk_found wref wq up IND s q _ _ _ e (thr (zlen s)) Hi Has Haq ltac:(pose proof (thr_nonneg' thr thr0 thr_step (zlen s)); lia)
                  He Hed HQ) as (ch & Hch & Hne & Hqn & Ho).
      unfold kmers_present. apply existsb_exists. exists (ch, 0, None). split.
      + apply table_has_internal_chunks. exact Hch.
      + apply entry_present_anywhere; assumption.
    - (* a prefix of the adapter at the end of the read *)
      apply Hpres. rewrite zslice_prefix in Hed. replace (a1 - 0) with a1 in * by lia.
      assert (HQ' : Q = firstn (Z.to_nat r0) Q ++ zslice Q r0 (zlen q)).
      { rewrite HQ at 1. f_equal. rewrite (skipn_all2 Q) by (unfold zlen in *; lia). apply app_nil_r. }
      apply (back_shape_present thr thr0 thr_step thr_lt wref wq up indels IND s q ov front internal a1 _ _ e Hi Has Haq ltac:(lia) Ha1 Hed He HQ').
      rewrite HBl. exact Hlen.
    - (* a suffix of the adapter at the beginning of the read *)
      apply Hpres. rewrite zslice_suffix in Hed by lia.
      assert (HQ' : Q = zslice Q 0 r1 ++ skipn (Z.to_nat r1) Q).
      { rewrite HQ at 1. reflexivity. }
      apply (front_shape_present thr thr0 thr_step thr_lt wref wq up indels IND s q ov back internal a0 _ _ e Hi Has Haq ltac:(lia) ltac:(lia) Hed He HQ').
      rewrite HBl. replace (r1 - 0) with r1 in Hlen by lia. lia.
    - (* the read lies inside the adapter: short reads bypass the k-mer search, and a0 = 0 is the previous shape *)
      cbn [andb]. destruct (Z.eq_dec a0 0) as [Ha0|Ha0].
      + subst a0. apply Hpres. rewrite zslice_prefix in Hed. replace (a1 - 0) with a1 in * by lia.
        assert (HQ' : Q = firstn (Z.to_nat 0) Q ++ zslice Q 0 (zlen q)).
        { rewrite HQ at 1. f_equal. rewrite (skipn_all2 Q) by (unfold zlen in *; lia). apply app_nil_r. }
        apply (back_shape_present thr thr0 thr_step thr_lt wref wq up indels IND s q ov true internal a1 _ _ e Hi Has Haq ltac:(lia) Ha1 Hed He HQ').
        rewrite HBl. exact Hlen.
      + unfold finder_present. cbn [f_min_length]. apply orb_true_intro. left. apply Z.ltb_lt.
        pose proof (thr_mono thr thr_step (a1 - a0) (zlen s) ltac:(lia)).
        assert (e <= thr (zlen s)) by lia. destruct indels; lia.
  Qed.
End Result.

(** ---- the threshold function matters only on [0, m]: clamp it so that the global hypotheses hold *)
Definition clampthr (thr : Z -> Z) (m : Z) (i : Z) : Z := thr (Z.max 0 (Z.min i m)).

Lemma error_lengths_aux_ext thr thr' m : (forall i, 0 <= i <= m -> thr i = thr' i) ->
  forall is_ me acc, Forall (fun i => 0 <= i <= m) is_ -> error_lengths_aux thr is_ me acc = error_lengths_aux thr' is_ me acc.
Proof.
  intros Hext. induction is_ as [|i t IH]; intros me acc Hall; [reflexivity|]. inversion Hall; subst. cbn [error_lengths_aux].
  rewrite (Hext i) by assumption. destruct (me <? thr' i); apply IH; assumption.
Qed.

Lemma zrange_Forall lo cnt : Forall (fun i => lo <= i <= lo + Z.of_nat cnt - 1) (zrange lo cnt).
Proof.
  revert lo. induction cnt as [|c IH]; intros lo; cbn [zrange]; constructor; [lia|].
  eapply Forall_impl; [|apply IH]. cbv beta. intros a Ha. lia.
Qed.

Lemma error_lengths_ext thr thr' m : 0 <= m -> (forall i, 0 <= i <= m -> thr i = thr' i) -> error_lengths thr m = error_lengths thr' m.
Proof.
  intros Hm Hext. unfold error_lengths. rewrite (error_lengths_aux_ext thr thr' m Hext); [reflexivity|].
  eapply Forall_impl; [|apply zrange_Forall]. cbv beta. intros a Ha. lia.
Qed.

Lemma positions_and_kmers_ext thr thr' s ov back front internal indels :
  (forall i, 0 <= i <= zlen s -> thr i = thr' i) ->
  positions_and_kmers thr s ov back front internal indels = positions_and_kmers thr' s ov back front internal indels.
Proof.
  intros Hext. unfold positions_and_kmers, raw_search_sets, create_back_overlap_searchsets.
  pose proof (zlen_nonneg s) as Hs.
  rewrite (error_lengths_ext thr thr' (zlen s) Hs Hext).
  rewrite (error_lengths_ext thr thr' (zlen (rev s))) by (rewrite zlen_rev; auto).
  rewrite (Hext (zlen s)) by lia. reflexivity.
Qed.

Lemma clampthr_props thr m : 0 <= m -> thr 0 = 0 -> (forall i, 0 <= i < m -> thr i <= thr (i + 1) <= thr i + 1) -> (forall i, 1 <= i <= m -> thr i < i) ->
  clampthr thr m 0 = 0 /\ (forall i, 0 <= i -> clampthr thr m i <= clampthr thr m (i + 1) <= clampthr thr m i + 1) /\
  (forall i, 1 <= i -> clampthr thr m i < i) /\ (forall i, 0 <= i <= m -> thr i = clampthr thr m i).
Proof.
  intros Hm H0 Hstep Hlt. unfold clampthr. split; [rewrite Z.min_l, Z.max_l by lia; exact H0|]. split; [|split].
  - intros i Hi. destruct (Z_lt_ge_dec i m) as [Hl|Hg].
    + rewrite !Z.min_l, !Z.max_r by lia. apply Hstep. lia.
    + rewrite !Z.min_r, !Z.max_r by lia. lia.
  - intros i Hi. destruct (Z_le_gt_dec i m) as [Hl|Hg].
    + rewrite Z.min_l, Z.max_r by lia. apply Hlt. lia.
    + rewrite Z.min_r, Z.max_r by lia. destruct (Z.eq_dec m 0) as [->|Hne]; [rewrite H0; lia|]. pose proof (Hlt m ltac:(lia)). lia.
  - intros i Hi. rewrite Z.min_l, Z.max_r by lia. reflexivity.
Qed.

(** ---- from a result of Aligner.locate to the finder *)
Definition shape_covered (m n a0 a1 r0 r1 : Z) (back front internal : bool) : Prop :=
  (a0 = 0 /\ a1 = m /\ internal = true) \/ (a0 = 0 /\ r1 = n /\ back = true) \/
  (r0 = 0 /\ a1 = m /\ front = true) \/ (r0 = 0 /\ r1 = n /\ back = true /\ front = true).

Lemma locate_present thr ad (s q : str) (up : bool) back front internal ind a0 a1 r0 r1 sc e :
  a_indels ad = ind -> thr 0 = 0 -> (forall i, 0 <= i < zlen s -> thr i <= thr (i + 1) <= thr i + 1) -> (forall i, 1 <= i <= zlen s -> thr i < i) ->
  (forall L, thr L <= thr (zlen s)) ->
  ascii s -> ascii q -> 1 <= a_min_overlap ad -> zlen s < INDEL_COST_OFF ->
  locate thr (ad_cfg ad) (a_wq ad) s (if up then map (tr upper_table) q else q) = Some (a0, a1, r0, r1, sc, e) ->
  (locate_ok thr (ad_cfg ad) s (zlen q) (a0, a1, r0, r1, sc, e) -> shape_covered (zlen s) (zlen q) a0 a1 r0 r1 back front internal) ->
  finder_present (a_wref ad) (a_wq ad)
    (mkF (positions_and_kmers thr s (a_min_overlap ad) back front internal ind)
         (if back && front then Some (zlen s + thr (zlen s)) else None)) q = true.
Proof.
  intros <- H0 Hstep Hlt Hb Has Haq Hov Hbig Hloc Hshape.
  pose proof (zlen_nonneg s) as Hm0.
  assert (Hk : 0 <= thr (zlen s)).
  { destruct (Z.eq_dec (zlen s) 0) as [E|E]; [rewrite E, H0; lia|].
    assert (forall d, (d <= Z.to_nat (zlen s))%nat -> 0 <= thr (Z.of_nat d)) as Hall.
    { induction d as [|d IH]; intros Hd; [cbn; rewrite H0; lia|]. specialize (IH ltac:(lia)).
      pose proof (Hstep (Z.of_nat d) ltac:(lia)). replace (Z.of_nat (S d)) with (Z.of_nat d + 1) by lia. lia. }
    specialize (Hall (Z.to_nat (zlen s)) ltac:(lia)). rewrite Z2Nat.id in Hall by lia. exact Hall. }
  pose proof (ad_indel_cost_pos ad) as Hic.
  pose proof (locate_dist thr (ad_cfg ad) (a_wq ad) s _ a0 a1 r0 r1 sc e Hic Hk Hb Hloc) as Hed.
  pose proof (locate_structure thr (ad_cfg ad) (a_wq ad) s _ _ Hk Hloc) as Hok.
  assert (Hql : zlen (if up then map (tr upper_table) q else q) = zlen q) by (destruct up; [apply zlen_map | reflexivity]).
  rewrite Hql in Hok. specialize (Hshape Hok). unfold locate_ok in Hok.
  destruct Hok as (h1 & h2 & h3 & h4 & _ & _ & _ & _ & _ & _ & h11 & h12).
  destruct (clampthr_props thr (zlen s) Hm0 H0 Hstep Hlt) as (C0 & Cstep & Clt & Cext).
  rewrite (positions_and_kmers_ext thr (clampthr thr (zlen s)) s _ back front internal _ Cext).
  rewrite (Cext (zlen s)) by lia.
  assert (Hw : wildcard_ref (ad_cfg ad) = a_wref ad) by reflexivity.
  assert (Hmo : min_overlap (ad_cfg ad) = a_min_overlap ad) by reflexivity.
  rewrite loc_s1_f1, loc_s2_f2, Hw in Hed. change (loc_eqc (ad_cfg ad) (a_wq ad)) with (eqcF (a_wref ad) (a_wq ad)) in Hed.
  rewrite Hw in h12. rewrite Hmo in h11.
  apply (result_present (clampthr thr (zlen s)) C0 Cstep Clt (a_wref ad) (a_wq ad) up (a_indels ad) (indel_cost (ad_cfg ad)) s q
           (a_min_overlap ad) back front internal a0 a1 r0 r1 e); auto; try lia.
  - intros Hi. unfold ad_cfg, cfg_of. cbn [indel_cost]. rewrite Hi. reflexivity.
  - intros Hi. unfold ad_cfg, cfg_of. cbn [indel_cost]. rewrite Hi. exact Hbig.
  - (* e <= thr (nonN ...) <= thr (a1 - a0) *)
    assert (Hnn : 0 <= nonN (a_wref ad) (zslice s a0 a1) <= a1 - a0).
    { unfold nonN. pose proof (count_n_bounds (zslice s a0 a1)) as Hc. rewrite zslice_length in * by lia. destruct (a_wref ad); lia. }
    rewrite <- (Cext (a1 - a0)) by lia.
    assert (Hmono : forall x y, 0 <= x <= y -> y <= zlen s -> thr x <= thr y).
    { intros x y Hxy Hy. replace y with (x + Z.of_nat (Z.to_nat (y - x))) by lia.
      assert (Hd : (Z.to_nat (y - x) <= Z.to_nat (y - x))%nat) by lia. revert Hd. generalize (Z.to_nat (y - x)) at 1 3.
      induction n as [|d IH]; intros Hd; [rewrite Z.add_0_r; lia|].
      specialize (IH ltac:(lia)). pose proof (Hstep (x + Z.of_nat d) ltac:(lia)).
      replace (x + Z.of_nat (S d)) with (x + Z.of_nat d + 1) by lia. lia. }
    specialize (Hmono (nonN (a_wref ad) (zslice s a0 a1)) (a1 - a0) ltac:(lia) ltac:(lia)). lia.
Qed.

(** ---- C07 in full: whatever match_to reports, the prefilter lets the read through *)
Ltac shape_from_flags Fsr Fsq Fer Feq :=
  let Hok := fresh "Hok" in
  intros Hok; unfold locate_ok in Hok; rewrite Fsr, Fsq, Fer, Feq in Hok;
  let g5 := fresh in let g6 := fresh in let g7 := fresh in let g8 := fresh in let g9 := fresh in let g10 := fresh in
  destruct Hok as (_ & _ & _ & _ & g5 & g6 & g7 & g8 & g9 & g10 & _ & _);
  unfold shape_covered; rewrite ?zlen_rev in *;
  repeat match goal with
         | H : false = false -> _ |- _ => specialize (H eq_refl)
         | H : true = false -> _ |- _ => clear H
         end;
  destruct g5; destruct g8; subst; intuition auto.

Ltac compute_rhs H := match type of H with _ = ?r => let v := eval vm_compute in r in change r with v in H end.

Theorem prefilter_complete thr ad read mt :
  thr 0 = 0 -> (forall i, 0 <= i < zlen (a_seq ad) -> thr i <= thr (i + 1) <= thr i + 1) ->
  (forall i, 1 <= i <= zlen (a_seq ad) -> thr i < i) -> (forall L, thr L <= thr (zlen (a_seq ad))) ->
  ascii (a_seq ad) -> ascii read -> 1 <= a_min_overlap ad -> zlen (a_seq ad) < INDEL_COST_OFF ->
  match_to thr ad read = Some mt -> prefilter_passes thr ad read = true.
Proof.
  intros H0 Hstep Hlt Hb Has Har Hov Hbig Hm. unfold match_to in Hm.
  destruct (raw_locate thr ad read) as [[[[[[a0 a1] r0] r1] sc] e]|] eqn:Er; [|discriminate]. clear Hm.
  unfold raw_locate in Er. fold (ad_cfg ad) in Er.
  unfold prefilter_passes, finder_of, finder_query, make_finder.
  assert (Hflags : forall t f, a_type ad = t -> a_force_anywhere ad = f ->
            start_in_ref (ad_cfg ad) = Z.testbit (if match t with Front | RightmostFront | Back => f | _ => false end then where_ANYWHERE else class_flags t) 0 /\
            start_in_query (ad_cfg ad) = Z.testbit (if match t with Front | RightmostFront | Back => f | _ => false end then where_ANYWHERE else class_flags t) 1 /\
            stop_in_ref (ad_cfg ad) = Z.testbit (if match t with Front | RightmostFront | Back => f | _ => false end then where_ANYWHERE else class_flags t) 2 /\
            stop_in_query (ad_cfg ad) = Z.testbit (if match t with Front | RightmostFront | Back => f | _ => false end then where_ANYWHERE else class_flags t) 3).
  { intros t f Et Ef. unfold ad_cfg, cfg_of, aligner_flags. rewrite Et, Ef. cbn [start_in_ref start_in_query stop_in_ref stop_in_query].
    destruct t, f; repeat split; reflexivity. }
  destruct (a_type ad) eqn:Et; destruct (a_force_anywhere ad) eqn:Ef;
    destruct (Hflags _ _ eq_refl eq_refl) as (Fsr & Fsq & Fer & Feq); compute_rhs Fsr; compute_rhs Fsq; compute_rhs Fer; compute_rhs Feq;
    cbn [class_reversed class_upper_first] in Er;
    unfold cls_FrontAdapter_reversed, cls_RightmostFrontAdapter_reversed, cls_BackAdapter_reversed, cls_AnywhereAdapter_reversed,
           cls_NonInternalFrontAdapter_reversed, cls_NonInternalBackAdapter_reversed, cls_AnywhereAdapter_upper_first in Er.
  (* Front *)
  1,2: apply (locate_present thr ad (a_seq ad) read false _ _ _ _ a0 a1 r0 r1 sc e); auto; shape_from_flags Fsr Fsq Fer Feq.
  (* RightmostFront: aligned and searched on the reversed strings *)
  1,2: destruct (locate thr (ad_cfg ad) (a_wq ad) (rev (a_seq ad)) (rev read)) as [[[[[[rs re] qs] qe] sc'] e']|] eqn:El; [|discriminate];
       apply (locate_present thr ad (rev (a_seq ad)) (rev read) false _ _ _ _ rs re qs qe sc' e'); rewrite ?zlen_rev; auto using ascii_rev;
       shape_from_flags Fsr Fsq Fer Feq.
  (* Back *)
  1,2: apply (locate_present thr ad (a_seq ad) read false _ _ _ _ a0 a1 r0 r1 sc e); auto; shape_from_flags Fsr Fsq Fer Feq.
  (* Anywhere *)
  1,2: apply (locate_present thr ad (a_seq ad) read true _ _ _ _ a0 a1 r0 r1 sc e); auto; shape_from_flags Fsr Fsq Fer Feq.
  (* NonInternalFront, NonInternalBack *)
  1,2,3,4: apply (locate_present thr ad (a_seq ad) read false _ _ _ _ a0 a1 r0 r1 sc e); auto; shape_from_flags Fsr Fsq Fer Feq.
  (* Prefix, Suffix: with indels the aligner, without them no finder at all *)
  all: destruct (a_indels ad) eqn:Ei; [|reflexivity].
  all: apply (locate_present thr ad (a_seq ad) read false _ _ _ _ a0 a1 r0 r1 sc e); auto; shape_from_flags Fsr Fsq Fer Feq.
Qed.

Theorem prefilter_no_change thr ad read :
  thr 0 = 0 -> (forall i, 0 <= i < zlen (a_seq ad) -> thr i <= thr (i + 1) <= thr i + 1) ->
  (forall i, 1 <= i <= zlen (a_seq ad) -> thr i < i) -> (forall L, thr L <= thr (zlen (a_seq ad))) ->
  ascii (a_seq ad) -> ascii read -> 1 <= a_min_overlap ad -> zlen (a_seq ad) < INDEL_COST_OFF ->
  match_to_prefiltered thr ad read = match_to thr ad read.
Proof.
  intros H0 Hstep Hlt Hb Has Har Hov Hbig. unfold match_to_prefiltered.
  destruct (match_to thr ad read) as [mt|] eqn:Em.
  - rewrite (prefilter_complete thr ad read mt H0 Hstep Hlt Hb Has Har Hov Hbig Em). reflexivity.
  - destruct (prefilter_passes thr ad read); reflexivity.
Qed.

(** the hypotheses on the threshold function, for a table *)
Lemma thr_of_table_ok tab m :
  zlen tab = m + 1 -> znth 0 tab 0 = 0 ->
  forallb (fun i => (znth 0 tab i <=? znth 0 tab (i + 1)) && (znth 0 tab (i + 1) <=? znth 0 tab i + 1)) (zrange 0 (Z.to_nat m)) = true ->
  forallb (fun i => znth 0 tab i <? i) (zrange 1 (Z.to_nat m)) = true ->
  forallb (fun x => (0 <=? x) && (x <=? znth 0 tab m)) tab = true ->
  thr_of tab 0 = 0 /\ (forall i, 0 <= i < m -> thr_of tab i <= thr_of tab (i + 1) <= thr_of tab i + 1) /\
  (forall i, 1 <= i <= m -> thr_of tab i < i) /\ (forall L, thr_of tab L <= thr_of tab m).
Proof.
  intros Hl H0 Hs Hlt Hb. unfold thr_of. split; [exact H0|]. split; [|split].
  - intros i Hi. rewrite forallb_forall in Hs. specialize (Hs i ltac:(apply in_zrange; lia)).
    apply andb_prop in Hs. destruct Hs as [A B]. apply Z.leb_le in A. apply Z.leb_le in B. lia.
  - intros i Hi. rewrite forallb_forall in Hlt. specialize (Hlt i ltac:(apply in_zrange; lia)). apply Z.ltb_lt in Hlt. exact Hlt.
  - intros L. rewrite forallb_forall in Hb.
    assert (H0m : 0 <= znth 0 tab m).
    { specialize (Hb (znth 0 tab m)). unfold znth in *. destruct (m <? 0) eqn:E; [lia|].
      assert (Hin : In (nth (Z.to_nat m) tab 0) tab) by (apply nth_In; unfold zlen in *; apply Z.ltb_ge in E; lia).
      specialize (Hb Hin). apply andb_prop in Hb. destruct Hb as [A _]. apply Z.leb_le in A. exact A. }
    unfold znth at 1. destruct (L <? 0); [exact H0m|].
    destruct (nth_in_or_default (Z.to_nat L) tab 0) as [Hin|Hd]; [|rewrite Hd; exact H0m].
    specialize (Hb _ Hin). apply andb_prop in Hb. destruct Hb as [_ B]. apply Z.leb_le in B. exact B.
Qed.

(** what the aligner finds is what the adapter classes report (match_to with its prefilter) *)
Corollary found_is_reported thr ad read :
  thr 0 = 0 -> (forall i, 0 <= i < zlen (a_seq ad) -> thr i <= thr (i + 1) <= thr i + 1) ->
  (forall i, 1 <= i <= zlen (a_seq ad) -> thr i < i) -> (forall L, thr L <= thr (zlen (a_seq ad))) ->
  ascii (a_seq ad) -> ascii read -> 1 <= a_min_overlap ad -> zlen (a_seq ad) < INDEL_COST_OFF ->
  match_to thr ad read <> None -> match_to_prefiltered thr ad read <> None.
Proof.
  intros H0 Hstep Hlt Hb Has Har Hov Hbig Hm. rewrite (prefilter_no_change thr ad read H0 Hstep Hlt Hb Has Har Hov Hbig). exact Hm.
Qed.
