(** First lemmas about the k-mer prefilter model (C07). *)
From Coq Require Import ZArith List Bool Lia Arith.
From CV Require Import Model.Align Model.Adapters Model.Kmer.
Import ListNotations.
Open Scope Z_scope.

(** the prefilter can only turn an answer into None *)
Lemma prefilter_only_rejects thr ad read :
  match_to_prefiltered thr ad read = match_to thr ad read \/ match_to_prefiltered thr ad read = None.
Proof. unfold match_to_prefiltered. destruct (prefilter_passes thr ad read); auto. Qed.

(** so "the prefilter never changes the result" is exactly "whenever the aligner reports a
    match, the prefilter lets the read through" *)
Lemma no_change_iff thr ad read :
  match_to_prefiltered thr ad read = match_to thr ad read <->
  (match_to thr ad read <> None -> prefilter_passes thr ad read = true).
Proof.
  unfold match_to_prefiltered. destruct (prefilter_passes thr ad read); split; intros H; auto.
  destruct (match_to thr ad read); auto. exfalso. assert (false = true) by (apply H; discriminate). discriminate.
Qed.

(** anchored adapters without indels use the comparers and no prefilter at all *)
Lemma comparer_no_prefilter thr ad read :
  uses_comparer ad = true -> match_to_prefiltered thr ad read = match_to thr ad read.
Proof.
  unfold uses_comparer, match_to_prefiltered, prefilter_passes, finder_of.
  destruct (a_type ad); try discriminate; destruct (a_indels ad); try discriminate; reflexivity.
Qed.

(** kmer_chunks is a partition of the sequence into [chunks] consecutive pieces *)
Lemma take_chunks_concat : forall sizes (s : str),
  fold_right Nat.add 0%nat sizes = length s -> concat (take_chunks sizes s) = s.
Proof.
  induction sizes as [|k t IH]; intros s H; cbn in *.
  - destruct s; [reflexivity | discriminate].
  - rewrite IH.
    + apply firstn_skipn.
    + rewrite skipn_length. lia.
Qed.

Lemma sum_repeat a n : fold_right Nat.add 0%nat (repeat a n) = (a * n)%nat.
Proof. induction n; cbn; lia. Qed.

Lemma sum_app l1 l2 : fold_right Nat.add 0%nat (l1 ++ l2) = (fold_right Nat.add 0%nat l1 + fold_right Nat.add 0%nat l2)%nat.
Proof. induction l1; cbn; lia. Qed.

Lemma kmer_chunks_partition (s : str) (chunks : nat) :
  (0 < chunks)%nat -> concat (kmer_chunks s chunks) = s.
Proof.
  intros Hc. unfold kmer_chunks. apply take_chunks_concat.
  rewrite sum_app, !sum_repeat.
  pose proof (Nat.div_mod (length s) chunks ltac:(lia)) as Hdm.
  pose proof (Nat.mod_upper_bound (length s) chunks ltac:(lia)) as Hub.
  set (q := Nat.div (length s) chunks) in *. set (r := Nat.modulo (length s) chunks) in *.
  nia.
Qed.

Lemma kmer_chunks_count (s : str) (chunks : nat) :
  (0 < chunks)%nat -> length (kmer_chunks s chunks) = chunks.
Proof.
  intros Hc. unfold kmer_chunks.
  assert (H : forall sizes (t : str), length (take_chunks sizes t) = length sizes).
  { induction sizes; intros; cbn; auto. }
  rewrite H, app_length, !repeat_length.
  pose proof (Nat.mod_upper_bound (length s) chunks ltac:(lia)). lia.
Qed.

(** reads shorter than len(adapter) + max_errors always reach the aligner of a semiglobal adapter *)
Lemma anywhere_short_reads_pass thr ad read :
  a_type ad = Anywhere -> zlen read < zlen (a_seq ad) + thr (zlen (a_seq ad)) ->
  prefilter_passes thr ad read = true.
Proof.
  intros Ht Hl. unfold prefilter_passes, finder_of, finder_query. rewrite Ht.
  unfold make_finder, finder_present; cbn [f_min_length f_table andb].
  apply orb_true_intro. left. apply Z.ltb_lt. exact Hl.
Qed.
