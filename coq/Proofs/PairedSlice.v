(** C03 for pairs: with the actions trim / none, each mate that leaves the paired modifier chain is a
    contiguous slice of an input mate, qualities in step (zero-capped at most) -- of its own input
    mate, or, when paired --revcomp decided to swap the pair, of the other mate. *)
From Coq Require Import ZArith List Bool Lia.
From CV Require Import Generated.Tables Model.Base Model.Align Model.Adapters Model.Kmer Model.Qualtrim Model.Pipeline Model.Paired
  Proofs.AlignProofs Proofs.AdapterProofs Proofs.KmerProofs Proofs.SliceProofs Proofs.StageProofs Proofs.ActionProofs
  Proofs.ModifyProofs Proofs.PipelineProofs Proofs.PairedProofs.
Import ListNotations.
Open Scope Z_scope.

(** qualities: a map that only zero-caps (identity when -z is not given); the same for both mates *)
Definition qmap2 (p : poptions) (f : Z -> Z) : Prop := qmap_ok (po_base p) f.

Lemma qmap_side2 p f : qmap_ok (side2 p) f <-> qmap_ok (po_base p) f.
Proof. unfold qmap_ok, side2. cbn [o_qbase o_zero_cap]. tauto. Qed.

Lemma kind_stages_ok o k : k <> KAdapters -> Forall (fun st => st <> StAdapters /\ stage_ok o st) (stages_of_kind o k).
Proof.
  intros Hk. pose proof (stages_ok [k] o) as Hok. unfold stages in Hok. cbn [flat_map] in Hok. rewrite app_nil_r in Hok.
  apply Forall_forall. intros st Hin. split; [|eapply Forall_forall in Hok; eauto].
  intros ->. destruct k; cbn [stages_of_kind] in Hin; try contradiction.
  all: try (apply in_map_iff in Hin; destruct Hin as (? & Hd & _); discriminate).
  all: try (destruct (o_nextseq o); cbn in Hin; intuition discriminate).
  all: try (destruct (o_qcut o) as [[? ?]|]; cbn in Hin; intuition discriminate).
  all: try (destruct (o_poly_a o), (o_poly_t o); cbn in Hin; intuition discriminate).
  all: try (destruct (o_length o); cbn in Hin; intuition discriminate).
  all: try (destruct (o_trim_n o); cbn in Hin; intuition discriminate).
  all: try (destruct (o_length_tag o); cbn in Hin; intuition discriminate).
  all: try (destruct (o_prefix o), (o_suffix o); cbn in Hin; intuition discriminate).
  all: try (destruct (o_zero_cap o); cbn in Hin; intuition discriminate).
Qed.

(** a non-adapter option acts on one mate as a slice *)
Lemma apply_kind_slice o k r i : k <> KAdapters -> wf_read r ->
  wf_read (fst (apply_kind o k (r, i))) /\ exists f, qmap_ok o f /\ sub_read f (fst (apply_kind o k (r, i))) r.
Proof.
  intros Hk Hr. unfold apply_kind.
  destruct (nonadapter_chain o (stages_of_kind o k) (kind_stages_ok o k Hk) r i Hr) as (H1 & _ & H3). split; assumption.
Qed.

(** match_and_trim with action trim / none: a slice *)
Lemma match_and_trim_slice ads times act r :
  Forall wf_padapter ads -> wf_read r -> (act = ATrim \/ act = ANone) ->
  wf_read (fst (match_and_trim ads times act r)) /\ sub_read (fun q => q) (fst (match_and_trim ads times act r)) r.
Proof.
  intros Hwf Hwr Hact. split.
  - apply match_and_trim_wf; auto. destruct Hact as [-> | ->]; exact I.
  - destruct (match_and_trim ads times act r) as [res ms] eqn:E. cbn [fst].
    destruct ms as [|m ms'].
    + pose proof (match_and_trim_no_match _ times act r Hwf Hwr) as H. rewrite E in H. cbn [fst snd] in H.
      rewrite H by reflexivity. destruct Hact as [-> | ->]; apply sub_read_refl.
    + pose proof (match_and_trim_actions _ times act r res (m :: ms') Hwf Hwr E ltac:(discriminate)) as H.
      cbn zeta in H. destruct H as [Hiv H]. destruct Hact as [Ha | Ha]; rewrite Ha in H.
      * eapply read_slice_sub_read; eauto.
      * subst res. apply sub_read_refl.
Qed.

(** --pair-adapters: the pair of matches found is sound *)
Lemma best_pair_ok s1 s2 : forall ads1 ads2 idx best m1 m2,
  Forall wf_padapter ads1 -> Forall wf_padapter ads2 ->
  (forall b1 b2, best = Some (b1, b2) -> m_ok (zlen s1) b1 /\ m_ok (zlen s2) b2) ->
  best_pair idx ads1 ads2 s1 s2 best = Some (m1, m2) -> m_ok (zlen s1) m1 /\ m_ok (zlen s2) m2.
Proof.
  induction ads1 as [|a1 t1 IH]; intros ads2 idx best m1 m2 H1 H2 Hb H; cbn [best_pair] in H; [apply Hb; exact H|].
  destruct ads2 as [|a2 t2]; [apply Hb; exact H|].
  inversion H1; subst. inversion H2; subst.
  eapply IH; [eassumption | eassumption | | exact H].
  intros b1 b2 Hbest.
  destruct (adapter_match idx a1 s1) as [x1|] eqn:E1; [|apply Hb; exact Hbest].
  destruct (adapter_match idx a2 s2) as [x2|] eqn:E2; [|apply Hb; exact Hbest].
  pose proof (adapter_match_ok idx a1 s1 x1 ltac:(assumption) E1) as [Hx1 _].
  pose proof (adapter_match_ok idx a2 s2 x2 ltac:(assumption) E2) as [Hx2 _].
  destruct best as [[c1 c2]|].
  - match type of Hbest with (if ?c then _ else _) = _ => destruct c end.
    + injection Hbest as <- <-. split; assumption.
    + apply Hb. exact Hbest.
  - injection Hbest as <- <-. split; assumption.
Qed.

Lemma apply_one_match_slice act m r : (act = ATrim \/ act = ANone) -> m_ok (rlen r) m -> wf_read r ->
  wf_read (apply_one_match act m r) /\ sub_read (fun q => q) (apply_one_match act m r) r.
Proof.
  intros Hact Hok Hr. unfold apply_one_match. destruct (m_remainder m) as [a b] eqn:Erem.
  destruct Hact as [-> | ->].
  - pose proof (m_trimmed_slice (rlen r) m r Hok Hr eq_refl) as Hs. rewrite Erem in Hs. cbn [fst snd] in Hs.
    pose proof (m_remainder_ok (rlen r) m Hok) as Hiv. rewrite Erem in Hiv.
    split; [eapply read_slice_wf; eauto | eapply read_slice_sub_read; eauto].
  - split; [exact Hr | apply sub_read_refl].
Qed.

(** paired --revcomp: both mates are slices, of their own input mates or of each other's *)
Lemma paired_revcomp_slice o1 o2 sfx r1 r2 :
  Forall wf_padapter (o_adapters o1) -> Forall wf_padapter (o_adapters o2) -> wf_read r1 -> wf_read r2 ->
  (o_action o1 = ATrim \/ o_action o1 = ANone) -> o_action o2 = o_action o1 ->
  let '(x1, x2, _, _, _) := paired_revcomp o1 o2 sfx r1 r2 in
  wf_read x1 /\ wf_read x2 /\
  ((sub_read (fun q => q) x1 r1 /\ sub_read (fun q => q) x2 r2) \/ (sub_read (fun q => q) x1 r2 /\ sub_read (fun q => q) x2 r1)).
Proof.
  intros H1 H2 Hr1 Hr2 Hact Hact2. unfold paired_revcomp. cbv zeta beta.
  assert (Hup : forall r, match o_action o1 with ALowercase => mkR (rname r) (upper (rseq r)) (rqual r) | _ => r end = r)
    by (intros r; destruct Hact as [-> | ->]; reflexivity).
  rewrite !Hup.
  assert (Hmt : forall o r, Forall wf_padapter (o_adapters o) -> (o_action o = ATrim \/ o_action o = ANone) -> wf_read r ->
            let res := fst (match o_adapters o with [] => (r, []) | a :: l => match_and_trim (a :: l) (o_times o) (o_action o) r end) in
            wf_read res /\ sub_read (fun q => q) res r).
  { intros o r Hw Ha Hr. cbv zeta. destruct (o_adapters o) eqn:E; [cbn [fst]; split; [exact Hr | apply sub_read_refl]|].
    apply match_and_trim_slice; assumption. }
  assert (Hact2' : o_action o2 = ATrim \/ o_action o2 = ANone) by (rewrite Hact2; exact Hact).
  pose proof (Hmt o1 r1 H1 Hact Hr1) as A1. pose proof (Hmt o2 r2 H2 Hact2' Hr2) as A2.
  pose proof (Hmt o1 r2 H1 Hact Hr2) as S1. pose proof (Hmt o2 r1 H2 Hact2' Hr1) as S2. cbv zeta in *.
  destruct (match o_adapters o1 with [] => (r1, []) | a :: l => match_and_trim (a :: l) (o_times o1) (o_action o1) r1 end) as [a1 m1].
  destruct (match o_adapters o2 with [] => (r2, []) | a :: l => match_and_trim (a :: l) (o_times o2) (o_action o2) r2 end) as [a2 m2].
  destruct (match o_adapters o1 with [] => (r2, []) | a :: l => match_and_trim (a :: l) (o_times o1) (o_action o1) r2 end) as [s1 sm1].
  destruct (match o_adapters o2 with [] => (r1, []) | a :: l => match_and_trim (a :: l) (o_times o2) (o_action o2) r1 end) as [s2 sm2].
  cbn [fst] in *.
  match goal with |- context [if ?c then _ else _] => destruct c end.
  - destruct S1 as [W1 B1]. destruct S2 as [W2 B2].
    split; [unfold wf_read in *; cbn [rqual rseq]; exact W1|]. split; [unfold wf_read in *; cbn [rqual rseq]; exact W2|].
    right. split; apply sub_read_name; assumption.
  - destruct A1 as [W1 B1]. destruct A2 as [W2 B2]. split; [exact W1|]. split; [exact W2|]. left. split; assumption.
Qed.

(** ---- the invariant of the paired chain *)
Definition prel (p : poptions) (r1 r2 s1 s2 : read) : Prop :=
  wf_read s1 /\ wf_read s2 /\ exists f1 f2, qmap2 p f1 /\ qmap2 p f2 /\
    ((sub_read f1 s1 r1 /\ sub_read f2 s2 r2) \/
     (o_revcomp (po_base p) = true /\ sub_read f1 s1 r2 /\ sub_read f2 s2 r1)).

Lemma prel_step p r1 r2 s1 s2 t1 t2 g1 g2 :
  prel p r1 r2 s1 s2 -> wf_read t1 -> wf_read t2 -> qmap2 p g1 -> qmap2 p g2 ->
  sub_read g1 t1 s1 -> sub_read g2 t2 s2 -> prel p r1 r2 t1 t2.
Proof.
  intros (W1 & W2 & f1 & f2 & Q1 & Q2 & Hrel) Wt1 Wt2 G1 G2 S1 S2. split; [exact Wt1|]. split; [exact Wt2|].
  exists (fun q => g1 (f1 q)), (fun q => g2 (f2 q)). split; [apply qmap_ok_comp; assumption|]. split; [apply qmap_ok_comp; assumption|].
  destruct Hrel as [[A B]|(Hrc & A & B)].
  - left. split; [exact (sub_read_trans f1 g1 t1 s1 r1 S1 A) | exact (sub_read_trans f2 g2 t2 s2 r2 S2 B)].
  - right. split; [exact Hrc|]. split; [exact (sub_read_trans f1 g1 t1 s1 r2 S1 A) | exact (sub_read_trans f2 g2 t2 s2 r1 S2 B)].
Qed.

Lemma prel_swap p r1 r2 s1 s2 t1 t2 :
  prel p r1 r2 s1 s2 -> o_revcomp (po_base p) = true -> wf_read t1 -> wf_read t2 ->
  sub_read (fun q => q) t1 s2 -> sub_read (fun q => q) t2 s1 -> prel p r1 r2 t1 t2.
Proof.
  intros (W1 & W2 & f1 & f2 & Q1 & Q2 & Hrel) Hrc Wt1 Wt2 S1 S2. split; [exact Wt1|]. split; [exact Wt2|].
  exists (fun q => f2 q), (fun q => f1 q). split; [exact Q2|]. split; [exact Q1|].
  destruct Hrel as [[A B]|(_ & A & B)].
  - right. split; [exact Hrc|]. split; [exact (sub_read_trans f2 (fun q => q) t1 s2 r2 S1 B) | exact (sub_read_trans f1 (fun q => q) t2 s1 r1 S2 A)].
  - left. split; [exact (sub_read_trans f2 (fun q => q) t1 s2 r1 S1 B) | exact (sub_read_trans f1 (fun q => q) t2 s1 r2 S2 A)].
Qed.

Lemma qmap2_id p : qmap2 p (fun q => q).
Proof. split; [apply cap_like_id | auto]. Qed.

Lemma apply_pkind_prel p k r1 r2 (s : pstate) :
  Forall wf_padapter (o_adapters (po_base p)) -> Forall wf_padapter (po_adapters2 p) ->
  (o_action (po_base p) = ATrim \/ o_action (po_base p) = ANone) ->
  prel p r1 r2 (fst (fst s)) (fst (snd s)) ->
  prel p r1 r2 (fst (fst (apply_pkind p k s))) (fst (snd (apply_pkind p k s))).
Proof.
  intros H1 H2 Hact Hrel. destruct s as [[a i1] [b i2]]. cbn [fst snd] in Hrel.
  pose proof Hrel as (Wa & Wb & _).
  assert (Hside : forall k', k' <> KAdapters ->
            prel p r1 r2 (fst (apply_kind (side1 p) k' (a, i1))) (fst (apply_kind (side2 p) k' (b, i2)))).
  { intros k' Hk'. destruct (apply_kind_slice (side1 p) k' a i1 Hk' Wa) as (W1 & g1 & G1 & S1).
    destruct (apply_kind_slice (side2 p) k' b i2 Hk' Wb) as (W2 & g2 & G2 & S2).
    apply (prel_step p r1 r2 a b _ _ g1 g2 Hrel W1 W2 G1 (proj1 (qmap_side2 p g2) G2) S1 S2). }
  destruct k; try (cbn [apply_pkind fst snd]; apply Hside; discriminate).
  (* the adapter stage *)
  cbn [apply_pkind]. unfold side1 in *. cbn [o_adapters side2 o_revcomp o_action] in *.
  set (o1 := po_base p) in *. set (o2 := side2 p) in *.
  assert (Ho2a : o_adapters o2 = po_adapters2 p) by reflexivity.
  assert (Ho2act : o_action o2 = o_action o1) by reflexivity.
  assert (Ho2rc : o_revcomp o2 = o_revcomp o1) by reflexivity.
  assert (Hgoal : prel p r1 r2
            (fst (fst (if po_pair_adapters p
                       then let '(a1, a2, m1, m2) := pair_adapters_stage o1 o2 a b in ((a1, set_matches i1 m1 (i_is_rc i1)), (a2, set_matches i2 m2 (i_is_rc i2)))
                       else if o_revcomp o1
                            then let '(a1, a2, m1, m2, rc) := paired_revcomp o1 o2 [32; 114; 99] a b in ((a1, set_matches i1 m1 (Some rc)), (a2, set_matches i2 m2 (Some rc)))
                            else (match o_adapters o1 with [] => (a, i1) | _ :: _ => apply_stage o1 StAdapters (a, i1) end,
                                  match o_adapters o2 with [] => (b, i2) | _ :: _ => apply_stage o2 StAdapters (b, i2) end))))
            (fst (snd (if po_pair_adapters p
                       then let '(a1, a2, m1, m2) := pair_adapters_stage o1 o2 a b in ((a1, set_matches i1 m1 (i_is_rc i1)), (a2, set_matches i2 m2 (i_is_rc i2)))
                       else if o_revcomp o1
                            then let '(a1, a2, m1, m2, rc) := paired_revcomp o1 o2 [32; 114; 99] a b in ((a1, set_matches i1 m1 (Some rc)), (a2, set_matches i2 m2 (Some rc)))
                            else (match o_adapters o1 with [] => (a, i1) | _ :: _ => apply_stage o1 StAdapters (a, i1) end,
                                  match o_adapters o2 with [] => (b, i2) | _ :: _ => apply_stage o2 StAdapters (b, i2) end))))).
  { destruct (po_pair_adapters p).
    - (* --pair-adapters *)
      unfold pair_adapters_stage.
      destruct (best_pair 0 (o_adapters o1) (o_adapters o2) (rseq a) (rseq b) None) as [[m1 m2]|] eqn:Eb; cbn [fst snd]; [|exact Hrel].
      destruct (best_pair_ok (rseq a) (rseq b) _ _ 0 None m1 m2 H1 H2 ltac:(intros; discriminate) Eb) as [Hm1 Hm2].
      destruct (apply_one_match_slice (o_action o1) m1 a Hact Hm1 Wa) as [W1 S1].
      destruct (apply_one_match_slice (o_action o1) m2 b Hact Hm2 Wb) as [W2 S2].
      apply (prel_step p r1 r2 a b _ _ (fun q => q) (fun q => q) Hrel W1 W2 (qmap2_id p) (qmap2_id p) S1 S2).
    - destruct (o_revcomp o1) eqn:Erc.
      + pose proof (paired_revcomp_slice o1 o2 [32; 114; 99] a b H1 H2 Wa Wb Hact Ho2act) as Hp.
        destruct (paired_revcomp o1 o2 [32; 114; 99] a b) as [[[[x1 x2] m1] m2] rc]. cbn [fst snd].
        destruct Hp as (W1 & W2 & [[S1 S2]|[S1 S2]]).
        * apply (prel_step p r1 r2 a b _ _ (fun q => q) (fun q => q) Hrel W1 W2 (qmap2_id p) (qmap2_id p) S1 S2).
        * apply (prel_swap p r1 r2 a b x1 x2 Hrel Erc W1 W2 S1 S2).
      + (* each mate by its own cutter *)
        assert (Hs1 : wf_read (fst (match o_adapters o1 with [] => (a, i1) | _ :: _ => apply_stage o1 StAdapters (a, i1) end)) /\
                      sub_read (fun q => q) (fst (match o_adapters o1 with [] => (a, i1) | _ :: _ => apply_stage o1 StAdapters (a, i1) end)) a).
        { destruct (o_adapters o1) eqn:E; [cbn [fst]; split; [exact Wa | apply sub_read_refl]|]. rewrite <- E in H1.
          pose proof (adapter_stage_slice o1 a i1 H1 Wa Hact) as Hx. cbn zeta in Hx. destruct Hx as [Hw [(Hs & _)|(Hr & _)]]; [split; assumption | congruence]. }
        assert (Hs2 : wf_read (fst (match o_adapters o2 with [] => (b, i2) | _ :: _ => apply_stage o2 StAdapters (b, i2) end)) /\
                      sub_read (fun q => q) (fst (match o_adapters o2 with [] => (b, i2) | _ :: _ => apply_stage o2 StAdapters (b, i2) end)) b).
        { destruct (o_adapters o2) eqn:E; [cbn [fst]; split; [exact Wb | apply sub_read_refl]|].
          pose proof (adapter_stage_slice o2 b i2 H2 Wb Hact) as Hx. cbn zeta in Hx.
          destruct Hx as [Hw [(Hs & _)|(Hr & _)]]; [split; assumption | congruence]. }
        cbn [fst snd]. destruct Hs1 as [W1 S1]. destruct Hs2 as [W2 S2].
        apply (prel_step p r1 r2 a b _ _ (fun q => q) (fun q => q) Hrel W1 W2 (qmap2_id p) (qmap2_id p) S1 S2). }
  revert Hgoal. change (o_adapters o2) with (po_adapters2 p).
  destruct (o_adapters o1) eqn:E1; destruct (po_adapters2 p) eqn:E2; intros Hgoal; try exact Hgoal.
  exact Hrel.
Qed.

(** C03 for pairs *)
Theorem pmodify_slices order p r1 r2 :
  Forall wf_padapter (o_adapters (po_base p)) -> Forall wf_padapter (po_adapters2 p) ->
  (o_action (po_base p) = ATrim \/ o_action (po_base p) = ANone) -> wf_read r1 -> wf_read r2 ->
  let s := pmodify order p r1 r2 in
  prel p r1 r2 (fst (fst s)) (fst (snd s)).
Proof.
  intros H1 H2 Hact Hr1 Hr2. cbv zeta. unfold pmodify.
  assert (H0 : prel p r1 r2 (fst (fst ((r1, init_info r1), (r2, init_info r2)))) (fst (snd ((r1, init_info r1), (r2, init_info r2))))).
  { cbn [fst snd]. split; [exact Hr1|]. split; [exact Hr2|]. exists (fun q => q), (fun q => q).
    split; [apply qmap2_id|]. split; [apply qmap2_id|]. left. split; apply sub_read_refl. }
  revert H0. generalize ((r1, init_info r1), (r2, init_info r2)). induction order as [|k t IH]; intros s Hs; cbn [fold_left]; [exact Hs|].
  apply IH. apply apply_pkind_prel; assumption.
Qed.
