(** x{n} in the adapter notation (C18): the printed form of a sequence of segments -- a non-empty text without braces,
    optionally followed by {digits} -- is expanded by [expand_braces] into the texts with the last character of each
    counted segment repeated n times (n = 0 removes it). *)
From Coq Require Import ZArith QArith List Bool Lia.
From CV Require Import Model.Base Model.Align Model.Adapters Model.Parser Proofs.ParserProofs Proofs.ParserRoundTrip.
Import ListNotations.
Open Scope Z_scope.

Record seg := mkSeg { g_text : str; g_count : option str }.

Definition nobrace (s : str) : Prop := ~ In 123 s /\ ~ In 125 s.

Definition wf_seg (g : seg) : Prop :=
  g_text g <> [] /\ nobrace (g_text g) /\
  match g_count g with
  | None => True
  | Some ds => ds <> [] /\ all_digits ds = true /\ dval ds <= 10000
  end.

Definition show_seg (g : seg) : str :=
  g_text g ++ match g_count g with None => [] | Some ds => 123 :: ds ++ [125] end.

Definition seg_meaning (g : seg) : str :=
  match g_count g with
  | None => g_text g
  | Some ds => removelast (g_text g) ++ repeat (List.last (g_text g) 0) (Z.to_nat (dval ds))
  end.

Definition show_segs (l : list seg) : str := concat (map show_seg l).
Definition segs_meaning (l : list seg) : str := concat (map seg_meaning l).

Lemma brace_tokens_text : forall s rest cur, nobrace s -> brace_tokens (s ++ rest) cur = brace_tokens rest (rev s ++ cur).
Proof.
  induction s as [|c t IH]; intros rest cur [H1 H2]; [reflexivity|]. cbn [app brace_tokens].
  assert (c <> 123) as N1 by (intros ->; apply H1; now left). assert (c <> 125) as N2 by (intros ->; apply H2; now left).
  apply Z.eqb_neq in N1. apply Z.eqb_neq in N2. rewrite N1, N2.
  rewrite IH by (split; intros H; [apply H1 | apply H2]; now right). cbn [rev]. rewrite <- app_assoc. reflexivity.
Qed.

Lemma digits_nobrace ds : all_digits ds = true -> nobrace ds.
Proof. intros H. split; apply digits_no_char; auto. Qed.

Lemma rev_nonempty (s : str) : s <> [] -> rev s <> [].
Proof. intros H E. apply H. apply (f_equal (@rev Z)) in E. rewrite rev_involutive in E. exact E. Qed.

Lemma removelast_app' (a b : str) : b <> [] -> removelast (a ++ b) = a ++ removelast b.
Proof. intros H. now apply removelast_app. Qed.

Lemma last_app' (a b : str) d : b <> [] -> List.last (a ++ b) d = List.last b d.
Proof.
  intros H. induction a as [|x a IH]; [reflexivity|]. cbn [app]. destruct (a ++ b) eqn:E.
  - apply app_eq_nil in E. destruct E as [_ E]. congruence.
  - change (List.last (x :: z :: l) d) with (List.last (z :: l) d). exact IH.
Qed.

(** the general statement: pending text [cur], state BNone *)
Lemma expand_segs : forall l cur result, Forall wf_seg l ->
  expand_run (brace_tokens (show_segs l) cur) BNone result = Ok (result ++ rev cur ++ segs_meaning l).
Proof.
  induction l as [|g l IH]; intros cur result Hw.
  - unfold show_segs, segs_meaning. cbn [map concat brace_tokens]. rewrite app_nil_r.
    destruct cur as [|x cur']; [cbn; rewrite app_nil_r; reflexivity|].
    cbn [app expand_run]. reflexivity.
  - inversion Hw as [|? ? Hg Hl]; subst. destruct Hg as (Hne & Hnb & Hc).
    unfold show_segs, segs_meaning. cbn [map concat]. fold (show_segs l). fold (segs_meaning l).
    unfold show_seg, seg_meaning. destruct (g_count g) as [ds|].
    + destruct Hc as (Hdne & Hd & Hle).
      rewrite <- app_assoc. rewrite brace_tokens_text by exact Hnb.
      cbn [app brace_tokens]. change (123 =? 123) with true. cbv iota.
      assert (rev (g_text g) ++ cur <> []) as Hp.
      { intros E. apply app_eq_nil in E. destruct E as [E _]. revert E. now apply rev_nonempty. }
      destruct (rev (g_text g) ++ cur) as [|p0 pt] eqn:Ep; [congruence|]. rewrite <- Ep.
      rewrite <- app_assoc. rewrite brace_tokens_text by (apply digits_nobrace, Hd).
      cbn [app brace_tokens]. change (125 =? 123) with false. change (125 =? 125) with true. cbv iota.
      rewrite app_nil_r.
      destruct (rev ds) as [|d0 dt] eqn:Ed; [exfalso; revert Ed; now apply rev_nonempty|]. rewrite <- Ed.
      cbn [app expand_run]. rewrite rev_involutive. rewrite parse_digits_dval by exact Hd.
      apply Z.leb_le in Hle. rewrite Hle.
      rewrite IH by exact Hl. cbn [rev app].
      rewrite rev_app_distr, rev_involutive.
      rewrite app_assoc. rewrite removelast_app' by exact Hne. rewrite last_app' by exact Hne.
      rewrite <- !app_assoc. reflexivity.
    + rewrite app_nil_r. rewrite brace_tokens_text by exact Hnb. rewrite IH by exact Hl.
      rewrite rev_app_distr, rev_involutive. rewrite <- !app_assoc. reflexivity.
Qed.

(** with brace-free text before and after (restriction markers, a name is split off earlier) *)
Theorem expand_braces_segs pre l post : nobrace pre -> nobrace post -> Forall wf_seg l ->
  expand_braces (pre ++ show_segs l ++ post) = Ok (pre ++ segs_meaning l ++ post).
Proof.
  intros Hpre Hpost Hw. unfold expand_braces. rewrite brace_tokens_text by exact Hpre. rewrite app_nil_r.
  destruct post as [|c t] eqn:E.
  - rewrite !app_nil_r. rewrite expand_segs by exact Hw. rewrite rev_involutive. reflexivity.
  - rewrite <- E in *.
    assert (show_segs l ++ post = show_segs (l ++ [mkSeg post None])) as ->.
    { unfold show_segs. rewrite map_app, concat_app. cbn. unfold show_seg. cbn. rewrite !app_nil_r. reflexivity. }
    rewrite expand_segs.
    + rewrite rev_involutive. unfold segs_meaning. rewrite map_app, concat_app. cbn. rewrite app_nil_r. reflexivity.
    + apply Forall_app. split; [exact Hw|]. constructor; [|constructor]. repeat split; cbn; try apply Hpost. rewrite E. discriminate.
Qed.

(** AC{3}G$ -> ACCCG$ ; N{0}ACGT -> ACGT *)
Example expand_example :
  expand_braces ([94] ++ show_segs [mkSeg [65;67] (Some [51]); mkSeg [71] None] ++ [36]) = Ok [94;65;67;67;67;71;36]
  /\ show_segs [mkSeg [65;67] (Some [51]); mkSeg [71] None] = [65;67;123;51;125;71]
  /\ Forall wf_seg [mkSeg [65;67] (Some [51]); mkSeg [71] None].
Proof.
  split; [vm_compute; reflexivity|]. split; [vm_compute; reflexivity|].
  repeat constructor; cbn; try discriminate; try (intros [H|[H|H]]; (discriminate || tauto)); try (intros [H|H]; (discriminate || tauto)).
Qed.

(** ---- the round trip with x{n} inside the core *)
Definition mark_pre (m : mark) : str := match m with MCaret => [94] | MFrontX x xs => x :: xs | _ => [] end.
Definition mark_post (m : mark) : str := match m with MDollar => [36] | MBackX x xs => rev (x :: xs) | _ => [] end.

Lemma show_marked_split m core : show_marked m core = mark_pre m ++ core ++ mark_post m.
Proof. destruct m; cbn [show_marked mark_pre mark_post app]; rewrite ?app_nil_r; reflexivity. Qed.

Record bast := mkB { b_name : option str; b_mark : mark; b_segs : list seg; b_fields : list field }.

Definition seg_chars (g : seg) : Prop :=
  forallb core_char (g_text g) = true.

Definition wf_bast (a : bast) : Prop :=
  match b_name a with Some n => wf_name n | None => True end /\
  wf_mark (b_mark a) /\ Forall wf_seg (b_segs a) /\ Forall seg_chars (b_segs a) /\
  wf_core (segs_meaning (b_segs a)) /\
  Forall wf_field (b_fields a) /\ NoDup (map f_key (b_fields a)).

Definition show_bast (a : bast) : str :=
  match b_name a with Some n => n ++ [61] | None => [] end ++ show_marked (b_mark a) (show_segs (b_segs a)) ++
  match b_fields a with [] => [] | _ => 59 :: pspec_of (b_fields a) end.

Definition print_char (c : Z) : bool := negb (is_space c) && negb (c =? 59) && negb (c =? 61).

Lemma print_char_facts s : forallb print_char s = true -> nospace s = true /\ ~ In 59 s /\ ~ In 61 s.
Proof.
  intros H. rewrite forallb_forall in H.
  assert (forall c, print_char c = true -> is_space c = false /\ c <> 59 /\ c <> 61) as F.
  { intros c Hc. unfold print_char in Hc. repeat (apply andb_prop in Hc; destruct Hc as [Hc ?]).
    repeat match goal with H : negb _ = true |- _ => apply negb_true_iff in H end.
    repeat match goal with H : (_ =? _) = false |- _ => apply Z.eqb_neq in H end. auto. }
  split; [|split; intros Hin; destruct (F _ (H _ Hin)) as (_ & ? & ?); congruence].
  unfold nospace. rewrite forallb_forall. intros x Hx. destruct (F _ (H _ Hx)) as (Hs & _). now rewrite Hs.
Qed.

Lemma core_char_print c : core_char c = true -> print_char c = true.
Proof.
  unfold core_char, print_char. intros H. repeat (apply andb_prop in H; destruct H as [H ?]).
  repeat match goal with H : _ = true |- _ => rewrite H end. reflexivity.
Qed.

Lemma digits_print ds : all_digits ds = true -> forallb print_char ds = true.
Proof.
  unfold all_digits. rewrite !forallb_forall. intros H x Hx. specialize (H x Hx). unfold is_digit in H.
  apply andb_prop in H. destruct H as [H1 H2]. apply Z.leb_le in H1. apply Z.leb_le in H2.
  unfold print_char, is_space.
  assert (x =? 32 = false) as -> by (apply Z.eqb_neq; lia).
  assert (x <=? 13 = false) as -> by (apply Z.leb_gt; lia).
  assert (x =? 59 = false) as -> by (apply Z.eqb_neq; lia).
  assert (x =? 61 = false) as -> by (apply Z.eqb_neq; lia).
  rewrite andb_false_r. reflexivity.
Qed.

Lemma show_segs_print l : Forall wf_seg l -> Forall seg_chars l -> forallb print_char (show_segs l) = true.
Proof.
  induction l as [|g l IH]; intros Hw Hc; [reflexivity|].
  inversion Hw as [|? ? Hg Hl]; subst. inversion Hc as [|? ? Cg Cl]; subst.
  unfold show_segs. cbn [map concat]. fold (show_segs l). rewrite forallb_app, (IH Hl Cl), andb_true_r.
  unfold show_seg. rewrite forallb_app.
  assert (forallb print_char (g_text g) = true) as ->.
  { unfold seg_chars in Cg. rewrite forallb_forall in *. intros x Hx. apply core_char_print, Cg, Hx. }
  destruct Hg as (_ & _ & Hcnt). destruct (g_count g) as [ds|]; [|reflexivity].
  destruct Hcnt as (_ & Hd & _). cbn [forallb andb]. rewrite forallb_app, (digits_print ds Hd). reflexivity.
Qed.

Lemma marker_print s : forallb marker_char s = true -> forallb print_char s = true.
Proof.
  rewrite !forallb_forall. intros H x Hx. specialize (H x Hx). unfold marker_char in H.
  assert (x = 94 \/ x = 36 \/ x = 88 \/ x = 120) as D.
  { repeat (apply orb_prop in H; destruct H as [H|H]); apply Z.eqb_eq in H; auto. }
  destruct D as [-> | [-> | [-> | ->]]]; reflexivity.
Qed.

Lemma marker_nobrace s : forallb marker_char s = true -> nobrace s.
Proof.
  rewrite forallb_forall. intros H. split; intros Hin; specialize (H _ Hin); discriminate.
Qed.

Lemma mark_pre_marker m : wf_mark m -> forallb marker_char (mark_pre m) = true.
Proof. destruct m; cbn [mark_pre wf_mark]; intros H; try reflexivity. now apply all_xs_marker. Qed.

Lemma mark_post_marker m : wf_mark m -> forallb marker_char (mark_post m) = true.
Proof.
  destruct m; cbn [mark_post wf_mark]; intros H; try reflexivity.
  apply all_xs_marker in H. rewrite forallb_forall in *. intros y Hy. apply H. now apply in_rev.
Qed.

Theorem parse_spec_printed_braces a t : wf_bast a ->
  parse_spec (show_bast a) t =
  match post_params (map meaning (b_fields a)) with
  | Err => Err
  | Ok ps => finish (b_name a) (mark_front (b_mark a)) (mark_back (b_mark a)) (segs_meaning (b_segs a)) ps t
  end.
Proof.
  intros (Hn & Hm & Hs & Hsc & Hc & Hf & Hnd). unfold show_bast. rewrite app_assoc.
  assert (forallb print_char (show_marked (b_mark a) (show_segs (b_segs a))) = true) as Hp.
  { rewrite show_marked_split, !forallb_app. rewrite (marker_print _ (mark_pre_marker _ Hm)), (marker_print _ (mark_post_marker _ Hm)).
    rewrite (show_segs_print _ Hs Hsc). reflexivity. }
  apply print_char_facts in Hp. destruct Hp as (P1 & P2 & P3).
  apply parse_spec_generic with (eb := show_marked (b_mark a) (segs_meaning (b_segs a))); try assumption.
  - rewrite !show_marked_split. apply expand_braces_segs; [apply marker_nobrace, mark_pre_marker, Hm | apply marker_nobrace, mark_post_marker, Hm | exact Hs].
  - now apply all_x_marked.
  - now apply parse_restrictions_marked.
Qed.

(** "^AC{3}G;noindels" means the anchored 5' adapter ACCCG without indels *)
Definition ex_bast : bast :=
  mkB None MCaret [mkSeg [65;67] (Some [51]); mkSeg [71] None] [mkF [110;111;105;110;100;101;108;115] KNoIndels PFlag].

Example ex_bast_round_trip :
  show_bast ex_bast = [94;65;67;123;51;125;71;59;110;111;105;110;100;101;108;115] /\
  parse_spec (show_bast ex_bast) TFront = Ok (mkSpec None RAnchored [65;67;67;67;71] [(KIndels, VInt 0)] TFront false).
Proof. split; vm_compute; reflexivity. Qed.

Example ex_bast_wf : wf_bast ex_bast.
Proof.
  unfold wf_bast, ex_bast; cbn [b_name b_mark b_segs b_fields].
  split; [exact I|]. split; [exact I|].
  split; [apply expand_example|].
  split; [repeat constructor|].
  split; [repeat split; vm_compute; congruence|].
  split.
  - constructor; [|constructor]. split; [cbn; tauto | exact I].
  - cbn. constructor; [cbn; tauto | constructor].
Qed.

(** ---- the documented table, read off the printed string: option letter x marker -> restriction of the parsed specification
    (and, through [class_of], the adapter class); a marker on the wrong side for the option is refused, -b takes no marker *)
Definition documented_restriction (t : cmdtype) (m : mark) : option restriction :=
  match t, m with
  | _, MNone => Some RNone
  | TFront, MCaret => Some RAnchored
  | TFront, MFrontX _ _ => Some RNonInternal
  | TBack, MDollar => Some RAnchored
  | TBack, MBackX _ _ => Some RNonInternal
  | _, _ => None
  end.

Theorem printed_table name m core t :
  let a := mkA name m core [] in
  wf_sast a ->
  parse_spec (show_sast a) t =
  match documented_restriction t m with
  | Some r => Ok (mkSpec name r core [] t false)
  | None => Err
  end.
Proof.
  intros a Hw. rewrite parse_spec_printed by exact Hw. subst a. cbn [s_fields s_name s_mark s_core map].
  destruct t, m; reflexivity.
Qed.

Corollary printed_table_classes :
  let cls t m := match documented_restriction t m with Some r => Some (class_of t r false) | None => None end in
  forall x xs,
  cls TBack MNone = Some Back /\ cls TBack MDollar = Some Suffix /\ cls TBack (MBackX x xs) = Some NonInternalBack /\
  cls TFront MNone = Some Front /\ cls TFront MCaret = Some Prefix /\ cls TFront (MFrontX x xs) = Some NonInternalFront /\
  cls TAnywhere MNone = Some Anywhere /\
  cls TBack MCaret = None /\ cls TBack (MFrontX x xs) = None /\ cls TFront MDollar = None /\ cls TFront (MBackX x xs) = None /\
  cls TAnywhere MCaret = None /\ cls TAnywhere MDollar = None /\ cls TAnywhere (MFrontX x xs) = None /\ cls TAnywhere (MBackX x xs) = None.
Proof. intros cls x xs. repeat split; reflexivity. Qed.
